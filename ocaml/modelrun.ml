(* Generic driver around an extracted model entry point  run : tm -> tm.
   stdin: one case per line, "<input term>\t<observed output term>" (or only "<input term>" with -eval).
   Term syntax: hex number | #hexbytes | ( t ... ).
   stdout: "MISMATCH <line#>\t<input>\t<model>\t<impl>" per differing case, then "DONE total=.. mismatches=..". *)
module BZ = Z   (* zarith, before the extracted model's own Z shadows it *)
open Model

let rec pos_of_z (z : BZ.t) : positive =
  if BZ.equal z BZ.one then XH
  else if BZ.testbit z 0 then XI (pos_of_z (BZ.shift_right z 1))
  else XO (pos_of_z (BZ.shift_right z 1))
let n_of_z (z : BZ.t) : n = if BZ.equal z BZ.zero then N0 else Npos (pos_of_z z)
let rec z_of_pos = function
  | XH -> BZ.one
  | XO p -> BZ.shift_left (z_of_pos p) 1
  | XI p -> BZ.succ (BZ.shift_left (z_of_pos p) 1)
let z_of_n = function N0 -> BZ.zero | Npos p -> z_of_pos p

let small = Array.init 256 (fun i -> n_of_z (BZ.of_int i))
let int_of_n x = BZ.to_int (z_of_n x)

exception Parse of string

let parse (s : string) : tm =
  let len = String.length s in
  let i = ref 0 in
  let skip () = while !i < len && (s.[!i] = ' ') do incr i done in
  let hexval c = match c with
    | '0'..'9' -> Char.code c - 48 | 'a'..'f' -> Char.code c - 87 | 'A'..'F' -> Char.code c - 55
    | _ -> raise (Parse "hex") in
  let is_hex c = match c with '0'..'9' | 'a'..'f' | 'A'..'F' -> true | _ -> false in
  let rec term () : tm =
    skip ();
    if !i >= len then raise (Parse "eof");
    match s.[!i] with
    | '(' -> incr i; let items = ref [] in
        let rec loop () = skip ();
          if !i >= len then raise (Parse "unclosed")
          else if s.[!i] = ')' then incr i
          else (items := term () :: !items; loop ()) in
        loop (); TL (List.rev !items)
    | '#' -> incr i; let bs = ref [] in
        while !i + 1 < len && is_hex s.[!i] && is_hex s.[!i+1] do
          bs := small.(hexval s.[!i] * 16 + hexval s.[!i+1]) :: !bs; i := !i + 2
        done; TB (List.rev !bs)
    | c when is_hex c -> let st = !i in
        while !i < len && is_hex s.[!i] do incr i done;
        TN (n_of_z (BZ.of_string_base 16 (String.sub s st (!i - st))))
    | _ -> raise (Parse (Printf.sprintf "char at %d" !i)) in
  let t = term () in skip ();
  if !i <> len then raise (Parse "trailing"); t

let rec print (b : Buffer.t) (t : tm) : unit =
  match t with
  | TN x -> Buffer.add_string b (BZ.format "%x" (z_of_n x))
  | TB bs -> Buffer.add_char b '#'; List.iter (fun x -> Buffer.add_string b (Printf.sprintf "%02x" (int_of_n x))) bs
  | TL l -> Buffer.add_char b '(';
      List.iteri (fun k x -> if k > 0 then Buffer.add_char b ' '; print b x) l;
      Buffer.add_char b ')'
let show t = let b = Buffer.create 64 in print b t; Buffer.contents b

let () =
  let eval = Array.length Sys.argv > 1 && Sys.argv.(1) = "-eval" in
  let total = ref 0 and bad = ref 0 and ln = ref 0 in
  (try while true do
    let line = input_line stdin in
    incr ln;
    if String.length line > 0 && line.[0] <> ';' then begin
      incr total;
      let inp, exp = match String.index_opt line '\t' with
        | Some k -> String.sub line 0 k, String.sub line (k+1) (String.length line - k - 1)
        | None -> line, "" in
      let out = (try show (run (parse inp)) with
                 | Parse m -> "PARSE-ERROR:" ^ m
                 | Stack_overflow -> "MODEL-STACK-OVERFLOW") in
      if eval then print_endline out
      else if out <> String.trim exp then begin
        incr bad; Printf.printf "MISMATCH %d\t%s\t%s\t%s\n" !ln inp out exp end
    end
  done with End_of_file -> ());
  Printf.printf "DONE total=%d mismatches=%d\n" !total !bad
