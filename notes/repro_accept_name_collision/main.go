// Reproduction: an accepted remoting connection is black-holed when its peer address (ip:port) equals that of an
// earlier accepted connection whose peer closed with FIN (no zero-length close frame): the earlier connection's reader
// actor /@remoting/accept-<ip:port> stays registered for ever (onReadConn returns on io.EOF without killing the actor),
// so ServerActor.onConnection's ActorOf fails with "actor already exists", nobody replies to the acceptor and nobody
// reads the new connection, while the dialling system completed the handshake and keeps writing into it.
package main

import (
	"fmt"
	"io"
	"net"
	"os"
	"syscall"
	"time"

	"github.com/kercylan98/vivid"
	"github.com/kercylan98/vivid/pkg/bootstrap"
)

func freePort() string {
	l, _ := net.Listen("tcp", "127.0.0.1:0")
	a := l.Addr().String()
	l.Close()
	return a
}

// forwarder: accepts on its own address, dials target FROM THE FIXED LOCAL ADDRESS local, pipes both ways
type fwd struct {
	ln            net.Listener
	target, local string
	cli, srv      net.Conn
}

func (f *fwd) loop() {
	for {
		c, err := f.ln.Accept()
		if err != nil {
			return
		}
		la, _ := net.ResolveTCPAddr("tcp", f.local)
		d := net.Dialer{LocalAddr: la, Timeout: 3 * time.Second, Control: func(network, address string, rc syscall.RawConn) error {
			var e error
			rc.Control(func(fd uintptr) { e = syscall.SetsockoptInt(int(fd), syscall.SOL_SOCKET, syscall.SO_REUSEADDR, 1) })
			return e
		}}
		s, err := d.Dial("tcp", f.target)
		if err != nil {
			fmt.Println("forwarder: dial from", f.local, "failed:", err)
			c.Close()
			continue
		}
		f.cli, f.srv = c, s
		go func() { io.Copy(s, c) }()
		go func() { io.Copy(c, s) }()
	}
}

func main() {
	withFIN := len(os.Args) < 2 || os.Args[1] != "rst"
	bind1, bind2, local := freePort(), freePort(), freePort()
	ln, _ := net.Listen("tcp", "127.0.0.1:0")
	f := &fwd{ln: ln, target: bind1, local: local}
	go f.loop()
	s1 := bootstrap.NewActorSystem(vivid.WithActorSystemRemoting(bind1, ln.Addr().String()))
	s2 := bootstrap.NewActorSystem(vivid.WithActorSystemRemoting(bind2, bind2))
	if err := s1.Start(); err != nil {
		panic(err)
	}
	if err := s2.Start(); err != nil {
		panic(err)
	}
	time.Sleep(300 * time.Millisecond)
	tgt, err := s1.ActorOf(vivid.ActorFN(func(ctx vivid.ActorContext) {}), vivid.WithActorName("target"))
	if err != nil {
		panic(err)
	}
	remote, err := s2.CreateRef(ln.Addr().String(), tgt.GetPath())
	if err != nil {
		panic(err)
	}
	ping := func(what string) {
		t := time.Now()
		_, err := s2.Ping(remote, 3*time.Second)
		fmt.Printf("%-60s err=%v (%.2fs)\n", what, err, time.Since(t).Seconds())
	}
	ping("Ping over connection 1 (peer address of system 1's side: " + local + ")")
	// the path between the systems goes away: towards system 1 with FIN (or RST: control), towards system 2 with RST
	if withFIN {
		f.srv.(*net.TCPConn).CloseWrite() // FIN: system 1's reader sees io.EOF
		time.Sleep(300 * time.Millisecond)
	}
	f.srv.(*net.TCPConn).SetLinger(0) // then RST: frees the 4-tuple at once
	f.srv.Close()
	f.cli.(*net.TCPConn).SetLinger(0)
	f.cli.Close()
	time.Sleep(300 * time.Millisecond)
	for i := 0; i < 4; i++ {
		ping(fmt.Sprintf("Ping %d after the path was re-established from the same peer address", i+1))
	}
	s2.Stop(2 * time.Second)
	s1.Stop(2 * time.Second)
}
