open Vvmodel
let rec n_of_int i = if i = 0 then N0 else Npos (pos_of_int i)
and pos_of_int i = if i = 1 then XH else if i land 1 = 0 then XO (pos_of_int (i lsr 1)) else XI (pos_of_int (i lsr 1))
let () =
  let mk l = vv_of_list (List.map (fun (a,b) -> (n_of_int a, n_of_int b)) l) in
  let a = mk [(1,2);(2,0)] and b = mk [(1,1);(3,5)] in
  let t0 = Sys.time () in
  let c = ref 0 in
  for _ = 1 to 100000 do
    (match vv_compare a b with Concurrent -> incr c | _ -> ());
    ignore (vv_merge a b)
  done;
  Printf.printf "concurrent=%d time=%.2fs\n" !c (Sys.time () -. t0)
