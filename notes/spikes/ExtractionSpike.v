Require Import VV.
From Coq Require Import Extraction ExtrOcamlBasic.
From stdpp Require Import gmap.
Definition vv_of_list (l : list (N * N)) : gmap N N := list_to_map l.
Definition vv_to_list (m : gmap N N) : list (N * N) := map_to_list m.
Definition vv_compare := VV.compare.
Definition vv_merge := VV.merge.
Extraction "vvmodel.ml" vv_compare vv_merge vv_of_list vv_to_list.
