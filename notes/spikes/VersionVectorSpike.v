From stdpp Require Import gmap numbers.
From Coq Require Import NArith Lia.

Notation vv := (gmap N N).
Definition get (v : vv) (k : N) : N := default 0%N (v !! k).

Definition merge (a b : vv) : vv := union_with (fun x y => Some (N.max x y)) a b.

(* flags as in VersionVector.Compare: pass 1 over v's entries, pass 2 over entries only in other *)
Definition less (v o : vv) : bool :=
  bool_decide (map_Exists (fun k va => (va < get o k)%N) v)
  || bool_decide (map_Exists (fun k vb => v !! k = None /\ (0 < vb)%N) o).
Definition greater (v o : vv) : bool :=
  bool_decide (map_Exists (fun k va => (get o k < va)%N) v).

Inductive order := Equal | Before | After | Concurrent.
Definition compare (v o : vv) : order :=
  match less v o, greater v o with
  | false, false => Equal | true, false => Before | false, true => After | true, true => Concurrent
  end.

Lemma get_merge a b k : get (merge a b) k = N.max (get a k) (get b k).
Proof.
  unfold get, merge. rewrite lookup_union_with.
  destruct (a !! k), (b !! k); simpl; lia.
Qed.

Lemma merge_comm a b : merge a b = merge b a.
Proof.
  apply map_eq; intros k. unfold merge. rewrite !lookup_union_with.
  destruct (a !! k), (b !! k); simpl; f_equal; lia.
Qed.

Lemma less_spec v o : less v o = true <-> exists k, (get v k < get o k)%N.
Proof.
  unfold less. rewrite orb_true_iff, !bool_decide_eq_true. split.
  - intros [H|H]; apply map_Exists_lookup in H as (k & x & Hk & Hx).
    + exists k. unfold get at 1. rewrite Hk. simpl. exact Hx.
    + exists k. destruct Hx as [Hn Hp]. unfold get. rewrite Hn, Hk. simpl. exact Hp.
  - intros (k & Hk). unfold get in Hk at 1. destruct (v !! k) as [va|] eqn:E; simpl in Hk.
    + left. apply map_Exists_lookup. exists k, va. split; [exact E|exact Hk].
    + right. unfold get in Hk. destruct (o !! k) as [vb|] eqn:E2; simpl in Hk; [|lia].
      apply map_Exists_lookup. exists k, vb. split; [exact E2|]. split; [exact E|exact Hk].
Qed.

Definition ex1 : vv := {[ 1%N := 2%N; 2%N := 0%N ]}.
Definition ex2 : vv := {[ 1%N := 1%N; 3%N := 5%N ]}.
Eval vm_compute in (compare ex1 ex2, map_to_list (merge ex1 ex2)).
Print Assumptions less_spec.
