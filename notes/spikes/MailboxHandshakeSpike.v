From Coq Require Import List ZArith Lia Bool Arith.
Import ListNotations.
Open Scope Z_scope.

Inductive pc :=
| SPush (m : nat) | SAdd (m : nat) | SCas (m : nat)
| OPop | ODec (m : nat) | OHandle (m : nat) | OStore
| PLoad | PCas (u : Z)
| Done.

Record st := mk { status : bool; num : Z; q : list nat; handled : list nat; thr : list pc }.

Fixpoint upd {A} (i : nat) (x : A) (l : list A) : list A :=
  match l, i with
  | [], _ => []
  | _ :: t, O => x :: t
  | h :: t, S j => h :: upd j x t
  end.

Definition set_pc (s : st) (i : nat) (p : pc) : st :=
  mk (status s) (num s) (q s) (handled s) (upd i p (thr s)).

Definition step (i : nat) (s : st) : option st :=
  match nth_error (thr s) i with
  | None => None
  | Some p =>
    match p with
    | SPush m => Some (mk (status s) (num s) (q s ++ [m]) (handled s) (upd i (SAdd m) (thr s)))
    | SAdd m => Some (mk (status s) (num s + 1) (q s) (handled s) (upd i (SCas m) (thr s)))
    | SCas m => if status s then Some (set_pc s i Done)
                else Some (mk true (num s) (q s) (handled s) (upd i OPop (thr s)))
    | OPop => match q s with
              | [] => Some (set_pc s i OStore)
              | m :: q' => Some (mk (status s) (num s) q' (handled s) (upd i (ODec m) (thr s)))
              end
    | ODec m => Some (mk (status s) (num s - 1) (q s) (handled s) (upd i (OHandle m) (thr s)))
    | OHandle m => Some (mk (status s) (num s) (q s) (handled s ++ [m]) (upd i OPop (thr s)))
    | OStore => Some (mk false (num s) (q s) (handled s) (upd i PLoad (thr s)))
    | PLoad => Some (set_pc s i (PCas (num s)))
    | PCas u => if (0 <? u) then
                  (if status s then Some (set_pc s i Done)
                   else Some (mk true (num s) (q s) (handled s) (upd i OPop (thr s))))
                else Some (set_pc s i Done)
    | Done => None
    end
  end.

Definition is_owner p := match p with OPop | ODec _ | OHandle _ | OStore => true | _ => false end.
Definition is_sadd p := match p with SAdd _ => true | _ => false end.
Definition is_odec p := match p with ODec _ => true | _ => false end.
Definition is_cover p := match p with SAdd _ | SCas _ | PLoad => true | PCas u => 0 <? u | _ => false end.

Definition b2z (b : bool) : Z := if b then 1 else 0.
Fixpoint cnt (P : pc -> bool) (l : list pc) : Z :=
  match l with [] => 0 | h :: t => b2z (P h) + cnt P t end.

Lemma cnt_upd P i x l old : nth_error l i = Some old ->
  cnt P (upd i x l) = cnt P l - b2z (P old) + b2z (P x).
Proof.
  revert i. induction l as [|h t IH]; intros [|j] H; cbn [cnt upd nth_error] in *; try discriminate.
  - inversion H; subst. lia.
  - specialize (IH j H). lia.
Qed.

Lemma cnt_nonneg P l : 0 <= cnt P l.
Proof. induction l as [|h t IH]; cbn [cnt]; [lia|]. unfold b2z; destruct (P h); lia. Qed.
Lemma cnt_pos P l p i : nth_error l i = Some p -> P p = true -> 1 <= cnt P l.
Proof.
  revert i. induction l as [|h t IH]; intros [|j] H Hp; cbn [cnt nth_error] in *; try discriminate.
  - inversion H; subst. rewrite Hp. pose proof (cnt_nonneg P t). unfold b2z. lia.
  - specialize (IH j H Hp). unfold b2z; destruct (P h); lia.
Qed.

Record Inv (s : st) : Prop := {
  i_own : cnt is_owner (thr s) = b2z (status s);
  i_num : num s = Z.of_nat (length (q s)) - cnt is_sadd (thr s) + cnt is_odec (thr s);
  i_wake : status s = false -> q s <> [] -> 1 <= cnt is_cover (thr s)
}.

Lemma odec_le_owner l : cnt is_odec l <= cnt is_owner l.
Proof. induction l as [|h t IH]; cbn [cnt]; [lia|]. destruct h; cbn [is_odec is_owner b2z]; lia. Qed.


Lemma sadd_le_cover l : cnt is_sadd l <= cnt is_cover l.
Proof. induction l as [|h t IH]; cbn [cnt]; [lia|]. destruct h; cbn [is_sadd is_cover b2z]; try lia.
  unfold b2z; destruct (0 <? u); lia. Qed.

Definition is_pload p := match p with PLoad => true | _ => false end.
Lemma pload_sadd_le_cover l : cnt is_sadd l + cnt is_pload l <= cnt is_cover l.
Proof. induction l as [|h t IH]; cbn [cnt]; [lia|]. destruct h; cbn [is_sadd is_cover is_pload b2z]; try lia.
  unfold b2z; destruct (0 <? u); lia. Qed.

Theorem step_inv i s s' : Inv s -> step i s = Some s' -> Inv s'.
Proof.
  intros [Ho Hn Hw] Hs. unfold step in Hs.
  destruct (nth_error (thr s) i) as [p|] eqn:Hp; [|discriminate].
  pose proof (cnt_upd is_owner i) as Uo. pose proof (cnt_upd is_sadd i) as Ua.
  pose proof (cnt_upd is_odec i) as Ud. pose proof (cnt_upd is_cover i) as Uc.
  pose proof (odec_le_owner (thr s)) as Hdo.
  pose proof (sadd_le_cover (thr s)) as Hsc.
  pose proof (cnt_nonneg is_sadd (thr s)) as Hsa.
  pose proof (cnt_nonneg is_odec (thr s)) as Hod.
  pose proof (cnt_nonneg is_cover (thr s)) as Hcv.
  pose proof (cnt_pos is_cover (thr s) p i Hp) as Hcp.
  pose proof (cnt_pos is_owner (thr s) p i Hp) as Hop.
  destruct p; cbn [is_cover is_owner] in Hcp, Hop; simpl in Hs;
  repeat match goal with
  | H : (if ?b then _ else _) = Some _ |- _ => destruct b eqn:?
  | H : match ?l with [] => _ | _ :: _ => _ end = Some _ |- _ => destruct l eqn:?
  end; inversion Hs; subst; clear Hs;
  (split; cbn [status num q thr handled set_pc];
   [ rewrite (Uo _ _ _ Hp); cbn [is_owner b2z]; rewrite ?Ho; unfold b2z in *;
     destruct (status s); try lia; try congruence
   | rewrite (Ua _ _ _ Hp), (Ud _ _ _ Hp); cbn [is_sadd is_odec b2z]; rewrite ?app_length; cbn [length];
     try lia
   | intros Hst Hq; rewrite (Uc _ _ _ Hp); cbn [is_cover b2z]; try congruence ]).
  all: try (unfold b2z in *; lia).
  all: try (specialize (Hcp eq_refl); unfold b2z in *; lia).
  all: try (specialize (Hw Hst); unfold b2z in *; try lia).
  all: try (specialize (Hop eq_refl); rewrite Ho, Hst in Hop; unfold b2z in Hop; lia).
  all: try (rewrite Hn; try match goal with H : q _ = _ |- _ => rewrite H end; cbn [length]; lia).
  - (* PLoad *)
    specialize (Hw Hq). specialize (Hcp eq_refl).
    assert (Hlen : 1 <= Z.of_nat (length (q s))) by (destruct (q s); [congruence|cbn [length]; lia]).
    rewrite Hst in Ho. unfold b2z in Ho.
    pose proof (pload_sadd_le_cover (thr s)) as Hps.
    pose proof (cnt_pos is_pload (thr s) PLoad i Hp eq_refl) as Hpl.
    destruct (0 <? num s) eqn:E; [lia|]. apply Z.ltb_ge in E. lia.
  - (* PCas, u <= 0 *)
    specialize (Hw Hq).
    match goal with H : (0 <? u) = false |- _ => rewrite H end. lia.
Qed.

Definition terminal (s : st) := forall i, step i s = None.
Lemma all_done_cover l : (forall i p, nth_error l i = Some p -> p = Done) -> cnt is_cover l = 0 /\ cnt is_owner l = 0.
Proof.
  induction l as [|h t IH]; intros H; cbn [cnt]; [lia|].
  assert (h = Done) by (apply (H 0%nat); reflexivity). subst.
  destruct IH as [A B]; [intros i p Hi; apply (H (S i)); exact Hi|]. cbn [is_cover is_owner b2z]. lia.
Qed.
Theorem terminal_empty s : Inv s -> terminal s -> q s = [].
Proof.
  intros [Ho Hn Hw] Ht.
  assert (D : forall i p, nth_error (thr s) i = Some p -> p = Done).
  { intros i p Hp. specialize (Ht i). unfold step in Ht. rewrite Hp in Ht.
    destruct p; try discriminate; try reflexivity;
    repeat match type of Ht with
    | (if ?b then _ else _) = None => destruct b
    | match ?l with [] => _ | _ :: _ => _ end = None => destruct l
    end; discriminate. }
  destruct (all_done_cover _ D) as [C O].
  destruct (status s) eqn:St; [rewrite O in Ho; unfold b2z in Ho; lia|].
  destruct (q s) eqn:Q; [reflexivity|]. exfalso.
  assert (1 <= cnt is_cover (thr s)) by (apply Hw; congruence). lia.
Qed.
Print Assumptions terminal_empty.
