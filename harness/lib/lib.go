// Package lib: shared helpers of the verification harness — term printer (the only format that
// crosses the model/implementation boundary), a seeded PRNG, case and monitor writers.
package lib

import (
	"bufio"
	"encoding/hex"
	"encoding/json"
	"flag"
	"fmt"
	"math/big"
	"os"
	"sort"
	"strings"
)

// ---- terms ----

type T interface{ w(sb *strings.Builder) }
type tn struct{ v *big.Int }
type tb struct{ b []byte }
type tl struct{ l []T }

func (t tn) w(sb *strings.Builder) { sb.WriteString(t.v.Text(16)) }
func (t tb) w(sb *strings.Builder) { sb.WriteByte('#'); sb.WriteString(hex.EncodeToString(t.b)) }
func (t tl) w(sb *strings.Builder) {
	sb.WriteByte('(')
	for i, x := range t.l {
		if i > 0 {
			sb.WriteByte(' ')
		}
		x.w(sb)
	}
	sb.WriteByte(')')
}

func N(v uint64) T      { return tn{new(big.Int).SetUint64(v)} }
func NI(v int) T        { return N(uint64(v)) }
func Big(v *big.Int) T  { return tn{v} }
func B(b []byte) T      { return tb{append([]byte(nil), b...)} }
func S(s string) T      { return tb{[]byte(s)} }
func L(xs ...T) T       { return tl{xs} }
func LS(xs []T) T       { return tl{xs} }
func Bool(b bool) T {
	if b {
		return N(1)
	}
	return N(0)
}

// Z encodes a signed integer as (sign abs).
func Z(v int64) T {
	if v < 0 {
		a := new(big.Int).Neg(big.NewInt(v))
		return L(N(1), tn{a})
	}
	return L(N(0), N(uint64(v)))
}
func Opt(present bool, x T) T {
	if !present {
		return L()
	}
	return L(x)
}
func Ok(x T) T          { return L(N(0), x) }
func Err(code uint64) T { return L(N(1), N(code)) }

func Show(t T) string { var sb strings.Builder; t.w(&sb); return sb.String() }

// ---- PRNG (splitmix64): every random choice of a run derives from one seed ----

type Rand struct{ s uint64 }

func NewRand(seed uint64) *Rand { return &Rand{s: seed*0x9E3779B97F4A7C15 + 0x1234567} }
func (r *Rand) U64() uint64 {
	r.s += 0x9E3779B97F4A7C15
	z := r.s
	z = (z ^ (z >> 30)) * 0xBF58476D1CE4E5B9
	z = (z ^ (z >> 27)) * 0x94D049BB133111EB
	return z ^ (z >> 31)
}
func (r *Rand) Intn(n int) int {
	if n <= 0 {
		return 0
	}
	return int(r.U64() % uint64(n))
}
func (r *Rand) Bool() bool          { return r.U64()&1 == 1 }
func (r *Rand) Chance(p, q int) bool { return r.Intn(q) < p }
func (r *Rand) Bytes(n int) []byte {
	b := make([]byte, n)
	for i := range b {
		b[i] = byte(r.U64())
	}
	return b
}
func (r *Rand) Fork() *Rand { return NewRand(r.U64()) }

// ---- output ----

type Out struct {
	cases    *bufio.Writer
	cf       *os.File
	Stats    map[string]int
	Monitors []Monitor
	Samples  []string
	NCases   int
	distinct map[string]struct{}
	Nontriv  int
	Info     map[string]any
}

type Monitor struct {
	Name   string `json:"name"`
	Case   string `json:"case"`
	Detail string `json:"detail"`
}

type Flags struct {
	Seed   uint64
	Tier   string
	Out    string
	Report string
	Replay string
	N      int
}

func ParseFlags() Flags {
	var f Flags
	flag.Uint64Var(&f.Seed, "seed", 1, "PRNG seed")
	flag.StringVar(&f.Tier, "tier", "quick", "quick|thorough")
	flag.StringVar(&f.Out, "out", "cases.txt", "cases file")
	flag.StringVar(&f.Report, "report", "report.json", "report file (stats, monitors)")
	flag.StringVar(&f.Replay, "replay", "", "replay the single input term in this file")
	flag.IntVar(&f.N, "n", 0, "override the number of random cases")
	flag.Parse()
	return f
}

func NewOut(path string) *Out {
	f, err := os.Create(path)
	if err != nil {
		panic(err)
	}
	return &Out{cases: bufio.NewWriterSize(f, 1<<20), cf: f, Stats: map[string]int{}, distinct: map[string]struct{}{}, Info: map[string]any{}}
}

// Case records one (input, observed output) pair for the model to be compared with.
// kind feeds the distribution table; nontrivial says whether the case exercises more than the trivial path.
func (o *Out) Case(kind string, nontrivial bool, in, out T) {
	si, so := Show(in), Show(out)
	fmt.Fprintf(o.cases, "%s\t%s\n", si, so)
	o.NCases++
	o.Stats[kind]++
	if _, seen := o.distinct[si]; !seen {
		o.distinct[si] = struct{}{}
		if nontrivial {
			o.Nontriv++
		}
	}
	if len(o.Samples) < 12 && (o.Stats[kind] == 1 || (o.Stats[kind] == 7 && len(o.Samples) < 8)) {
		o.Samples = append(o.Samples, kind+": "+trunc(si, 400)+" => "+trunc(so, 400))
	}
}

func trunc(s string, n int) string {
	if len(s) > n {
		return s[:n] + "..."
	}
	return s
}

// Monitor records a direct violation of the property observed on the implementation.
func (o *Out) Monitor(name string, c T, detail string) {
	cs := ""
	if c != nil {
		cs = Show(c)
	}
	if len(o.Monitors) < 200 {
		o.Monitors = append(o.Monitors, Monitor{name, cs, detail})
	}
	o.Stats["monitor:"+name]++
}

func (o *Out) Close(reportPath string) {
	o.cases.Flush()
	o.cf.Close()
	keys := make([]string, 0, len(o.Stats))
	for k := range o.Stats {
		keys = append(keys, k)
	}
	sort.Strings(keys)
	rep := map[string]any{
		"cases": o.NCases, "distinct": len(o.distinct), "distinct_nontrivial": o.Nontriv,
		"distribution": o.Stats, "monitors": o.Monitors, "samples": o.Samples, "info": o.Info,
	}
	b, _ := json.MarshalIndent(rep, "", " ")
	if err := os.WriteFile(reportPath, b, 0o644); err != nil {
		panic(err)
	}
}
