// race: the failing-input search of C10 (documented-concurrent API is safe from any goroutine).
//
// Parent process (what bin/check runs):
//  1. regenerates the access inventory from the tree under test in-process (same code as bin/gen_access),
//     evaluates the lock-set discipline on it and emits it as ONE case for the Coq model run_race
//     (Race/LocksetRun.v) - the Go-side verdict printed in reports must be the kernel's verdict - and checks
//     that coq/Generated/AccessTable.v (what Properties/C10.v was compiled against) is this very table;
//  2. re-executes itself with -child under the race detector (the binary is built with `go build -race`),
//     captures stdout/stderr, and turns what happened into monitors:
//     data-race   one per distinct pair of racing sites (top vivid frames first)
//     fatal       `fatal error:` of the Go runtime (concurrent map writes, all goroutines asleep, ...)
//     panic       a panic that escaped the library
//     hang        the stress did not finish (API callers stuck, Stop stuck); goroutine dump attached
//     tree        registry <-> children <-> parent disagree at quiescence
//     child-died  the child ended without a verdict for another reason
//
// Child process: ONE real system; N goroutines call System.ActorOf / Kill / Tell / Ask (+ Future.Result, Wait,
// Close, PipeTo, shared between goroutines) / FindActor / PipeTo / Entrust / Ping / EventStream.Subscribe,
// Publish, Unsubscribe, UnsubscribeAll / Ref.Clone, String, Equals on shared refs for the whole duration, while
// the actors spawn children, stash, watch, schedule, panic (all six supervision decisions, restart hooks that
// fail -> zombies), kill children and themselves. Then the callers stop, the system is left to quiesce, the tree
// is checked, the system is stopped and the tree is checked again.
// Before that (3/20 of the budget, a system of its own): rounds aimed at the root's child table - the root has one
// (sometimes zero / two) top-level children, all of them are killed while several goroutines are inside
// System.ActorOf with actors whose OnPrelaunch takes 0.1 - 2 ms; after each round quiescence and the tree monitor
// (registry <-> children of the root, both ways, = exactly the live top-level actors), at the end System.Stop must
// stop every actor ever spawned (see rootOverlap).
package main

import (
	"bytes"
	"encoding/json"
	"errors"
	"flag"
	"fmt"
	"os"
	"os/exec"
	"path/filepath"
	"regexp"
	"runtime"
	"sort"
	"strings"
	"sync"
	"sync/atomic"
	"syscall"
	"time"

	"github.com/kercylan98/vivid"
	"github.com/kercylan98/vivid/internal/actor"
	"github.com/kercylan98/vivid/internal/mailbox"
	"github.com/kercylan98/vivid/pkg/log"
	"github.com/kercylan98/vivid/xverif/cmd/accessgen/gen"
	"github.com/kercylan98/vivid/xverif/lib"
)

var (
	childFlag   = flag.Bool("child", false, "run the stress (internal)")
	durFlag     = flag.Duration("dur", 0, "stress duration (default: 20s quick, 300s thorough)")
	workersFlag = flag.Int("workers", 0, "API goroutines (default: 16 quick, 48 thorough)")
)

func repoPath() string {
	r := os.Getenv("VERIF_REPO")
	if r == "" {
		r = "/repo"
	}
	if a, err := filepath.Abs(r); err == nil {
		r = a
	}
	return r
}

func main() {
	f := lib.ParseFlags()
	dur, workers := 20*time.Second, 16
	if f.Tier == "thorough" {
		dur, workers = 300*time.Second, 48
	}
	if *durFlag > 0 {
		dur = *durFlag
	}
	if *workersFlag > 0 {
		workers = *workersFlag
	}
	if *childFlag {
		child(f.Seed, dur, workers)
		return
	}
	o := lib.NewOut(f.Out)
	inventory(o)
	runChild(o, f, dur, workers)
	o.Close(f.Report)
	if len(o.Monitors) > 0 {
		os.Exit(3)
	}
}

// ---------------------------------------------------------------- inventory case

func verifRoot() string {
	if r := os.Getenv("VERIF_ROOT"); r != "" {
		return r
	}
	if exe, err := os.Executable(); err == nil { // <verif>/build/go/xv_race
		return filepath.Dir(filepath.Dir(filepath.Dir(exe)))
	}
	return "/verif"
}

func inventory(o *lib.Out) {
	t, err := gen.Generate(repoPath())
	if err != nil {
		o.Monitor("inventory", nil, "the translator failed on the tree under test: "+err.Error())
		return
	}
	bad := t.BadLocs()
	var bs []lib.T
	for _, b := range bad {
		bs = append(bs, lib.NI(b))
	}
	by := t.ByLoc()
	var prot []lib.T
	names := gen.LocNames()
	var ks []int
	for k := range names {
		ks = append(ks, k)
	}
	sort.Ints(ks)
	summary := map[string]string{}
	for _, k := range ks {
		p := gen.Protection(by[k])
		prot = append(prot, lib.L(lib.NI(k), lib.NI(p)))
		summary[names[k]] = fmt.Sprintf("%d sites, %s", len(by[k]), gen.ProtectionNames[p])
		if len(by[k]) == 0 {
			summary[names[k]] = "NO SITE"
		}
	}
	// the model recomputes the violating location classes and the protection of every class
	o.Case("access-table", len(t.Accesses) > 0, lib.L(t.Term(), lib.LS(func() []lib.T {
		var xs []lib.T
		for _, k := range ks {
			xs = append(xs, lib.NI(k))
		}
		return xs
	}())), lib.L(lib.LS(bs), lib.LS(prot)))
	// the panic-site inventory: the model recomputes the unguarded sites and the discipline verdict
	ung, same := t.PanicVerdict()
	var us []lib.T
	for _, u := range ung {
		us = append(us, lib.NI(u))
	}
	o.Case("panic-sites", len(t.Panics) > 0, t.PanicTerm(), lib.L(lib.LS(us), lib.Bool(len(ung) == 0 && same)))
	o.Info["panic_sites"] = len(t.Panics)
	if len(ung) > 0 {
		var lines []string
		for _, u := range ung {
			lines = append(lines, t.Panics[u].Describe())
		}
		o.Info["panic_sites_not_guarded"] = lines
	}
	o.Info["access_sites"] = len(t.Accesses)
	o.Info["protection_per_location"] = summary
	o.Info["translator_notes"] = t.Notes
	o.Info["composite_literal_initialisers_not_inventoried"] = t.Inits
	if len(bad) > 0 {
		var lines []string
		for _, b := range bad {
			for _, a := range by[b] {
				lines = append(lines, a.Describe())
			}
		}
		o.Info["discipline_violations"] = lines
	}
	// what Properties/C10.v was compiled against must be this table
	p := filepath.Join(verifRoot(), "coq", "Generated", "AccessTable.v")
	if old, err := os.ReadFile(p); err != nil {
		o.Info["generated_table_check"] = "skipped: " + err.Error()
	} else if string(old) != t.Coq() {
		o.Monitor("table-stale", nil, p+" is not the inventory of the tree under test ("+repoPath()+"): the C10 theorems were checked against another tree; run bin/gen_access")
	} else {
		o.Info["generated_table_check"] = "coq/Generated/AccessTable.v is the inventory of the tree under test"
	}
}

// ---------------------------------------------------------------- parent: run the child, read the tea leaves

func runChild(o *lib.Out, f lib.Flags, dur time.Duration, workers int) {
	exe, err := os.Executable()
	if err != nil {
		o.Monitor("child-died", nil, "cannot find own executable: "+err.Error())
		return
	}
	cmd := exec.Command(exe, "-child", "-seed", fmt.Sprint(f.Seed), "-tier", f.Tier, "-dur", dur.String(), "-workers", fmt.Sprint(workers), "-out", os.DevNull, "-report", os.DevNull)
	var so, se bytes.Buffer
	cmd.Stdout, cmd.Stderr = &so, &se
	cmd.Env = append(os.Environ(), "GORACE=history_size=4 halt_on_error=0 atexit_sleep_ms=0", "GOTRACEBACK=all")
	t0 := time.Now()
	if err := cmd.Start(); err != nil {
		o.Monitor("child-died", nil, "cannot start the stress child: "+err.Error())
		return
	}
	done := make(chan error, 1)
	go func() { done <- cmd.Wait() }()
	limit := dur + 240*time.Second
	hung := false
	var werr error
	select {
	case werr = <-done:
	case <-time.After(limit):
		hung = true
		_ = cmd.Process.Signal(syscall.SIGQUIT) // the Go runtime dumps every goroutine and exits
		select {
		case werr = <-done:
		case <-time.After(20 * time.Second):
			_ = cmd.Process.Kill()
			werr = <-done
		}
	}
	o.Info["child_wall_s"] = time.Since(t0).Seconds()
	stdout, stderr := so.String(), se.String()
	caseT := lib.L(lib.S("stress"), lib.N(f.Seed), lib.S(f.Tier), lib.S(dur.String()), lib.NI(workers))
	verdict := false
	for _, line := range strings.Split(stdout, "\n") {
		parts := strings.SplitN(line, "\t", 3)
		switch parts[0] {
		case "XVMON":
			if len(parts) == 3 {
				o.Monitor(parts[1], caseT, strings.ReplaceAll(parts[2], "\\n", "\n"))
			}
		case "XVCASE": // XVCASE <kind> <nontrivial 0|1> <input term> <observed output term>
			if ps := strings.SplitN(line, "\t", 5); len(ps) == 5 {
				in, err1 := parseTerm(ps[3])
				out, err2 := parseTerm(ps[4])
				if err1 != nil || err2 != nil {
					o.Monitor("child-died", caseT, fmt.Sprintf("unparsable case line from the child (%v %v): %s", err1, err2, clip(line, 300)))
				} else {
					o.Case(ps[1], ps[2] == "1", in, out)
				}
			}
		case "XVINFO":
			if len(parts) >= 2 {
				var m map[string]any
				if json.Unmarshal([]byte(parts[1]), &m) == nil {
					for k, v := range m {
						o.Info[k] = v
					}
				}
			}
		case "XVDONE":
			verdict = true
		}
	}
	races := parseRaces(stderr, repoPath())
	seen := map[string]bool{}
	for _, r := range races {
		if seen[r.key] {
			continue
		}
		seen[r.key] = true
		name := "data-race"
		if r.harnessOnly {
			name = "harness-race"
		}
		o.Monitor(name, caseT, r.detail)
	}
	o.Info["race_reports"] = len(races)
	o.Info["distinct_race_pairs"] = len(seen)
	if i := strings.Index(stderr, "fatal error:"); i >= 0 {
		o.Monitor("fatal", caseT, clip(stderr[i:], 5000))
	} else if m := regexp.MustCompile(`(?m)^panic: `).FindStringIndex(stderr); m != nil && !hung {
		o.Monitor("panic", caseT, clip(stderr[m[0]:], 5000))
	}
	if hung {
		o.Monitor("hang", caseT, fmt.Sprintf("the stress child did not finish within %s; goroutines in vivid code:\n%s", limit, vividGoroutines(stderr, repoPath())))
	}
	if !verdict && !hung && len(o.Monitors) == 0 {
		o.Monitor("child-died", caseT, fmt.Sprintf("child ended (%v) without a verdict; stderr tail:\n%s", werr, clip(tail(stderr, 4000), 4000)))
	}
	var ee *exec.ExitError
	if errors.As(werr, &ee) {
		o.Info["child_exit_code"] = ee.ExitCode()
	} else {
		o.Info["child_exit_code"] = 0
	}
}

func clip(s string, n int) string {
	if len(s) > n {
		return s[:n] + "\n...[clipped]"
	}
	return s
}
func tail(s string, n int) string {
	if len(s) > n {
		return s[len(s)-n:]
	}
	return s
}

type frame struct {
	fn, file string
	line     string
}
type raceRep struct {
	key, detail string
	harnessOnly bool
}

var accessHdr = regexp.MustCompile(`(?i)^(previous )?(atomic )?(read|write) at 0x[0-9a-f]+ by (main )?goroutine`)
var frameLoc = regexp.MustCompile(`^\s+(\S+\.go):(\d+)`)

// parseRaces splits the race detector's output into reports and normalises each to
// "<op> <file:line> <func>  <->  <op> <file:line> <func>" with the top frames inside the tree under test first.
func parseRaces(stderr, repo string) []raceRep {
	var out []raceRep
	blocks := strings.Split(stderr, "WARNING: DATA RACE")
	for _, b := range blocks[1:] {
		if i := strings.Index(b, "=================="); i >= 0 {
			b = b[:i]
		}
		lines := strings.Split(b, "\n")
		type acc struct {
			op     string
			frames []frame
		}
		var accs []acc
		cur := -1
		for i := 0; i < len(lines); i++ {
			l := lines[i]
			if m := accessHdr.FindStringSubmatch(l); m != nil {
				accs = append(accs, acc{op: strings.ToLower(m[2] + m[3])})
				cur = len(accs) - 1
				continue
			}
			if l != "" && !strings.HasPrefix(l, " ") { // "Goroutine N (running) created at:" etc.
				cur = -1
				continue
			}
			if cur >= 0 && strings.HasPrefix(l, "  ") && !strings.HasPrefix(l, "   ") && i+1 < len(lines) {
				if m := frameLoc.FindStringSubmatch(lines[i+1]); m != nil {
					accs[cur].frames = append(accs[cur].frames, frame{fn: strings.TrimSpace(l), file: m[1], line: m[2]})
					i++
				}
			}
		}
		if len(accs) < 2 {
			out = append(out, raceRep{key: "unparsed:" + clip(b, 200), detail: "DATA RACE (unparsed report)\n" + clip(b, 3000)})
			continue
		}
		var sides []string
		harnessOnly := false
		var stacks []string
		hdir := filepath.Join(verifRoot(), "harness") + "/"
		for _, a := range accs[:2] {
			top := ""
			var vs []string
			for _, fr := range a.frames {
				inRepo := strings.HasPrefix(fr.file, repo+"/")
				inHarness := strings.HasPrefix(fr.file, hdir) || strings.Contains(fr.file, "/harness/cmd/") || strings.Contains(fr.file, "/harness/acc/") ||
					(strings.HasPrefix(filepath.Base(fr.file), "xv_") && strings.HasSuffix(fr.file, "_verif.go"))
				if top == "" && inHarness {
					// the access itself (below runtime / library frames) is in harness code: not a vivid race
					top = fmt.Sprintf("%s %s:%s %s (harness code)", a.op, fr.file, fr.line, cleanFn(fr.fn))
					harnessOnly = true
				}
				if inRepo && !inHarness {
					rel := strings.TrimPrefix(fr.file, repo+"/")
					if top == "" {
						top = fmt.Sprintf("%s %s:%s %s", a.op, rel, fr.line, cleanFn(fr.fn))
					}
					vs = append(vs, fmt.Sprintf("%s:%s %s", rel, fr.line, cleanFn(fr.fn)))
				}
			}
			if top == "" {
				if len(a.frames) > 0 {
					top = fmt.Sprintf("%s %s:%s %s (outside the tree under test)", a.op, a.frames[0].file, a.frames[0].line, cleanFn(a.frames[0].fn))
				} else {
					top = a.op + " <no frames>"
				}
			}
			sides = append(sides, top)
			stacks = append(stacks, strings.Join(vs, " <- "))
		}
		if sides[1] < sides[0] {
			sides[0], sides[1] = sides[1], sides[0]
			stacks[0], stacks[1] = stacks[1], stacks[0]
		}
		key := sides[0] + "  <->  " + sides[1]
		detail := "DATA RACE " + key + "\n  vivid frames A: " + stacks[0] + "\n  vivid frames B: " + stacks[1] + "\n--- race detector report ---" + clip(b, 3500)
		out = append(out, raceRep{key: key, detail: detail, harnessOnly: harnessOnly})
	}
	return out
}

var genericNoise = regexp.MustCompile(`\[go\.shape[^\]]*\]|\[\.\.\.\]`)

// cleanFn: "github.com/kercylan98/vivid/internal/future.(*Future[go.shape.interface {}]).close()" -> "future.(*Future).close"
func cleanFn(fn string) string {
	fn = genericNoise.ReplaceAllString(fn, "")
	if j := strings.LastIndex(fn, "/"); j >= 0 {
		fn = fn[j+1:]
	}
	return strings.TrimSuffix(fn, "()")
}

// vividGoroutines: from a goroutine dump, the goroutines whose stack mentions the tree under test, grouped by their
// top frames (so that 10 000 goroutines waiting at the same place are one entry with a count).
func vividGoroutines(dump, repo string) string {
	type grp struct {
		n     int
		first string
	}
	groups := map[string]*grp{}
	var order []string
	for _, g := range strings.Split(dump, "\n\n") {
		if !strings.HasPrefix(g, "goroutine ") || !strings.Contains(g, repo+"/") {
			continue
		}
		lines := strings.Split(g, "\n")
		var sig []string
		for _, l := range lines[1:] {
			if strings.HasPrefix(l, "\t") || strings.HasPrefix(l, " ") {
				continue
			}
			fn := l
			if k := strings.LastIndex(fn, "("); k > 0 {
				fn = fn[:k]
			}
			if strings.HasPrefix(fn, "internal/sync.") || strings.HasPrefix(fn, "sync.") || strings.HasPrefix(fn, "runtime.") {
				continue
			}
			sig = append(sig, cleanFn(fn))
			if len(sig) == 6 {
				break
			}
		}
		state := lines[0]
		if k := strings.Index(state, "["); k >= 0 {
			state = strings.TrimSuffix(state[k:], ":")
			if c := strings.Index(state, ","); c > 0 { // drop ", 3 minutes"
				state = state[:c] + "]"
			}
		}
		key := state + " " + strings.Join(sig, " <- ")
		if groups[key] == nil {
			groups[key] = &grp{}
			order = append(order, key)
		}
		groups[key].n++
	}
	sort.Slice(order, func(i, j int) bool { return groups[order[i]].n > groups[order[j]].n })
	var sb strings.Builder
	for i, k := range order {
		if i >= 25 {
			fmt.Fprintf(&sb, "... %d more groups\n", len(order)-i)
			break
		}
		fmt.Fprintf(&sb, "%6d x %s\n", groups[k].n, k)
	}
	if sb.Len() == 0 {
		return clip(tail(dump, 3000), 3000)
	}
	return clip(sb.String(), 7000)
}

// ---------------------------------------------------------------- child: the stress

type (
	ping      struct{ N int }
	pong      struct{ N int }
	spawn     struct{ K int }
	boom      struct{ D int } // the supervisor decides D
	killChild struct{ Poison bool }
	killSelf  struct{ Poison bool }
	work      struct{ N int }
	hold      struct{ On bool }
	watch     struct{ Ref vivid.ActorRef }
	sched     struct{ N int }
	askPeer   struct{ Ref vivid.ActorRef }
	askBurst  struct {
		Ref vivid.ActorRef
		Die bool
	}
	subscribe struct{ On bool }
	evA       struct{ N int }
	evB       struct{ N int }
)

type H struct {
	sys      *actor.System
	seed     uint64
	ids      atomic.Uint64
	launched atomic.Int64
	handled  atomic.Int64
	events   atomic.Int64
	pipes    atomic.Int64
	strategy vivid.SupervisionStrategy
	stopping atomic.Bool
	ops      [16]atomic.Int64
	spawnErr atomic.Int64
	throttled atomic.Int64
	lg       log.Logger
}

func decisionOf(fault vivid.Message, allowEscalate bool) vivid.SupervisionDecision {
	d := vivid.SupervisionDecisionStop
	if b, ok := fault.(boom); ok {
		d = vivid.SupervisionDecision(b.D)
	}
	if !d.IsValid() || (d.IsEscalate() && !allowEscalate) {
		d = vivid.SupervisionDecisionStop
	}
	return d
}

const maxDepth = 3

func (h *H) newWorker(depth int) vivid.Actor {
	id := h.ids.Add(1)
	r := lib.NewRand(h.seed*1000003 + id) // used only by this actor's own goroutine
	holding := false
	var fn vivid.ActorFN = func(ctx vivid.ActorContext) {
		h.handled.Add(1)
		switch m := ctx.Message().(type) {
		case *vivid.OnLaunch:
			h.launched.Add(1)
			if depth < maxDepth && !h.stopping.Load() {
				for i := r.Intn(3); i > 0; i-- {
					if _, err := ctx.ActorOf(h.newWorker(depth+1), vivid.WithActorSupervisionStrategy(h.strategy)); err != nil {
						h.spawnErr.Add(1)
					}
				}
			}
			if r.Chance(1, 2) {
				ctx.EventStream().Subscribe(ctx, evA{})
			}
		case ping:
			ctx.Reply(pong{m.N})
		case spawn:
			if depth < maxDepth && !h.stopping.Load() {
				for i := 0; i < m.K; i++ {
					if _, err := ctx.ActorOf(h.newWorker(depth+1), vivid.WithActorSupervisionStrategy(h.strategy)); err != nil {
						h.spawnErr.Add(1)
					}
				}
			}
		case boom:
			panic(m)
		case killChild:
			if cs := ctx.Children(); len(cs) > 0 {
				ctx.Kill(cs[r.Intn(len(cs))], m.Poison, "kill-child")
			}
		case killSelf:
			ctx.Kill(ctx.Ref(), m.Poison, "kill-self")
		case hold:
			holding = m.On
			if !m.On {
				ctx.Unstash(ctx.StashCount())
			}
		case work:
			if holding && ctx.StashCount() < 50 {
				ctx.Stash()
			}
		case watch:
			if r.Bool() {
				ctx.Watch(m.Ref)
			} else {
				ctx.Unwatch(m.Ref)
			}
		case sched:
			ref := fmt.Sprintf("j%d", m.N%4)
			switch r.Intn(3) {
			case 0:
				_ = ctx.Scheduler().Once(ctx.Ref(), time.Duration(1+r.Intn(3))*time.Millisecond, work{m.N}, vivid.WithSchedulerReference(ref))
			case 1:
				_ = ctx.Scheduler().Cancel(ref)
			default:
				_ = ctx.Scheduler().Exists(ref)
			}
		case askPeer:
			ctx.PipeTo(m.Ref, ping{1}, vivid.ActorRefs{ctx.Ref()}, tinyTimeout(r))
		case askBurst:
			// many pending Asks whose agent is this actor, timing out one after the other - and then the
			// actor is killed: its doKill walks its future table while the timeouts remove entries from it
			for i := 0; i < 10; i++ {
				ctx.PipeTo(m.Ref, work{i}, vivid.ActorRefs{ctx.Ref()}, time.Duration(20+r.Intn(400))*time.Microsecond)
			}
			if m.Die {
				ctx.Kill(ctx.Ref(), false, "after ask burst")
			}
		case subscribe:
			if m.On {
				ctx.EventStream().Subscribe(ctx, evB{})
			} else {
				ctx.EventStream().Unsubscribe(ctx, evB{})
			}
		case evA, evB:
			h.events.Add(1)
		case *vivid.PipeResult:
			h.pipes.Add(1)
		case *vivid.OnKill:
			if r.Chance(1, 40) {
				panic("panic in OnKill")
			}
		case *vivid.OnKilled:
			if r.Chance(1, 60) {
				panic("panic in OnKilled")
			}
		}
	}
	var a vivid.Actor = fn
	switch id % 5 {
	case 0: // a restart hook that sometimes fails: the actor becomes a zombie
		a = vivid.NewRestartedActor(func(ctx vivid.RestartContext) error {
			if r.Chance(1, 3) {
				return errors.New("restart refused")
			}
			return nil
		}, fn)
	case 1:
		a = vivid.NewPreRestartActor(func(ctx vivid.RestartContext) error {
			if r.Chance(1, 3) {
				panic("pre-restart panic")
			}
			return nil
		}, fn)
	}
	return a
}

func tinyTimeout(r *lib.Rand) time.Duration {
	return []time.Duration{1, time.Microsecond, 100 * time.Microsecond, 2 * time.Millisecond, 30 * time.Millisecond}[r.Intn(5)]
}

type pool struct {
	mu   sync.Mutex
	refs []vivid.ActorRef
}

func (p *pool) add(r vivid.ActorRef) int {
	p.mu.Lock()
	defer p.mu.Unlock()
	p.refs = append(p.refs, r)
	return len(p.refs)
}
func (p *pool) pick(r *lib.Rand) vivid.ActorRef {
	p.mu.Lock()
	defer p.mu.Unlock()
	if len(p.refs) == 0 {
		return nil
	}
	return p.refs[r.Intn(len(p.refs))]
}
func (p *pool) take(r *lib.Rand) vivid.ActorRef {
	p.mu.Lock()
	defer p.mu.Unlock()
	if len(p.refs) == 0 {
		return nil
	}
	i := r.Intn(len(p.refs))
	x := p.refs[i]
	p.refs[i] = p.refs[len(p.refs)-1]
	p.refs = p.refs[:len(p.refs)-1]
	return x
}

// subCtx lets a plain goroutine use the event stream on behalf of an actor ref.
type subCtx struct {
	ref vivid.ActorRef
	lg  log.Logger
}

func (s subCtx) Logger() log.Logger { return s.lg }
func (s subCtx) Ref() vivid.ActorRef { return s.ref }

func mon(name, detail string) {
	fmt.Printf("XVMON\t%s\t%s\n", name, strings.ReplaceAll(detail, "\n", "\\n"))
}

func child(seed uint64, dur time.Duration, workers int) {
	// a slice of the budget goes to the rounds aimed at the root's child table (see rootOverlap); the rest is the stress
	runTreeScenarios() // forced schedules of the actor-tree machine (tree.go): a second at most
	dnRounds := 60 // uniqueness of registration: same-name System.ActorOf calls from a barrier (dupname.go), ~0.5 s
	if dur > 100*time.Second {
		dnRounds = 600
	}
	duplicateNameRounds(seed, dnRounds)
	roBudget := dur * 3 / 20
	if roBudget > 45*time.Second {
		roBudget = 45 * time.Second
	}
	rootOverlap(seed, roBudget)
	dur -= roBudget
	lg := log.NewSilentLogger()
	h := &H{seed: seed, lg: lg}
	h.strategy = vivid.OneForOneStrategy(vivid.SupervisionStrategyDecisionMakerFN(func(ctx vivid.SupervisionContext) (vivid.SupervisionDecision, string) {
		return decisionOf(ctx.Fault(), true), "stress"
	}))
	allStrategy := vivid.OneForAllStrategy(vivid.SupervisionStrategyDecisionMakerFN(func(ctx vivid.SupervisionContext) (vivid.SupervisionDecision, string) {
		return decisionOf(ctx.Fault(), true), "stress-all"
	}))
	rootStrategy := vivid.OneForOneStrategy(vivid.SupervisionStrategyDecisionMakerFN(func(ctx vivid.SupervisionContext) (vivid.SupervisionDecision, string) {
		return decisionOf(ctx.Fault(), false), "stress-root" // the root has nobody to escalate to
	}))
	sys := actor.NewSystem(vivid.WithActorSystemLogger(lg), vivid.WithActorSystemStopTimeout(60*time.Second),
		vivid.WithActorSystemDefaultAskTimeout(20*time.Millisecond), vivid.WithActorSystemSupervisionStrategy(rootStrategy))
	h.sys = sys
	if err := sys.Start(); err != nil {
		mon("child-died", "System.Start failed: "+err.Error())
		return
	}
	es := actor.XVRaceEventStream(sys)
	rootRef := sys.Ref()
	p := &pool{}
	rr := lib.NewRand(seed)
	deadline := time.Now().Add(dur)
	var wg sync.WaitGroup
	var names atomic.Uint64
	spawnTop := func(r *lib.Rand) {
		opts := []vivid.ActorOption{}
		if r.Chance(1, 4) {
			opts = append(opts, vivid.WithActorSupervisionStrategy(allStrategy))
		} else {
			opts = append(opts, vivid.WithActorSupervisionStrategy(h.strategy))
		}
		if r.Chance(1, 3) { // explicit names, sometimes colliding on purpose
			n := names.Add(1)
			if r.Chance(1, 4) && n > 2 {
				n -= uint64(1 + r.Intn(2))
			}
			opts = append(opts, vivid.WithActorName(fmt.Sprintf("top-%d", n)))
		}
		ref, err := sys.ActorOf(h.newWorker(0), opts...)
		if err != nil {
			h.spawnErr.Add(1)
			return
		}
		if p.add(ref) > 120 {
			if old := p.take(r); old != nil {
				sys.Kill(old, r.Bool(), "pool full")
			}
		}
	}
	for i := 0; i < 8; i++ {
		spawnTop(rr)
	}
	sharedFutures := make(chan vivid.Future[vivid.Message], 64)
	rootMailbox := sys.Mailbox()
	rootPending := func() int32 {
		u, sy, _ := mailbox.XVRacePending(rootMailbox)
		return u + sy
	}
	for w := 0; w < workers; w++ {
		r := rr.Fork()
		wg.Add(1)
		go func() {
			defer wg.Done()
			n := 0
			for time.Now().Before(deadline) {
				n++
				if n%16 == 0 {
					// keep the system in a regime it can drain: every reply to a timed-out Ask and every message to a dead
					// actor becomes a dead letter in the ROOT's mailbox; the callers back off while that backlog is large
					for rootPending() > 20000 && time.Now().Before(deadline) {
						h.throttled.Add(1)
						time.Sleep(time.Millisecond)
					}
				}
				ref := p.pick(r)
				if ref == nil {
					spawnTop(r)
					continue
				}
				op := r.Intn(16)
				h.ops[op].Add(1)
				switch op {
				case 0:
					spawnTop(r)
				case 1:
					if r.Chance(1, 3) {
						if x := p.take(r); x != nil {
							sys.Kill(x, r.Bool(), "stress kill")
						}
					} else {
						sys.Kill(ref, r.Bool(), "stress kill (still in pool)")
					}
				case 2, 3:
					var m vivid.Message
					switch r.Intn(12) {
					case 0:
						m = spawn{1 + r.Intn(2)}
					case 1:
						m = boom{1 + r.Intn(6)}
					case 2:
						m = killChild{r.Bool()}
					case 3:
						m = hold{r.Bool()}
					case 4:
						m = watch{p.pick(r)}
					case 5:
						m = sched{n}
					case 6:
						if r.Bool() {
							m = askPeer{p.pick(r)}
						} else {
							m = askBurst{p.pick(r), r.Chance(2, 3)}
						}
					case 7:
						m = subscribe{r.Bool()}
					case 8:
						if r.Chance(1, 4) {
							m = killSelf{r.Bool()}
						} else {
							m = work{n}
						}
					default:
						m = work{n}
					}
					sys.Tell(ref, m)
				case 4, 5:
					fu := sys.Ask(ref, ping{n}, tinyTimeout(r))
					switch r.Intn(7) {
					case 0:
						_, _ = fu.Result()
					case 1:
						_ = fu.Wait()
					case 2:
						fu.Close(errors.New("closed by caller"))
						_, _ = fu.Result()
					case 3:
						_ = fu.PipeTo(vivid.ActorRefs{p.pick(r), ref})
						_ = fu.Wait()
					case 4: // hand the future to another goroutine and use it here too
						select {
						case sharedFutures <- fu:
						default:
						}
						if r.Bool() {
							_ = fu.PipeTo(vivid.ActorRefs{ref})
						}
						_, _ = fu.Result()
					case 5:
						var wg2 sync.WaitGroup
						wg2.Add(2)
						go func() { defer wg2.Done(); fu.Close(errors.New("racing close")) }()
						go func() { defer wg2.Done(); _ = fu.PipeTo(vivid.ActorRefs{ref}) }()
						_, _ = fu.Result()
						wg2.Wait()
					default: // abandoned: the timeout has to clean up
					}
				case 6:
					select {
					case fu := <-sharedFutures:
						switch r.Intn(4) {
						case 0:
							fu.Close(errors.New("closed by another goroutine"))
						case 1:
							_ = fu.PipeTo(vivid.ActorRefs{ref, p.pick(r)})
						case 2:
							_, _ = fu.Result()
						default:
							_ = fu.Wait()
						}
					default:
					}
				case 7:
					if got, err := sys.FindActor(ref.String()); err == nil && !got.Equals(ref) {
						mon("tree", "FindActor("+ref.String()+") returned a different actor: "+got.String())
					}
					_, _ = sys.FindActor(rootRef.GetAddress() + "/no/such/actor")
				case 8:
					c := subCtx{ref, lg}
					switch r.Intn(4) {
					case 0:
						es.Subscribe(c, evA{})
					case 1:
						es.Unsubscribe(c, evA{})
					case 2:
						es.Subscribe(c, evB{})
					default:
						es.UnsubscribeAll(c)
					}
				case 9:
					if r.Bool() {
						es.Publish(subCtx{ref, lg}, evA{n})
					} else {
						es.Publish(subCtx{rootRef, lg}, evB{n})
					}
				case 10:
					c := ref.Clone()
					_ = c.String()
					_ = ref.String()
					if !c.Equals(ref) || c.GetPath() != ref.GetPath() {
						mon("tree", "Ref.Clone differs from its original: "+ref.String())
					}
					sys.Tell(c, work{n}) // fills the clone's mailbox cache
					sys.Tell(ref, work{n})
				case 11:
					sys.PipeTo(ref, ping{n}, vivid.ActorRefs{p.pick(r), ref}, tinyTimeout(r))
				case 12:
					nn := n // the task may outlive this iteration (the future can time out first)
					fu := sys.Entrust(tinyTimeout(r), vivid.EntrustTaskFN(func() (vivid.Message, error) {
						if nn%3 == 0 {
							return nil, errors.New("task failed")
						}
						if nn%7 == 0 {
							panic("task panic")
						}
						return pong{nn}, nil
					}))
					_, _ = fu.Result()
				case 13:
					_, _ = sys.Ping(ref, tinyTimeout(r))
				case 14:
					// a parsed ref has an empty cache: every Tell through it races to fill it
					if pr, err := sys.ParseRef(ref.String()); err == nil {
						var wg2 sync.WaitGroup
						nn := n
						for k := 0; k < 3; k++ {
							wg2.Add(1)
							go func() { defer wg2.Done(); sys.Tell(pr, work{nn}) }()
						}
						wg2.Wait()
					}
				default:
					sys.Tell(ref, boom{1 + r.Intn(6)})
				}
			}
		}()
	}
	finished := make(chan struct{})
	go func() { wg.Wait(); close(finished) }()
	select {
	case <-finished:
	case <-time.After(dur + 60*time.Second):
		mon("hang", "API callers still blocked 60 s after the end of the stress\n"+stacks())
		fmt.Println("XVDONE")
		os.Exit(0)
	}
	h.stopping.Store(true)

	// quiescence: the tree must stop changing and every mailbox must be empty and idle
	var last string
	stable := 0
	var root actor.XVRaceNode
	var nodes []actor.XVRaceNode
	var futures, agents int
	qt0 := time.Now()
	qlimit := 60*time.Second + dur/2
	busy := 0
	for time.Since(qt0) < qlimit && stable < 6 {
		time.Sleep(150 * time.Millisecond)
		root, nodes, futures, agents = actor.XVRaceSnapshot(sys)
		var sb strings.Builder
		busy = 0
		for _, n := range append([]actor.XVRaceNode{root}, nodes...) {
			fmt.Fprint(&sb, n.Path, n.State, n.Paused, n.Children, ";")
			if u, sy, proc := mailbox.XVRacePending(n.Mailbox); u+sy > 0 && !n.Paused || sy > 0 || proc {
				busy++
			}
		}
		fmt.Fprint(&sb, futures, agents, h.handled.Load())
		if s := sb.String(); s == last && busy == 0 {
			stable++
		} else {
			stable, last = 0, s
		}
	}
	quiescent := stable >= 6
	// the tree is only required to be consistent when nothing is in progress (a child that is being released is
	// legitimately in one table and not in the other for a moment)
	problems := checkTree(root, nodes)
	if quiescent {
		snapCase("tree-snapshot:stress", root, nodes)
	}
	if len(problems) > 0 && quiescent {
		mon("tree", fmt.Sprintf("at quiescence registry / children / parent disagree:\n%s", strings.Join(problems, "\n")))
	}
	a, b := actor.XVRaceStreamSizes(sys)
	if a != b {
		mon("tree", fmt.Sprintf("event-stream tables disagree: %d (type -> subscriber) pairs vs %d (subscriber -> type) pairs", a, b))
	}
	killing := 0
	for _, n := range nodes {
		if n.State == 1 {
			killing++
		}
	}
	info := map[string]any{
		"stress_actors_launched": h.launched.Load(), "stress_messages_handled": h.handled.Load(), "stress_events_delivered": h.events.Load(),
		"stress_pipe_results": h.pipes.Load(), "stress_spawn_errors": h.spawnErr.Load(), "quiescent": quiescent, "quiescence_wait_s": time.Since(qt0).Seconds(),
		"busy_mailboxes_at_last_poll": busy, "caller_backoffs_on_root_backlog": h.throttled.Load(),
		"registered_at_quiescence": len(nodes), "killing_at_quiescence": killing, "futures_registered_at_quiescence": futures, "future_agents_at_quiescence": agents,
		"stream_pairs_at_quiescence": a,
	}
	opn := []string{"ActorOf", "Kill", "Tell", "Tell", "Ask", "Ask", "shared-future", "FindActor", "Subscribe/Unsubscribe", "Publish", "Ref.Clone/String", "PipeTo", "Entrust", "Ping", "ParseRef+Tell", "Tell(boom)"}
	ops := map[string]int64{}
	for i, n := range opn {
		ops[n] += h.ops[i].Load()
	}
	info["stress_api_calls"] = ops

	// stop: must terminate every actor
	stopErr := make(chan error, 1)
	go func() { stopErr <- sys.Stop() }()
	select {
	case err := <-stopErr:
		if err != nil {
			root2, left, _, _ := actor.XVRaceSnapshot(sys)
			var ls []string
			paused := 0
			for _, n := range left {
				if n.Paused {
					paused++
				}
				if len(ls) < 40 {
					ls = append(ls, fmt.Sprintf("%s(state %d, paused %v, %d children)", n.Path, n.State, n.Paused, len(n.Children)))
				}
			}
			// an actor that never terminates (for instance one left paused) is the business of C06 / C07 / C09, not of the
			// concurrency-safety property: reported under its own name (filtered out of C10 by the registry, kept in the info)
			mon("stop-failed", fmt.Sprintf("System.Stop failed: %v\nroot: state %d, mailbox paused %v, %d children; %d contexts still registered (%d paused)\ngoroutines in vivid code:\n%s\nstill registered (first 40): %s",
				err, root2.State, root2.Paused, len(root2.Children), len(left), paused, stacks(), strings.Join(ls, " ")))
		} else {
			root2, left, _, _ := actor.XVRaceSnapshot(sys)
			if len(left) > 0 || len(root2.Children) > 0 {
				var ls []string
				for _, n := range left {
					ls = append(ls, fmt.Sprintf("%s(state %d)", n.Path, n.State))
				}
				mon("tree", fmt.Sprintf("after a successful System.Stop %d contexts are still registered and the root has %d children: %s", len(left), len(root2.Children), clip(strings.Join(ls, " "), 3000)))
			}
			info["registered_after_stop"] = len(left)
		}
	case <-time.After(90 * time.Second):
		mon("hang", "System.Stop did not return within 90 s\n"+stacks())
	}
	js, _ := json.Marshal(info)
	fmt.Printf("XVINFO\t%s\n", js)
	fmt.Println("XVDONE")
}

// ---------------------------------------------------------------- child: tree consistency under spawn / termination overlap at the root
//
// System.ActorOf runs on the CALLER's goroutine, the death of a top-level actor is handled on the ROOT's mailbox
// goroutine: the root is the only parent whose child table is written by two goroutines in the normal course of
// things. The rounds below aim at exactly that overlap in the state in which it matters most - the root has one
// (sometimes zero or two) top-level children and ALL of them terminate while several System.ActorOf calls are in
// flight (actors whose OnPrelaunch takes 0.1 - 2 ms, so that the window NewContext .. insert-into-children is wide).
// After every round the system is left to quiesce and the tree monitor is evaluated (registry <-> children of the
// parent, both ways, for the top-level actors: exactly the actors spawned in the round and not yet killed); at the
// end System.Stop must stop every actor ever spawned. One own real system; everything derives from the seed.

type roActor struct {
	name     string
	delay    time.Duration
	launched atomic.Bool
	killedAt atomic.Int64 // unix nanos of its own OnKilled
}

func (a *roActor) OnPrelaunch(ctx vivid.PrelaunchContext) error {
	if a.delay > 0 {
		t0 := time.Now()
		if a.delay > 500*time.Microsecond {
			time.Sleep(a.delay - 300*time.Microsecond)
		}
		for time.Since(t0) < a.delay { // the rest is spun: sleeps of a few hundred microseconds overshoot a lot
			runtime.Gosched()
		}
	}
	return nil
}

func (a *roActor) OnReceive(ctx vivid.ActorContext) {
	switch m := ctx.Message().(type) {
	case *vivid.OnLaunch:
		a.launched.Store(true)
	case *vivid.OnKilled:
		if m.Ref.Equals(ctx.Ref()) {
			a.killedAt.Store(time.Now().UnixNano())
		}
	}
}

type roLive struct {
	a   *roActor
	ref vivid.ActorRef
}

func rootOverlap(seed uint64, budget time.Duration) {
	t0 := time.Now()
	r := lib.NewRand(seed*0x51ed2701 + 77)
	lg := log.NewSilentLogger()
	sys := actor.NewSystem(vivid.WithActorSystemLogger(lg), vivid.WithActorSystemStopTimeout(20*time.Second))
	if err := sys.Start(); err != nil {
		mon("child-died", "root-overlap phase: System.Start failed: "+err.Error())
		return
	}
	rootMailbox := sys.Mailbox()
	var everyone []roLive // every actor ever spawned successfully
	var victims []roLive  // the root's current children
	var names atomic.Uint64
	spawn := func(delay time.Duration) (roLive, error) {
		a := &roActor{delay: delay, name: fmt.Sprintf("ro-%d", names.Add(1))}
		ref, err := sys.ActorOf(a, vivid.WithActorName(a.name))
		return roLive{a, ref}, err
	}
	rounds, overlapped, lastChild, violations := 0, 0, 0, 0
	histK := map[int]int{}
	waitFor := func(limit time.Duration, cond func() bool) bool {
		for dl := time.Now().Add(limit); ; {
			if cond() {
				return true
			}
			if time.Now().After(dl) {
				return false
			}
			time.Sleep(100 * time.Microsecond)
		}
	}
	rootIdle := func() bool {
		u, sy, proc := mailbox.XVRacePending(rootMailbox)
		return u+sy == 0 && !proc
	}
	deadline := t0.Add(budget)
	for time.Now().Before(deadline) && violations == 0 {
		rounds++
		// the root gets exactly k children (survivors of the previous round first)
		k := []int{1, 1, 1, 1, 1, 0, 2, 2}[r.Intn(8)]
		for len(victims) < k {
			v, err := spawn(0)
			if err != nil {
				mon("tree", "root-overlap: spawning a plain top-level actor on a quiescent system failed: "+err.Error())
				violations++
				break
			}
			everyone = append(everyone, v)
			victims = append(victims, v)
		}
		for len(victims) > k { // surplus survivors die before the round starts
			v := victims[len(victims)-1]
			victims = victims[:len(victims)-1]
			sys.Kill(v.ref, false, "root-overlap surplus")
			waitFor(5*time.Second, func() bool { return roReleased(sys, v) })
		}
		if !waitFor(5*time.Second, func() bool {
			for _, v := range victims {
				if !v.a.launched.Load() {
					return false
				}
			}
			return rootIdle()
		}) {
			mon("hang", fmt.Sprintf("root-overlap round %d: the system did not become idle within 5 s before the round\n%s", rounds, stacks()))
			break
		}
		histK[k]++
		// N goroutines call System.ActorOf (slow OnPrelaunch) while every child of the root is killed
		nsp := 2 + r.Intn(3)
		jitter := time.Duration(r.Intn(900)) * time.Microsecond
		poison := r.Bool()
		type plan struct{ delays []time.Duration }
		plans := make([]plan, nsp)
		var planText []string
		for i := range plans {
			for j := 1 + r.Intn(2); j > 0; j-- {
				plans[i].delays = append(plans[i].delays, time.Duration(100+r.Intn(1900))*time.Microsecond)
			}
			planText = append(planText, fmt.Sprint(plans[i].delays))
		}
		var wg sync.WaitGroup
		var mu sync.Mutex
		var fresh []roLive
		var spawnErrs []string
		var gate atomic.Bool
		var firstStart, lastEnd atomic.Int64
		for i := range plans {
			pl := plans[i]
			wg.Add(1)
			go func() {
				defer wg.Done()
				for !gate.Load() {
					runtime.Gosched()
				}
				for _, d := range pl.delays {
					firstStart.CompareAndSwap(0, time.Now().UnixNano())
					v, err := spawn(d)
					lastEnd.Store(time.Now().UnixNano())
					mu.Lock()
					if err != nil {
						spawnErrs = append(spawnErrs, err.Error())
					} else {
						fresh = append(fresh, v)
					}
					mu.Unlock()
				}
			}()
		}
		wg.Add(1)
		go func() {
			defer wg.Done()
			for !gate.Load() {
				runtime.Gosched()
			}
			for t := time.Now(); time.Since(t) < jitter; {
				runtime.Gosched()
			}
			for _, v := range victims {
				sys.Kill(v.ref, poison, "root-overlap")
			}
		}()
		gate.Store(true)
		wg.Wait()
		if len(spawnErrs) > 0 {
			// unique names, a running system, a live root: System.ActorOf has no reason to fail
			mon("tree", fmt.Sprintf("root-overlap round %d: System.ActorOf failed while the root's children were terminating: %s", rounds, strings.Join(spawnErrs, "; ")))
			violations++
		}
		everyone = append(everyone, fresh...)
		// quiescence: the victims are gone from the registry, every new actor has been launched, the root is idle
		gone := func() bool {
			for _, v := range victims {
				if v.a.killedAt.Load() == 0 {
					return false
				}
				if _, err := sys.FindActor(v.ref.String()); err == nil {
					return false
				}
			}
			for _, v := range fresh {
				if !v.a.launched.Load() {
					return false
				}
			}
			return rootIdle()
		}
		if !waitFor(5*time.Second, func() bool { return gone() && gone() }) {
			mon("hang", fmt.Sprintf("root-overlap round %d (%d children killed, %d spawners): 5 s after the round the killed top-level actors are still registered / the new ones not launched / the root still busy\n%s",
				rounds, k, nsp, stacks()))
			break
		}
		inWindow := 0
		for _, v := range victims {
			if at := v.a.killedAt.Load(); at >= firstStart.Load() && at <= lastEnd.Load() {
				inWindow++
			}
		}
		if inWindow > 0 {
			overlapped++
			if inWindow == len(victims) { // the root's child table became empty while a spawn was in flight
				lastChild++
			}
		}
		// the tree monitor: registry <-> children <-> parent, and exactly the expected top-level population
		root, nodes, _, _ := actor.XVRaceSnapshot(sys)
		problems := checkTree(root, nodes)
		snapCase("tree-snapshot:root-overlap", root, nodes) // the model's consistency check must give the Go-side verdict
		want := map[string]bool{}
		for _, v := range fresh {
			want[v.ref.GetPath()] = true
		}
		inChildren := map[string]bool{}
		for _, c := range root.Children {
			inChildren[c] = true
			if !want[c] {
				problems = append(problems, "the root's children list "+c+", which is not one of the live top-level actors")
			}
		}
		registered := map[string]bool{}
		for _, n := range nodes {
			registered[n.Path] = true
			if !want[n.Path] {
				problems = append(problems, n.Path+" is registered but is not one of the live top-level actors")
			}
		}
		for _, v := range fresh {
			p := v.ref.GetPath()
			if !registered[p] {
				problems = append(problems, "live top-level actor "+p+" (System.ActorOf returned it) is not registered")
			}
			if !inChildren[p] {
				problems = append(problems, "live top-level actor "+p+" (System.ActorOf returned it, FindActor finds it: "+fmt.Sprint(registered[p])+") is missing from the root's children")
			}
		}
		if len(problems) > 0 {
			violations++
			mon("tree", fmt.Sprintf("root-overlap round %d: the root had %d child(ren), all killed (poison=%v, %v after the spawners started) while %d goroutines called System.ActorOf (OnPrelaunch delays per goroutine: %s); at quiescence registry / children / parent disagree:\n%s",
				rounds, k, poison, jitter, nsp, strings.Join(planText, " "), strings.Join(dedup(problems), "\n")))
		}
		// the survivors are the next round's children of the root
		keep := []int{0, 1, 1, 1, 2, 2}[r.Intn(6)]
		victims = victims[:0]
		for i, v := range fresh {
			if i < keep {
				victims = append(victims, v)
			} else {
				sys.Kill(v.ref, r.Bool(), "root-overlap cleanup")
			}
		}
		rest := fresh[min(keep, len(fresh)):]
		if !waitFor(5*time.Second, func() bool {
			for _, v := range rest {
				if !roReleased(sys, v) {
					return false
				}
			}
			return true
		}) {
			mon("hang", fmt.Sprintf("root-overlap round %d: top-level actors killed on a quiet system did not terminate within 5 s\n%s", rounds, stacks()))
			break
		}
	}
	// System.Stop must stop every actor ever spawned
	stopErr := make(chan error, 1)
	go func() { stopErr <- sys.Stop() }()
	select {
	case err := <-stopErr:
		if err == nil {
			waitFor(2*time.Second, func() bool {
				for _, v := range everyone {
					if v.a.killedAt.Load() == 0 {
						return false
					}
				}
				return true
			})
			root, left, _, _ := actor.XVRaceSnapshot(sys)
			var bad []string
			for _, n := range left {
				bad = append(bad, fmt.Sprintf("%s is still registered (state %d)", n.Path, n.State))
			}
			for _, c := range root.Children {
				bad = append(bad, c+" is still a child of the root")
			}
			for _, v := range everyone {
				if v.a.killedAt.Load() == 0 {
					bad = append(bad, v.ref.GetPath()+" never received its own OnKilled (still running)")
				}
			}
			if len(bad) > 0 {
				if len(bad) > 30 {
					bad = append(bad[:30], fmt.Sprintf("... %d more", len(bad)-30))
				}
				mon("tree", fmt.Sprintf("root-overlap: System.Stop returned nil after %d rounds but:\n%s", rounds, strings.Join(bad, "\n")))
			}
		} else {
			mon("stop-failed", "root-overlap: System.Stop failed: "+err.Error())
		}
	case <-time.After(60 * time.Second):
		mon("hang", "root-overlap: System.Stop did not return within 60 s\n"+stacks())
	}
	js, _ := json.Marshal(map[string]any{
		"root_overlap_rounds": rounds, "root_overlap_rounds_child_died_during_inflight_spawn": overlapped,
		"root_overlap_rounds_all_children_died_during_inflight_spawn": lastChild,
		"root_overlap_children_of_root_histogram": fmt.Sprint(histK), "root_overlap_actors_spawned": len(everyone), "root_overlap_wall_s": time.Since(t0).Seconds(),
	})
	fmt.Printf("XVINFO\t%s\n", js)
}

// roReleased: the killed top-level actor has COMPLETED its release - it saw its own OnKilled, its registration is deleted and
// the root has handled its notice (its reference is gone from the root's child table). killedAt alone is set inside the
// actor's OnKilled behaviour, i.e. BEFORE the registry delete and the notice: a round that only waited for it could take its
// snapshot while an actor killed in the previous round's clean-up was still (consistently) registered and in the table - a
// state that is not quiescent, reported by the tree monitor as "not one of the live top-level actors" (false alarm seen once
// in a thorough run on a busy machine, after /repo 3f0f6ad lengthened that stretch by a second futures clean-up).
func roReleased(sys *actor.System, v roLive) bool {
	return v.a.killedAt.Load() != 0 && !actor.XVRaceRegisteredIs(sys, v.ref) && !actor.XVRaceRootChildIs(sys, v.ref)
}

func dedup(xs []string) []string {
	seen := map[string]bool{}
	var out []string
	for _, x := range xs {
		if !seen[x] {
			seen[x] = true
			out = append(out, x)
		}
	}
	return out
}

func stacks() string {
	buf := make([]byte, 1<<20)
	n := runtime.Stack(buf, true)
	return vividGoroutines(string(buf[:n]), repoPath())
}

// checkTree: registry <-> children <-> parent.
func checkTree(root actor.XVRaceNode, nodes []actor.XVRaceNode) []string {
	var out []string
	byPath := map[string]actor.XVRaceNode{root.Path: root}
	for _, n := range nodes {
		if _, dup := byPath[n.Path]; dup {
			out = append(out, "path registered twice (or the root is registered): "+n.Path)
		}
		byPath[n.Path] = n
	}
	all := append([]actor.XVRaceNode{root}, nodes...)
	for _, n := range nodes {
		if !n.HasParent {
			out = append(out, "registered context without parent: "+n.Path)
			continue
		}
		par, ok := byPath[n.ParentPath]
		if !ok {
			out = append(out, fmt.Sprintf("%s is registered but its parent %s is neither registered nor the root", n.Path, n.ParentPath))
			continue
		}
		found := false
		for _, c := range par.Children {
			if c == n.Path {
				found = true
			}
		}
		if !found {
			out = append(out, fmt.Sprintf("%s (state %d) is registered but missing from the children of its parent %s", n.Path, n.State, n.ParentPath))
		}
	}
	for _, n := range all {
		for i, c := range n.Children {
			if n.ChildRefs[i] != c {
				out = append(out, fmt.Sprintf("children[%s] of %s holds the ref %s", c, n.Path, n.ChildRefs[i]))
			}
			ch, ok := byPath[c]
			if !ok {
				out = append(out, fmt.Sprintf("%s is a child of %s (state %d) but is not registered", c, n.Path, n.State))
				continue
			}
			if ch.ParentPath != n.Path {
				out = append(out, fmt.Sprintf("%s is in the children of %s but its parent is %s", c, n.Path, ch.ParentPath))
			}
		}
	}
	if len(out) > 40 {
		out = append(out[:40], fmt.Sprintf("... %d more", len(out)-40))
	}
	return out
}
