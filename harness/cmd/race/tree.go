// tree.go: the tie of the actor-tree machine (coq/Race/Tree.v, theorems C10_tree_*) to the real code.
//
//  1. Window scenarios. Each scenario forces ONE schedule of the machine on a fresh real system - the spawner is parked
//     at the lock acquisition in front of the insertion into the root's child table (hook generated into a copy of
//     context.go by accessgen -hooks), inside OnPrelaunch (between the state check and the registration), the root is
//     parked in front of removeChild - observes the three tables (registry, root's child table, state words) by object
//     identity, and emits the schedule (in the machine's labels) together with the observation as a CASE: the Coq model
//     (Race/TreeRun.v, run_race input (2 sched queries)) must compute the same tables. Two defects of the root were found with these
//     schedules and are repaired in /repo; their monitors stay armed as regression monitors: tree-stale-root-child (an actor
//     killed between appendActorContext and the insertion into the root's child table was inserted dead, b0e210b; the Coq
//     side keeps the schedule as C10_tree_former_stale_child_schedule_repaired) and tree-orphan-under-dead-root (the root
//     dying between the state check and the registration, 6438ab6); any other inconsistent outcome is the monitor tree.
//     The schedule restart-in-progress is the one that rejects a repair testing the child's STATE word instead of its
//     registration (a restart passes through state killed).
//  2. Snapshot cases. Every quiescent snapshot taken by the stress phases is also sent through the model's consistency
//     check (run_race input (3 root nodes), Race/Tree.v snap_violations): the Go-side verdict must be the model's.
package main

import (
	"fmt"
	"runtime"
	"sort"
	"strconv"
	"strings"
	"sync/atomic"
	"time"

	"github.com/kercylan98/vivid"
	"github.com/kercylan98/vivid/internal/actor"
	"github.com/kercylan98/vivid/internal/mailbox"
	"github.com/kercylan98/vivid/pkg/log"
	"github.com/kercylan98/vivid/xverif/lib"
)

func emitCase(kind string, nontrivial bool, in, out lib.T) {
	nt := 0
	if nontrivial {
		nt = 1
	}
	fmt.Printf("XVCASE\t%s\t%d\t%s\t%s\n", kind, nt, lib.Show(in), lib.Show(out))
}

// parseTerm: the text form of lib.T (hex number, #hexbytes, ( t ... )) back into a term (parent side of XVCASE)
func parseTerm(s string) (lib.T, error) {
	toks := strings.Fields(strings.NewReplacer("(", " ( ", ")", " ) ").Replace(s))
	pos := 0
	var term func() (lib.T, error)
	term = func() (lib.T, error) {
		if pos >= len(toks) {
			return nil, fmt.Errorf("unexpected end of term")
		}
		t := toks[pos]
		pos++
		switch {
		case t == "(":
			var xs []lib.T
			for pos < len(toks) && toks[pos] != ")" {
				x, err := term()
				if err != nil {
					return nil, err
				}
				xs = append(xs, x)
			}
			if pos >= len(toks) {
				return nil, fmt.Errorf("missing )")
			}
			pos++
			return lib.LS(xs), nil
		case t == ")":
			return nil, fmt.Errorf("unexpected )")
		case strings.HasPrefix(t, "#"):
			b := make([]byte, 0, len(t)/2)
			for i := 1; i+1 < len(t); i += 2 {
				v, err := strconv.ParseUint(t[i:i+2], 16, 8)
				if err != nil {
					return nil, err
				}
				b = append(b, byte(v))
			}
			return lib.B(b), nil
		default:
			v, err := strconv.ParseUint(t, 16, 64)
			if err != nil {
				return nil, err
			}
			return lib.N(v), nil
		}
	}
	x, err := term()
	if err != nil {
		return nil, err
	}
	if pos != len(toks) {
		return nil, fmt.Errorf("trailing tokens")
	}
	return x, nil
}

// ---------------------------------------------------------------- labels of the machine (Race/TreeRun.v get_thr / get_lbl)

func thExt(n int) lib.T { return lib.L(lib.N(0), lib.NI(n)) }
func thOwn(a int) lib.T { return lib.L(lib.N(1), lib.NI(a)) }
func st(t lib.T, l lib.T) lib.T { return lib.L(t, l) }
func lb(k int, args ...int) lib.T {
	xs := []lib.T{lib.NI(k)}
	for _, a := range args {
		xs = append(xs, lib.NI(a))
	}
	return lib.LS(xs)
}

var (
	lAcq, lRel, lSpRegister, lSpInsert           = lb(0), lb(1), lb(3), lb(4)
	lKill, lCount, lMark, lDereg, lNotify        = lb(5), lb(6), lb(7), lb(11), lb(12)
	lSpCheck                                     = func(p, c int) lib.T { return lb(2, p, c) }
	lHandle                                      = func(c int) lib.T { return lb(13, c) }
)

func spawnSteps(t lib.T, p, c int) []lib.T {
	return []lib.T{st(t, lAcq), st(t, lSpCheck(p, c)), st(t, lSpRegister), st(t, lSpInsert), st(t, lRel)}
}
func dieSteps(a int) []lib.T { // kill, childCount()==0, CAS killing->killed, registry delete, notice to the parent
	o := thOwn(a)
	return []lib.T{st(o, lKill), st(o, lCount), st(o, lMark), st(o, lDereg), st(o, lNotify)}
}

// ---------------------------------------------------------------- scenario actors and observation

type twActor struct {
	entered  chan struct{} // closed when OnPrelaunch is entered (nil: no gate)
	release  chan struct{} // OnPrelaunch returns when this is closed
	launched atomic.Bool
	killed   atomic.Bool
}

func (a *twActor) OnPrelaunch(ctx vivid.PrelaunchContext) error {
	if a.entered != nil {
		close(a.entered)
		<-a.release
	}
	return nil
}

func (a *twActor) OnReceive(ctx vivid.ActorContext) {
	switch m := ctx.Message().(type) {
	case *vivid.OnLaunch:
		a.launched.Store(true)
	case *vivid.OnKilled:
		if m.Ref.Equals(ctx.Ref()) {
			a.killed.Store(true)
		}
	}
}

type twObs struct{ reg, child, stC, stP int }

func (o twObs) term() lib.T { return lib.L(lib.NI(o.reg), lib.NI(o.child), lib.NI(o.stC), lib.NI(o.stP)) }

func b2i(b bool) int {
	if b {
		return 1
	}
	return 0
}

// observe: registry / root's child table by object identity, state words (a context that is no longer registered has no
// reachable state word: killed if the actor saw its own OnKilled, running otherwise)
func twObserve(sys *actor.System, a *twActor, ref vivid.ActorRef) twObs {
	o := twObs{reg: b2i(actor.XVRaceRegisteredIs(sys, ref)), child: b2i(actor.XVRaceRootChildIs(sys, ref)), stP: int(actor.XVRaceRootState(sys))}
	switch {
	case o.reg == 1:
		o.stC = int(actor.XVRaceState(sys, ref.GetPath()))
	case a.killed.Load():
		o.stC = 2
	}
	return o
}

func goid() string {
	buf := make([]byte, 64)
	n := runtime.Stack(buf, false)
	f := strings.Fields(string(buf[:n]))
	if len(f) >= 2 {
		return f[1]
	}
	return ""
}

func waitUntil(limit time.Duration, cond func() bool) bool {
	for dl := time.Now().Add(limit); ; {
		if cond() {
			return true
		}
		if time.Now().After(dl) {
			return false
		}
		time.Sleep(200 * time.Microsecond)
	}
}

type twResult struct {
	name    string
	sched   []lib.T
	queries [][2]int
	obs     []twObs
	quiet   bool
	skipped string // non-empty: the schedule could not be forced (reason); no case is emitted
	witness string // "", "stale": the schedule of the repaired stale-root-entry defect
}

func twSystem() *actor.System {
	sys := actor.NewSystem(vivid.WithActorSystemLogger(log.NewSilentLogger()), vivid.WithActorSystemStopTimeout(400*time.Millisecond))
	if err := sys.Start(); err != nil {
		return nil
	}
	return sys
}

func rootQuiet(sys *actor.System) bool {
	u, sy, proc := mailbox.XVRacePending(sys.Mailbox())
	return u+sy == 0 && !proc
}

// the scenarios. Context identities of the machine: 0 = root, 1 = the actor named "n1", 4096 = the second actor of that name.
func twScenarios() []twResult {
	var out []twResult
	ext := thExt(1)

	// --- B1: spawn, nothing else
	func() {
		r := twResult{name: "spawn", queries: [][2]int{{0, 1}}}
		sys := twSystem()
		if sys == nil {
			r.skipped = "System.Start failed"
			out = append(out, r)
			return
		}
		a := &twActor{}
		ref, err := sys.ActorOf(a, vivid.WithActorName("n1"))
		if err != nil {
			r.skipped = "ActorOf failed: " + err.Error()
		} else {
			waitUntil(2*time.Second, func() bool { return a.launched.Load() && rootQuiet(sys) })
			r.sched = spawnSteps(ext, 0, 1)
			r.obs = []twObs{twObserve(sys, a, ref)}
			r.quiet = rootQuiet(sys)
		}
		_ = sys.Stop()
		out = append(out, r)
	}()

	// --- B2: spawn, kill, the root handles the notice; then the name is used again
	func() {
		r := twResult{name: "spawn-kill-respawn", queries: [][2]int{{0, 1}, {0, 4096}}}
		sys := twSystem()
		if sys == nil {
			r.skipped = "System.Start failed"
			out = append(out, r)
			return
		}
		a := &twActor{}
		ref, err := sys.ActorOf(a, vivid.WithActorName("n1"))
		if err != nil {
			r.skipped = "ActorOf failed: " + err.Error()
			_ = sys.Stop()
			out = append(out, r)
			return
		}
		waitUntil(2*time.Second, func() bool { return a.launched.Load() })
		sys.Kill(ref, false, "tree scenario")
		waitUntil(2*time.Second, func() bool { return a.killed.Load() && rootQuiet(sys) && !actor.XVRaceRootChildIs(sys, ref) })
		a2 := &twActor{}
		ref2, err := sys.ActorOf(a2, vivid.WithActorName("n1"))
		if err != nil {
			r.skipped = "second ActorOf under the released name failed: " + err.Error()
		} else {
			waitUntil(2*time.Second, func() bool { return a2.launched.Load() && rootQuiet(sys) })
			r.sched = append(append(append(spawnSteps(ext, 0, 1), dieSteps(1)...), st(thOwn(0), lHandle(1))), spawnSteps(ext, 0, 4096)...)
			r.obs = []twObs{twObserve(sys, a, ref), twObserve(sys, a2, ref2)}
			r.quiet = rootQuiet(sys)
		}
		_ = sys.Stop()
		out = append(out, r)
	}()

	// --- B3: duplicate name: the second System.ActorOf is refused (LoadOrStore finds the path taken) and must leave no trace
	func() {
		r := twResult{name: "duplicate-name", queries: [][2]int{{0, 1}, {0, 4096}}}
		sys := twSystem()
		if sys == nil {
			r.skipped = "System.Start failed"
			out = append(out, r)
			return
		}
		a, a2 := &twActor{}, &twActor{}
		ref, err := sys.ActorOf(a, vivid.WithActorName("n1"))
		if err != nil {
			r.skipped = "ActorOf failed: " + err.Error()
		} else {
			waitUntil(2*time.Second, func() bool { return a.launched.Load() })
			ref2, err2 := sys.ActorOf(a2, vivid.WithActorName("n1"))
			waitUntil(time.Second, func() bool { return rootQuiet(sys) })
			r.sched = append(spawnSteps(ext, 0, 1), st(ext, lAcq), st(ext, lSpCheck(0, 4096)), st(ext, lSpRegister), st(ext, lRel))
			o2 := twObs{stP: int(actor.XVRaceRootState(sys))}
			if err2 == nil { // accepted: observe what was created
				o2 = twObserve(sys, a2, ref2)
				r.name += " [the second ActorOf under a taken name was ACCEPTED]"
			}
			r.obs = []twObs{twObserve(sys, a, ref), o2}
			r.quiet = rootQuiet(sys)
		}
		_ = sys.Stop()
		out = append(out, r)
	}()

	// --- B4: late notice after name re-use: n1 is killed and has released its path, the root is parked in front of
	// removeChild; the name is used again (new context inserted); then the root handles the late notice of the OLD context
	func() {
		r := twResult{name: "late-notice-after-name-reuse", queries: [][2]int{{0, 1}, {0, 4096}}}
		sys := twSystem()
		if sys == nil {
			r.skipped = "System.Start failed"
			out = append(out, r)
			return
		}
		a, a2 := &twActor{}, &twActor{}
		ref, err := sys.ActorOf(a, vivid.WithActorName("n1"))
		if err != nil {
			r.skipped = "ActorOf failed: " + err.Error()
			_ = sys.Stop()
			out = append(out, r)
			return
		}
		waitUntil(2*time.Second, func() bool { return a.launched.Load() && rootQuiet(sys) })
		var parked, armed atomic.Bool
		rootGo := make(chan struct{})
		hook := func(fn, lock string) {
			if fn == "Context.removeChild" && armed.Load() && !parked.Load() {
				parked.Store(true)
				<-rootGo
			}
		}
		actor.XVRaceHook.Store(&hook)
		armed.Store(true)
		sys.Kill(ref, false, "tree scenario")
		if !waitUntil(3*time.Second, func() bool { return parked.Load() }) {
			r.skipped = "the root did not reach removeChild within 3 s (hook not generated / removeChild renamed)"
			close(rootGo)
		} else {
			ref2, err2 := sys.ActorOf(a2, vivid.WithActorName("n1"))
			close(rootGo)
			if err2 != nil {
				r.skipped = "ActorOf under the released name failed while the old notice was pending: " + err2.Error()
			} else {
				waitUntil(2*time.Second, func() bool { return a2.launched.Load() && rootQuiet(sys) })
				time.Sleep(2 * time.Millisecond)
				waitUntil(2*time.Second, func() bool { return rootQuiet(sys) })
				r.sched = append(append(append(spawnSteps(ext, 0, 1), dieSteps(1)...), spawnSteps(ext, 0, 4096)...), st(thOwn(0), lHandle(1)))
				r.obs = []twObs{twObserve(sys, a, ref), twObserve(sys, a2, ref2)}
				r.quiet = rootQuiet(sys)
			}
		}
		actor.XVRaceHook.Store(nil)
		_ = sys.Stop()
		out = append(out, r)
	}()

	// --- W1 (the schedule of the former finding "stale child", repaired by b0e210b) and W1' (same window, but the root
	// handles the notice after the insertion)
	for _, late := range []bool{false, true} {
		func() {
			r := twResult{name: "window-registered-not-inserted:kill,notice-handled-first", queries: [][2]int{{0, 1}}, witness: "stale"}
			if late {
				r.name, r.witness = "window-registered-not-inserted:kill,notice-handled-after-insert", ""
			}
			sys := twSystem()
			if sys == nil {
				r.skipped = "System.Start failed"
				out = append(out, r)
				return
			}
			a := &twActor{}
			var spawner, rootG atomic.Value // goroutine ids: the spawner; the root's mailbox goroutine (seen at removeChild)
			var fired, rootParked, rootCounted atomic.Bool
			var problem atomic.Value
			rootGo := make(chan struct{})
			hook := func(fn, lock string) {
				if !strings.HasSuffix(lock, "childrenLock") {
					return
				}
				me := goid()
				if sp, _ := spawner.Load().(string); sp == me && !fired.Load() {
					// the spawner is about to insert: the child must be registered and not yet in the root's table
					fired.Store(true)
					found, err := sys.FindActor(sys.Ref().GetAddress() + "/n1")
					if err != nil {
						problem.Store("the spawner reached the insertion into the root's child table but the new actor is not in the registry yet (" + err.Error() + "): the order registration -> insertion changed")
						return
					}
					sys.Kill(found, false, "tree scenario: kill in the window")
					if !waitUntil(3*time.Second, func() bool { return a.killed.Load() }) {
						problem.Store("the actor killed in the window did not terminate within 3 s")
						return
					}
					if late {
						// the root must not have handled the notice yet: it is parked in front of removeChild
						if !waitUntil(3*time.Second, func() bool { return rootParked.Load() }) {
							problem.Store("the root did not reach removeChild within 3 s")
						}
					} else if !waitUntil(3*time.Second, func() bool { return rootCounted.Load() }) {
						// handleChildDeath = removeChild, the behaviour, then checkAndMarkKilled -> childCount(): once the root's
						// goroutine reaches childCount() its removeChild for this notice is complete
						problem.Store("the root did not finish handling the notice (removeChild .. childCount) within 3 s")
					}
					return
				}
				if !late && fired.Load() {
					// only the ROOT's goroutine calls removeChild here (the victim has no children); the victim's own
					// checkAndMarkKilled calls childCount() too, so the goroutine is what identifies the root
					if fn == "Context.removeChild" {
						rootG.Store(me)
					} else if g, _ := rootG.Load().(string); fn == "Context.childCount" && g == me {
						rootCounted.Store(true)
					}
				}
				if late && fn == "Context.removeChild" && fired.Load() && !rootParked.Load() {
					rootParked.Store(true)
					<-rootGo // released after the spawner returned
				}
			}
			actor.XVRaceHook.Store(&hook)
			done := make(chan vivid.ActorRef, 1)
			go func() {
				spawner.Store(goid())
				ref, err := sys.ActorOf(a, vivid.WithActorName("n1"))
				if err != nil {
					problem.Store("ActorOf failed: " + err.Error())
				}
				done <- ref
			}()
			var ref vivid.ActorRef
			select {
			case ref = <-done:
			case <-time.After(10 * time.Second):
				problem.Store("ActorOf did not return within 10 s")
			}
			close(rootGo)
			actor.XVRaceHook.Store(nil)
			switch {
			case !fired.Load():
				r.skipped = "no childrenLock acquisition on the spawner's goroutine (hook not generated / child table no longer under childrenLock)"
			case problem.Load() != nil:
				r.skipped = problem.Load().(string)
			case ref == nil:
				r.skipped = "ActorOf returned no reference"
			default:
				waitUntil(2*time.Second, func() bool { return rootQuiet(sys) })
				time.Sleep(5 * time.Millisecond)
				waitUntil(2*time.Second, func() bool { return rootQuiet(sys) })
				window := []lib.T{st(ext, lAcq), st(ext, lSpCheck(0, 1)), st(ext, lSpRegister)}
				tail := []lib.T{st(ext, lSpInsert), st(ext, lRel)}
				if late {
					r.sched = append(append(append(window, dieSteps(1)...), tail...), st(thOwn(0), lHandle(1)))
				} else {
					r.sched = append(append(append(window, dieSteps(1)...), st(thOwn(0), lHandle(1))), tail...)
				}
				r.obs = []twObs{twObserve(sys, a, ref)}
				r.quiet = rootQuiet(sys)
			}
			stopErr := sys.Stop()
			if r.skipped == "" && len(r.obs) == 1 && r.obs[0].child == 1 && r.obs[0].reg == 0 {
				r.name += fmt.Sprintf(" [System.Stop afterwards: %v]", stopErr)
			}
			out = append(out, r)
		}()
	}

	// --- R2a / R2b: the kill lands AFTER the insertion, at the spawner's first read of a state word after it (in the repaired
	// code: the read of the child's state inside the childrenLock section). a: the child terminates completely while the
	// spawner is parked there (its notice waits for the lock); b: the child is parked in state killing (at its own
	// childCount()) while the spawner reads, and terminates afterwards.
	for _, variant := range []string{"killed-at-the-read", "killing-at-the-read"} {
		func() {
			r := twResult{name: "window-inserted-state-read:" + variant, queries: [][2]int{{0, 1}}}
			sys := twSystem()
			if sys == nil {
				r.skipped = "System.Start failed"
				out = append(out, r)
				return
			}
			a := &twActor{}
			var spawner atomic.Value
			var fired, childParked atomic.Bool
			var problem atomic.Value
			childGo := make(chan struct{})
			hook := func(fn, lock string) {
				me := goid()
				sp, _ := spawner.Load().(string)
				if lock == "state-read" && sp == me && !fired.Load() {
					fired.Store(true)
					found, err := sys.FindActor(sys.Ref().GetAddress() + "/n1")
					if err != nil {
						problem.Store("the new actor is not registered at the spawner's state read: " + err.Error())
						return
					}
					sys.Kill(found, false, "tree scenario: kill at the state read")
					if variant == "killed-at-the-read" {
						if !waitUntil(3*time.Second, func() bool { return a.killed.Load() && !actor.XVRaceRegisteredIs(sys, found) }) {
							problem.Store("the actor killed at the state read did not terminate within 3 s")
						}
						time.Sleep(3 * time.Millisecond) // its notice reaches the root (which may be waiting for childrenLock)
					} else if !waitUntil(3*time.Second, func() bool { return childParked.Load() }) {
						problem.Store("the killed actor did not reach childCount() within 3 s")
					}
					return
				}
				if variant == "killing-at-the-read" && fn == "Context.childCount" && fired.Load() && sp != me && !childParked.Load() {
					childParked.Store(true)
					<-childGo
				}
			}
			actor.XVRaceHook.Store(&hook)
			done := make(chan vivid.ActorRef, 1)
			go func() {
				spawner.Store(goid())
				ref, err := sys.ActorOf(a, vivid.WithActorName("n1"))
				if err != nil {
					problem.Store("ActorOf failed: " + err.Error())
				}
				done <- ref
			}()
			var ref vivid.ActorRef
			select {
			case ref = <-done:
			case <-time.After(10 * time.Second):
				problem.Store("ActorOf did not return within 10 s")
			}
			close(childGo)
			switch {
			case !fired.Load():
				r.skipped = "no state read on the spawner's goroutine"
			case problem.Load() != nil:
				r.skipped = problem.Load().(string)
			case ref == nil:
				r.skipped = "ActorOf returned no reference"
			default:
				waitUntil(3*time.Second, func() bool { return a.killed.Load() && !actor.XVRaceRegisteredIs(sys, ref) })
				waitUntil(2*time.Second, func() bool { return rootQuiet(sys) })
				time.Sleep(5 * time.Millisecond)
				waitUntil(2*time.Second, func() bool { return rootQuiet(sys) })
				// machine: the whole spawn, then the death and the notice (the state read found the entry's owner not yet killed /
				// or killed with the notice still waiting for the lock: either way the entry is gone at quiescence)
				r.sched = append(append(spawnSteps(ext, 0, 1), dieSteps(1)...), st(thOwn(0), lHandle(1)))
				r.obs = []twObs{twObserve(sys, a, ref)}
				r.quiet = rootQuiet(sys)
			}
			actor.XVRaceHook.Store(nil)
			r.name += fmt.Sprintf(" [System.Stop afterwards: %v]", sys.Stop())
			out = append(out, r)
		}()
	}

	// --- R3: the new actor FAILS and is being RESTARTED by the root while the spawner is parked in front of the insertion:
	// during a restart the state word passes through killed (checkAndMarkKilled) before handleRestart stores running again,
	// and no notice is ever sent. The actor is held inside its OnRestarted hook (state killed) while the spawner inserts.
	func() {
		r := twResult{name: "window-registered-not-inserted:restart-in-progress", queries: [][2]int{{0, 1}}}
		lg := log.NewSilentLogger()
		restart := vivid.OneForOneStrategy(vivid.SupervisionStrategyDecisionMakerFN(func(ctx vivid.SupervisionContext) (vivid.SupervisionDecision, string) {
			return vivid.SupervisionDecisionRestart, "tree scenario"
		}))
		sys := actor.NewSystem(vivid.WithActorSystemLogger(lg), vivid.WithActorSystemStopTimeout(400*time.Millisecond), vivid.WithActorSystemSupervisionStrategy(restart))
		if err := sys.Start(); err != nil {
			r.skipped = "System.Start failed"
			out = append(out, r)
			return
		}
		a := &twActor{}
		inRestarted, releaseRestarted := make(chan struct{}), make(chan struct{})
		var launches atomic.Int32
		var fn vivid.ActorFN = func(ctx vivid.ActorContext) {
			switch m := ctx.Message().(type) {
			case *vivid.OnLaunch:
				launches.Add(1)
				a.launched.Store(true)
			case *vivid.OnKilled:
				if m.Ref.Equals(ctx.Ref()) && launches.Load() == 0 && false {
					a.killed.Store(true)
				}
			case string:
				panic("tree scenario: " + m)
			}
		}
		var once atomic.Bool
		act := vivid.NewRestartedActor(func(ctx vivid.RestartContext) error {
			if once.CompareAndSwap(false, true) {
				close(inRestarted)
				<-releaseRestarted
			}
			return nil
		}, fn)
		var spawner atomic.Value
		var fired atomic.Bool
		var problem atomic.Value
		hook := func(_, lock string) {
			if !strings.HasSuffix(lock, "childrenLock") || fired.Load() {
				return
			}
			if sp, _ := spawner.Load().(string); sp != goid() {
				return
			}
			fired.Store(true)
			found, err := sys.FindActor(sys.Ref().GetAddress() + "/n1")
			if err != nil {
				problem.Store("the new actor is not registered at the insertion: " + err.Error())
				return
			}
			sys.Tell(found, "boom") // the handler panics -> the root decides Restart
			select {
			case <-inRestarted:
			case <-time.After(3 * time.Second):
				problem.Store("the restart of the failed actor did not reach OnRestarted within 3 s")
			}
		}
		actor.XVRaceHook.Store(&hook)
		done := make(chan vivid.ActorRef, 1)
		go func() {
			spawner.Store(goid())
			ref, err := sys.ActorOf(act, vivid.WithActorName("n1"))
			if err != nil {
				problem.Store("ActorOf failed: " + err.Error())
			}
			done <- ref
		}()
		var ref vivid.ActorRef
		select {
		case ref = <-done:
		case <-time.After(10 * time.Second):
			problem.Store("ActorOf did not return within 10 s")
		}
		actor.XVRaceHook.Store(nil)
		close(releaseRestarted)
		switch {
		case !fired.Load():
			r.skipped = "no childrenLock acquisition on the spawner's goroutine"
		case problem.Load() != nil:
			r.skipped = problem.Load().(string)
		case ref == nil:
			r.skipped = "ActorOf returned no reference"
		default:
			waitUntil(3*time.Second, func() bool { return actor.XVRaceState(sys, ref.GetPath()) == 0 && rootQuiet(sys) })
			time.Sleep(5 * time.Millisecond)
			waitUntil(2*time.Second, func() bool { return rootQuiet(sys) })
			o := thOwn(1)
			r.sched = []lib.T{st(ext, lAcq), st(ext, lSpCheck(0, 1)), st(ext, lSpRegister), st(o, lKill), st(o, lCount), st(o, lMark),
				st(ext, lSpInsert), st(ext, lRel), st(o, lb(8))}
			r.obs = []twObs{twObserve(sys, a, ref)}
			r.quiet = rootQuiet(sys)
		}
		stopErr := sys.Stop()
		alive := ref != nil && actor.XVRaceRegisteredIs(sys, ref)
		r.name += fmt.Sprintf(" [System.Stop afterwards: %v; the actor is still registered after Stop: %v]", stopErr, alive)
		out = append(out, r)
	}()

	// --- W2: the root dies while System.ActorOf is between its state check and the registration (inside OnPrelaunch).
	// Since /repo 6438ab6 Context.ActorOf re-reads the parent's state after the insertion and kills the new actor when the
	// parent is no longer running: the actor is launched, killed, releases its path; its notice is dropped by the dead root.
	// (Before that fix the actor lived on under the dead root: monitor tree-orphan-under-dead-root.)
	for _, how := range []string{"System.Stop", "Kill(root)"} {
		func() {
			r := twResult{name: "window-checked-not-registered:" + how, queries: [][2]int{{0, 1}}}
			sys := twSystem()
			if sys == nil {
				r.skipped = "System.Start failed"
				out = append(out, r)
				return
			}
			a := &twActor{entered: make(chan struct{}), release: make(chan struct{})}
			type res struct {
				ref vivid.ActorRef
				err error
			}
			done := make(chan res, 1)
			go func() { ref, err := sys.ActorOf(a, vivid.WithActorName("n1")); done <- res{ref, err} }()
			select {
			case <-a.entered:
			case <-time.After(5 * time.Second):
				r.skipped = "OnPrelaunch was not entered within 5 s"
			}
			if r.skipped == "" {
				if how == "System.Stop" {
					if err := sys.Stop(); err != nil {
						r.skipped = "System.Stop of a system without actors failed: " + err.Error()
					}
				} else {
					sys.Kill(sys.Ref(), false, "tree scenario: kill the root")
				}
				if r.skipped == "" && !waitUntil(3*time.Second, func() bool { return actor.XVRaceRootState(sys) == 2 }) {
					r.skipped = "the root did not terminate within 3 s although it had no child"
				}
			}
			close(a.release)
			var rr res
			select {
			case rr = <-done:
			case <-time.After(10 * time.Second):
				r.skipped = "ActorOf did not return within 10 s"
			}
			if r.skipped == "" {
				if rr.err != nil {
					// the spawn was refused: nothing was registered (the machine's run in which the spawner gives up)
					r.name += " [ActorOf refused: " + rr.err.Error() + "]"
					r.skipped = "ActorOf returned an error after the root died (no actor was created): " + rr.err.Error()
				} else {
					// quiescence: the actor has been killed by the spawner's re-read of the parent state and its notice dropped by the
					// dead root - or (orphan) it is still registered after a generous wait
					waitUntil(time.Second, func() bool { return a.killed.Load() && !actor.XVRaceRegisteredIs(sys, rr.ref) })
					waitUntil(time.Second, func() bool { return rootQuiet(sys) })
					time.Sleep(2 * time.Millisecond)
					waitUntil(time.Second, func() bool { return rootQuiet(sys) })
					o := thOwn(0)
					r.sched = append(append([]lib.T{st(ext, lAcq), st(ext, lSpCheck(0, 1)), st(o, lKill), st(o, lCount), st(o, lMark), st(o, lDereg), st(o, lNotify),
						st(ext, lSpRegister), st(ext, lSpInsert), st(ext, lRel)}, dieSteps(1)...), st(o, lb(14, 1)))
					r.obs = []twObs{twObserve(sys, a, rr.ref)}
					r.quiet = rootQuiet(sys)
					if r.obs[0].reg == 1 {
						r.name += fmt.Sprintf(" [launched under the dead root: %v]", a.launched.Load())
						sys.Kill(rr.ref, false, "tree scenario cleanup")
						waitUntil(time.Second, func() bool { return a.killed.Load() })
					}
				}
			}
			_ = sys.Stop()
			out = append(out, r)
		}()
	}
	return out
}

// runTreeScenarios: child side. One CASE per forced schedule, monitors on the observed tables.
func runTreeScenarios() {
	t0 := time.Now()
	info := map[string]string{}
	for _, r := range twScenarios() {
		if r.skipped != "" {
			info[r.name] = "not run: " + r.skipped
			continue
		}
		var qs, obs []lib.T
		for i, q := range r.queries {
			qs = append(qs, lib.L(lib.NI(q[0]), lib.NI(q[1])))
			obs = append(obs, r.obs[i].term())
		}
		emitCase("tree-schedule:"+strings.SplitN(r.name, " [", 2)[0], true, lib.L(lib.N(2), lib.LS(r.sched), lib.LS(qs)), lib.L(lib.N(1), lib.LS(obs), lib.Bool(r.quiet)))
		var lines []string
		for i, o := range r.obs {
			lines = append(lines, fmt.Sprintf("context %d (child of %d): registered=%d in-parent's-child-table=%d state=%d parent-state=%d", r.queries[i][1], r.queries[i][0], o.reg, o.child, o.stC, o.stP))
		}
		info[r.name] = strings.Join(lines, "; ")
		// the property on the observed tables (quiescent): registry <-> child table agree, nobody lives under a dead parent
		for i, o := range r.obs {
			name, what := "", ""
			switch {
			case o.child == 1 && o.reg == 0 && o.stP != 2: // (the table of a DEAD parent is garbage: nobody reads it any more)
				name, what = "tree-stale-root-child", "the root's child table holds a context that is not registered any more (it is dead): the root can never see an empty child table again"
			case o.reg == 1 && o.stP == 2:
				name, what = "tree-orphan-under-dead-root", "a registered context (state running) has a dead parent: it was launched after the root terminated and nothing will ever stop it"
			case o.reg == 1 && o.child == 0:
				name, what = "tree", "a registered context is missing from its parent's child table at quiescence"
			}
			if name == "" {
				continue
			}
			prefix := "scenario " + r.name
			if r.witness == "stale" && name == "tree-stale-root-child" {
				prefix = "REGRESSION of /repo b0e210b, W1 window schedule (C10_tree_former_stale_child_schedule_repaired) " + r.name
			} else if name == "tree-stale-root-child" {
				name = "tree" // a stale entry, but NOT produced by the listed schedule: not the recorded finding
			}
			mon(name, fmt.Sprintf("%s: %s; observed for context %d: registered=%d in-root's-child-table=%d state=%d root-state=%d; schedule (machine labels): %s",
				prefix, what, r.queries[i][1], o.reg, o.child, o.stC, o.stP, lib.Show(lib.LS(r.sched))))
		}
	}
	var keys []string
	for k := range info {
		keys = append(keys, k)
	}
	sort.Strings(keys)
	var parts []string
	for _, k := range keys {
		parts = append(parts, k+" => "+info[k])
	}
	js := fmt.Sprintf("{%q: %q, %q: %.3f}", "tree_window_scenarios", strings.Join(parts, " | "), "tree_window_scenarios_wall_s", time.Since(t0).Seconds())
	fmt.Printf("XVINFO\t%s\n", js)
}

// ---------------------------------------------------------------- snapshot cases (model: Race/Tree.v snap_violations)

// snapCase numbers the paths (root = 0, the others in sorted order, unknown paths after them), evaluates the consistency
// clauses exactly as snap_violations does, and emits (snapshot, violations) as a case for the model.
func snapCase(kind string, root actor.XVRaceNode, nodes []actor.XVRaceNode) {
	if len(nodes) > 1200 {
		return // the model's check is quadratic; large snapshots are checked by the Go-side monitor only
	}
	idx := map[string]int{root.Path: 0}
	num := func(p string) int {
		if i, ok := idx[p]; ok {
			return i
		}
		idx[p] = len(idx)
		return idx[p]
	}
	for _, n := range nodes {
		num(n.Path)
	}
	type sn struct {
		path, parent, state int
		ch                  [][2]int
	}
	conv := func(n actor.XVRaceNode, isRoot bool) sn {
		s := sn{path: num(n.Path), state: int(n.State)}
		if isRoot || !n.HasParent {
			s.parent = 1 << 30 // no such node
			if isRoot {
				s.parent = 1<<30 + 1
			}
		} else {
			s.parent = num(n.ParentPath)
		}
		for i, c := range n.Children {
			s.ch = append(s.ch, [2]int{num(c), num(n.ChildRefs[i])})
		}
		return s
	}
	r := conv(root, true)
	var ns []sn
	for _, n := range nodes {
		ns = append(ns, conv(n, false))
	}
	find := func(q int, l []sn) *sn {
		for i := range l {
			if l[i].path == q {
				return &l[i]
			}
		}
		return nil
	}
	all := append([]sn{r}, ns...)
	var viol [][2]int
	for _, n := range all {
		for _, e := range n.ch {
			if e[0] != e[1] {
				viol = append(viol, [2]int{1, e[0]})
			}
			if ch := find(e[0], ns); ch == nil {
				viol = append(viol, [2]int{2, e[0]})
			} else if ch.parent != n.path {
				viol = append(viol, [2]int{3, e[0]})
			}
		}
	}
	for _, n := range ns {
		p := find(n.parent, all)
		if p == nil {
			viol = append(viol, [2]int{4, n.path})
			continue
		}
		in := false
		for _, e := range p.ch {
			if e[0] == n.path {
				in = true
			}
		}
		if !in {
			viol = append(viol, [2]int{5, n.path})
		}
		if p.state == 2 {
			viol = append(viol, [2]int{6, n.path})
		}
	}
	for _, n := range ns {
		cnt := 0
		for _, m := range ns {
			if m.path == n.path {
				cnt++
			}
		}
		if n.path == r.path || cnt > 1 {
			viol = append(viol, [2]int{7, n.path})
		}
	}
	tn := func(s sn) lib.T {
		var ch []lib.T
		for _, e := range s.ch {
			ch = append(ch, lib.L(lib.NI(e[0]), lib.NI(e[1])))
		}
		return lib.L(lib.NI(s.path), lib.NI(s.parent), lib.NI(s.state), lib.LS(ch))
	}
	var nts, vts []lib.T
	for _, n := range ns {
		nts = append(nts, tn(n))
	}
	for _, v := range viol {
		vts = append(vts, lib.L(lib.NI(v[0]), lib.NI(v[1])))
	}
	emitCase(kind, len(ns) > 0, lib.L(lib.N(3), tn(r), lib.LS(nts)), lib.LS(vts))
}
