// dupname.go: "uniqueness of registration" on the real code (C10, theorem C10_tree_registration_unique).
//
// Rounds on one real system of its own: K goroutines (2-4), released from a barrier, call System.ActorOf with the SAME
// explicit name and an actor whose OnPrelaunch takes 1-3 ms (user code runs between the moment the name is looked at and the
// moment it is reserved); every round uses a fresh name; nobody is killed before the end. The registration step of the code is
// an atomic LoadOrStore taken under actorOfLock: exactly one call may succeed per name while its holder is alive, and the
// actor of the successful call is the one that is registered under the path and sits in the root's child table.
//
// Monitors: tree-duplicate-name (more than one call succeeded for one path while the first holder was alive / the successful
// call's actor is not the registered one / not the one in the root's child table / no call succeeded for a free name), then at
// quiescence the tree monitor (registry <-> children <-> parent) and, after System.Stop, "every actor whose spawn succeeded saw
// its own OnKilled" (monitor tree). One snapshot case for the model's consistency check.
package main

import (
	"fmt"
	"runtime"
	"strings"
	"sync"
	"sync/atomic"
	"time"

	"github.com/kercylan98/vivid"
	"github.com/kercylan98/vivid/internal/actor"
	"github.com/kercylan98/vivid/pkg/log"
	"github.com/kercylan98/vivid/xverif/lib"
)

type dnActor struct {
	delay    time.Duration
	launched atomic.Bool
	killed   atomic.Bool
}

func (a *dnActor) OnPrelaunch(ctx vivid.PrelaunchContext) error {
	time.Sleep(a.delay)
	return nil
}

func (a *dnActor) OnReceive(ctx vivid.ActorContext) {
	switch m := ctx.Message().(type) {
	case *vivid.OnLaunch:
		a.launched.Store(true)
	case *vivid.OnKilled:
		if m.Ref.Equals(ctx.Ref()) {
			a.killed.Store(true)
		}
	}
}

type dnWin struct {
	a    *dnActor
	ref  vivid.ActorRef
	name string
}

func duplicateNameRounds(seed uint64, rounds int) {
	t0 := time.Now()
	r := lib.NewRand(seed*0x2545f491 + 11)
	sys := actor.NewSystem(vivid.WithActorSystemLogger(log.NewSilentLogger()), vivid.WithActorSystemStopTimeout(20*time.Second))
	if err := sys.Start(); err != nil {
		mon("child-died", "duplicate-name rounds: System.Start failed: "+err.Error())
		return
	}
	var winners []dnWin
	violations, histK := 0, map[int]int{}
	for round := 1; round <= rounds && violations == 0; round++ {
		k := 2 + r.Intn(3)
		histK[k]++
		name := fmt.Sprintf("dup-%d", round)
		type res struct {
			a   *dnActor
			ref vivid.ActorRef
			err error
		}
		results := make([]res, k)
		var gate atomic.Bool
		var wg sync.WaitGroup
		for i := 0; i < k; i++ {
			a := &dnActor{delay: time.Duration(1000+r.Intn(2000)) * time.Microsecond}
			results[i].a = a
			wg.Add(1)
			go func(i int) {
				defer wg.Done()
				for !gate.Load() {
					runtime.Gosched()
				}
				results[i].ref, results[i].err = sys.ActorOf(a, vivid.WithActorName(name))
			}(i)
		}
		gate.Store(true)
		wg.Wait()
		var ok []res
		var errs []string
		for _, x := range results {
			if x.err == nil {
				ok = append(ok, x)
			} else {
				errs = append(errs, x.err.Error())
			}
		}
		what := fmt.Sprintf("duplicate-name round %d: %d goroutines called System.ActorOf(name=%q) at once (OnPrelaunch 1-3 ms each)", round, k, name)
		switch {
		case len(ok) == 0:
			violations++
			mon("tree-duplicate-name", fmt.Sprintf("%s: NO call succeeded although the name was free: %s", what, strings.Join(errs, "; ")))
		case len(ok) > 1:
			violations++
			var who []string
			for _, x := range ok {
				who = append(who, fmt.Sprintf("%s(registered=%v, in the root's child table=%v)", x.ref.GetPath(), actor.XVRaceRegisteredIs(sys, x.ref), actor.XVRaceRootChildIs(sys, x.ref)))
			}
			mon("tree-duplicate-name", fmt.Sprintf("%s: %d calls returned success for the same path while the first holder was alive (a path names at most one live actor): %s",
				what, len(ok), strings.Join(who, " ")))
		default:
			w := ok[0]
			if !actor.XVRaceRegisteredIs(sys, w.ref) || !actor.XVRaceRootChildIs(sys, w.ref) {
				violations++
				mon("tree-duplicate-name", fmt.Sprintf("%s: the one successful call's actor %s is not the one registered under its path (registered=%v) / in the root's child table (%v)",
					what, w.ref.GetPath(), actor.XVRaceRegisteredIs(sys, w.ref), actor.XVRaceRootChildIs(sys, w.ref)))
			}
		}
		for _, x := range ok {
			winners = append(winners, dnWin{x.a, x.ref, name})
		}
	}
	// quiescence: every successful spawn launched, root idle; then the tree monitor
	waitUntil(5*time.Second, func() bool {
		for _, w := range winners {
			if !w.a.launched.Load() {
				return false
			}
		}
		return rootQuiet(sys)
	})
	root, nodes, _, _ := actor.XVRaceSnapshot(sys)
	if problems := checkTree(root, nodes); len(problems) > 0 {
		mon("tree", "duplicate-name rounds: at quiescence registry / children / parent disagree:\n"+strings.Join(problems, "\n"))
	}
	snapCase("tree-snapshot:duplicate-name", root, nodes)
	stopErr := make(chan error, 1)
	go func() { stopErr <- sys.Stop() }()
	select {
	case err := <-stopErr:
		if err != nil {
			mon("stop-failed", "duplicate-name rounds: System.Stop failed: "+err.Error())
		} else {
			waitUntil(2*time.Second, func() bool {
				for _, w := range winners {
					if !w.a.killed.Load() {
						return false
					}
				}
				return true
			})
			var alive []string
			for _, w := range winners {
				if !w.a.killed.Load() {
					alive = append(alive, w.ref.GetPath())
				}
			}
			if len(alive) > 0 {
				mon("tree", fmt.Sprintf("duplicate-name rounds: System.Stop returned nil but %d actor(s) whose System.ActorOf succeeded never received their own OnKilled (still running): %s",
					len(alive), clip(strings.Join(alive, " "), 1500)))
			}
		}
	case <-time.After(40 * time.Second):
		mon("hang", "duplicate-name rounds: System.Stop did not return within 40 s\n"+stacks())
	}
	fmt.Printf("XVINFO\t{%q: %d, %q: %q, %q: %d, %q: %.3f}\n", "duplicate_name_rounds", rounds, "duplicate_name_goroutines_histogram", fmt.Sprint(histK),
		"duplicate_name_successful_spawns", len(winners), "duplicate_name_wall_s", time.Since(t0).Seconds())
}
