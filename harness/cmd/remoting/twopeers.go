// twopeers.go: C14 — one sending system, two peers.  Peer R refuses connections (nothing listens at its address) and
// the sender has a finite ReconnectLimit >= 1; peer H is healthy and receives a steady stream of Tells (one every
// ~12 ms from its own goroutine, so that an Enqueue to H completes inside every back-off sleep of the Tell to R).
// The sender machine of the model (Remoting/Link.v) is per remote mailbox, with its own attempt counter: the two
// peers are judged independently.
//   R: limit+1 refused dials with RetryCount 0..limit, then exactly one dead letter, whatever happens at H;
//   H: every message written once on the cached connection, delivered exactly once, in order.
package main

import (
	"fmt"
	"strings"
	"sync"
	"time"

	"github.com/kercylan98/vivid/internal/actor"
	"github.com/kercylan98/vivid/xverif/lib"
)

func (h *H) twoPeers() {
	limits, rounds := []int{1, 2}, 2
	if h.tier == "thorough" {
		limits, rounds = []int{1, 2, 3, 4}, 4
	}
	for _, lim := range limits {
		if h.abort {
			return
		}
		func() {
			S, err := StartNode(fmt.Sprintf("S%d", lim), lim, nil)
			if err != nil {
				panic(err)
			}
			defer func() { S.Stop(); S.Proxy.Close() }()
			Hn, err := StartNode(fmt.Sprintf("H%d", lim), lim, nil)
			if err != nil {
				panic(err)
			}
			defer func() { Hn.Stop(); Hn.Proxy.Close() }()
			if h.healthy(S, Hn) == nil {
				return
			}
			// frame length of a Tell to H's /recv with n data bytes: learnt from a Sent event
			co := h.call(S, Hn, &XMsg{Kind: KSync, Seq: 1<<51 + uint64(lim)})
			ovh := co.size
			if ovh == 0 {
				h.o.Stats["two-peers-skipped"]++
				return
			}
			for r := 0; r < rounds && !h.abort; r++ {
				t := time.Now()
				if !h.twoPeersRound(S, Hn, ovh, r) {
					return
				}
				h.logf("two peers limit %d round %d: %.2fs (monitors so far %d)", lim, r, time.Since(t).Seconds(), len(h.o.Monitors))
			}
		}()
	}
}

// twoPeersRound returns false when later rounds on these systems make no sense (a Tell is stuck for ever)
func (h *H) twoPeersRound(S, Hn *Node, ovh, round int) bool {
	lim := S.Limit
	conn := h.healthy(S, Hn)
	if conn == nil {
		return false
	}
	name := fmt.Sprintf("two-peers-healthy/limit%d", lim)
	sc := h.begin(name, S, Hn, conn, -1)
	sc.frameLen = func(m *XMsg) int { return ovh + len(m.Data) }
	deadAddr, err := freePort() // nothing listens there: dials are refused at once
	if err != nil {
		panic(err)
	}
	refR, err := actor.NewRef(deadAddr, "/recv")
	if err != nil {
		panic(err)
	}
	refH := RemoteRecv(Hn)
	mR := h.msg(22, 3+round)
	desc := lib.L(lib.S("two-peers"), lib.NI(lim), lib.NI(round))
	S.Ev.mu.Lock()
	cf0, tr0, sf0 := len(S.Ev.ConnFailed), len(S.Ev.Trace), len(S.Ev.SendFailed)
	S.Ev.mu.Unlock()
	// steady traffic to the healthy peer
	stop := make(chan struct{})
	doneH := make(chan struct{})
	var mu sync.Mutex
	var sentH []*XMsg
	go func() {
		defer close(doneH)
		for i := 0; ; i++ {
			select {
			case <-stop:
				return
			default:
			}
			mu.Lock()
			m := h.msg(21, i%9)
			sentH = append(sentH, m)
			mu.Unlock()
			S.Sys.Tell(refH, m)
			time.Sleep(12 * time.Millisecond)
		}
	}()
	time.Sleep(40 * time.Millisecond)
	// the Tell to the refusing peer
	retDone := make(chan time.Duration, 1)
	t0 := time.Now()
	go func() { S.Sys.Tell(refR, mR); retDone <- time.Since(t0) }()
	sumMs := 100 * ((1 << lim) - 1) // nominal sum of the back-off sleeps
	bound := time.Duration(10*sumMs) * time.Millisecond
	if bound < 15*time.Second {
		bound = 15 * time.Second
	}
	dlTag := fmt.Sprintf("dl%d:%d", mR.Sender, mR.Seq)
	countDL := func() int {
		S.Ev.mu.Lock()
		defer S.Ev.mu.Unlock()
		n := 0
		for _, e := range S.Ev.Trace[tr0:] {
			if e == dlTag {
				n++
			}
		}
		return n
	}
	gotDL := waitUntil(bound, func() bool { return countDL() > 0 })
	dlAfter := time.Since(t0)
	returned := false
	var tellDur time.Duration
	if gotDL {
		select {
		case tellDur = <-retDone:
			returned = true
		case <-time.After(10 * time.Second):
		}
		// anything that still comes for this message (a further dial, a second dead letter) shows up now
		time.Sleep(150 * time.Millisecond)
	}
	close(stop)
	<-doneH
	mu.Lock()
	nH := len(sentH)
	mu.Unlock()
	// R's observations
	S.Ev.mu.Lock()
	var retry []int
	for _, e := range S.Ev.ConnFailed[cf0:] {
		if e.AdvertiseAddr == deadAddr || e.RemoteAddr == deadAddr {
			retry = append(retry, e.RetryCount)
		}
	}
	nsf := len(S.Ev.SendFailed) - sf0
	S.Ev.mu.Unlock()
	ndl := countDL()
	h.o.Stats["two-peers-rounds"]++
	stuck := false
	if !gotDL {
		stuck = true
		h.o.Monitor("c14-no-dead-letter-after-limit", desc,
			fmt.Sprintf("ReconnectLimit=%d, peer %s refuses connections, a second peer receives a Tell every 12 ms (%d so far): the Tell to the refusing peer was not dead-lettered within %v (nominal back-off sum %d ms) and has not returned; its dials so far carried RetryCounts %s — the attempt counter never reaches the limit",
				lim, deadAddr, nH, bound, sumMs, truncInts(retry)))
	} else {
		okc := len(retry) == lim+1
		for i, r := range retry {
			if r != i {
				okc = false
			}
		}
		if !okc {
			h.o.Monitor("c14-retry-count", desc, fmt.Sprintf("two peers: ReconnectLimit=%d but the message to the refusing peer was dialled with RetryCounts %s (want 0..%d) before its dead letter (%.0f ms after the Tell)", lim, truncInts(retry), lim, dlAfter.Seconds()*1000))
		}
		if ndl != 1 {
			h.o.Monitor("c14-dead-letter-twice", desc, fmt.Sprintf("two peers: %d dead letters for the one message to the refusing peer", ndl))
		}
		if !returned {
			stuck = true
			h.o.Monitor("c14-tell-never-returns", desc, fmt.Sprintf("two peers: the message to the refusing peer was dead-lettered after %.0f ms but the Tell had not returned 10 s later", dlAfter.Seconds()*1000))
		}
		h.o.Stats["two-peers-dead-letter-ms"] += int(dlAfter.Milliseconds())
		if returned {
			// the Tell has returned: its mailbox is idle, the back-off counter must be back at 0 ...
			h.mailboxAtRest(S, deadAddr, fmt.Sprintf("two-peers/limit%d/round%d", lim, round))
			if okc {
				// ... and it slept `lim` times on the way: not less than the lower ends of the jitter intervals (Backoff.v)
				h.o.Case("backoff-enqueue-time", lim > 0, lib.L(lib.N(9), mailboxCfg.term(), lib.NI(lim), lib.N(uint64(tellDur))), lib.Bool(true))
			}
		}
	}
	// R's model case: one call, one refused dial per connection-failed event, no connection ever made
	{
		var ans, rc []lib.T
		for _, r := range retry {
			ans = append(ans, tAnswer(answer{connect: 0}))
			rc = append(rc, lib.NI(r))
		}
		if len(ans) > 0 && len(ans) < 4000 {
			flR := ovh - len(Hn.Adv) + len(deadAddr) + len(mR.Data)
			in := lib.L(lib.N(1), lib.NI(lim), lib.Opt(false, nil), lib.LS([]lib.T{lib.L(lib.NI(flR), lib.LS(ans))}), lib.LS(nil))
			out := lib.L(lib.LS([]lib.T{lib.L(lib.LS(rc), lib.NI(0), lib.Bool(false), lib.Bool(ndl > 0), lib.NI(len(retry)))}), lib.LS(nil),
				lib.L(lib.LS(nil), lib.NI(0), lib.LS(nil), lib.LS(nil)))
			h.o.Case(fmt.Sprintf("two-peers-refusing/limit%d", lim), true, in, out)
		}
	}
	// H's observations: every steady Tell was written once (one Sent event each, no failure) ...
	okCount := func() int {
		S.Ev.mu.Lock()
		defer S.Ev.mu.Unlock()
		n := 0
		for _, e := range S.Ev.Trace[tr0:] {
			if e == "ok" {
				n++
			}
		}
		return n
	}
	waitUntil(15*time.Second, func() bool { return okCount() >= nH })
	// ... and delivered exactly once, in order
	waitUntil(15*time.Second, func() bool { return Hn.Rec.Len()-sc.m.rec >= nH })
	time.Sleep(20 * time.Millisecond)
	var have []uint64
	for _, g := range Hn.Rec.Snapshot(sc.m.rec) {
		if g.Sender == 21 {
			have = append(have, g.Seq)
		}
	}
	var want []uint64
	for _, m := range sentH {
		want = append(want, m.Seq)
	}
	if fmt.Sprint(have) != fmt.Sprint(want) {
		h.o.Monitor("c14-healthy-peer-disturbed", desc, fmt.Sprintf("two peers: the healthy peer was sent seq %s and its actor received %s while another peer refused connections", trunc64(want), trunc64(have)))
	}
	if nok := okCount(); nok == nH && nsf == 0 {
		for _, m := range sentH {
			sc.calls = append(sc.calls, callObs{msg: m, events: []string{"ok"}, ok: true})
			sc.hsFail = append(sc.hsFail, 0)
		}
		sc.finish(h, true)
	} else {
		h.o.Stats["two-peers-healthy-case-skipped"]++
		h.o.Info[fmt.Sprintf("two_peers_limit%d_round%d", lim, round)] = fmt.Sprintf("%d Tells to the healthy peer, %d Sent events, %d send-failed events", nH, nok, nsf)
	}
	h.o.Stats["two-peers-healthy-messages"] += nH
	return !stuck
}

func truncInts(x []int) string {
	if len(x) > 16 {
		return strings.TrimSuffix(fmt.Sprint(x[:16]), "]") + fmt.Sprintf(" …] (%d dials)", len(x))
	}
	return fmt.Sprint(x)
}
