// acceptcollision.go: C14 - "once the peer is reachable again later messages are delivered", receiving side.
//
// The reader actor of an accepted connection is registered as /@remoting/accept-<peer ip:port>; a connection whose
// registration fails ("actor already exists") is never read although the dialling system completed its handshake and
// writes into it without any error. Since /repo c1a2e19 the reader terminates (and releases the name) on EVERY end of its
// stream, io.EOF included (before: a FIN-closed connection kept the name for ever: defect C14-accept-name-collision, fixed).
//
// Scenario: system A reaches system B through a forwarder that dials B FROM A FIXED LOCAL ADDRESS. Three messages, the
// path goes away, is re-established from the same address, five more messages. Variants:
//   fin      towards B with FIN, 300 ms, then RST           regression of the repaired defect
//   rst      RST at once (control)
//   backlog  connection 1 carries one more message whose payload takes the user codec 700 ms to decode (Decode runs inside
//            the reader actor); 60 ms into it the path is reset: B's kernel forgets the connection (a new one from the same
//            ip:port is accepted) while B's reader actor is still busy and has not seen the end of its stream yet
// Model case: Remoting/Accept.v through RemRun op 10 (accept / kernel connection gone / reader ended, in the order observed).
// Monitors: c14-accepted-connection-not-read (fin, rst: frames written into the re-established connection never reach the
// actor), c14-finding-accept-name-window (backlog: the same, and B logged the name collision: the residual window),
// c14-no-recovery (such a loss without a logged collision).
package main

import (
	"fmt"
	"io"
	"net"
	"strings"
	"sync"
	"syscall"
	"time"

	"github.com/kercylan98/vivid"
	"github.com/kercylan98/vivid/pkg/bootstrap"
	"github.com/kercylan98/vivid/xverif/lib"
)

type fixedFwd struct {
	ln            net.Listener
	target, local string
	mu            sync.Mutex
	hold          bool   // keep the client's bytes of connection 0 back (pending) instead of passing them on
	pending       []byte
	cli, srv      []net.Conn
	toSrv         [][]byte // client -> server bytes per forwarded connection
	dialErr       []string
}

func (f *fixedFwd) loop() {
	for {
		c, err := f.ln.Accept()
		if err != nil {
			return
		}
		la, _ := net.ResolveTCPAddr("tcp", f.local)
		d := net.Dialer{LocalAddr: la, Timeout: 3 * time.Second, Control: func(network, address string, rc syscall.RawConn) error {
			var e error
			rc.Control(func(fd uintptr) { e = syscall.SetsockoptInt(int(fd), syscall.SOL_SOCKET, syscall.SO_REUSEADDR, 1) })
			return e
		}}
		var s net.Conn
		for try := 0; try < 20; try++ {
			s, err = d.Dial("tcp", f.target)
			if err == nil {
				break
			}
			time.Sleep(50 * time.Millisecond)
		}
		if err != nil {
			f.mu.Lock()
			f.dialErr = append(f.dialErr, err.Error())
			f.mu.Unlock()
			c.Close()
			continue
		}
		f.mu.Lock()
		idx := len(f.cli)
		f.cli, f.srv = append(f.cli, c), append(f.srv, s)
		f.toSrv = append(f.toSrv, nil)
		f.mu.Unlock()
		go func() {
			buf := make([]byte, 64<<10)
			for {
				n, err := c.Read(buf)
				if n > 0 {
					f.mu.Lock()
					if f.hold && idx == 0 {
						f.pending = append(f.pending, buf[:n]...)
						f.mu.Unlock()
						continue
					}
					f.toSrv[idx] = append(f.toSrv[idx], buf[:n]...)
					f.mu.Unlock()
					if _, werr := s.Write(buf[:n]); werr != nil {
						return
					}
				}
				if err != nil {
					return
				}
			}
		}()
		go func() { io.Copy(c, s) }()
	}
}

// frames (after the handshake) the forwarder passed on over connection i
func (f *fixedFwd) frames(i int) [][]byte {
	f.mu.Lock()
	defer f.mu.Unlock()
	if i >= len(f.toSrv) {
		return nil
	}
	b := f.toSrv[i]
	if len(b) < 4 {
		return nil
	}
	n := int(uint32(b[0])<<24 | uint32(b[1])<<16 | uint32(b[2])<<8 | uint32(b[3]))
	if len(b) < 4+n {
		return nil
	}
	return splitFrames(b[4+n:])
}

type collisionResult struct {
	skipped string
	variant string // fin | rst | backlog
	backlog int    // frames held back and handed over in one piece (backlog variant)
	backlogRead     int           // ... of which the actor received
	resetAt         time.Time     // when the forwarder reset connection 1
	drainAfterReset time.Duration // the last of them arrived this long after the reset
	withFIN bool
	local   string
	written [2]int // XMsg frames of this scenario passed on over connection 1 / 2
	read    [2]int // ... that reached B's actor
	collLog int    // "actor already exists: /@remoting/accept-" errors B logged
	events  []string
}

func (h *H) acceptCollisionRun(variant string) collisionResult {
	withFIN := variant == "fin"
	res := collisionResult{withFIN: withFIN, variant: variant}
	bind, err := freePort()
	if err != nil {
		res.skipped = err.Error()
		return res
	}
	local, err := freePort()
	if err != nil {
		res.skipped = err.Error()
		return res
	}
	res.local = local
	ln, err := net.Listen("tcp", "127.0.0.1:0")
	if err != nil {
		res.skipped = err.Error()
		return res
	}
	f := &fixedFwd{ln: ln, target: bind, local: local}
	go f.loop()
	defer ln.Close()
	B := &Node{Name: "XB", Bind: bind, Adv: ln.Addr().String(), Direct: true, Rec: &Recorder{}, Rec2: &Recorder{}, Replies: &Recorder{}, Ev: &SysEvents{}, senders: map[uint32]vivid.ActorRef{}}
	ro := vivid.NewActorSystemRemotingOptions(vivid.WithActorSystemRemotingReconnectLimit(0))
	B.Sys = bootstrap.NewActorSystem(
		vivid.WithActorSystemLogger(capLogger{B.Ev}),
		vivid.WithActorSystemRemoting(bind, B.Adv),
		vivid.WithActorSystemCodec(xcodec{}),
		vivid.WithActorSystemRemotingOptions(ro),
		vivid.WithActorSystemStopTimeout(10*time.Second),
	)
	if err := B.Sys.Start(); err != nil {
		res.skipped = "start: " + err.Error()
		return res
	}
	defer B.Stop()
	if !waitListening(bind, 5*time.Second) {
		res.skipped = "B does not listen"
		return res
	}
	if err := B.spawn(); err != nil {
		res.skipped = "spawn: " + err.Error()
		return res
	}
	A, err := StartDirectNode("XA", 2)
	if err != nil {
		res.skipped = "A: " + err.Error()
		return res
	}
	defer A.Stop()
	const snd = 88
	have := func(seq uint64) bool {
		for _, g := range B.Rec.Snapshot(0) {
			if g.Sender == snd && g.Seq == seq {
				return true
			}
		}
		return false
	}
	// connection 1: three messages
	for s := 0; s < 3; s++ {
		A.Sys.Tell(RemoteRecv(B), &XMsg{Kind: KTell, Sender: snd, Seq: uint64(s), Data: []byte{byte(s)}})
	}
	if !waitUntil(10*time.Second, func() bool { return have(0) && have(1) && have(2) }) {
		res.skipped = "the first three messages did not arrive (forwarder dial errors: " + strings.Join(f.dialErr, "; ") + ")"
		return res
	}
	f.mu.Lock()
	if len(f.srv) != 1 {
		f.mu.Unlock()
		res.skipped = fmt.Sprintf("%d forwarded connections instead of 1", len(f.srv))
		return res
	}
	srv, cli := f.srv[0], f.cli[0]
	f.mu.Unlock()
	if variant == "backlog" {
		// the reader actor of connection 1 is busy: one message whose payload takes the user codec 700 ms to decode
		// (Decode runs inside the reader actor), and the path goes away while it is at it
		slowDecode.Store(int64(700 * time.Millisecond))
		A.Sys.Tell(RemoteRecv(B), &XMsg{Kind: KSlow, Sender: snd, Seq: 100000, Data: []byte{1}})
		time.Sleep(60 * time.Millisecond)
		res.backlog = 1
	}
	// the path goes away
	if withFIN {
		srv.(*net.TCPConn).CloseWrite() // FIN: B's reader sees io.EOF at a frame boundary
		time.Sleep(300 * time.Millisecond)
	}
	srv.(*net.TCPConn).SetLinger(0) // then RST: frees the 4-tuple at once
	srv.Close()
	res.resetAt = time.Now()
	cli.(*net.TCPConn).SetLinger(0)
	cli.Close()
	if variant != "backlog" {
		time.Sleep(300 * time.Millisecond)
	}
	// re-established from the same peer address: five messages (A reconnects by itself: ReconnectLimit 2)
	A.Barrier()
	_, _, _, _, _, _, _, tr0 := A.Ev.snapshotCounts()
	for s := 10; s < 15; s++ {
		A.Sys.Tell(RemoteRecv(B), &XMsg{Kind: KTell, Sender: snd, Seq: uint64(s), Data: []byte{byte(s)}})
		time.Sleep(2 * time.Millisecond)
	}
	// everything the forwarder passed on over the second connection gets a generous time to reach the actor
	onConn := func(i int) (seqs []uint64) {
		for _, fr := range f.frames(i) {
			if x := decodeXMsgFrame(fr); x != nil && x.Sender == snd && x.Seq < 100000 {
				seqs = append(seqs, x.Seq)
			}
		}
		return
	}
	allThere := func() bool {
		for i := 0; i < 2; i++ {
			for _, q := range onConn(i) {
				if !have(q) {
					return false
				}
			}
		}
		return true
	}
	waitUntil(400*time.Millisecond, func() bool { return len(onConn(1)) > 0 })
	waitUntil(8*time.Second, allThere)
	for i := 0; i < 2; i++ {
		for _, q := range onConn(i) {
			res.written[i]++
			if have(q) {
				res.read[i]++
			}
		}
	}
	if variant == "backlog" {
		nb := 0
		var last time.Time
		for _, g := range B.Rec.Snapshot(0) {
			if g.Sender == snd && g.Seq >= 100000 {
				nb++
				if g.At.After(last) {
					last = g.At
				}
			}
		}
		res.backlogRead, res.drainAfterReset = nb, last.Sub(res.resetAt)
	}
	A.Barrier()
	A.Ev.mu.Lock()
	res.events = append([]string(nil), A.Ev.Trace[tr0:]...)
	A.Ev.mu.Unlock()
	B.Ev.mu.Lock()
	for _, l := range B.Ev.Logged {
		if strings.Contains(l, "actor already exists: /@remoting/accept-") {
			res.collLog++
		}
	}
	B.Ev.mu.Unlock()
	return res
}

func (h *H) acceptCollisionReport(res collisionResult) {
	kind := res.variant
	if res.skipped != "" {
		h.o.Stats["accept-collision-skipped"]++
		h.o.Info["accept_collision_skipped_"+kind] = res.skipped
		return
	}
	h.o.Stats["accept-collision-runs"]++
	desc := lib.L(lib.S("same-peer-port"), lib.S(kind))
	lost := res.written[1] - res.read[1]
	how := map[string]string{"fin": "FIN (no close frame), then RST 300 ms later", "rst": "RST",
		"backlog": "RST while its reader actor was still decoding a message (user codec, 700 ms)"}[kind]
	what := fmt.Sprintf("path between two systems re-established from the same peer address %s after the first connection ended with %s: %d frames were written into the new connection without any error (sender-side events %v), %d of them reached the actor", res.local, how, res.written[1], res.events, res.read[1])
	coll := fmt.Sprintf("; the receiving system logged %d x \"actor already exists: /@remoting/accept-%s\"", res.collLog, res.local)
	switch {
	case lost > 0 && kind == "backlog" && res.collLog > 0:
		h.o.Monitor("c14-finding-accept-name-window", desc, what+coll+": the new connection was registered before the reader actor of the old one had reached the end of its stream and released the name; the new connection is never read")
	case lost > 0 && kind != "backlog":
		h.o.Monitor("c14-accepted-connection-not-read", desc, what+coll)
	case lost > 0:
		h.o.Monitor("c14-no-recovery", desc, what+coll)
	case res.written[1] == 0:
		h.o.Stats["accept-collision-nothing-written"]++
	}
	if kind == "backlog" {
		h.o.Info["accept_collision_backlog"] = fmt.Sprintf("backlog %d frames (%d reached the actor, the last %v after the reset), collisions logged %d, second connection: written %d read %d", res.backlog, res.backlogRead, res.drainAfterReset, res.collLog, res.written[1], res.read[1])
		if res.collLog == 0 {
			h.o.Stats["accept-collision-backlog-window-not-hit"]++
		}
	}
	// model case: B's history. The reader of connection 1 ended before connection 2 was registered unless B logged the
	// name collision (then connection 2's registration came first).
	acc := func(n int) lib.T { return lib.L(lib.N(0), lib.S(res.local), lib.NI(n)) }
	gone := lib.L(lib.N(1), lib.S(res.local))
	ended := lib.L(lib.N(2), lib.S(res.local))
	evs := lib.L(acc(res.written[0]), gone, ended, acc(res.written[1]))
	if res.collLog > 0 {
		evs = lib.L(acc(res.written[0]), gone, acc(res.written[1]), ended)
	}
	out := lib.L(lib.L(lib.NI(res.written[0]), lib.NI(res.read[0])), lib.L(lib.NI(res.written[1]), lib.NI(res.read[1])))
	h.o.Case("accept-collision/"+kind, true, lib.L(lib.N(10), evs), out)
}
