// alias.go: C15 — operations through a ref whose address string is an ALIAS of the target system.
//
// A system is reachable under more than one address string: the advertised one (here: its proxy), the
// address its listener is bound to, "localhost:PORT" for "127.0.0.1:PORT", a DNS name, a NAT address.  A ref
// built with any of them designates the same actor, so Tell / Ask / Ping / Watch / Kill through it must have the
// effect they have through the ref with the advertised address, and the target system must not send anything
// to itself (before the fix "resolve the receiver of an inbound remote envelope locally" HandleRemotingEnvelop
// handed the wire's address string to findMailbox, which took it for another system: the envelope was sent
// to the alias again, for ever, and never delivered).
//
// Monitors: c15-alias-not-delivered (an operation through the alias ref did not have its effect),
//           c15-alias-self-send (the target system's remoting mailbox sent frames to one of its own addresses).
package main

import (
	"fmt"
	"net"
	"time"

	"github.com/kercylan98/vivid/internal/actor"
	"github.com/kercylan98/vivid/xverif/lib"
)

// aliasesOf: address strings other than n.Adv under which n's listener is reachable
func aliasesOf(n *Node) []string {
	var out []string
	if n.Bind != "" && n.Bind != n.Adv {
		out = append(out, n.Bind) // the listener itself, bypassing the proxy
	}
	if _, port, err := net.SplitHostPort(n.Adv); err == nil {
		a := net.JoinHostPort("localhost", port)
		if a != n.Adv {
			if c, err := net.DialTimeout("tcp", a, 500*time.Millisecond); err == nil {
				c.Close()
				out = append(out, a) // through the proxy, under another host name
			}
		}
	}
	return out
}

// selfSends: frames n's remoting mailboxes sent to one of n's own addresses
func selfSends(n *Node, aliases []string) int {
	own := map[string]bool{n.Adv: true, n.Bind: true}
	for _, a := range aliases {
		own[a] = true
	}
	n.Ev.mu.Lock()
	defer n.Ev.mu.Unlock()
	k := 0
	for _, e := range n.Ev.Sent {
		if own[e.RemoteAddr] {
			k++
		}
	}
	return k
}

func (h *H) aliasRounds(A, B, C *Node) {
	aliases := aliasesOf(B)
	h.o.Info["alias-addresses"] = len(aliases)
	if len(aliases) == 0 {
		h.o.Monitor("c15-alias-unavailable", nil, "no alias address of the target system could be constructed (bind = advertised and localhost does not resolve)")
		return
	}
	rounds := 1
	if h.tier == "thorough" {
		rounds = 6
	}
	for i := 0; i < rounds && !h.abort; i++ {
		for k, alias := range aliases {
			if h.abort {
				return
			}
			h.aliasRound(A, B, C, i*len(aliases)+k, alias, aliases)
		}
	}
}

// aliasRound: T on B; from A, through the ref (alias, /T): Tell, Ask, Ping, Watch, then Kill (poison on odd rounds).
func (h *H) aliasRound(A, B, C *Node, i int, alias string, aliases []string) {
	tl := &tgtLog{}
	tref := spawnTarget(B, fmt.Sprintf("atgt%d", i), tl)
	aref, err := actor.NewRef(alias, tref.GetPath())
	if err != nil {
		h.o.Monitor("c15-alias-unavailable", nil, fmt.Sprintf("NewRef(%q, %q): %v", alias, tref.GetPath(), err))
		return
	}
	desc := lib.L(lib.S("alias"), lib.NI(i), lib.S(alias), lib.S(B.Adv))
	B.Barrier()
	self0 := selfSends(B, aliases)
	fail := func(what string) {
		// let the loop (if any) show itself, then report both facts and stop: every looping envelope keeps the target
		// system busy until it is stopped
		time.Sleep(300 * time.Millisecond)
		B.Barrier()
		n := selfSends(B, aliases) - self0
		h.o.Monitor("c15-alias-not-delivered", desc, fmt.Sprintf("%s through the ref %s%s (the system advertises %s; %s reaches the same listener) had no effect", what, alias, tref.GetPath(), B.Adv, alias))
		if n > 0 {
			h.o.Monitor("c15-alias-self-send", desc, fmt.Sprintf("the target system %s sent %d frames to its own addresses %v within about a second after %s through the alias ref", B.Adv, n, aliases, what))
		}
		h.abort = true
	}
	// Tell
	A.Sys.Tell(aref, &XMsg{Kind: KTell, Seq: uint64(7000 + i)})
	if !waitUntil(opWait, func() bool { tl.mu.Lock(); defer tl.mu.Unlock(); return tl.pings >= 1 }) {
		fail("Tell")
		return
	}
	// Ask / Reply
	rep, err := A.Sys.Ask(aref, &XMsg{Kind: KAsk, Seq: uint64(7100 + i), Data: []byte("alias")}, askWait).Result()
	if x, ok := rep.(*XMsg); err != nil || !ok || x.Kind != KReply || x.Seq != uint64(7100+i) || string(x.Data) != "alias" {
		fail(fmt.Sprintf("Ask (reply %T %+v, error %v)", rep, rep, err))
		return
	}
	// Ping
	wl := &agentLog{}
	ag := spawnAgent(A, fmt.Sprintf("alias-agent-%d", i), wl)
	out := make(chan string, 1)
	A.Sys.Tell(ag, &doPing{aref, out})
	select {
	case r := <-out:
		if r != "" {
			fail("Ping (" + r + ")")
			return
		}
	case <-time.After(callWait):
		fail(fmt.Sprintf("Ping (no return within %v)", callWait))
		return
	}
	// Watch from A (through the alias) and from C (through the advertised address), then Kill through the alias
	cl := &agentLog{}
	cw := spawnAgent(C, fmt.Sprintf("alias-agent-%d", i), cl)
	watchAck(A, ag, aref)
	watchAck(C, cw, remoteOf(B, tref))
	if err := settle(A, aref); err != nil {
		fail(fmt.Sprintf("Ask after Watch (%v)", err))
		return
	}
	if err := settle(C, remoteOf(B, tref)); err != nil {
		h.o.Monitor("c15-remote-ask", desc, fmt.Sprintf("Ask from C failed: %v", err))
		return
	}
	poison := i%2 == 1
	reason := fmt.Sprintf("alias-why-%d", i)
	A.Sys.Tell(ag, &doKill{aref, poison, reason})
	ok := waitUntil(opWait, func() bool { return wl.nKilled() >= 1 && cl.nKilled() >= 1 })
	time.Sleep(15 * time.Millisecond) // duplicates
	tl.mu.Lock()
	kills := append([]string(nil), tl.kills...)
	tl.mu.Unlock()
	wantKill := fmt.Sprintf("%s|%s|%v", A.Adv+ag.GetPath(), reason, poison)
	if len(kills) != 1 || kills[0] != wantKill {
		h.o.Monitor("c15-alias-not-delivered", desc, fmt.Sprintf("Kill(poison=%v, %q) through the ref %s%s: the target saw OnKill %v (want exactly [%s])", poison, reason, alias, tref.GetPath(), kills, wantKill))
	}
	// the terminated actor names itself by its own (advertised) address, whatever string the watcher used
	want := B.Adv + tref.GetPath()
	for _, x := range []struct {
		who string
		l   *agentLog
	}{{"the watcher on A that watched through the alias ref", wl}, {"the watcher on C that watched through the advertised address", cl}} {
		got := x.l.killedCopy()
		if len(got) != 1 || got[0] != want {
			h.o.Monitor("c15-alias-not-delivered", desc, fmt.Sprintf("%s received OnKilled for %v (want exactly one naming %s); all notified in time: %v", x.who, got, want, ok))
		}
	}
	// nothing may have been sent by B to itself
	B.Barrier()
	if n := selfSends(B, aliases) - self0; n > 0 {
		h.o.Monitor("c15-alias-self-send", desc, fmt.Sprintf("the target system %s sent %d frames to its own addresses %v while serving operations through the alias ref %s%s", B.Adv, n, aliases, alias, tref.GetPath()))
		h.abort = true
	}
	h.o.Stats["alias-rounds"]++
	h.o.Stats["alias-operations"] += 5
	if poison {
		h.o.Stats["alias-poison-kills"]++
	}
}
