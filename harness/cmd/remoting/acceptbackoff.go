// acceptbackoff.go: C14 - a peer whose listening port is still taken when it starts (the previous process has not let
// go of it yet): remoting.ServerActor.onStartAcceptor fails to listen, waits backoff.Next() (utils.NewExponentialBackoff
// (100 ms, 10 s, 2, true): Remoting/Backoff.v server_cfg) and tries again. The harness holds the port for the first
// attempts, lets go, and the system must come up by itself and receive ("once the peer is reachable again later
// messages are delivered"). The delays the server logs are compared with the intervals of the model (RemRun op 8).
// Runs beside the other link scenarios (its time is waiting); results are reported by the caller.
package main

import (
	"fmt"
	"net"
	"time"

	"github.com/kercylan98/vivid"
	"github.com/kercylan98/vivid/pkg/bootstrap"
	"github.com/kercylan98/vivid/xverif/lib"
)

type acceptResult struct {
	skipped   string
	delays    []time.Duration
	wantFails int
	listening bool
	upAfter   time.Duration // from letting go of the port to the first successful dial
	delivered bool
	bind      string
}

func (h *H) acceptBackoffRun(fails int) acceptResult {
	res := acceptResult{wantFails: fails}
	ln, err := net.Listen("tcp", "127.0.0.1:0")
	if err != nil {
		res.skipped = err.Error()
		return res
	}
	bind := ln.Addr().String()
	res.bind = bind
	n := &Node{Name: "L", Bind: bind, Adv: bind, Direct: true, Rec: &Recorder{}, Rec2: &Recorder{}, Replies: &Recorder{}, Ev: &SysEvents{}, senders: map[uint32]vivid.ActorRef{}}
	ro := vivid.NewActorSystemRemotingOptions(vivid.WithActorSystemRemotingReconnectLimit(0))
	n.Sys = bootstrap.NewActorSystem(
		vivid.WithActorSystemLogger(capLogger{n.Ev}),
		vivid.WithActorSystemRemoting(bind, bind),
		vivid.WithActorSystemCodec(xcodec{}),
		vivid.WithActorSystemRemotingOptions(ro),
		vivid.WithActorSystemStopTimeout(10*time.Second),
	)
	if err := n.Sys.Start(); err != nil {
		ln.Close()
		res.skipped = "start: " + err.Error()
		return res
	}
	defer n.Stop()
	nDelays := func() int { n.Ev.mu.Lock(); defer n.Ev.mu.Unlock(); return len(n.Ev.ListenDelays) }
	// the port is ours: every attempt of the system to listen fails
	if !waitUntil(30*time.Second, func() bool { return nDelays() >= fails }) {
		ln.Close()
		n.Ev.mu.Lock()
		res.delays = append([]time.Duration(nil), n.Ev.ListenDelays...)
		n.Ev.mu.Unlock()
		return res
	}
	ln.Close()
	t0 := time.Now()
	// the next attempt (at most 125 % of the capped delay away) must succeed; generous bound
	res.listening = waitListening(bind, 40*time.Second)
	res.upAfter = time.Since(t0)
	n.Ev.mu.Lock()
	res.delays = append([]time.Duration(nil), n.Ev.ListenDelays...)
	n.Ev.mu.Unlock()
	if !res.listening {
		return res
	}
	if err := n.spawn(); err != nil {
		res.skipped = "spawn: " + err.Error()
		return res
	}
	// another system reaches it
	S, err := StartDirectNode("LS", 0)
	if err != nil {
		res.skipped = "sender: " + err.Error()
		return res
	}
	defer S.Stop()
	for i := 0; i < 20 && !res.delivered; i++ {
		S.Sys.Tell(RemoteRecv(n), &XMsg{Kind: KTell, Sender: 77, Seq: uint64(i)})
		res.delivered = waitUntil(500*time.Millisecond, func() bool { return n.Rec.Len() > 0 })
	}
	return res
}

func (h *H) acceptBackoffReport(res acceptResult) {
	if res.skipped != "" {
		h.o.Stats["accept-backoff-skipped"]++
		h.o.Info["accept_backoff_skipped"] = res.skipped
		return
	}
	h.o.Stats["accept-backoff-runs"]++
	desc := lib.L(lib.S("listener-busy"), lib.NI(res.wantFails))
	var ks, ds []lib.T
	var txt []string
	for k, d := range res.delays {
		ks = append(ks, lib.NI(k))
		if d < 0 {
			d = 0
		}
		ds = append(ds, lib.N(uint64(d)))
		txt = append(txt, d.String())
	}
	h.o.Info["accept_backoff_delays"] = txt
	if len(res.delays) < res.wantFails {
		h.o.Monitor("c14-no-recovery", desc, fmt.Sprintf("listener-busy: the port %s was taken when the system started; it logged only %d failed attempts to listen within 30 s (%v): the retry of the listener has stopped", res.bind, len(res.delays), txt))
		return
	}
	if len(res.delays) > res.wantFails && !(res.listening && res.delivered) {
		// the system failed to listen AFTER the harness had let go of the port: some other process of this shared machine
		// grabbed it in between; whoever listens there now is not our system - nothing can be concluded from this run
		h.o.Stats["accept-backoff-port-taken-by-stranger"]++
		return
	}
	if !res.listening {
		h.o.Monitor("c14-no-recovery", desc, fmt.Sprintf("listener-busy: the port %s was taken for the first %d attempts to listen (delays %v) and has been free for 40 s: the system never listened on it, no peer can reach it", res.bind, res.wantFails, txt))
		return
	}
	if !res.delivered {
		h.o.Monitor("c14-no-recovery", desc, fmt.Sprintf("listener-busy: the system listens on %s (%.0f ms after the port became free) but none of 20 Tells from another system was delivered", res.bind, res.upAfter.Seconds()*1000))
	}
	// every logged delay within the interval of its attempt number (the counter is not reset between failures)
	var want []lib.T
	for range res.delays {
		want = append(want, lib.Bool(true))
	}
	h.o.Case("accept-backoff", true, lib.L(lib.N(8), serverCfg.term(), lib.LS(ks), lib.LS(ds)), lib.LS(want))
}

var serverCfg = boCfg{int64(100 * time.Millisecond), int64(10 * time.Second), true}
