// link.go: C14 — remoting under connection faults.
package main

import (
	"encoding/binary"
	"fmt"
	"os"
	"runtime"
	"strings"
	"time"

	"github.com/kercylan98/vivid"
	"github.com/kercylan98/vivid/internal/actor"
	"github.com/kercylan98/vivid/xverif/lib"
)

func be32(n int) []byte { b := make([]byte, 4); binary.BigEndian.PutUint32(b, uint32(n)); return b }

func lp(b []byte) []byte { return append(be32(len(b)), b...) }

// envBytes builds an envelope body by hand (used only for INJECTED / embedded frames; what the systems send is built by vivid)
func envBytes(payload []byte, name string, system bool, sa, sp, ra, rp string) []byte {
	var out []byte
	out = append(out, lp(payload)...)
	out = append(out, lp([]byte(name))...)
	if system {
		out = append(out, 1)
	} else {
		out = append(out, 0)
	}
	for _, s := range []string{sa, sp, ra, rp} {
		out = append(out, lp([]byte(s))...)
	}
	return out
}

// reportNoRecovery reports "no message gets through although the peer is reachable"
func (h *H) reportNoRecovery(B *Node, c lib.T, detail string) {
	h.o.Monitor("c14-no-recovery", c, detail)
}

// healthy makes sure a live connection from -> to exists and returns it
func (h *H) healthy(from, to *Node) *PConn {
	if h.abort {
		return nil
	}
	cs := to.Proxy.Conns(0)
	if len(cs) > 0 && cs[len(cs)-1].Alive() {
		// prove it with a sync
		syncSeq++
		s := syncSeq
		from.Sys.Tell(RemoteRecv(to), &XMsg{Kind: KSync, Seq: s})
		if waitUntil(2*time.Second, func() bool { return hasSync(to, s) }) {
			// the sync's own Sent event must be on record before the next call() opens its event window (on a loaded
			// machine the observer actor may lag behind the round trip): otherwise that call would count a stray "ok"
			from.Barrier()
			return to.Proxy.Conns(0)[to.Proxy.NConns()-1]
		}
	}
	if !h.resync(from, to, func(int) Plan { return defaultPlan() }) {
		if !h.abort {
			h.reportNoRecovery(to, nil, "no message got through a fresh connection within 15 s although the peer is reachable; remaining scenarios skipped")
		}
		h.abort = true
		return nil
	}
	return to.Proxy.Conns(0)[to.Proxy.NConns()-1]
}

func hasSync(n *Node, s uint64) bool {
	n.Rec.mu.Lock()
	defer n.Rec.mu.Unlock()
	g := n.Rec.got
	for i := len(g) - 1; i >= 0 && i >= len(g)-400; i-- {
		if g[i].Kind == KSync && g[i].Seq == s {
			return true
		}
	}
	return false
}

// ---- S2: Tell to an unreachable peer ----
func xvTellProbe(sys vivid.ActorSystem, ref vivid.ActorRef, m *XMsg, done chan time.Duration) {
	t := time.Now()
	sys.Tell(ref, m)
	done <- time.Since(t)
}

func (h *H) tellBlocking() {
	res := map[string]any{}
	for _, limit := range []int{0, 1, 3} {
		n, err := StartNode(fmt.Sprintf("T%d", limit), limit, nil)
		if err != nil {
			panic(err)
		}
		dead, _ := freePort() // nothing listens there: dials are refused at once
		ref, _ := actor.NewRef(dead, "/recv")
		done := make(chan time.Duration, 1)
		go xvTellProbe(n.Sys, ref, &XMsg{Kind: KTell, Sender: 1, Seq: 1}, done)
		var stack string
		var d time.Duration
		select {
		case d = <-done:
		case <-time.After(60 * time.Millisecond):
			buf := make([]byte, 1<<20)
			buf = buf[:runtime.Stack(buf, true)]
			for _, g := range strings.Split(string(buf), "\n\n") {
				if strings.Contains(g, "xvTellProbe") {
					stack = g
				}
			}
			select {
			case d = <-done:
			case <-time.After(30 * time.Second):
				d = 30 * time.Second
			}
		}
		inSleep := strings.Contains(stack, "time.Sleep") && strings.Contains(stack, "ExponentialBackoff).Try") && strings.Contains(stack, "(*Mailbox).Enqueue")
		// the sending ACTOR: does it keep processing its mailbox while delivery is retried?
		var tellAt, pingAt time.Time
		pong := make(chan struct{})
		aref, _ := n.Sys.ActorOf(vivid.ActorFN(func(ctx vivid.ActorContext) {
			switch ctx.Message().(type) {
			case *Burst:
				tellAt = time.Now()
				ctx.Tell(ref, &XMsg{Kind: KTell, Sender: 2, Seq: 1})
			case *XMsg:
				pingAt = time.Now()
				close(pong)
			}
		}))
		n.Sys.Tell(aref, &Burst{})
		n.Sys.Tell(aref, &XMsg{Kind: KSync})
		select {
		case <-pong:
		case <-time.After(30 * time.Second):
			pingAt = time.Now()
		}
		actorStall := pingAt.Sub(tellAt)
		res[fmt.Sprintf("limit_%d", limit)] = map[string]any{"tell_ms": d.Seconds() * 1000, "actor_next_message_delay_ms": actorStall.Seconds() * 1000,
			"caller_goroutine_in_backoff_sleep": inSleep, "expected_sleep_sum_ms": 100 * ((1 << limit) - 1)}
		h.logf("tell-blocking limit=%d: Tell took %v, actor stalled %v, caller in backoff sleep: %v", limit, d, actorStall, inSleep)
		if d < 30*time.Second {
			// the call slept for the attempts 0 .. limit-1: at least the sum of the lower ends of their jitter intervals (Backoff.v)
			h.o.Case("backoff-enqueue-time", limit > 0, lib.L(lib.N(9), mailboxCfg.term(), lib.NI(limit), lib.N(uint64(d))), lib.Bool(true))
		}
		if limit > 0 && inSleep {
			// structural observation (not a timing threshold): the goroutine that called Tell is parked in time.Sleep inside backoff.Try under Mailbox.Enqueue
			min := time.Duration(75*((1<<limit)-1)) * time.Millisecond
			if d >= min/2 {
				h.o.Monitor("c14-tell-blocks", lib.L(lib.S("tell-unreachable"), lib.NI(limit)),
					fmt.Sprintf("Tell blocked the caller: peer unreachable (dial refused), ReconnectLimit=%d, Tell returned after %.0f ms (sum of back-offs ~%d ms); 60 ms into the call the calling goroutine was parked in time.Sleep <- ExponentialBackoff.Try <- remoting.(*Mailbox).Enqueue; an actor doing that Tell handled its next mailbox message %.0f ms later",
						limit, d.Seconds()*1000, 100*((1<<limit)-1), actorStall.Seconds()*1000))
			}
		}
		n.Stop()
		n.Proxy.Close()
	}
	h.o.Info["tell_unreachable"] = res
}

// ---- S4: the tail of an old connection arrives after the head of its successor ----
func (h *H) overlap(A, B *Node) {
	if h.abort {
		return
	}
	B.Proxy.KillAll()
	first := B.Proxy.NConns()
	B.Proxy.SetPlan(func(i int) Plan {
		p := defaultPlan()
		if i == first {
			p.Hold = true
		}
		return p
	})
	m := mark(B)
	ref := RemoteRecv(B)
	var sent []*XMsg
	tell := func(seq uint64) {
		x := &XMsg{Kind: KTell, Sender: 400, Seq: seq, Data: []byte("overlap")}
		sent = append(sent, x)
		A.Sys.Tell(ref, x)
	}
	// get onto the held connection (the first Tell after KillAll may die on the old one)
	var held *PConn
	seq := uint64(0)
	for i := 0; i < 50 && held == nil; i++ {
		seq++
		tell(seq)
		waitUntil(50*time.Millisecond, func() bool { return B.Proxy.NConns() > first })
		if B.Proxy.NConns() > first {
			held = B.Proxy.Conns(first)[0]
		}
	}
	if held == nil {
		h.o.Stats["overlap-skipped"]++
		return
	}
	seq++
	tell(seq)
	seq++
	tell(seq)
	// wait until the proxy holds all of it
	waitUntil(time.Second, func() bool { r := held.Received(); time.Sleep(2 * time.Millisecond); return r > 0 && r == held.Received() })
	heldBytes := held.Received()
	held.ResetClient()
	time.Sleep(5 * time.Millisecond)
	// the sender notices at its next write and moves to a new connection
	base := seq
	for i := 0; i < 20; i++ {
		seq++
		tell(seq)
		s := seq
		if waitUntil(60*time.Millisecond, func() bool {
			for _, g := range B.Rec.Snapshot(m.rec) {
				if g.Sender == 400 && g.Seq == s {
					return true
				}
			}
			return false
		}) {
			break
		}
	}
	held.Release()
	waitUntil(2*time.Second, func() bool {
		for _, g := range B.Rec.Snapshot(m.rec) {
			if g.Sender == 400 && g.Seq == base {
				return true
			}
		}
		return false
	})
	time.Sleep(20 * time.Millisecond)
	var order []uint64
	for _, g := range B.Rec.Snapshot(m.rec) {
		if g.Sender == 400 {
			order = append(order, g.Seq)
		}
	}
	h.o.Info["overlap_received_order"] = fmt.Sprint(order)
	h.o.Stats["overlap-runs"]++
	sorted := true
	for i := 1; i < len(order); i++ {
		if order[i] <= order[i-1] {
			sorted = false
		}
	}
	if !sorted {
		h.o.Monitor("c14-reorder-across-connections", lib.L(lib.S("overlap"), lib.NI(int(heldBytes))),
			fmt.Sprintf("old connection's frames delivered after its successor's: A sent seq 1..%d in order; %d bytes (complete frames) of the first connection were still in flight when A's side was reset; A continued on a new connection; B's actor received %v", seq, heldBytes, order))
	}
	B.Proxy.SetPlan(func(int) Plan { return defaultPlan() })
}


// ---- sequential Enqueue calls with their observations ----

type callObs struct {
	msg    *XMsg
	events []string // this call's sender-side events in publication order
	retry  []int
	nsf    int
	ok     bool
	dead   bool
	dials  int
	c0, c1 int // indices of the proxy connections made during this call: [c0, c1)
	dur    time.Duration
	size   int // MessageSize of the Sent event (frame length), 0 if none
}

// call: one Tell from the harness goroutine (Enqueue runs on it and returns when the message was written or given up)
func (h *H) call(A, B *Node, m *XMsg) callObs {
	_, _, _, _, _, _, _, tr0 := A.Ev.snapshotCounts()
	A.Ev.mu.Lock()
	nsent0 := len(A.Ev.Sent)
	A.Ev.mu.Unlock()
	c0 := B.Proxy.NConns()
	t := time.Now()
	A.Sys.Tell(RemoteRecv(B), m)
	co := callObs{msg: m, dur: time.Since(t)}
	dl := fmt.Sprintf("dl%d:%d", m.Sender, m.Seq)
	done := waitUntil(10*time.Second, func() bool {
		A.Ev.mu.Lock()
		defer A.Ev.mu.Unlock()
		for _, e := range A.Ev.Trace[tr0:] {
			if e == "ok" || e == dl {
				return true
			}
		}
		return false
	})
	time.Sleep(300 * time.Microsecond)
	A.Ev.mu.Lock()
	co.events = append([]string(nil), A.Ev.Trace[tr0:]...)
	if len(A.Ev.Sent) > nsent0 {
		co.size = A.Ev.Sent[len(A.Ev.Sent)-1].MessageSize
	}
	A.Ev.mu.Unlock()
	for _, e := range co.events {
		switch {
		case e == "sf":
			co.nsf++
		case e == "ok":
			co.ok = true
		case e == dl:
			co.dead = true
		case strings.HasPrefix(e, "cf"):
			var n int
			fmt.Sscanf(e[2:], "%d", &n)
			co.retry = append(co.retry, n)
		}
	}
	co.c0, co.c1 = c0, B.Proxy.NConns()
	co.dials = len(co.retry) + co.c1 - c0
	if !done {
		h.o.Monitor("c14-no-report", lib.L(lib.S("call"), lib.N(uint64(m.Sender)), lib.N(m.Seq)),
			fmt.Sprintf("Tell(sender %d seq %d) returned after %v; within 10 s neither a RemotingMessageSentEvent nor a DeathLetterEvent for it (events: %v)", m.Sender, m.Seq, co.dur, co.events))
		h.noReport++
		if h.noReport >= 3 {
			h.abort = true // every further scenario would wait again for reports that do not come
		}
	}
	if co.ok && co.dead {
		h.o.Monitor("c14-sent-and-dead", lib.L(lib.S("call"), lib.N(uint64(m.Sender)), lib.N(m.Seq)), fmt.Sprintf("message reported both as sent and as dead letter: %v", co.events))
	}
	return co
}

type answer struct {
	connect int // 0 refused 1 handshake failed 4 ok
	werr    bool
}

func tAnswer(a answer) lib.T {
	return lib.L(lib.Bool(false), lib.NI(a.connect), lib.Opt(false, nil), lib.Bool(false), lib.Bool(a.werr))
}

// answersOf: the environment's answers of one call, from its events; hsFails handshake failures (which publish no
// event) are placed after a leading write failure
func answersOf(co callObs, hsFails int) []lib.T {
	var out []lib.T
	placed := hsFails == 0
	place := func() {
		if !placed {
			for i := 0; i < hsFails; i++ {
				out = append(out, tAnswer(answer{connect: 1}))
			}
			placed = true
		}
	}
	for i, e := range co.events {
		switch {
		case e == "sf":
			out = append(out, tAnswer(answer{connect: 4, werr: true}))
			if i == 0 {
				place()
			}
		case e == "ok":
			place()
			out = append(out, tAnswer(answer{connect: 4, werr: false}))
		case strings.HasPrefix(e, "cf"):
			place()
			out = append(out, tAnswer(answer{connect: 0}))
		}
	}
	place()
	return out
}

type scenario struct {
	name   string
	A, B   *Node
	m      marks
	first  *PConn // the cached connection at the start (nil = none)
	start  int64  // its frame-stream position at the start
	cap    int64  // bytes it will still carry (-1 = not known to be cut: treated as unlimited)
	conn0  int    // proxy connection count at the start
	calls  []callObs
	hsFail []int // per call: handshake failures arranged for it
	override map[int][]lib.T // per call: answers built by the scenario itself
	frameLen func(m *XMsg) int
	wholeOld bool // the first connection is presented to the model from its handshake on
	refs     []lib.T // what actor.NewRef answered for the reference strings of injected envelopes (badrefs.go)
}

func (h *H) begin(name string, A, B *Node, first *PConn, capBytes int64) *scenario {
	if first != nil {
		// everything the client wrote so far has been handed on and recorded
		waitUntil(time.Second, func() bool { return first.Received() == first.Pos() })
	}
	sc := &scenario{name: name, A: A, B: B, m: mark(B), first: first, cap: capBytes, conn0: B.Proxy.NConns()}
	if first != nil {
		sc.start = first.Pos()
	}
	return sc
}

func (sc *scenario) do(h *H, m *XMsg, hsFails int) callObs {
	co := h.call(sc.A, sc.B, m)
	sc.calls = append(sc.calls, co)
	sc.hsFail = append(sc.hsFail, hsFails)
	return co
}

// finish: monitors on what B's actor received + the model case
func (sc *scenario) finish(h *H, nontrivial bool) {
	time.Sleep(2 * time.Millisecond)
	A, B := sc.A, sc.B
	desc := lib.L(lib.S(sc.name), lib.NI(A.Limit))
	// --- property monitors (implementation only) ---
	sent := map[[2]uint64]*XMsg{}
	order := map[[2]uint64]int{}
	for i, c := range sc.calls {
		k := [2]uint64{uint64(c.msg.Sender), c.msg.Seq}
		sent[k] = c.msg
		order[k] = i
	}
	last := -1
	seen := map[[2]uint64]bool{}
	for _, g := range B.Rec.Snapshot(sc.m.rec) {
		k := [2]uint64{uint64(g.Sender), g.Seq}
		x, ok := sent[k]
		if !ok || x.Kind != g.Kind || len(x.Data) != g.Len || cksum(x.Data) != g.Sum {
			h.o.Monitor("c14-forged-delivery", desc, fmt.Sprintf("%s: B's actor received (kind %d sender %d seq %d len %d from %s), which is not one of the %d messages sent", sc.name, g.Kind, g.Sender, g.Seq, g.Len, g.From, len(sc.calls)))
			continue
		}
		if seen[k] {
			h.o.Monitor("c14-duplicate", desc, fmt.Sprintf("%s: message sender %d seq %d delivered twice", sc.name, g.Sender, g.Seq))
		}
		seen[k] = true
		if order[k] < last {
			h.o.Monitor("c14-reorder", desc, fmt.Sprintf("%s: message #%d delivered after message #%d", sc.name, order[k], last))
		}
		last = order[k]
	}
	lost := 0
	for _, c := range sc.calls {
		k := [2]uint64{uint64(c.msg.Sender), c.msg.Seq}
		if c.dead && seen[k] {
			h.o.Stats["dead-letter-yet-delivered"]++
		}
		if !c.dead && !seen[k] {
			lost++
		}
	}
	h.o.Stats["written-but-lost-after-cut"] += lost
	// --- model case ---
	var calls []lib.T
	for i, c := range sc.calls {
		fl := sc.frameLen(c.msg)
		ans := answersOf(c, sc.hsFail[i])
		if o, ok := sc.override[i]; ok {
			ans = o
		}
		calls = append(calls, lib.L(lib.NI(fl), lib.LS(ans)))
	}
	var conns []lib.T
	var lens []lib.T
	total := 0
	if sc.first != nil {
		t, n := connInput(sc.first, false, int(sc.start))
		conns = append(conns, t)
		lens = append(lens, lib.NI(n))
		total += n
	}
	// A connection that carries nothing but the zero-length close marker is an attempt whose REGISTRATION with the
	// dialling system's own server actor failed after dial and handshake (Mailbox.getOrCreateConnection: Ask(remotingServerRef)
	// failed -> tcpConn.Close() -> connection-failed event): Link.v's CRegisterFail, which like CRefused leaves no
	// connection behind. It is projected out here (its connection-failed event stays). Seen when the name
	// dial-<remote>-<local ip:port> is still owned by the reader actor of an earlier connection from the same local port
	// (before /repo c1a2e19: for ever after a FIN; since then only in the window of finding C14-accept-name-window; on the
	// dialling side it only costs one attempt).
	closeOnly := map[int]bool{}
	for _, c := range B.Proxy.Conns(sc.conn0) {
		rec, _ := c.Record()
		c.mu.Lock()
		inj := c.Injected
		c.mu.Unlock()
		if inj == 0 && len(rec) == 4 && rec[0]|rec[1]|rec[2]|rec[3] == 0 {
			closeOnly[c.Idx] = true
		}
	}
	if len(closeOnly) > 0 {
		attributed := 0
		for i := range sc.calls {
			co := &sc.calls[i]
			for idx := co.c0; idx < co.c1; idx++ {
				if closeOnly[idx] && len(co.retry) > 0 {
					co.dials--
					attributed++
				}
			}
		}
		if attributed != len(closeOnly) {
			// a close-only connection that no call with a connection-failed event accounts for: leave everything as observed
			closeOnly = map[int]bool{}
			for i := range sc.calls {
				co := &sc.calls[i]
				co.dials = len(co.retry) + co.c1 - co.c0
			}
		} else {
			h.o.Stats["register-failed-connections-projected-out"] += attributed
			n := 0
			A.Ev.mu.Lock()
			for _, l := range A.Ev.Logged {
				if strings.Contains(l, "actor already exists: /@remoting/dial-") {
					n++
				}
			}
			A.Ev.mu.Unlock()
			h.o.Info["dial_name_collisions_logged_"+A.Name] = n
		}
	}
	for _, c := range B.Proxy.Conns(sc.conn0) {
		if closeOnly[c.Idx] {
			continue
		}
		t, n := connInput(c, true, 0)
		conns = append(conns, t)
		total += n
		c.mu.Lock()
		hsDone := len(c.HsChunks) > 0 && !c.Plan.Reject && c.Plan.HsCut < 0
		inj := c.Injected
		c.mu.Unlock()
		if hsDone {
			lens = append(lens, lib.NI(n-inj))
		}
	}
	if total > maxCaseBytes {
		h.o.Stats["case-skipped-too-big"]++
		return
	}
	first := lib.Opt(false, nil)
	if sc.first != nil {
		if sc.cap >= 0 {
			first = lib.Opt(true, lib.N(uint64(sc.cap)))
		} else {
			first = lib.Opt(true, lib.N(1<<40))
		}
	}
	in := lib.L(lib.N(1), lib.NI(A.Limit), first, lib.LS(calls), lib.LS(conns))
	if len(sc.refs) > 0 {
		in = lib.L(lib.N(1), lib.NI(A.Limit), first, lib.LS(calls), lib.LS(conns), lib.LS(sc.refs))
	}
	var outs []lib.T
	for _, c := range sc.calls {
		var rc []lib.T
		for _, r := range c.retry {
			rc = append(rc, lib.NI(r))
		}
		outs = append(outs, lib.L(lib.LS(rc), lib.NI(c.nsf), lib.Bool(c.ok), lib.Bool(c.dead), lib.NI(c.dials)))
	}
	kind := sc.name
	if i := strings.IndexAny(kind, "@/"); i > 0 {
		kind = kind[:i]
	}
	h.o.Case(fmt.Sprintf("%s/limit%d", kind, A.Limit), nontrivial, in, lib.L(lib.LS(outs), lib.LS(lens), observed(B, sc.m)))
}

var linkSeq uint64

func (h *H) msg(sender uint32, n int) *XMsg {
	linkSeq++
	d := make([]byte, n)
	for i := range d {
		d[i] = byte(linkSeq) + byte(i*7)
	}
	return &XMsg{Kind: KTell, Sender: sender, Seq: linkSeq, Data: d}
}

// flush: keep telling until one arrives (the link is fine again); every call belongs to the scenario
func (sc *scenario) flush(h *H, max int) bool {
	var sent []uint64
	for i := 0; i < max && !h.abort; i++ {
		m := h.msg(7, 1)
		sc.do(h, m, 0)
		sent = append(sent, m.Seq)
		if waitUntil(40*time.Millisecond, func() bool {
			for _, g := range sc.B.Rec.Snapshot(sc.m.rec) {
				if g.Sender == 7 && g.Seq == m.Seq {
					return true
				}
			}
			return false
		}) {
			return true
		}
	}
	// none showed up inside its 40 ms window: on a loaded machine the receiver may simply be slow.  A message that was
	// written and has not arrived is given a generous time before "no recovery" is concluded (the LAST one arriving
	// means everything before it on that connection has been handled)
	if len(sent) == 0 || h.abort {
		return false
	}
	last := sent[len(sent)-1]
	return waitUntil(10*time.Second, func() bool {
		for _, g := range sc.B.Rec.Snapshot(sc.m.rec) {
			if g.Sender == 7 && g.Seq == last {
				return true
			}
		}
		return false
	})
}

// ---- the scenarios ----

// cutAt: the cached healthy connection is cut after k more bytes, three Tells, then Tells until one arrives
func (h *H) cutAt(A, B *Node, k int64, frameLen func(*XMsg) int, sizes []int) {
	c := h.healthy(A, B)
	if c == nil {
		return
	}
	sc := h.begin(fmt.Sprintf("cut@%d/limit%d", k, A.Limit), A, B, c, k)
	sc.frameLen = frameLen
	c.ArmCut(k)
	for _, n := range sizes {
		sc.do(h, h.msg(5, n), 0)
	}
	// the reset reaches the sender
	waitUntil(200*time.Millisecond, func() bool { return c.WasCut() })
	time.Sleep(500 * time.Microsecond)
	// the complete frames that made it through the old connection are handled by its reader before the flush
	// goes out on a new connection (no overlap of the two connections at the receiver: see overlap())
	rec, _ := c.Record()
	nfull := len(splitFrames(rec[sc.start:]))
	waitUntil(10*time.Second, func() bool { return B.Rec.Len()-sc.m.rec >= nfull })
	if !sc.flush(h, 12) && !h.abort {
		h.reportNoRecovery(B, lib.L(lib.S("cut"), lib.N(uint64(k))), fmt.Sprintf("%s: after the cut none of 12 further Tells (40 ms apart) was delivered although the peer is reachable", sc.name))
		h.noRecovery++
		if h.noRecovery >= 3 {
			h.abort = true // every further scenario would only wait again
		}
	}
	sc.finish(h, true)
	h.o.Stats["cut-scenarios"]++
}

// refused: dials are refused by the kernel for one message, then the peer is reachable again
func (h *H) refused(A, B *Node, frameLen func(*XMsg) int) {
	c := h.healthy(A, B)
	if c == nil {
		return
	}
	sc := h.begin(fmt.Sprintf("refused/limit%d", A.Limit), A, B, c, 0)
	sc.frameLen = frameLen
	B.Proxy.Refuse(true)
	c.ArmCut(0)
	waitUntil(200*time.Millisecond, func() bool { return c.WasCut() })
	time.Sleep(time.Millisecond)
	// the first call may still die on the cached connection; the following one meets only refusals
	for i := 0; i < 3; i++ {
		co := sc.do(h, h.msg(6, 3), 0)
		if len(co.retry) > 0 {
			// all limit+1 attempts were dials?
			if co.nsf == 0 && !co.dead {
				h.o.Monitor("c14-dead-letter-missing", lib.L(lib.S(sc.name)), fmt.Sprintf("%s: %d refused dials (RetryCounts %v) and no dead letter", sc.name, len(co.retry), co.retry))
			}
			if co.nsf == 0 {
				// "after the configured reconnect attempts": exactly limit+1 dials, RetryCount 0..limit
				okc := len(co.retry) == A.Limit+1
				for i, r := range co.retry {
					if r != i {
						okc = false
					}
				}
				if !okc {
					h.o.Monitor("c14-retry-count", lib.L(lib.S(sc.name)), fmt.Sprintf("%s: ReconnectLimit=%d but the refused message was dialled with RetryCounts %v (want 0..%d) before its dead letter", sc.name, A.Limit, co.retry, A.Limit))
				}
				break
			}
		}
	}
	if err := B.Proxy.Refuse(false); err != nil {
		panic(err)
	}
	if !sc.flush(h, 12) && !h.abort {
		h.reportNoRecovery(B, lib.L(lib.S(sc.name)), sc.name+": the peer accepts connections again but none of 12 further Tells was delivered")
		h.noRecovery++
		if h.noRecovery >= 3 {
			h.abort = true // every further scenario would only wait again
		}
	}
	sc.finish(h, true)
}

// rejected: connections are accepted and reset at once (or cut inside the handshake): the handshake fails
func (h *H) rejected(A, B *Node, frameLen func(*XMsg) int, hsCut int) {
	c := h.healthy(A, B)
	if c == nil {
		return
	}
	name := fmt.Sprintf("reset-after-accept/limit%d", A.Limit)
	if hsCut >= 0 {
		name = fmt.Sprintf("handshake-cut@%d/limit%d", hsCut, A.Limit)
	}
	sc := h.begin(name, A, B, c, 0)
	sc.frameLen = frameLen
	bad := true
	B.Proxy.SetPlan(func(int) Plan {
		p := defaultPlan()
		if bad {
			if hsCut >= 0 {
				p.HsCut = hsCut
			} else {
				p.Reject = true
			}
		}
		return p
	})
	c.ArmCut(0)
	waitUntil(200*time.Millisecond, func() bool { return c.WasCut() })
	time.Sleep(time.Millisecond)
	for i := 0; i < 3; i++ {
		n0 := B.Proxy.NConns()
		m := h.msg(8, 2)
		co := h.call(A, B, m)
		if co.dead {
			// a dial that reported the reset itself may not have been registered by the proxy's accept loop yet
			want := A.Limit + 1
			if len(co.events) > 0 && co.events[0] == "sf" {
				want--
			}
			waitUntil(5*time.Second, func() bool { return B.Proxy.NConns()-n0 >= want })
		}
		fails := B.Proxy.NConns() - n0
		// every attempt after a leading write failure met one reset connection: either the dial itself reported the
		// reset (RemotingConnectionFailedEvent, RetryCount = attempt number) or the handshake failed (no event)
		co.dials = fails
		var ans []lib.T
		att := 0
		if len(co.events) > 0 && co.events[0] == "sf" {
			ans = append(ans, tAnswer(answer{connect: 4, werr: true}))
			att++
		}
		for j := 0; j < fails; j++ {
			isCF := false
			for _, r := range co.retry {
				if r == att {
					isCF = true
				}
			}
			if isCF {
				ans = append(ans, tAnswer(answer{connect: 0}))
			} else {
				ans = append(ans, tAnswer(answer{connect: 1}))
			}
			att++
		}
		if co.ok {
			ans = append(ans, tAnswer(answer{connect: 4, werr: false}))
		}
		if sc.override == nil {
			sc.override = map[int][]lib.T{}
		}
		sc.override[len(sc.calls)] = ans
		sc.calls = append(sc.calls, co)
		sc.hsFail = append(sc.hsFail, fails)
		if fails > 0 {
			if !co.dead {
				h.o.Monitor("c14-dead-letter-missing", lib.L(lib.S(sc.name)), fmt.Sprintf("%s: %d connections failed their handshake and the message was neither sent nor dead-lettered (%v)", sc.name, fails, co.events))
			}
			if co.nsf == 0 {
				break
			}
		}
	}
	bad = false
	if !sc.flush(h, 12) && !h.abort {
		h.reportNoRecovery(B, lib.L(lib.S(sc.name)), sc.name+": handshakes pass again but none of 12 further Tells was delivered")
		h.noRecovery++
		if h.noRecovery >= 3 {
			h.abort = true // every further scenario would only wait again
		}
	}
	B.Proxy.SetPlan(func(int) Plan { return defaultPlan() })
	sc.finish(h, true)
}

// unencodable: the codec refuses the message / the envelope exceeds 4 MiB
func (h *H) unencodable(A, B *Node, frameLen func(*XMsg) int) {
	c := h.healthy(A, B)
	if c == nil {
		return
	}
	sc := h.begin(fmt.Sprintf("unencodable/limit%d", A.Limit), A, B, c, -1)
	sc.frameLen = func(m *XMsg) int {
		if m.Kind == KNoEnc || len(m.Data) > 4<<20-200 {
			return 0
		}
		return frameLen(m)
	}
	sc.do(h, h.msg(9, 4), 0)
	bad := h.msg(9, 4)
	bad.Kind = KNoEnc
	co := sc.do(h, bad, 0)
	if !co.dead || co.ok {
		h.o.Monitor("c14-dead-letter-missing", lib.L(lib.S(sc.name)), fmt.Sprintf("%s: a message the codec cannot encode was not dead-lettered exactly once (%v)", sc.name, co.events))
	}
	sc.do(h, h.msg(9, 4), 0)
	// a legitimate Tell whose envelope exceeds 4 MiB, carrying a well-formed frame in its payload
	forged := &XMsg{Kind: KTell, Sender: 666, Seq: 4242, Data: []byte("never sent by anybody")}
	inner := envBytes(encPayload(forged), "", false, "10.6.6.6:666", "/forged/sender", B.Adv, "/recv")
	data := append([]byte{0x7f}, lp(inner)...)
	data = append(data, make([]byte, 4<<20)...)
	linkSeq++
	big := &XMsg{Kind: KTell, Sender: 0x7f7f7f7f, Seq: 0x7f7f7f7f7f7f7f7f, Data: data}
	co = sc.do(h, big, 0)
	h.o.Info["oversize_tell_events_limit"+fmt.Sprint(A.Limit)] = co.events
	sc.do(h, h.msg(9, 4), 0)
	sc.flush(h, 3)
	time.Sleep(30 * time.Millisecond)
	if !co.dead && !co.ok {
		// already reported by c14-no-report
	}
	sc.finish(h, true)
}

// garbage: the proxy injects an undecodable frame, a frame with a foreign payload and a frame with a bad envelope
// between real frames of a fresh connection: none of them may stop the later frames
func (h *H) garbage(A, B *Node, frameLen func(*XMsg) int) {
	if h.abort {
		return
	}
	junk := h.r.Bytes(40)
	junk[0] = 0xff // the first length field of the envelope is out of range: the envelope does not parse
	badPayload := envBytes([]byte("not an XMsg payload"), "", false, A.Adv, "/", B.Adv, "/recv")
	short := []byte{0, 0, 0, 2, 1}
	inj := map[int][]byte{2: lp(junk), 3: lp(badPayload), 5: append(lp(short), lp(junk[:7])...)}
	B.Proxy.KillAll()
	base := B.Proxy.NConns()
	B.Proxy.SetPlan(func(i int) Plan {
		p := defaultPlan()
		p.Inject = inj
		return p
	})
	time.Sleep(2 * time.Millisecond)
	m := mark(B)
	sc := &scenario{name: fmt.Sprintf("injected-garbage/limit%d", A.Limit), A: A, B: B, m: m, conn0: base, frameLen: frameLen}
	// the cached connection is dead; model it as a connection that carries nothing more
	cs := B.Proxy.Conns(0)
	if len(cs) > 0 {
		sc.first = cs[len(cs)-1]
		sc.start = sc.first.Pos()
		sc.cap = 0
	}
	for i := 0; i < 10; i++ {
		sc.do(h, h.msg(10, i), 0)
		time.Sleep(300 * time.Microsecond)
	}
	sc.flush(h, 6)
	B.Proxy.SetPlan(func(int) Plan { return defaultPlan() })
	// every message that was written on the new connection must have arrived although garbage sits between them
	// (B gets a generous time to handle what it was handed)
	handedAll := func() bool {
		have := map[uint64]bool{}
		for _, g := range B.Rec.Snapshot(m.rec) {
			have[g.Seq] = true
		}
		for _, c := range B.Proxy.Conns(base) {
			rec, _ := c.Record()
			for _, fr := range splitFrames(rec) {
				if x := decodeXMsgFrame(fr); x != nil && !have[x.Seq] {
					return false
				}
			}
		}
		return true
	}
	waitUntil(10*time.Second, handedAll)
	got := map[uint64]bool{}
	for _, g := range B.Rec.Snapshot(m.rec) {
		got[g.Seq] = true
	}
	for _, c := range B.Proxy.Conns(base) {
		rec, _ := c.Record()
		for _, fr := range splitFrames(rec) {
			if x := decodeXMsgFrame(fr); x != nil && !got[x.Seq] {
				h.o.Monitor("c14-undecodable-stops-stream", lib.L(lib.S(sc.name)), fmt.Sprintf("%s: frame of message seq %d was handed to B after an injected undecodable frame and never reached the actor", sc.name, x.Seq))
			}
		}
	}
	df, _, _, _, _, _, _, _ := B.Ev.snapshotCounts()
	h.o.Info["injected_garbage_decode_failures"] = df - m.df
	sc.finish(h, true)
}

// restart: the peer system stops and a new one comes up behind the same advertised address
func (h *H) restart(A, B *Node) *Node {
	if h.abort {
		return B
	}
	c := h.healthy(A, B)
	if c == nil {
		return B
	}
	B.Stop()
	// the peer PROCESS is gone: its sockets are closed by the OS (a system that is merely stopped inside a living
	// process leaves its accepted sockets open: see Info stopped_peer_in_living_process)
	B.Proxy.KillAll()
	B2, err := StartNode(B.Name+"'", B.Limit, B.Proxy)
	if err != nil {
		panic(err)
	}
	var trace []string
	delivered := -1
	for i := 0; i < 25 && delivered < 0; i++ {
		m := h.msg(11, 2)
		co := h.call(A, B2, m)
		ok := waitUntil(30*time.Millisecond, func() bool {
			for _, g := range B2.Rec.Snapshot(0) {
				if g.Seq == m.Seq {
					return true
				}
			}
			return false
		})
		st := "lost-silently"
		if ok {
			st = "delivered"
			delivered = i
		} else if co.dead {
			st = "dead-letter"
		}
		trace = append(trace, st)
	}
	if delivered < 0 {
		// none inside its 30 ms window: give what was written a generous time before concluding "no recovery"
		if waitUntil(10*time.Second, func() bool {
			for _, g := range B2.Rec.Snapshot(0) {
				if g.Sender == 11 {
					return true
				}
			}
			return false
		}) {
			delivered = len(trace)
			trace = append(trace, "delivered-late")
		}
	}
	h.o.Info[fmt.Sprintf("peer_restart_limit%d", A.Limit)] = trace
	h.o.Stats["restart-runs"]++
	if delivered < 0 {
		h.reportNoRecovery(B2, lib.L(lib.S("peer-restart"), lib.NI(A.Limit)), fmt.Sprintf("peer restarted behind the same address; 25 Tells 30 ms apart: %v", trace))
	}
	return B2
}

func (h *H) runLink() {
	if os.Getenv("XV_ONLY") == "twopeers" {
		// debugging aid: the two-peers scenarios alone
		h.twoPeers()
		return
	}
	// the back-off object alone, before any system runs (nothing else may draw from the global random source)
	h.backoffDiff()
	if os.Getenv("XV_ONLY") == "backoff" {
		return
	}
	if os.Getenv("XV_ONLY") == "collision" {
		// debugging aid: the same-peer-port scenarios alone
		for _, v := range []string{"fin", "rst", "backlog"} {
			h.acceptCollisionReport(h.acceptCollisionRun(v))
		}
		return
	}
	// a peer that finds its port taken (runs beside the other scenarios: its time is waiting)
	if os.Getenv("XV_ONLY") == "oversize" {
		h.oversizeFrames()
		return
	}
	h.oversizeFrames()
	acceptCh := make(chan acceptResult, 1)
	go func() {
		fails := 3
		if h.tier == "thorough" {
			fails = 6
		}
		acceptCh <- h.acceptBackoffRun(fails)
	}()
	defer func() {
		select {
		case r := <-acceptCh:
			h.acceptBackoffReport(r)
		case <-time.After(120 * time.Second):
			h.o.Stats["accept-backoff-timeout"]++
		}
	}()
	// the path to a peer re-established from the same peer address after a FIN / after a RST (beside the other scenarios)
	collCh := make(chan [3]collisionResult, 1)
	go func() {
		collCh <- [3]collisionResult{h.acceptCollisionRun("fin"), h.acceptCollisionRun("rst"), h.acceptCollisionRun("backlog")}
	}()
	defer func() {
		select {
		case r := <-collCh:
			for _, x := range r {
				h.acceptCollisionReport(x)
			}
		case <-time.After(120 * time.Second):
			h.o.Stats["accept-collision-timeout"]++
		}
	}()
	type pair struct{ A, B *Node }
	var pairs []pair
	limits := []int{0, 2}
	if h.tier == "thorough" {
		limits = []int{0, 1, 2, 3}
	}
	for _, lim := range limits {
		A, err := StartNode(fmt.Sprintf("A%d", lim), lim, nil)
		if err != nil {
			panic(err)
		}
		B, err := StartNode(fmt.Sprintf("B%d", lim), lim, nil)
		if err != nil {
			panic(err)
		}
		pairs = append(pairs, pair{A, B})
	}
	defer func() {
		for _, p := range pairs {
			p.A.Stop()
			p.A.Proxy.Close()
			p.B.Stop()
			p.B.Proxy.Close()
		}
	}()
	thorough := h.tier == "thorough"
	done := make(chan struct{}, len(pairs))
	results := make([]func(), 0)
	_ = results
	for pi := range pairs {
		p := &pairs[pi]
		func() {
			A, B := p.A, p.B
			// frame length of a direct Tell with n data bytes: learnt from a Sent event
			c := h.healthy(A, B)
			if c == nil {
				return
			}
			co := h.call(A, B, &XMsg{Kind: KSync, Seq: 1 << 50})
			if pi == 0 {
				h.backoffLive(A, B)
			}
			ovh := co.size
			frameLen := func(m *XMsg) int { return ovh + len(m.Data) }
			sizes := []int{0, 5, 40}
			total := int64(3*ovh + 45)
			h.o.Info[fmt.Sprintf("three_frame_stream_bytes_limit%d", A.Limit)] = total
			t0 := time.Now()
			for k := int64(0); k < total; k++ {
				if A.Limit > 0 && !thorough {
					// sampled: every offset of the first length prefix and frame boundary neighbourhoods, every 9th otherwise
					near := false
					for _, b := range []int64{0, int64(ovh), int64(2*ovh + 5), total} {
						if k >= b-2 && k <= b+4 {
							near = true
						}
					}
					if !near && k%9 != 0 {
						continue
					}
				}
				h.cutAt(A, B, k, frameLen, sizes)
			}
			if thorough && A.Limit == 0 {
				// a second stream: 1, 300 and 17 data bytes
				sizes2 := []int{1, 300, 17}
				total2 := int64(3*ovh + 318)
				for k := int64(0); k < total2; k++ {
					h.cutAt(A, B, k, frameLen, sizes2)
				}
			}
			h.logf("limit %d: cut scenarios done in %.1fs", A.Limit, time.Since(t0).Seconds())
			h.refused(A, B, frameLen)
			h.rejected(A, B, frameLen, -1)
			for _, j := range []int{0, 1, 4, 10} {
				h.rejected(A, B, frameLen, j)
			}
			h.mailboxAtRest(A, B.Adv, fmt.Sprintf("after refused/rejected scenarios, limit %d", A.Limit))
			h.unencodable(A, B, frameLen)
			h.mailboxAtRest(A, B.Adv, fmt.Sprintf("after unencodable scenarios, limit %d", A.Limit))
			h.garbage(A, B, frameLen)
			h.badRefs(A, B, frameLen)
			if A.Limit == 0 {
				h.overlap(A, B)
			}
			p.B = h.restart(A, B)
			h.logf("limit %d: all scenarios done in %.1fs", A.Limit, time.Since(t0).Seconds())
		}()
		done <- struct{}{}
	}
	h.twoPeers()
	h.tellBlocking()
}
