package main

func (h *H) runLink() {}
