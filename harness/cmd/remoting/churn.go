// churn.go: C11 — receiver churn.  The link stays healthy; on the RECEIVING system the actors the remote traffic is
// addressed to are killed (termination awaited), re-created under the same name, created at a path that already
// received traffic while nobody lived there, and restarted by their supervisor.  Every step is separated from the
// next one by a round trip (everything sent was received or dead-lettered before the registry changes; the change is
// confirmed before the next burst), so the expected outcome is a function of the script:
//   a message that arrives while an actor is registered at its path is delivered to THAT incarnation, exactly once,
//   in the sender's order; a message that arrives while nobody is registered is a dead letter on the receiving system.
// Model: coq/Remoting/Churn.v (run_remoting op 2).
package main

import (
	"fmt"
	"strings"
	"sync"
	"time"

	"github.com/kercylan98/vivid"
	"github.com/kercylan98/vivid/internal/actor"
	"github.com/kercylan98/vivid/pkg/ves"
	"github.com/kercylan98/vivid/xverif/lib"
)

type churnDelivery struct {
	Inc, Epoch uint64
	G          Got
}

// churnPath: one path on the receiving system and the harness's own bookkeeping of who lives there
type churnPath struct {
	path, name string
	top        bool // child of the root actor (spawned with System.ActorOf); otherwise a child of the host actor
	live       bool
	inc, epoch uint64 // the incarnation registered now (spawn number at this path, restarts since)
	spawns     uint64
	ref        vivid.ActorRef
	mu         sync.Mutex
	got        []churnDelivery // what the actors at this path received, in order
	dead       []Got           // dead letters of the receiving system addressed to this path, in order
}

func (p *churnPath) counts() (int, int) {
	p.mu.Lock()
	defer p.mu.Unlock()
	return len(p.got), len(p.dead)
}

// churnWait: bound of one registry step (kill / spawn / restart) on the receiving system; generous
const churnWait = 30 * time.Second

type launchEv struct {
	path       string
	inc, epoch uint64
}

type churnCrash struct{}

type hostSpawn struct {
	ps    *churnPath
	inc   uint64
	reply chan error
}

type churnWorld struct {
	h        *H
	A, B     *Node
	host     vivid.ActorRef
	killed   chan string
	launched chan launchEv
	mu       sync.Mutex
	paths    map[string]*churnPath
	seq      map[uint32]uint64
	failed   bool // a monitor of this scenario class fired: later phases would only wait again
}

func (w *churnWorld) lookup(path string) *churnPath {
	w.mu.Lock()
	defer w.mu.Unlock()
	return w.paths[path]
}

// target: the behaviour of incarnation `inc` at ps.  A supervision restart keeps the behaviour (no provider): the
// second and later OnLaunch start a new epoch of the same incarnation.
func (w *churnWorld) target(ps *churnPath, inc uint64) vivid.Actor {
	epoch := uint64(0)
	first := true
	return vivid.ActorFN(func(ctx vivid.ActorContext) {
		switch m := ctx.Message().(type) {
		case *vivid.OnLaunch:
			if first {
				first = false
			} else {
				epoch++
			}
			w.launched <- launchEv{ps.path, inc, epoch}
		case *churnCrash:
			panic("xv: receiver churn, supervised failure")
		case *XMsg:
			from := ""
			if s := ctx.Sender(); s != nil {
				from = s.GetAddress() + s.GetPath()
			}
			ps.mu.Lock()
			ps.got = append(ps.got, churnDelivery{inc, epoch, Got{Kind: m.Kind, Sender: m.Sender, Seq: m.Seq, Len: len(m.Data), Sum: cksum(m.Data), From: from, At: time.Now()}})
			ps.mu.Unlock()
			if m.Kind == KAsk {
				ctx.Reply(&XMsg{Kind: KReply, Sender: m.Sender, Seq: m.Seq, Data: m.Data})
			}
		}
	})
}

func (w *churnWorld) start() error {
	ready := make(chan struct{})
	// dead letters of the receiving system, with the path they were addressed to
	_, err := w.B.Sys.ActorOf(vivid.ActorFN(func(ctx vivid.ActorContext) {
		switch m := ctx.Message().(type) {
		case *vivid.OnLaunch:
			ctx.EventStream().Subscribe(ctx, ves.DeathLetterEvent{})
			close(ready)
		case ves.DeathLetterEvent:
			x, ok := m.Envelope.Message().(*XMsg)
			if !ok || m.Envelope.Receiver() == nil {
				return
			}
			if ps := w.lookup(m.Envelope.Receiver().GetPath()); ps != nil {
				ps.mu.Lock()
				ps.dead = append(ps.dead, Got{Kind: x.Kind, Sender: x.Sender, Seq: x.Seq, Len: len(x.Data), Sum: cksum(x.Data), At: time.Now()})
				ps.mu.Unlock()
			}
		}
	}), vivid.WithActorName("xv-churn-dead"))
	if err != nil {
		return err
	}
	select {
	case <-ready:
	case <-time.After(30 * time.Second):
		return fmt.Errorf("churn: dead-letter observer did not start")
	}
	restart := vivid.OneForOneStrategy(vivid.SupervisionStrategyDecisionMakerFN(func(vivid.SupervisionContext) (vivid.SupervisionDecision, string) {
		return vivid.SupervisionDecisionRestart, "xv: receiver churn"
	}))
	w.host, err = w.B.Sys.ActorOf(vivid.ActorFN(func(ctx vivid.ActorContext) {
		switch m := ctx.Message().(type) {
		case *hostSpawn:
			ref, err := ctx.ActorOf(w.target(m.ps, m.inc), vivid.WithActorName(m.ps.name))
			if err == nil {
				m.ps.ref = ref
			}
			m.reply <- err
		case *vivid.OnKilled:
			// a child is gone for good (its context is already unregistered, this actor has released the name)
			if !m.Ref.Equals(ctx.Ref()) {
				w.killed <- m.Ref.GetPath()
			}
		}
	}), vivid.WithActorName("xv-churn"), vivid.WithActorSupervisionStrategy(restart))
	return err
}

func (w *churnWorld) awaitLaunch(ps *churnPath, inc, epoch uint64) bool {
	dl := time.After(churnWait)
	for {
		select {
		case e := <-w.launched:
			if e.path == ps.path && e.inc == inc && e.epoch == epoch {
				return true
			}
		case <-dl:
			return false
		}
	}
}

// ---- the steps (each returns the model's step term; nil = the step could not be carried out) ----

func (w *churnWorld) spawn(ps *churnPath) lib.T {
	ps.spawns++
	inc := ps.spawns
	var err error
	if ps.top {
		var ref vivid.ActorRef
		ref, err = w.B.Sys.ActorOf(w.target(ps, inc), vivid.WithActorName(ps.name))
		if err == nil {
			ps.ref = ref
		}
	} else {
		m := &hostSpawn{ps: ps, inc: inc, reply: make(chan error, 1)}
		w.B.Sys.Tell(w.host, m)
		select {
		case err = <-m.reply:
		case <-time.After(churnWait):
			err = fmt.Errorf("host actor did not answer")
		}
	}
	if err != nil || ps.ref.GetPath() != ps.path || !w.awaitLaunch(ps, inc, 0) {
		w.h.o.Monitor("harness-churn", lib.S(ps.path), fmt.Sprintf("could not spawn incarnation %d at %s: %v", inc, ps.path, err))
		w.failed = true
		return nil
	}
	ps.live, ps.inc, ps.epoch = true, inc, 0
	w.h.o.Stats["churn-spawn"]++
	return lib.L(lib.N(0), lib.S(ps.path), lib.N(inc))
}

func (w *churnWorld) kill(ps *churnPath, poison bool) lib.T {
	w.B.Sys.Kill(ps.ref, poison, "xv: receiver churn")
	gone := false
	if ps.top {
		gone = waitUntil(churnWait, func() bool { _, err := w.B.Sys.FindActor(ps.ref.String()); return err != nil })
	} else {
		dl := time.After(churnWait)
	wait:
		for {
			select {
			case p := <-w.killed:
				if p == ps.path {
					gone = true
					break wait
				}
			case <-dl:
				break wait
			}
		}
		if gone {
			if _, err := w.B.Sys.FindActor(ps.ref.String()); err == nil {
				gone = false
			}
		}
	}
	if !gone {
		w.h.o.Monitor("harness-churn", lib.S(ps.path), fmt.Sprintf("the actor at %s did not terminate within 30 s after Kill", ps.path))
		w.failed = true
		return nil
	}
	ps.live = false
	w.h.o.Stats["churn-kill"]++
	return lib.L(lib.N(1), lib.S(ps.path))
}

func (w *churnWorld) restart(ps *churnPath) lib.T {
	w.B.Sys.Tell(ps.ref, &churnCrash{})
	if !w.awaitLaunch(ps, ps.inc, ps.epoch+1) {
		w.h.o.Monitor("harness-churn", lib.S(ps.path), fmt.Sprintf("the actor at %s was not restarted by its supervisor within 30 s", ps.path))
		w.failed = true
		return nil
	}
	ps.epoch++
	w.h.o.Stats["churn-restart"]++
	return lib.L(lib.N(2), lib.S(ps.path))
}

type churnExp struct {
	sender     uint32
	ps         *churnPath
	msgs       []*XMsg
	live       bool
	inc, epoch uint64
	from       string
}

// traffic: one burst per chosen path (1..2 senders each) from A to B; returns the model's step (the bytes the proxy
// handed to B during the phase, as chunked) or nil when the phase did not complete.
func (w *churnWorld) traffic(tag string, conn *PConn, targets []*churnPath, r *lib.Rand, desc lib.T, mini bool) lib.T {
	h := w.h
	sizes := []int{0, 0, 1, 2, 3, 7, 16, 31, 64, 100, 200, 900}
	dmax := 1 << 20
	if mini {
		dmax = 9 // small enough for the in-Coq re-evaluation of the case
	}
	type mk struct{ g, d int }
	marks := map[*churnPath]mk{}
	w.mu.Lock()
	for _, ps := range w.paths {
		g, d := ps.counts()
		marks[ps] = mk{g, d}
	}
	w.mu.Unlock()
	waitUntil(5*time.Second, func() bool { return conn.Received() == conn.Pos() })
	rec0, _ := conn.Record()
	askOK0 := w.A.AskOK.Load()
	var exps []churnExp
	var dones []chan struct{}
	total, asks := 0, 0
	next := uint32(300)
	for _, ps := range targets {
		ns := 1 + r.Intn(2)
		if mini {
			ns = 1
		}
		to, err := actor.NewRef(w.B.Adv, ps.path)
		if err != nil {
			panic(err)
		}
		for s := 0; s < ns; s++ {
			id := next
			next++
			ref, err := w.A.Sender(id)
			if err != nil {
				panic(err)
			}
			n := 1 + r.Intn(12)
			if mini {
				n = 1 + r.Intn(2)
			}
			b := &Burst{To: to, Done: make(chan struct{}), AskTimeout: h.roundLimit() - 5*time.Second}
			for i := 1; i <= n; i++ {
				w.seq[id]++
				k := byte(KTell)
				// Asks only to a path where somebody lives (nobody would answer otherwise); the last message of a
				// burst to a live actor is an Ask: its reply confirms the burst was received
				if ps.live && (i == n || r.Intn(5) == 0) {
					k = KAsk
					asks++
				}
				b.Msgs = append(b.Msgs, &XMsg{Kind: k, Sender: id, Seq: w.seq[id], Data: r.Bytes(sizes[r.Intn(len(sizes))] % dmax)})
			}
			total += n
			exps = append(exps, churnExp{sender: id, ps: ps, msgs: b.Msgs, live: ps.live, inc: ps.inc, epoch: ps.epoch, from: w.A.Adv + ref.GetPath()})
			dones = append(dones, b.Done)
			w.A.Sys.Tell(ref, b)
		}
	}
	limit := time.Now().Add(h.roundLimit())
	left := func() time.Duration {
		if d := time.Until(limit); d > 0 {
			return d
		}
		return time.Millisecond
	}
	// the round trip: every message of the phase has been received by an actor or dead-lettered on B
	arrived := func() int {
		n := 0
		for ps, m := range marks {
			g, d := ps.counts()
			n += g - m.g + d - m.d
		}
		return n
	}
	complete := waitUntil(left(), func() bool { return arrived() >= total })
	staleDead := false
	for _, e := range exps {
		if _, d := e.ps.counts(); e.live && d > marks[e.ps].d {
			staleDead = true
		}
	}
	if complete && !staleDead {
		for _, d := range dones {
			select {
			case <-d:
			case <-time.After(left()):
				complete = false
			}
		}
	}
	// let stragglers (duplicates!) show up
	time.Sleep(30 * time.Millisecond)
	// the property, on what the real systems did
	for _, e := range exps {
		m := marks[e.ps]
		e.ps.mu.Lock()
		var gs []churnDelivery
		for _, g := range e.ps.got[m.g:] {
			if g.G.Sender == e.sender {
				gs = append(gs, g)
			}
		}
		nd := 0
		for _, g := range e.ps.dead[m.d:] {
			if g.Sender == e.sender {
				nd++
			}
		}
		e.ps.mu.Unlock()
		if !e.live {
			if len(gs) != 0 {
				h.o.Monitor("c11-churn-phantom-delivery", desc, fmt.Sprintf("%s: %d messages of sender %d were delivered at %s although no actor was registered there", tag, len(gs), e.sender, e.ps.path))
				w.failed = true
			}
			continue
		}
		bad := ""
		if len(gs) != len(e.msgs) {
			bad = fmt.Sprintf("%d of its %d messages reached the actor, %d were dead-lettered on the receiving system", len(gs), len(e.msgs), nd)
		} else {
			for i, g := range gs {
				x := e.msgs[i]
				switch {
				case g.G.Seq != x.Seq || g.G.Kind != x.Kind:
					bad = fmt.Sprintf("position %d: sent seq %d kind %d, received seq %d kind %d (order / duplication)", i, x.Seq, x.Kind, g.G.Seq, g.G.Kind)
				case g.G.Len != len(x.Data) || g.G.Sum != cksum(x.Data):
					bad = fmt.Sprintf("seq %d: payload changed (len %d -> %d)", x.Seq, len(x.Data), g.G.Len)
				case g.Inc != e.inc || g.Epoch != e.epoch:
					bad = fmt.Sprintf("seq %d was received by incarnation %d epoch %d, but incarnation %d epoch %d is the one registered", x.Seq, g.Inc, g.Epoch, e.inc, e.epoch)
				case x.Kind == KTell && g.G.From != e.from:
					bad = fmt.Sprintf("seq %d: receiver saw sender %q, expected %q", x.Seq, g.G.From, e.from)
				}
				if bad != "" {
					break
				}
			}
		}
		if bad != "" {
			h.o.Monitor("c11-live-actor-not-delivered", desc, fmt.Sprintf("%s: healthy link, live actor at %s (incarnation %d, epoch %d, spawned under a name used before: %v), sender %d: %s",
				tag, e.ps.path, e.inc, e.epoch, e.inc > 1, e.sender, bad))
			w.failed = true
		}
	}
	if !staleDead {
		if got := int(w.A.AskOK.Load() - askOK0); got != asks || w.A.AskBad.Load() != 0 {
			h.o.Monitor("c11-reply", desc, fmt.Sprintf("%s: %d Asks to live actors, %d correct replies, %d wrong/failed", tag, asks, got, w.A.AskBad.Load()))
			w.A.AskBad.Store(0)
			w.failed = true
		}
	}
	h.o.Stats["churn-messages"] += total
	h.o.Stats["churn-asks"] += asks
	if !complete && !staleDead && !w.failed {
		h.o.Monitor("c11-delivery", desc, fmt.Sprintf("%s: %d messages sent, only %d were received or dead-lettered on the receiving system within the round limit", tag, total, arrived()))
		w.failed = true
	}
	if !complete {
		return nil
	}
	waitUntil(5*time.Second, func() bool { return conn.Received() == conn.Pos() })
	rec, chunks := conn.Record()
	var xs []lib.T
	off := 0
	for _, n := range chunks {
		lo, hi := off, off+n
		off = hi
		if hi <= len(rec0) {
			continue
		}
		if lo < len(rec0) {
			lo = len(rec0)
		}
		xs = append(xs, lib.B(rec[lo:hi]))
	}
	return lib.L(lib.N(3), lib.LS(xs))
}

// scenario: one script on a fresh connection under one chunking mode
func (w *churnWorld) scenario(idx int, seed uint64, mode, randMax, nrandom int, mini bool) {
	h := w.h
	r := lib.NewRand(seed)
	name := fmt.Sprintf("churn-%d:%s", idx, modeNames[mode])
	kind := "churn:"
	if mini {
		kind = "churn-mini:"
	}
	plan := func(i int) Plan {
		p := defaultPlan()
		p.Mode, p.RandMax, p.Seed = mode, randMax, seed
		return p
	}
	if !h.resync(w.A, w.B, plan) {
		h.o.Monitor("c11-no-connection", nil, name+": no sync message got through a fresh connection within 15 s")
		w.failed = true
		return
	}
	mB := mark(w.B)
	conn := w.B.Proxy.Conns(0)[mB.conns-1]
	waitUntil(5*time.Second, func() bool { return conn.Received() == conn.Pos() })
	rec0, _ := conn.Record()
	recStart := len(rec0)
	mk := func(nm string, top bool) *churnPath {
		ps := &churnPath{name: fmt.Sprintf("%s-%d", nm, idx), top: top}
		if top {
			ps.path = "/" + ps.name
		} else {
			ps.path = w.host.GetPath() + "/" + ps.name
		}
		w.mu.Lock()
		w.paths[ps.path] = ps
		w.mu.Unlock()
		return ps
	}
	p0, p1, late, top := mk("t0", false), mk("t1", false), mk("late", false), mk("top", true)
	all := []*churnPath{p0, p1, late, top}
	desc := lib.L(lib.S(name), lib.N(seed))
	var steps []lib.T
	add := func(t lib.T) bool {
		if t == nil || w.failed {
			return false
		}
		steps = append(steps, t)
		return true
	}
	phase := 0
	burst := func(ts []*churnPath) bool {
		phase++
		return add(w.traffic(fmt.Sprintf("%s phase %d", name, phase), conn, ts, r, desc, mini))
	}
	// fixed part: every run contains name reuse after remote traffic (child and top-level actor), a path that gets
	// its first actor after it received traffic, a supervision restart, and a path left empty for a while
	ok := add(w.spawn(p0)) && add(w.spawn(p1)) && add(w.spawn(top)) &&
		burst(all) && // late: nobody there yet
		add(w.kill(p0, false)) && add(w.spawn(p0)) && add(w.spawn(late)) && add(w.kill(top, r.Bool())) && add(w.spawn(top)) &&
		burst(all) &&
		add(w.restart(p1)) && add(w.kill(p0, true)) &&
		burst(all) && // p0: nobody there now
		add(w.spawn(p0)) && add(w.restart(late)) &&
		burst(all)
	for i := 0; ok && i < nrandom; i++ {
		ps := all[r.Intn(len(all))]
		switch {
		case !ps.live:
			ok = add(w.spawn(ps))
		case !ps.top && r.Intn(3) == 0:
			ok = add(w.restart(ps))
		default:
			ok = add(w.kill(ps, r.Bool()))
			if ok && r.Intn(3) > 0 {
				ok = add(w.spawn(ps))
			}
		}
		if !ok {
			break
		}
		// the path that changed, and some of the others
		ts := []*churnPath{ps}
		for _, q := range all {
			if q != ps && r.Intn(2) == 0 {
				ts = append(ts, q)
			}
		}
		ok = burst(ts)
	}
	// what B observed, in the shape of the model's output
	var pts, outs []lib.T
	for _, ps := range all {
		pts = append(pts, lib.S(ps.path))
		ps.mu.Lock()
		var dl, dd []lib.T
		for _, g := range ps.got {
			dl = append(dl, lib.L(lib.N(g.Inc), lib.N(g.Epoch), tGot(g.G)))
		}
		for _, g := range ps.dead {
			dd = append(dd, tGot(g))
		}
		ps.mu.Unlock()
		outs = append(outs, lib.L(lib.LS(dl), lib.LS(dd)))
	}
	recEnd, _ := conn.Record()
	nbytes := len(recEnd) - recStart
	if len(steps) > 0 && nbytes <= maxCaseBytes {
		h.o.Case(kind+modeNames[mode], true, lib.L(lib.N(2), lib.LS(pts), lib.LS(steps)), lib.L(observed(w.B, mB), lib.LS(outs)))
	} else {
		h.o.Stats["case-skipped-too-big"]++
	}
	df, _, _, _, _, _, rf, _ := w.B.Ev.snapshotCounts()
	if df != mB.df || rf != mB.rf {
		h.o.Monitor("c11-decode-failed", desc, fmt.Sprintf("%s: B reported %d decode failures / %d invalid-length warnings on a healthy link", name, df-mB.df, rf-mB.rf))
	}
	if w.B.Proxy.NConns() != mB.conns {
		h.o.Stats["extra-connection-on-healthy-link"]++
	}
	// leave nothing behind at these paths
	for _, ps := range all {
		if ps.live && !w.failed {
			w.kill(ps, false)
		}
	}
	h.o.Stats["round:churn"]++
}

// runChurn: the receiver-churn scenarios on their own pair of systems
func (h *H) runChurn() {
	if h.abort {
		return
	}
	A, err := StartNode("CA", 0, nil)
	if err != nil {
		panic(err)
	}
	defer func() { A.Stop(); A.Proxy.Close() }()
	B, err := StartNode("CB", 0, nil)
	if err != nil {
		panic(err)
	}
	defer func() { B.Stop(); B.Proxy.Close() }()
	w := &churnWorld{h: h, A: A, B: B, killed: make(chan string, 1024), launched: make(chan launchEv, 1024), paths: map[string]*churnPath{}, seq: map[uint32]uint64{}}
	if err := w.start(); err != nil {
		panic(err)
	}
	n, nmini, nrandom := 4, 4, 6
	if h.tier == "thorough" {
		n, nmini, nrandom = 60, 20, 10
	}
	modes := []int{ModePass, ModeStraddle, ModeRand, ModeOne, ModeCoalesce, ModeHdrSplit, Mode64K}
	for i := 0; i < n+nmini && !w.failed; i++ {
		t := time.Now()
		mode := modes[i%len(modes)]
		// the first scenarios are small ones (fixed part only, 1..2 messages per burst)
		mini := i < nmini
		nr := nrandom
		if mini {
			nr = 0
		}
		w.scenario(i, h.seed*7777+uint64(i), mode, 1+h.r.Intn(40), nr, mini)
		h.logf("churn scenario %d (%s, mini %v): %.2fs (monitors so far %d)", i, modeNames[mode], mini, time.Since(t).Seconds(), len(h.o.Monitors))
	}
	if w.failed {
		h.o.Stats["churn-scenarios-skipped-after-failure"]++
	}
}

var _ = strings.HasPrefix
