// respawn.go: C15 — name reuse on the target system.  An actor at path P on B is addressed remotely (Tell, Ask/Reply,
// Ping/Pong, Watch, PipeTo, Kill), terminates, and a NEW actor is spawned under the same name; the same remote
// operations are repeated on the new incarnation.  Each one must have the effect the same operation has through B's
// local ref of the very same actor (issued next to it as the control): the Tell / Ask reaches the NEW incarnation,
// Ping is answered, the watchers get exactly one OnKilled, the remote Kill terminates the NEW incarnation, and a
// re-created forwarder (on C) receives the PipeTo success and failure results.
// Model case (run_remoting op 3, Remoting/Churn.v): the bytes B was handed on the A->B connection, phase by phase,
// against who received the harness messages of A at P (incarnation) and which were dead-lettered on B.
package main

import (
	"bytes"
	"fmt"
	"sync"
	"time"

	"github.com/kercylan98/vivid"
	"github.com/kercylan98/vivid/xverif/lib"
)

const (
	rspRemote = 31 // XMsg.Sender of messages A sends to P through the remote ref (all of them are on the A->B connection)
	rspLocal  = 32 // ... B sends through the local ref (control)
	rspOther  = 33 // ... C sends through the remote ref
)

type rspGot struct {
	Inc uint64
	G   Got
}

// rspLog: everything the actors at ONE path saw, tagged with the incarnation that saw it
type rspLog struct {
	mu     sync.Mutex
	got    []rspGot
	kills  map[uint64][]string // incarnation -> "killer|reason|poison"
	killed map[uint64]int      // incarnation -> own OnKilled seen
}

func (l *rspLog) count(inc uint64, sender uint32) int {
	l.mu.Lock()
	defer l.mu.Unlock()
	n := 0
	for _, g := range l.got {
		if g.Inc == inc && g.G.Sender == sender {
			n++
		}
	}
	return n
}

func spawnRspTarget(n *Node, name string, inc uint64, l *rspLog) (vivid.ActorRef, error) {
	return n.Sys.ActorOf(vivid.ActorFN(func(ctx vivid.ActorContext) {
		switch m := ctx.Message().(type) {
		case *vivid.OnKill:
			l.mu.Lock()
			l.kills[inc] = append(l.kills[inc], fmt.Sprintf("%s|%s|%v", refStr(m.Killer), m.Reason, m.Poison))
			l.mu.Unlock()
		case *vivid.OnKilled:
			if m.Ref != nil && m.Ref.Equals(ctx.Ref()) {
				l.mu.Lock()
				l.killed[inc]++
				l.mu.Unlock()
			}
		case *XMsg:
			l.mu.Lock()
			l.got = append(l.got, rspGot{inc, Got{Kind: m.Kind, Sender: m.Sender, Seq: m.Seq, Len: len(m.Data), Sum: cksum(m.Data), At: time.Now()}})
			l.mu.Unlock()
			if m.Kind == KAsk && string(m.Data) != "pipe-noreply" {
				// the reply names the incarnation that answered
				ctx.Reply(&XMsg{Kind: KReply, Sender: m.Sender, Seq: m.Seq, Data: append([]byte{byte(inc)}, m.Data...)})
			}
		}
	}), vivid.WithActorName(name))
}

type rspWatch struct {
	ref  vivid.ActorRef
	done chan struct{}
}

type rspPing struct {
	ref     vivid.ActorRef
	out     chan string
	timeout time.Duration
}

// spawnRspAgent: watcher / killer / pinger / piper / forwarder; acknowledges that Watch was issued
func spawnRspAgent(n *Node, name string, al *agentLog) (vivid.ActorRef, error) {
	return n.Sys.ActorOf(vivid.ActorFN(func(ctx vivid.ActorContext) {
		switch m := ctx.Message().(type) {
		case *rspWatch:
			ctx.Watch(m.ref)
			close(m.done)
		case *doKill:
			ctx.Kill(m.ref, m.poison, m.reason)
		case *rspPing:
			p, err := ctx.Ping(m.ref, m.timeout)
			switch {
			case err != nil:
				m.out <- "error: " + err.Error()
			case p == nil:
				m.out <- "nil pong"
			default:
				m.out <- ""
			}
		case *doPipe:
			m.id <- ctx.PipeTo(m.to, m.msg, m.forwarders, m.timeout)
		case *vivid.OnKilled:
			if m.Ref != nil && !m.Ref.Equals(ctx.Ref()) {
				al.mu.Lock()
				al.killed = append(al.killed, refStr(m.Ref))
				al.mu.Unlock()
			}
		case *vivid.PipeResult:
			al.mu.Lock()
			al.pipes = append(al.pipes, m)
			al.mu.Unlock()
		}
	}), vivid.WithActorName(name))
}

func gone(n *Node, ref vivid.ActorRef, d time.Duration) bool {
	return waitUntil(d, func() bool { _, err := n.Sys.FindActor(ref.String()); return err != nil })
}

// connFrom: the live connection on to's proxy that carries from's frames (the handshake names the DIALLED address, not
// the dialler: the connection is found by a marker message)
func connFrom(from, to *Node) *PConn {
	syncSeq++
	m := &XMsg{Kind: KSync, Sender: 0, Seq: syncSeq}
	from.Sys.Tell(RemoteRecv(to), m)
	if !waitUntil(opWait, func() bool { return hasSync(to, m.Seq) }) {
		return nil
	}
	mark := encPayload(m)
	cs := to.Proxy.Conns(0)
	for i := len(cs) - 1; i >= 0; i-- {
		c := cs[i]
		c.mu.Lock()
		ok := !c.closed && !c.cutDone && bytes.Contains(c.Rec, mark)
		c.mu.Unlock()
		if ok {
			return c
		}
	}
	return nil
}

func quiet(c *PConn) int {
	waitUntil(5*time.Second, func() bool {
		a := c.Received()
		if a != c.Pos() {
			return false
		}
		time.Sleep(3 * time.Millisecond)
		return a == c.Received() && a == c.Pos()
	})
	rec, _ := c.Record()
	return len(rec)
}

func chunksBetween(c *PConn, from, to int) lib.T {
	rec, chunks := c.Record()
	var xs []lib.T
	off := 0
	for _, n := range chunks {
		lo, hi := off, off+n
		off = hi
		if hi <= from || lo >= to {
			continue
		}
		if lo < from {
			lo = from
		}
		if hi > to {
			hi = to
		}
		xs = append(xs, lib.B(rec[lo:hi]))
	}
	return lib.LS(xs)
}

func (h *H) respawnRounds(A, B, C *Node) {
	rounds, incs := 3, 2
	if h.tier == "thorough" {
		rounds, incs = 24, 3
	}
	modes := []int{ModePass, ModeOne, ModeStraddle, ModeRand, ModeHdrSplit, ModeCoalesce}
	for i := 0; i < rounds && !h.abort; i++ {
		mode := modes[i%len(modes)]
		plan := func(int) Plan { p := defaultPlan(); p.Mode, p.RandMax, p.Seed = mode, 9, h.seed+uint64(500+i); return p }
		// fresh connections, under this round's chunking, in the directions whose RECEIVING side is under test
		for _, pr := range [][2]*Node{{A, B}, {C, B}, {A, C}} {
			if !h.resync(pr[0], pr[1], plan) { // resync retries once by itself
				h.o.Monitor("c15-no-connection", nil, "no connection "+pr[0].Name+"->"+pr[1].Name)
				h.abort = true
				return
			}
		}
		t := time.Now()
		h.respawnRound(A, B, C, i, mode, incs)
		h.logf("respawn round %d (%s): %.2fs (monitors so far %d)", i, modeNames[mode], time.Since(t).Seconds(), len(h.o.Monitors))
	}
}

func (h *H) respawnRound(A, B, C *Node, i, mode, incs int) {
	name := fmt.Sprintf("rsp%d", i)
	fname := fmt.Sprintf("rspfwd%d", i)
	tl := &rspLog{kills: map[uint64][]string{}, killed: map[uint64]int{}}
	conn := connFrom(A, B)
	if conn == nil {
		h.o.Stats["respawn-skipped-no-connection"]++
		return
	}
	nconn0 := B.Proxy.NConns()
	B.Barrier()
	B.Ev.mu.Lock()
	dead0 := len(B.Ev.Dead)
	B.Ev.mu.Unlock()
	var steps []lib.T
	cursor := quiet(conn)
	var seq uint64 = uint64(i) << 20
	path := "/" + name
	failedAny := false
	mustNot := func(err error) {
		if err != nil {
			panic(err)
		}
	}
	for k := 1; k <= incs; k++ {
		inc := uint64(k)
		desc := lib.L(lib.S("remote-after-respawn"), lib.NI(i), lib.NI(k), lib.S(modeNames[mode]))
		pre := "c15-remote-after-respawn:"
		if k == 1 {
			pre = "c15-remote-before-respawn:"
		}
		what := fmt.Sprintf("round %d, incarnation %d of %s%s", i, k, B.Adv, path)
		if k > 1 {
			what += " (spawned under the name of a terminated actor that had been addressed remotely)"
		}
		fire := func(op, detail string) {
			h.o.Monitor(pre+op, desc, what+": "+detail)
			failedAny = true
		}
		// generous single-shot bounds (they end as soon as the awaited thing happens); once something has failed in this
		// round the rest is only diagnostics: do not wait long for it
		wait := func(d time.Duration) time.Duration {
			if failedAny {
				return 3 * time.Second
			}
			return d
		}
		tref, err := spawnRspTarget(B, name, inc, tl)
		if err != nil {
			h.o.Monitor("harness-respawn", desc, fmt.Sprintf("could not spawn incarnation %d at %s: %v", k, path, err))
			h.abort = true
			return
		}
		remote := remoteOf(B, tref)
		steps = append(steps, lib.L(lib.N(0), lib.S(path), lib.N(inc)))
		r0 := cursor
		// the re-created forwarder on C, the local one on A
		rf, lf := &agentLog{}, &agentLog{}
		fwdC, err := spawnRspAgent(C, fname, rf)
		mustNot(err)
		fwdA, err := spawnRspAgent(A, fmt.Sprintf("%s-%d", fname, k), lf)
		mustNot(err)
		remoteFwd := remoteOf(C, fwdC)
		newMsg := func(kind byte, sender uint32, data string) *XMsg {
			seq++
			return &XMsg{Kind: kind, Sender: sender, Seq: seq, Data: []byte(data)}
		}
		// --- Tell ---
		for j := 0; j < 3; j++ {
			A.Sys.Tell(remote, newMsg(KTell, rspRemote, fmt.Sprintf("tell-%d-%d", k, j)))
			B.Sys.Tell(tref, newMsg(KTell, rspLocal, "local"))
		}
		waitUntil(opWait, func() bool { return tl.count(inc, rspLocal) >= 3 })
		okT := waitUntil(wait(opWait), func() bool { return tl.count(inc, rspRemote) >= 3 })
		if tl.count(inc, rspLocal) != 3 {
			h.o.Monitor("c15-local-control", desc, what+": 3 Tells through the LOCAL ref, the actor received "+fmt.Sprint(tl.count(inc, rspLocal)))
		} else if !okT {
			B.Barrier()
			B.Ev.mu.Lock()
			nd := 0
			for _, x := range B.Ev.Dead[dead0:] {
				if x.Sender == rspRemote {
					nd++
				}
			}
			B.Ev.mu.Unlock()
			fire("tell", fmt.Sprintf("3 Tells through the remote ref, the actor received %d of them (3 of 3 through the local ref); dead letters on the target system so far: %d", tl.count(inc, rspRemote), nd))
		}
		// --- Ask / Reply ---
		ask := func(n *Node, ref vivid.ActorRef, sender uint32) string {
			m := newMsg(KAsk, sender, "ask")
			res, err := n.Sys.Ask(ref, m, wait(askWait)).Result()
			if err != nil {
				return "error: " + err.Error()
			}
			x, ok := res.(*XMsg)
			if !ok || x.Kind != KReply || x.Seq != m.Seq || len(x.Data) < 1 || string(x.Data[1:]) != "ask" {
				return fmt.Sprintf("wrong reply %T %+v", res, res)
			}
			if uint64(x.Data[0]) != inc {
				return fmt.Sprintf("answered by incarnation %d", x.Data[0])
			}
			return ""
		}
		if r := ask(B, tref, rspLocal); r != "" {
			h.o.Monitor("c15-local-control", desc, what+": Ask through the LOCAL ref: "+r)
		} else if r := ask(A, remote, rspRemote); r != "" {
			fire("ask", "Ask through the remote ref: "+r+" (the same Ask through the local ref was answered by this incarnation)")
		}
		// --- Ping / Pong ---
		ping := func(n *Node, nm string, ref vivid.ActorRef) string {
			ag, err := spawnRspAgent(n, fmt.Sprintf("%s-%s-%d", name, nm, k), &agentLog{})
			mustNot(err)
			out := make(chan string, 1)
			n.Sys.Tell(ag, &rspPing{ref, out, wait(askWait)})
			select {
			case r := <-out:
				return r
			case <-time.After(wait(askWait) + 5*time.Second):
				return "did not return"
			}
		}
		if r := ping(B, "pingB", tref); r != "" {
			h.o.Monitor("c15-local-control", desc, what+": Ping through the LOCAL ref: "+r)
		} else {
			for _, n := range []*Node{A, C} {
				if r := ping(n, "ping"+n.Name, remote); r != "" {
					fire("ping", fmt.Sprintf("Ping from %s through the remote ref: %s (the local Ping got its Pong)", n.Name, r))
				}
			}
		}
		// --- PipeTo: forwarders = the (re-created) actor on C and a local one on A; success, then failure ---
		piper, err := spawnRspAgent(A, fmt.Sprintf("%s-piper-%d", name, k), &agentLog{})
		mustNot(err)
		for _, fail := range []bool{false, true} {
			l0, f0 := lf.nPipes(), rf.nPipes()
			m := newMsg(KAsk, rspRemote, "pipe")
			timeout := wait(askWait)
			if fail {
				m.Data = []byte("pipe-noreply") // the target does not answer this one: the Ask times out
				timeout = 150 * time.Millisecond
			}
			idc := make(chan string, 1)
			A.Sys.Tell(piper, &doPipe{to: remote, msg: m, forwarders: vivid.ActorRefs{remoteFwd, fwdA}, timeout: timeout, id: idc})
			var id string
			select {
			case id = <-idc:
			case <-time.After(opWait):
				fire("pipe", "PipeTo did not return")
				continue
			}
			waitUntil(timeout+wait(opWait), func() bool { return lf.nPipes() > l0 })
			waitUntil(wait(opWait), func() bool { return rf.nPipes() > f0 })
			time.Sleep(5 * time.Millisecond)
			check := func(al *agentLog, from int) string {
				al.mu.Lock()
				defer al.mu.Unlock()
				got := al.pipes[from:]
				if len(got) != 1 {
					return fmt.Sprintf("received %d PipeResults (want 1)", len(got))
				}
				p := got[0]
				if p.Id != id {
					return fmt.Sprintf("PipeResult.Id %q, PipeTo returned %q", p.Id, id)
				}
				if fail {
					if p.Error == nil {
						return fmt.Sprintf("failure result without Error (Message %T)", p.Message)
					}
					return ""
				}
				x, ok := p.Message.(*XMsg)
				if p.Error != nil || !ok || x.Kind != KReply || x.Seq != m.Seq || len(x.Data) < 1 || uint64(x.Data[0]) != inc {
					return fmt.Sprintf("success result carries Message %T %+v Error %v", p.Message, p.Message, p.Error)
				}
				return ""
			}
			le, re := check(lf, l0), check(rf, f0)
			kind := "success"
			if fail {
				kind = "failure"
			}
			if le != "" {
				// the target did not answer the piped Ask (remote target) or the local forwarder is broken
				fire("pipe-target", fmt.Sprintf("PipeTo %s case: the LOCAL forwarder %s", kind, le))
			} else if re != "" {
				fire("pipe-forwarder", fmt.Sprintf("PipeTo %s case: the forwarder %s%s on C (incarnation %d under that name) %s; the local forwarder on A received its PipeResult", kind, C.Adv, fwdC.GetPath(), k, re))
			}
			h.o.Stats["respawn-pipes"]++
		}
		// --- Watch (A, C remote; B local), then remote Kill from A ---
		type w struct {
			node *Node
			log  *agentLog
			ref  vivid.ActorRef
			tgt  vivid.ActorRef
		}
		ws := []*w{{node: A, tgt: remote}, {node: C, tgt: remote}, {node: B, tgt: tref}}
		for _, x := range ws {
			x.log = &agentLog{}
			x.ref, err = spawnRspAgent(x.node, fmt.Sprintf("%s-watcher-%d", name, k), x.log)
			mustNot(err)
			done := make(chan struct{})
			x.node.Sys.Tell(x.ref, &rspWatch{x.tgt, done})
			select {
			case <-done:
			case <-time.After(opWait):
			}
		}
		// an Ask answers only after the Watch sent before it on the same connection was handled
		ask(B, tref, rspLocal)
		if !failedAny {
			ask(A, remote, rspRemote)
			ask(C, remote, rspOther)
		}
		killer, err := spawnRspAgent(A, fmt.Sprintf("%s-killer-%d", name, k), &agentLog{})
		mustNot(err)
		poison := (i+k)%2 == 1
		reason := fmt.Sprintf("respawn-%d-%d", i, k)
		A.Sys.Tell(killer, &doKill{remote, poison, reason})
		killWait := wait(opWait)
		terminated := gone(B, tref, killWait)
		if !terminated {
			fire("kill", fmt.Sprintf("remote Kill(poison=%v) from %s%s did not terminate the actor within %v", poison, A.Adv, killer.GetPath(), killWait))
			// clean up through the local ref so that the name can be used again
			B.Sys.Kill(tref, false, "harness cleanup")
			if !gone(B, tref, opWait) {
				h.o.Monitor("harness-respawn", desc, "the actor did not terminate after a local Kill either")
				h.abort = true
				return
			}
		} else {
			waitUntil(opWait, func() bool {
				for _, x := range ws {
					if x.log.nKilled() < 1 {
						return false
					}
				}
				return true
			})
			time.Sleep(10 * time.Millisecond)
			tl.mu.Lock()
			kills := append([]string(nil), tl.kills[inc]...)
			tl.mu.Unlock()
			wantKill := fmt.Sprintf("%s|%s|%v", A.Adv+killer.GetPath(), reason, poison)
			if len(kills) != 1 || kills[0] != wantKill {
				fire("kill", fmt.Sprintf("the target saw OnKill %v (want exactly [%s])", kills, wantKill))
			}
			want := refStr(remote)
			for _, x := range ws {
				got := x.log.killedCopy()
				if len(got) != 1 || got[0] != want {
					if x.node == B {
						h.o.Monitor("c15-local-control", desc, what+fmt.Sprintf(": the LOCAL watcher received OnKilled for %v (want exactly one naming %s)", got, want))
						continue
					}
					fire("watch", fmt.Sprintf("watcher %s%s received OnKilled for %v (want exactly one naming %s)", x.node.Adv, x.ref.GetPath(), got, want))
				}
			}
		}
		r1 := quiet(conn)
		steps = append(steps, lib.L(lib.N(3), chunksBetween(conn, r0, r1)), lib.L(lib.N(1), lib.S(path)))
		// --- nobody lives at P now: a Tell through the remote ref is a dead letter on B ---
		post := newMsg(KTell, rspRemote, "after-kill")
		A.Sys.Tell(remote, post)
		waitUntil(opWait, func() bool {
			B.Ev.mu.Lock()
			defer B.Ev.mu.Unlock()
			for _, x := range B.Ev.Dead[dead0:] {
				if x.Sender == rspRemote && x.Seq == post.Seq {
					return true
				}
			}
			return false
		})
		if tl.count(inc, rspRemote) > 0 {
			tl.mu.Lock()
			for _, g := range tl.got {
				if g.G.Seq == post.Seq {
					h.o.Monitor("c15-killed-still-receives", desc, what+": a Tell after the kill still reached the terminated actor's behaviour")
				}
			}
			tl.mu.Unlock()
		}
		r2 := quiet(conn)
		steps = append(steps, lib.L(lib.N(3), chunksBetween(conn, r1, r2)))
		cursor = r2
		// the forwarder on C is re-created for the next incarnation as well
		C.Sys.Kill(fwdC, false, "respawn round")
		if !gone(C, fwdC, opWait) {
			h.o.Monitor("harness-respawn", desc, "the forwarder on C did not terminate")
			h.abort = true
			return
		}
		h.o.Stats["respawn-incarnations"]++
	}
	// the model case: who received A's messages at P, which were dead-lettered on B
	time.Sleep(10 * time.Millisecond)
	B.Barrier()
	var dl, dd []lib.T
	tl.mu.Lock()
	for _, g := range tl.got {
		if g.G.Sender == rspRemote {
			dl = append(dl, lib.L(lib.N(g.Inc), lib.N(0), tGot(g.G)))
		}
	}
	tl.mu.Unlock()
	B.Ev.mu.Lock()
	for _, x := range B.Ev.Dead[dead0:] {
		if x.Sender == rspRemote && x.Kind != KReply {
			dd = append(dd, tGot(Got{Kind: x.Kind, Sender: x.Sender, Seq: x.Seq, Len: len(x.Data), Sum: cksum(x.Data)}))
		}
	}
	B.Ev.mu.Unlock()
	if connFrom(A, B) == conn && B.Proxy.NConns() == nconn0 {
		h.o.Case("respawn:"+modeNames[mode], true, lib.L(lib.N(3), lib.LS([]lib.T{lib.S(path)}), lib.LS(steps)), lib.LS([]lib.T{lib.L(lib.LS(dl), lib.LS(dd))}))
	} else {
		h.o.Stats["respawn-case-skipped-new-connection"]++
	}
	h.o.Stats["respawn-rounds"]++
	if failedAny {
		h.abort = true // the monitors have fired; further rounds would only wait again
	}
}
