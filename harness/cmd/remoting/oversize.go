// oversize.go: C14 - "an undecodable / invalid-length frame does not stop later frames from being delivered; never
// corrupt", for a frame whose length prefix exceeds 4 MiB, under every way TCP may hand the bytes to the reader.
//
// A raw TCP peer (handshake, then frames written by hand) sends  [a][len = 4 MiB + 1, body of zeros][b][c]  to a real
// system, once per split variant: everything in ONE write (the oversize prefix arrives coalesced with its body and
// with the following frames, part of it already sits in the connection's bufio buffer when the prefix is parsed), the
// prefix alone, the prefix with a part of the body, the body's end coalesced with b, ... The receiving actor must see
// a, b, c exactly once, in order, intact. Monitor: c14-oversize-frame-desyncs-stream. Implementation monitor only.
package main

import (
	"fmt"
	"net"
	"time"

	"github.com/kercylan98/vivid/xverif/lib"
)

func (h *H) oversizeFrames() {
	B, err := StartDirectNode("OV", 0)
	if err != nil {
		h.o.Stats["oversize-frames-skipped"]++
		return
	}
	defer B.Stop()
	const snd = 97
	const big = 4<<20 + 1
	frameOf := func(seq uint64, n int) []byte {
		data := make([]byte, n)
		for i := range data {
			data[i] = byte(seq) + byte(i)
		}
		return lp(envBytes(encPayload(&XMsg{Kind: KTell, Sender: snd, Seq: seq, Data: data}), "", false, "127.0.0.1:9", "/raw", B.Adv, "/recv"))
	}
	type variant struct {
		name string
		cuts func(la, lb, lc int) []int // offsets (in the whole stream) after which the peer pauses; nil = one write
	}
	vs := []variant{
		{"one-write", func(la, lb, lc int) []int { return nil }},
		{"prefix-alone", func(la, lb, lc int) []int { return []int{la + 4} }},
		{"a-then-rest-in-one-write", func(la, lb, lc int) []int { return []int{la} }},
		{"prefix+100-bytes-of-body", func(la, lb, lc int) []int { return []int{la + 4 + 100} }},
		{"prefix+5000-bytes-of-body", func(la, lb, lc int) []int { return []int{la + 4 + 5000} }},
		{"body-end-coalesced-with-b-c", func(la, lb, lc int) []int { return []int{la + 4, la + 4 + big - 7} }},
		{"oversize-frame-whole-then-b-c", func(la, lb, lc int) []int { return []int{la + 4 + big} }},
		{"two-bytes-of-prefix", func(la, lb, lc int) []int { return []int{la + 2} }},
	}
	if h.tier == "thorough" {
		for i := 0; i < 12; i++ {
			k := h.r.Intn(big + 200)
			vs = append(vs, variant{fmt.Sprintf("random-cut@a+%d", k), func(la, lb, lc int) []int { return []int{la + k} }})
		}
	}
	for vi, v := range vs {
		base := uint64(1000 * (vi + 1))
		fa, fb, fc := frameOf(base, 3), frameOf(base+1, 40), frameOf(base+2, 0)
		stream := append([]byte(nil), fa...)
		stream = append(stream, be32(big)...)
		stream = append(stream, make([]byte, big)...)
		stream = append(stream, fb...)
		stream = append(stream, fc...)
		conn, err := net.DialTimeout("tcp", B.Bind, 3*time.Second)
		if err != nil {
			h.o.Stats["oversize-frames-dial-failed"]++
			continue
		}
		if tc, ok := conn.(*net.TCPConn); ok {
			tc.SetNoDelay(true)
		}
		conn.SetDeadline(time.Now().Add(30 * time.Second))
		if _, err := conn.Write(lp([]byte(B.Adv))); err != nil {
			conn.Close()
			continue
		}
		if _, err := readHandshake(conn); err != nil {
			conn.Close()
			h.o.Stats["oversize-frames-handshake-failed"]++
			continue
		}
		m0 := B.Rec.Len()
		pos := 0
		werr := error(nil)
		for _, c := range append(v.cuts(len(fa), len(fb), len(fc)), len(stream)) {
			if c > len(stream) {
				c = len(stream)
			}
			if c <= pos {
				continue
			}
			if _, werr = conn.Write(stream[pos:c]); werr != nil {
				break
			}
			pos = c
			if pos < len(stream) {
				time.Sleep(15 * time.Millisecond) // the reader gets what was written so far on its own
			}
		}
		want := []uint64{base, base + 1, base + 2}
		got := func() (seqs []uint64, bad string) {
			for _, g := range B.Rec.Snapshot(m0) {
				if g.Sender != snd {
					bad = fmt.Sprintf("a message nobody sent (sender %d seq %d, %d data bytes)", g.Sender, g.Seq, g.Len)
					continue
				}
				seqs = append(seqs, g.Seq)
				n := map[uint64]int{base: 3, base + 1: 40, base + 2: 0}[g.Seq]
				data := make([]byte, n)
				for i := range data {
					data[i] = byte(g.Seq) + byte(i)
				}
				if g.Len != n || g.Sum != cksum(data) {
					bad = fmt.Sprintf("seq %d arrived with %d data bytes, checksum %d", g.Seq, g.Len, g.Sum)
				}
			}
			return
		}
		if werr == nil {
			waitUntil(8*time.Second, func() bool { s, _ := got(); return len(s) >= 3 })
			time.Sleep(5 * time.Millisecond)
		}
		seqs, bad := got()
		h.o.Stats["oversize-frame-variants"]++
		if werr != nil || fmt.Sprint(seqs) != fmt.Sprint(want) || bad != "" {
			h.o.Monitor("c14-oversize-frame-desyncs-stream", lib.L(lib.S("oversize"), lib.S(v.name), lib.NI(big)),
				fmt.Sprintf("raw peer wrote [a][length prefix %d + %d zero bytes][b][c] to %s, split variant %q (pauses after stream offsets %v of %d; a = %d, b = %d, c = %d bytes): the actor received seq %v, want %v%s%s; a frame with an invalid length must be skipped exactly and must not stop or corrupt the frames behind it",
					big, big, B.Bind, v.name, v.cuts(len(fa), len(fb), len(fc)), len(stream), len(fa), len(fb), len(fc), seqs, want,
					map[bool]string{true: "; " + bad, false: ""}[bad != ""], map[bool]string{true: fmt.Sprintf("; write error %v", werr), false: ""}[werr != nil]))
		}
		conn.Write([]byte{0, 0, 0, 0}) // close handshake
		conn.Close()
	}
}
