// proxy.go: the harness TCP proxy between two real vivid systems.  It is protocol aware only as far
// as the framing goes (handshake = 4-byte length + address, then frames = 4-byte big-endian length +
// body): it re-chunks the client->server byte stream deterministically, records exactly the bytes it
// handed to the server, can cut the connection after byte offset k, refuse connections, hold back a
// connection's bytes (late delivery) and inject bytes at a frame boundary.
package main

import (
	"encoding/binary"
	"io"
	"net"
	"sync"
	"time"

	"github.com/kercylan98/vivid/xverif/lib"
)

const (
	ModePass     = iota // forward whatever arrived
	ModeOne             // 1-byte writes
	ModeRand            // seeded random chunk sizes 1..RandMax
	ModeStraddle        // every write ends two bytes inside the next length prefix
	ModeCoalesce        // gather until the sender pauses, then one write
	Mode64K             // 64 KiB chunks
	ModeHdrSplit        // header bytes one by one, body in one piece
	nModes
)

var modeNames = []string{"pass", "one-byte", "random", "straddle", "coalesce", "64k", "hdr-split"}

// Plan says what the proxy does with one accepted connection.
type Plan struct {
	Reject   bool  // accept, then reset at once (the dial succeeds, the handshake fails)
	HsSplit  int   // > 0: deliver the first HsSplit bytes of the client's handshake, pause, then the rest
	HsSplitR int   // the same for the server's handshake reply
	HsCut    int   // >= 0: cut the connection after that many bytes of the client's handshake
	Mode     int   // chunking of the frame stream
	RandMax  int   // ModeRand: maximal chunk
	Pace     time.Duration // pause between two writes (makes the split visible to the reader)
	CutAfter int64 // >= 0: cut after exactly that many bytes of the frame stream were handed to the server
	Hold     bool  // keep the frame stream back until Release() (late delivery of an old connection)
	Inject   map[int][]byte // before frame number i (at its boundary) hand these bytes to the server
	Seed     uint64
}

func defaultPlan() Plan { return Plan{HsCut: -1, CutAfter: -1, Mode: ModePass} }

type PConn struct {
	Idx      int
	Plan     Plan
	client   net.Conn
	server   net.Conn
	mu       sync.Mutex
	Rec      []byte // frame-stream bytes handed to the server (injected bytes included), in order
	Chunks   []int  // sizes of the writes that carried them
	Hs       []byte // the client's handshake as received
	HsChunks [][]byte // ... as handed to the server
	Injected int      // bytes of Rec that the proxy injected itself
	FromCli  int64  // frame-stream bytes received from the client
	cutDone  bool
	cutAt    int64 // absolute frame-stream offset after which the connection is cut (-1 = never)
	pos      int64 // frame-stream bytes of the client handed to the server so far (injected bytes not counted)
	halfCut  bool  // cut towards the client only: what was received keeps flowing to the server
	closed   bool
	release  chan struct{}
	rstServer bool         // Kill resets the server leg (Proxy.rstServer at accept time)
	Done     chan struct{} // closed when the client->server direction ended
	LocalAddr string       // proxy-side local address of the server leg (= RemoteAddr seen by the server)
}

type Proxy struct {
	ln      net.Listener
	target  string
	mu      sync.Mutex
	conns   []*PConn
	planFn  func(i int) Plan
	refuse  bool
	closed  bool
	wg      sync.WaitGroup
	// rstServer: Kill resets the server leg too (default: FIN).  A system whose peer goes away with FIN and without the
	// zero-length close frame keeps the connection's reader actor /@remoting/accept-<peer ip:port> registered for ever
	// (tcp_connection.go onReadConn returns on io.EOF); when the kernel hands the same ephemeral port to a later
	// proxy->system connection, ServerActor.onConnection's ActorOf fails ("actor already exists"), nobody reads that
	// connection and everything sent over it is lost (finding, see notes/repro_accept_name_collision).  The C15
	// scenarios are about operations over a healthy link: their proxies reset, so no such reader actor is left behind.
	rstServer bool
}

// SetResetServer: see Proxy.rstServer
func (p *Proxy) SetResetServer(on bool) {
	p.mu.Lock()
	p.rstServer = on
	p.mu.Unlock()
}

func NewProxy(target string) (*Proxy, error) {
	ln, err := net.Listen("tcp", "127.0.0.1:0")
	if err != nil {
		return nil, err
	}
	p := &Proxy{ln: ln, target: target, planFn: func(int) Plan { return defaultPlan() }}
	go p.acceptLoop(ln)
	return p, nil
}

func (p *Proxy) Addr() string { return p.ln.Addr().String() }

// SetPlan installs the plan provider for connections accepted from now on (i = global accept index).
func (p *Proxy) SetPlan(f func(i int) Plan) {
	p.mu.Lock()
	p.planFn = f
	p.mu.Unlock()
}

func (p *Proxy) NConns() int {
	p.mu.Lock()
	defer p.mu.Unlock()
	return len(p.conns)
}

func (p *Proxy) Conns(from int) []*PConn {
	p.mu.Lock()
	defer p.mu.Unlock()
	return append([]*PConn(nil), p.conns[from:]...)
}

// Refuse(true) closes the listener: dials are refused by the kernel.  Refuse(false) listens again on the same port.
func (p *Proxy) Refuse(on bool) error {
	p.mu.Lock()
	defer p.mu.Unlock()
	if on == p.refuse {
		return nil
	}
	p.refuse = on
	if on {
		return p.ln.Close()
	}
	addr := p.ln.Addr().String()
	var err error
	for i := 0; i < 200; i++ {
		var ln net.Listener
		ln, err = net.Listen("tcp", addr)
		if err == nil {
			p.ln = ln
			go p.acceptLoop(ln)
			return nil
		}
		time.Sleep(5 * time.Millisecond)
	}
	return err
}

func (p *Proxy) SetTarget(t string) {
	p.mu.Lock()
	p.target = t
	p.mu.Unlock()
}

func (p *Proxy) Close() {
	p.mu.Lock()
	p.closed = true
	if !p.refuse {
		p.ln.Close()
	}
	cs := append([]*PConn(nil), p.conns...)
	p.mu.Unlock()
	for _, c := range cs {
		c.Kill(true)
	}
}

// KillAll cuts every live connection (reset towards the client).
func (p *Proxy) KillAll() {
	for _, c := range p.Conns(0) {
		c.Kill(true)
	}
}

func (p *Proxy) acceptLoop(ln net.Listener) {
	for {
		c, err := ln.Accept()
		if err != nil {
			return
		}
		p.mu.Lock()
		if p.closed {
			p.mu.Unlock()
			c.Close()
			return
		}
		idx := len(p.conns)
		pc := &PConn{Idx: idx, Plan: p.planFn(idx), client: c, release: make(chan struct{}), Done: make(chan struct{}), rstServer: p.rstServer}
		pc.cutAt = pc.Plan.CutAfter
		p.conns = append(p.conns, pc)
		target := p.target
		p.mu.Unlock()
		go pc.run(target)
	}
}

func rst(c net.Conn) {
	if tc, ok := c.(*net.TCPConn); ok {
		tc.SetLinger(0)
	}
	c.Close()
}

// Kill closes both legs; reset=true sends RST to the client so that its next write fails.
func (c *PConn) Kill(reset bool) {
	c.mu.Lock()
	if c.closed {
		c.mu.Unlock()
		return
	}
	c.closed = true
	c.mu.Unlock()
	if reset {
		rst(c.client)
	} else {
		c.client.Close()
	}
	if c.server != nil {
		if c.rstServer {
			rst(c.server)
		} else {
			c.server.Close()
		}
	}
}

// ArmCut: cut the connection once `more` further bytes of the frame stream were handed to the server.
func (c *PConn) ArmCut(more int64) {
	c.mu.Lock()
	c.cutAt = c.pos + more
	c.mu.Unlock()
}

func (c *PConn) Pos() int64 {
	c.mu.Lock()
	defer c.mu.Unlock()
	return c.pos
}

// ResetClient resets the client leg only: the client's next write fails, while everything the proxy already
// received from it is still handed to the server (data in flight when the sender's side of the path broke).
func (c *PConn) ResetClient() {
	c.mu.Lock()
	c.halfCut = true
	c.mu.Unlock()
	rst(c.client)
}

func (c *PConn) Alive() bool {
	c.mu.Lock()
	defer c.mu.Unlock()
	return !c.closed && !c.cutDone && !c.halfCut
}

func (c *PConn) Release() {
	c.mu.Lock()
	select {
	case <-c.release:
	default:
		close(c.release)
	}
	c.mu.Unlock()
}

func (c *PConn) Record() ([]byte, []int) {
	c.mu.Lock()
	defer c.mu.Unlock()
	return append([]byte(nil), c.Rec...), append([]int(nil), c.Chunks...)
}

func (c *PConn) Received() int64 {
	c.mu.Lock()
	defer c.mu.Unlock()
	return c.FromCli
}

func (c *PConn) WasCut() bool {
	c.mu.Lock()
	defer c.mu.Unlock()
	return c.cutDone
}

func readHandshake(r io.Reader) ([]byte, error) {
	h := make([]byte, 4)
	if _, err := io.ReadFull(r, h); err != nil {
		return nil, err
	}
	n := binary.BigEndian.Uint32(h)
	if n > 4092 {
		return nil, io.ErrUnexpectedEOF
	}
	b := make([]byte, 4+n)
	copy(b, h)
	if _, err := io.ReadFull(r, b[4:]); err != nil {
		return nil, err
	}
	return b, nil
}

func writeSplit(w net.Conn, b []byte, split int) error {
	if split > 0 && split < len(b) {
		if _, err := w.Write(b[:split]); err != nil {
			return err
		}
		time.Sleep(30 * time.Millisecond)
		_, err := w.Write(b[split:])
		return err
	}
	_, err := w.Write(b)
	return err
}

func (c *PConn) run(target string) {
	defer close(c.Done)
	if tc, ok := c.client.(*net.TCPConn); ok {
		tc.SetNoDelay(true)
	}
	if c.Plan.Reject {
		rst(c.client)
		c.mu.Lock()
		c.closed = true
		c.mu.Unlock()
		return
	}
	s, err := net.DialTimeout("tcp", target, 5*time.Second)
	if err != nil {
		rst(c.client)
		c.mu.Lock()
		c.closed = true
		c.mu.Unlock()
		return
	}
	if tc, ok := s.(*net.TCPConn); ok {
		tc.SetNoDelay(true)
	}
	c.mu.Lock()
	c.server = s
	c.LocalAddr = s.LocalAddr().String()
	dead := c.closed
	c.mu.Unlock()
	if dead {
		s.Close()
		return
	}
	// client's handshake
	hs, err := readHandshake(c.client)
	if err != nil {
		c.Kill(true)
		return
	}
	c.mu.Lock()
	c.Hs = hs
	c.mu.Unlock()
	if c.Plan.HsCut >= 0 && c.Plan.HsCut < len(hs) {
		s.Write(hs[:c.Plan.HsCut])
		c.mu.Lock()
		c.cutDone = true
		c.mu.Unlock()
		c.Kill(true)
		return
	}
	if err := writeSplit(s, hs, c.Plan.HsSplit); err != nil {
		c.Kill(true)
		return
	}
	c.mu.Lock()
	if c.Plan.HsSplit > 0 && c.Plan.HsSplit < len(hs) {
		c.HsChunks = [][]byte{hs[:c.Plan.HsSplit], hs[c.Plan.HsSplit:]}
	} else {
		c.HsChunks = [][]byte{hs}
	}
	c.mu.Unlock()
	// server -> client: handshake reply (possibly split), then verbatim
	go func() {
		rh, err := readHandshake(s)
		if err != nil {
			c.Kill(true)
			return
		}
		if err := writeSplit(c.client, rh, c.Plan.HsSplitR); err != nil {
			c.Kill(true)
			return
		}
		io.Copy(c.client, s)
		// the server closed its side (or its leg broke): the client's leg goes too
		c.mu.Lock()
		half := c.halfCut
		c.mu.Unlock()
		if !half {
			c.Kill(true)
		}
	}()
	c.pump()
}

// framer tracks frame boundaries of the (well-formed) client stream
type framer struct {
	need  int64 // bytes until the next frame start (0 = at a boundary, header not yet seen)
	hdr   []byte
	count int   // frames started so far
}

// boundaryWithin returns the distance from the current position to the next frame start inside b, or -1.
func (f *framer) feed(b []byte, onStart func(off int)) {
	off := 0
	for off < len(b) {
		if f.need > 0 {
			k := int64(len(b) - off)
			if k > f.need {
				k = f.need
			}
			f.need -= k
			off += int(k)
			continue
		}
		if len(f.hdr) == 0 && onStart != nil {
			onStart(off)
		}
		f.hdr = append(f.hdr, b[off])
		off++
		if len(f.hdr) == 4 {
			n := binary.BigEndian.Uint32(f.hdr)
			f.hdr = f.hdr[:0]
			f.need = int64(n)
			f.count++
		}
	}
}

func (c *PConn) pump() {
	in := make(chan []byte, 1<<14)
	go func() {
		defer close(in)
		for {
			buf := make([]byte, 256<<10)
			n, err := c.client.Read(buf)
			if n > 0 {
				c.mu.Lock()
				c.FromCli += int64(n)
				c.mu.Unlock()
				in <- buf[:n]
			}
			if err != nil {
				return
			}
		}
	}()
	if c.Plan.Hold {
		<-c.release
	}
	r := lib.NewRand(c.Plan.Seed + uint64(c.Idx)*7919)
	var pend []byte
	var pos int64
	fr := &framer{}       // tracks the bytes already handed on
	var starts []int64    // absolute offsets of frame starts seen in pend (ahead of pos)
	ahead := &framer{}    // tracks the bytes received
	var aheadPos int64
	eof := false
	idle := 2 * time.Millisecond
	track := true
	emit := func(b []byte) bool {
		if len(b) == 0 {
			return true
		}
		if track {
			fr.feed(b, nil)
		}
		// record first: the server may react to the bytes before this goroutine runs again
		c.mu.Lock()
		c.Rec = append(c.Rec, b...)
		c.Chunks = append(c.Chunks, len(b))
		c.mu.Unlock()
		if _, err := c.server.Write(b); err != nil {
			c.mu.Lock()
			c.Rec = c.Rec[:len(c.Rec)-len(b)]
			c.Chunks = c.Chunks[:len(c.Chunks)-1]
			c.mu.Unlock()
			return false
		}
		if c.Plan.Pace > 0 {
			time.Sleep(c.Plan.Pace)
		}
		return true
	}
	nextFrameNo := 0
	serverFailed := false
	for {
		// gather
		if len(pend) == 0 && !eof {
			b, ok := <-in
			if !ok {
				eof = true
			} else {
				ahead.feed(b, func(off int) { starts = append(starts, aheadPos+int64(off)) })
				aheadPos += int64(len(b))
				pend = append(pend, b...)
			}
		}
		// modes that wait for more data (only while what they want is not there yet)
		if !eof && (c.Plan.Mode == ModeCoalesce || c.Plan.Mode == Mode64K || c.Plan.Mode == ModeStraddle) {
			for {
				if c.Plan.Mode == Mode64K && len(pend) >= 65536 {
					break
				}
				if c.Plan.Mode == ModeStraddle {
					have := false
					for _, s := range starts {
						if s > pos && s+2 <= pos+int64(len(pend)) {
							have = true
							break
						}
					}
					if have {
						break
					}
				}
				t := time.NewTimer(idle)
				select {
				case b, ok := <-in:
					t.Stop()
					if !ok {
						eof = true
					} else {
						ahead.feed(b, func(off int) { starts = append(starts, aheadPos+int64(off)) })
						aheadPos += int64(len(b))
						pend = append(pend, b...)
						continue
					}
				case <-t.C:
				}
				break
			}
		}
		if len(pend) == 0 && eof {
			break
		}
		// frame starts already passed
		for len(starts) > 0 && starts[0] < pos {
			starts = starts[1:]
			nextFrameNo++
		}
		// injection: pos is at a frame start
		if len(starts) > 0 && starts[0] == pos {
			if inj, ok := c.Plan.Inject[nextFrameNo]; ok {
				track = false
				ok := emit(inj)
				track = true
				c.mu.Lock()
				c.Injected += len(inj)
				c.mu.Unlock()
				if !ok {
					serverFailed = true
					break
				}
			}
			nextFrameNo++
			starts = starts[1:]
		}
		n := len(pend)
		switch c.Plan.Mode {
		case ModeOne:
			n = 1
		case ModeRand:
			mx := c.Plan.RandMax
			if mx <= 0 {
				mx = 64
			}
			n = 1 + r.Intn(mx)
		case Mode64K:
			if n > 65536 {
				n = 65536
			}
		case ModeStraddle:
			// up to two bytes past the next frame start that lies strictly ahead
			for _, s := range starts {
				if s > pos {
					n = int(s + 2 - pos)
					break
				}
			}
		case ModeHdrSplit:
			// inside a header: one byte; inside a body: up to the next frame start
			if fr.need == 0 {
				n = 1
			} else if int64(n) > fr.need {
				n = int(fr.need)
			}
		}
		// never step over a frame start where something must be injected
		if len(c.Plan.Inject) > 0 {
			for _, s := range starts {
				if s > pos && int64(n) > s-pos {
					n = int(s - pos)
					break
				}
			}
		}
		if n > len(pend) {
			n = len(pend)
		}
		c.mu.Lock()
		cutAt := c.cutAt
		c.mu.Unlock()
		if cutAt >= 0 && pos+int64(n) > cutAt {
			n = int(cutAt - pos)
			if n < 0 {
				n = 0
			}
		}
		if n > 0 {
			if !emit(pend[:n]) {
				serverFailed = true
				break
			}
			pos += int64(n)
			c.mu.Lock()
			c.pos = pos
			c.mu.Unlock()
			pend = pend[n:]
		}
		if cutAt >= 0 && pos >= cutAt {
			c.mu.Lock()
			c.cutDone = true
			c.mu.Unlock()
			// the server reads everything that was handed on, then EOF; the client gets a reset
			c.mu.Lock()
			c.closed = true
			c.mu.Unlock()
			rst(c.client)
			if tc, ok := c.server.(*net.TCPConn); ok {
				tc.CloseWrite()
			}
			time.AfterFunc(2*time.Second, func() { c.server.Close() })
			return
		}
	}
	// the client closed (or the server leg failed): pass the end of stream on
	if serverFailed {
		c.Kill(true)
		return
	}
	c.mu.Lock()
	already := c.closed
	c.mu.Unlock()
	if !already {
		if tc, ok := c.server.(*net.TCPConn); ok {
			tc.CloseWrite()
		}
	}
}
