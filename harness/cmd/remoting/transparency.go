// transparency.go: C15 — remote Kill / Watch / Unwatch / Ping / Ask / PipeTo between three real systems (each behind
// its own re-chunking proxy), boundary inputs beside a local control (boundary.go), name reuse (respawn.go), then the same
// operations through alias addresses of the target system (alias.go).
// Implementation monitors only.
package main

import (
	"fmt"
	"os"
	"strings"
	"sync"
	"time"

	"github.com/kercylan98/vivid"
	"github.com/kercylan98/vivid/internal/actor"
	"github.com/kercylan98/vivid/xverif/lib"
)

type tgtLog struct {
	mu     sync.Mutex
	kills  []string // "killer|reason|poison"
	killed int      // OnKilled seen by the target itself
	pings  int
}

// agentLog: what an agent actor (watcher / forwarder) received
type agentLog struct {
	mu     sync.Mutex
	killed []string            // refs named by the OnKilled messages received
	pipes  []*vivid.PipeResult // PipeResult messages received
}

func (l *agentLog) nKilled() int { l.mu.Lock(); defer l.mu.Unlock(); return len(l.killed) }
func (l *agentLog) nPipes() int  { l.mu.Lock(); defer l.mu.Unlock(); return len(l.pipes) }
func (l *agentLog) killedCopy() []string {
	l.mu.Lock()
	defer l.mu.Unlock()
	return append([]string(nil), l.killed...)
}

// done (optional) is closed once the agent has issued the call: the harness does not guess how long that takes
type doWatch struct {
	ref  vivid.ActorRef
	done chan struct{}
}
type doUnwatch struct {
	ref  vivid.ActorRef
	done chan struct{}
}

// generous bounds of the single-shot waits (they end as soon as the awaited thing happens; a loaded machine must not
// turn a slow round into a violation)
const (
	opWait   = 15 * time.Second // an effect of one remote operation
	askWait  = 15 * time.Second // timeout of an Ask / Ping that is expected to be answered
	callWait = 20 * time.Second // return of a call that has its own askWait inside
)

// watchAck / unwatchAck: returns when the agent has called ctx.Watch / ctx.Unwatch
func watchAck(n *Node, agent, tgt vivid.ActorRef) {
	done := make(chan struct{})
	n.Sys.Tell(agent, &doWatch{tgt, done})
	select {
	case <-done:
	case <-time.After(opWait):
	}
}

func unwatchAck(n *Node, agent, tgt vivid.ActorRef) {
	done := make(chan struct{})
	n.Sys.Tell(agent, &doUnwatch{tgt, done})
	select {
	case <-done:
	case <-time.After(opWait):
	}
}
type doKill struct {
	ref    vivid.ActorRef
	poison bool
	reason string
}
type doPing struct {
	ref vivid.ActorRef
	out chan string
}
type doPipe struct {
	to         vivid.ActorRef
	msg        *XMsg
	forwarders vivid.ActorRefs
	timeout    time.Duration
	id         chan string
}

func refStr(r vivid.ActorRef) string {
	if r == nil {
		return "<nil>"
	}
	return r.GetAddress() + r.GetPath()
}

func spawnAgent(n *Node, name string, al *agentLog) vivid.ActorRef {
	r, err := n.Sys.ActorOf(vivid.ActorFN(func(ctx vivid.ActorContext) {
		switch m := ctx.Message().(type) {
		case *doWatch:
			ctx.Watch(m.ref)
			if m.done != nil {
				close(m.done)
			}
		case *doUnwatch:
			ctx.Unwatch(m.ref)
			if m.done != nil {
				close(m.done)
			}
		case *doKill:
			ctx.Kill(m.ref, m.poison, m.reason)
		case *doPing:
			t0 := time.Now()
			p, err := ctx.Ping(m.ref, askWait)
			switch {
			case err != nil:
				m.out <- "error: " + err.Error()
			case p == nil:
				m.out <- "nil pong"
			case p.PingTime.Before(t0.Add(-time.Second)) || p.PingTime.After(time.Now().Add(time.Second)) || p.RespondTime.Before(p.PingTime.Add(-time.Second)) || p.RespondTime.After(time.Now().Add(time.Second)):
				m.out <- fmt.Sprintf("implausible times: ping %v respond %v (now %v)", p.PingTime, p.RespondTime, time.Now())
			default:
				m.out <- ""
			}
		case *doPipe:
			m.id <- ctx.PipeTo(m.to, m.msg, m.forwarders, m.timeout)
		case *vivid.OnKilled:
			if m.Ref != nil && !m.Ref.Equals(ctx.Ref()) {
				al.mu.Lock()
				al.killed = append(al.killed, refStr(m.Ref))
				al.mu.Unlock()
			}
		case *vivid.PipeResult:
			al.mu.Lock()
			al.pipes = append(al.pipes, m)
			al.mu.Unlock()
		}
	}), vivid.WithActorName(name))
	if err != nil {
		panic(err)
	}
	return r
}

// spawnTarget: an actor on n that records kills and answers Asks (except those with Seq = noReply)
const noReply = 0xdead

func spawnTarget(n *Node, name string, tl *tgtLog) vivid.ActorRef {
	r, err := n.Sys.ActorOf(vivid.ActorFN(func(ctx vivid.ActorContext) {
		switch m := ctx.Message().(type) {
		case *vivid.OnKill:
			tl.mu.Lock()
			tl.kills = append(tl.kills, fmt.Sprintf("%s|%s|%v", refStr(m.Killer), m.Reason, m.Poison))
			tl.mu.Unlock()
		case *vivid.OnKilled:
			tl.mu.Lock()
			tl.killed++
			tl.mu.Unlock()
		case *XMsg:
			tl.mu.Lock()
			tl.pings++
			tl.mu.Unlock()
			if m.Kind == KAsk && m.Seq != noReply {
				ctx.Reply(&XMsg{Kind: KReply, Seq: m.Seq, Data: m.Data})
			}
		}
	}), vivid.WithActorName(name))
	if err != nil {
		panic(err)
	}
	return r
}

// settle: an Ask from `from` to target answers only after the system messages `from` sent to it before (Watch,
// Unwatch: same connection, system queue first) were handled
func settle(from *Node, target vivid.ActorRef) error {
	_, err := from.Sys.Ask(target, &XMsg{Kind: KAsk, Seq: 1}, askWait).Result()
	return err
}

func (h *H) runTransparency() {
	nodes := map[string]*Node{}
	for _, nm := range []string{"A", "B", "C"} {
		n, err := StartNode(nm, 1, nil)
		if err != nil {
			panic(err)
		}
		nodes[nm] = n
		// the link is healthy in this mode: connections replaced by resync are reset in both directions (Proxy.rstServer)
		n.Proxy.SetResetServer(true)
		defer func() { n.Stop(); n.Proxy.Close() }()
	}
	A, B, C := nodes["A"], nodes["B"], nodes["C"]
	rounds := 12
	if h.tier == "thorough" {
		rounds = 120
	}
	modes := []int{ModePass, ModeOne, ModeStraddle, ModeRand}
	if os.Getenv("XV_ONLY") == "boundary" { // debugging aid: only the boundary scenarios
		h.boundaryRounds(A, B, C)
		h.o.Info["accept-name-collisions-logged"] = acceptNameCollisions(A, B, C)
		return
	}
	for i := 0; i < rounds && !h.abort; i++ {
		mode := modes[(i/4)%len(modes)]
		if i%4 == 0 {
			plan := func(int) Plan { p := defaultPlan(); p.Mode, p.RandMax, p.Seed = mode, 9, h.seed+uint64(i); return p }
			for _, pr := range [][2]*Node{{A, B}, {B, A}, {C, B}, {B, C}, {A, C}, {C, A}} {
				if !h.resync(pr[0], pr[1], plan) { // resync retries once by itself
					h.o.Monitor("c15-no-connection", nil, "no connection "+pr[0].Name+"->"+pr[1].Name)
					h.abort = true
					return
				}
			}
		}
		if h.slowRounds >= 4 {
			h.abort = true // the monitors have fired; further rounds would only wait again
			break
		}
		h.killWatchRound(A, B, C, i, mode)
		h.unwatchRound(A, B, C, i, mode)
		h.pingRound(A, B, C, i, mode)
		h.pipeRound(A, B, C, i, mode)
	}
	// boundary inputs (reason / payload / error-text lengths on the edges of the wire encodings), local ref beside remote ref: boundary.go
	if !h.abort {
		h.boundaryRounds(A, B, C)
	}
	// name reuse on the target system: respawn.go
	if !h.abort {
		h.respawnRounds(A, B, C)
	}
	// last (a forwarding loop, if there is one, keeps the target system busy until it is stopped): alias.go
	if !h.abort {
		h.aliasRounds(A, B, C)
	}
	h.o.Info["accept-name-collisions-logged"] = acceptNameCollisions(A, B, C)
}

// acceptNameCollisions: "actor already exists: /@remoting/accept-..." errors among the last warnings the systems logged
// (an accepted connection that nobody reads; expected 0 with resetting proxies)
func acceptNameCollisions(ns ...*Node) int {
	k := 0
	for _, n := range ns {
		n.Ev.mu.Lock()
		for _, l := range n.Ev.Logged {
			if strings.Contains(l, "actor already exists: /@remoting/accept-") {
				k++
			}
		}
		n.Ev.mu.Unlock()
	}
	return k
}

func remoteOf(n *Node, local vivid.ActorRef) vivid.ActorRef {
	r, err := actor.NewRef(n.Adv, local.GetPath())
	if err != nil {
		panic(err)
	}
	return r
}

// killWatchRound: T on B.  Watchers: /w1-i and /w2-i on A; THE SAME PATH /watcher-i on A, on C and on B itself.
// /w1-i on A kills T (poison on odd rounds).  Every watcher receives exactly one OnKilled naming T.
func (h *H) killWatchRound(A, B, C *Node, i, mode int) {
	tl := &tgtLog{}
	tref := spawnTarget(B, fmt.Sprintf("tgt%d", i), tl)
	remote := remoteOf(B, tref)
	type w struct {
		node *Node
		name string
		log  *agentLog
		ref  vivid.ActorRef
		tgt  vivid.ActorRef
	}
	same := fmt.Sprintf("watcher-%d", i)
	ws := []*w{
		{node: A, name: fmt.Sprintf("w1-%d", i), tgt: remote},
		{node: A, name: fmt.Sprintf("w2-%d", i), tgt: remote},
		{node: A, name: same, tgt: remote},
		{node: C, name: same, tgt: remote},
		{node: B, name: same, tgt: tref},
	}
	for _, x := range ws {
		x.log = &agentLog{}
		x.ref = spawnAgent(x.node, x.name, x.log)
		watchAck(x.node, x.ref, x.tgt)
	}
	desc := lib.L(lib.S("remote-kill-watch"), lib.NI(i), lib.S(modeNames[mode]))
	for _, x := range []struct {
		n *Node
		t vivid.ActorRef
	}{{A, remote}, {C, remote}, {B, tref}} {
		if err := settle(x.n, x.t); err != nil {
			h.o.Monitor("c15-remote-ask", desc, fmt.Sprintf("Ask from %s to the freshly spawned actor %s failed: %v", x.n.Name, refStr(x.t), err))
			h.slowRounds++
			return
		}
	}
	h.o.Stats["remote-asks"] += 2
	poison := i%2 == 1
	reason := fmt.Sprintf("why-%d", i)
	A.Sys.Tell(ws[0].ref, &doKill{remote, poison, reason})
	okAll := waitUntil(opWait, func() bool {
		for _, x := range ws {
			if x.log.nKilled() < 1 {
				return false
			}
		}
		return true
	})
	if !okAll {
		h.slowRounds++
	}
	time.Sleep(15 * time.Millisecond) // duplicates
	tl.mu.Lock()
	kills := append([]string(nil), tl.kills...)
	tl.mu.Unlock()
	wantKill := fmt.Sprintf("%s|%s|%v", A.Adv+ws[0].ref.GetPath(), reason, poison)
	if len(kills) != 1 || kills[0] != wantKill {
		h.o.Monitor("c15-remote-kill", desc, fmt.Sprintf("remote Kill(%s, poison=%v, %q) from %s: the target saw OnKill %v (want exactly [%s]); watchers notified: %v", refStr(remote), poison, reason, A.Adv+ws[0].ref.GetPath(), kills, wantKill, okAll))
	}
	want := refStr(remote)
	for _, x := range ws {
		got := x.log.killedCopy()
		if len(got) != 1 || got[0] != want {
			h.o.Monitor("c15-remote-watch", desc, fmt.Sprintf("watcher %s%s of %s received OnKilled for %v (want exactly one naming %s); watchers with the same path /%s live on A, C and B", x.node.Adv, x.ref.GetPath(), want, got, want, same))
		}
	}
	// the terminated actor is gone for remote senders too
	tl.mu.Lock()
	p0 := tl.pings
	tl.mu.Unlock()
	A.Sys.Tell(remote, &XMsg{Kind: KTell, Seq: 999})
	time.Sleep(3 * time.Millisecond)
	tl.mu.Lock()
	if tl.pings != p0 {
		h.o.Monitor("c15-killed-still-receives", desc, "a Tell after the remote kill still reached the terminated actor's behaviour")
	}
	tl.mu.Unlock()
	h.o.Stats["remote-kill-watch-rounds"]++
	h.o.Stats["watchers-checked"] += len(ws)
	if poison {
		h.o.Stats["poison-kills"]++
	}
}

// unwatchRound: same-path watchers on A, C and B watch T; ONE of them unwatches; T is killed: the one that unwatched
// hears nothing, each of the others exactly one OnKilled.
func (h *H) unwatchRound(A, B, C *Node, i, mode int) {
	tl := &tgtLog{}
	tref := spawnTarget(B, fmt.Sprintf("utgt%d", i), tl)
	remote := remoteOf(B, tref)
	same := fmt.Sprintf("uwatcher-%d", i)
	type w struct {
		node *Node
		log  *agentLog
		ref  vivid.ActorRef
		tgt  vivid.ActorRef
	}
	ws := []*w{{node: A, tgt: remote}, {node: C, tgt: remote}, {node: B, tgt: tref}}
	for _, x := range ws {
		x.log = &agentLog{}
		x.ref = spawnAgent(x.node, same, x.log)
		watchAck(x.node, x.ref, x.tgt)
	}
	desc := lib.L(lib.S("remote-unwatch"), lib.NI(i), lib.S(modeNames[mode]))
	for _, x := range ws {
		if err := settle(x.node, x.tgt); err != nil {
			h.o.Monitor("c15-remote-ask", desc, fmt.Sprintf("Ask from %s failed: %v", x.node.Name, err))
			h.slowRounds++
			return
		}
	}
	quitter := ws[i%3]
	unwatchAck(quitter.node, quitter.ref, quitter.tgt)
	if err := settle(quitter.node, quitter.tgt); err != nil {
		h.o.Monitor("c15-remote-ask", desc, fmt.Sprintf("Ask from %s failed: %v", quitter.node.Name, err))
		h.slowRounds++
		return
	}
	B.Sys.Tell(ws[2].ref, &doKill{tref, false, "unwatch-round"})
	if !waitUntil(opWait, func() bool {
		for _, x := range ws {
			if x != quitter && x.log.nKilled() < 1 {
				return false
			}
		}
		return true
	}) {
		h.slowRounds++
	}
	time.Sleep(20 * time.Millisecond)
	want := refStr(remote)
	for _, x := range ws {
		got := x.log.killedCopy()
		if x == quitter {
			if len(got) != 0 {
				h.o.Monitor("c15-remote-unwatch", desc, fmt.Sprintf("watcher %s%s unwatched %s and still received OnKilled %v", x.node.Adv, x.ref.GetPath(), want, got))
			}
			continue
		}
		if len(got) != 1 || got[0] != want {
			h.o.Monitor("c15-remote-unwatch", desc, fmt.Sprintf("watcher %s%s kept watching %s while %s%s (same path, other system) unwatched: it received OnKilled for %v (want exactly one)", x.node.Adv, x.ref.GetPath(), want, quitter.node.Adv, quitter.ref.GetPath(), got))
		}
	}
	h.o.Stats["remote-unwatch-rounds"]++
}

func (h *H) pingRound(A, B, C *Node, i, mode int) {
	tl := &tgtLog{}
	tref := spawnTarget(B, fmt.Sprintf("ptgt%d", i), tl)
	remote := remoteOf(B, tref)
	desc := lib.L(lib.S("remote-ping"), lib.NI(i), lib.S(modeNames[mode]))
	for _, n := range []*Node{A, C} {
		ag := spawnAgent(n, fmt.Sprintf("pinger-%d", i), &agentLog{})
		out := make(chan string, 1)
		n.Sys.Tell(ag, &doPing{remote, out})
		select {
		case r := <-out:
			if r != "" {
				h.o.Monitor("c15-remote-ping", desc, fmt.Sprintf("Ping from %s to %s: %s", n.Name, refStr(remote), r))
			}
		case <-time.After(callWait):
			h.o.Monitor("c15-remote-ping", desc, fmt.Sprintf("Ping from %s to %s did not return within %v", n.Name, refStr(remote), callWait))
			h.slowRounds++
		}
		h.o.Stats["remote-pings"]++
	}
}

// pipeRound: an actor on A pipes an Ask to T on B to two forwarders: one on C (remote to A) and one on A (local).
// Success: both receive PipeResult{Id, Message = T's reply}.  Failure (T does not answer, the Ask times out):
// both must receive PipeResult{Id, Error != nil}.
func (h *H) pipeRound(A, B, C *Node, i, mode int) {
	tl := &tgtLog{}
	tref := spawnTarget(B, fmt.Sprintf("pipetgt%d", i), tl)
	remote := remoteOf(B, tref)
	piper := spawnAgent(A, fmt.Sprintf("piper-%d", i), &agentLog{})
	lf, rf := &agentLog{}, &agentLog{}
	localFwd := spawnAgent(A, fmt.Sprintf("fwd-%d", i), lf)
	remoteFwdLocal := spawnAgent(C, fmt.Sprintf("fwd-%d", i), rf)
	remoteFwd := remoteOf(C, remoteFwdLocal)
	for _, fail := range []bool{false, true} {
		if fail && h.tier != "thorough" && i%4 != 0 {
			continue // the failure case waits for a result that (currently) never comes: three times per quick run is enough
		}
		desc := lib.L(lib.S("remote-pipe"), lib.NI(i), lib.Bool(fail), lib.S(modeNames[mode]))
		l0, r0 := lf.nPipes(), rf.nPipes()
		msg := &XMsg{Kind: KAsk, Seq: uint64(1000 + i), Data: []byte("pipe")}
		timeout := askWait
		if fail {
			msg.Seq = noReply
			timeout = 150 * time.Millisecond
		}
		idc := make(chan string, 1)
		A.Sys.Tell(piper, &doPipe{to: remote, msg: msg, forwarders: vivid.ActorRefs{remoteFwd, localFwd}, timeout: timeout, id: idc})
		var id string
		select {
		case id = <-idc:
		case <-time.After(opWait):
			h.o.Monitor("c15-remote-pipe", desc, "PipeTo did not return")
			return
		}
		// the local forwarder has its result after at most the Ask timeout (150 ms); the remote one a round trip later
		waitUntil(opWait, func() bool { return lf.nPipes() > l0 && rf.nPipes() > r0 })
		time.Sleep(10 * time.Millisecond)
		check := func(where string, al *agentLog, from int) string {
			al.mu.Lock()
			defer al.mu.Unlock()
			got := al.pipes[from:]
			if len(got) != 1 {
				return fmt.Sprintf("%s forwarder received %d PipeResults (want 1)", where, len(got))
			}
			p := got[0]
			if p.Id != id {
				return fmt.Sprintf("%s forwarder: PipeResult.Id %q, PipeTo returned %q", where, p.Id, id)
			}
			if fail {
				if p.Error == nil {
					return fmt.Sprintf("%s forwarder: failure result without Error (Message %T)", where, p.Message)
				}
				return ""
			}
			x, ok := p.Message.(*XMsg)
			if p.Error != nil || !ok || x.Kind != KReply || x.Seq != msg.Seq || string(x.Data) != "pipe" {
				return fmt.Sprintf("%s forwarder: success result carries Message %T %+v Error %v", where, p.Message, p.Message, p.Error)
			}
			return ""
		}
		le, re := check("local", lf, l0), check("remote", rf, r0)
		if le != "" {
			h.o.Monitor("c15-local-pipe", desc, le)
		}
		if re != "" {
			name := "c15-remote-pipe"
			if fail && le == "" {
				// the local forwarder got the failure result, the remote one did not
				name = "c15-pipe-failure-remote"
				A.Barrier()
				A.Ev.mu.Lock()
				cause := "<no RemotingMessageSendFailedEvent seen>"
				if n := len(A.Ev.SendFailed); n > 0 {
					cause = fmt.Sprint(A.Ev.SendFailed[n-1].Error)
				}
				other := A.Ev.DeadOther
				A.Ev.mu.Unlock()
				re = fmt.Sprintf("PipeTo failure result does not reach a remote forwarder: actor on A pipes an Ask (timeout 150 ms) to an actor on B that never replies, forwarders = [actor on C, actor on A]; the local forwarder received PipeResult{Id, Error: timeout}, but the %s; A's last send-failed event: %s; non-XMsg dead letters on A so far: %d", re, cause, other)
			}
			h.o.Monitor(name, desc, re)
		}
		h.o.Stats["remote-pipes"]++
	}
}
