// transparency.go: C15 — remote Kill and remote Watch between two real systems (through the same proxy).
package main

import (
	"fmt"
	"sync"
	"time"

	"github.com/kercylan98/vivid"
	"github.com/kercylan98/vivid/internal/actor"
	"github.com/kercylan98/vivid/xverif/lib"
)

type tgtLog struct {
	mu      sync.Mutex
	kills   []string // "killer|reason|poison"
	killed  int      // OnKilled seen by the target itself
	pings   int
}

type watchLog struct {
	mu     sync.Mutex
	killed []string // refs named by the OnKilled messages received
}

type doWatch struct{ ref vivid.ActorRef }
type doKill struct {
	ref    vivid.ActorRef
	poison bool
	reason string
}

func refStr(r vivid.ActorRef) string {
	if r == nil {
		return "<nil>"
	}
	return r.GetAddress() + r.GetPath()
}

func spawnWatcher(n *Node, name string, wl *watchLog) (vivid.ActorRef, error) {
	return n.Sys.ActorOf(vivid.ActorFN(func(ctx vivid.ActorContext) {
		switch m := ctx.Message().(type) {
		case *doWatch:
			ctx.Watch(m.ref)
		case *doKill:
			ctx.Kill(m.ref, m.poison, m.reason)
		case *vivid.OnKilled:
			if m.Ref != nil && !m.Ref.Equals(ctx.Ref()) {
				wl.mu.Lock()
				wl.killed = append(wl.killed, refStr(m.Ref))
				wl.mu.Unlock()
			}
		}
	}), vivid.WithActorName(name))
}

func (h *H) runTransparency() {
	A, err := StartNode("A", 1, nil)
	if err != nil {
		panic(err)
	}
	defer func() { A.Stop(); A.Proxy.Close() }()
	B, err := StartNode("B", 1, nil)
	if err != nil {
		panic(err)
	}
	defer func() { B.Stop(); B.Proxy.Close() }()
	rounds := 12
	if h.tier == "thorough" {
		rounds = 120
	}
	modes := []int{ModePass, ModeOne, ModeStraddle, ModeRand}
	for i := 0; i < rounds; i++ {
		mode := modes[i%len(modes)]
		plan := func(int) Plan { p := defaultPlan(); p.Mode, p.RandMax, p.Seed = mode, 9, h.seed + uint64(i); return p }
		if i%4 == 0 {
			if !h.resync(A, B, plan) || !h.resync(B, A, plan) {
				h.o.Monitor("c15-no-connection", nil, "no connection")
				return
			}
		}
		tl := &tgtLog{}
		tname := fmt.Sprintf("tgt%d", i)
		tref, err := B.Sys.ActorOf(vivid.ActorFN(func(ctx vivid.ActorContext) {
			switch m := ctx.Message().(type) {
			case *vivid.OnKill:
				tl.mu.Lock()
				tl.kills = append(tl.kills, fmt.Sprintf("%s|%s|%v", refStr(m.Killer), m.Reason, m.Poison))
				tl.mu.Unlock()
			case *vivid.OnKilled:
				tl.mu.Lock()
				tl.killed++
				tl.mu.Unlock()
			case *XMsg:
				tl.mu.Lock()
				tl.pings++
				tl.mu.Unlock()
				if m.Kind == KAsk {
					ctx.Reply(&XMsg{Kind: KReply, Seq: m.Seq})
				}
			}
		}), vivid.WithActorName(tname))
		if err != nil {
			panic(err)
		}
		remote, _ := actor.NewRef(B.Adv, tref.GetPath())
		rw1, rw2, lw := &watchLog{}, &watchLog{}, &watchLog{}
		w1, _ := spawnWatcher(A, fmt.Sprintf("w1-%d", i), rw1)
		w2, _ := spawnWatcher(A, fmt.Sprintf("w2-%d", i), rw2)
		w3, _ := spawnWatcher(B, fmt.Sprintf("w3-%d", i), lw)
		A.Sys.Tell(w1, &doWatch{remote})
		A.Sys.Tell(w2, &doWatch{remote})
		B.Sys.Tell(w3, &doWatch{tref})
		// the Watch messages (system messages) precede this Ask on the same connection: once it is answered they are registered
		time.Sleep(2 * time.Millisecond)
		if _, err := A.Sys.Ask(remote, &XMsg{Kind: KAsk, Seq: uint64(i)}, 5*time.Second).Result(); err != nil {
			h.o.Monitor("c15-remote-ask", lib.L(lib.S("round"), lib.NI(i)), fmt.Sprintf("Ask to the freshly spawned remote actor failed: %v", err))
			continue
		}
		poison := i%2 == 1
		reason := fmt.Sprintf("why-%d", i)
		A.Sys.Tell(w1, &doKill{remote, poison, reason})
		count := func(w *watchLog) int { w.mu.Lock(); defer w.mu.Unlock(); return len(w.killed) }
		okAll := waitUntil(5*time.Second, func() bool { return count(rw1) >= 1 && count(rw2) >= 1 && count(lw) >= 1 })
		time.Sleep(15 * time.Millisecond) // duplicates
		desc := lib.L(lib.S("remote-kill-watch"), lib.NI(i), lib.Bool(poison), lib.S(modeNames[mode]))
		tl.mu.Lock()
		kills := append([]string(nil), tl.kills...)
		tl.mu.Unlock()
		wantKill := fmt.Sprintf("%s|%s|%v", A.Adv+w1.GetPath(), reason, poison)
		if len(kills) != 1 || kills[0] != wantKill {
			h.o.Monitor("c15-remote-kill", desc, fmt.Sprintf("remote Kill(%s, poison=%v, %q) from %s: the target saw OnKill %v (want exactly [%s]); watchers notified: %v", refStr(remote), poison, reason, A.Adv+w1.GetPath(), kills, wantKill, okAll))
		}
		want := refStr(remote)
		for wi, w := range []*watchLog{rw1, rw2, lw} {
			w.mu.Lock()
			got := append([]string(nil), w.killed...)
			w.mu.Unlock()
			if len(got) != 1 || got[0] != want {
				where := "remote"
				if wi == 2 {
					where = "local"
				}
				h.o.Monitor("c15-remote-watch", desc, fmt.Sprintf("%s watcher %d of %s received OnKilled for %v (want exactly one naming %s)", where, wi+1, want, got, want))
			}
		}
		// the terminated actor is gone for remote senders too: a Tell now ends as a dead letter on B, not in the actor
		tl.mu.Lock()
		p0 := tl.pings
		tl.mu.Unlock()
		A.Sys.Tell(remote, &XMsg{Kind: KTell, Seq: 999})
		time.Sleep(3 * time.Millisecond)
		tl.mu.Lock()
		if tl.pings != p0 {
			h.o.Monitor("c15-killed-still-receives", desc, "a Tell after the remote kill still reached the terminated actor's behaviour")
		}
		tl.mu.Unlock()
		h.o.Stats["remote-kill-watch-rounds"]++
		if poison {
			h.o.Stats["poison-kills"]++
		}
	}
}
