// frame.go: C11 — healthy link.  Bursts of Tell / Ask between two real systems through the re-chunking proxy.
package main

import (
	"fmt"
	"os"
	"sort"
	"strings"
	"time"

	"github.com/kercylan98/vivid"
	"github.com/kercylan98/vivid/internal/utils"
	"github.com/kercylan98/vivid/xverif/lib"
)

const maxCaseBytes = 160 << 10 // connection records larger than this are checked by the monitors only

type roundCfg struct {
	name     string
	mode     int
	randMax  int
	pace     time.Duration
	senders  int   // concurrent sender actors per direction
	burst    int   // messages per sender
	sizes    []int // payload sizes to draw from
	askEvery int   // every k-th message is an Ask (0 = none)
	gap      time.Duration
	reverse  bool // also B -> A at the same time
	twoTargets bool // odd senders tell /recv2, even senders /recv
}

var syncSeq uint64 = 1 << 40

// resync: cut every connection, install the plan for the next ones, and Tell sync messages until one arrives
// (the first Tell after a cut is lost or dead-lettered: that is C14's business, not this tier's).
//
// One retry: a single attempt that does not get through within its 15 s on a heavily loaded machine must not become a
// "no connection" violation; a link that really does not come up fails both attempts.
func (h *H) resync(from, to *Node, plan func(i int) Plan) bool {
	if h.resyncOnce(from, to, plan) {
		return true
	}
	h.o.Stats["resync-retried"]++
	return h.resyncOnce(from, to, plan)
}

func (h *H) resyncOnce(from, to *Node, plan func(i int) Plan) bool {
	to.Proxy.KillAll()
	to.Proxy.SetPlan(plan)
	ref := RemoteRecv(to)
	tell := func(wait time.Duration) bool {
		syncSeq++
		s := syncSeq
		_, _, _, _, _, dl0, _, _ := from.Ev.snapshotCounts()
		from.Sys.Tell(ref, &XMsg{Kind: KSync, Sender: 0, Seq: s})
		got := false
		waitUntil(wait, func() bool {
			if hasSync(to, s) {
				got = true
				return true
			}
			// the Tell was given up (dead letter): no point in waiting for it
			_, _, _, _, _, dl, _, _ := from.Ev.snapshotCounts()
			return dl > dl0
		})
		return got
	}
	deadline := time.Now().Add(15 * time.Second)
	wait := 60 * time.Millisecond
	for time.Now().Before(deadline) {
		if !tell(wait) {
			// a loaded machine may simply need longer than the last wait: be more patient next time
			if wait < 2*time.Second {
				wait *= 2
			}
			continue
		}
		// a second sync on the same connection: when it has arrived, every earlier sync that is going to arrive has
		if tell(5 * time.Second) {
			from.Barrier() // the syncs' sender-side events are on record before the caller opens an event window
			return true
		}
	}
	return false
}

func tGot(g Got) lib.T {
	return lib.L(lib.N(uint64(g.Kind)), lib.N(uint64(g.Sender)), lib.N(g.Seq), lib.NI(g.Len), lib.N(g.Sum))
}

type expect struct {
	sender uint32
	msgs   []*XMsg
	from   string
}

func (h *H) launch(src, dst *Node, cfg roundCfg, base uint32, r *lib.Rand) ([]expect, []chan struct{}, int, error) {
	var exps []expect
	var dones []chan struct{}
	asks := 0
	to := RemoteRecv(dst)
	for s := 0; s < cfg.senders; s++ {
		id := base + uint32(s)
		ref, err := src.Sender(id)
		if err != nil {
			return nil, nil, 0, err
		}
		tgt := to
		if cfg.twoTargets && s%2 == 1 {
			tgt = RemoteRecv2(dst)
		}
		b := &Burst{To: tgt, Gap: cfg.gap, Done: make(chan struct{}), AskTimeout: h.roundLimit() - 5*time.Second}
		for i := 1; i <= cfg.burst; i++ {
			sz := cfg.sizes[r.Intn(len(cfg.sizes))]
			var data []byte
			if sz <= 4096 {
				data = r.Bytes(sz)
			} else {
				// large payloads: a repeated seeded block (cheap to generate, still position dependent)
				blk := r.Bytes(251)
				data = make([]byte, sz)
				for j := range data {
					data[j] = blk[j%251] ^ byte(j>>16)
				}
			}
			k := byte(KTell)
			if cfg.askEvery > 0 && i%cfg.askEvery == 0 {
				k = KAsk
				asks++
			}
			b.Msgs = append(b.Msgs, &XMsg{Kind: k, Sender: id, Seq: uint64(i), Data: data})
		}
		exps = append(exps, expect{sender: id, msgs: b.Msgs, from: src.Adv + ref.GetPath()})
		dones = append(dones, b.Done)
		src.Sys.Tell(ref, b)
	}
	return exps, dones, asks, nil
}

// checkDelivery: the per-sender sequence seen by dst's receiver must be exactly what was sent.
func (h *H) checkDelivery(tag string, dst *Node, m0 marks, exps []expect, c lib.T) {
	got := append(dst.Rec.Snapshot(m0.rec), dst.Rec2.Snapshot(m0.rec2)...)
	by := map[uint32][]Got{}
	for _, g := range got {
		if g.Kind == KSync {
			continue
		}
		by[g.Sender] = append(by[g.Sender], g)
	}
	for _, e := range exps {
		gs := by[e.sender]
		if len(gs) != len(e.msgs) {
			var seqs []string
			for i, g := range gs {
				if i < 40 {
					seqs = append(seqs, fmt.Sprint(g.Seq))
				}
			}
			h.o.Monitor("c11-delivery", c, fmt.Sprintf("%s: sender %d sent %d messages, receiver saw %d (first seqs: %s)", tag, e.sender, len(e.msgs), len(gs), strings.Join(seqs, ",")))
			continue
		}
		for i, g := range gs {
			m := e.msgs[i]
			if g.Seq != m.Seq || g.Kind != m.Kind {
				h.o.Monitor("c11-order", c, fmt.Sprintf("%s: sender %d position %d: sent seq %d kind %d, received seq %d kind %d", tag, e.sender, i, m.Seq, m.Kind, g.Seq, g.Kind))
				break
			}
			if g.Len != len(m.Data) || g.Sum != cksum(m.Data) {
				h.o.Monitor("c11-intact", c, fmt.Sprintf("%s: sender %d seq %d: payload changed (len %d -> %d)", tag, e.sender, m.Seq, len(m.Data), g.Len))
				break
			}
			if m.Kind == KTell && g.From != e.from {
				h.o.Monitor("c11-sender-ref", c, fmt.Sprintf("%s: sender %d seq %d: receiver saw sender %q, expected %q", tag, e.sender, m.Seq, g.From, e.from))
				break
			}
			if m.Kind == KAsk && !strings.HasPrefix(g.From, strings.TrimSuffix(e.from, fmt.Sprintf("/snd%d", e.sender))) {
				h.o.Monitor("c11-sender-ref", c, fmt.Sprintf("%s: ask of sender %d seq %d carries sender %q (not on the asking system)", tag, e.sender, m.Seq, g.From))
				break
			}
		}
	}
}

// roundLimit: the one bounded wait of a round (a healthy quick round takes well under 3 s, the largest thorough
// round about 20 s on an idle machine)
func (h *H) roundLimit() time.Duration {
	if h.tier == "thorough" {
		return 240 * time.Second
	}
	return 60 * time.Second // generous: a loaded machine must not turn a slow round into a violation
}

type marks struct{ rec, rec2, df, rc, rf, dead, conns int }

func mark(n *Node) marks {
	n.Barrier()
	df, rc, _, _, _, dl, rf, _ := n.Ev.snapshotCounts()
	nc := 0
	if n.Proxy != nil {
		nc = n.Proxy.NConns()
	}
	return marks{rec: n.Rec.Len(), rec2: n.Rec2.Len(), df: df, rc: rc, rf: rf, dead: dl, conns: nc}
}

func (h *H) round(A, B *Node, cfg roundCfg, seed uint64) {
	r := lib.NewRand(seed)
	plan := func(i int) Plan {
		p := defaultPlan()
		p.Mode, p.RandMax, p.Pace, p.Seed = cfg.mode, cfg.randMax, cfg.pace, seed
		return p
	}
	// a fresh connection per direction, set up under this round's chunking
	cB0, cA0 := B.Proxy.NConns(), A.Proxy.NConns()
	if !h.resync(A, B, plan) || (cfg.reverse && !h.resync(B, A, plan)) {
		diag := ""
		for _, n := range []*Node{A, B} {
			n.Ev.mu.Lock()
			tail := n.Ev.Trace
			if len(tail) > 12 {
				tail = tail[len(tail)-12:]
			}
			diag += fmt.Sprintf(" %s: last sender events %v, proxy connections %d;", n.Name, tail, n.Proxy.NConns())
			n.Ev.mu.Unlock()
		}
		for _, c := range B.Proxy.Conns(0)[max(0, B.Proxy.NConns()-3):] {
			c.mu.Lock()
			diag += fmt.Sprintf(" B-proxy conn %d: mode %d hs %d bytes, from client %d, handed on %d, closed %v cut %v;", c.Idx, c.Plan.Mode, len(c.Hs), c.FromCli, c.pos, c.closed, c.cutDone)
			c.mu.Unlock()
		}
		h.o.Monitor("c11-no-connection", nil, cfg.name+": no sync message got through a fresh connection within 15 s;"+diag)
		h.abort = true
		return
	}
	_ = cB0
	_ = cA0
	// the connection that carried the successful sync is the last one
	mB, mA := mark(B), mark(A)
	connB := B.Proxy.Conns(0)[mB.conns-1]
	var connA *PConn
	if cfg.reverse {
		connA = A.Proxy.Conns(0)[mA.conns-1]
	}
	waitUntil(5*time.Second, func() bool { return connB.Received() == connB.Pos() })
	if connA != nil {
		waitUntil(5*time.Second, func() bool { return connA.Received() == connA.Pos() })
	}
	recB0, _ := connB.Record()
	var recA0 []byte
	if connA != nil {
		recA0, _ = connA.Record()
	}
	askOK0A, askOK0B := A.AskOK.Load(), B.AskOK.Load()
	expAB, donesAB, asksAB, err := h.launch(A, B, cfg, 100, r)
	if err != nil {
		panic(err)
	}
	var expBA []expect
	var donesBA []chan struct{}
	asksBA := 0
	if cfg.reverse {
		expBA, donesBA, asksBA, err = h.launch(B, A, cfg, 200, r)
		if err != nil {
			panic(err)
		}
	}
	total := cfg.senders * cfg.burst
	// one bounded wait for the whole round (generous: a healthy round takes well under 3 s)
	limit := time.Now().Add(h.roundLimit())
	left := func() time.Duration {
		if d := time.Until(limit); d > 0 {
			return d
		}
		return time.Millisecond
	}
	okAB := waitUntil(left(), func() bool { return B.Rec.Len()-mB.rec+B.Rec2.Len()-mB.rec2 >= total })
	okBA := !cfg.reverse || waitUntil(left(), func() bool { return A.Rec.Len()-mA.rec+A.Rec2.Len()-mA.rec2 >= total })
	for _, d := range append(donesAB, donesBA...) {
		select {
		case <-d:
		case <-time.After(left()):
			okAB = false
		}
	}
	// let stragglers (duplicates!) show up
	time.Sleep(30 * time.Millisecond)
	if !okAB || !okBA {
		// the monitors below report what is missing; later rounds would only wait again
		h.abort = true
	}
	desc := lib.L(lib.S(cfg.name), lib.NI(cfg.senders), lib.NI(cfg.burst), lib.N(seed))
	h.checkDelivery(cfg.name+" A->B", B, mB, expAB, desc)
	if cfg.reverse {
		h.checkDelivery(cfg.name+" B->A", A, mA, expBA, desc)
	}
	h.wireCheck(cfg.name+" A->B", connB, len(recB0), expAB, desc)
	if cfg.reverse && connA != nil {
		h.wireCheck(cfg.name+" B->A", connA, len(recA0), expBA, desc)
	}
	if got := int(A.AskOK.Load() - askOK0A); got != asksAB || A.AskBad.Load() != 0 {
		d := ""
		A.askDetail.Range(func(k, v any) bool { d += fmt.Sprint(k, " ", v, "; "); return len(d) < 300 })
		h.o.Monitor("c11-reply", desc, fmt.Sprintf("%s: %d Asks A->B, %d correct replies, %d wrong/failed: %s", cfg.name, asksAB, got, A.AskBad.Load(), d))
		A.AskBad.Store(0)
	}
	if got := int(B.AskOK.Load() - askOK0B); got != asksBA || B.AskBad.Load() != 0 {
		h.o.Monitor("c11-reply", desc, fmt.Sprintf("%s: %d Asks B->A, %d correct replies, %d wrong/failed", cfg.name, asksBA, got, B.AskBad.Load()))
		B.AskBad.Store(0)
	}
	for _, n := range []*Node{A, B} {
		m := mA
		if n == B {
			m = mB
		}
		df, _, _, _, _, dl, rf, _ := n.Ev.snapshotCounts()
		if df != m.df || rf != m.rf {
			h.o.Monitor("c11-decode-failed", desc, fmt.Sprintf("%s: %s reported %d decode failures / %d invalid-length warnings on a healthy link", cfg.name, n.Name, df-m.df, rf-m.rf))
		}
		if dl != m.dead {
			h.o.Monitor("c11-dead-letter", desc, fmt.Sprintf("%s: %s produced %d dead letters on a healthy link", cfg.name, n.Name, dl-m.dead))
		}
	}
	if B.Proxy.NConns() != mB.conns || (cfg.reverse && A.Proxy.NConns() != mA.conns) {
		h.o.Stats["extra-connection-on-healthy-link"]++
	}
	// the model's parser on the very same bytes.  The sync messages that preceded the marks are part of the
	// connection's record: cut the record at the mark (a frame boundary: the sync had been delivered).
	h.emitConnCase("burst:"+modeNames[cfg.mode], B, connB, len(recB0), mB, true)
	if cfg.reverse && connA != nil {
		// replies to A's Asks travel B->A on the same connection as B's bursts; all of it is in A's record
		h.emitConnCase("burst-rev:"+modeNames[cfg.mode], A, connA, len(recA0), mA, true)
	}
	if strings.HasPrefix(cfg.name, "mini-") {
		h.o.Stats["round:mini"]++
	} else {
		h.o.Stats["round:"+cfg.name]++
	}
	h.o.Stats["messages"] += total
	if cfg.reverse {
		h.o.Stats["messages"] += total
	}
	h.o.Stats["asks"] += asksAB + asksBA
}

// observed: what dst saw since the marks, in the shape of the model's output
func observed(dst *Node, m marks) lib.T {
	dst.Barrier()
	var dl []lib.T
	for _, g := range dst.Rec.Snapshot(m.rec) {
		dl = append(dl, tGot(g))
	}
	dst.Ev.mu.Lock()
	var df, ov []lib.T
	for _, e := range dst.Ev.DecodeFail[m.df:] {
		df = append(df, lib.NI(e.MessageSize))
	}
	nrc := len(dst.Ev.Received) - m.rc
	for _, n := range dst.Ev.Oversize[m.rf:] {
		ov = append(ov, lib.N(n))
	}
	dst.Ev.mu.Unlock()
	return lib.L(lib.LS(dl), lib.NI(nrc), lib.LS(df), lib.LS(ov))
}

// connInput: the model's view of one connection: (whole?, chunks).  whole: from the handshake on; otherwise from
// byte offset `from` of the frame stream (a frame boundary).
func connInput(c *PConn, whole bool, from int) (lib.T, int) {
	rec, chunks := c.Record()
	var xs []lib.T
	if whole {
		c.mu.Lock()
		for _, h := range c.HsChunks {
			xs = append(xs, lib.B(h))
		}
		c.mu.Unlock()
		from = 0
	}
	off := 0
	for _, n := range chunks {
		lo, hi := off, off+n
		off = hi
		if hi <= from {
			continue
		}
		if lo < from {
			lo = from
		}
		xs = append(xs, lib.B(rec[lo:hi]))
	}
	return lib.L(lib.Bool(whole), lib.LS(xs)), len(rec) - from
}

// emitConnCase: the model's parser on the very bytes the proxy handed to dst on one connection since offset
// `from`, against what dst observed since the marks.
func (h *H) emitConnCase(kind string, dst *Node, c *PConn, from int, m marks, nontrivial bool) {
	ct, n := connInput(c, false, from)
	if n > maxCaseBytes {
		h.o.Stats["case-skipped-too-big"]++
		return
	}
	h.o.Case(kind, nontrivial, lib.L(lib.N(0), lib.L(ct)), observed(dst, m))
}

// directRound: the same concurrent mixed traffic between two systems that dial each other directly (no proxy)
func (h *H) directRound(mixed []int) {
	if h.abort {
		return
	}
	E, err := StartDirectNode("E", 0)
	if err != nil {
		panic(err)
	}
	defer E.Stop()
	F, err := StartDirectNode("F", 0)
	if err != nil {
		panic(err)
	}
	defer F.Stop()
	n := 2
	if h.tier == "thorough" {
		n = 8
	}
	for it := 0; it < n; it++ {
		cfg := roundCfg{name: fmt.Sprintf("direct-concurrent-6x40-mixed-%d", it), senders: 6, burst: 40, sizes: mixed, askEvery: 8, reverse: true, twoTargets: true}
		r := lib.NewRand(h.seed*77 + uint64(it))
		mE, mF := mark(E), mark(F)
		ok0E, ok0F := E.AskOK.Load(), F.AskOK.Load()
		expEF, d1, asksEF, err := h.launch(E, F, cfg, 100, r)
		if err != nil {
			panic(err)
		}
		expFE, d2, asksFE, err := h.launch(F, E, cfg, 200, r)
		if err != nil {
			panic(err)
		}
		total := cfg.senders * cfg.burst
		limit := time.Now().Add(h.roundLimit())
		left := func() time.Duration {
			if d := time.Until(limit); d > 0 {
				return d
			}
			return time.Millisecond
		}
		waitUntil(left(), func() bool { return F.Rec.Len()-mF.rec+F.Rec2.Len()-mF.rec2 >= total })
		waitUntil(left(), func() bool { return E.Rec.Len()-mE.rec+E.Rec2.Len()-mE.rec2 >= total })
		for _, d := range append(d1, d2...) {
			select {
			case <-d:
			case <-time.After(left()):
			}
		}
		time.Sleep(30 * time.Millisecond)
		desc := lib.L(lib.S(cfg.name), lib.NI(cfg.senders), lib.NI(cfg.burst))
		h.checkDelivery(cfg.name+" E->F", F, mF, expEF, desc)
		h.checkDelivery(cfg.name+" F->E", E, mE, expFE, desc)
		if got := int(E.AskOK.Load() - ok0E); got != asksEF || E.AskBad.Load() != 0 {
			h.o.Monitor("c11-reply", desc, fmt.Sprintf("%s: %d Asks E->F, %d correct replies, %d wrong/failed", cfg.name, asksEF, got, E.AskBad.Load()))
			E.AskBad.Store(0)
		}
		if got := int(F.AskOK.Load() - ok0F); got != asksFE || F.AskBad.Load() != 0 {
			h.o.Monitor("c11-reply", desc, fmt.Sprintf("%s: %d Asks F->E, %d correct replies, %d wrong/failed", cfg.name, asksFE, got, F.AskBad.Load()))
			F.AskBad.Store(0)
		}
		for _, nd := range []*Node{E, F} {
			m := mE
			if nd == F {
				m = mF
			}
			df, _, _, _, _, dl, rf, _ := nd.Ev.snapshotCounts()
			if df != m.df || rf != m.rf || dl != m.dead {
				h.o.Monitor("c11-decode-failed", desc, fmt.Sprintf("%s: %s reported %d decode failures / %d invalid-length warnings / %d dead letters on a healthy direct link", cfg.name, nd.Name, df-m.df, rf-m.rf, dl-m.dead))
			}
		}
		h.o.Stats["round:direct"]++
		h.o.Stats["messages"] += 2 * total
	}
}

// wireCheck: the bytes the proxy received from the sending system on this connection (from offset `from`, a frame
// boundary) must be a sequence of WHOLE frames: each one the envelope of one XMsg, every sent message exactly once,
// each sender's messages in its order (a frame written in several pieces with another sender's frame in between
// shows up here as a frame that does not decode, whatever the receiver then makes of it)
func (h *H) wireCheck(tag string, c *PConn, from int, exps []expect, desc lib.T) {
	rec, _ := c.Record()
	if from > len(rec) {
		return
	}
	rec = rec[from:]
	want := map[[2]uint64]int{}
	pos := map[uint32]int{}
	for _, e := range exps {
		for i, m := range e.msgs {
			want[[2]uint64{uint64(m.Sender), m.Seq}] = i
		}
	}
	seen := map[[2]uint64]bool{}
	off := 0
	nframes := 0
	for off < len(rec) {
		if len(rec)-off < 4 {
			h.o.Monitor("c11-wire-frames", desc, fmt.Sprintf("%s: the sender's byte stream ends inside a length prefix at offset %d (%d frames before)", tag, off, nframes))
			return
		}
		n := int(uint32(rec[off])<<24 | uint32(rec[off+1])<<16 | uint32(rec[off+2])<<8 | uint32(rec[off+3]))
		if n == 0 || n > 4<<20 || off+4+n > len(rec) {
			h.o.Monitor("c11-wire-frames", desc, fmt.Sprintf("%s: after %d whole frames the sender's byte stream has length field %d at offset %d with %d bytes left: not a sequence of whole frames (a frame was not written atomically?)", tag, nframes, n, off, len(rec)-off-4))
			return
		}
		x := decodeXMsgFrame(rec[off+4 : off+4+n])
		if x == nil {
			h.o.Monitor("c11-wire-frames", desc, fmt.Sprintf("%s: frame #%d (offset %d, %d bytes) of the sender's byte stream is not the envelope of a message that was sent", tag, nframes, off, n))
			return
		}
		if x.Kind == KTell || x.Kind == KAsk {
			k := [2]uint64{uint64(x.Sender), x.Seq}
			i, ok := want[k]
			if !ok || seen[k] || i != pos[x.Sender] {
				h.o.Monitor("c11-wire-frames", desc, fmt.Sprintf("%s: frame #%d carries sender %d seq %d: unexpected, repeated or out of the sender's order on the wire", tag, nframes, x.Sender, x.Seq))
				return
			}
			seen[k] = true
			pos[x.Sender]++
		}
		off += 4 + n
		nframes++
	}
	if len(seen) != len(want) {
		h.o.Monitor("c11-wire-frames", desc, fmt.Sprintf("%s: %d messages sent, %d found on the wire", tag, len(want), len(seen)))
	}
	h.o.Stats["wire-checked-frames"] += nframes
}

// normalize: NewRef must accept what GetAddress/GetPath produce (idempotence of the normalisers)
func (h *H) normalize() {
	addrs := []string{"127.0.0.1:8080", " 127.0.0.1:8080 ", "localhost", "example.com", "example.com:1", "[::1]:80", "::1", "a:b", "", " ", "host:99999", "host:0",
		"1.2.3.4", "UPPER.example.com:65535", "a_b:80", "-a.com:80", "a..b:80", "\tnode-1:7000\n", "127.0.0.1:080", "xn--bcher-kva.example:443", "[fe80::1%eth0]:22"}
	paths := []string{"/", "/a", "/a/b", " /a ", "a", "", "//", "/a//b", "/a/", "/@future@/x", "/a b", "/\t", "/é", "/a/../b", "/.", "/%41"}
	for i := 0; i < 300; i++ {
		addrs = append(addrs, string(h.r.Bytes(1+h.r.Intn(12))))
		paths = append(paths, "/"+string(h.r.Bytes(h.r.Intn(10))))
	}
	for _, a := range addrs {
		n1, ok1 := utils.NormalizeAddress(a)
		h.o.Stats["normalize-address"]++
		if !ok1 {
			continue
		}
		h.o.Stats["normalize-address-accepted"]++
		n2, ok2 := utils.NormalizeAddress(n1)
		if !ok2 || n2 != n1 {
			h.o.Monitor("c11-normalize-idempotent", lib.S(a), fmt.Sprintf("NormalizeAddress(%q) = %q but NormalizeAddress of that = (%q, %v)", a, n1, n2, ok2))
		}
	}
	for _, p := range paths {
		n1, ok1 := utils.NormalizePath(p)
		h.o.Stats["normalize-path"]++
		if !ok1 {
			continue
		}
		h.o.Stats["normalize-path-accepted"]++
		n2, ok2 := utils.NormalizePath(n1)
		if !ok2 || n2 != n1 {
			h.o.Monitor("c11-normalize-idempotent", lib.S(p), fmt.Sprintf("NormalizePath(%q) = %q but NormalizePath of that = (%q, %v)", p, n1, n2, ok2))
		}
	}
}

func (h *H) runFrame() {
	if os.Getenv("XV_ONLY") == "churn" {
		// debugging aid: the receiver-churn scenarios alone
		h.runChurn()
		return
	}
	if os.Getenv("XV_ONLY") == "coldstart" {
		// debugging aid: the first-contact scenarios alone
		h.coldStart()
		return
	}
	A, err := StartNode("A", 0, nil)
	if err != nil {
		panic(err)
	}
	defer func() { A.Stop(); A.Proxy.Close() }()
	B, err := StartNode("B", 0, nil)
	if err != nil {
		panic(err)
	}
	defer func() { B.Stop(); B.Proxy.Close() }()
	h.logf("systems up: A bind %s adv %s, B bind %s adv %s", A.Bind, A.Adv, B.Bind, B.Adv)
	dl := make(chan func(), 1)
	go h.deadline10s(dl)
	defer func() {
		select {
		case f := <-dl:
			f()
		case <-time.After(90 * time.Second):
			h.o.Monitor("harness-timeout", nil, "deadline10s scenario did not finish")
		}
	}()
	small := []int{0, 0, 1, 2, 3, 7, 16, 31, 64, 100, 200}
	mid := []int{0, 1, 100, 1000, 4000, 4081, 4096, 5000, 9000}
	thorough := h.tier == "thorough"
	// several senders at once through one remoting mailbox, small and large envelopes mixed (a frame above 64 KiB
	// needs several segments on the wire)
	mixed := []int{0, 100, 100, 60 << 10, 70 << 10, 70 << 10, 200 << 10, 1 << 20}
	rounds := []roundCfg{
		{name: "pass-1x300", mode: ModePass, senders: 1, burst: 300, sizes: small, askEvery: 10, reverse: true},
		{name: "one-byte-1x40", mode: ModeOne, senders: 1, burst: 40, sizes: small, askEvery: 7, reverse: true, pace: 20 * time.Microsecond},
		{name: "one-byte-3x200", mode: ModeOne, senders: 3, burst: 200, sizes: small, askEvery: 9, reverse: true},
		{name: "straddle-2x300", mode: ModeStraddle, senders: 2, burst: 300, sizes: small, askEvery: 5, reverse: true, pace: 50 * time.Microsecond},
		{name: "hdr-split-2x150", mode: ModeHdrSplit, senders: 2, burst: 150, sizes: small, askEvery: 4, reverse: true, pace: 20 * time.Microsecond},
		{name: "random7-4x250", mode: ModeRand, randMax: 7, senders: 4, burst: 250, sizes: small, askEvery: 6, reverse: true},
		{name: "random300-4x250", mode: ModeRand, randMax: 300, senders: 4, burst: 250, sizes: mid, askEvery: 6, reverse: true},
		{name: "coalesce-4x500", mode: ModeCoalesce, senders: 4, burst: 500, sizes: small, askEvery: 50, reverse: true},
		{name: "coalesce-1x2000", mode: ModeCoalesce, senders: 1, burst: 2000, sizes: small, askEvery: 0, reverse: false},
		{name: "64k-2x40-large", mode: Mode64K, senders: 2, burst: 40, sizes: []int{0, 1000, 65536, 65537, 100000, 262144}, askEvery: 8, reverse: true},
		{name: "64k-1x6-1MiB", mode: Mode64K, senders: 1, burst: 6, sizes: []int{1 << 20, 1<<20 - 1, 700000}, askEvery: 3, reverse: true},
		{name: "random64k-2x12-large", mode: ModeRand, randMax: 65536, senders: 2, burst: 12, sizes: []int{0, 300000, 1 << 20}, askEvery: 4, reverse: false},
		{name: "concurrent-6x40-mixed-pass", mode: ModePass, senders: 6, burst: 40, sizes: mixed, askEvery: 7, reverse: true, twoTargets: true},
		{name: "concurrent-6x40-mixed-rand64k", mode: ModeRand, randMax: 65536, senders: 6, burst: 40, sizes: mixed, askEvery: 9, reverse: true, twoTargets: true},
		{name: "concurrent-8x30-mixed-64k", mode: Mode64K, senders: 8, burst: 30, sizes: mixed, askEvery: 0, reverse: false, twoTargets: true},
		{name: "slow-sender-2x60", mode: ModeStraddle, senders: 2, burst: 60, sizes: small, askEvery: 3, gap: 300 * time.Microsecond, reverse: true},
	}
	if thorough {
		big := []int{4190000, 4194000, 3 << 20, 2 << 20, 1}
		rounds = append(rounds,
			roundCfg{name: "one-byte-4x2000", mode: ModeOne, senders: 4, burst: 2000, sizes: small, askEvery: 9, reverse: true},
			roundCfg{name: "straddle-4x2000", mode: ModeStraddle, senders: 4, burst: 2000, sizes: small, askEvery: 5, reverse: true},
			roundCfg{name: "random-8x2000", mode: ModeRand, randMax: 2000, senders: 8, burst: 2000, sizes: mid, askEvery: 11, reverse: true},
			roundCfg{name: "64k-2x10-4MiB", mode: Mode64K, senders: 2, burst: 10, sizes: big, askEvery: 3, reverse: true},
			roundCfg{name: "random-2x8-4MiB", mode: ModeRand, randMax: 100000, senders: 2, burst: 8, sizes: big, askEvery: 4, reverse: true},
			roundCfg{name: "one-byte-1x3-300k", mode: ModeOne, senders: 1, burst: 3, sizes: []int{300000}, askEvery: 0, reverse: false},
		)
		for i := 0; i < 12; i++ {
			rc := roundCfg{name: fmt.Sprintf("random-mix-%d", i), mode: int(h.r.Intn(nModes)), randMax: 1 + h.r.Intn(5000), senders: 1 + h.r.Intn(6),
				burst: 1 + h.r.Intn(1500), sizes: mid, askEvery: 1 + h.r.Intn(20), reverse: h.r.Bool()}
			if rc.mode == ModeOne || (rc.mode == ModeRand && rc.randMax < 16) {
				// byte-sized writes: keep the volume at a few hundred KiB
				rc.sizes = small
				if rc.burst > 600 {
					rc.burst = 600
				}
			}
			rounds = append(rounds, rc)
		}
	}
	// many small rounds: each one is a model case per direction (whole record below the size cap)
	nmini := 24
	if thorough {
		nmini = 200
	}
	for i := 0; i < nmini; i++ {
		rc := roundCfg{name: fmt.Sprintf("mini-%d", i), mode: int(h.r.Intn(nModes)), randMax: 1 + h.r.Intn(40), senders: 1 + h.r.Intn(3),
			burst: 1 + h.r.Intn(50), sizes: small, askEvery: 1 + h.r.Intn(6), reverse: h.r.Intn(3) > 0}
		if h.r.Intn(4) == 0 && rc.mode != ModeOne {
			rc.sizes = mid
		}
		rounds = append(rounds, rc)
	}
	for i, rc := range rounds {
		if h.abort {
			h.o.Stats["rounds-skipped-after-incomplete-round"]++
			continue
		}
		t := time.Now()
		h.round(A, B, rc, h.seed*1000+uint64(i))
		h.logf("round %s: %.2fs (monitors so far %d)", rc.name, time.Since(t).Seconds(), len(h.o.Monitors))
	}
	h.exactLimit(A, B)
	h.normalize()
	h.handshakeSplit(A, B)
	h.directRound(mixed)
	h.runChurn()
	h.coldStart()
	names := make([]string, 0, len(rounds))
	for _, rc := range rounds {
		names = append(names, rc.name)
	}
	sort.Strings(names)
	h.o.Info["rounds"] = len(names)
	h.o.Info["chunking_modes"] = modeNames
}

// overhead of the envelope around an XMsg payload of n data bytes from sender path /sndX to /recv = frame length - n
func (h *H) overhead(A, B *Node) int {
	ref, _ := A.Sender(100)
	return 4 + 15 + 4 + 1 + 4 + len(A.Adv) + 4 + len(ref.GetPath()) + 4 + len(B.Adv) + 4 + len("/recv")
}

// exactLimit: a body of exactly 4 MiB is the largest legal frame (the receiver rejects only len > 4 MiB)
func (h *H) exactLimit(A, B *Node) {
	if h.tier != "thorough" || h.abort {
		return
	}
	ov := h.overhead(A, B)
	cfg := roundCfg{name: "exact-4MiB", mode: Mode64K, senders: 1, burst: 2, sizes: []int{4<<20 - ov}, askEvery: 0, reverse: false}
	h.round(A, B, cfg, h.seed*1000+777)
}

// handshakeSplit: TCP may deliver the 4+n byte handshake in two reads.
func (h *H) handshakeSplit(A, B *Node) {
	if h.abort {
		return
	}
	for _, split := range []int{1, 3, 4, 9} {
		plan := func(i int) Plan { p := defaultPlan(); p.HsSplit = split; return p }
		B.Proxy.KillAll()
		B.Proxy.SetPlan(plan)
		// no resync loop here: after the split handshake nothing may get through at all
		m := mark(B)
		ref := RemoteRecv(B)
		snd, _ := A.Sender(100)
		const n = 30
		b := &Burst{To: ref, Done: make(chan struct{}), Gap: 2 * time.Millisecond}
		for i := 1; i <= n; i++ {
			b.Msgs = append(b.Msgs, &XMsg{Kind: KTell, Sender: 100, Seq: uint64(i), Data: []byte("handshake-split")})
		}
		A.Sys.Tell(snd, b)
		<-b.Done
		// everything A wrote has been handed to B; then B gets time (generously) to deliver what it was handed
		waitUntil(5*time.Second, func() bool {
			for _, c := range B.Proxy.Conns(m.conns) {
				if c.Received() != c.Pos() {
					return false
				}
			}
			return true
		})
		handed := 0
		for _, c := range B.Proxy.Conns(m.conns) {
			rec, _ := c.Record()
			for _, fr := range splitFrames(rec) {
				if x := decodeXMsgFrame(fr); x != nil && x.Kind == KTell {
					handed++
				}
			}
		}
		waitUntil(10*time.Second, func() bool { return B.Rec.Len()-m.rec >= handed })
		time.Sleep(20 * time.Millisecond)
		got := B.Rec.Snapshot(m.rec)
		conns := B.Proxy.Conns(m.conns)
		// The first Tells after KillAll may be lost on the dead connection (C14).  Judge only what travelled on a
		// connection whose handshake was split: every frame the proxy handed to B must come out, in order.
		var want []uint64
		var cts []lib.T
		for _, c := range conns {
			rec, _ := c.Record()
			for _, fr := range splitFrames(rec) {
				if x := decodeXMsgFrame(fr); x != nil && x.Kind == KTell {
					want = append(want, x.Seq)
				}
			}
			t, _ := connInput(c, true, 0)
			cts = append(cts, t)
		}
		var have []uint64
		for _, g := range got {
			have = append(have, g.Seq)
		}
		desc := lib.L(lib.S("handshake-split"), lib.NI(split))
		h.o.Stats["handshake-split-runs"]++
		h.o.Case("handshake-split", true, lib.L(lib.N(0), lib.LS(cts)), observed(B, m))
		if fmt.Sprint(want) != fmt.Sprint(have) {
			df, _, _, _, _, _, rf, _ := B.Ev.snapshotCounts()
			h.o.Monitor("c11-handshake-split", desc, fmt.Sprintf("handshake of %d bytes delivered to the acceptor as %d + %d bytes: the proxy handed B the frames with seq %v on that connection, B's actor received %v (decode failures %d, read failures %d)",
				len(conns[0].Hs), split, len(conns[0].Hs)-split, trunc64(want), trunc64(have), df-m.df, rf-m.rf))
		}
	}
	// leave a sane state behind
	h.resync(A, B, func(int) Plan { return defaultPlan() })
}

func trunc64(x []uint64) string {
	if len(x) > 12 {
		return fmt.Sprint(x[:12]) + fmt.Sprintf("…(%d)", len(x))
	}
	return fmt.Sprint(x)
}

// splitFrames cuts a well-formed record into frame bodies (stops at the first incomplete frame)
func splitFrames(rec []byte) [][]byte {
	var out [][]byte
	for len(rec) >= 4 {
		n := int(uint32(rec[0])<<24 | uint32(rec[1])<<16 | uint32(rec[2])<<8 | uint32(rec[3]))
		if len(rec) < 4+n {
			break
		}
		out = append(out, rec[4:4+n])
		rec = rec[4+n:]
	}
	return out
}

// decodeXMsgFrame: harness-side view of a frame body the harness itself caused (used only to know what was on the wire)
func decodeXMsgFrame(body []byte) *XMsg {
	if len(body) < 4 {
		return nil
	}
	n := int(uint32(body[0])<<24 | uint32(body[1])<<16 | uint32(body[2])<<8 | uint32(body[3]))
	if len(body) < 4+n {
		return nil
	}
	m, err := xcodec{}.Decode(body[4 : 4+n])
	if err != nil {
		return nil
	}
	return m.(*XMsg)
}

var _ vivid.ActorRef

// deadline10s: Handshake.Send/Wait leave a 10 s write/read deadline on the connection.  A steady stream of Tells
// over a connection that stays up must still arrive completely (C11).  Runs on its own pair of systems.
func (h *H) deadline10s(out chan<- func()) {
	var post []func()
	defer func() { out <- func() { for _, f := range post { f() } } }()
	A, err := StartNode("DA", 0, nil)
	if err != nil {
		return
	}
	defer func() { A.Stop(); A.Proxy.Close() }()
	B, err := StartNode("DB", 0, nil)
	if err != nil {
		return
	}
	defer func() { B.Stop(); B.Proxy.Close() }()
	ref := RemoteRecv(B)
	t0 := time.Now()
	var seq uint64
	type ev struct {
		seq uint64
		at  time.Duration
	}
	var sentAt []ev
	for time.Since(t0) < 10700*time.Millisecond {
		seq++
		A.Sys.Tell(ref, &XMsg{Kind: KTell, Sender: 900, Seq: seq, Data: []byte("steady")})
		sentAt = append(sentAt, ev{seq, time.Since(t0)})
		d := time.Since(t0)
		if d > 9800*time.Millisecond && d < 10300*time.Millisecond {
			time.Sleep(20 * time.Microsecond)
		} else {
			time.Sleep(2 * time.Millisecond)
		}
	}
	waitUntil(15*time.Second, func() bool { return B.Rec.Len() >= int(seq) })
	got := map[uint64]bool{}
	var order []uint64
	for _, g := range B.Rec.Snapshot(0) {
		if g.Sender == 900 {
			got[g.Seq] = true
			order = append(order, g.Seq)
		}
	}
	dead := map[uint64]bool{}
	A.Ev.mu.Lock()
	for _, d := range A.Ev.Dead {
		dead[d.Seq] = true
	}
	A.Ev.mu.Unlock()
	var lost []string
	nl := 0
	for _, e := range sentAt {
		if !got[e.seq] && !dead[e.seq] {
			nl++
			if len(lost) < 8 {
				lost = append(lost, fmt.Sprintf("seq %d sent at %.4fs", e.seq, e.at.Seconds()))
			}
		}
	}
	conns := B.Proxy.NConns()
	nsent, ndead := int(seq), len(dead)
	post = append(post, func() {
		h.o.Stats["deadline-steady-stream-sent"] += nsent
		h.o.Info["deadline_10s"] = map[string]any{"sent": nsent, "received": len(got), "dead_letters": ndead, "silently_lost": nl, "first_lost": lost, "connections_used": conns}
		if nl > 0 || ndead > 0 {
			h.o.Monitor("c11-steady-stream-loss", lib.L(lib.S("steady-stream-10s"), lib.NI(nsent)),
				fmt.Sprintf("steady stream of %d Tells over 10.7 s on an undisturbed loopback connection: %d received, %d dead letters, %d lost without any report (%s); connections used: %d — the 10 s handshake read/write deadlines are never cleared",
					nsent, len(got), ndead, nl, strings.Join(lost, "; "), conns))
		}
	})
}
