// badrefs.go: C14 - "an undecodable frame does not stop later frames from being delivered", for frames that DECODE
// (length fine, envelope parses, payload decodes) but cannot be handed to anybody: the sender or receiver reference
// is rejected by actor.NewRef inside System.HandleRemotingEnvelop (an absent sender is encoded as two empty strings;
// a bad port; a bare IP; a receiver path without '/'). The proxy injects such frames between the frames of a healthy
// connection: m0 | BAD | m1 | BAD' | m2 ...; every mI must reach the actor. One model case per scenario: the bytes of
// the connection with the table of what actor.NewRef answered for the injected reference strings (RemRun.v: a
// decoded frame with a rejected reference counts as received and is not delivered; the reader goes on).
package main

import (
	"fmt"
	"time"

	"github.com/kercylan98/vivid/internal/actor"
	"github.com/kercylan98/vivid/xverif/lib"
)

const badRefSender = 0xBAD0 // Sender id of the payloads of injected frames (never sent by a system)

type badRef struct{ name, sa, sp, ra, rp string }

func badRefKinds(A, B *Node) []badRef {
	return []badRef{
		{"no-sender", "", "", B.Adv, "/recv"},
		{"bad-sender-port", "127.0.0.1:80x0", "/x", B.Adv, "/recv"},
		{"bare-ip-sender", "127.0.0.1", "/x", B.Adv, "/recv"},
		{"receiver-path-without-slash", A.Adv, "/x", B.Adv, "recv"},
		{"receiver-path-with-blank", A.Adv, "/x", B.Adv, "/re cv"},
		{"no-receiver", A.Adv, "/x", "", ""},
		{"sender-path-empty", A.Adv, "", B.Adv, "/recv"},
		{"sender-port-out-of-range", "127.0.0.1:70000", "/x", B.Adv, "/recv"},
		{"sender-host-invalid", "exa_mple!:8080", "/x", B.Adv, "/recv"},
		{"receiver-nobody-there", A.Adv, "/x", B.Adv, "/nobody-at-this-path"}, // routable: a dead letter on B, no error
	}
}

func (h *H) badRefs(A, B *Node, frameLen func(*XMsg) int) {
	if h.abort {
		return
	}
	kinds := badRefKinds(A, B)
	inj := map[int][]byte{}
	var refs []lib.T
	seenRef := map[string]bool{}
	addRef := func(a, p string) bool {
		_, err := actor.NewRef(a, p)
		if k := a + "\x00" + p; !seenRef[k] {
			seenRef[k] = true
			refs = append(refs, lib.L(lib.S(a), lib.S(p), lib.Bool(err == nil)))
		}
		return err == nil
	}
	names := map[int]string{}
	pos, used := 1, 0
	for i, k := range kinds {
		okS, okR := addRef(k.sa, k.sp), addRef(k.ra, k.rp)
		if okS && okR && k.rp == "/recv" {
			// NewRef accepts both references: the frame is an ordinary message, not a fault (it would be delivered)
			h.o.Stats["bad-ref-kind-accepted-by-NewRef"]++
			continue
		}
		payload := encPayload(&XMsg{Kind: KTell, Sender: badRefSender, Seq: uint64(9000 + i), Data: h.r.Bytes(3 + i)})
		fr := lp(envBytes(payload, "", false, k.sa, k.sp, k.ra, k.rp))
		inj[pos] = append(inj[pos], fr...)
		names[pos] += k.name + " "
		used++
		if used%2 == 1 || pos >= 7 {
			pos++ // sometimes two bad frames in a row
		}
	}
	nmsg := pos + 3
	B.Proxy.KillAll()
	base := B.Proxy.NConns()
	B.Proxy.SetPlan(func(i int) Plan {
		p := defaultPlan()
		p.Inject = inj
		return p
	})
	time.Sleep(2 * time.Millisecond)
	m := mark(B)
	sc := &scenario{name: fmt.Sprintf("injected-bad-refs/limit%d", A.Limit), A: A, B: B, m: m, conn0: base, frameLen: frameLen, refs: refs}
	cs := B.Proxy.Conns(0)
	if len(cs) > 0 {
		sc.first = cs[len(cs)-1]
		// offset into the connection's RECORD (which contains the bytes an earlier scenario injected; Pos() does not count them)
		rec, _ := sc.first.Record()
		sc.start = int64(len(rec))
		sc.cap = 0
	}
	for i := 0; i < nmsg; i++ {
		sc.do(h, h.msg(12, i), 0)
		time.Sleep(300 * time.Microsecond)
	}
	sc.flush(h, 6)
	B.Proxy.SetPlan(func(int) Plan { return defaultPlan() })
	// every message frame the proxy handed to B on the new connection(s) must reach the actor although frames that
	// cannot be routed sit between them (event-driven wait with a generous bound)
	missing := func() (string, bool) {
		have := map[uint64]bool{}
		for _, g := range B.Rec.Snapshot(m.rec) {
			have[g.Seq] = true
		}
		for ci, c := range B.Proxy.Conns(base) {
			rec, _ := c.Record()
			var before []string
			for fi, fr := range splitFrames(rec) {
				x := decodeXMsgFrame(fr)
				if x == nil {
					continue
				}
				if x.Sender == badRefSender {
					before = append(before, fmt.Sprintf("frame %d = injected %d", fi, x.Seq-9000))
					continue
				}
				if !have[x.Seq] {
					return fmt.Sprintf("connection %d: frame %d (message sender %d seq %d) was handed to B after %v and never reached the actor", ci, fi, x.Sender, x.Seq, before), true
				}
			}
		}
		return "", false
	}
	waitUntil(10*time.Second, func() bool { _, miss := missing(); return !miss })
	if d, miss := missing(); miss {
		var ks []string
		for p := 1; p <= pos; p++ {
			if names[p] != "" {
				ks = append(ks, fmt.Sprintf("before frame %d: %s", p, names[p]))
			}
		}
		h.o.Monitor("c14-unroutable-stops-stream", lib.L(lib.S(sc.name), lib.LS(refs)),
			fmt.Sprintf("%s: %s. Injected well-formed envelopes whose sender/receiver reference actor.NewRef rejects (%v); a frame that cannot be delivered must not stop the frames behind it", sc.name, d, ks))
	}
	h.o.Stats["injected-bad-ref-frames"] += used
	sc.finish(h, true)
}
