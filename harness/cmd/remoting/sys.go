// sys.go: two real vivid systems with remoting, the harness codec, the recording actors.
package main

import (
	"encoding/binary"
	"errors"
	"fmt"
	"log/slog"
	"net"
	"sync"
	"sync/atomic"
	"time"

	"github.com/kercylan98/vivid"
	"github.com/kercylan98/vivid/internal/actor"
	"github.com/kercylan98/vivid/pkg/bootstrap"
	"github.com/kercylan98/vivid/pkg/log"
	"github.com/kercylan98/vivid/pkg/ves"
)

// ---- message and codec ----

const (
	KTell    = 1
	KAsk     = 2
	KReply   = 3
	KSync    = 4
	KNoEnc   = 0xEE // the codec refuses to encode this kind
	KTrigger = 5    // local: makes a sender actor emit a burst
	KSlow    = 6    // the codec takes slowDecode to decode it (a large / expensive user payload): acceptcollision.go
)

type XMsg struct {
	Kind   byte
	Sender uint32
	Seq    uint64
	Data   []byte
}

type xcodec struct{}

// how long xcodec.Decode takes for a KSlow payload (user code runs inside the connection's reader actor)
var slowDecode atomic.Int64

var errNoEnc = errors.New("xcodec: refuses to encode")

// wire form of a payload: 'V' 'X' kind sender(4, BE) seq(8, BE) data
func encPayload(m *XMsg) []byte {
	b := make([]byte, 15+len(m.Data))
	b[0], b[1], b[2] = 'V', 'X', m.Kind
	binary.BigEndian.PutUint32(b[3:], m.Sender)
	binary.BigEndian.PutUint64(b[7:], m.Seq)
	copy(b[15:], m.Data)
	return b
}

func (xcodec) Encode(message vivid.Message) ([]byte, error) {
	m, ok := message.(*XMsg)
	if !ok {
		return nil, fmt.Errorf("xcodec: %T", message)
	}
	if m.Kind == KNoEnc {
		return nil, errNoEnc
	}
	return encPayload(m), nil
}

func (xcodec) Decode(b []byte) (vivid.Message, error) {
	if len(b) < 15 || b[0] != 'V' || b[1] != 'X' {
		return nil, errors.New("xcodec: not an XMsg")
	}
	if b[2] == KSlow {
		time.Sleep(time.Duration(slowDecode.Load()))
	}
	return &XMsg{Kind: b[2], Sender: binary.BigEndian.Uint32(b[3:]), Seq: binary.BigEndian.Uint64(b[7:]), Data: append([]byte(nil), b[15:]...)}, nil
}

// cksum must agree with Remoting/RemRun.v [cksum]
func cksum(b []byte) uint64 {
	var a uint64
	for _, x := range b {
		a = (a*31 + uint64(x)) % 4294967291
	}
	return a
}

// ---- observations ----

type Got struct {
	Kind    byte
	Sender  uint32
	Seq     uint64
	Len     int
	Sum     uint64
	From    string // ctx.Sender() as seen by the receiver
	At      time.Time
}

type Recorder struct {
	mu   sync.Mutex
	got  []Got
}

func (r *Recorder) add(g Got) {
	r.mu.Lock()
	r.got = append(r.got, g)
	r.mu.Unlock()
}
func (r *Recorder) Len() int {
	r.mu.Lock()
	defer r.mu.Unlock()
	return len(r.got)
}
func (r *Recorder) Snapshot(from int) []Got {
	r.mu.Lock()
	defer r.mu.Unlock()
	return append([]Got(nil), r.got[from:]...)
}

type SysEvents struct {
	mu         sync.Mutex
	DecodeFail []ves.RemotingMessageDecodeFailedEvent
	Received   []ves.RemotingMessageReceivedEvent
	ConnFailed []ves.RemotingConnectionFailedEvent
	SendFailed []ves.RemotingMessageSendFailedEvent
	Sent       []ves.RemotingMessageSentEvent
	Dead       []*XMsg      // XMsg dead letters, in order
	DeadOther  int
	ReadFailed []string     // ConnectionReadFailedHandler calls (fatal flag + error text)
	Oversize   []uint64     // "invalid message length" warnings of the connection readers (length attribute)
	Trace      []string     // sender-side events in publication order: "cf<n>" "sf" "ok" "dl<sender>:<seq>"
	ListenDelays []time.Duration // "server listener listen failed, restart later": the delay of every failed attempt to listen
	Logged     []string     // the last warnings / errors the system logged (capLogger.keep)
}

func (e *SysEvents) snapshotCounts() (df, rc, cf, sf, st, dl, rf, tr int) {
	e.mu.Lock()
	defer e.mu.Unlock()
	return len(e.DecodeFail), len(e.Received), len(e.ConnFailed), len(e.SendFailed), len(e.Sent), len(e.Dead), len(e.Oversize), len(e.Trace)
}

// capLogger: a silent logger that keeps the one warning the harness needs to observe
type capLogger struct{ ev *SysEvents }

func (l capLogger) Debug(string, ...any) {}
func (l capLogger) Info(string, ...any)  {}
func (l capLogger) Error(message string, args ...any) { l.keep("E", message, args) }

// keep: the last warnings / errors the system logged (diagnostics in monitor details only)
func (l capLogger) keep(level, message string, args []any) {
	s := level + " " + message
	for _, a := range args {
		if at, ok := a.(slog.Attr); ok {
			s += fmt.Sprintf(" %s=%v", at.Key, at.Value.Any())
		}
	}
	if len(s) > 400 {
		s = s[:400] + "..."
	}
	l.ev.mu.Lock()
	if len(l.ev.Logged) >= 64 {
		l.ev.Logged = append(l.ev.Logged[:0], l.ev.Logged[32:]...)
	}
	l.ev.Logged = append(l.ev.Logged, fmt.Sprintf("%s %s", time.Now().Format("15:04:05.000"), s))
	l.ev.mu.Unlock()
}
func (l capLogger) Warn(message string, args ...any) {
	l.keep("W", message, args)
	if message == "server listener listen failed, restart later" {
		for _, a := range args {
			if at, ok := a.(slog.Attr); ok && at.Key == "delay" {
				l.ev.mu.Lock()
				l.ev.ListenDelays = append(l.ev.ListenDelays, at.Value.Duration())
				l.ev.mu.Unlock()
			}
		}
		return
	}
	if message != "invalid message length" {
		return
	}
	for _, a := range args {
		if at, ok := a.(slog.Attr); ok && at.Key == "length" {
			l.ev.mu.Lock()
			l.ev.Oversize = append(l.ev.Oversize, uint64(at.Value.Int64()))
			l.ev.mu.Unlock()
		}
	}
}
func (l capLogger) With(...any) log.Logger       { return l }
func (l capLogger) WithGroup(string) log.Logger { return l }

// Node = one real actor system with remoting behind its own proxy.
type Node struct {
	Name     string
	Sys      vivid.PrimaryActorSystem
	Bind     string
	Proxy    *Proxy     // in front of this node: peers dial Proxy.Addr()
	Adv      string
	Rec      *Recorder  // what the receiving actor /recv saw
	Rec2     *Recorder  // what the second receiving actor /recv2 saw
	Direct   bool       // no proxy: advertised address = bind address
	Ev       *SysEvents
	RecvRef  vivid.ActorRef
	senders  map[uint32]vivid.ActorRef
	Limit    int
	Replies  *Recorder // KReply messages that reached sender actors by Tell (not through futures)
	AskOK    atomic.Int64
	AskBad   atomic.Int64
	askDetail sync.Map
	obsRef    vivid.ActorRef
}

type barrier struct{ ch chan struct{} }

// Barrier returns when the event observer has handled everything that was in its mailbox: every event published
// before an already observed delivery is then accounted for.
func (n *Node) Barrier() {
	b := &barrier{ch: make(chan struct{})}
	n.Sys.Tell(n.obsRef, b)
	select {
	case <-b.ch:
	case <-time.After(5 * time.Second):
	}
}

func freePort() (string, error) {
	l, err := net.Listen("tcp", "127.0.0.1:0")
	if err != nil {
		return "", err
	}
	a := l.Addr().String()
	l.Close()
	return a, nil
}

func waitListening(addr string, d time.Duration) bool {
	dl := time.Now().Add(d)
	for time.Now().Before(dl) {
		c, err := net.DialTimeout("tcp", addr, 200*time.Millisecond)
		if err == nil {
			// behave like a peer that goes away before the handshake: the acceptor's Wait fails, nothing else happens
			c.Close()
			return true
		}
		time.Sleep(5 * time.Millisecond)
	}
	return false
}

type readFailed struct{ ev *SysEvents }

func (h readFailed) HandleRemotingConnectionReadFailed(fatal bool, err error) error {
	h.ev.mu.Lock()
	h.ev.ReadFailed = append(h.ev.ReadFailed, fmt.Sprintf("%v|%v", fatal, err))
	h.ev.mu.Unlock()
	return nil
}

// StartNode starts a system bound to a fresh loopback port, advertised through a fresh proxy.
// proxy == nil creates one; otherwise the given proxy (already listening on the advertised address) is re-targeted
// (peer restart: same advertised address, new process).
func StartNode(name string, limit int, proxy *Proxy) (*Node, error) {
	return startNode(name, limit, proxy, false)
}

// StartDirectNode: a system whose peers dial it directly (no proxy in between)
func StartDirectNode(name string, limit int) (*Node, error) { return startNode(name, limit, nil, true) }

func startNode(name string, limit int, proxy *Proxy, direct bool) (*Node, error) {
	var lastErr error
	for try := 0; try < 5; try++ {
		bind, err := freePort()
		if err != nil {
			return nil, err
		}
		n := &Node{Name: name, Bind: bind, Rec: &Recorder{}, Rec2: &Recorder{}, Direct: direct, Replies: &Recorder{}, Ev: &SysEvents{}, senders: map[uint32]vivid.ActorRef{}, Limit: limit}
		if direct {
			n.Adv = bind
		} else if proxy == nil {
			n.Proxy, err = NewProxy(bind)
			if err != nil {
				return nil, err
			}
			n.Adv = n.Proxy.Addr()
		} else {
			n.Proxy = proxy
			proxy.SetTarget(bind)
			n.Adv = n.Proxy.Addr()
		}
		ro := vivid.NewActorSystemRemotingOptions(vivid.WithActorSystemRemotingReconnectLimit(limit))
		ro.ConnectionReadFailedHandler = readFailed{n.Ev}
		n.Sys = bootstrap.NewActorSystem(
			vivid.WithActorSystemLogger(capLogger{n.Ev}),
			vivid.WithActorSystemRemoting(bind, n.Adv),
			vivid.WithActorSystemCodec(xcodec{}),
			vivid.WithActorSystemRemotingOptions(ro),
			vivid.WithActorSystemStopTimeout(10*time.Second),
		)
		if err := n.Sys.Start(); err != nil {
			lastErr = err
			continue
		}
		if !waitListening(bind, 3*time.Second) {
			lastErr = fmt.Errorf("%s: remoting listener on %s did not come up", name, bind)
			n.Sys.Stop(5 * time.Second)
			if proxy == nil && !direct {
				n.Proxy.Close()
			}
			continue
		}
		if err := n.spawn(); err != nil {
			return nil, err
		}
		return n, nil
	}
	return nil, lastErr
}

func (n *Node) spawn() error {
	ready := make(chan struct{})
	// event observer
	var err error
	n.obsRef, err = n.Sys.ActorOf(vivid.ActorFN(func(ctx vivid.ActorContext) {
		ev := n.Ev
		switch m := ctx.Message().(type) {
		case *vivid.OnLaunch:
			es := ctx.EventStream()
			es.Subscribe(ctx, ves.RemotingMessageDecodeFailedEvent{})
			es.Subscribe(ctx, ves.RemotingMessageReceivedEvent{})
			es.Subscribe(ctx, ves.RemotingConnectionFailedEvent{})
			es.Subscribe(ctx, ves.RemotingMessageSendFailedEvent{})
			es.Subscribe(ctx, ves.RemotingMessageSentEvent{})
			es.Subscribe(ctx, ves.DeathLetterEvent{})
			close(ready)
		case *barrier:
			close(m.ch)
		case ves.RemotingMessageDecodeFailedEvent:
			ev.mu.Lock()
			ev.DecodeFail = append(ev.DecodeFail, m)
			ev.mu.Unlock()
		case ves.RemotingMessageReceivedEvent:
			ev.mu.Lock()
			ev.Received = append(ev.Received, m)
			ev.mu.Unlock()
		case ves.RemotingConnectionFailedEvent:
			ev.mu.Lock()
			ev.ConnFailed = append(ev.ConnFailed, m)
			ev.Trace = append(ev.Trace, fmt.Sprintf("cf%d", m.RetryCount))
			ev.mu.Unlock()
		case ves.RemotingMessageSendFailedEvent:
			ev.mu.Lock()
			ev.SendFailed = append(ev.SendFailed, m)
			ev.Trace = append(ev.Trace, "sf")
			ev.mu.Unlock()
		case ves.RemotingMessageSentEvent:
			ev.mu.Lock()
			ev.Sent = append(ev.Sent, m)
			ev.Trace = append(ev.Trace, "ok")
			ev.mu.Unlock()
		case ves.DeathLetterEvent:
			ev.mu.Lock()
			if x, ok := m.Envelope.Message().(*XMsg); ok {
				ev.Dead = append(ev.Dead, x)
				ev.Trace = append(ev.Trace, fmt.Sprintf("dl%d:%d", x.Sender, x.Seq))
			} else {
				ev.DeadOther++
			}
			ev.mu.Unlock()
		}
	}), vivid.WithActorName("xv-events"))
	if err != nil {
		return err
	}
	select {
	case <-ready:
	case <-time.After(30 * time.Second):
		return errors.New("event observer did not start")
	}
	// receiving actor: records, answers Asks
	n.RecvRef, err = n.Sys.ActorOf(vivid.ActorFN(func(ctx vivid.ActorContext) {
		if m, ok := ctx.Message().(*XMsg); ok {
			from := ""
			if s := ctx.Sender(); s != nil {
				from = s.GetAddress() + s.GetPath()
			}
			n.Rec.add(Got{Kind: m.Kind, Sender: m.Sender, Seq: m.Seq, Len: len(m.Data), Sum: cksum(m.Data), From: from, At: time.Now()})
			if m.Kind == KAsk {
				ctx.Reply(&XMsg{Kind: KReply, Sender: m.Sender, Seq: m.Seq, Data: m.Data})
			}
		}
	}), vivid.WithActorName("recv"))
	if err != nil {
		return err
	}
	_, err = n.Sys.ActorOf(vivid.ActorFN(func(ctx vivid.ActorContext) {
		if m, ok := ctx.Message().(*XMsg); ok {
			from := ""
			if s := ctx.Sender(); s != nil {
				from = s.GetAddress() + s.GetPath()
			}
			n.Rec2.add(Got{Kind: m.Kind, Sender: m.Sender, Seq: m.Seq, Len: len(m.Data), Sum: cksum(m.Data), From: from, At: time.Now()})
			if m.Kind == KAsk {
				ctx.Reply(&XMsg{Kind: KReply, Sender: m.Sender, Seq: m.Seq, Data: m.Data})
			}
		}
	}), vivid.WithActorName("recv2"))
	return err
}

// Burst describes what one sender actor emits when triggered.
type Burst struct {
	To     vivid.ActorRef
	Msgs   []*XMsg
	Gap    time.Duration
	Done   chan struct{}
	AskTimeout time.Duration
}

// Sender spawns (once) the sender actor with the given id and returns its ref.
func (n *Node) Sender(id uint32) (vivid.ActorRef, error) {
	if r, ok := n.senders[id]; ok {
		return r, nil
	}
	r, err := n.Sys.ActorOf(vivid.ActorFN(func(ctx vivid.ActorContext) {
		switch m := ctx.Message().(type) {
		case *Burst:
			var wg sync.WaitGroup
			for _, x := range m.Msgs {
				if x.Kind == KAsk {
					f := ctx.Ask(m.To, x, m.AskTimeout)
					wg.Add(1)
					x := x
					go func() {
						defer wg.Done()
						res, err := f.Result()
						rp, ok := res.(*XMsg)
						if err != nil || !ok || rp.Kind != KReply || rp.Seq != x.Seq || rp.Sender != x.Sender || len(rp.Data) != len(x.Data) || cksum(rp.Data) != cksum(x.Data) {
							n.AskBad.Add(1)
							n.askDetail.Store(fmt.Sprintf("%d:%d", x.Sender, x.Seq), fmt.Sprintf("err=%v reply=%T", err, res))
						} else {
							n.AskOK.Add(1)
						}
					}()
				} else {
					ctx.Tell(m.To, x)
				}
				if m.Gap > 0 {
					time.Sleep(m.Gap)
				}
			}
			done := m.Done
			go func() { wg.Wait(); close(done) }()
		case *XMsg:
			n.Replies.add(Got{Kind: m.Kind, Sender: m.Sender, Seq: m.Seq, Len: len(m.Data), Sum: cksum(m.Data), At: time.Now()})
		}
	}), vivid.WithActorName(fmt.Sprintf("snd%d", id)))
	if err != nil {
		return nil, err
	}
	n.senders[id] = r
	return r, nil
}

func (n *Node) Stop() {
	done := make(chan struct{})
	go func() { n.Sys.Stop(8 * time.Second); close(done) }()
	select {
	case <-done:
	case <-time.After(12 * time.Second):
	}
}

// RemoteRecv is the ref of peer's /recv actor as seen from another system.
func RemoteRecv(peer *Node) vivid.ActorRef {
	r, err := actor.NewRef(peer.Adv, "/recv")
	if err != nil {
		panic(err)
	}
	return r
}

func RemoteRecv2(peer *Node) vivid.ActorRef {
	r, err := actor.NewRef(peer.Adv, "/recv2")
	if err != nil {
		panic(err)
	}
	return r
}

func waitUntil(d time.Duration, f func() bool) bool {
	dl := time.Now().Add(d)
	for {
		if f() {
			return true
		}
		if time.Now().After(dl) {
			return false
		}
		time.Sleep(500 * time.Microsecond)
	}
}
