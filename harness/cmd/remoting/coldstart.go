// coldstart.go: C11 - first contact. A FRESH sender system whose outbound-mailbox table (remoting.MailboxCentral) is
// empty, N concurrent senders (plain goroutines through ActorSystem.Tell, or actors through ActorContext.Tell)
// released from a spin barrier so that their very first remote sends fall into the same instant, each sending a
// short numbered burst to every peer address of the round (the peer's advertised address and its "localhost:PORT"
// alias are two address strings = two mailboxes = two connections, legitimately). The link is healthy (the proxies
// pass the bytes through unchanged, nothing is cut or killed).
//
// Monitors (the property: "exactly once, intact, in the order sent - several concurrent senders"):
//   c11-cold-start-order        per (sender, address) the receiving actor must see exactly 0,1,2,.. once each, in order
//   c11-cold-start-connections  the frames ONE sender sends to ONE peer address over a healthy link travel on ONE
//                               connection (a second connection has its own reader actor on the receiving side and
//                               nothing orders the two). Deterministic whenever a second mailbox was made for an
//                               address, also when the reorder does not show. (A transport that gave every sender a
//                               connection of its own would not trip it; the model case would then differ.)
// Model case per round (Remoting/Central.v through RemRun.v op 6): the messages in the fixed order (address, sender,
// seq), each with its address; observed: the connection each travelled on, numbered by first appearance in that order.
package main

import (
	"fmt"
	"net"
	"runtime"
	"sort"
	"sync"
	"sync/atomic"
	"time"

	"github.com/kercylan98/vivid"
	"github.com/kercylan98/vivid/internal/actor"
	"github.com/kercylan98/vivid/xverif/lib"
)

// receiver address string of an envelope body (payload lp4, name lp4, system 1, sender addr/path lp4, receiver addr lp4 ..)
func envReceiverAddr(body []byte) (string, bool) {
	p := 0
	skip := func() ([]byte, bool) {
		if p+4 > len(body) {
			return nil, false
		}
		n := int(uint32(body[p])<<24 | uint32(body[p+1])<<16 | uint32(body[p+2])<<8 | uint32(body[p+3]))
		if p+4+n > len(body) {
			return nil, false
		}
		b := body[p+4 : p+4+n]
		p += 4 + n
		return b, true
	}
	if _, ok := skip(); !ok { // payload
		return "", false
	}
	if _, ok := skip(); !ok { // name
		return "", false
	}
	p++ // system flag
	if _, ok := skip(); !ok {
		return "", false
	}
	if _, ok := skip(); !ok {
		return "", false
	}
	ra, ok := skip()
	return string(ra), ok
}

type csGo struct{ trigger chan struct{} }

func (h *H) coldStartRound(round int) {
	n := 8 + h.r.Intn(9) // 8..16 senders
	if max := runtime.NumCPU(); n > max && max >= 4 {
		n = max
	}
	burst := 3 + h.r.Intn(5)
	useActors := h.r.Intn(2) == 0
	twoSystems := h.r.Intn(3) == 0
	A, err := StartDirectNode(fmt.Sprintf("ca%d", round), 0)
	if err != nil {
		panic(err)
	}
	peers := []*Node{}
	nb := 1
	if twoSystems {
		nb = 2
	}
	for i := 0; i < nb; i++ {
		P, err := StartNode(fmt.Sprintf("cb%d_%d", round, i), 0, nil)
		if err != nil {
			panic(err)
		}
		P.Proxy.SetPlan(func(int) Plan { return defaultPlan() })
		peers = append(peers, P)
	}
	defer func() {
		A.Stop()
		for _, P := range peers {
			P.Stop()
			P.Proxy.Close()
		}
	}()
	// the address strings of the round: advertised address and (when it resolves here) the localhost alias, both through the proxy
	type target struct {
		addr string
		peer int
		ref  vivid.ActorRef
	}
	var tgts []target
	for pi, P := range peers {
		addrs := []string{P.Adv}
		if _, port, err := net.SplitHostPort(P.Adv); err == nil {
			a := net.JoinHostPort("localhost", port)
			if c, err := net.DialTimeout("tcp", a, 500*time.Millisecond); err == nil {
				c.Close()
				addrs = append(addrs, a)
			}
		}
		for _, a := range addrs {
			r, err := actor.NewRef(a, "/recv")
			if err != nil {
				panic(err)
			}
			tgts = append(tgts, target{a, pi, r})
		}
	}
	// the probe dials above opened (and closed) connections at the proxies without a handshake: forget them
	time.Sleep(2 * time.Millisecond)
	base := make([]int, len(peers))
	for pi, P := range peers {
		base[pi] = P.Proxy.NConns()
	}
	k := len(tgts)
	const senderBase = 500
	seqOf := func(ti, s int) uint64 { return uint64(ti*1000 + s) }
	var ready, goFlag int32
	var wg sync.WaitGroup
	send := func(id int, tell func(ref vivid.ActorRef, m *XMsg)) {
		atomic.AddInt32(&ready, 1)
		for atomic.LoadInt32(&goFlag) == 0 {
		}
		// first contact: sender id starts with address id mod k, so every address is contacted for the first time by several senders at once
		for j := 0; j < k; j++ {
			ti := (id + j) % k
			for s := 0; s < burst; s++ {
				tell(tgts[ti].ref, &XMsg{Kind: KTell, Sender: uint32(senderBase + id), Seq: seqOf(ti, s), Data: []byte{byte(id), byte(ti), byte(s)}})
			}
		}
		wg.Done()
	}
	wg.Add(n)
	if useActors {
		for id := 0; id < n; id++ {
			id := id
			ref, err := A.Sys.ActorOf(vivid.ActorFN(func(ctx vivid.ActorContext) {
				if _, ok := ctx.Message().(*csGo); ok {
					send(id, func(r vivid.ActorRef, m *XMsg) { ctx.Tell(r, m) })
				}
			}), vivid.WithActorName(fmt.Sprintf("cs%d", id)))
			if err != nil {
				panic(err)
			}
			A.Sys.Tell(ref, &csGo{})
		}
	} else {
		for id := 0; id < n; id++ {
			id := id
			go send(id, func(r vivid.ActorRef, m *XMsg) { A.Sys.Tell(r, m) })
		}
	}
	if !waitUntil(10*time.Second, func() bool { return atomic.LoadInt32(&ready) == int32(n) }) {
		atomic.StoreInt32(&goFlag, 1)
		h.o.Stats["cold-start-round-skipped"]++
		wg.Wait()
		return
	}
	atomic.StoreInt32(&goFlag, 1)
	wg.Wait()
	// everything was written (Tell returns after the write); wait until the receivers have it all, generously
	perPeer := make([]int, len(peers))
	for _, t := range tgts {
		perPeer[t.peer] += n * burst
	}
	waitUntil(15*time.Second, func() bool {
		for pi, P := range peers {
			if P.Rec.Len() < perPeer[pi] {
				return false
			}
		}
		return true
	})
	time.Sleep(5 * time.Millisecond)
	api := "ActorSystem.Tell from goroutines"
	if useActors {
		api = "ActorContext.Tell from actors"
	}
	params := fmt.Sprintf("round %d: %d senders x burst %d x %d address strings (%d systems), %s, seed %d", round, n, burst, k, len(peers), api, h.seed)
	desc := lib.L(lib.S("cold-start"), lib.NI(round), lib.NI(n), lib.NI(burst), lib.NI(k), lib.Bool(useActors))
	// ---- the wire: which connection carried which message ----
	type key struct {
		ti, id, s int
	}
	connOf := map[key]string{} // -> "peer/connIdx"
	perAddrConns := map[int]map[string][]string{}
	tiOfAddr := map[string]int{}
	for ti, t := range tgts {
		tiOfAddr[t.addr] = ti
		perAddrConns[ti] = map[string][]string{}
	}
	for pi, P := range peers {
		for _, c := range P.Proxy.Conns(base[pi]) {
			rec, _ := c.Record()
			cname := fmt.Sprintf("%d/%d", pi, c.Idx)
			for _, fr := range splitFrames(rec) {
				x := decodeXMsgFrame(fr)
				ra, ok := envReceiverAddr(fr)
				if x == nil || !ok || x.Sender < senderBase {
					continue
				}
				ti, ok := tiOfAddr[ra]
				if !ok {
					continue
				}
				id, s := int(x.Sender)-senderBase, int(x.Seq)-ti*1000
				connOf[key{ti, id, s}] = cname
				perAddrConns[ti][cname] = append(perAddrConns[ti][cname], fmt.Sprintf("%d:%d", id, s))
			}
		}
	}
	multi := false
	for ti, t := range tgts {
		// which senders have their frames to this address on more than one connection? (a transport that gave every
		// sender its own connection would keep each sender's order; one sender's frames on two connections cannot be ordered)
		split := map[int]map[string]bool{}
		for id := 0; id < n; id++ {
			for sq := 0; sq < burst; sq++ {
				if c, ok := connOf[key{ti, id, sq}]; ok {
					if split[id] == nil {
						split[id] = map[string]bool{}
					}
					split[id][c] = true
				}
			}
		}
		var splitSenders []int
		for id := 0; id < n; id++ {
			if len(split[id]) > 1 {
				splitSenders = append(splitSenders, id)
			}
		}
		if len(perAddrConns[ti]) > 1 {
			h.o.Stats["cold-start-addresses-with-several-connections"]++
		}
		if len(splitSenders) > 0 {
			multi = true
			var parts []string
			var names []string
			for c := range perAddrConns[ti] {
				names = append(names, c)
			}
			sort.Strings(names)
			for _, c := range names {
				parts = append(parts, fmt.Sprintf("connection %s carried (sender:seq) %v", c, perAddrConns[ti][c]))
			}
			h.o.Monitor("c11-cold-start-connections", desc, fmt.Sprintf("%s: the frames of sender(s) %v to the ONE address %s travelled on more than one connection over a healthy link (each connection has its own reader on the receiving side: nothing orders them): %v", params, splitSenders, t.addr, parts))
		}
	}
	// ---- the receiving actors: per (sender, address) exactly 0..burst-1 in order ----
	got := map[[2]int][]int{}
	bad := ""
	for _, P := range peers {
		for _, g := range P.Rec.Snapshot(0) {
			if g.Sender < senderBase {
				continue
			}
			id, ti, s := int(g.Sender)-senderBase, int(g.Seq)/1000, int(g.Seq)%1000
			if g.Len != 3 || g.Sum != cksum([]byte{byte(id), byte(ti), byte(s)}) {
				bad = fmt.Sprintf("sender %d address #%d seq %d arrived with %d data bytes, checksum %d", id, ti, s, g.Len, g.Sum)
			}
			got[[2]int{id, ti}] = append(got[[2]int{id, ti}], s)
		}
	}
	if bad != "" {
		h.o.Monitor("c11-cold-start-order", desc, params+": not intact: "+bad)
	}
	for id := 0; id < n; id++ {
		for ti := range tgts {
			seq := got[[2]int{id, ti}]
			ok := len(seq) == burst
			for i := 0; ok && i < burst; i++ {
				ok = seq[i] == i
			}
			if !ok {
				conns := []string{}
				for s := 0; s < burst; s++ {
					conns = append(conns, connOf[key{ti, id, s}])
				}
				h.o.Monitor("c11-cold-start-order", desc, fmt.Sprintf("%s: sender %d sent 0..%d to %s as its first traffic; the actor received %v (its frames travelled on connections %v)", params, id, burst-1, tgts[ti].addr, seq, conns))
			}
		}
	}
	// ---- model case ----
	type msg struct {
		addr      string
		ti, id, s int
	}
	var ms []msg
	for ti, t := range tgts {
		for id := 0; id < n; id++ {
			for s := 0; s < burst; s++ {
				ms = append(ms, msg{t.addr, ti, id, s})
			}
		}
	}
	sort.SliceStable(ms, func(i, j int) bool {
		if ms[i].addr != ms[j].addr {
			return ms[i].addr < ms[j].addr
		}
		if ms[i].id != ms[j].id {
			return ms[i].id < ms[j].id
		}
		return ms[i].s < ms[j].s
	})
	num := map[string]int{}
	var in, out []lib.T
	complete := true
	for _, m := range ms {
		c, ok := connOf[key{m.ti, m.id, m.s}]
		if !ok {
			complete = false
			break
		}
		if _, seen := num[c]; !seen {
			num[c] = len(num)
		}
		in = append(in, lib.S(m.addr))
		out = append(out, lib.NI(num[c]))
	}
	if complete {
		h.o.Case("cold-start", true, lib.L(lib.N(6), lib.LS(in)), lib.LS(out))
	} else {
		h.o.Stats["cold-start-case-skipped"]++
	}
	h.o.Stats["cold-start-rounds"]++
	h.o.Stats["cold-start-first-contacts"] += k
	h.o.Stats["cold-start-messages"] += len(ms)
	if multi {
		h.o.Stats["cold-start-rounds-with-second-connection"]++
	}
}

func (h *H) coldStart() {
	rounds := 12
	if h.tier == "thorough" {
		rounds = 150
	}
	t0 := time.Now()
	for r := 0; r < rounds; r++ {
		h.coldStartRound(r)
		if len(h.o.Monitors) > 40 {
			break
		}
	}
	h.o.Info["cold_start_s"] = time.Since(t0).Seconds()
	h.logf("cold start: %d rounds in %.1fs", rounds, time.Since(t0).Seconds())
}
