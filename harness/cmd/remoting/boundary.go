// boundary.go: C15 — boundary inputs.  The other transparency scenarios use short ASCII reasons and tiny payloads;
// here every operation is run with inputs that sit on the edges of the wire encodings (1-byte / 2-byte / 4-byte length
// prefixes, 64 KiB frames, multi-byte runes crossing byte 255/256, variadic reasons joined by the library, arbitrary
// non-UTF-8 bytes) ONCE through a LOCAL ref (the actor lives on the calling system A; the ref is the one ActorOf returned)
// and ONCE through a REMOTE ref (the actor lives on B; the ref is rebuilt on A from address + path), and the observable
// effects are compared:
//
//	Kill(ref, poison, reasons...)  the target terminates (its own OnKilled), saw exactly one OnKill carrying exactly the
//	                               joined reason, the poison flag and a killer ref designating the calling actor; the
//	                               watchers on A and on the third system C get exactly one OnKilled naming the target
//	Ask / Reply                    the echoed payload comes back intact (length, checksum, bytes); an error Reply
//	                               (*vivid.Error with a message text of boundary length) fails the Ask with that code + text
//	PipeTo                         forwarders = [actor on C (remote), actor on A (local)], target local and remote: the remote
//	                               forwarder gets a PipeResult with the content the local forwarder (the control) got,
//	                               for success results (payload sizes) and failure results (error text sizes)
//
// Every monitor's detail text and case term name the input: operation, field, byte length, label, poison flag, local / remote.
// Monitors:
//
//	c15-boundary:kill-not-terminated   the remote target survived a Kill that terminated the local control
//	c15-boundary:kill-onkill-count     the remote target did not see exactly one OnKill
//	c15-boundary:kill-reason-differs   OnKill.Reason at the remote target is not the issued (joined) reason
//	c15-boundary:kill-poison-differs   OnKill.Poison at the remote target is not the issued flag
//	c15-boundary:kill-killer-differs   OnKill.Killer at the remote target does not designate the calling actor
//	c15-boundary:watch                 a watcher (on A or on C) did not get exactly one OnKilled naming a killed target
//	c15-boundary:ask-reply             Ask through the remote ref: reply lost / not intact / error reply differs
//	c15-boundary:pipe                  PipeResult at the remote forwarder (or for the remote target) differs from the control
//	c15-boundary:local-control         the LOCAL control itself misbehaved (not a transparency violation; reported, never hidden)
//
// All random choices (filler bytes, runes, payloads, extra lengths around the edges, chunking mode order) derive from h.r.
package main

import (
	"bytes"
	"errors"
	"fmt"
	"os"
	"sort"
	"strconv"
	"strings"
	"sync"
	"time"

	"github.com/kercylan98/vivid"
	"github.com/kercylan98/vivid/pkg/ves"
	"github.com/kercylan98/vivid/xverif/lib"
)

// XMsg.Sender values that select the boundary target's answer to an Ask
const (
	bEcho = 41 // Reply(XMsg{KReply, Seq, Data})
	bFail = 42 // Reply(*vivid.Error whose GetMessage() is exactly string(Data))
)

// two error codes of the harness: an Error with an EMPTY message text can only be made by registration
var (
	bErrEmpty = vivid.RegisterError(77700001, "")
	bErrBase  = vivid.RegisterError(77700002, "b")
)

// bErrPrefix: message texts the target can produce exactly: "" | "b: "+x | "exception: "+x (x non-empty)
const (
	bPrefBase = "b: "
	bPrefExc  = "exception: "
)

func bMakeErr(text string) *vivid.Error {
	switch {
	case text == "":
		return bErrEmpty
	case strings.HasPrefix(text, bPrefExc) && len(text) > len(bPrefExc):
		return vivid.ErrorException.WithMessage(text[len(bPrefExc):])
	case strings.HasPrefix(text, bPrefBase) && len(text) > len(bPrefBase):
		return bErrBase.WithMessage(text[len(bPrefBase):])
	}
	return bErrBase // "b": not used by the generators
}

func bErrCodeOf(text string) int32 {
	switch {
	case text == "":
		return bErrEmpty.GetCode()
	case strings.HasPrefix(text, bPrefExc):
		return vivid.ErrorException.GetCode()
	}
	return bErrBase.GetCode()
}

// ---- actors ----

type bKillSeen struct {
	killerAddr, killerPath string
	nilKiller              bool
	reason                 string
	poison                 bool
}

type bTgtLog struct {
	mu     sync.Mutex
	kills  []bKillSeen
	killed int            // own OnKilled
	got    map[uint64]Got // XMsg received, by Seq
}

func (l *bTgtLog) nKilled() int { l.mu.Lock(); defer l.mu.Unlock(); return l.killed }
func (l *bTgtLog) killsCopy() []bKillSeen {
	l.mu.Lock()
	defer l.mu.Unlock()
	return append([]bKillSeen(nil), l.kills...)
}
func (l *bTgtLog) gotSeq(seq uint64) (Got, bool) {
	l.mu.Lock()
	defer l.mu.Unlock()
	g, ok := l.got[seq]
	return g, ok
}

func spawnBTarget(n *Node, name string, tl *bTgtLog) (vivid.ActorRef, error) {
	tl.got = map[uint64]Got{}
	return n.Sys.ActorOf(vivid.ActorFN(func(ctx vivid.ActorContext) {
		switch m := ctx.Message().(type) {
		case *vivid.OnKill:
			s := bKillSeen{reason: m.Reason, poison: m.Poison}
			if m.Killer == nil {
				s.nilKiller = true
			} else {
				s.killerAddr, s.killerPath = m.Killer.GetAddress(), m.Killer.GetPath()
			}
			tl.mu.Lock()
			tl.kills = append(tl.kills, s)
			tl.mu.Unlock()
		case *vivid.OnKilled:
			if m.Ref != nil && m.Ref.Equals(ctx.Ref()) {
				tl.mu.Lock()
				tl.killed++
				tl.mu.Unlock()
			}
		case *XMsg:
			tl.mu.Lock()
			tl.got[m.Seq] = Got{Kind: m.Kind, Sender: m.Sender, Seq: m.Seq, Len: len(m.Data), Sum: cksum(m.Data)}
			tl.mu.Unlock()
			if m.Kind != KAsk {
				return
			}
			switch m.Sender {
			case bEcho:
				ctx.Reply(&XMsg{Kind: KReply, Sender: m.Sender, Seq: m.Seq, Data: m.Data})
			case bFail:
				ctx.Reply(bMakeErr(string(m.Data)))
			default:
				ctx.Reply(&XMsg{Kind: KReply, Sender: m.Sender, Seq: m.Seq})
			}
		}
	}), vivid.WithActorName(name))
}

type bKill struct {
	ref     vivid.ActorRef
	poison  bool
	reasons []string
	done    chan struct{}
}

// spawnBAgent: killer / watcher / piper / forwarder of the boundary scenarios
func spawnBAgent(n *Node, name string, al *agentLog) (vivid.ActorRef, error) {
	return n.Sys.ActorOf(vivid.ActorFN(func(ctx vivid.ActorContext) {
		switch m := ctx.Message().(type) {
		case *rspWatch:
			ctx.Watch(m.ref)
			close(m.done)
		case *bKill:
			ctx.Kill(m.ref, m.poison, m.reasons...)
			close(m.done)
		case *doPipe:
			m.id <- ctx.PipeTo(m.to, m.msg, m.forwarders, m.timeout)
		case *vivid.OnKilled:
			if m.Ref != nil && !m.Ref.Equals(ctx.Ref()) {
				al.mu.Lock()
				al.killed = append(al.killed, refStr(m.Ref))
				al.mu.Unlock()
			}
		case *vivid.PipeResult:
			al.mu.Lock()
			al.pipes = append(al.pipes, m)
			al.mu.Unlock()
		}
	}), vivid.WithActorName(name))
}

// bObs: the dead letters of one system that are not harness messages (a built-in message that was given up)
type bObs struct {
	mu       sync.Mutex
	deadKill map[string]int // receiver path of a dead-lettered *vivid.OnKill
	deadPipe map[string]int // Id of a dead-lettered *vivid.PipeResult
	deadErr  int            // dead-lettered *vivid.Error (an error Reply that was given up)
}

func (o *bObs) killDead(path string) bool {
	o.mu.Lock()
	defer o.mu.Unlock()
	return o.deadKill[path] > 0
}
func (o *bObs) pipeDead(id string) bool { o.mu.Lock(); defer o.mu.Unlock(); return o.deadPipe[id] > 0 }

func spawnBObs(n *Node) (*bObs, error) {
	o := &bObs{deadKill: map[string]int{}, deadPipe: map[string]int{}}
	ready := make(chan struct{})
	_, err := n.Sys.ActorOf(vivid.ActorFN(func(ctx vivid.ActorContext) {
		switch m := ctx.Message().(type) {
		case *vivid.OnLaunch:
			ctx.EventStream().Subscribe(ctx, ves.DeathLetterEvent{})
			close(ready)
		case ves.DeathLetterEvent:
			if m.Envelope == nil {
				return
			}
			o.mu.Lock()
			switch x := m.Envelope.Message().(type) {
			case *vivid.OnKill:
				if r := m.Envelope.Receiver(); r != nil {
					o.deadKill[r.GetPath()]++
				}
			case *vivid.PipeResult:
				o.deadPipe[x.Id]++
			case *vivid.Error:
				o.deadErr++
			}
			o.mu.Unlock()
		}
	}), vivid.WithActorName("xv-boundary-obs"))
	if err != nil {
		return nil, err
	}
	select {
	case <-ready:
	case <-time.After(30 * time.Second):
		return nil, errors.New("boundary observer did not start")
	}
	return o, nil
}

// ---- inputs ----

type bReason struct {
	label string
	parts []string // the variadic reasons; the library joins them with ", "
}

func (x bReason) joined() string { return strings.Join(x.parts, ", ") }

func bASCII(r *lib.Rand, n int) string {
	const al = "abcdefghijklmnopqrstuvwxyzABCDEFGHIJKLMNOPQRSTUVWXYZ0123456789 .:;-_/()[]=+!?@#%&*'\"<>|~^"
	b := make([]byte, n)
	for i := range b {
		b[i] = al[r.Intn(len(al))]
	}
	return string(b)
}

func bRunes(r *lib.Rand, n int, lo, span int) string {
	rs := make([]rune, n)
	for i := range rs {
		rs[i] = rune(lo + r.Intn(span))
	}
	return string(rs)
}

func bCJK(r *lib.Rand, n int) string   { return bRunes(r, n, 0x4E00, 0x5000) } // 3 bytes each
func bEmoji(r *lib.Rand, n int) string { return bRunes(r, n, 0x1F600, 0x50) }  // 4 bytes each

func (b *bnd) killReasons() []bReason {
	r := b.r
	one := func(label, s string) bReason { return bReason{label, []string{s}} }
	ascii := func(n int) bReason { return one(fmt.Sprintf("ascii-%d", n), bASCII(r, n)) }
	quick := []bReason{
		ascii(0), ascii(255), ascii(256), ascii(70000),
		one("cjk-86-runes", bCJK(r, 86)),                                                   // 258 bytes
		one("emoji-64-runes+2", "ab"+bEmoji(r, 64)),                                        // 258 bytes, a 4-byte rune straddles bytes 255/256
		one("binary-256", string(r.Bytes(256))),                                            // arbitrary bytes (NUL, invalid UTF-8)
		{"variadic-3-joined-256", []string{bASCII(r, 120), bASCII(r, 120), bASCII(r, 12)}}, // 252 + 2*2
	}
	// seeded extras around the two edges
	e1 := 240 + r.Intn(32)
	e2 := 65528 + r.Intn(16)
	quick = append(quick, one(fmt.Sprintf("ascii-%d(seeded)", e1), bASCII(r, e1)))
	if b.h.tier != "thorough" {
		quick = append(quick, one(fmt.Sprintf("ascii-%d(seeded)", e2), bASCII(r, e2)))
		return quick
	}
	all := append(quick,
		ascii(1), ascii(257), ascii(65535), ascii(65536),
		one(fmt.Sprintf("ascii-%d(seeded)", e2), bASCII(r, e2)),
		one("cjk-85-runes", bCJK(r, 85)),             // 255 bytes
		one("emoji-63-runes", bEmoji(r, 63)),         // 252 bytes
		one("emoji-63-runes+3", "abc"+bEmoji(r, 63)), // 255 bytes
		one("emoji-64-runes", bEmoji(r, 64)),         // 256 bytes
		one("cjk-21846-runes", bCJK(r, 21846)),       // 65538 bytes
		one("binary-255", string(r.Bytes(255))),
		one("binary-65536", string(r.Bytes(65536))),
		bReason{"variadic-2-joined-255", []string{bASCII(r, 127), bASCII(r, 126)}},
		bReason{"variadic-2-joined-256", []string{bASCII(r, 127), bASCII(r, 127)}},
		bReason{"variadic-2-empty", []string{"", ""}},                 // ", "
		bReason{"variadic-129-empty-joined-256", make([]string, 129)}, // 128 separators only
		bReason{"variadic-cjk-2x43-joined-260", []string{bCJK(r, 43), bCJK(r, 43)}},
		bReason{"variadic-none", nil}, // Kill(ref, poison)
	)
	for i := 0; i < 4; i++ {
		n := 250 + r.Intn(14)
		all = append(all, one(fmt.Sprintf("ascii-%d(seeded)", n), bASCII(r, n)))
	}
	return all
}

// ---- the scenario ----

type bnd struct {
	h       *H
	A, B, C *Node
	r       *lib.Rand
	obs     map[*Node]*bObs
	pass    int
	mode    int
	failed  int // boundary monitors fired so far (the waits get shorter: the rest is diagnostics)
	seq     uint64
	uid     int
	sf0     [3]int
	df0     [3]int
}

func (b *bnd) wait(d time.Duration) time.Duration {
	if b.failed > 0 {
		return 4 * time.Second
	}
	return d
}

// waitN: the bound of a wait whose operation moves n payload bytes over the wire (a MiB through a re-chunking proxy on
// a loaded machine takes seconds, not milliseconds: 10 s more per MiB)
func (b *bnd) waitN(d time.Duration, n int) time.Duration {
	return b.wait(d) + time.Duration(n>>20)*10*time.Second
}

func (b *bnd) fire(name string, c lib.T, detail string) {
	b.h.o.Monitor(name, c, detail)
	b.failed++
}

func (b *bnd) name(kind string) string {
	b.uid++
	return fmt.Sprintf("bd%d-%s-%d", b.pass, kind, b.uid)
}

func where(remote bool) string {
	if remote {
		return "remote"
	}
	return "local"
}

// term: ("boundary" op field bytes label poison local|remote chunking)
func (b *bnd) term(op, field string, n int, label string, poison bool, remote bool) lib.T {
	return lib.L(lib.S("boundary"), lib.S(op), lib.S(field), lib.NI(n), lib.S(label), lib.Bool(poison), lib.S(where(remote)), lib.S(modeNames[b.mode]))
}

func quote(s string) string {
	if len(s) > 24 {
		return fmt.Sprintf("%q...(%d bytes)", s[:24], len(s))
	}
	return fmt.Sprintf("%q", s)
}

func firstDiff(a, c string) int {
	n := len(a)
	if len(c) < n {
		n = len(c)
	}
	for i := 0; i < n; i++ {
		if a[i] != c[i] {
			return i
		}
	}
	return n
}

// mark / cause: the send-failed and decode-failed events of the three systems since the operation under test started
// (diagnostics only: they say WHY an effect is missing, the verdict never depends on them)
func (b *bnd) mark() {
	for i, n := range []*Node{b.A, b.B, b.C} {
		n.Ev.mu.Lock()
		b.sf0[i], b.df0[i] = len(n.Ev.SendFailed), len(n.Ev.DecodeFail)
		n.Ev.mu.Unlock()
	}
}

func (b *bnd) cause() string {
	var out []string
	for i, n := range []*Node{b.A, b.B, b.C} {
		n.Barrier()
		n.Ev.mu.Lock()
		if k := len(n.Ev.SendFailed); k > b.sf0[i] {
			e := n.Ev.SendFailed[k-1]
			out = append(out, fmt.Sprintf("%d send-failed event(s) on %s, the last: %s to %s: %v", k-b.sf0[i], n.Name, e.MessageType, e.RemoteAddr, e.Error))
		}
		if k := len(n.Ev.DecodeFail); k > b.df0[i] {
			e := n.Ev.DecodeFail[k-1]
			out = append(out, fmt.Sprintf("%d decode-failed event(s) on %s, the last: %d bytes from %s: %v", k-b.df0[i], n.Name, e.MessageSize, e.RemoteAddr, e.Error))
		}
		n.Ev.mu.Unlock()
	}
	if len(out) == 0 {
		return "no send-failed / decode-failed event on A (caller), B, C since the operation started"
	}
	return "since the operation started (A = the caller's system): " + strings.Join(out, "; ")
}

// slow: debugging aid (XV_VERBOSE): says which wait took more than 2 s, with the state of the links
func (b *bnd) slow(what string, t0 time.Time) {
	d := time.Since(t0)
	if d <= 2*time.Second {
		return
	}
	b.h.o.Stats["boundary-slow-waits"]++
	b.h.logf("SLOW %.2fs %s; %s; %s; %s; %s; %s; %s; %s", d.Seconds(), what, b.cause(), proxyState(b.A), proxyState(b.B), proxyState(b.C), lastLogged(b.A, 6), lastLogged(b.B, 6), lastLogged(b.C, 6))
}

// lastLogged: the last k warnings / errors a system logged (diagnostics only)
func lastLogged(n *Node, k int) string {
	n.Ev.mu.Lock()
	defer n.Ev.mu.Unlock()
	l := n.Ev.Logged
	if len(l) > k {
		l = l[len(l)-k:]
	}
	return fmt.Sprintf("last warnings/errors logged by %s: %q", n.Name, l)
}

// proxyState: the last connections through n's proxy (diagnostics only)
func proxyState(n *Node) string {
	cs := n.Proxy.Conns(0)
	if len(cs) > 4 {
		cs = cs[len(cs)-4:]
	}
	s := "connections through " + n.Name + "'s proxy:"
	for _, c := range cs {
		c.mu.Lock()
		s += fmt.Sprintf(" [#%d mode=%s closed=%v cut=%v from-client=%d handed-over=%d local=%s]", c.Idx, modeNames[c.Plan.Mode], c.closed, c.cutDone, c.FromCli, c.pos, c.LocalAddr)
		c.mu.Unlock()
	}
	return s
}

func (h *H) boundaryRounds(A, B, C *Node) {
	b := &bnd{h: h, A: A, B: B, C: C, r: h.r.Fork(), obs: map[*Node]*bObs{}}
	for _, n := range []*Node{A, B, C} {
		o, err := spawnBObs(n)
		if err != nil {
			h.o.Monitor("harness-boundary", nil, "boundary observer: "+err.Error())
			return
		}
		b.obs[n] = o
	}
	modes := []int{ModePass, ModeStraddle, ModeHdrSplit, Mode64K, ModeRand}
	// seeded order of the chunking modes; the quick tier runs the first one only
	for i := len(modes) - 1; i > 0; i-- {
		j := b.r.Intn(i + 1)
		modes[i], modes[j] = modes[j], modes[i]
	}
	passes := 1
	if h.tier == "thorough" {
		passes = len(modes)
	}
	// debugging aid: XV_BOUNDARY_PASSES=n repeats the passes (cycling through the modes)
	if v, err := strconv.Atoi(os.Getenv("XV_BOUNDARY_PASSES")); err == nil && v > 0 {
		for len(modes) < v {
			modes = append(modes, modes[len(modes)%5])
		}
		passes = v
	}
	var used []string
	t0 := time.Now()
	for p := 0; p < passes && !h.abort; p++ {
		b.pass, b.mode = p, modes[p]
		used = append(used, modeNames[b.mode])
		mode := b.mode
		plan := func(int) Plan {
			pl := defaultPlan()
			pl.Mode, pl.RandMax, pl.Seed = mode, 8192, h.seed+uint64(900+p)
			return pl
		}
		for _, pr := range [][2]*Node{{A, B}, {B, A}, {C, B}, {B, C}, {A, C}, {C, A}} {
			tR := time.Now()
			if !h.resync(pr[0], pr[1], plan) {
				h.o.Monitor("c15-no-connection", nil, "no connection "+pr[0].Name+"->"+pr[1].Name)
				h.abort = true
				return
			}
			b.slow("resync "+pr[0].Name+"->"+pr[1].Name, tR)
		}
		t := time.Now()
		b.killClass()
		tk := time.Since(t)
		t = time.Now()
		b.askClass()
		ta := time.Since(t)
		t = time.Now()
		b.pipeClass()
		h.logf("boundary pass %d (%s): kills %.2fs asks %.2fs pipes %.2fs (monitors so far %d)", p, modeNames[b.mode], tk.Seconds(), ta.Seconds(), time.Since(t).Seconds(), len(h.o.Monitors))
	}
	h.o.Info["boundary-chunking"] = used
	h.o.Info["boundary-wall_s"] = time.Since(t0).Seconds()
	h.o.Stats["boundary-passes"] = len(used)
}

// ---- Kill + Watch ----

type bKillCase struct {
	in     bReason
	poison bool
	remote bool
	node   *Node
	ref    vivid.ActorRef // what the killer was given
	local  vivid.ActorRef // the target's own ref
	log    *bTgtLog
	dead   bool // terminated by the kill under test
}

func (b *bnd) killClass() {
	h, A, B, C := b.h, b.A, b.B, b.C
	reasons := b.killReasons()
	// watchers (one on the calling system, one on the third system) and the killer live for the whole pass
	wa, wc := &agentLog{}, &agentLog{}
	wA, err := spawnBAgent(A, b.name("watcher"), wa)
	if err != nil {
		panic(err)
	}
	wC, err := spawnBAgent(C, b.name("watcher"), wc)
	if err != nil {
		panic(err)
	}
	killer, err := spawnBAgent(A, b.name("killer"), &agentLog{})
	if err != nil {
		panic(err)
	}
	var sizes []int
	var cases []*bKillCase
	notTerminated := 0
	for _, in := range reasons {
		want := in.joined()
		sizes = append(sizes, len(want))
		for _, poison := range []bool{false, true} {
			if notTerminated >= 4 || h.abort {
				h.o.Stats["boundary-kill-class-cut-short"] = 1
				break
			}
			// the control on A (local ref) and the subject on B (remote ref), same input
			pair := [2]*bKillCase{}
			ok := true
			b.mark()
			for k, n := range []*Node{A, B} {
				c := &bKillCase{in: in, poison: poison, remote: k == 1, node: n, log: &bTgtLog{}}
				c.local, err = spawnBTarget(n, b.name("tgt"), c.log)
				if err != nil {
					panic(err)
				}
				c.ref = c.local
				if c.remote {
					c.ref = remoteOf(n, c.local)
				}
				pair[k] = c
				// watch from A and from C
				for _, w := range []struct {
					n   *Node
					ag  vivid.ActorRef
					ref vivid.ActorRef
				}{{A, wA, c.ref}, {C, wC, remoteOf(n, c.local)}} {
					done := make(chan struct{})
					tW := time.Now()
					w.n.Sys.Tell(w.ag, &rspWatch{w.ref, done})
					select {
					case <-done:
					case <-time.After(opWait):
					}
					b.slow(fmt.Sprintf("Watch issued by %s for %s", w.n.Name, refStr(w.ref)), tW)
					// an Ask answers only after the Watch sent before it on the same connection was handled
					tAsk := time.Now()
					_, err := w.n.Sys.Ask(w.ref, &XMsg{Kind: KAsk, Seq: 1}, b.wait(askWait)).Result()
					b.slow(fmt.Sprintf("settle Ask %s -> %s", w.n.Name, refStr(w.ref)), tAsk)
					if err != nil {
						b.fire("c15-remote-ask", b.term("kill", "reason", len(want), in.label, poison, c.remote), fmt.Sprintf("Ask from %s to the freshly spawned actor %s failed: %v; %s; %s; %s; %s; %s", w.n.Name, refStr(w.ref), err, b.cause(), proxyState(n), proxyState(w.n), lastLogged(w.n, 6), lastLogged(n, 6)))
						ok = false
					}
				}
			}
			if !ok {
				notTerminated++
				continue
			}
			b.mark()
			for _, c := range pair {
				done := make(chan struct{})
				tK := time.Now()
				A.Sys.Tell(killer, &bKill{ref: c.ref, poison: poison, reasons: in.parts, done: done})
				select {
				case <-done:
				case <-time.After(opWait):
				}
				b.slow("Kill issued for "+refStr(c.ref), tK)
			}
			for _, c := range pair {
				c := c
				what := fmt.Sprintf("Kill(%s ref %s, poison=%v, reason: %d variadic part(s), joined %d bytes [%s] %s) issued by %s%s", where(c.remote), refStr(c.ref), poison, len(in.parts), len(want), in.label, quote(want), A.Adv, killer.GetPath())
				desc := b.term("kill", "reason", len(want), in.label, poison, c.remote)
				gaveUp := false
				tT := time.Now()
				c.dead = waitUntil(b.wait(opWait), func() bool {
					if c.log.nKilled() >= 1 {
						return true
					}
					// the OnKill was given up by the caller's system (dead letter): it will never arrive
					if c.remote && b.obs[A].killDead(c.local.GetPath()) {
						gaveUp = true
						return true
					}
					return false
				}) && !gaveUp
				b.slow("termination of "+refStr(c.ref), tT)
				if !c.dead {
					if !c.remote {
						b.fire("c15-boundary:local-control", desc, what+": the LOCAL target did not terminate")
					} else if pair[0].dead {
						notTerminated++
						cause := "no dead letter"
						if gaveUp {
							cause = "the OnKill became a dead letter on the caller's system"
						}
						b.fire("c15-boundary:kill-not-terminated", desc, fmt.Sprintf("%s: the remote target is still alive (%s; OnKill seen by it: %d), while the same Kill through the local ref terminated the local target; %s", what, cause, len(c.log.killsCopy()), b.cause()))
					}
					// clean up through the target's own system
					c.node.Sys.Kill(c.local, false, "harness cleanup")
					waitUntil(opWait, func() bool { return c.log.nKilled() >= 1 })
					continue
				}
				cases = append(cases, c)
			}
			// what the targets saw
			for _, c := range pair {
				if !c.dead {
					continue
				}
				what := fmt.Sprintf("Kill(%s ref %s, poison=%v, reason: %d variadic part(s), joined %d bytes [%s] %s)", where(c.remote), refStr(c.ref), poison, len(in.parts), len(want), in.label, quote(want))
				desc := b.term("kill", "reason", len(want), in.label, poison, c.remote)
				pre := "c15-boundary:kill-"
				fire := func(suffix, detail string) {
					if !c.remote {
						b.fire("c15-boundary:local-control", desc, what+": LOCAL target: "+detail)
						return
					}
					b.fire(pre+suffix, desc, what+": "+detail)
				}
				ks := c.log.killsCopy()
				if len(ks) != 1 {
					fire("onkill-count", fmt.Sprintf("the target saw %d OnKill messages (want exactly 1)", len(ks)))
					if len(ks) == 0 {
						continue
					}
				}
				s := ks[0]
				if s.reason != want {
					fire("reason-differs", fmt.Sprintf("OnKill.Reason has %d bytes %s, issued %d bytes (first difference at byte %d)", len(s.reason), quote(s.reason), len(want), firstDiff(s.reason, want)))
				}
				if s.poison != poison {
					fire("poison-differs", fmt.Sprintf("OnKill.Poison = %v, issued %v", s.poison, poison))
				}
				if s.nilKiller || s.killerPath != killer.GetPath() || s.killerAddr != A.Adv {
					fire("killer-differs", fmt.Sprintf("OnKill.Killer = %s%s (nil: %v), the calling actor is %s%s", s.killerAddr, s.killerPath, s.nilKiller, A.Adv, killer.GetPath()))
				}
				h.o.Stats["boundary-kills"]++
				if c.remote {
					h.o.Stats["boundary-kills-remote"]++
				}
				if poison {
					h.o.Stats["boundary-kills-poison"]++
				}
			}
		}
	}
	// Watch: every watcher exactly one OnKilled naming each target that was killed
	wantSet := map[string]*bKillCase{}
	for _, c := range cases {
		wantSet[c.node.Adv+c.local.GetPath()] = c
	}
	count := func(al *agentLog) map[string]int {
		m := map[string]int{}
		for _, s := range al.killedCopy() {
			m[s]++
		}
		return m
	}
	all := func(al *agentLog) bool {
		m := count(al)
		for k := range wantSet {
			if m[k] < 1 {
				return false
			}
		}
		return true
	}
	tWa := time.Now()
	waitUntil(b.wait(opWait), func() bool { return all(wa) && all(wc) })
	b.slow("OnKilled notices at the watchers", tWa)
	time.Sleep(20 * time.Millisecond) // duplicates
	for _, w := range []struct {
		n  *Node
		ag vivid.ActorRef
		al *agentLog
	}{{A, wA, wa}, {C, wC, wc}} {
		m := count(w.al)
		keys := make([]string, 0, len(wantSet))
		for k := range wantSet {
			keys = append(keys, k)
		}
		sort.Strings(keys)
		bad := 0
		for _, k := range keys {
			c := wantSet[k]
			if m[k] == 1 {
				h.o.Stats["boundary-watch-notices"]++
				continue
			}
			if bad++; bad > 3 {
				break
			}
			want := c.in.joined()
			desc := b.term("watch", "reason", len(want), c.in.label, c.poison, c.remote)
			name := "c15-boundary:watch"
			if !c.remote && w.n == A {
				name = "c15-boundary:local-control"
			}
			b.fire(name, desc, fmt.Sprintf("watcher %s%s (on %s) received %d OnKilled naming %s (want exactly 1) after Kill(%s ref, poison=%v, reason joined %d bytes [%s]) terminated that target", w.n.Adv, w.ag.GetPath(), w.n.Name, m[k], k, where(c.remote), c.poison, len(want), c.in.label))
		}
	}
	sort.Ints(sizes)
	h.o.Info[fmt.Sprintf("boundary-kill-reason-bytes-pass%d", b.pass)] = sizes
}

// ---- Ask / Reply ----

func (b *bnd) payloadSizes() []int {
	s := []int{0, 1, 255, 256, 65535, 65536, 70000, 1 << 20}
	s = append(s, 65520+b.r.Intn(32)) // seeded, around the 64 KiB edge
	if b.h.tier == "thorough" {
		s = append(s, 257, 65537, 250+b.r.Intn(14), 1<<20+b.r.Intn(4096), 3<<20)
	}
	return s
}

func (b *bnd) errTexts() []string {
	mk := func(n int) string {
		if n == 0 {
			return ""
		}
		pre := bPrefBase
		if b.r.Bool() && n > len(bPrefExc) {
			pre = bPrefExc
		}
		return pre + bASCII(b.r, n-len(pre))
	}
	ns := []int{0, 255, 256, 70000}
	if b.h.tier == "thorough" {
		ns = append(ns, 254, 257, 65535, 65536, 250+b.r.Intn(14), 65530+b.r.Intn(12))
	}
	var out []string
	for _, n := range ns {
		out = append(out, mk(n))
	}
	return out
}

// errView: what the property can see of an error: code + message text of a *vivid.Error, else the Error() text
func errView(err error) (code int32, msg string, isV bool) {
	var ve *vivid.Error
	if errors.As(err, &ve) && ve != nil {
		return ve.GetCode(), ve.GetMessage(), true
	}
	return 0, err.Error(), false
}

func (b *bnd) askClass() {
	h, A, B := b.h, b.A, b.B
	tls := [2]*bTgtLog{{}, {}}
	var refs [2]vivid.ActorRef
	var locals [2]vivid.ActorRef
	for k, n := range []*Node{A, B} {
		r, err := spawnBTarget(n, b.name("asktgt"), tls[k])
		if err != nil {
			panic(err)
		}
		locals[k], refs[k] = r, r
		if k == 1 {
			refs[k] = remoteOf(n, r)
		}
	}
	bad := 0
	// echo: the payload must come back intact
	var sizes []int
	for _, n := range b.payloadSizes() {
		if bad >= 3 {
			break
		}
		data := b.r.Bytes(n)
		sizes = append(sizes, n)
		var verdict [2]string
		for k := range refs {
			b.seq++
			b.mark()
			m := &XMsg{Kind: KAsk, Sender: bEcho, Seq: b.seq, Data: data}
			tA := time.Now()
			res, err := A.Sys.Ask(refs[k], m, b.waitN(askWait, 2*n)).Result()
			b.slow(fmt.Sprintf("echo Ask %d bytes -> %s", n, refStr(refs[k])), tA)
			x, ok := res.(*XMsg)
			switch {
			case err != nil:
				g, arrived := tls[k].gotSeq(m.Seq)
				verdict[k] = fmt.Sprintf("the Ask failed: %v (request reached the target: %v, %d bytes there)", err, arrived, g.Len)
			case !ok:
				verdict[k] = fmt.Sprintf("the reply is a %T", res)
			case x.Kind != KReply || x.Seq != m.Seq:
				verdict[k] = fmt.Sprintf("the reply is XMsg{Kind %d Seq %d} (want Kind %d Seq %d)", x.Kind, x.Seq, KReply, m.Seq)
			case len(x.Data) != n || cksum(x.Data) != cksum(data) || !bytes.Equal(x.Data, data):
				verdict[k] = fmt.Sprintf("the reply payload has %d bytes, checksum %d (sent %d bytes, checksum %d)", len(x.Data), cksum(x.Data), n, cksum(data))
			}
			if k == 1 && verdict[k] != "" {
				verdict[k] += "; " + b.cause()
			}
		}
		b.judge("ask-reply", "c15-boundary:ask-reply", "payload", n, fmt.Sprintf("random-%d", n), verdict, func(remote bool) string {
			return fmt.Sprintf("Ask(%s ref %s, payload %d bytes) with the payload echoed by Reply", where(remote), refStr(refs[b2i(remote)]), n)
		}, &bad)
		h.o.Stats["boundary-asks"] += 2
	}
	h.o.Info[fmt.Sprintf("boundary-ask-payload-bytes-pass%d", b.pass)] = sizes
	// error replies: the Ask fails with the code and message text the target replied
	var lens []int
	for _, text := range b.errTexts() {
		if bad >= 3 {
			break
		}
		lens = append(lens, len(text))
		var verdict [2]string
		for k := range refs {
			b.seq++
			b.mark()
			m := &XMsg{Kind: KAsk, Sender: bFail, Seq: b.seq, Data: []byte(text)}
			tA := time.Now()
			res, err := A.Sys.Ask(refs[k], m, b.wait(askWait)).Result()
			b.slow(fmt.Sprintf("error-reply Ask %d bytes -> %s", len(text), refStr(refs[k])), tA)
			verdict[k] = checkErr(err, res, text)
			if k == 1 && verdict[k] != "" {
				verdict[k] += "; " + b.cause()
			}
		}
		b.judge("ask-error-reply", "c15-boundary:ask-reply", "error-text", len(text), fmt.Sprintf("error-text-%d", len(text)), verdict, func(remote bool) string {
			return fmt.Sprintf("Ask(%s ref %s) answered by Reply(*vivid.Error code %d, message text %d bytes %s)", where(remote), refStr(refs[b2i(remote)]), bErrCodeOf(text), len(text), quote(text))
		}, &bad)
		h.o.Stats["boundary-ask-error-replies"] += 2
	}
	h.o.Info[fmt.Sprintf("boundary-error-text-bytes-pass%d", b.pass)] = lens
	for k, n := range []*Node{A, B} {
		n.Sys.Kill(locals[k], false, "boundary ask class done")
	}
}

func b2i(x bool) int {
	if x {
		return 1
	}
	return 0
}

// checkErr: err must be a *vivid.Error with the code of text's base and exactly that message text
func checkErr(err error, res any, text string) string {
	if err == nil {
		return fmt.Sprintf("no error (result %T)", res)
	}
	code, msg, isV := errView(err)
	switch {
	case !isV:
		return fmt.Sprintf("the error is a %T: %s", err, quote(err.Error()))
	case code != bErrCodeOf(text):
		return fmt.Sprintf("error code %d with a message text of %d bytes %s (want code %d, %d bytes)", code, len(msg), quote(msg), bErrCodeOf(text), len(text))
	case msg != text:
		return fmt.Sprintf("error code %d with a message text of %d bytes %s (want %d bytes; first difference at byte %d)", code, len(msg), quote(msg), len(text), firstDiff(msg, text))
	}
	return ""
}

// judge: verdict[0] is the local control, verdict[1] the remote subject
func (b *bnd) judge(op, monitor, field string, n int, label string, verdict [2]string, what func(remote bool) string, bad *int) {
	if verdict[0] != "" {
		b.fire("c15-boundary:local-control", b.term(op, field, n, label, false, false), what(false)+": "+verdict[0])
		if verdict[1] != "" {
			b.h.o.Stats["boundary-local-and-remote-fail"]++
		}
		*bad++
		return
	}
	if verdict[1] != "" {
		b.fire(monitor, b.term(op, field, n, label, false, true), what(true)+": "+verdict[1]+"; the same operation through the local ref had the expected effect")
		*bad++
	}
}

// ---- PipeTo ----

type bPipeView struct {
	n       int
	id      string
	msgType string
	kind    byte
	seq     uint64
	ln      int
	sum     uint64
	isErr   bool
	isV     bool
	code    int32
	emsg    string
}

func (v bPipeView) String() string {
	if v.n != 1 {
		return fmt.Sprintf("%d PipeResults", v.n)
	}
	s := fmt.Sprintf("PipeResult{Message %s", v.msgType)
	if v.msgType == "*main.XMsg" {
		s += fmt.Sprintf(" Kind %d Seq %d payload %d bytes checksum %d", v.kind, v.seq, v.ln, v.sum)
	}
	if v.isErr {
		s += fmt.Sprintf(", Error code %d (vivid.Error: %v) message text %d bytes %s", v.code, v.isV, len(v.emsg), quote(v.emsg))
	} else {
		s += ", Error nil"
	}
	return s + "}"
}

func pipeView(al *agentLog, from int) bPipeView {
	al.mu.Lock()
	defer al.mu.Unlock()
	got := al.pipes[from:]
	v := bPipeView{n: len(got)}
	if len(got) != 1 {
		return v
	}
	p := got[0]
	v.id = p.Id
	v.msgType = fmt.Sprintf("%T", p.Message)
	if x, ok := p.Message.(*XMsg); ok && x != nil {
		v.kind, v.seq, v.ln, v.sum = x.Kind, x.Seq, len(x.Data), cksum(x.Data)
	}
	if p.Error != nil {
		v.isErr = true
		v.code, v.emsg, v.isV = errView(p.Error)
	}
	return v
}

func (b *bnd) pipeClass() {
	h, A, B, C := b.h, b.A, b.B, b.C
	piper, err := spawnBAgent(A, b.name("piper"), &agentLog{})
	if err != nil {
		panic(err)
	}
	lf, rf := &agentLog{}, &agentLog{}
	fwdA, err := spawnBAgent(A, b.name("fwd"), lf)
	if err != nil {
		panic(err)
	}
	fwdCl, err := spawnBAgent(C, b.name("fwd"), rf)
	if err != nil {
		panic(err)
	}
	fwdC := remoteOf(C, fwdCl)
	tls := [2]*bTgtLog{{}, {}}
	var refs, locals [2]vivid.ActorRef
	for k, n := range []*Node{A, B} {
		r, err := spawnBTarget(n, b.name("pipetgt"), tls[k])
		if err != nil {
			panic(err)
		}
		locals[k], refs[k] = r, r
		if k == 1 {
			refs[k] = remoteOf(n, r)
		}
	}
	type in struct {
		fail bool
		data []byte
		text string
	}
	var ins []in
	sizes := []int{0, 255, 256, 65536, 70000}
	if h.tier == "thorough" {
		sizes = b.payloadSizes()
	} else {
		sizes = append(sizes, 65520+b.r.Intn(32))
	}
	for _, n := range sizes {
		ins = append(ins, in{data: b.r.Bytes(n)})
	}
	if h.tier != "thorough" {
		ins = append(ins, in{data: b.r.Bytes(1 << 20)})
	}
	for _, t := range b.errTexts() {
		ins = append(ins, in{fail: true, text: t, data: []byte(t)})
	}
	bad := 0
	var okSizes, errSizes []int
	for _, x := range ins {
		if bad >= 3 {
			break
		}
		if x.fail {
			errSizes = append(errSizes, len(x.text))
		} else {
			okSizes = append(okSizes, len(x.data))
		}
		for k := range refs {
			remoteTarget := k == 1
			// quick tier: the 1 MiB success result goes to the remote target only
			if h.tier != "thorough" && !x.fail && len(x.data) >= 1<<20 && !remoteTarget {
				continue
			}
			b.seq++
			m := &XMsg{Kind: KAsk, Sender: bEcho, Seq: b.seq, Data: x.data}
			op, field, label := "pipe-success", "payload", fmt.Sprintf("random-%d", len(x.data))
			if x.fail {
				m.Sender = bFail
				op, field, label = "pipe-failure", "error-text", fmt.Sprintf("error-text-%d", len(x.text))
			}
			what := fmt.Sprintf("PipeTo(%s target %s, Ask payload %d bytes, forwarders [remote %s, local %s%s])", where(remoteTarget), refStr(refs[k]), len(x.data), refStr(fwdC), A.Adv, fwdA.GetPath())
			if x.fail {
				what += fmt.Sprintf(" answered by Reply(*vivid.Error code %d, message text %d bytes %s): failure result", bErrCodeOf(x.text), len(x.text), quote(x.text))
			} else {
				what += " answered by Reply(echo): success result"
			}
			l0, r0 := lf.nPipes(), rf.nPipes()
			b.mark()
			idc := make(chan string, 1)
			tmo := b.waitN(askWait, 2*len(x.data))
			A.Sys.Tell(piper, &doPipe{to: refs[k], msg: m, forwarders: vivid.ActorRefs{fwdC, fwdA}, timeout: tmo, id: idc})
			var id string
			select {
			case id = <-idc:
			case <-time.After(opWait):
				b.fire("c15-boundary:local-control", b.term(op, field, len(x.data), label, false, remoteTarget), what+": PipeTo did not return")
				bad++
				continue
			}
			// the local forwarder has its result when the piped Ask has completed (at the latest when it times out)
			tP := time.Now()
			waitUntil(tmo+b.wait(opWait), func() bool { return lf.nPipes() > l0 })
			waitUntil(b.waitN(opWait, len(x.data)), func() bool { return rf.nPipes() > r0 || b.obs[A].pipeDead(id) })
			b.slow(what, tP)
			time.Sleep(5 * time.Millisecond) // duplicates
			lv, rv := pipeView(lf, l0), pipeView(rf, r0)
			check := func(v bPipeView) string {
				switch {
				case v.n != 1:
					return fmt.Sprintf("received %d PipeResults (want 1)", v.n)
				case v.id != id:
					return fmt.Sprintf("PipeResult.Id %q, PipeTo returned %q", v.id, id)
				}
				if x.fail {
					switch {
					case !v.isErr:
						return "failure result without Error: " + v.String()
					case v.msgType != "<nil>":
						return "failure result with a Message: " + v.String()
					case !v.isV || v.code != bErrCodeOf(x.text) || v.emsg != x.text:
						return fmt.Sprintf("%s (want Error code %d, message text %d bytes; first difference at byte %d)", v.String(), bErrCodeOf(x.text), len(x.text), firstDiff(v.emsg, x.text))
					}
					return ""
				}
				if v.isErr || v.msgType != "*main.XMsg" || v.kind != KReply || v.seq != m.Seq || v.ln != len(x.data) || v.sum != cksum(x.data) {
					return fmt.Sprintf("%s (want Message XMsg Kind %d Seq %d payload %d bytes checksum %d, Error nil)", v.String(), KReply, m.Seq, len(x.data), cksum(x.data))
				}
				return ""
			}
			le, re := check(lv), check(rv)
			desc := b.term(op, field, len(x.data), label, false, remoteTarget)
			switch {
			case le != "" && !remoteTarget:
				b.fire("c15-boundary:local-control", desc, what+": the LOCAL forwarder "+le)
				bad++
			case le != "":
				// the piped Ask went to the remote target: the control is the same PipeTo to the local target, which passed
				b.fire("c15-boundary:pipe", desc, what+": the local forwarder "+le+" (the same PipeTo to the LOCAL target gave the expected result); "+b.cause())
				bad++
			case re != "":
				cause := ""
				if b.obs[A].pipeDead(id) {
					cause = "; the PipeResult became a dead letter on the caller's system"
				}
				b.fire("c15-boundary:pipe", desc, what+": the REMOTE forwarder "+re+", while the local forwarder received "+lv.String()+cause+"; "+b.cause())
				bad++
			}
			h.o.Stats["boundary-pipes"]++
			if x.fail {
				h.o.Stats["boundary-pipes-failure"]++
			}
		}
	}
	h.o.Info[fmt.Sprintf("boundary-pipe-payload-bytes-pass%d", b.pass)] = okSizes
	h.o.Info[fmt.Sprintf("boundary-pipe-error-text-bytes-pass%d", b.pass)] = errSizes
	for k, n := range []*Node{A, B} {
		n.Sys.Kill(locals[k], false, "boundary pipe class done")
	}
	A.Sys.Kill(piper, false, "boundary pipe class done")
	A.Sys.Kill(fwdA, false, "boundary pipe class done")
	C.Sys.Kill(fwdCl, false, "boundary pipe class done")
}
