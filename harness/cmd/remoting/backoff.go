// backoff.go: C14 - differential run of the REAL utils.ExponentialBackoff (internal/utils/backoff.go) against
// Remoting/Backoff.v, bit for bit.
//
// The jitter of Next() comes from the global math/rand source (rand.Float64()). The directive below re-enables
// rand.Seed, so the harness seeds the global source and keeps a mirror generator seeded alike: the mirror's Int63()
// is the integer from which rand.Float64() builds its float (float64(Int63()) / 2^63, redrawn when that is 1.0).
// The integer is handed to the model, which recomputes the float arithmetic of Next() exactly. This phase runs
// before any system is started (nothing else draws from the global source).
//
//go:debug randseednop=0
package main

import (
	"errors"
	"fmt"
	"math/big"
	"math/rand"
	"time"

	"github.com/kercylan98/vivid/internal/actor"
	"github.com/kercylan98/vivid/internal/remoting"
	"github.com/kercylan98/vivid/internal/utils"
	"github.com/kercylan98/vivid/xverif/lib"
)

type boCfg struct {
	init, max int64
	jitter    bool
}

func (c boCfg) term() lib.T { return lib.L(lib.N(uint64(c.init)), lib.N(uint64(c.max)), lib.Bool(c.jitter)) }
func (c boCfg) String() string {
	return fmt.Sprintf("init=%v max=%v jitter=%v", time.Duration(c.init), time.Duration(c.max), c.jitter)
}

// mirror of the global source
type mirror struct{ r *rand.Rand }

func seedBoth(s int64) *mirror {
	rand.Seed(s)
	return &mirror{rand.New(rand.NewSource(s))}
}

// draw returns the integer the NEXT rand.Float64() of the global source is built from
func (m *mirror) draw() uint64 {
	for {
		r := m.r.Int63()
		if float64(r)/(1<<63) == 1 {
			continue // rand.Float64 redraws
		}
		return uint64(r)
	}
}

// base delay min(init * 2^k, max), exactly
func (c boCfg) base(k int) *big.Int {
	b := new(big.Int).Lsh(big.NewInt(c.init), uint(k))
	if b.Cmp(big.NewInt(c.max)) > 0 {
		b.SetInt64(c.max)
	}
	return b
}

func (h *H) backoffConfigs() []boCfg {
	ms := int64(time.Millisecond)
	cs := []boCfg{
		{100 * ms, 3000 * ms, true},  // remoting.newMailbox
		{100 * ms, 10000 * ms, true}, // remoting.NewServerActor
		{100 * ms, 3000 * ms, false},
		{1, 1, true}, {1, 3, true}, {3, 1000003, true}, {7, 1 << 40, true},
		{(1 << 51) + 12345, (1 << 52) - 1, true}, {(1 << 52) - 1, (1 << 52) - 1, true},
		{5, 2, true}, // max below init: always the cap
	}
	n := 6
	if h.tier == "thorough" {
		n = 60
	}
	for i := 0; i < n; i++ {
		ini := int64(1 + h.r.U64()%(1<<uint(1+h.r.Intn(50))))
		mx := ini + int64(h.r.U64()%(1<<uint(1+h.r.Intn(50))))
		if mx >= 1<<52 {
			mx = 1<<52 - 1
		}
		if ini >= 1<<52 {
			ini = 1<<52 - 1
		}
		cs = append(cs, boCfg{ini, mx, h.r.Intn(5) != 0})
	}
	return cs
}

// object sessions: Next / Reset / GetAttempt
func (h *H) backoffObject(c boCfg, nops int) {
	seed := int64(h.r.U64() >> 1)
	mir := seedBoth(seed)
	eb := utils.NewExponentialBackoff(time.Duration(c.init), time.Duration(c.max), 2.0, c.jitter)
	var ops, outs []lib.T
	since := 0
	for i := 0; i < nops; i++ {
		switch x := h.r.Intn(20); {
		case x < 14 || nops > 200:
			var r uint64
			if c.jitter {
				r = mir.draw()
			}
			d := eb.Next()
			ops = append(ops, lib.L(lib.N(0), lib.N(r)))
			if d < 0 {
				h.o.Monitor("c14-backoff-negative-delay", lib.L(c.term(), lib.NI(since)), fmt.Sprintf("%v: Next() with currentAttempt=%d returned %d ns", c, since, int64(d)))
				outs = append(outs, lib.L(lib.N(1)))
			} else {
				outs = append(outs, lib.N(uint64(d)))
			}
			since++
		case x < 17:
			eb.Reset()
			ops = append(ops, lib.L(lib.N(1)))
			outs = append(outs, lib.L())
			since = 0
		default:
			a := eb.GetAttempt()
			ops = append(ops, lib.L(lib.N(2)))
			outs = append(outs, lib.L(lib.NI(a)))
		}
	}
	h.o.Case("backoff-object", since > 0, lib.L(lib.N(4), c.term(), lib.LS(ops)), lib.LS(outs))
}

type fnOut struct{ abort, err bool }

var errScripted = errors.New("scripted failure")

// one Try on a new object, followed by one Next(); returns the number of fn calls and what Try returned
func (h *H) backoffTry(c boCfg, limit int, script []fnOut, kind string) {
	seed := int64(h.r.U64() >> 1)
	mir := seedBoth(seed)
	eb := utils.NewExponentialBackoff(time.Duration(c.init), time.Duration(c.max), 2.0, c.jitter)
	calls := 0
	var seen []int
	draws := make([]uint64, len(script)+1)
	overrun := false
	t0 := time.Now()
	abort, err := eb.Try(limit, func() (bool, error) {
		i := calls
		calls++
		if i >= 1 && c.jitter && i-1 < len(draws) {
			draws[i-1] = mir.draw() // the Next() between call i-1 and call i consumed one Float64
		}
		seen = append(seen, eb.GetAttempt())
		if i >= len(script) {
			overrun = true // the script is longer than any correct Try can consume; stop the loop
			return true, errScripted
		}
		if script[i].err {
			return script[i].abort, errScripted
		}
		return script[i].abort, nil
	})
	elapsed := time.Since(t0)
	after := eb.GetAttempt()
	var rN uint64
	if c.jitter {
		rN = mir.draw()
	}
	dN := eb.Next()

	name := fmt.Sprintf("%s limit=%d script=%v (%v)", kind, limit, script, c)
	cse := lib.L(lib.S(kind), c.term(), lib.Z(int64(limit)), lib.NI(len(script)))
	// ---- monitors: the property's "after the configured reconnect attempts" and "for all retry settings" ----
	allFail := true
	firstStop := -1
	for i, o := range script {
		if o.abort || !o.err {
			allFail = false
			if firstStop < 0 {
				firstStop = i
			}
		}
	}
	if limit >= 0 && allFail && len(script) > limit+1 {
		if calls != limit+1 || err == nil || overrun {
			h.o.Monitor("c14-backoff-attempts", cse, fmt.Sprintf("%s: fn failed every time; Try(limit=%d) must call it exactly %d times and return an error: it called it %d times (attempt numbers seen %v), err=%v", name, limit, limit+1, calls, seen, err))
		}
	}
	if firstStop >= 0 && (limit < 0 || firstStop <= limit) {
		// fn stops the loop at call firstStop (success or abort) before the limit is reached
		o := script[firstStop]
		if calls != firstStop+1 || abort != o.abort || (err != nil) != o.err {
			h.o.Monitor("c14-backoff-try-result", cse, fmt.Sprintf("%s: fn returned (abort=%v, err=%v) at its call #%d: Try must return exactly that after %d calls; it returned (abort=%v, err=%v) after %d calls", name, o.abort, o.err, firstStop, firstStop+1, abort, err, calls))
		}
	}
	if after != 0 {
		h.o.Monitor("c14-backoff-not-reset", cse, fmt.Sprintf("%s: GetAttempt() = %d after Try returned (abort=%v err=%v): the next Try starts with attempts already used up", name, after, abort, err))
	}
	for i, a := range seen {
		if a != i && !overrun {
			h.o.Monitor("c14-backoff-attempt-numbers", cse, fmt.Sprintf("%s: fn call #%d saw GetAttempt() = %d (expected %d: RetryCount of the connection-failed events): %v", name, i, a, i, seen))
			break
		}
	}
	// ---- model case ----
	var outs []lib.T
	for i, o := range script {
		outs = append(outs, lib.L(lib.Bool(o.abort), lib.Bool(o.err), lib.N(draws[i])))
	}
	var seenT []lib.T
	for _, a := range seen {
		seenT = append(seenT, lib.NI(a))
	}
	in := lib.L(lib.N(5), c.term(), lib.Z(int64(limit)), lib.LS(outs), lib.N(uint64(elapsed)), lib.N(rN))
	dNt := lib.N(0)
	if dN >= 0 {
		dNt = lib.N(uint64(dN))
	}
	out := lib.L(lib.Bool(!overrun), lib.Bool(abort), lib.Bool(err != nil), lib.LS(seenT), lib.NI(calls-1), lib.Bool(true), lib.NI(after), dNt)
	h.o.Case("backoff-try", calls > 1, in, out)
	h.o.Stats["backoff-try:"+kind]++
}

// a second Try on the SAME object after a first one: the counter must not leak from one Enqueue into the next
func (h *H) backoffHistory(c boCfg, limit int, first []fnOut) {
	eb := utils.NewExponentialBackoff(time.Duration(c.init), time.Duration(c.max), 2.0, c.jitter)
	i := 0
	a1, e1 := eb.Try(limit, func() (bool, error) {
		o := fnOut{true, true}
		if i < len(first) {
			o = first[i]
		}
		i++
		if o.err {
			return o.abort, errScripted
		}
		return o.abort, nil
	})
	calls := 0
	_, e2 := eb.Try(limit, func() (bool, error) {
		calls++
		if calls > limit+5 {
			return true, errScripted
		}
		return false, errScripted
	})
	h.o.Stats["backoff-history"]++
	// the control: the same failing fn on a NEW object
	fresh := utils.NewExponentialBackoff(time.Duration(c.init), time.Duration(c.max), 2.0, c.jitter)
	callsFresh := 0
	_, e3 := fresh.Try(limit, func() (bool, error) {
		callsFresh++
		if callsFresh > limit+5 {
			return true, errScripted
		}
		return false, errScripted
	})
	if calls != callsFresh || (e2 == nil) != (e3 == nil) {
		h.o.Monitor("c14-backoff-not-reset", lib.L(lib.S("history"), c.term(), lib.NI(limit), lib.NI(len(first))),
			fmt.Sprintf("history: Try(limit=%d) #1 with fn outcomes %v returned (abort=%v, err=%v); Try #2 on the same object, fn failing every time, called fn %d times (err=%v) whereas the same Try on a new object calls it %d times (err=%v): the attempts of a message depend on the fate of the previous one (%v)", limit, first, a1, e1, calls, e2, callsFresh, e3, c))
	}
}

func (h *H) backoffDiff() {
	t0 := time.Now()
	cfgs := h.backoffConfigs()
	sessions := 3
	if h.tier == "thorough" {
		sessions = 25
	}
	for ci, c := range cfgs {
		for s := 0; s < sessions; s++ {
			h.backoffObject(c, 1+h.r.Intn(40))
		}
		if ci < 3 {
			// far beyond the cap and beyond the exponent range of float64 (math.Pow(2, k) = +Inf from k = 1024)
			h.backoffObject(c, 1100)
		}
	}
	// Try: short delays so that the real time.Sleep costs nothing
	us := int64(time.Microsecond)
	tryCfgs := []boCfg{{20 * us, 200 * us, true}, {50 * us, 50 * us, true}, {30 * us, 1000 * us, false}, {1, 1, true}}
	limits := []int{0, 1, 2, 3, 5, 10, -1}
	fail, ok, abortErr, abortNil := fnOut{false, true}, fnOut{false, false}, fnOut{true, true}, fnOut{true, false}
	rep := func(o fnOut, n int) []fnOut {
		var l []fnOut
		for i := 0; i < n; i++ {
			l = append(l, o)
		}
		return l
	}
	for _, c := range tryCfgs {
		for _, lim := range limits {
			if lim >= 0 {
				h.backoffTry(c, lim, rep(fail, lim+4), "all-fail")
			}
			top := lim
			if lim < 0 {
				top = 6
			}
			for _, j := range []int{0, 1, top - 1, top, top + 1} {
				if j < 0 || (lim >= 0 && j > lim+1) {
					continue
				}
				h.backoffTry(c, lim, append(rep(fail, j), ok, fail, fail), "then-ok")
				h.backoffTry(c, lim, append(rep(fail, j), abortErr, fail, fail), "then-abort")
				h.backoffTry(c, lim, append(rep(fail, j), abortNil, fail, fail), "then-abort-nil")
			}
			if lim >= 0 {
				h.backoffHistory(c, lim, rep(fail, lim+2))             // #1 exhausted
				h.backoffHistory(c, lim, append(rep(fail, lim), ok))   // #1 succeeded at the last attempt
				h.backoffHistory(c, lim, append(rep(fail, lim), abortErr)) // #1 aborted (context stopped / encode failure)
				h.backoffHistory(c, lim, []fnOut{ok})
			}
		}
	}
	nr := 10
	if h.tier == "thorough" {
		nr = 150
	}
	for i := 0; i < nr; i++ {
		c := tryCfgs[h.r.Intn(len(tryCfgs))]
		lim := limits[h.r.Intn(len(limits))]
		n := 1 + h.r.Intn(8)
		var sc []fnOut
		for j := 0; j < n; j++ {
			switch x := h.r.Intn(10); {
			case x < 7:
				sc = append(sc, fail)
			case x < 8:
				sc = append(sc, ok)
			case x < 9:
				sc = append(sc, abortErr)
			default:
				sc = append(sc, abortNil)
			}
		}
		sc = append(sc, ok) // every script lets Try return
		h.backoffTry(c, lim, sc, "random")
	}
	h.o.Info["backoff_phase_s"] = time.Since(t0).Seconds()
	h.logf("backoff differential done in %.2fs", time.Since(t0).Seconds())
}

// liveMailboxBackoff: the back-off object of A's outbound mailbox towards addr; nil + reason when an accessor cannot locate it
func liveMailboxBackoff(A *Node, addr string) (*utils.ExponentialBackoff, *remoting.ServerActor, string) {
	sys, ok := A.Sys.(*actor.System)
	if !ok {
		return nil, nil, "the system is not an *actor.System"
	}
	srv := actor.XVRemotingServer(sys)
	if srv == nil {
		return nil, nil, "System: no field of type *remoting.ServerActor"
	}
	m := remoting.XVMailboxOf(srv, addr, sys)
	if m == nil {
		return nil, srv, "ServerActor: mailbox central / GetOrCreate not located"
	}
	eb := remoting.XVMailboxBackoff(m)
	if eb == nil {
		return nil, srv, "Mailbox: no field of type *utils.ExponentialBackoff"
	}
	return eb, srv, ""
}

// the objects vivid constructs: configuration (Factor 2, jitter, 100 ms .. 3 s / 10 s) and the counter at rest
func (h *H) backoffLive(A, B *Node) {
	describe := func(eb *utils.ExponentialBackoff) lib.T {
		f := uint64(0)
		if eb.Factor == 2.0 {
			f = 2
		} else {
			f = 1000000 + uint64(eb.Factor*1000)
		}
		return lib.L(lib.N(uint64(eb.InitialDelay)), lib.N(uint64(eb.MaxDelay)), lib.N(f), lib.Bool(eb.Jitter))
	}
	eb, srv, why := liveMailboxBackoff(A, B.Adv)
	if eb == nil {
		h.o.Info["backoff_live_mailbox"] = "UNAVAILABLE: " + why
	} else {
		h.o.Case("backoff-config", true, lib.L(lib.N(7), lib.N(0)), describe(eb))
	}
	if srv == nil {
		h.o.Info["backoff_live_server"] = "UNAVAILABLE: " + why
	} else if sb := remoting.XVAcceptBackoff(srv); sb == nil {
		h.o.Info["backoff_live_server"] = "UNAVAILABLE: ServerActor: no field of type *utils.ExponentialBackoff"
	} else {
		h.o.Case("backoff-config", true, lib.L(lib.N(7), lib.N(1)), describe(sb))
	}
}

// mailboxAtRest: no Enqueue of A towards peer is in flight: the attempt counter of that mailbox must be 0
func (h *H) mailboxAtRest(A *Node, peerAdv string, where string) {
	eb, _, why := liveMailboxBackoff(A, peerAdv)
	if eb == nil {
		h.o.Info["mailbox_at_rest"] = "UNAVAILABLE: " + why
		return
	}
	if a := eb.GetAttempt(); a != 0 {
		h.o.Monitor("c14-backoff-not-reset", lib.L(lib.S("mailbox"), lib.S(where)), fmt.Sprintf("%s: the remote mailbox of %s towards %s is idle (its last Enqueue has returned) but its back-off counter is %d: the next message gets %d fewer attempts than configured (ReconnectLimit %d)", where, A.Name, peerAdv, a, a, A.Limit))
	}
	h.o.Stats["mailbox-at-rest-checks"]++
}

// the configuration of remoting.newMailbox (checked against the live object by backoffLive)
var mailboxCfg = boCfg{int64(100 * time.Millisecond), int64(3 * time.Second), true}
