// remoting: two real vivid systems over loopback through the harness proxy (C11, C14).
package main

import (
	"flag"
	"fmt"
	"os"
	"time"

	"github.com/kercylan98/vivid/xverif/lib"
)

type H struct {
	o    *lib.Out
	r    *lib.Rand
	tier string
	seed uint64
	t0   time.Time
	abort bool
	noReport int
	slowRounds int
	noRecovery int
}

func (h *H) logf(format string, a ...any) {
	if os.Getenv("XV_VERBOSE") != "" {
		fmt.Fprintf(os.Stderr, "[%6.2fs] "+format+"\n", append([]any{time.Since(h.t0).Seconds()}, a...)...)
	}
}

func main() {
	mode := flag.String("mode", "frame", "frame (C11: healthy link) | link (C14: faults) | transparency (C15: remote Kill / Watch)")
	f := lib.ParseFlags()
	o := lib.NewOut(f.Out)
	h := &H{o: o, r: lib.NewRand(f.Seed), tier: f.Tier, seed: f.Seed, t0: time.Now()}
	defer func() {
		if r := recover(); r != nil {
			o.Monitor("harness-panic", nil, fmt.Sprint(r))
			o.Close(f.Report)
			os.Exit(3)
		}
	}()
	switch *mode {
	case "frame":
		h.runFrame()
	case "link":
		h.runLink()
	case "transparency":
		h.runTransparency()
	default:
		fmt.Fprintln(os.Stderr, "unknown mode")
		os.Exit(2)
	}
	o.Info["wall_s"] = time.Since(h.t0).Seconds()
	o.Close(f.Report)
	if len(o.Monitors) > 0 {
		os.Exit(3)
	}
}
