// future: lock-step traces of ONE real Ask for C04 — the real (*Context).ask, the real future.Future
// (both instrumented from the tree under test), the real future tables of System (appendFuture, removeFuture,
// removeFuturesByAgentPath, findMailbox) and the real Context.Tell, driven by the controlled scheduler with a
// virtual timer — plus implementation-side monitors.
package main

import (
	"fmt"
	"os"
	"regexp"
	"sort"
	"strconv"
	"strings"
	"time"

	"github.com/kercylan98/vivid"
	"github.com/kercylan98/vivid/internal/actor"
	"github.com/kercylan98/vivid/internal/future"
	"github.com/kercylan98/vivid/pkg/ves"
	"github.com/kercylan98/vivid/xverif/lib"
	"github.com/kercylan98/vivid/xverif/vsched"
)

// ---- configuration = the thread population of one run ----

const (
	kReply   = 0
	kClose   = 1
	kDeath   = 2
	kPipe    = 3
	kWait    = 4
	kForReg  = 5
	kForUnrg = 6
)

type value struct {
	kind int // 0 message, 1 error, 2 nil
	n    uint64
}

type prog struct {
	kind int
	path uint64 // reply / foreign: 0 = the future's own agent path, p>=1 = /foreign/p
	val  value  // reply
	errc uint64 // Close(err)
	fwds []uint64
	full bool   // Result (true) / Wait (false)
	id   uint64 // foreign registration: identity of the registered actor
}

type config struct {
	timeout uint64 // 0 = no timer
	progs   []prog
}

type codeErr struct{ n uint64 }

func (e codeErr) Error() string { return fmt.Sprintf("E%d", e.n) }

func errCode(e error) (bool, uint64) {
	if e == nil {
		return false, 0
	}
	if c, ok := e.(codeErr); ok {
		return true, c.n
	}
	switch e {
	case error(vivid.ErrorFutureTimeout):
		return true, 1
	case error(vivid.ErrorActorDeaded):
		return true, 2
	}
	return true, 999
}

func msgCode(m vivid.Message) (bool, uint64) {
	if m == nil {
		return false, 0
	}
	if u, ok := m.(uint64); ok {
		return true, u
	}
	return true, 998
}

func (v value) goValue() any {
	switch v.kind {
	case 0:
		return v.n
	case 1:
		return codeErr{v.n}
	}
	return nil
}

func (v value) term() lib.T {
	switch v.kind {
	case 0:
		return lib.L(lib.N(0), lib.N(v.n))
	case 1:
		return lib.L(lib.N(1), lib.N(v.n))
	}
	return lib.L(lib.N(2))
}

type res struct {
	hasMsg bool
	msg    uint64
	hasErr bool
	err    uint64
}

func (r res) terms() []lib.T {
	return []lib.T{lib.Opt(r.hasMsg, lib.N(r.msg)), lib.Opt(r.hasErr, lib.N(r.err))}
}
func (r res) String() string {
	m, e := "nil", "nil"
	if r.hasMsg {
		m = fmt.Sprint(r.msg)
	}
	if r.hasErr {
		e = fmt.Sprintf("E%d", r.err)
	}
	return "(" + m + "," + e + ")"
}
func mkRes(m vivid.Message, e error) res {
	var r res
	r.hasMsg, r.msg = msgCode(m)
	r.hasErr, r.err = errCode(e)
	return r
}

// ---- fake mailboxes (the only fakes: everything between them is the real code) ----

type sink struct {
	on func(vivid.Envelop)
}

func (s *sink) Enqueue(e vivid.Envelop) { s.on(e) }
func (s *sink) Pause()                  {}
func (s *sink) Resume()                 {}
func (s *sink) IsPaused() bool          { return false }

type tellRec struct {
	fwd uint64
	r   res
}
type retRec struct {
	tid int
	r   res
}
type routeRec struct {
	path    uint64
	val     value
	hasDest bool
	dest    uint64
}

type world struct {
	cfg       config
	sys       *actor.System
	asker     *actor.Context
	replier   *actor.Context
	recipient *actor.Ref
	fut       *future.Future[vivid.Message]
	askDone   chan struct{}
	request   vivid.Envelop
	tells     []tellRec
	rets      []retRec
	routed    []routeRec
	foreign   map[uint64]*actor.Context // id -> context whose mailbox records deliveries
	delivered []string                  // "id:value" for deliveries to foreign mailboxes / "root:value"
	futPath   string
	panicked  string
}

const askerPath = "/asker"

func foreignPath(p uint64) string { return fmt.Sprintf("/foreign/%d", p) }

func newWorld(cfg config) *world {
	w := &world{cfg: cfg, askDone: make(chan struct{}), foreign: map[uint64]*actor.Context{}}
	// the root mailbox: an unregistered local path resolves to the dead-letter mailbox, which tells the root a
	// DeathLetterEvent wrapping the envelope
	w.sys = actor.XVNewBareSystem(&sink{on: func(e vivid.Envelop) {
		if dl, ok := e.Message().(ves.DeathLetterEvent); ok {
			w.delivered = append(w.delivered, fmt.Sprintf("root:%v", dl.Envelope.Message()))
			return
		}
		w.delivered = append(w.delivered, fmt.Sprintf("root!:%v", e.Message()))
	}})
	w.asker = actor.XVNewBareContext(w.sys, askerPath, &sink{on: func(vivid.Envelop) {}})
	w.replier = actor.XVNewBareContext(w.sys, "/replier", &sink{on: func(vivid.Envelop) {}})
	w.recipient = actor.XVRef("/recipient", &sink{on: func(e vivid.Envelop) { w.request = e }})
	for _, g := range cfg.progs {
		if g.kind == kForReg {
			id := g.id
			if _, ok := w.foreign[id]; !ok {
				w.foreign[id] = actor.XVNewBareContext(w.sys, fmt.Sprintf("/actor/%d", id), &sink{on: func(e vivid.Envelop) {
					w.delivered = append(w.delivered, fmt.Sprintf("%d:%v", id, e.Message()))
				}})
			}
		}
	}
	return w
}

func (w *world) forwarderRef(n uint64) vivid.ActorRef {
	return actor.XVRef(fmt.Sprintf("/fwd/%d", n), &sink{on: func(e vivid.Envelop) {
		pr, ok := e.Message().(*vivid.PipeResult)
		if !ok {
			panic("forwarder got a non-PipeResult")
		}
		w.tells = append(w.tells, tellRec{n, mkRes(pr.Message, pr.Error)})
	}})
}

// the thread bodies. Every body starts with a scheduling point so that the "start" step is empty.
func (w *world) body(tid int, g prog) func() {
	switch g.kind {
	case kReply:
		return func() {
			var target vivid.ActorRef
			var key string
			if g.path == 0 {
				vsched.RecvClosed(w.askDone, "user:await")
				target = w.request.Sender()
				key = target.GetPath()
			} else {
				key = foreignPath(g.path)
				target = actor.XVRef(key, nil)
			}
			vsched.Yield("reply:lookup")
			// what is registered under the addressed path right now (same step as the lookup inside tell)
			rr := routeRec{path: g.path, val: g.val}
			switch kind, ctx, fut := actor.XVLookup(w.sys, key); kind {
			case 1:
				for id, c := range w.foreign {
					if c == ctx {
						rr.hasDest, rr.dest = true, id
					}
				}
			case 2:
				if fut == w.fut {
					rr.hasDest, rr.dest = true, 0
				} else {
					rr.hasDest, rr.dest = true, 997
				}
			}
			w.routed = append(w.routed, rr)
			w.replier.Tell(target, g.val.goValue()) // real Context.tell -> findMailbox -> Enqueue
		}
	case kClose:
		return func() {
			vsched.RecvClosed(w.askDone, "user:await")
			w.fut.Close(codeErr{g.errc})
		}
	case kDeath:
		return func() {
			vsched.Yield("death:lookup")
			actor.XVDeath(w.sys, askerPath)
		}
	case kPipe:
		return func() {
			vsched.RecvClosed(w.askDone, "user:await")
			var refs vivid.ActorRefs
			for _, n := range g.fwds {
				refs = append(refs, w.forwarderRef(n))
			}
			_ = w.fut.PipeTo(refs)
		}
	case kWait:
		return func() {
			vsched.RecvClosed(w.askDone, "user:await")
			if g.full {
				m, e := w.fut.Result()
				w.rets = append(w.rets, retRec{tid, mkRes(m, e)})
			} else {
				e := w.fut.Wait()
				w.rets = append(w.rets, retRec{tid, mkRes(nil, e)})
			}
		}
	case kForReg:
		return func() {
			vsched.Yield("foreign:reg")
			actor.XVStoreContext(w.sys, foreignPath(g.path), w.foreign[g.id])
		}
	case kForUnrg:
		return func() {
			vsched.Yield("foreign:unreg")
			actor.XVDeletePath(w.sys, foreignPath(g.path))
		}
	}
	panic("bad prog")
}

// A step is identified by WHAT it does, not by the function that contains it: the instrumenter's label is
// "<enclosing function>:<operation>"; the function prefix is stripped and the operation (callee / lock / channel
// operation and the field it acts on, whatever the receiver variable is called) is mapped to the model's operation class
// (Future/FutRun.v class_code). Extracting helpers, renaming functions or locals therefore does not disturb the tie; the
// per-step state comparison keeps it tight.
var (
	reNew      = regexp.MustCompile(`NewFuture\[`)
	reAppend   = regexp.MustCompile(`\.appendFuture$`)
	reCas      = regexp.MustCompile(`\.closed\.CompareAndSwap$`)
	reLoad     = regexp.MustCompile(`\.closed\.Load$`)
	reAsgErr   = regexp.MustCompile(`^assign:\w+\.err$`)
	reAsgMsg   = regexp.MustCompile(`^assign:\w+\.message$`)
	reCloseCh  = regexp.MustCompile(`^close:\w+\.done$`)
	reCloser   = regexp.MustCompile(`\.closer$`)
	reLockMu   = regexp.MustCompile(`^Lock:\w+\.mu$`)
	reTell     = regexp.MustCompile(`\.liaison\.Tell$`)
	reRecvDone = regexp.MustCompile(`^recv:\w+\.done$`)
	reAppFwd   = regexp.MustCompile(`^append\(\w+\.forwarders, .*\)\.Unique$`)
)

// opOf strips the enclosing-function prefix of an instrumenter label.
func opOf(l string) string {
	if i := strings.Index(l, ":"); i >= 0 {
		return l[i+1:]
	}
	return l
}

func labelCode(l string) uint64 {
	switch l { // scheduling points of the harness itself / of vsched
	case "start":
		return 1
	case "user:await":
		return 2
	case "timer:fire":
		return 5
	case "reply:lookup":
		return 6
	case "death:lookup":
		return 7
	case "foreign:reg", "foreign:unreg":
		return 18
	}
	op := opOf(l)
	switch {
	case reNew.MatchString(op):
		return 3
	case reAppend.MatchString(op):
		return 4
	case reCas.MatchString(op):
		return 8
	case reAsgErr.MatchString(op):
		return 9
	case reAsgMsg.MatchString(op):
		return 10
	case reCloseCh.MatchString(op):
		return 11
	case reCloser.MatchString(op):
		return 12
	case reLockMu.MatchString(op):
		return 13 // in close and in PipeTo: one class
	case reTell.MatchString(op):
		return 14
	case reLoad.MatchString(op):
		return 16 // in PipeTo and in Closed(): one class
	case reRecvDone.MatchString(op):
		return 17 // in Result / Wait and in PipeTo: one class
	case reAppFwd.MatchString(op):
		return 21
	}
	return 98
}

// stuckThreads parses vsched's description of the unfinished threads: thread id -> label it is parked at.
func stuckThreads(stuck string) map[int]string {
	out := map[int]string{}
	for _, m := range regexp.MustCompile(`\[thread (\d+) at "([^"]*)"\]`).FindAllStringSubmatch(stuck, -1) {
		id, _ := strconv.Atoi(m[1])
		out[id] = m[2]
	}
	return out
}

type snap struct {
	visible             bool
	closed, done        bool
	r                   res
	nfwd                int
	regCtx, regAgents   bool
	nreg                int
	ntells, nrets, nrtd int
}

func (s snap) terms() []lib.T {
	out := []lib.T{lib.Bool(s.closed)}
	out = append(out, lib.Opt(s.r.hasErr, lib.N(s.r.err)), lib.Opt(s.r.hasMsg, lib.N(s.r.msg)))
	out = append(out, lib.Bool(s.done), lib.NI(s.nfwd), lib.Bool(s.regCtx), lib.NI(s.nreg), lib.NI(s.ntells), lib.NI(s.nrets), lib.NI(s.nrtd), lib.Bool(s.visible))
	return out
}

func (w *world) snapshot() snap {
	var s snap
	s.ntells, s.nrets, s.nrtd = len(w.tells), len(w.rets), len(w.routed)
	s.nreg, _, _ = actor.XVRegistryCounts(w.sys)
	if w.fut == nil {
		// between NewFuture and the return of ask the future is reachable only from ask's frame and the timer:
		// the harness cannot see it; the model masks the same fields while [sent] is false
		return s
	}
	s.visible = true
	var e error
	var m vivid.Message
	s.closed, e, m, s.nfwd, s.done = future.XVState(w.fut)
	s.r = mkRes(m, e)
	kind, _, fut := actor.XVLookup(w.sys, w.futPath)
	s.regCtx = kind == 2 && fut == w.fut
	s.regAgents = actor.XVAgentRegistered(w.sys, w.futPath)
	return s
}

type result struct {
	sched    []int
	trace    []vsched.Step
	choices  []vsched.Choice
	deadlock bool
	overrun  bool
	stuck    string
	w        *world
	final    snap
}

func execute(cfg config, choose func([]int, int) int) result {
	actor.XVRegistryBlocking = false // every goroutine is parked when the tables are read
	w := newWorld(cfg)
	s := vsched.New(choose)
	s.MaxSteps = 2000
	tid := s.Spawn("ask", func() {
		var d time.Duration
		if cfg.timeout > 0 {
			d = time.Duration(cfg.timeout) * time.Hour // virtual: the controller decides when it fires
		}
		f := actor.XVAsk(w.asker, w.recipient, "request", d)
		w.fut = f
		if w.request == nil {
			panic("ask returned without sending the request")
		}
		w.futPath = w.request.Sender().GetPath()
		close(w.askDone)
	})
	if tid != 0 {
		panic("tid mismatch")
	}
	for i, g := range cfg.progs {
		body := w.body(i+1, g)
		guarded := func() {
			defer func() {
				if r := recover(); r != nil {
					w.panicked = fmt.Sprint(r)
				}
			}()
			body()
		}
		if got := s.Spawn("env", guarded); got != i+1 {
			panic("tid mismatch")
		}
	}
	s.Snapshot = func() any { return w.snapshot() }
	s.Run()
	r := result{trace: s.Trace, choices: s.Choices, deadlock: s.Deadlock, overrun: s.Overrun, w: w}
	if s.Deadlock || s.Overrun {
		r.stuck = s.Stuck()
	}
	for _, st := range s.Trace {
		r.sched = append(r.sched, st.Tid)
	}
	r.final = w.snapshot()
	return r
}

func cfgTerms(cfg config) (lib.T, lib.T) {
	ps := make([]lib.T, len(cfg.progs))
	for i, g := range cfg.progs {
		switch g.kind {
		case kReply:
			ps[i] = lib.L(lib.N(0), lib.N(g.path), g.val.term())
		case kClose:
			ps[i] = lib.L(lib.N(1), lib.N(g.errc))
		case kDeath:
			ps[i] = lib.L(lib.N(2))
		case kPipe:
			fs := make([]lib.T, len(g.fwds))
			for j, f := range g.fwds {
				fs[j] = lib.N(f)
			}
			ps[i] = lib.L(lib.N(3), lib.LS(fs))
		case kWait:
			ps[i] = lib.L(lib.N(4), lib.Bool(g.full))
		case kForReg:
			ps[i] = lib.L(lib.N(5), lib.N(g.path), lib.N(g.id))
		case kForUnrg:
			ps[i] = lib.L(lib.N(6), lib.N(g.path))
		}
	}
	return lib.N(cfg.timeout), lib.LS(ps)
}

type H struct {
	o    *lib.Out
	seen map[string]bool
}

func (h *H) emit(cfg config, r result) {
	sched := make([]lib.T, len(r.sched))
	for i, t := range r.sched {
		sched[i] = lib.NI(t)
	}
	tt, pt := cfgTerms(cfg)
	in := lib.L(tt, pt, lib.LS(sched))
	key := lib.Show(in)
	if h.seen[key] {
		h.o.Stats["duplicate-schedules"]++
		return
	}
	h.seen[key] = true
	w := r.w
	steps := make([]lib.T, len(r.trace))
	for i, st := range r.trace {
		c := labelCode(st.Label)
		if c == 98 {
			h.o.Stats["unknown-label:"+st.Label]++
		}
		steps[i] = lib.LS(append([]lib.T{lib.N(c)}, st.Snap.(snap).terms()...))
	}
	tells := make([]lib.T, len(w.tells))
	for i, t := range w.tells {
		tells[i] = lib.LS(append([]lib.T{lib.N(t.fwd)}, t.r.terms()...))
	}
	rets := make([]lib.T, len(w.rets))
	for i, t := range w.rets {
		rets[i] = lib.LS(append([]lib.T{lib.NI(t.tid)}, t.r.terms()...))
	}
	routed := make([]lib.T, len(w.routed))
	for i, t := range w.routed {
		routed[i] = lib.L(lib.N(t.path), t.val.term(), lib.Opt(t.hasDest, lib.N(t.dest)))
	}
	end := uint64(0)
	if r.deadlock {
		end = 1
	}
	if r.overrun {
		end = 2
	}
	out := lib.L(lib.LS(steps), lib.LS(tells), lib.LS(rets), lib.LS(routed), lib.N(end))
	pre := 0
	for i := 1; i < len(r.sched); i++ {
		if r.sched[i] != r.sched[i-1] {
			pre++
		}
	}
	h.o.Case(fmt.Sprintf("threads=%d,timer=%v", len(cfg.progs)+1, cfg.timeout > 0), pre >= 2, in, out)
	h.o.Stats["steps"] += len(r.trace)
	h.monitors(cfg, r, in)
}

// ---- monitors: the property evaluated on what the real code did ----
func (h *H) monitors(cfg config, r result, in lib.T) {
	w := r.w
	o := h.o
	fin := r.final
	if w.panicked != "" {
		o.Monitor("panic", in, "a goroutine using the future panicked: "+w.panicked)
		return
	}
	if r.overrun {
		o.Monitor("no-termination", in, "still taking steps after the bound: "+r.stuck)
		return
	}
	// index of the interesting steps in the trace
	idx := func(code uint64, from int) int {
		for i := from; i < len(r.trace); i++ {
			if labelCode(r.trace[i].Label) == code {
				return i
			}
		}
		return -1
	}
	// 1. one-shot: after done is closed the result never changes; the result is assigned at most once
	doneAt := -1
	assigns := 0
	casWins := 0
	prevClosed := false
	for i, st := range r.trace {
		s := st.Snap.(snap)
		c := labelCode(st.Label)
		if c == 9 || c == 10 {
			assigns++
		}
		if s.visible {
			if c == 8 && s.closed && !prevClosed {
				casWins++
			}
			prevClosed = s.closed
		}
		if s.visible && s.done && doneAt < 0 {
			doneAt = i
		}
		if doneAt >= 0 && s.visible && s.r != fin.r {
			o.Monitor("result-changed-after-done", in, fmt.Sprintf("step %d: result %v after done was closed, final %v", i, s.r, fin.r))
			break
		}
		if doneAt >= 0 && s.visible && !s.done {
			o.Monitor("done-reopened", in, fmt.Sprintf("step %d", i))
		}
	}
	if assigns > 1 {
		o.Monitor("completed-twice", in, fmt.Sprintf("%d assignments of err/message", assigns))
	}
	// 2. Result / Wait return the final values
	for _, rt := range w.rets {
		want := fin.r
		if !cfg.progs[rt.tid-1].full {
			want.hasMsg, want.msg = false, 0
		}
		if rt.r != want {
			o.Monitor("waiter-wrong-result", in, fmt.Sprintf("thread %d returned %v, the future's final result is %v", rt.tid, rt.r, fin.r))
		}
	}
	// 3. completion / blocking
	attempted := idx(8, 0) >= 0
	if !r.deadlock {
		if (attempted || cfg.timeout > 0) && !(fin.visible && fin.done) {
			o.Monitor("not-completed", in, "every goroutine finished, a reply/timeout/Close reached the future, but done is not closed")
		}
	} else {
		// blocked goroutines: legitimate only for Result/Wait callers (threads of kind kWait parked at <-done) on a future
		// nothing ever completed
		onlyWaiters := true
		for tid, lab := range stuckThreads(r.stuck) {
			if tid < 1 || tid > len(cfg.progs) || cfg.progs[tid-1].kind != kWait || !reRecvDone.MatchString(opOf(lab)) {
				onlyWaiters = false
			}
		}
		if !onlyWaiters {
			o.Monitor("deadlock", in, r.stuck)
		} else if fin.visible && (fin.done || fin.closed) || attempted || cfg.timeout > 0 {
			o.Monitor("waiter-blocked-forever", in, "Result/Wait blocked although the future was completed (or had a timeout): "+r.stuck)
		}
	}
	terminal := !r.overrun
	completed := fin.visible && fin.done
	// 4. no registration left
	if terminal && completed && (fin.regCtx || fin.regAgents) {
		closerAt, appendAt := idx(12, 0), idx(4, 0)
		why := "other"
		if closerAt >= 0 && appendAt >= 0 && closerAt < appendAt {
			why = "closer() ran at step " + fmt.Sprint(closerAt) + " before appendFuture at step " + fmt.Sprint(appendAt) + " (the timer completed the future before ask registered it)"
		} else if closerAt < 0 {
			why = "closer() never ran"
		}
		o.Monitor("registration-left", in, fmt.Sprintf("the future completed with %v but is still registered (actorContexts=%v futureAgents=%v): %s", fin.r, fin.regCtx, fin.regAgents, why))
	}
	// 5. forwarders: exactly one PipeResult each, carrying the final result
	mult := map[uint64]int{}
	for _, g := range cfg.progs {
		if g.kind == kPipe {
			for _, f := range g.fwds {
				mult[f]++
			}
		}
	}
	got := map[uint64]int{}
	for i, t := range w.tells {
		got[t.fwd]++
		if _, ok := mult[t.fwd]; !ok {
			o.Monitor("phantom-forward", in, fmt.Sprintf("PipeResult to %d which no PipeTo named", t.fwd))
		}
		if completed && t.r != fin.r {
			// was the sending PipeTo's Load between the CAS and the assignment?
			why := "other"
			casAt := idx(8, 0) // the first CAS is the one that wins
			asgAt := idx(9, 0)
			if a := idx(10, 0); asgAt < 0 || (a >= 0 && a < asgAt) {
				asgAt = a
			}
			for j, st := range r.trace {
				if labelCode(st.Label) == 16 && st.Tid != 0 && casAt >= 0 && j > casAt && (asgAt < 0 || j < asgAt) {
					why = fmt.Sprintf("PipeTo loaded closed=true at step %d, between the CAS (step %d) and the assignment (step %d)", j, casAt, asgAt)
				}
			}
			o.Monitor("forwarder-wrong-result", in, fmt.Sprintf("PipeResult #%d to forwarder %d carries %v, the future's final result is %v: %s", i, t.fwd, t.r, fin.r, why))
		}
	}
	if terminal && completed && !r.deadlock {
		fs := make([]uint64, 0, len(mult))
		for f := range mult {
			fs = append(fs, f)
		}
		sort.Slice(fs, func(i, j int) bool { return fs[i] < fs[j] })
		for _, f := range fs {
			if got[f] < 1 || got[f] > mult[f] {
				o.Monitor("forwarder-count", in, fmt.Sprintf("forwarder %d was named by %d PipeTo call(s) and received %d PipeResult(s)", f, mult[f], got[f]))
			}
		}
	}
	// 6. routing: a reply reaches only what is registered under the path it was addressed to
	for _, rr := range w.routed {
		if rr.hasDest && rr.dest == 997 {
			o.Monitor("reply-misrouted", in, fmt.Sprintf("path %d resolves to an unknown future", rr.path))
		}
		if rr.hasDest && (rr.dest == 0) != (rr.path == 0) {
			o.Monitor("reply-misrouted", in, fmt.Sprintf("reply addressed to path %d was delivered to mailbox %d", rr.path, rr.dest))
		}
	}
	if completed && fin.r.hasMsg {
		for _, g := range cfg.progs {
			if g.kind == kReply && g.path != 0 && g.val.kind == 0 && g.val.n == fin.r.msg {
				o.Monitor("reply-misrouted", in, fmt.Sprintf("the future completed with message %d, which was addressed to path %d", g.val.n, g.path))
			}
		}
	}
	// every foreign / root delivery must be the one announced by the lookup
	want := []string{}
	for _, rr := range w.routed {
		if rr.hasDest && rr.dest == 0 {
			continue
		}
		who := "root"
		if rr.hasDest {
			who = fmt.Sprint(rr.dest)
		}
		want = append(want, fmt.Sprintf("%s:%v", who, rr.val.goValue()))
	}
	if fmt.Sprint(want) != fmt.Sprint(w.delivered) {
		o.Monitor("reply-misrouted", in, fmt.Sprintf("deliveries %v, registry lookups announced %v", w.delivered, want))
	}
}

func (h *H) explore(cfg config, bound, maxRuns int) int {
	return vsched.Explore(bound, maxRuns, func(choose func([]int, int) int) []vsched.Choice {
		r := execute(cfg, choose)
		h.emit(cfg, r)
		return r.choices
	})
}

func randomCfg(r *lib.Rand) config {
	cfg := config{}
	if r.Chance(1, 2) {
		cfg.timeout = uint64(1 + r.Intn(3))
	}
	nextVal := uint64(20)
	nextFwd := uint64(1)
	add := func(g prog) { cfg.progs = append(cfg.progs, g) }
	val := func() value {
		nextVal++
		switch k := r.Intn(10); {
		case k < 7:
			return value{0, nextVal}
		case k < 9:
			return value{1, nextVal}
		}
		return value{2, 0}
	}
	for i, n := 0, r.Intn(4); i < n; i++ {
		p := uint64(0)
		if r.Chance(1, 5) {
			p = uint64(1 + r.Intn(2))
		}
		add(prog{kind: kReply, path: p, val: val()})
	}
	for i, n := 0, r.Intn(3); i < n; i++ {
		nextVal++
		add(prog{kind: kClose, errc: nextVal})
	}
	if r.Chance(1, 3) {
		add(prog{kind: kDeath})
	}
	for i, n := 0, r.Intn(3); i < n; i++ {
		var fs []uint64
		for j, m := 0, 1+r.Intn(2); j < m; j++ {
			if r.Chance(1, 8) && nextFwd > 1 {
				fs = append(fs, uint64(1+r.Intn(int(nextFwd-1)))) // a forwarder named twice
			} else {
				fs = append(fs, nextFwd)
				nextFwd++
			}
		}
		add(prog{kind: kPipe, fwds: fs})
	}
	for i, n := 0, r.Intn(3); i < n; i++ {
		add(prog{kind: kWait, full: r.Bool()})
	}
	if r.Chance(1, 4) {
		add(prog{kind: kForReg, path: uint64(1 + r.Intn(2)), id: uint64(1 + r.Intn(2))})
		if r.Bool() {
			add(prog{kind: kForUnrg, path: uint64(1 + r.Intn(2))})
		}
	}
	if r.Chance(1, 30) {
		add(prog{kind: kPipe, fwds: nil})
	}
	// shuffle thread order
	for i := len(cfg.progs) - 1; i > 0; i-- {
		j := r.Intn(i + 1)
		cfg.progs[i], cfg.progs[j] = cfg.progs[j], cfg.progs[i]
	}
	return cfg
}

func main() {
	f := lib.ParseFlags()
	o := lib.NewOut(f.Out)
	h := &H{o: o, seen: map[string]bool{}}
	r := lib.NewRand(f.Seed)
	thorough := f.Tier == "thorough"
	reply := func(n uint64) prog { return prog{kind: kReply, val: value{0, n}} }
	replyV := func(v value) prog { return prog{kind: kReply, val: v} }
	replyTo := func(p, n uint64) prog { return prog{kind: kReply, path: p, val: value{0, n}} }
	cl := func(e uint64) prog { return prog{kind: kClose, errc: e} }
	pipe := func(fs ...uint64) prog { return prog{kind: kPipe, fwds: fs} }
	wait := func(full bool) prog { return prog{kind: kWait, full: full} }
	death := prog{kind: kDeath}
	fixed := []config{
		{0, []prog{reply(7)}},
		{0, []prog{reply(7), wait(true)}},
		{1, nil},
		{1, []prog{reply(7)}},
		{0, []prog{reply(7), pipe(1)}},
		{0, []prog{reply(7), pipe(1, 2), wait(true)}},
		{1, []prog{reply(7), death, pipe(1)}},
		{0, []prog{cl(10), reply(7), pipe(1), pipe(2)}},
		{1, []prog{reply(7), reply(8), cl(11), wait(false)}},
		{0, []prog{replyTo(1, 9), {kind: kForReg, path: 1, id: 1}, reply(7), {kind: kForUnrg, path: 1}}},
		{0, []prog{replyV(value{2, 0}), pipe(1), wait(true)}},
		{0, []prog{replyV(value{1, 12}), wait(true), pipe(1, 2)}},
		{2, []prog{death, wait(true), pipe(1)}},
		{0, []prog{wait(true), pipe(1)}},
	}
	bound, perCfg := 2, 150
	if thorough {
		bound, perCfg = 3, 60000
	}
	total := 0
	for _, c := range fixed {
		total += h.explore(c, bound, perCfg)
	}
	if thorough {
		// one more preemption on the smaller populations
		for _, c := range fixed {
			if len(c.progs) <= 3 {
				total += h.explore(c, 4, 30000)
			}
		}
	}
	o.Info["dfs_configs"] = len(fixed)
	o.Info["dfs_preemption_bound"] = bound
	o.Info["dfs_runs"] = total
	n := 600
	if thorough {
		n = 150000
	}
	if f.N > 0 {
		n = f.N
	}
	for i := 0; i < n; i++ {
		cfg := randomCfg(r)
		rr := r.Fork()
		var ch func([]int, int) int
		if r.Bool() {
			ch = vsched.RandomChooser(rr.Intn)
		} else {
			ch = vsched.StickyChooser(rr.Intn, 2+r.Intn(5))
		}
		h.emit(cfg, execute(cfg, ch))
	}
	o.Info["random_runs"] = n
	o.Close(f.Report)
	if len(o.Monitors) > 0 {
		os.Exit(3)
	}
}
