// msgs: correspondence cases and implementation-side monitors for the registered-message half of
// C12 (round trip) and C13 (totality): every RegisterInternalMessage wire type, WriteMessage /
// ReadMessage nesting, the remoting envelope and the handshake.
//
// Valid values are encoded and decoded in-process; the malformed stream (truncations, corruptions,
// random and length-targeted strings) is decoded by the real decoders in a child process (re-exec of
// this binary with -child) under an address-space limit and a timeout.
package main

import (
	"errors"
	"flag"
	"fmt"
	"io"
	"math"
	"math/big"
	"net"
	"os"
	"sort"
	"strings"
	"time"

	"github.com/kercylan98/vivid"
	"github.com/kercylan98/vivid/internal/actor"
	"github.com/kercylan98/vivid/internal/cluster"
	"github.com/kercylan98/vivid/internal/mailbox"
	"github.com/kercylan98/vivid/internal/messages"
	"github.com/kercylan98/vivid/internal/remoting"
	"github.com/kercylan98/vivid/internal/remoting/serialize"
	"github.com/kercylan98/vivid/xverif/lib"
)

// ---- kinds, in the order of Codec/Msgs.v all_kinds ----

const (
	kOnLaunch = iota
	kOnKill
	kOnKilled
	kPipeResult
	kPong
	kError
	kCommand
	kPing
	kPongMessage
	kWatch
	kUnwatch
	kScheduler
	kJoinRequest
	kJoinResponse
	kGossip
	kGossipTick
	kGossipCrossDCTick
	kFailureDetectionTick
	kGetViewRequest
	kGetViewResponse
	kLeaveRequest
	kLeaveAck
	kExitingReady
	kLeaveBroadcastRound
	kJoinRetryTick
	kForceMemberDown
	kTriggerViewBroadcast
	kSingletonFwd
	nKinds
)

var kindNames = [nKinds]string{
	"OnLaunch", "OnKill", "OnKilled", "PipeResult", "Pong", "Error",
	"NoneArgsCommandMessage", "PingMessage", "PongMessage", "WatchMessage", "UnwatchMessage", "SchedulerMessage",
	"clusterJoinRequest", "clusterJoinResponse", "clusterGossip", "clusterGossipTick", "clusterGossipCrossDCTick",
	"clusterFailureDetectionTick", "clusterGetViewRequest", "clusterGetViewResponse", "clusterLeaveRequest", "clusterLeaveAck",
	"clusterExitingReady", "clusterLeaveBroadcastRound", "clusterJoinRetryTick", "clusterForceMemberDown",
	"clusterTriggerViewBroadcast", "clusterSingletonForwardedMessage",
}

const maxC = uint64(1<<63 - 1)

// ---- the test Codec (mirrored by t_cenc / t_cdec in Codec/MsgsRun.v) ----

type UserMsg struct{ Data []byte }

var errTestCodec = errors.New("test codec refuses")

type testCodec struct{}

func (testCodec) Encode(m any) ([]byte, error) {
	u, ok := m.(*UserMsg)
	if !ok || u == nil {
		return nil, errTestCodec
	}
	if len(u.Data) > 0 && (u.Data[0] == 0xFE || u.Data[0] == 0xFF) {
		return nil, errTestCodec
	}
	return append([]byte(nil), u.Data...), nil
}
func (testCodec) Decode(b []byte) (any, error) {
	if len(b) > 0 && b[0] == 0xFE {
		return nil, errTestCodec
	}
	return &UserMsg{Data: append([]byte(nil), b...)}, nil
}

func codecOf(hc bool) messages.Codec {
	if hc {
		return testCodec{}
	}
	return nil
}

// ---- the ActorRef factory is an uninterpreted function of the model: record the real one's answers ----

type refCall struct {
	addr, path string
	ok         bool
	ra, rp     string
}

var refCalls []refCall

func installRefRecorder() {
	orig := vivid.XVActorRefFactory()
	if orig == nil {
		panic("no ActorRef factory registered by internal/actor")
	}
	vivid.RegisterActorRefFactory(func(address, path string) (vivid.ActorRef, error) {
		r, err := orig(address, path)
		c := refCall{addr: address, path: path, ok: err == nil}
		if err == nil {
			c.ra, c.rp = r.GetAddress(), r.GetPath()
		}
		refCalls = append(refCalls, c)
		return r, err
	})
}

func oracleTerm(cs []refCall) lib.T {
	xs := make([]lib.T, 0, len(cs))
	seen := map[string]bool{}
	for _, c := range cs {
		k := c.addr + "\x00|" + c.path
		if seen[k] {
			continue
		}
		seen[k] = true
		if c.ok {
			xs = append(xs, lib.L(lib.S(c.addr), lib.S(c.path), lib.L(lib.N(0), lib.S(c.ra), lib.S(c.rp))))
		} else {
			xs = append(xs, lib.L(lib.S(c.addr), lib.S(c.path), lib.L(lib.N(1))))
		}
	}
	return lib.LS(xs)
}

// ---- error classes (merr_code in MsgsRun.v) ----

func errCode(err error) uint64 {
	s := err.Error()
	switch {
	case errors.Is(err, errTestCodec):
		return 10
	case errors.Is(err, vivid.ErrorRefInvalidAddress), errors.Is(err, vivid.ErrorRefInvalidPath):
		return 15
	case strings.Contains(s, "no codec configured"):
		return 11
	case strings.HasPrefix(s, "serialize message ") && strings.Contains(s, " failed: "):
		return 12
	case errors.Is(err, io.ErrUnexpectedEOF), errors.Is(err, io.EOF):
		return 1
	case errors.Is(err, cluster.ErrVersionOverflow), errors.Is(err, messages.ErrOverflow):
		return 2
	case errors.Is(err, cluster.ErrVectorTooLarge), strings.Contains(s, "exceeds max"), strings.HasPrefix(s, "handshake address too long"):
		return 3
	case errors.Is(err, cluster.ErrInvalidNodeAddress), strings.Contains(s, "cannot write nil pointer"):
		return 4
	case strings.Contains(s, "unsupported type"):
		return 5
	}
	return 99
}

// ---- values -> terms ----

func zbig(v *big.Int) lib.T {
	if v.Sign() < 0 {
		return lib.L(lib.N(1), lib.Big(new(big.Int).Neg(v)))
	}
	return lib.L(lib.N(0), lib.Big(v))
}

func instant(t time.Time) *big.Int {
	v := big.NewInt(t.Unix())
	v.Mul(v, big.NewInt(1000000000))
	return v.Add(v, big.NewInt(int64(t.Nanosecond())))
}
func tTime(t time.Time) lib.T { return zbig(instant(t)) }
func inNanoRange(t time.Time) bool {
	v := instant(t)
	return v.Cmp(big.NewInt(math.MinInt64)) >= 0 && v.Cmp(big.NewInt(math.MaxInt64)) <= 0
}

func tEref(r vivid.ActorRef) lib.T {
	if r == nil {
		return lib.L()
	}
	if p, ok := r.(*actor.Ref); ok && p == nil {
		return lib.L(lib.N(0))
	}
	return lib.L(lib.S(r.GetAddress()), lib.S(r.GetPath()))
}

func tPerr(e error) lib.T {
	if e == nil {
		return lib.L()
	}
	if ve, ok := e.(*vivid.Error); ok {
		if ve == nil {
			return lib.L(lib.N(2))
		}
		return lib.L(lib.N(0), lib.Z(int64(ve.GetCode())), lib.S(ve.GetMessage()))
	}
	return lib.L(lib.N(1), lib.S(e.Error()))
}

func tMapSS(m map[string]string) lib.T {
	if m == nil {
		return lib.L()
	}
	keys := make([]string, 0, len(m))
	for k := range m {
		keys = append(keys, k)
	}
	sort.Strings(keys)
	xs := make([]lib.T, 0, len(keys))
	for _, k := range keys {
		xs = append(xs, lib.L(lib.S(k), lib.S(m[k])))
	}
	return lib.L(lib.LS(xs))
}

func tNS(n *cluster.NodeState) lib.T {
	return lib.L(lib.S(n.ID), lib.S(n.ClusterName), lib.S(n.Address), lib.Z(int64(n.Generation)), lib.Z(n.Timestamp), lib.N(n.SeqNo),
		lib.Z(int64(n.Status)), lib.Bool(n.Unreachable), lib.Z(n.LastSeen), lib.N(n.LogicalClock),
		tMapSS(n.Metadata), tMapSS(n.Labels), lib.N(uint64(n.Checksum)))
}
func tNSOpt(n *cluster.NodeState) lib.T {
	if n == nil {
		return lib.L()
	}
	return lib.L(tNS(n))
}

func tVV(v cluster.VersionVector) lib.T {
	m := cluster.XVDump(v)
	keys := make([]string, 0, len(m))
	for k := range m {
		keys = append(keys, k)
	}
	sort.Strings(keys)
	xs := make([]lib.T, 0, len(keys))
	for _, k := range keys {
		xs = append(xs, lib.L(lib.S(k), lib.N(m[k])))
	}
	return lib.LS(xs)
}

func tView(v *cluster.ClusterView) lib.T {
	var ms lib.T
	if v.Members == nil {
		ms = lib.L()
	} else {
		keys := make([]string, 0, len(v.Members))
		for k := range v.Members {
			keys = append(keys, k)
		}
		sort.Strings(keys)
		xs := make([]lib.T, 0, len(keys))
		for _, k := range keys {
			xs = append(xs, lib.L(lib.S(k), tNSOpt(v.Members[k])))
		}
		ms = lib.L(lib.LS(xs))
	}
	return lib.L(lib.S(v.ViewID), lib.Z(v.Epoch), lib.Z(v.Timestamp), ms, lib.Z(int64(v.HealthyCount)), lib.Z(int64(v.UnhealthyCount)),
		lib.Z(int64(v.QuorumSize)), tVV(v.VersionVector), lib.N(uint64(v.ProtocolVersion)), lib.Z(int64(v.MaxVersionVectorEntries)))
}
func tViewOpt(v *cluster.ClusterView) lib.T {
	if v == nil {
		return lib.L()
	}
	return lib.L(tView(v))
}

func typedNil(k int) lib.T { return lib.L(lib.N(100), lib.NI(k)) }

// tmsg renders a message value as the term of Codec/MsgsRun.v get_msg / t_msg.
func tmsg(v any) lib.T {
	switch m := v.(type) {
	case nil:
		return lib.L(lib.N(101), lib.L())
	case *UserMsg:
		if m == nil {
			return lib.L(lib.N(101), lib.L())
		}
		return lib.L(lib.N(101), lib.L(lib.B(m.Data)))
	case *vivid.OnLaunch:
		if m == nil {
			return typedNil(kOnLaunch)
		}
		return lib.L(lib.N(kOnLaunch))
	case *vivid.OnKill:
		if m == nil {
			return typedNil(kOnKill)
		}
		return lib.L(lib.N(kOnKill), tEref(m.Killer), lib.S(m.Reason), lib.Bool(m.Poison))
	case *vivid.OnKilled:
		if m == nil {
			return typedNil(kOnKilled)
		}
		return lib.L(lib.N(kOnKilled), tEref(m.Ref))
	case *vivid.PipeResult:
		if m == nil {
			return typedNil(kPipeResult)
		}
		if m.Message == nil { // a failure result: no message on the wire
			return lib.L(lib.N(kPipeResult), lib.S(m.Id), lib.L(), tPerr(m.Error))
		}
		return lib.L(lib.N(kPipeResult), lib.S(m.Id), tmsg(m.Message), tPerr(m.Error))
	case *vivid.Pong:
		if m == nil {
			return typedNil(kPong)
		}
		return lib.L(lib.N(kPong), tTime(m.PingTime), tTime(m.RespondTime))
	case *vivid.Error:
		if m == nil {
			return typedNil(kError)
		}
		return lib.L(lib.N(kError), lib.Z(int64(m.GetCode())), lib.S(m.GetMessage()))
	case *messages.NoneArgsCommandMessage:
		if m == nil {
			return typedNil(kCommand)
		}
		return lib.L(lib.N(kCommand), lib.N(uint64(m.Command)))
	case *messages.PingMessage:
		if m == nil {
			return typedNil(kPing)
		}
		return lib.L(lib.N(kPing), tTime(m.Time))
	case *messages.PongMessage:
		if m == nil {
			return typedNil(kPongMessage)
		}
		p := lib.L()
		if m.Ping != nil {
			p = lib.L(tTime(m.Ping.Time))
		}
		return lib.L(lib.N(kPongMessage), p, tTime(m.RespondTime))
	case *messages.WatchMessage:
		if m == nil {
			return typedNil(kWatch)
		}
		return lib.L(lib.N(kWatch))
	case *messages.UnwatchMessage:
		if m == nil {
			return typedNil(kUnwatch)
		}
		return lib.L(lib.N(kUnwatch))
	case *actor.SchedulerMessage:
		if m == nil {
			return typedNil(kScheduler)
		}
		return lib.L(lib.N(kScheduler), lib.S(m.Reference), tmsg(m.Message))
	case *cluster.JoinRequest:
		if m == nil {
			return typedNil(kJoinRequest)
		}
		return lib.L(lib.N(kJoinRequest), tNSOpt(m.NodeState), lib.S(m.AuthToken))
	case *cluster.JoinResponse:
		if m == nil {
			return typedNil(kJoinResponse)
		}
		return lib.L(lib.N(kJoinResponse), tViewOpt(m.View))
	case *cluster.GossipMessage:
		if m == nil {
			return typedNil(kGossip)
		}
		return lib.L(lib.N(kGossip), tViewOpt(m.View))
	case *cluster.GossipTick:
		if m == nil {
			return typedNil(kGossipTick)
		}
		return lib.L(lib.N(kGossipTick))
	case *cluster.GossipCrossDCTick:
		if m == nil {
			return typedNil(kGossipCrossDCTick)
		}
		return lib.L(lib.N(kGossipCrossDCTick))
	case *cluster.FailureDetectionTick:
		if m == nil {
			return typedNil(kFailureDetectionTick)
		}
		return lib.L(lib.N(kFailureDetectionTick))
	case *cluster.GetViewRequest:
		if m == nil {
			return typedNil(kGetViewRequest)
		}
		return lib.L(lib.N(kGetViewRequest))
	case *cluster.GetViewResponse:
		if m == nil {
			return typedNil(kGetViewResponse)
		}
		return lib.L(lib.N(kGetViewResponse), tViewOpt(m.View), lib.Bool(m.InQuorum), lib.S(m.LeaderAddr))
	case *cluster.LeaveRequest:
		if m == nil {
			return typedNil(kLeaveRequest)
		}
		return lib.L(lib.N(kLeaveRequest))
	case *cluster.LeaveAck:
		if m == nil {
			return typedNil(kLeaveAck)
		}
		return lib.L(lib.N(kLeaveAck))
	case *cluster.ExitingReady:
		if m == nil {
			return typedNil(kExitingReady)
		}
		return lib.L(lib.N(kExitingReady))
	case *cluster.LeaveBroadcastRound:
		if m == nil {
			return typedNil(kLeaveBroadcastRound)
		}
		return lib.L(lib.N(kLeaveBroadcastRound), lib.Z(int64(m.Round)))
	case *cluster.JoinRetryTick:
		if m == nil {
			return typedNil(kJoinRetryTick)
		}
		return lib.L(lib.N(kJoinRetryTick), lib.Z(int64(m.NextDelay)))
	case *cluster.ForceMemberDown:
		if m == nil {
			return typedNil(kForceMemberDown)
		}
		return lib.L(lib.N(kForceMemberDown), lib.S(m.NodeID), lib.S(m.AdminToken))
	case *cluster.TriggerViewBroadcast:
		if m == nil {
			return typedNil(kTriggerViewBroadcast)
		}
		return lib.L(lib.N(kTriggerViewBroadcast), lib.S(m.AdminToken))
	}
	if sender, addr, path, inner, isNil, ok := cluster.XVSingletonFwdFields(v); ok {
		if isNil {
			return typedNil(kSingletonFwd)
		}
		return lib.L(lib.N(kSingletonFwd), tEref(sender), lib.S(addr), lib.S(path), tmsg(inner))
	}
	return lib.L(lib.N(101), lib.L(lib.N(0))) // a non-pointer value or a pointer to an unregistered type other than UserMsg
}

// ---- validity (valid_msg of Codec/Msgs.v; for OnKill/OnKilled the intended domain: a non-nil *Ref) ----

func i32(v int) bool { return v >= math.MinInt32 && v <= math.MaxInt32 }

func validMap(m map[string]string) bool { return m == nil || (len(m) > 0 && len(m) <= 65536) }

func validNS(n *cluster.NodeState) bool {
	return i32(n.Generation) && i32(int(n.Status)) && validMap(n.Metadata) && validMap(n.Labels)
}

func validVV(v cluster.VersionVector) bool {
	m := cluster.XVDump(v)
	if len(m) > 65535 {
		return false
	}
	for k, c := range m {
		if k == "" || len(k) > 256 || c > maxC {
			return false
		}
	}
	return true
}

func validView(v *cluster.ClusterView) bool {
	if v == nil {
		return true
	}
	if v.Members == nil || !i32(v.HealthyCount) || !i32(v.UnhealthyCount) || !i32(v.QuorumSize) || !i32(v.MaxVersionVectorEntries) || !validVV(v.VersionVector) {
		return false
	}
	for _, n := range v.Members {
		if n == nil || !validNS(n) {
			return false
		}
	}
	return true
}

func isRealRef(r vivid.ActorRef) bool {
	p, ok := r.(*actor.Ref)
	return ok && p != nil
}

func valid(v any, hc bool) bool {
	switch m := v.(type) {
	case nil:
		return false
	case *UserMsg:
		return m != nil && hc && !(len(m.Data) > 0 && (m.Data[0] == 0xFE || m.Data[0] == 0xFF))
	case *vivid.OnLaunch:
		return m != nil
	case *vivid.OnKill:
		return m != nil && validKRef(m.Killer)
	case *vivid.OnKilled:
		return m != nil && validKRef(m.Ref)
	case *vivid.PipeResult:
		if m == nil || (m.Message != nil && !valid(m.Message, hc)) {
			return false
		}
		if m.Error == nil {
			return true
		}
		ve, ok := m.Error.(*vivid.Error)
		if !ok || ve == nil || ve.GetCode() == 0 {
			return false
		}
		reg := vivid.QueryError(ve.GetCode())
		return reg != nil && (ve.GetMessage() != "" || reg.GetMessage() == "")
	case *vivid.Pong:
		return m != nil && inNanoRange(m.PingTime) && inNanoRange(m.RespondTime)
	case *vivid.Error:
		return m != nil
	case *messages.NoneArgsCommandMessage:
		return m != nil
	case *messages.PingMessage:
		return m != nil && inNanoRange(m.Time)
	case *messages.PongMessage:
		return m != nil && m.Ping != nil && inNanoRange(m.Ping.Time) && inNanoRange(m.RespondTime)
	case *messages.WatchMessage:
		return m != nil
	case *messages.UnwatchMessage:
		return m != nil
	case *actor.SchedulerMessage:
		return m != nil && valid(m.Message, hc)
	case *cluster.JoinRequest:
		return m != nil && (m.NodeState == nil || validNS(m.NodeState))
	case *cluster.JoinResponse:
		return m != nil && validView(m.View)
	case *cluster.GossipMessage:
		return m != nil && validView(m.View)
	case *cluster.GetViewResponse:
		return m != nil && validView(m.View)
	case *cluster.GossipTick:
		return m != nil
	case *cluster.GossipCrossDCTick:
		return m != nil
	case *cluster.FailureDetectionTick:
		return m != nil
	case *cluster.GetViewRequest:
		return m != nil
	case *cluster.LeaveRequest:
		return m != nil
	case *cluster.LeaveAck:
		return m != nil
	case *cluster.ExitingReady:
		return m != nil
	case *cluster.LeaveBroadcastRound:
		return m != nil && i32(m.Round)
	case *cluster.JoinRetryTick:
		return m != nil
	case *cluster.ForceMemberDown:
		return m != nil
	case *cluster.TriggerViewBroadcast:
		return m != nil
	}
	if sender, _, _, inner, isNil, ok := cluster.XVSingletonFwdFields(v); ok {
		return !isNil && sender == nil && valid(inner, hc)
	}
	return false
}

// validKRef: an ActorRef field survives iff it is nil or a ref that actor.NewRef accepts unchanged
// (valid_kref of Codec/Msgs.v)
func validKRef(r vivid.ActorRef) bool {
	if r == nil {
		return true
	}
	if !isRealRef(r) {
		return false
	}
	a, p := r.GetAddress(), r.GetPath()
	if a == "" && p == "" {
		return false
	}
	n, err := actor.NewRef(a, p)
	return err == nil && n.GetAddress() == a && n.GetPath() == p
}

// ---- generators ----

type G struct{ r *lib.Rand }

var strPool = []string{"", "a", "node-1", "localhost:8080", "/user/a/b", "\x00", "\xff\xfe", "héllo", "exception", "not found", "a b\tc\n"}

func (g *G) str() string {
	switch g.r.Intn(14) {
	case 0:
		return ""
	case 1:
		return string(g.r.Bytes(1 + g.r.Intn(40)))
	case 2:
		return strings.Repeat("x", 255+g.r.Intn(3))
	case 3:
		return string(g.r.Bytes(300 + g.r.Intn(2000)))
	}
	return strPool[g.r.Intn(len(strPool))]
}

var timeExtremes = []time.Time{
	{}, time.Unix(0, 0), time.Unix(0, math.MaxInt64), time.Unix(0, math.MinInt64), time.Unix(0, math.MaxInt64).Add(1),
	time.Unix(0, math.MinInt64).Add(-1), time.Unix(1<<40, 999999999), time.Unix(-(1 << 40), 1), time.Unix(1700000000, 123456789),
	time.Unix(1700000000, 5).In(time.FixedZone("x", 3600)), time.Unix(-1, 999999999), time.Date(1, 1, 1, 0, 0, 0, 1, time.UTC),
	time.Date(9999, 12, 31, 23, 59, 59, 999999999, time.UTC),
}

func (g *G) time(i int) time.Time {
	if i < len(timeExtremes) {
		return timeExtremes[i]
	}
	switch g.r.Intn(6) {
	case 0:
		return timeExtremes[g.r.Intn(len(timeExtremes))]
	case 1:
		return time.Unix(int64(g.r.U64()>>1)/3-(1<<61), int64(g.r.Intn(1000000000))) // far outside the UnixNano range (both signs)
	}
	return time.Unix(0, int64(g.r.U64())) // anywhere in the representable range
}

var intExtremes = []int{0, 1, -1, math.MaxInt32, math.MinInt32, math.MaxInt32 + 1, math.MinInt32 - 1, math.MaxInt64, math.MinInt64, 1 << 40, -(1 << 40), 1 << 32, 1<<32 + 7, 65535, 65536}

func (g *G) int(i int) int {
	if i >= 0 && i < len(intExtremes) {
		return intExtremes[i]
	}
	switch g.r.Intn(8) {
	case 0:
		return intExtremes[g.r.Intn(len(intExtremes))]
	case 1:
		return int(g.r.U64())
	case 2, 3:
		return int(int32(g.r.U64()))
	}
	return g.r.Intn(7) - 2
}
func (g *G) i64(i int) int64 { return int64(g.int(i)) }
func (g *G) u64(i int) uint64 {
	ex := []uint64{0, 1, math.MaxUint64, 1 << 63, 1<<63 - 1, math.MaxUint32}
	if i >= 0 && i < len(ex) {
		return ex[i]
	}
	if g.r.Chance(1, 3) {
		return g.r.U64()
	}
	return uint64(g.r.Intn(5))
}
func (g *G) u32(i int) uint32 { return uint32(g.u64(i)) }

func (g *G) mapSS(i int) map[string]string {
	switch i {
	case 0:
		return nil
	case 1:
		return map[string]string{}
	case 2:
		return map[string]string{"": ""}
	case 3:
		return map[string]string{"b": "2", "a": "1", "ab": "3", "\xff": "4", "a\x00": "5", "B": "6"}
	}
	switch g.r.Intn(5) {
	case 0:
		return nil
	case 1:
		return map[string]string{}
	}
	m := map[string]string{}
	for n := g.r.Intn(5); n >= 0; n-- {
		m[g.str()] = g.str()
	}
	return m
}

func (g *G) ns(i int) *cluster.NodeState {
	return &cluster.NodeState{
		ID: g.str(), ClusterName: g.str(), Address: g.str(), Generation: g.int(i), Timestamp: g.i64(i + 1), SeqNo: g.u64(i),
		Status: cluster.MemberStatus(g.int(i + 2)), Unreachable: g.r.Bool(), LastSeen: g.i64(i + 3), LogicalClock: g.u64(i + 1),
		Metadata: g.mapSS(i), Labels: g.mapSS(i + 1), Checksum: g.u32(i + 2),
	}
}

// a NodeState that survives the wire
func (g *G) nsValid() *cluster.NodeState {
	n := g.ns(-1)
	n.Generation, n.Status = int(int32(n.Generation)), cluster.MemberStatus(int32(n.Status))
	if n.Metadata != nil && len(n.Metadata) == 0 {
		n.Metadata = nil
	}
	if n.Labels != nil && len(n.Labels) == 0 {
		n.Labels = nil
	}
	return n
}

func (g *G) vv(i int) cluster.VersionVector {
	switch i {
	case 0:
		return cluster.XVNilVV()
	case 1:
		return cluster.XVNewVV(map[string]uint64{})
	case 2:
		return cluster.XVNewVV(map[string]uint64{"a": 0, "b": maxC, "ab": 1})
	case 3:
		return cluster.XVNewVV(map[string]uint64{"": 1})
	case 4:
		return cluster.XVNewVV(map[string]uint64{"a": maxC + 1})
	case 5:
		return cluster.XVNewVV(map[string]uint64{strings.Repeat("k", 257): 1})
	case 6:
		return cluster.XVNewVV(map[string]uint64{strings.Repeat("k", 256): 1})
	}
	m := map[string]uint64{}
	for n := g.r.Intn(4); n > 0; n-- {
		k := []string{"a", "b", "node-1:8080", "node-10:8080", "\xff", "z"}[g.r.Intn(6)]
		m[k] = []uint64{0, 1, 2, maxC, g.r.U64() >> 1}[g.r.Intn(5)]
	}
	if g.r.Chance(1, 12) {
		m[""] = 1
	}
	if g.r.Chance(1, 12) {
		m["x"] = maxC + 1 + uint64(g.r.Intn(3))
	}
	return cluster.XVNewVV(m)
}

func (g *G) view(i int) *cluster.ClusterView {
	switch i {
	case 0:
		return nil
	case 1:
		return &cluster.ClusterView{}
	case 2:
		return &cluster.ClusterView{Members: map[string]*cluster.NodeState{}}
	case 3:
		return &cluster.ClusterView{Members: map[string]*cluster.NodeState{"a": nil}}
	case 4:
		return &cluster.ClusterView{Members: map[string]*cluster.NodeState{"b": g.nsValid(), "a": g.nsValid(), "": g.nsValid()}, VersionVector: g.vv(2), ProtocolVersion: 65535}
	}
	v := &cluster.ClusterView{ViewID: g.str(), Epoch: g.i64(i - 5), Timestamp: g.i64(i - 4), HealthyCount: g.int(i - 5), UnhealthyCount: g.int(i - 3),
		QuorumSize: g.int(i - 2), VersionVector: g.vv(i - 5), ProtocolVersion: uint16(g.u64(i - 5)), MaxVersionVectorEntries: g.int(i - 1)}
	if !g.r.Chance(1, 8) {
		v.Members = map[string]*cluster.NodeState{}
		for n := g.r.Intn(4); n > 0; n-- {
			switch g.r.Intn(8) {
			case 0:
				v.Members[g.str()] = nil
			case 1:
				v.Members[g.str()] = g.ns(-1)
			default:
				v.Members[g.str()] = g.nsValid()
			}
		}
	}
	return v
}

// a view that survives the wire
func (g *G) viewValid() *cluster.ClusterView {
	v := &cluster.ClusterView{ViewID: g.str(), Epoch: g.i64(-1), Timestamp: g.i64(-1), HealthyCount: int(int32(g.int(-1))), UnhealthyCount: int(int32(g.int(-1))),
		QuorumSize: int(int32(g.int(-1))), ProtocolVersion: uint16(g.r.U64()), MaxVersionVectorEntries: int(int32(g.int(-1))), Members: map[string]*cluster.NodeState{}}
	m := map[string]uint64{}
	for n := g.r.Intn(4); n > 0; n-- {
		m[[]string{"a", "b", "node-1:8080", "z"}[g.r.Intn(4)]] = []uint64{0, 1, maxC, g.r.U64() >> 1}[g.r.Intn(4)]
	}
	v.VersionVector = cluster.XVNewVV(m)
	for n := g.r.Intn(4); n > 0; n-- {
		v.Members[g.str()] = g.nsValid()
	}
	return v
}

var refPool = [][2]string{{"localhost:8080", "/a"}, {"", ""}, {"", "/x"}, {"h", ""}, {"example.com", "/user/a/b/c"}, {"\xff", "\x00"},
	{"127.0.0.1:9000", "/"}, {" localhost:1 ", "/trim"}, {"[::1]:80", "/v6/x"}, {"localhost", "/a/@future@x"}, {"localhost:8080", "/a "}, {"10.0.0.1", "/bare-ip"}}

func (g *G) ref(i int) vivid.ActorRef {
	switch i {
	case 0:
		return nil
	case 1:
		return actor.XVRawRef(refPool[0][0], refPool[0][1])
	case 2:
		return (*actor.Ref)(nil)
	case 3:
		return actor.XVRawRef("", "")
	}
	switch g.r.Intn(10) {
	case 0, 1:
		return nil
	case 2:
		return actor.XVRawRef(g.str(), g.str())
	}
	if g.r.Chance(1, 60) {
		return (*actor.Ref)(nil)
	}
	p := refPool[g.r.Intn(len(refPool))]
	return actor.XVRawRef(p[0], p[1])
}

func (g *G) realRef() vivid.ActorRef {
	p := refPool[g.r.Intn(len(refPool))]
	return actor.XVRawRef(p[0], p[1])
}

func (g *G) perr(i int) error {
	switch i {
	case 0:
		return nil
	case 1:
		return vivid.ErrorNotFound
	case 2:
		return vivid.ErrorNotFound.WithMessage("zz")
	case 3:
		return vivid.XVNewError(0, "code zero")
	case 4:
		return vivid.XVNewError(42, "unregistered")
	case 5:
		return vivid.XVNewError(100000, "")
	case 6:
		return (*vivid.Error)(nil)
	case 7:
		return errors.New("boom")
	case 8:
		return errors.New("")
	case 9:
		return vivid.XVNewError(-1, "exception")
	case 10:
		return vivid.XVNewError(math.MinInt32, "min")
	case 11:
		return vivid.ErrorFutureInvalid
	}
	switch g.r.Intn(8) {
	case 0:
		return nil
	case 1:
		return errors.New(g.str())
	case 2:
		return vivid.XVNewError(int32(g.r.U64()), g.str())
	case 3:
		return (*vivid.Error)(nil)
	}
	codes := []int32{-1, 100000, 100001, 110000, 120000, 150008, 140004}
	return vivid.XVNewError(codes[g.r.Intn(len(codes))], []string{"", "not found", "custom", g.str()}[g.r.Intn(4)])
}

// any message, for nested positions
func (g *G) anyMsg(depth int) any {
	switch g.r.Intn(16) {
	case 0:
		return nil
	case 1:
		return 5
	case 2:
		return vivid.OnLaunch{}
	case 3:
		return &UserMsg{Data: g.userData()}
	case 4:
		return (*messages.PingMessage)(nil)
	case 5:
		return (*vivid.OnLaunch)(nil)
	}
	k := g.r.Intn(nKinds)
	if depth <= 0 {
		for k == kPipeResult || k == kScheduler || k == kSingletonFwd {
			k = g.r.Intn(nKinds)
		}
	}
	return g.value(k, -1, depth-1)
}

// a nested message that survives the wire (so that the outer fields are exercised)
func (g *G) validMsg(depth int, hc bool) any {
	for try := 0; try < 50; try++ {
		var v any
		if hc && g.r.Chance(1, 6) {
			v = &UserMsg{Data: g.r.Bytes(g.r.Intn(6))}
		} else {
			v = g.anyMsg(depth)
		}
		if valid(v, hc) {
			return v
		}
	}
	return &vivid.OnLaunch{}
}

func (g *G) userData() []byte {
	switch g.r.Intn(6) {
	case 0:
		return nil
	case 1:
		return []byte{0xFE, 1}
	case 2:
		return []byte{0xFF}
	}
	return g.r.Bytes(g.r.Intn(12))
}

// value returns the i-th generated value of kind k (i < 0: random); extremes come first.
func (g *G) value(k, i, depth int) any {
	rnd := i < 0
	switch k {
	case kOnLaunch:
		if i == 1 {
			return (*vivid.OnLaunch)(nil)
		}
		return &vivid.OnLaunch{}
	case kOnKill:
		switch i {
		case 0:
			return &vivid.OnKill{Killer: g.realRef(), Reason: "stop", Poison: true}
		case 1:
			return &vivid.OnKill{}
		case 2:
			return &vivid.OnKill{Killer: (*actor.Ref)(nil), Reason: "x"}
		case 3:
			return (*vivid.OnKill)(nil)
		}
		return &vivid.OnKill{Killer: g.ref(-1), Reason: g.str(), Poison: g.r.Bool()}
	case kOnKilled:
		switch i {
		case 0:
			return &vivid.OnKilled{Ref: g.realRef()}
		case 1:
			return &vivid.OnKilled{}
		case 2:
			return (*vivid.OnKilled)(nil)
		}
		return &vivid.OnKilled{Ref: g.ref(-1)}
	case kPipeResult:
		if i == 0 {
			return &vivid.PipeResult{}
		}
		if i == 1 {
			return (*vivid.PipeResult)(nil)
		}
		if !rnd && i-2 < 12 {
			return &vivid.PipeResult{Id: "pipe-1", Message: &vivid.OnLaunch{}, Error: g.perr(i - 2)}
		}
		if !rnd && i-14 < 12 { // failure results: nil Message with every error shape
			return &vivid.PipeResult{Id: "pipe-2", Error: g.perr(i - 14)}
		}
		if g.r.Chance(1, 5) {
			return &vivid.PipeResult{Id: g.str(), Error: g.perr(-1)}
		}
		if g.r.Chance(1, 3) {
			return &vivid.PipeResult{Id: g.str(), Message: g.anyMsg(depth), Error: g.perr(-1)}
		}
		return &vivid.PipeResult{Id: g.str(), Message: g.validMsg(depth, true), Error: g.perr(g.r.Intn(3))}
	case kPong:
		if i == 0 {
			return &vivid.Pong{}
		}
		if i == 1 {
			return (*vivid.Pong)(nil)
		}
		if !rnd {
			return &vivid.Pong{PingTime: g.time(i - 2), RespondTime: g.time(i - 1)}
		}
		return &vivid.Pong{PingTime: g.time(99), RespondTime: g.time(99)}
	case kError:
		switch i {
		case 0:
			return vivid.XVNewError(0, "")
		case 1:
			return (*vivid.Error)(nil)
		case 2:
			return vivid.ErrorNotFound
		case 3:
			return vivid.XVNewError(math.MaxInt32, g.str())
		case 4:
			return vivid.XVNewError(math.MinInt32, g.str())
		case 5:
			return vivid.ErrorNotFound.With(errors.New("cause"))
		}
		return vivid.XVNewError(int32(g.r.U64()), g.str())
	case kCommand:
		switch i {
		case 0:
			return &messages.NoneArgsCommandMessage{}
		case 1:
			return (*messages.NoneArgsCommandMessage)(nil)
		case 2:
			return messages.CommandResumeMailbox.Build()
		case 3:
			return &messages.NoneArgsCommandMessage{Command: 255}
		}
		return &messages.NoneArgsCommandMessage{Command: messages.Command(g.r.U64())}
	case kPing:
		if i == 0 {
			return &messages.PingMessage{}
		}
		if i == 1 {
			return (*messages.PingMessage)(nil)
		}
		if !rnd {
			return &messages.PingMessage{Time: g.time(i - 2)}
		}
		return &messages.PingMessage{Time: g.time(99)}
	case kPongMessage:
		switch i {
		case 0:
			return &messages.PongMessage{}
		case 1:
			return (*messages.PongMessage)(nil)
		case 2:
			return &messages.PongMessage{Ping: &messages.PingMessage{}}
		}
		if !rnd {
			return &messages.PongMessage{Ping: &messages.PingMessage{Time: g.time(i - 3)}, RespondTime: g.time(i - 2)}
		}
		if g.r.Chance(1, 10) {
			return &messages.PongMessage{RespondTime: g.time(99)}
		}
		return &messages.PongMessage{Ping: &messages.PingMessage{Time: g.time(99)}, RespondTime: g.time(99)}
	case kWatch:
		if i == 1 {
			return (*messages.WatchMessage)(nil)
		}
		return &messages.WatchMessage{}
	case kUnwatch:
		if i == 1 {
			return (*messages.UnwatchMessage)(nil)
		}
		return &messages.UnwatchMessage{}
	case kScheduler:
		switch i {
		case 0:
			return &actor.SchedulerMessage{}
		case 1:
			return (*actor.SchedulerMessage)(nil)
		case 2:
			return &actor.SchedulerMessage{Reference: "job", Message: &vivid.OnLaunch{}}
		case 3:
			return &actor.SchedulerMessage{Reference: "job", Message: &UserMsg{Data: []byte("hello")}}
		case 4:
			return &actor.SchedulerMessage{Reference: "job", Message: 7}
		}
		if g.r.Chance(1, 3) {
			return &actor.SchedulerMessage{Reference: g.str(), Message: g.anyMsg(depth)}
		}
		return &actor.SchedulerMessage{Reference: g.str(), Message: g.validMsg(depth, true)}
	case kJoinRequest:
		switch i {
		case 0:
			return &cluster.JoinRequest{}
		case 1:
			return (*cluster.JoinRequest)(nil)
		case 2:
			return &cluster.JoinRequest{NodeState: &cluster.NodeState{}, AuthToken: "t"}
		}
		if !rnd {
			return &cluster.JoinRequest{NodeState: g.ns(i - 3), AuthToken: g.str()}
		}
		if g.r.Chance(1, 2) {
			return &cluster.JoinRequest{NodeState: g.nsValid(), AuthToken: g.str()}
		}
		return &cluster.JoinRequest{NodeState: g.ns(-1), AuthToken: g.str()}
	case kJoinResponse:
		if i == 1 {
			return (*cluster.JoinResponse)(nil)
		}
		if !rnd {
			return &cluster.JoinResponse{View: g.view(max(i-1, 0))}
		}
		if g.r.Chance(1, 2) {
			return &cluster.JoinResponse{View: g.viewValid()}
		}
		return &cluster.JoinResponse{View: g.view(99)}
	case kGossip:
		if i == 1 {
			return (*cluster.GossipMessage)(nil)
		}
		if !rnd {
			return &cluster.GossipMessage{View: g.view(max(i-1, 0))}
		}
		if g.r.Chance(1, 2) {
			return &cluster.GossipMessage{View: g.viewValid()}
		}
		return &cluster.GossipMessage{View: g.view(99)}
	case kGetViewResponse:
		if i == 1 {
			return (*cluster.GetViewResponse)(nil)
		}
		if !rnd {
			return &cluster.GetViewResponse{View: g.view(max(i-1, 0)), InQuorum: i%2 == 0, LeaderAddr: g.str()}
		}
		if g.r.Chance(1, 2) {
			return &cluster.GetViewResponse{View: g.viewValid(), InQuorum: g.r.Bool(), LeaderAddr: g.str()}
		}
		return &cluster.GetViewResponse{View: g.view(99), InQuorum: g.r.Bool(), LeaderAddr: g.str()}
	case kGossipTick:
		if i == 1 {
			return (*cluster.GossipTick)(nil)
		}
		return &cluster.GossipTick{}
	case kGossipCrossDCTick:
		if i == 1 {
			return (*cluster.GossipCrossDCTick)(nil)
		}
		return &cluster.GossipCrossDCTick{}
	case kFailureDetectionTick:
		if i == 1 {
			return (*cluster.FailureDetectionTick)(nil)
		}
		return &cluster.FailureDetectionTick{}
	case kGetViewRequest:
		if i == 1 {
			return (*cluster.GetViewRequest)(nil)
		}
		return &cluster.GetViewRequest{}
	case kLeaveRequest:
		if i == 1 {
			return (*cluster.LeaveRequest)(nil)
		}
		return &cluster.LeaveRequest{}
	case kLeaveAck:
		if i == 1 {
			return (*cluster.LeaveAck)(nil)
		}
		return &cluster.LeaveAck{}
	case kExitingReady:
		if i == 1 {
			return (*cluster.ExitingReady)(nil)
		}
		return &cluster.ExitingReady{}
	case kLeaveBroadcastRound:
		if i == 1 {
			return (*cluster.LeaveBroadcastRound)(nil)
		}
		if !rnd {
			return &cluster.LeaveBroadcastRound{Round: g.int(max(i-1, 0))}
		}
		return &cluster.LeaveBroadcastRound{Round: g.int(-1)}
	case kJoinRetryTick:
		if i == 1 {
			return (*cluster.JoinRetryTick)(nil)
		}
		if !rnd {
			return &cluster.JoinRetryTick{NextDelay: time.Duration(g.i64(max(i-1, 0)))}
		}
		return &cluster.JoinRetryTick{NextDelay: time.Duration(g.i64(-1))}
	case kForceMemberDown:
		switch i {
		case 0:
			return &cluster.ForceMemberDown{}
		case 1:
			return (*cluster.ForceMemberDown)(nil)
		}
		return &cluster.ForceMemberDown{NodeID: g.str(), AdminToken: g.str()}
	case kTriggerViewBroadcast:
		switch i {
		case 0:
			return &cluster.TriggerViewBroadcast{}
		case 1:
			return (*cluster.TriggerViewBroadcast)(nil)
		}
		return &cluster.TriggerViewBroadcast{AdminToken: g.str()}
	case kSingletonFwd:
		switch i {
		case 0:
			return cluster.XVNewSingletonFwd(nil, "", "", nil)
		case 1:
			return cluster.XVNilSingletonFwd()
		case 2:
			return cluster.XVNewSingletonFwd(nil, "localhost:1", "/s", &vivid.OnLaunch{})
		case 3:
			return cluster.XVNewSingletonFwd(g.realRef(), "ignored", "/ignored", &vivid.OnLaunch{})
		case 4:
			return cluster.XVNewSingletonFwd((*actor.Ref)(nil), "a", "/b", &vivid.OnLaunch{})
		}
		if g.r.Chance(1, 3) {
			return cluster.XVNewSingletonFwd(g.ref(-1), g.str(), g.str(), g.anyMsg(depth))
		}
		return cluster.XVNewSingletonFwd(nil, g.str(), g.str(), g.validMsg(depth, true))
	}
	panic("kind")
}

// ---- harness ----

type seed struct {
	op   int // 4 body of kind, 5 WriteMessage output, 7 envelope
	hc   bool
	kind int
	bs   []byte
}

type H struct {
	o     *lib.Out
	r     *lib.Rand
	seeds map[string][]seed
	roundtripHits map[string]int
	allocHits     int
	seedsPerKind  int
}

func (h *H) addSeed(key string, s seed, limit int) {
	if len(h.seeds[key]) < limit && len(s.bs) > 0 {
		h.seeds[key] = append(h.seeds[key], s)
	}
}

// protect runs f; a panic is reported as outcome 13 plus a monitor hit
func (h *H) protect(name string, in lib.T, f func() lib.T) (out lib.T) {
	defer func() {
		if r := recover(); r != nil {
			h.roundtrip("panic:"+name, in, fmt.Sprint(r))
			out = lib.Err(13)
		}
	}()
	return f()
}

func nontrivialMsg(v any) bool {
	switch v.(type) {
	case nil, *vivid.OnLaunch, *messages.WatchMessage, *messages.UnwatchMessage, *cluster.GossipTick, *cluster.GossipCrossDCTick,
		*cluster.FailureDetectionTick, *cluster.GetViewRequest, *cluster.LeaveRequest, *cluster.LeaveAck, *cluster.ExitingReady:
		return false
	}
	return true
}

func kindOf(v any) int {
	d := messages.QueryMessageDesc(v)
	if d.IsOutside() {
		return -1
	}
	for k, n := range kindNames {
		if n == d.MessageName() {
			return k
		}
	}
	return -2
}

// decodeOp runs one decode entry point of the real code and renders the outcome (shared by parent and child).
func decodeOp(op int, hc bool, kind int, bs []byte) (out lib.T, decoded any, pos int, err error) {
	codec := codecOf(hc)
	refCalls = refCalls[:0]
	switch op {
	case 4:
		rd := messages.NewReader(bs)
		desc := messages.QueryMessageDescByName(kindNames[kind])
		m, e := messages.DeserializeRemotingMessage(codec, rd, desc)
		if e != nil {
			if m != nil {
				return lib.Err(98), m, rd.Pos(), e // a failed decode must return no message
			}
			return lib.Err(errCode(e)), nil, rd.Pos(), e
		}
		return lib.Ok(lib.L(tmsg(m), lib.NI(rd.Pos()))), m, rd.Pos(), nil
	case 5:
		rd := messages.NewReader(bs)
		m, e := rd.ReadMessage(codec)
		if e != nil {
			if m != nil {
				return lib.Err(98), m, rd.Pos(), e
			}
			return lib.Err(errCode(e)), nil, rd.Pos(), e
		}
		return lib.Ok(lib.L(tmsg(m), lib.NI(rd.Pos()))), m, rd.Pos(), nil
	case 7:
		sys, sa, sp, ra, rp, m, e := serialize.DecodeEnvelopWithRemoting(codec, bs)
		if e != nil {
			if m != nil {
				return lib.Err(98), m, 0, e
			}
			return lib.Err(errCode(e)), nil, 0, e
		}
		return lib.Ok(lib.L(lib.Bool(sys), lib.S(sa), lib.S(sp), lib.S(ra), lib.S(rp), tmsg(m))), m, len(bs), nil
	}
	panic("op")
}

func decodeIn(op int, hc bool, kind int, bs []byte, oracle lib.T) lib.T {
	switch op {
	case 4:
		return lib.L(lib.N(4), lib.Bool(hc), lib.NI(kind), lib.B(bs), oracle)
	case 5:
		return lib.L(lib.N(5), lib.Bool(hc), lib.B(bs), oracle)
	}
	return lib.L(lib.N(7), lib.Bool(hc), lib.B(bs), oracle)
}

var hitLimit = func() int {
	if os.Getenv("XV_ALL_HITS") != "" {
		return 1000
	}
	return 3
}()

// roundtrip records a monitor hit; at most two hits per monitor name are kept in full
func (h *H) roundtrip(name string, in lib.T, detail string) {
	h.roundtripHits[name]++
	if h.roundtripHits[name] <= 2 || (hitLimit > 3 && !strings.HasPrefix(name, "roundtrip")) {
		h.o.Monitor(name, in, detail)
	} else {
		h.o.Stats["monitor:"+name]++
	}
}

// exercise: encode v through every entry point, decode the result, compare with the model and with v.
func (h *H) exercise(v any, hc bool) {
	codec := codecOf(hc)
	tv := tmsg(v)
	k := kindOf(v)
	nt := nontrivialMsg(v)
	label := "outside"
	if k >= 0 {
		label = kindNames[k]
	}
	ok := valid(v, hc)
	// --- WriteMessage / ReadMessage
	in3 := lib.L(lib.N(3), lib.Bool(hc), tv)
	var wm []byte
	out := h.protect("WriteMessage", in3, func() lib.T {
		w := messages.NewWriter()
		if err := w.WriteMessage(v, codec); err != nil {
			if w.Len() != 0 {
				h.o.Monitor("partial-write", in3, "WriteMessage failed but left bytes in the buffer")
			}
			return lib.Err(errCode(err))
		}
		wm = append([]byte{}, w.Bytes()...)
		return lib.Ok(lib.B(wm))
	})
	h.o.Case("wm:"+label, nt, in3, out)
	if wm == nil && ok {
		h.roundtrip("roundtrip:"+label, in3, "WriteMessage of a valid value failed: "+lib.Show(out))
	}
	if wm != nil {
		rest := h.r.Bytes(h.r.Intn(4))
		full := append(append([]byte{}, wm...), rest...)
		var dec any
		var pos int
		var derr error
		out5 := h.protect("ReadMessage", lib.L(lib.N(5), lib.B(full)), func() lib.T {
			var o lib.T
			o, dec, pos, derr = decodeOp(5, hc, 0, full)
			return o
		})
		h.o.Case("rm:"+label, nt, decodeIn(5, hc, 0, full, oracleTerm(refCalls)), out5)
		if ok {
			if derr != nil {
				h.roundtrip("roundtrip:"+label, in3, "ReadMessage(WriteMessage(v)) failed: "+derr.Error())
			} else if lib.Show(tmsg(dec)) != lib.Show(tv) {
				h.roundtrip("roundtrip:"+label, in3, "ReadMessage(WriteMessage(v)) = "+lib.Show(tmsg(dec)))
			} else if pos != len(wm) {
				h.roundtrip("consumed:"+label, in3, fmt.Sprintf("reader position %d, written %d", pos, len(wm)))
			}
		}
		h.addSeed("rm:"+label, seed{5, hc, 0, wm}, 2)
	}
	// --- SerializeRemotingMessage / DeserializeRemotingMessage (registered types only)
	if k >= 0 {
		in2 := lib.L(lib.N(2), lib.Bool(hc), tv)
		var body []byte
		out2 := h.protect("SerializeRemotingMessage", in2, func() lib.T {
			w := messages.NewWriter()
			if err := messages.SerializeRemotingMessage(codec, w, messages.QueryMessageDesc(v), v); err != nil {
				return lib.Err(errCode(err))
			}
			body = append([]byte{}, w.Bytes()...)
			return lib.Ok(lib.B(body))
		})
		h.o.Case("enc:"+label, nt, in2, out2)
		if body != nil && len(body) >= 4 {
			b := body[4:]
			rest := h.r.Bytes(h.r.Intn(4))
			full := append(append([]byte{}, b...), rest...)
			var dec any
			var pos int
			var derr error
			out4 := h.protect("DeserializeRemotingMessage", lib.L(lib.N(4), lib.NI(k), lib.B(full)), func() lib.T {
				var o lib.T
				o, dec, pos, derr = decodeOp(4, hc, k, full)
				return o
			})
			h.o.Case("dec:"+label, nt, decodeIn(4, hc, k, full, oracleTerm(refCalls)), out4)
			if ok {
				if derr != nil {
					h.roundtrip("roundtrip:"+label, in2, "decode(encode(v)) failed: "+derr.Error())
				} else if lib.Show(tmsg(dec)) != lib.Show(tv) {
					h.roundtrip("roundtrip:"+label, in2, "decode(encode(v)) = "+lib.Show(tmsg(dec)))
				} else if pos != len(b) {
					h.roundtrip("consumed:"+label, in2, fmt.Sprintf("reader position %d, written %d", pos, len(b)))
				}
			}
			h.addSeed("dec:"+label, seed{4, hc, k, b}, h.seedsPerKind)
		}
	}
}

func (h *H) envelope(v any, hc, sys bool, s, r vivid.ActorRef) {
	codec := codecOf(hc)
	tv := tmsg(v)
	in6 := lib.L(lib.N(6), lib.Bool(hc), lib.L(lib.Bool(sys), tEref(s), tEref(r), tv))
	var data []byte
	out := h.protect("EncodeEnvelop", in6, func() lib.T {
		d, err := serialize.EncodeEnvelopWithRemoting(codec, mailbox.NewEnvelop(sys, s, r, v))
		if err != nil {
			return lib.Err(errCode(err))
		}
		data = d
		return lib.Ok(lib.B(d))
	})
	h.o.Case("env-enc", true, in6, out)
	ok := valid(v, hc)
	if data == nil {
		if ok {
			h.roundtrip("roundtrip:envelope", in6, "encoding a valid envelope failed: "+lib.Show(out))
		}
		return
	}
	var dsys bool
	var sa, sp, ra, rp string
	var dm any
	var derr error
	out7 := h.protect("DecodeEnvelop", lib.L(lib.N(7), lib.B(data)), func() lib.T {
		refCalls = refCalls[:0]
		dsys, sa, sp, ra, rp, dm, derr = serialize.DecodeEnvelopWithRemoting(codec, data)
		if derr != nil {
			return lib.Err(errCode(derr))
		}
		return lib.Ok(lib.L(lib.Bool(dsys), lib.S(sa), lib.S(sp), lib.S(ra), lib.S(rp), tmsg(dm)))
	})
	h.o.Case("env-dec", true, decodeIn(7, hc, 0, data, oracleTerm(refCalls)), out7)
	if ok {
		// an absent ref (nil interface or typed nil pointer) travels as two empty strings
		es, ep, er, erp := "", "", "", ""
		if isRealRef(s) {
			es, ep = s.GetAddress(), s.GetPath()
		}
		if isRealRef(r) {
			er, erp = r.GetAddress(), r.GetPath()
		}
		switch {
		case derr != nil:
			h.roundtrip("roundtrip:envelope", in6, "decode(encode(envelope)) failed: "+derr.Error())
		case dsys != sys || sa != es || sp != ep || ra != er || rp != erp:
			h.roundtrip("roundtrip:envelope", in6, fmt.Sprintf("system/sender/receiver changed: %v %q %q %q %q", dsys, sa, sp, ra, rp))
		case lib.Show(tmsg(dm)) != lib.Show(tv):
			h.roundtrip("roundtrip:envelope", in6, "payload changed: "+lib.Show(tmsg(dm)))
		}
	}
	h.addSeed("env", seed{7, hc, 0, data}, 10)
}

// ---- handshake over a fake connection ----

type fakeConn struct {
	written []byte
	chunk   []byte
	piece   int // maximal number of bytes per Read (0: no limit)
}

type fakeAddr struct{}

func (fakeAddr) Network() string { return "fake" }
func (fakeAddr) String() string  { return "fake" }

// Read delivers the stream in arbitrary pieces (M5), then io.EOF
func (c *fakeConn) Read(b []byte) (int, error) {
	if len(c.chunk) == 0 {
		return 0, io.EOF
	}
	n := len(c.chunk)
	if c.piece > 0 && n > c.piece {
		n = c.piece
	}
	n = copy(b, c.chunk[:n])
	c.chunk = c.chunk[n:]
	return n, nil
}
func (c *fakeConn) Write(b []byte) (int, error)      { c.written = append(c.written, b...); return len(b), nil }
func (c *fakeConn) Close() error                     { return nil }
func (c *fakeConn) LocalAddr() net.Addr              { return fakeAddr{} }
func (c *fakeConn) RemoteAddr() net.Addr             { return fakeAddr{} }
func (c *fakeConn) SetDeadline(time.Time) error      { return nil }
func (c *fakeConn) SetReadDeadline(time.Time) error  { return nil }
func (c *fakeConn) SetWriteDeadline(time.Time) error { return nil }

func (h *H) handshakeWait(old string, chunk []byte, expect *string) {
	in := lib.L(lib.N(9), lib.S(old), lib.B(chunk))
	out := h.protect("Handshake.Wait", in, func() lib.T {
		hs := &remoting.Handshake{AdvertiseAddr: old}
		conn := &fakeConn{chunk: append([]byte{}, chunk...), piece: h.r.Intn(6)}
		err := hs.Wait(conn)
		if err == nil && expect != nil && len(conn.chunk) != len(chunk)-4-len(*expect) {
			h.o.Monitor("consumed:handshake", in, fmt.Sprintf("Wait left %d of %d bytes in the stream", len(conn.chunk), len(chunk)))
		}
		if err != nil {
			if hs.AdvertiseAddr != old {
				h.o.Monitor("clobber:handshake", in, fmt.Sprintf("Wait failed (%v) but AdvertiseAddr changed to %q", err, hs.AdvertiseAddr))
			}
			return lib.L(lib.S(hs.AdvertiseAddr), lib.L(lib.N(errCode(err))))
		}
		if expect != nil && hs.AdvertiseAddr != *expect {
			h.o.Monitor("roundtrip:handshake", in, fmt.Sprintf("Wait(Send(%q)) = %q", *expect, hs.AdvertiseAddr))
		}
		return lib.L(lib.S(hs.AdvertiseAddr), lib.L())
	})
	h.o.Case("handshake-wait", true, in, out)
}

func (h *H) handshake(addr string) {
	in := lib.L(lib.N(8), lib.S(addr))
	var sent []byte
	out := h.protect("Handshake.Send", in, func() lib.T {
		c := &fakeConn{}
		if err := (&remoting.Handshake{AdvertiseAddr: addr}).Send(c); err != nil {
			return lib.Err(errCode(err))
		}
		sent = c.written
		return lib.B(sent)
	})
	h.o.Case("handshake-send", true, in, out)
	if sent == nil {
		return
	}
	if len(addr) <= 4096 {
		h.handshakeWait("previous", sent, &addr)
	} else {
		h.handshakeWait("previous", sent, nil)
	}
	// the stream ends inside the handshake
	if len(sent) > 1 {
		h.handshakeWait("previous", sent[:1+h.r.Intn(len(sent)-1)], nil)
	}
	c := append([]byte{}, sent...)
	c[h.r.Intn(len(c))] ^= byte(1 + h.r.Intn(255))
	h.handshakeWait("previous", c, nil)
	h.handshakeWait("previous", append(append([]byte{}, sent...), h.r.Bytes(h.r.Intn(9))...), &addr)
}

func main() {
	child := flag.Bool("child", false, "decode the inputs on stdin (internal)")
	f := lib.ParseFlags()
	if *child {
		installRefRecorder()
		runChild()
		return
	}
	installRefRecorder()
	o := lib.NewOut(f.Out)
	r := lib.NewRand(f.Seed)
	h := &H{o: o, r: r, seeds: map[string][]seed{}, roundtripHits: map[string]int{}}
	g := &G{r: r.Fork()}
	thorough := f.Tier == "thorough"
	h.seedsPerKind = 3
	if thorough {
		h.seedsPerKind = 12
	}

	// --- registries
	names := messages.XVRegisteredNames()
	ts := make([]lib.T, len(names))
	known := map[string]bool{}
	for _, n := range kindNames {
		known[n] = true
	}
	for i, n := range names {
		ts[i] = lib.S(n)
		if !known[n] {
			o.Monitor("registry:unknown-name", lib.S(n), "a message type is registered at run time that the harness (and the model) has no codec for")
		}
		d := messages.QueryMessageDescByName(n)
		if d.IsOutside() || messages.QueryMessageDesc(d.Instance()) != d {
			o.Monitor("registry:inconsistent", lib.S(n), "name table and type table disagree")
		}
	}
	if messages.XVRegisteredTypeCount() != len(names) {
		o.Monitor("registry:inconsistent", nil, fmt.Sprintf("%d types, %d names", messages.XVRegisteredTypeCount(), len(names)))
	}
	o.Case("registry", true, lib.L(lib.N(0)), lib.LS(ts))
	codes := vivid.XVErrorCodes()
	cs := make([]int, 0, len(codes))
	for c := range codes {
		cs = append(cs, int(c))
	}
	sort.Ints(cs)
	es := make([]lib.T, len(cs))
	for i, c := range cs {
		es[i] = lib.L(lib.Z(int64(c)), lib.S(codes[int32(c)]))
	}
	o.Case("error-registry", true, lib.L(lib.N(1)), lib.LS(es))
	o.Info["registered_wire_names"] = len(names)
	o.Info["registered_error_codes"] = len(cs)

	// --- every registered type: extremes first, then random values
	per := 60
	if thorough {
		per = 1200
	}
	if f.N > 0 {
		per = f.N
	}
	for k := 0; k < nKinds; k++ {
		for i := 0; i < per; i++ {
			idx := i
			if i >= 28 {
				idx = -1
			}
			v := g.value(k, idx, 3)
			h.exercise(v, h.r.Chance(2, 3))
		}
	}
	// --- outside messages (Codec path), nil and non-pointer messages, with and without a Codec
	for i := 0; i < per; i++ {
		var v any
		switch i {
		case 0:
			v = nil
		case 1:
			v = 5
		case 2:
			v = vivid.OnLaunch{}
		case 3:
			v = &UserMsg{}
		case 4:
			v = &UserMsg{Data: []byte{0xFE}}
		case 5:
			v = &UserMsg{Data: []byte{0xFF, 1}}
		case 6:
			v = "text"
		default:
			v = &UserMsg{Data: g.userData()}
		}
		h.exercise(v, true)
		if i < 12 {
			h.exercise(v, false)
		}
	}
	// --- deep nesting
	depths := []int{5, 40}
	if thorough {
		depths = append(depths, 400)
	}
	for _, d := range depths {
		var v any = &messages.PingMessage{Time: time.Unix(0, 1)}
		for i := 0; i < d; i++ {
			switch i % 3 {
			case 0:
				v = &actor.SchedulerMessage{Reference: "r", Message: v}
			case 1:
				v = &vivid.PipeResult{Id: "p", Message: v}
			default:
				v = cluster.XVNewSingletonFwd(nil, "a", "/p", v)
			}
		}
		h.exercise(v, false)
	}
	// --- envelopes: sender x receiver x system flag over a sample of payloads
	nenv := 40
	if thorough {
		nenv = 800
	}
	for i := 0; i < nenv; i++ {
		var v any
		hc := true
		switch {
		case i == 0:
			v = &vivid.OnLaunch{}
		case i == 1:
			v = &UserMsg{Data: []byte("payload")}
		case i == 2:
			v, hc = &UserMsg{Data: []byte("payload")}, false
		case i == 3:
			v = nil
		case i == 4:
			v = 5
		case i%3 == 0:
			v = g.validMsg(2, true)
		case i%3 == 1:
			v = g.anyMsg(2)
		default:
			v = g.value(r.Intn(nKinds), -1, 2)
		}
		if i < 6 {
			// absent / present / present-with-empty-strings sender x receiver, both system flags
			for _, a := range []int{0, 1, 3} {
				for _, b := range []int{0, 1, 3} {
					h.envelope(v, hc, (a+b)%2 == 0, g.ref(a), g.ref(b))
					h.envelope(v, hc, (a+b)%2 != 0, g.ref(a), g.ref(b))
				}
			}
			if i < 2 { // typed-nil pointers in the interface fields
				h.envelope(v, hc, true, g.ref(2), g.ref(1))
				h.envelope(v, hc, false, g.ref(1), g.ref(2))
			}
		} else {
			h.envelope(v, hc, r.Bool(), g.ref(-1), g.ref(-1))
			h.envelope(v, r.Chance(3, 4), r.Bool(), g.ref(r.Intn(2)), g.realRef())
		}
	}
	// --- handshake
	for i, a := range []string{"", "localhost:8080", "a", strings.Repeat("h", 4096), strings.Repeat("h", 4097), strings.Repeat("h", 5000), "\x00\xff"} {
		_ = i
		h.handshake(a)
	}
	nh := 30
	if thorough {
		nh = 600
	}
	for i := 0; i < nh; i++ {
		h.handshake(g.str())
	}
	for i := 0; i < nh; i++ {
		h.handshakeWait(g.str(), r.Bytes(r.Intn(12)), nil)
	}

	// --- histories on the pooled code paths: failed operations must not poison later ones
	h.histories(g, thorough)

	// --- the malformed stream, decoded in a child process
	h.malformed(thorough)

	o.Close(f.Report)
	if len(o.Monitors) > 0 {
		os.Exit(3)
	}
}
