package main

// Histories: the real encoders and decoders draw Writers / Readers from sync.Pools.  A failed operation
// must leave nothing behind in a pooled object: a valid value that encodes (decodes) fine in isolation
// must give the same result after any history of failed operations on the same goroutine.

import (
	"fmt"
	"runtime"
	"strings"

	"github.com/kercylan98/vivid"
	"github.com/kercylan98/vivid/internal/cluster"
	"github.com/kercylan98/vivid/internal/mailbox"
	"github.com/kercylan98/vivid/internal/messages"
	"github.com/kercylan98/vivid/internal/remoting"
	"github.com/kercylan98/vivid/internal/remoting/serialize"
	"github.com/kercylan98/vivid/xverif/lib"
)

// Poison is a user-registered message whose writer fails in a chosen way; it is outside the model.
type Poison struct {
	Mode int
	P    *int32
}

const poisonModes = 7

func poisonWriter(message any, w *messages.Writer, codec messages.Codec) error {
	m := message.(*Poison)
	switch m.Mode {
	case 0: // nil pointer of a basic type: sets Writer.err
		return w.WriteFrom("prefix", m.P)
	case 1: // unsupported kind
		return w.WriteFrom(uint32(7), make(chan int))
	case 2: // over-long short string: sets Writer.err, reported
		w.WriteShortString(strings.Repeat("s", 300))
		return w.Err()
	case 3: // over-long short string, the error is left in the writer and NOT reported
		w.WriteString("partial").WriteShortString(strings.Repeat("s", 300))
		return nil
	case 4: // invalid length size
		w.WriteBytesWithLength([]byte("x"), 3)
		return w.Err()
	case 5: // panic after a partial write and a sticky error
		w.WriteString("partial").WriteShortString(strings.Repeat("s", 300))
		panic("poison writer panics")
	default: // unsupported kind through the reflective path (a map inside a struct)
		return w.WriteFrom(struct{ M map[string]int }{M: map[string]int{"a": 1}})
	}
}

func poisonReader(message any, r *messages.Reader, codec messages.Codec) error {
	var a, b uint64
	return r.ReadInto(&a, &b) // runs into the end of a short body: sets Reader.err
}

var poisonRegistered bool

func registerPoison() {
	if !poisonRegistered {
		vivid.RegisterCustomMessage[*Poison]("xvPoison", poisonReader, poisonWriter)
		poisonRegistered = true
	}
}

// one step of a history
type step struct {
	op     int // 2 SerializeRemotingMessage, 3 WriteMessage, 6 envelope, 8 handshake send; 4/5/7/9 decodes
	hc     bool
	v      any // message (encode steps)
	sys    bool
	s, r   vivid.ActorRef
	kind   int
	bs     []byte // input (decode steps) / address (8) / stream (9)
	poison bool
}

// run performs the step on the real code; in = the step as an ordinary operation term, out = its result.
func (h *H) run(st step) (in, out lib.T) {
	codec := codecOf(st.hc)
	guard := func(f func() lib.T) (o lib.T) {
		defer func() {
			if r := recover(); r != nil {
				o = lib.Err(13)
			}
		}()
		return f()
	}
	switch st.op {
	case 2:
		out = guard(func() lib.T {
			w := messages.NewWriter()
			if err := messages.SerializeRemotingMessage(codec, w, messages.QueryMessageDesc(st.v), st.v); err != nil {
				return lib.Err(errCode(err))
			}
			return lib.Ok(lib.B(w.Bytes()))
		})
		in = lib.L(lib.N(2), lib.Bool(st.hc), tmsg(st.v))
	case 3:
		out = guard(func() lib.T {
			w := messages.NewWriter()
			if err := w.WriteMessage(st.v, codec); err != nil {
				return lib.Err(errCode(err))
			}
			return lib.Ok(lib.B(w.Bytes()))
		})
		in = lib.L(lib.N(3), lib.Bool(st.hc), tmsg(st.v))
	case 6:
		out = guard(func() lib.T {
			d, err := serialize.EncodeEnvelopWithRemoting(codec, mailbox.NewEnvelop(st.sys, st.s, st.r, st.v))
			if err != nil {
				return lib.Err(errCode(err))
			}
			return lib.Ok(lib.B(d))
		})
		in = lib.L(lib.N(6), lib.Bool(st.hc), lib.L(lib.Bool(st.sys), tEref(st.s), tEref(st.r), tmsg(st.v)))
	case 8:
		out = guard(func() lib.T {
			c := &fakeConn{}
			if err := (&remoting.Handshake{AdvertiseAddr: string(st.bs)}).Send(c); err != nil {
				return lib.Err(errCode(err))
			}
			return lib.B(c.written)
		})
		in = lib.L(lib.N(8), lib.B(st.bs))
	case 4, 5, 7:
		out = guard(func() lib.T {
			o, _, _, _ := decodeOp(st.op, st.hc, st.kind, st.bs)
			return o
		})
		in = decodeIn(st.op, st.hc, st.kind, st.bs, oracleTerm(refCalls))
	case 9:
		out = guard(func() lib.T {
			hs := &remoting.Handshake{AdvertiseAddr: "old"}
			if err := hs.Wait(&fakeConn{chunk: append([]byte{}, st.bs...)}); err != nil {
				return lib.L(lib.S(hs.AdvertiseAddr), lib.L(lib.N(errCode(err))))
			}
			return lib.L(lib.S(hs.AdvertiseAddr), lib.L())
		})
		in = lib.L(lib.N(9), lib.S("old"), lib.B(st.bs))
	}
	if st.poison {
		// outside the model: the placeholder carries what happened for the reader of a replay
		in = lib.L(lib.N(99), tmsgPoison(st), out)
		out = lib.L(lib.N(99))
	}
	return
}

func tmsgPoison(st step) lib.T {
	if p, ok := st.v.(*Poison); ok {
		return lib.L(lib.NI(st.op), lib.NI(p.Mode))
	}
	return lib.L(lib.NI(st.op))
}

func freshPools() { runtime.GC(); runtime.GC() } // sync.Pool drops its content after two collections

func (h *H) histories(g *G, thorough bool) {
	registerPoison()
	n := 40
	if thorough {
		n = 800
	}
	for i := 0; i < n; i++ {
		h.encodeHistory(g, i)
		h.decodeHistory(g, i)
	}
}

// failing encodes of every kind the harness can produce
func (h *H) failingEncode(g *G, i int) step {
	ref := g.ref(1)
	ops := []int{2, 3, 6}
	op := ops[h.r.Intn(3)]
	k := i % (poisonModes + 6)
	if i >= poisonModes+6 {
		k = h.r.Intn(poisonModes + 6)
	}
	if k < poisonModes {
		return step{op: op, hc: true, v: &Poison{Mode: k}, s: ref, r: ref, poison: true}
	}
	var v any
	switch k - poisonModes {
	case 0:
		v = &messages.PongMessage{} // nil Ping: recovered panic
	case 1:
		v = (*messages.PingMessage)(nil)
	case 2:
		v = &UserMsg{Data: []byte{0xFF}} // Codec refuses
	case 3:
		v = &vivid.PipeResult{Id: "p", Message: &vivid.OnLaunch{}, Error: (*vivid.Error)(nil)}
	case 4:
		v = &cluster.GossipMessage{View: &cluster.ClusterView{VersionVector: cluster.XVNewVV(map[string]uint64{"": 1})}}
	default:
		v = &vivid.PipeResult{Id: "p", Message: &Poison{Mode: h.r.Intn(poisonModes)}} // the failure happens one level down
		return step{op: op, hc: true, v: v, s: ref, r: ref, poison: true}
	}
	if op == 2 && messages.QueryMessageDesc(v).IsOutside() {
		op = 3
	}
	return step{op: op, hc: true, v: v, s: ref, r: ref}
}

func (h *H) validEncode(g *G) step {
	ref := g.ref(1)
	switch h.r.Intn(8) {
	case 0:
		return step{op: 8, bs: []byte(g.str())}
	case 1:
		return step{op: 6, hc: true, v: &UserMsg{Data: []byte("payload")}, sys: h.r.Bool(), s: ref, r: g.ref(0)}
	}
	var v any
	for {
		v = g.validMsg(2, true)
		if !messages.QueryMessageDesc(v).IsOutside() {
			break
		}
	}
	return step{op: []int{2, 3, 6}[h.r.Intn(3)], hc: true, v: v, sys: h.r.Bool(), s: g.ref(0), r: ref}
}

func (h *H) encodeHistory(g *G, i int) {
	// the valid operations and their results in isolation (fresh pools before each)
	valid := make([]step, 4)
	base := make([]string, 4)
	for j := range valid {
		valid[j] = h.validEncode(g)
		freshPools()
		_, o := h.run(valid[j])
		base[j] = lib.Show(o)
	}
	freshPools()
	var ins, outs []lib.T
	lastFail := "none"
	for j := 0; j < 10; j++ {
		if j%2 == 0 {
			f := h.failingEncode(g, i*5+j/2)
			in, out := h.run(f)
			ins, outs = append(ins, in), append(outs, out)
			lastFail = lib.Show(in)
			if len(lastFail) > 300 {
				lastFail = lastFail[:300] + "..."
			}
			continue
		}
		k := h.r.Intn(len(valid))
		in, out := h.run(valid[k])
		ins, outs = append(ins, in), append(outs, out)
		if got := lib.Show(out); got != base[k] {
			h.roundtrip("encode-after-failed-encode", lib.L(lib.N(10), lib.LS(ins)),
				fmt.Sprintf("step %d %s gives %s after the failed step %s; in isolation it gives %s", j, trunc(lib.Show(in), 200), trunc(got, 200), lastFail, trunc(base[k], 200)))
		}
	}
	h.o.Case("history:encode", true, lib.L(lib.N(10), lib.LS(ins)), lib.LS(outs))
}

func trunc(s string, n int) string {
	if len(s) > n {
		return s[:n] + "..."
	}
	return s
}

// a valid decode step built from a valid encoding
func (h *H) validDecode(g *G) (step, bool) {
	for try := 0; try < 20; try++ {
		switch h.r.Intn(4) {
		case 0:
			c := &fakeConn{}
			if (&remoting.Handshake{AdvertiseAddr: "node-a:1"}).Send(c) == nil {
				return step{op: 9, bs: c.written}, true
			}
		case 1:
			v := g.validMsg(2, true)
			d, err := serialize.EncodeEnvelopWithRemoting(testCodec{}, mailbox.NewEnvelop(h.r.Bool(), g.ref(1), g.ref(1), v))
			if err == nil {
				return step{op: 7, hc: true, bs: d}, true
			}
		default:
			v := g.validMsg(2, true)
			w := messages.NewWriter()
			if w.WriteMessage(v, testCodec{}) == nil {
				return step{op: 5, hc: true, bs: append([]byte{}, w.Bytes()...)}, true
			}
		}
	}
	return step{}, false
}

func (h *H) decodeHistory(g *G, i int) {
	valid := make([]step, 0, 4)
	base := make([]string, 0, 4)
	for len(valid) < 4 {
		st, ok := h.validDecode(g)
		if !ok {
			return
		}
		freshPools()
		_, o := h.run(st)
		valid = append(valid, st)
		base = append(base, lib.Show(o))
	}
	freshPools()
	var ins, outs []lib.T
	lastFail := "none"
	for j := 0; j < 10; j++ {
		if j%2 == 0 {
			// a failing decode: a truncation of a valid input, a poison body, or a Codec-refused payload
			src := valid[h.r.Intn(len(valid))]
			f := src
			switch h.r.Intn(4) {
			case 0:
				w := messages.NewWriter()
				w.WriteBytesWithLength([]byte{1, 2, 3}, 4) // poison body too short for its reader
				w.WriteString("xvPoison")
				f = step{op: 5, hc: true, bs: append([]byte{}, w.Bytes()...), poison: true}
			case 1:
				w := messages.NewWriter()
				w.WriteBytesWithLength([]byte{0xFE}, 4)
				w.WriteString("")
				f = step{op: 5, hc: true, bs: append([]byte{}, w.Bytes()...)}
			default:
				if len(src.bs) > 1 {
					f.bs = src.bs[:1+h.r.Intn(len(src.bs)-1)]
				}
			}
			in, out := h.run(f)
			ins, outs = append(ins, in), append(outs, out)
			lastFail = trunc(lib.Show(in), 300)
			continue
		}
		k := h.r.Intn(len(valid))
		in, out := h.run(valid[k])
		ins, outs = append(ins, in), append(outs, out)
		if got := lib.Show(out); got != base[k] {
			h.roundtrip("decode-after-failed-decode", lib.L(lib.N(10), lib.LS(ins)),
				fmt.Sprintf("step %d %s gives %s after the failed step %s; in isolation it gives %s", j, trunc(lib.Show(in), 200), trunc(got, 200), lastFail, trunc(base[k], 200)))
		}
	}
	h.o.Case("history:decode", true, lib.L(lib.N(10), lib.LS(ins)), lib.LS(outs))
}
