package main

import (
	"bufio"
	"encoding/hex"
	"fmt"
	"os"
	"os/exec"
	"runtime/metrics"
	"strconv"
	"strings"
	"sync/atomic"
	"syscall"
	"time"

	"github.com/kercylan98/vivid/xverif/lib"
)

// one input of the malformed stream
type minput struct {
	tag  string
	op   int
	hc   bool
	kind int
	bs   []byte
}

const (
	childAllocAbort   = 48 << 20 // the child's watchdog aborts a decode that has allocated this much (+ 64 per input byte)
	childAddressSpace = 4 << 30   // RLIMIT_AS of the decoding child (backstop for single huge allocations)
	allocPerByte      = 64      // allocation allowed per input byte ...
	allocSlack        = 16 << 20 // ... plus a constant covering the documented caps (65535/65536-entry maps)
)

func heapAllocs(s []metrics.Sample) uint64 {
	metrics.Read(s)
	return s[0].Value.Uint64()
}

// runChild: decode every input line "op hc kind hex" from stdin, print "R idx alloc term".
func runChild() {
	as := uint64(childAddressSpace)
	if v, err := strconv.ParseUint(os.Getenv("XV_CHILD_AS"), 10, 64); err == nil && v > 0 {
		as = v
	}
	lim := syscall.Rlimit{Cur: as, Max: as}
	_ = syscall.Setrlimit(syscall.RLIMIT_AS, &lim)
	sample := []metrics.Sample{{Name: "/gc/heap/allocs:bytes"}}
	// watchdog: a decode that allocates more than childAllocAbort is reported and the process exits at once
	// (without it the runtime grinds on until the address-space limit kills it, seconds later)
	var curStart, curIdx, curLen atomic.Int64
	curIdx.Store(-1)
	go func() {
		ws := []metrics.Sample{{Name: "/gc/heap/allocs:bytes"}}
		for {
			time.Sleep(2 * time.Millisecond)
			if i := curIdx.Load(); i >= 0 {
				if d := int64(heapAllocs(ws)) - curStart.Load(); d > childAllocAbort+allocPerByte*curLen.Load() {
					os.Stdout.WriteString(fmt.Sprintf("A %d %d\n", i, d))
					os.Exit(0)
				}
			}
		}
	}()
	in := bufio.NewScanner(os.Stdin)
	in.Buffer(make([]byte, 1<<20), 64<<20)
	w := bufio.NewWriter(os.Stdout)
	idx := 0
	for in.Scan() {
		f := strings.Fields(in.Text())
		if len(f) < 3 {
			continue
		}
		op, _ := strconv.Atoi(f[0])
		hc := f[1] == "1"
		kind, _ := strconv.Atoi(f[2])
		var bs []byte
		if len(f) > 3 {
			bs, _ = hex.DecodeString(f[3])
		}
		fmt.Fprintf(w, "S %d\n", idx)
		w.Flush()
		before := heapAllocs(sample)
		curStart.Store(int64(before))
		curLen.Store(int64(len(bs)))
		curIdx.Store(int64(idx))
		out := func() (out lib.T) {
			defer func() {
				if r := recover(); r != nil {
					out = lib.L(lib.N(2), lib.S(fmt.Sprint(r)))
				}
			}()
			o, _, _, _ := decodeOp(op, hc, kind, bs)
			return o
		}()
		curIdx.Store(-1)
		after := heapAllocs(sample)
		fmt.Fprintf(w, "R %d %d %s\t%s\n", idx, after-before, lib.Show(out), lib.Show(oracleTerm(refCalls)))
		if after-before > 32<<20 {
			// the Go runtime never unmaps heap arenas: leave the rest to a fresh process, so that the
			// address-space limit keeps measuring one decode and not the history of the process
			fmt.Fprintf(w, "X %d\n", idx)
			w.Flush()
			os.Exit(0)
		}
		w.Flush()
		idx++
	}
}

// decodeInChild runs the inputs through child processes; a crashed / hung child names its input.
func (h *H) decodeInChild(inputs []minput) {
	exe, err := os.Executable()
	if err != nil {
		panic(err)
	}
	next := 0
	restarts := 0
	for next < len(inputs) && restarts < 20 {
		var sb strings.Builder
		for _, m := range inputs[next:] {
			hc := 0
			if m.hc {
				hc = 1
			}
			fmt.Fprintf(&sb, "%d %d %d %s\n", m.op, hc, m.kind, hex.EncodeToString(m.bs))
		}
		cmd := exec.Command(exe, "-child")
		cmd.Stdin = strings.NewReader(sb.String())
		var stderr strings.Builder
		cmd.Stderr = &stderr
		stdout, err := cmd.StdoutPipe()
		if err != nil {
			panic(err)
		}
		if err := cmd.Start(); err != nil {
			panic(err)
		}
		lines := make(chan string, 1024)
		go func() {
			sc := bufio.NewScanner(stdout)
			sc.Buffer(make([]byte, 1<<20), 256<<20)
			for sc.Scan() {
				lines <- sc.Text()
			}
			close(lines)
		}()
		started, done := -1, -1 // relative indices
		timedOut, voluntary := false, false
	loop:
		for {
			select {
			case l, ok := <-lines:
				if !ok {
					break loop
				}
				switch {
				case strings.HasPrefix(l, "X "):
					voluntary = true
				case strings.HasPrefix(l, "A "):
					var i int
					var alloc uint64
					fmt.Sscanf(l, "A %d %d", &i, &alloc)
					m := inputs[next+i]
					h.roundtrip("alloc:decode:"+entryShort(m), decodeIn(m.op, m.hc, m.kind, m.bs, lib.L()), fmt.Sprintf("%s: decoding %d bytes with %s had allocated %d bytes when the watchdog aborted it (limit %d; bound %d*len+%d)", m.tag, len(m.bs), entryName(m), alloc, childAllocAbort, allocPerByte, allocSlack))
					h.o.Stats["mal-aborted"]++
					done = i
					voluntary = true
				case strings.HasPrefix(l, "S "):
					started, _ = strconv.Atoi(l[2:])
				case strings.HasPrefix(l, "R "):
					parts := strings.SplitN(l, " ", 4)
					if len(parts) != 4 {
						continue
					}
					i, _ := strconv.Atoi(parts[1])
					alloc, _ := strconv.ParseUint(parts[2], 10, 64)
					done = i
					h.childResult(inputs[next+i], alloc, parts[3])
				}
			case <-time.After(30 * time.Second):
				timedOut = true
				_ = cmd.Process.Kill()
				break loop
			}
		}
		werr := cmd.Wait()
		if done+1 >= len(inputs)-next && werr == nil {
			return
		}
		if voluntary && werr == nil {
			next += done + 1
			h.o.Stats["mal-child-restarts"]++
			continue
		}
		// the child died (or hung) while decoding input `started`
		bad := started
		if bad <= done {
			bad = done + 1
		}
		if next+bad >= len(inputs) {
			return
		}
		m := inputs[next+bad]
		in := decodeIn(m.op, m.hc, m.kind, m.bs, lib.L())
		tail := stderr.String()
		if len(tail) > 600 {
			tail = tail[:600]
		}
		name := "crash:decode:" + entryShort(m)
		if timedOut {
			name = "timeout:decode:" + entryShort(m)
		}
		h.roundtrip(name, in, fmt.Sprintf("%s input of %d bytes (%s): child process %v; stderr: %s", m.tag, len(m.bs), entryName(m), werr, tail))
		h.o.Stats["mal-crashed"]++
		next += bad + 1
		restarts++
	}
	if next < len(inputs) {
		h.o.Monitor("crash:decode", nil, fmt.Sprintf("gave up after %d crashed children; %d inputs not decoded", restarts, len(inputs)-next))
	}
}

// entryShort names the entry point inside monitor names: the wire name, ReadMessage or Envelope
func entryShort(m minput) string {
	switch m.op {
	case 4:
		return kindNames[m.kind]
	case 5:
		return "ReadMessage"
	}
	return "Envelope"
}

func entryName(m minput) string {
	switch m.op {
	case 4:
		return "DeserializeRemotingMessage " + kindNames[m.kind]
	case 5:
		return "ReadMessage"
	}
	return "DecodeEnvelopWithRemoting"
}

func (h *H) childResult(m minput, alloc uint64, term string) {
	oracle := lib.L()
	if i := strings.IndexByte(term, '\t'); i >= 0 {
		oracle, term = parseTerm(term[i+1:]), term[:i]
	}
	in := decodeIn(m.op, m.hc, m.kind, m.bs, oracle)
	if strings.HasPrefix(term, "(2 ") { // a panic inside the decoder
		h.roundtrip("panic:decode:"+entryShort(m), in, m.tag+" "+entryName(m)+": "+term)
		h.o.Stats["mal-panicked"]++
		return
	}
	if term == "(1 62)" {
		h.o.Monitor("clobber:decode", in, entryName(m)+" returned an error AND a message")
	}
	h.o.Case("mal:"+m.tag, len(m.bs) > 4, in, parseTerm(term))
	if alloc > allocPerByte*uint64(len(m.bs))+allocSlack {
		h.roundtrip("alloc:decode:"+entryShort(m), in, fmt.Sprintf("%s: decoding %d bytes with %s allocated %d bytes (bound %d*len+%d)", m.tag, len(m.bs), entryName(m), alloc, allocPerByte, allocSlack))
	}
}
