package main

import (
	"bufio"
	"encoding/hex"
	"fmt"
	"os"
	"os/exec"
	"runtime/metrics"
	"strconv"
	"strings"
	"syscall"
	"time"

	"github.com/kercylan98/vivid/xverif/lib"
)

// one input of the malformed stream
type minput struct {
	tag  string
	op   int
	hc   bool
	kind int
	bs   []byte
}

const (
	childAddressSpace = 3 << 30 // RLIMIT_AS of the decoding child
	allocPerByte      = 64      // allocation allowed per input byte ...
	allocSlack        = 16 << 20 // ... plus a constant covering the documented caps (65535/65536-entry maps)
)

func heapAllocs(s []metrics.Sample) uint64 {
	metrics.Read(s)
	return s[0].Value.Uint64()
}

// runChild: decode every input line "op hc kind hex" from stdin, print "R idx alloc term".
func runChild() {
	lim := syscall.Rlimit{Cur: childAddressSpace, Max: childAddressSpace}
	_ = syscall.Setrlimit(syscall.RLIMIT_AS, &lim)
	sample := []metrics.Sample{{Name: "/gc/heap/allocs:bytes"}}
	in := bufio.NewScanner(os.Stdin)
	in.Buffer(make([]byte, 1<<20), 64<<20)
	w := bufio.NewWriter(os.Stdout)
	idx := 0
	for in.Scan() {
		f := strings.Fields(in.Text())
		if len(f) < 3 {
			continue
		}
		op, _ := strconv.Atoi(f[0])
		hc := f[1] == "1"
		kind, _ := strconv.Atoi(f[2])
		var bs []byte
		if len(f) > 3 {
			bs, _ = hex.DecodeString(f[3])
		}
		fmt.Fprintf(w, "S %d\n", idx)
		w.Flush()
		before := heapAllocs(sample)
		out := func() (out lib.T) {
			defer func() {
				if r := recover(); r != nil {
					out = lib.L(lib.N(2), lib.S(fmt.Sprint(r)))
				}
			}()
			o, _, _, _ := decodeOp(op, hc, kind, bs)
			return o
		}()
		after := heapAllocs(sample)
		fmt.Fprintf(w, "R %d %d %s\n", idx, after-before, lib.Show(out))
		w.Flush()
		idx++
	}
}

// decodeInChild runs the inputs through child processes; a crashed / hung child names its input.
func (h *H) decodeInChild(inputs []minput) {
	exe, err := os.Executable()
	if err != nil {
		panic(err)
	}
	next := 0
	restarts := 0
	for next < len(inputs) && restarts < 40 {
		var sb strings.Builder
		for _, m := range inputs[next:] {
			hc := 0
			if m.hc {
				hc = 1
			}
			fmt.Fprintf(&sb, "%d %d %d %s\n", m.op, hc, m.kind, hex.EncodeToString(m.bs))
		}
		cmd := exec.Command(exe, "-child")
		cmd.Stdin = strings.NewReader(sb.String())
		var stderr strings.Builder
		cmd.Stderr = &stderr
		stdout, err := cmd.StdoutPipe()
		if err != nil {
			panic(err)
		}
		if err := cmd.Start(); err != nil {
			panic(err)
		}
		lines := make(chan string, 1024)
		go func() {
			sc := bufio.NewScanner(stdout)
			sc.Buffer(make([]byte, 1<<20), 256<<20)
			for sc.Scan() {
				lines <- sc.Text()
			}
			close(lines)
		}()
		started, done := -1, -1 // relative indices
		timedOut := false
	loop:
		for {
			select {
			case l, ok := <-lines:
				if !ok {
					break loop
				}
				switch {
				case strings.HasPrefix(l, "S "):
					started, _ = strconv.Atoi(l[2:])
				case strings.HasPrefix(l, "R "):
					parts := strings.SplitN(l, " ", 4)
					if len(parts) != 4 {
						continue
					}
					i, _ := strconv.Atoi(parts[1])
					alloc, _ := strconv.ParseUint(parts[2], 10, 64)
					done = i
					h.childResult(inputs[next+i], alloc, parts[3])
				}
			case <-time.After(30 * time.Second):
				timedOut = true
				_ = cmd.Process.Kill()
				break loop
			}
		}
		werr := cmd.Wait()
		if done+1 >= len(inputs)-next && werr == nil {
			return
		}
		// the child died (or hung) while decoding input `started`
		bad := started
		if bad <= done {
			bad = done + 1
		}
		if next+bad >= len(inputs) {
			return
		}
		m := inputs[next+bad]
		in := decodeIn(m.op, m.hc, m.kind, m.bs)
		tail := stderr.String()
		if len(tail) > 600 {
			tail = tail[:600]
		}
		name := "crash:decode"
		if timedOut {
			name = "timeout:decode"
		}
		h.o.Monitor(name, in, fmt.Sprintf("%s input of %d bytes (%s): child process %v; stderr: %s", m.tag, len(m.bs), entryName(m), werr, tail))
		h.o.Stats["mal-crashed"]++
		next += bad + 1
		restarts++
	}
}

func entryName(m minput) string {
	switch m.op {
	case 4:
		return "DeserializeRemotingMessage " + kindNames[m.kind]
	case 5:
		return "ReadMessage"
	}
	return "DecodeEnvelopWithRemoting"
}

func (h *H) childResult(m minput, alloc uint64, term string) {
	in := decodeIn(m.op, m.hc, m.kind, m.bs)
	if strings.HasPrefix(term, "(2 ") { // a panic inside the decoder
		h.o.Monitor("panic:decode", in, m.tag+" "+entryName(m)+": "+term)
		h.o.Stats["mal-panicked"]++
		return
	}
	if term == "(1 62)" {
		h.o.Monitor("clobber:decode", in, entryName(m)+" returned an error AND a message")
	}
	h.o.Case("mal:"+m.tag, len(m.bs) > 4, in, parseTerm(term))
	if alloc > allocPerByte*uint64(len(m.bs))+allocSlack {
		h.allocHits++
		if h.allocHits <= 5 {
			h.o.Monitor("alloc:decode", in, fmt.Sprintf("%s: decoding %d bytes with %s allocated %d bytes (bound %d*len+%d)", m.tag, len(m.bs), entryName(m), alloc, allocPerByte, allocSlack))
		} else {
			h.o.Stats["monitor:alloc:decode"]++
		}
	}
}
