package main

import (
	"encoding/binary"
	"math/big"
	"sort"
	"strings"

	"github.com/kercylan98/vivid/internal/messages"
	"github.com/kercylan98/vivid/xverif/lib"
)

// parseTerm reads the text form of a term (hex number | #hexbytes | ( t ... )).
func parseTerm(s string) lib.T {
	pos := 0
	var term func() lib.T
	term = func() lib.T {
		for pos < len(s) && s[pos] == ' ' {
			pos++
		}
		switch {
		case s[pos] == '(':
			pos++
			var xs []lib.T
			for {
				for pos < len(s) && s[pos] == ' ' {
					pos++
				}
				if s[pos] == ')' {
					pos++
					return lib.LS(xs)
				}
				xs = append(xs, term())
			}
		case s[pos] == '#':
			pos++
			st := pos
			for pos < len(s) && strings.IndexByte("0123456789abcdef", s[pos]) >= 0 {
				pos++
			}
			b := make([]byte, (pos-st)/2)
			for i := range b {
				var v byte
				for _, c := range []byte(s[st+2*i : st+2*i+2]) {
					v <<= 4
					if c >= 'a' {
						v |= c - 'a' + 10
					} else {
						v |= c - '0'
					}
				}
				b[i] = v
			}
			return lib.B(b)
		}
		st := pos
		for pos < len(s) && strings.IndexByte("0123456789abcdef", s[pos]) >= 0 {
			pos++
		}
		v, _ := new(big.Int).SetString(s[st:pos], 16)
		return lib.Big(v)
	}
	return term()
}

var lengthTargets = []uint32{0xFFFFFFFF, 0x7FFFFFFF, 0x80000000, 0x00FFFFFF, 0x000FFFFF, 65537, 65536, 65535, 0x01000000, 256, 2, 1, 0}

func le32(v uint32) []byte { b := make([]byte, 4); binary.BigEndian.PutUint32(b, v); return b }

// a ClusterView header announcing memLen members, followed by `tail`
func viewHeader(memLen uint32, tail []byte) []byte {
	b := append([]byte{}, le32(1)...)
	b = append(b, le32(2)...)
	b = append(b, 'i', 'd')
	b = append(b, make([]byte, 16)...)
	b = append(b, le32(memLen)...)
	return append(b, tail...)
}

// depth-fold SchedulerMessage around a PingMessage, as DeserializeRemotingMessage(SchedulerMessage) input
func nestedScheduler(depth int) []byte {
	body := make([]byte, 8) // PingMessage body
	name := "PingMessage"
	for i := 0; i < depth; i++ {
		w := messages.NewWriter()
		w.WriteBytesWithLength(body, 4)
		w.WriteString(name)
		w.WriteString("")
		body = append([]byte{}, w.Bytes()...)
		name = "SchedulerMessage"
	}
	return body
}

func (h *H) malformed(thorough bool) {
	var inputs []minput
	add := func(tag string, s seed, bs []byte) {
		inputs = append(inputs, minput{tag, s.op, s.hc, s.kind, bs})
	}
	keys := make([]string, 0, len(h.seeds))
	for k := range h.seeds {
		keys = append(keys, k)
	}
	sort.Strings(keys)
	full := 400 // seeds up to this length get every truncation and a corruption of every position
	for _, key := range keys {
		for _, s := range h.seeds[key] {
			n := len(s.bs)
			step := 1
			if n > full && !thorough {
				step = n/full + 1
			}
			for i := h.r.Intn(step); i < n; i += step {
				add("trunc", s, s.bs[:i])
				c := append([]byte{}, s.bs...)
				c[i] ^= byte(1 + h.r.Intn(255))
				add("corrupt", s, c)
			}
			// length-field-targeted: overwrite four bytes somewhere with an extreme count
			nt := 6
			if thorough {
				nt = 40
			}
			for j := 0; j < nt && n >= 4; j++ {
				c := append([]byte{}, s.bs...)
				copy(c[h.r.Intn(n-3):], le32(lengthTargets[h.r.Intn(len(lengthTargets))]))
				add("length", s, c)
			}
			add("extended", s, append(append([]byte{}, s.bs...), h.r.Bytes(1+h.r.Intn(8))...))
		}
	}
	// random strings through every entry point
	nr := 30
	if thorough {
		nr = 600
	}
	for k := 0; k < nKinds; k++ {
		for i := 0; i < nr; i++ {
			bs := h.r.Bytes(h.r.Intn(48))
			if h.r.Bool() && len(bs) >= 4 {
				copy(bs, le32(uint32(h.r.Intn(5))))
			}
			add("random", seed{4, h.r.Bool(), k, nil}, bs)
		}
	}
	for i := 0; i < nr*6; i++ {
		bs := h.r.Bytes(h.r.Intn(64))
		if h.r.Bool() && len(bs) >= 4 {
			copy(bs, le32(uint32(h.r.Intn(12))))
		}
		add("random", seed{5 + 2*h.r.Intn(2), h.r.Bool(), 0, nil}, bs)
	}
	// readClusterView: the member count is an unchecked uint32
	for _, k := range []int{kJoinResponse, kGossip, kGetViewResponse} {
		for _, ml := range []uint32{3, 65537, 1 << 20, 1 << 24, 1 << 31, 0xFFFFFFFF} {
			add("view-memlen", seed{4, false, k, nil}, viewHeader(ml, nil))
			add("view-memlen", seed{4, false, k, nil}, viewHeader(ml, []byte{0, 0, 0, 1, 'a', 0, 0, 0, 0, 1, 'b', 0}))
		}
	}
	// map / version-vector counts at and above their caps
	for _, n := range []uint32{65535, 65536, 65537, 0xFFFFFFFF} {
		ns := append(le32(1), make([]byte, 12+4+8+8+4+1+8+8)...) // NodeState up to the Metadata count
		add("map-count", seed{4, false, kJoinRequest, nil}, append(ns, le32(n)...))
	}
	// the second map of a NodeState and the version vector of a view, at and above their caps
	for _, n := range []uint32{65535, 65536, 65537, 0x80000000} {
		ns := append(le32(1), make([]byte, 12+4+8+8+4+1+8+8+4)...) // NodeState with an empty Metadata, up to the Labels count
		add("map-count", seed{4, false, kJoinRequest, nil}, append(ns, le32(n)...))
		add("vv-count", seed{4, false, kGossip, nil}, viewHeader(0, append(make([]byte, 12), le32(n)...)))
	}
	// nesting: every level copies its body
	depths := []int{3, 60, 1500}
	if thorough {
		depths = append(depths, 6000)
	}
	for _, d := range depths {
		add("nest", seed{4, false, kScheduler, nil}, nestedScheduler(d))
	}
	h.o.Info["malformed_inputs"] = len(inputs)
	h.o.Info["child_limits"] = map[string]any{"RLIMIT_AS": childAddressSpace, "watchdog_abort_bytes": childAllocAbort, "alloc_bound": "64*len + 16 MiB", "no_output_timeout_s": 30}
	h.decodeInChild(inputs)
}
