// vv: correspondence cases and implementation-side monitors for C16 (cluster.VersionVector).
package main

import (
	"errors"
	"fmt"
	"io"
	"os"
	"sort"
	"strings"

	"github.com/kercylan98/vivid/internal/cluster"
	"github.com/kercylan98/vivid/internal/messages"
	"github.com/kercylan98/vivid/xverif/lib"
)

const maxC = uint64(1<<63 - 1)

type vec = map[string]uint64

func tvec(m vec) lib.T {
	keys := make([]string, 0, len(m))
	for k := range m {
		keys = append(keys, k)
	}
	sort.Strings(keys)
	xs := make([]lib.T, 0, len(keys))
	for _, k := range keys {
		xs = append(xs, lib.L(lib.S(k), lib.N(m[k])))
	}
	return lib.LS(xs)
}

func errCode(err error) uint64 {
	switch {
	case errors.Is(err, io.ErrUnexpectedEOF):
		return 1
	case errors.Is(err, cluster.ErrVersionOverflow), errors.Is(err, messages.ErrOverflow):
		return 2
	case errors.Is(err, cluster.ErrVectorTooLarge):
		return 3
	case errors.Is(err, cluster.ErrInvalidNodeAddress):
		return 4
	}
	return 99
}

func same(a, b vec) bool {
	if len(a) != len(b) {
		return false
	}
	for k, v := range a {
		if w, ok := b[k]; !ok || w != v {
			return false
		}
	}
	return true
}

type H struct {
	o *lib.Out
}

// guard runs f and reports a panic as a monitor hit
func (h *H) guard(name string, c lib.T, f func()) {
	defer func() {
		if r := recover(); r != nil {
			h.o.Monitor("panic:"+name, c, fmt.Sprint(r))
		}
	}()
	f()
}

func (h *H) binary(a, b vec) {
	va, vb := cluster.XVNewVV(a), cluster.XVNewVV(b)
	ta, tb := tvec(a), tvec(b)
	nt := len(a) > 0 && len(b) > 0
	in := lib.L(lib.N(0), ta, tb)
	h.guard("compare", in, func() {
		ord := va.Compare(vb)
		h.o.Case("compare", nt, in, lib.N(uint64(ord)))
		// monitors: converse
		conv := vb.Compare(va)
		want := map[cluster.VersionOrder]cluster.VersionOrder{cluster.VersionEqual: cluster.VersionEqual, cluster.VersionBefore: cluster.VersionAfter, cluster.VersionAfter: cluster.VersionBefore, cluster.VersionConcurrent: cluster.VersionConcurrent}[ord]
		if conv != want {
			h.o.Monitor("converse", in, fmt.Sprintf("Compare(a,b)=%d Compare(b,a)=%d", ord, conv))
		}
	})
	in = lib.L(lib.N(1), ta, tb)
	h.guard("merge", in, func() {
		m := va.Merge(vb)
		dm := cluster.XVDump(m)
		h.o.Case("merge", nt, in, tvec(dm))
		if !same(cluster.XVDump(va), a) || !same(cluster.XVDump(vb), b) {
			h.o.Monitor("operand-modified", in, "Merge changed an operand")
		}
		m2 := vb.Merge(va)
		if !same(cluster.XVDump(m2), dm) {
			h.o.Monitor("merge-comm", in, "Merge(a,b) != Merge(b,a)")
		}
		// upper bound
		if c := va.Compare(m); c != cluster.VersionBefore && c != cluster.VersionEqual {
			h.o.Monitor("merge-upper", in, fmt.Sprintf("Compare(a, Merge(a,b)) = %d", c))
		}
		if c := vb.Compare(m); c != cluster.VersionBefore && c != cluster.VersionEqual {
			h.o.Monitor("merge-upper", in, fmt.Sprintf("Compare(b, Merge(a,b)) = %d", c))
		}
	})
}

func (h *H) unary(a vec, r *lib.Rand, names []string) {
	va := cluster.XVNewVV(a)
	ta := tvec(a)
	nt := len(a) > 0
	// reflexive + idempotent
	h.guard("refl", ta, func() {
		if va.Compare(va) != cluster.VersionEqual {
			h.o.Monitor("reflexive", ta, "Compare(v,v) != Equal")
		}
		if !same(cluster.XVDump(va.Merge(va)), a) {
			h.o.Monitor("merge-idem", ta, "Merge(v,v) != v")
		}
	})
	// increment at every candidate name
	for _, k := range names {
		in := lib.L(lib.N(2), ta, lib.S(k))
		h.guard("inc", in, func() {
			out, err := va.Increment(k)
			if err != nil {
				h.o.Case("inc-err", true, in, lib.Err(errCode(err)))
				return
			}
			h.o.Case("inc", nt, in, lib.Ok(tvec(cluster.XVDump(out))))
			if !same(cluster.XVDump(va), a) {
				h.o.Monitor("operand-modified", in, "Increment changed its operand")
			}
			if out.Compare(va) != cluster.VersionAfter {
				h.o.Monitor("inc-after", in, "Increment result is not After its input")
			}
		})
		in = lib.L(lib.N(7), ta, lib.S(k))
		h.o.Case("get", nt, in, lib.N(va.Get(k)))
	}
	in := lib.L(lib.N(3), ta)
	h.guard("compact", in, func() {
		out := va.Compact()
		h.o.Case("compact", nt, in, tvec(cluster.XVDump(out)))
		if !same(cluster.XVDump(va), a) {
			h.o.Monitor("operand-modified", in, "Compact changed its operand")
		}
	})
	// prune
	var active []string
	for _, k := range names {
		if r.Chance(1, 2) {
			active = append(active, k)
			if r.Chance(1, 5) {
				active = append(active, k)
			}
		}
	}
	r2 := r.Fork()
	sort.Slice(active, func(i, j int) bool { return r2.Bool() })
	mx := []int{0, -1, 1, 2, 3, 100000}[r.Intn(6)]
	ts := make([]lib.T, len(active))
	for i, s := range active {
		ts[i] = lib.S(s)
	}
	in = lib.L(lib.N(4), ta, lib.LS(ts), lib.Z(int64(mx)))
	h.guard("prune", in, func() {
		act2 := append([]string(nil), active...)
		out := va.PruneWithMax(active, mx)
		h.o.Case("prune", nt && len(active) > 0, in, tvec(cluster.XVDump(out)))
		for i := range act2 {
			if act2[i] != active[i] {
				h.o.Monitor("operand-modified", in, "PruneWithMax reordered the caller's slice")
				break
			}
		}
		if !same(cluster.XVDump(va), a) {
			h.o.Monitor("operand-modified", in, "PruneWithMax changed its operand")
		}
	})
	// write, read back
	in = lib.L(lib.N(5), ta)
	h.guard("write", in, func() {
		w := messages.NewWriter()
		err := cluster.WriteVersionVector(w, va)
		if err != nil {
			h.o.Case("write-err", true, in, lib.Err(errCode(err)))
			return
		}
		bs := append([]byte(nil), w.Bytes()...)
		h.o.Case("write", nt, in, lib.Ok(lib.B(bs)))
		if !same(cluster.XVDump(va), a) {
			h.o.Monitor("operand-modified", in, "WriteVersionVector changed its operand")
		}
		h.read(bs, a, true)
		// truncations and corruptions of the valid encoding
		if len(bs) > 0 {
			h.read(bs[:r.Intn(len(bs))], nil, false)
			c := append([]byte(nil), bs...)
			c[r.Intn(len(c))] ^= byte(1 << r.Intn(8))
			h.read(c, nil, false)
			h.read(append(append([]byte(nil), bs...), r.Bytes(r.Intn(4))...), nil, false)
		}
	})
}

// capBoundary checks the writer's entry cap on the implementation (no model case: too large for the extracted model).
func (h *H) capBoundary(a vec, over bool) {
	in := lib.L(lib.N(5), lib.NI(len(a)))
	h.guard("cap", in, func() {
		va := cluster.XVNewVV(a)
		w := messages.NewWriter()
		err := cluster.WriteVersionVector(w, va)
		if over {
			if err == nil {
				h.o.Monitor("cap-not-enforced", in, "WriteVersionVector accepted a vector of more than 65535 entries")
			}
			return
		}
		if err != nil {
			h.o.Monitor("roundtrip", in, "WriteVersionVector refused a vector of 65535 entries: "+err.Error())
			return
		}
		bs := append([]byte(nil), w.Bytes()...)
		rd := messages.NewReader(bs)
		out, err := cluster.ReadVersionVector(rd)
		if err != nil {
			h.o.Monitor("roundtrip", in, "Read(Write(v)) failed for 65535 entries: "+err.Error())
			return
		}
		if !same(cluster.XVDump(out), a) || rd.Pos() != len(bs) {
			h.o.Monitor("roundtrip", in, "Read(Write(v)) != v for 65535 entries")
		}
	})
}

// session drives ONE family of vector objects through a history of operations (the per-operation cases above
// build fresh operands every time and cannot see aliasing between a vector and the vectors derived from it:
// shared maps, shared caches of sorted entries, shared backing arrays). After every step every vector created so
// far must still show the value it had when it was created, through every observer: the map, SortedEntries,
// String and its serialised form. Each step is also a model case on the operand's value.
type sessVec struct {
	v    cluster.VersionVector
	want vec    // value at creation
	how  string // how it was made (for the report)
}

func (h *H) fingerprintOK(sv sessVec) string {
	if !same(cluster.XVDump(sv.v), sv.want) {
		return "its map changed"
	}
	se := sv.v.SortedEntries()
	if len(se) != len(sv.want) {
		return fmt.Sprintf("SortedEntries has %d entries, the vector %d", len(se), len(sv.want))
	}
	for i, e := range se {
		if c, ok := sv.want[e.Node]; !ok || c != e.Count {
			return fmt.Sprintf("SortedEntries lists %s:%d, which is not an entry of the vector", e.Node, e.Count)
		}
		if i > 0 && !(se[i-1].Node < e.Node) {
			return "SortedEntries is not sorted"
		}
	}
	if wf(sv.want) {
		w := messages.NewWriter()
		if err := cluster.WriteVersionVector(w, sv.v); err != nil {
			return "it can no longer be written: " + err.Error()
		}
		out, err := cluster.ReadVersionVector(messages.NewReader(append([]byte(nil), w.Bytes()...)))
		if err != nil {
			return "its serialised form can no longer be read: " + err.Error()
		}
		if !same(cluster.XVDump(out), sv.want) {
			return "its serialised form decodes to a different vector"
		}
		if out.Compare(sv.v) != cluster.VersionEqual {
			return "Read(Write(v)) does not compare Equal to v"
		}
	}
	return ""
}

func (h *H) session(r *lib.Rand, steps int) {
	names := []string{"a", "b", "c", "m", "x", "y", "z", "zz", "zzz"}
	var pool []sessVec
	var trace []string
	add := func(v cluster.VersionVector, how string) {
		pool = append(pool, sessVec{v: v, want: cluster.XVDump(v), how: how})
		trace = append(trace, fmt.Sprintf("#%d=%s", len(pool)-1, how))
	}
	base := vec{}
	for i := 0; i < r.Intn(5); i++ {
		base[names[r.Intn(4)]] = uint64(1 + r.Intn(3))
	}
	add(cluster.XVNewVV(base), "new")
	for st := 0; st < steps; st++ {
		i := r.Intn(len(pool))
		if r.Bool() { // mostly keep working on recent vectors: chains and siblings rather than a bush
			i = len(pool) - 1 - r.Intn(min(3, len(pool)))
		}
		src := pool[i]
		ta := tvec(src.want)
		switch r.Intn(8) {
		case 7: // a fan: (optionally through the wire) one increment, then several sibling increments of its result,
			// every new name sorting after all present ones ('~' > letters)
			cur, ci := src, i
			if wf(cur.want) && r.Chance(2, 3) {
				w := messages.NewWriter()
				if err := cluster.WriteVersionVector(w, cur.v); err == nil {
					if out, err := cluster.ReadVersionVector(messages.NewReader(append([]byte(nil), w.Bytes()...))); err == nil {
						add(out, fmt.Sprintf("decode(#%d)", ci))
						cur, ci = pool[len(pool)-1], len(pool)-1
					}
				}
			}
			if out, err := cur.v.Increment("~a"); err == nil {
				h.o.Case("inc", true, lib.L(lib.N(2), tvec(cur.want), lib.S("~a")), lib.Ok(tvec(cluster.XVDump(out))))
				add(out, fmt.Sprintf("inc(#%d,~a)", ci))
				cur, ci = pool[len(pool)-1], len(pool)-1
			}
			for k := 0; k < 2+r.Intn(2); k++ {
				name := "~" + string(rune('b'+k))
				out, err := cur.v.Increment(name)
				if err != nil {
					continue
				}
				h.o.Case("inc", true, lib.L(lib.N(2), tvec(cur.want), lib.S(name)), lib.Ok(tvec(cluster.XVDump(out))))
				add(out, fmt.Sprintf("inc(#%d,%s)", ci, name))
			}
		case 0, 1: // increment, often with a name that sorts last
			k := names[r.Intn(len(names))]
			in := lib.L(lib.N(2), ta, lib.S(k))
			out, err := src.v.Increment(k)
			if err != nil {
				h.o.Case("inc-err", true, in, lib.Err(errCode(err)))
				continue
			}
			h.o.Case("inc", true, in, lib.Ok(tvec(cluster.XVDump(out))))
			add(out, fmt.Sprintf("inc(#%d,%s)", i, k))
		case 2: // merge with another member
			j := r.Intn(len(pool))
			in := lib.L(lib.N(1), ta, tvec(pool[j].want))
			m := src.v.Merge(pool[j].v)
			h.o.Case("merge", true, in, tvec(cluster.XVDump(m)))
			add(m, fmt.Sprintf("merge(#%d,#%d)", i, j))
		case 3:
			add(src.v.Clone(), fmt.Sprintf("clone(#%d)", i))
		case 4: // through the wire: decoded vectors may carry caches fresh ones do not
			if !wf(src.want) {
				continue
			}
			w := messages.NewWriter()
			if err := cluster.WriteVersionVector(w, src.v); err != nil {
				continue
			}
			bs := append([]byte(nil), w.Bytes()...)
			h.o.Case("write", true, lib.L(lib.N(5), ta), lib.Ok(lib.B(bs)))
			out, err := cluster.ReadVersionVector(messages.NewReader(bs))
			if err != nil {
				h.o.Monitor("roundtrip", lib.L(lib.N(6), lib.B(bs)), "Read(Write(v)) failed in a session: "+err.Error())
				continue
			}
			add(out, fmt.Sprintf("decode(#%d)", i))
		case 5:
			in := lib.L(lib.N(3), ta)
			out := src.v.Compact()
			h.o.Case("compact", true, in, tvec(cluster.XVDump(out)))
			add(out, fmt.Sprintf("compact(#%d)", i))
		case 6: // observers only (they may fill caches)
			_ = src.v.SortedEntries()
			_ = src.v.String()
			_ = src.v.Nodes()
			trace = append(trace, fmt.Sprintf("observe(#%d)", i))
		}
		for j, sv := range pool {
			if why := h.fingerprintOK(sv); why != "" {
				h.o.Monitor("operand-modified", lib.L(lib.N(99), lib.S(strings.Join(trace, " "))), fmt.Sprintf("vector #%d (%s) no longer shows the value it was created with: %s; history: %s", j, sv.how, why, strings.Join(trace, " ")))
				return
			}
		}
	}
}

func (h *H) read(bs []byte, orig vec, expectOrig bool) {
	in := lib.L(lib.N(6), lib.B(bs))
	h.guard("read", in, func() {
		rd := messages.NewReader(bs)
		out, err := cluster.ReadVersionVector(rd)
		if err != nil {
			h.o.Case("read-err", true, in, lib.Err(errCode(err)))
			if expectOrig && wf(orig) {
				h.o.Monitor("roundtrip", in, "Read(Write(v)) failed: "+err.Error())
			}
			return
		}
		d := cluster.XVDump(out)
		h.o.Case("read", len(d) > 0, in, lib.Ok(lib.L(tvec(d), lib.NI(rd.Pos()))))
		if expectOrig && (!same(d, orig) || rd.Pos() != len(bs)) {
			h.o.Monitor("roundtrip", in, "Read(Write(v)) != v or reader did not consume exactly the written bytes")
		}
	})
}

func wf(a vec) bool {
	if len(a) > 65535 {
		return false
	}
	for k, c := range a {
		if k == "" || len(k) > 256 || c > maxC {
			return false
		}
	}
	return true
}

func (h *H) triple(a, b, c vec) {
	va, vb, vc := cluster.XVNewVV(a), cluster.XVNewVV(b), cluster.XVNewVV(c)
	in := lib.L(tvec(a), tvec(b), tvec(c))
	h.guard("triple", in, func() {
		l := cluster.XVDump(va.Merge(vb).Merge(vc))
		r := cluster.XVDump(va.Merge(vb.Merge(vc)))
		if !same(l, r) {
			h.o.Monitor("merge-assoc", in, "Merge is not associative")
		}
		ab, bc, ac := va.Compare(vb), vb.Compare(vc), va.Compare(vc)
		if ab == cluster.VersionBefore && bc == cluster.VersionBefore && ac != cluster.VersionBefore {
			h.o.Monitor("transitive", in, "Before is not transitive")
		}
		if ab == cluster.VersionEqual && bc != ac {
			h.o.Monitor("equal-congruence", in, "Equal vectors compare differently to a third")
		}
		// least upper bound
		le := func(o cluster.VersionOrder) bool { return o == cluster.VersionBefore || o == cluster.VersionEqual }
		if le(ac) && le(bc) && !le(va.Merge(vb).Compare(vc)) {
			h.o.Monitor("merge-least", in, "Merge(a,b) is not below an upper bound of a and b")
		}
		h.o.Stats["triples"]++
	})
}

func small() []vec {
	var out []vec
	names := []string{"a", "b", "c"}
	for code := 0; code < 64; code++ {
		m := vec{}
		c := code
		for _, n := range names {
			switch c % 4 {
			case 1:
				m[n] = 0
			case 2:
				m[n] = 1
			case 3:
				m[n] = 2
			}
			c /= 4
		}
		out = append(out, m)
	}
	return out
}

func randName(r *lib.Rand) string {
	switch r.Intn(12) {
	case 0:
		return ""
	case 1:
		return string(r.Bytes(257 + r.Intn(3)))
	case 2:
		return string(r.Bytes(256))
	case 3:
		return string(r.Bytes(1 + r.Intn(255)))
	}
	pool := []string{"a", "b", "ab", "b\x00", "node-1:8080", "node-10:8080", "\xff", "z"}
	return pool[r.Intn(len(pool))]
}

func randCount(r *lib.Rand) uint64 {
	switch r.Intn(10) {
	case 0:
		return 0
	case 1:
		return maxC
	case 2:
		return maxC - 1
	case 3:
		return maxC + 1
	case 4:
		return ^uint64(0)
	case 5:
		return r.U64()
	}
	return uint64(r.Intn(4))
}

func randVec(r *lib.Rand, names []string) vec {
	m := vec{}
	for _, n := range names {
		if r.Chance(3, 5) {
			m[n] = randCount(r)
		}
	}
	return m
}

func main() {
	f := lib.ParseFlags()
	o := lib.NewOut(f.Out)
	h := &H{o}
	r := lib.NewRand(f.Seed)
	sm := small()
	names := []string{"a", "b", "c", "d", ""}
	// exhaustive small domain: all pairs against the model, all triples on the implementation
	for _, a := range sm {
		h.unary(a, r, names)
		for _, b := range sm {
			h.binary(a, b)
		}
	}
	tripleStride := 7
	if f.Tier == "thorough" {
		tripleStride = 1
	}
	k := int(f.Seed % 7)
	for _, a := range sm {
		for _, b := range sm {
			for _, c := range sm {
				k++
				if k%tripleStride == 0 {
					h.triple(a, b, c)
				}
			}
		}
	}
	o.Info["exhaustive_small_domain"] = "all 64 vectors over nodes {a,b,c} with entries {absent,0,1,2}: every unary op, every pair (compare, merge) against the model"
	o.Info["triple_stride"] = tripleStride
	n := 600
	if f.Tier == "thorough" {
		n = 20000
	}
	if f.N > 0 {
		n = f.N
	}
	for i := 0; i < n; i++ {
		nn := 1 + r.Intn(5)
		ns := make([]string, nn)
		for j := range ns {
			ns[j] = randName(r)
		}
		a, b, c := randVec(r, ns), randVec(r, ns), randVec(r, ns)
		h.unary(a, r, ns)
		h.binary(a, b)
		h.triple(a, b, c)
	}
	// big vectors: 3000 entries against the model (the extracted model is quadratic in the entry count), and the
	// entry cap itself (write must refuse > 65535 entries, 65535 entries round-trip) on the implementation only
	if f.Tier == "thorough" {
		mid := vec{}
		for i := 0; i < 3000; i++ {
			mid[fmt.Sprintf("n%05d", i)] = uint64(i)
		}
		h.unary(mid, r, []string{"n00000", "n02999", "zz"})
		big := vec{}
		for i := 0; i < 65536; i++ {
			big[fmt.Sprintf("n%05d", i)] = uint64(i)
		}
		h.capBoundary(big, true)
		delete(big, "n00000")
		h.capBoundary(big, false)
		o.Info["cap_boundary"] = "65536 entries refused, 65535 entries round-trip: implementation-side monitors only"
	}
	// histories over one family of vector objects (aliasing between a vector and its derivatives)
	ns := 150
	if f.Tier == "thorough" {
		ns = 5000
	}
	for i := 0; i < ns; i++ {
		h.session(r, 6+r.Intn(14))
	}
	o.Info["sessions"] = ns
	// raw garbage through the reader
	for i := 0; i < n/2; i++ {
		bs := r.Bytes(r.Intn(40))
		if r.Bool() && len(bs) >= 4 {
			bs[0], bs[1], bs[2] = 0, 0, 0
			bs[3] = byte(r.Intn(4))
		}
		h.read(bs, nil, false)
	}
	o.Close(f.Report)
	if len(o.Monitors) > 0 {
		os.Exit(3)
	}
}
