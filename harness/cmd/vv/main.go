// vv: correspondence cases and implementation-side monitors for C16 (cluster.VersionVector).
package main

import (
	"errors"
	"fmt"
	"io"
	"os"
	"sort"
	"strings"
	"sync"

	"github.com/kercylan98/vivid/internal/cluster"
	"github.com/kercylan98/vivid/internal/messages"
	"github.com/kercylan98/vivid/xverif/lib"
)

const maxC = uint64(1<<63 - 1)

type vec = map[string]uint64

func tvec(m vec) lib.T {
	keys := make([]string, 0, len(m))
	for k := range m {
		keys = append(keys, k)
	}
	sort.Strings(keys)
	xs := make([]lib.T, 0, len(keys))
	for _, k := range keys {
		xs = append(xs, lib.L(lib.S(k), lib.N(m[k])))
	}
	return lib.LS(xs)
}

func errCode(err error) uint64 {
	switch {
	case errors.Is(err, io.ErrUnexpectedEOF):
		return 1
	case errors.Is(err, cluster.ErrVersionOverflow), errors.Is(err, messages.ErrOverflow):
		return 2
	case errors.Is(err, cluster.ErrVectorTooLarge):
		return 3
	case errors.Is(err, cluster.ErrInvalidNodeAddress):
		return 4
	}
	return 99
}

func same(a, b vec) bool {
	if len(a) != len(b) {
		return false
	}
	for k, v := range a {
		if w, ok := b[k]; !ok || w != v {
			return false
		}
	}
	return true
}

type H struct {
	o *lib.Out
}

// guard runs f and reports a panic as a monitor hit
func (h *H) guard(name string, c lib.T, f func()) {
	defer func() {
		if r := recover(); r != nil {
			h.o.Monitor("panic:"+name, c, fmt.Sprint(r))
		}
	}()
	f()
}

func (h *H) binary(a, b vec) {
	va, vb := cluster.XVNewVV(a), cluster.XVNewVV(b)
	ta, tb := tvec(a), tvec(b)
	nt := len(a) > 0 && len(b) > 0
	in := lib.L(lib.N(0), ta, tb)
	h.guard("compare", in, func() {
		ord := va.Compare(vb)
		h.o.Case("compare", nt, in, lib.N(uint64(ord)))
		// monitors: converse
		conv := vb.Compare(va)
		want := map[cluster.VersionOrder]cluster.VersionOrder{cluster.VersionEqual: cluster.VersionEqual, cluster.VersionBefore: cluster.VersionAfter, cluster.VersionAfter: cluster.VersionBefore, cluster.VersionConcurrent: cluster.VersionConcurrent}[ord]
		if conv != want {
			h.o.Monitor("converse", in, fmt.Sprintf("Compare(a,b)=%d Compare(b,a)=%d", ord, conv))
		}
	})
	in = lib.L(lib.N(1), ta, tb)
	h.guard("merge", in, func() {
		m := va.Merge(vb)
		dm := cluster.XVDump(m)
		h.o.Case("merge", nt, in, tvec(dm))
		if !same(cluster.XVDump(va), a) || !same(cluster.XVDump(vb), b) {
			h.o.Monitor("operand-modified", in, "Merge changed an operand")
		}
		m2 := vb.Merge(va)
		if !same(cluster.XVDump(m2), dm) {
			h.o.Monitor("merge-comm", in, "Merge(a,b) != Merge(b,a)")
		}
		// upper bound
		if c := va.Compare(m); c != cluster.VersionBefore && c != cluster.VersionEqual {
			h.o.Monitor("merge-upper", in, fmt.Sprintf("Compare(a, Merge(a,b)) = %d", c))
		}
		if c := vb.Compare(m); c != cluster.VersionBefore && c != cluster.VersionEqual {
			h.o.Monitor("merge-upper", in, fmt.Sprintf("Compare(b, Merge(a,b)) = %d", c))
		}
	})
}

func (h *H) unary(a vec, r *lib.Rand, names []string) {
	va := cluster.XVNewVV(a)
	ta := tvec(a)
	nt := len(a) > 0
	// reflexive + idempotent
	h.guard("refl", ta, func() {
		if va.Compare(va) != cluster.VersionEqual {
			h.o.Monitor("reflexive", ta, "Compare(v,v) != Equal")
		}
		if !same(cluster.XVDump(va.Merge(va)), a) {
			h.o.Monitor("merge-idem", ta, "Merge(v,v) != v")
		}
	})
	// increment at every candidate name
	for _, k := range names {
		in := lib.L(lib.N(2), ta, lib.S(k))
		h.guard("inc", in, func() {
			out, err := va.Increment(k)
			if err != nil {
				h.o.Case("inc-err", true, in, lib.Err(errCode(err)))
				return
			}
			h.o.Case("inc", nt, in, lib.Ok(tvec(cluster.XVDump(out))))
			if !same(cluster.XVDump(va), a) {
				h.o.Monitor("operand-modified", in, "Increment changed its operand")
			}
			if out.Compare(va) != cluster.VersionAfter {
				h.o.Monitor("inc-after", in, "Increment result is not After its input")
			}
		})
		in = lib.L(lib.N(7), ta, lib.S(k))
		h.o.Case("get", nt, in, lib.N(va.Get(k)))
	}
	in := lib.L(lib.N(3), ta)
	h.guard("compact", in, func() {
		out := va.Compact()
		h.o.Case("compact", nt, in, tvec(cluster.XVDump(out)))
		if !same(cluster.XVDump(va), a) {
			h.o.Monitor("operand-modified", in, "Compact changed its operand")
		}
	})
	// prune
	var active []string
	for _, k := range names {
		if r.Chance(1, 2) {
			active = append(active, k)
			if r.Chance(1, 5) {
				active = append(active, k)
			}
		}
	}
	r2 := r.Fork()
	sort.Slice(active, func(i, j int) bool { return r2.Bool() })
	mx := []int{0, -1, 1, 2, 3, 100000}[r.Intn(6)]
	ts := make([]lib.T, len(active))
	for i, s := range active {
		ts[i] = lib.S(s)
	}
	in = lib.L(lib.N(4), ta, lib.LS(ts), lib.Z(int64(mx)))
	h.guard("prune", in, func() {
		act2 := append([]string(nil), active...)
		out := va.PruneWithMax(active, mx)
		h.o.Case("prune", nt && len(active) > 0, in, tvec(cluster.XVDump(out)))
		for i := range act2 {
			if act2[i] != active[i] {
				h.o.Monitor("operand-modified", in, "PruneWithMax reordered the caller's slice")
				break
			}
		}
		if !same(cluster.XVDump(va), a) {
			h.o.Monitor("operand-modified", in, "PruneWithMax changed its operand")
		}
	})
	// write, read back
	in = lib.L(lib.N(5), ta)
	h.guard("write", in, func() {
		w := messages.NewWriter()
		err := cluster.WriteVersionVector(w, va)
		if err != nil {
			h.o.Case("write-err", true, in, lib.Err(errCode(err)))
			return
		}
		bs := append([]byte(nil), w.Bytes()...)
		h.o.Case("write", nt, in, lib.Ok(lib.B(bs)))
		if !same(cluster.XVDump(va), a) {
			h.o.Monitor("operand-modified", in, "WriteVersionVector changed its operand")
		}
		h.read(bs, a, true)
		// truncations and corruptions of the valid encoding
		if len(bs) > 0 {
			h.read(bs[:r.Intn(len(bs))], nil, false)
			c := append([]byte(nil), bs...)
			c[r.Intn(len(c))] ^= byte(1 << r.Intn(8))
			h.read(c, nil, false)
			h.read(append(append([]byte(nil), bs...), r.Bytes(r.Intn(4))...), nil, false)
		}
	})
}

// capBoundary checks the writer's entry cap on the implementation (no model case: too large for the extracted model).
func (h *H) capBoundary(a vec, over bool) {
	in := lib.L(lib.N(5), lib.NI(len(a)))
	h.guard("cap", in, func() {
		va := cluster.XVNewVV(a)
		w := messages.NewWriter()
		err := cluster.WriteVersionVector(w, va)
		if over {
			if err == nil {
				h.o.Monitor("cap-not-enforced", in, "WriteVersionVector accepted a vector of more than 65535 entries")
			}
			return
		}
		if err != nil {
			h.o.Monitor("roundtrip", in, "WriteVersionVector refused a vector of 65535 entries: "+err.Error())
			return
		}
		bs := append([]byte(nil), w.Bytes()...)
		rd := messages.NewReader(bs)
		out, err := cluster.ReadVersionVector(rd)
		if err != nil {
			h.o.Monitor("roundtrip", in, "Read(Write(v)) failed for 65535 entries: "+err.Error())
			return
		}
		if !same(cluster.XVDump(out), a) || rd.Pos() != len(bs) {
			h.o.Monitor("roundtrip", in, "Read(Write(v)) != v for 65535 entries")
		}
	})
}

// session drives ONE family of vector objects through a history of operations (the per-operation cases above
// build fresh operands every time and cannot see aliasing between a vector and the vectors derived from it:
// shared maps, shared caches of sorted entries, shared backing arrays). After every step every vector created so
// far must still show the value it had when it was created, through every observer: the map, SortedEntries,
// String and its serialised form. Each step is also a model case on the operand's value.
type sessVec struct {
	v    cluster.VersionVector
	want vec    // value at creation
	how  string // how it was made (for the report)
}

func (h *H) fingerprintOK(sv sessVec) string {
	if !same(cluster.XVDump(sv.v), sv.want) {
		return "its map changed"
	}
	// the cheap observers
	if sv.v.Size() != len(sv.want) || sv.v.IsEmpty() != (len(sv.want) == 0) {
		return fmt.Sprintf("Size/IsEmpty say %d/%v, the vector has %d entries", sv.v.Size(), sv.v.IsEmpty(), len(sv.want))
	}
	for k, c := range sv.want {
		if sv.v.Get(k) != c || !sv.v.ContainsNode(k) {
			return fmt.Sprintf("Get(%q)=%d ContainsNode=%v, the vector holds %d", k, sv.v.Get(k), sv.v.ContainsNode(k), c)
		}
	}
	if len(sv.v.Nodes()) != len(sv.want) {
		return fmt.Sprintf("Nodes lists %d nodes, the vector has %d", len(sv.v.Nodes()), len(sv.want))
	}
	se := sv.v.SortedEntries()
	if len(se) != len(sv.want) {
		return fmt.Sprintf("SortedEntries has %d entries, the vector %d", len(se), len(sv.want))
	}
	for i, e := range se {
		if c, ok := sv.want[e.Node]; !ok || c != e.Count {
			return fmt.Sprintf("SortedEntries lists %s:%d, which is not an entry of the vector", e.Node, e.Count)
		}
		if i > 0 && !(se[i-1].Node < e.Node) {
			return "SortedEntries is not sorted"
		}
	}
	if wf(sv.want) {
		w := messages.NewWriter()
		if err := cluster.WriteVersionVector(w, sv.v); err != nil {
			return "it can no longer be written: " + err.Error()
		}
		out, err := cluster.ReadVersionVector(messages.NewReader(append([]byte(nil), w.Bytes()...)))
		if err != nil {
			return "its serialised form can no longer be read: " + err.Error()
		}
		if !same(cluster.XVDump(out), sv.want) {
			return "its serialised form decodes to a different vector"
		}
		if out.Compare(sv.v) != cluster.VersionEqual {
			return "Read(Write(v)) does not compare Equal to v"
		}
	}
	return ""
}

// hasCache: does VersionVector still have the sorted-entries cache (fields entries/dirty)? Looked up by reflection in
// the accessor; when the fields are gone the sessions run without cache observation and the model is told so.
var hasCache = func() bool { _, _, c, _, _ := cluster.XVIdent(cluster.NewVersionVector()); return c }()

// objTerm is what the heap-level model (coq/Cluster/VVHeap.v, t_obj in VVRun.v) shows of one vector object: its
// entries, the index of the FIRST object of the pool that uses the same map object (its own index when it shares
// with none; the empty list for a nil map) and, when the struct has the cache, whether the cache field is nil and
// whether the cache counts as valid (!dirty && entries != nil).
func objTerm(pool []sessVec, v cluster.VersionVector) lib.T {
	id, nilMap, _, entNil, valid := cluster.XVIdent(v)
	alias := lib.L()
	if !nilMap {
		for j, p := range pool {
			if pid, pnil, _, _, _ := cluster.XVIdent(p.v); !pnil && pid == id {
				alias = lib.L(lib.NI(j))
				break
			}
		}
	}
	if !hasCache {
		return lib.L(tvec(cluster.XVDump(v)), alias)
	}
	return lib.L(tvec(cluster.XVDump(v)), alias, lib.Bool(entNil), lib.Bool(valid))
}

func entriesTerm(es []cluster.NodeCount) lib.T {
	xs := make([]lib.T, 0, len(es))
	for _, e := range es {
		xs = append(xs, lib.L(lib.S(e.Node), lib.N(e.Count)))
	}
	return lib.LS(xs)
}

// session drives ONE family of vector objects through a history of operations and emits the WHOLE history as one
// case for the heap-level model (op 8): per step what the step showed (the new object with its aliasing class and
// flags, an error, an order, the sorted entries, the caller's slice after PruneWithMax) and at the end every object
// of the pool as it reads then. The monitor operand-modified is evaluated after every step on every object.
func (h *H) session(r *lib.Rand, steps int) {
	names := []string{"a", "b", "c", "m", "x", "y", "z", "zz", "zzz"}
	var pool []sessVec
	var trace []string
	var ops, obs []lib.T
	add := func(v cluster.VersionVector, how string) {
		pool = append(pool, sessVec{v: v, want: cluster.XVDump(v), how: how})
		trace = append(trace, fmt.Sprintf("#%d=%s", len(pool)-1, how))
	}
	newObs := func(v cluster.VersionVector) lib.T { return lib.L(lib.N(0), objTerm(pool, v)) }
	base := vec{}
	for i := 0; i < r.Intn(5); i++ {
		c := uint64(r.Intn(4)) // explicit zeros included: Compact then has something to drop
		if r.Chance(1, 12) {
			c = maxC - uint64(r.Intn(2)) // a counter at / next to the cap: Increment overflows inside the history
		}
		base[names[r.Intn(4)]] = c
	}
	add(cluster.XVNewVV(base), "new")
	// step functions: each performs the operation on the real code, records the op and what it showed
	inc := func(i int, k string) {
		ops = append(ops, lib.L(lib.N(0), lib.NI(i), lib.S(k)))
		out, err := pool[i].v.Increment(k)
		if err != nil {
			obs = append(obs, lib.Err(errCode(err)))
			trace = append(trace, fmt.Sprintf("inc(#%d,%q)=err", i, k))
			return
		}
		add(out, fmt.Sprintf("inc(#%d,%s)", i, k))
		obs = append(obs, newObs(out))
		if out.Compare(pool[i].v) != cluster.VersionAfter {
			h.o.Monitor("inc-after", lib.L(lib.N(99), lib.S(strings.Join(trace, " "))), "Increment result is not After its input; history: "+strings.Join(trace, " "))
		}
	}
	decode := func(i int) {
		ops = append(ops, lib.L(lib.N(3), lib.NI(i)))
		w := messages.NewWriter()
		if err := cluster.WriteVersionVector(w, pool[i].v); err != nil {
			obs = append(obs, lib.Err(errCode(err)))
			return
		}
		bs := append([]byte(nil), w.Bytes()...)
		out, err := cluster.ReadVersionVector(messages.NewReader(bs))
		if err != nil {
			obs = append(obs, lib.Err(errCode(err)))
			if wf(pool[i].want) {
				h.o.Monitor("roundtrip", lib.L(lib.N(6), lib.B(bs)), "Read(Write(v)) failed in a session: "+err.Error())
			}
			return
		}
		add(out, fmt.Sprintf("decode(#%d)", i))
		obs = append(obs, newObs(out))
	}
	for st := 0; st < steps; st++ {
		i := r.Intn(len(pool))
		if r.Bool() { // mostly keep working on recent vectors: chains and siblings rather than a bush
			i = len(pool) - 1 - r.Intn(min(3, len(pool)))
		}
		src := pool[i]
		switch r.Intn(11) {
		case 7: // a fan: (optionally through the wire) one increment, then several sibling increments of its result,
			// every new name sorting after all present ones ('~' > letters)
			ci := i
			if r.Chance(2, 3) {
				n0 := len(pool)
				decode(ci)
				if len(pool) > n0 {
					ci = len(pool) - 1
				}
			}
			n0 := len(pool)
			inc(ci, "~a")
			if len(pool) > n0 {
				ci = len(pool) - 1
			}
			for k := 0; k < 2+r.Intn(2); k++ {
				inc(ci, "~"+string(rune('b'+k)))
			}
		case 0, 1: // increment, often with a name that sorts last; now and then an invalid address
			k := names[r.Intn(len(names))]
			if r.Chance(1, 15) {
				k = ""
			}
			inc(i, k)
		case 2: // merge with another member (possibly itself)
			j := r.Intn(len(pool))
			ops = append(ops, lib.L(lib.N(1), lib.NI(i), lib.NI(j)))
			m := src.v.Merge(pool[j].v)
			add(m, fmt.Sprintf("merge(#%d,#%d)", i, j))
			obs = append(obs, newObs(m))
		case 3:
			ops = append(ops, lib.L(lib.N(2), lib.NI(i)))
			c := src.v.Clone()
			add(c, fmt.Sprintf("clone(#%d)", i))
			obs = append(obs, newObs(c))
		case 4: // through the wire: decoded vectors may carry caches fresh ones do not
			decode(i)
		case 5: // Compact returns its operand itself when there is nothing to drop: the alias shows in the observation
			ops = append(ops, lib.L(lib.N(4), lib.NI(i)))
			out := src.v.Compact()
			add(out, fmt.Sprintf("compact(#%d)", i))
			obs = append(obs, newObs(out))
		case 6: // observers only (they may fill caches)
			ops = append(ops, lib.L(lib.N(5), lib.NI(i)))
			se := src.v.SortedEntries()
			_ = src.v.String()
			_ = src.v.Nodes()
			obs = append(obs, lib.L(lib.N(3), entriesTerm(se)))
			trace = append(trace, fmt.Sprintf("observe(#%d)", i))
		case 8, 9: // PruneWithMax with the caller's slice, often longer than the limit (the copy-then-sort path)
			var act []string
			for _, k := range names {
				if r.Chance(1, 2) {
					act = append(act, k)
					if r.Chance(1, 6) {
						act = append(act, k)
					}
				}
			}
			r2 := r.Fork()
			sort.Slice(act, func(a, b int) bool { return r2.Bool() })
			mx := []int{0, -1, 1, 2, 3, 100000}[r.Intn(6)]
			ts := make([]lib.T, len(act))
			for q, s := range act {
				ts[q] = lib.S(s)
			}
			ops = append(ops, lib.L(lib.N(6), lib.NI(i), lib.LS(ts), lib.Z(int64(mx))))
			before := append([]string(nil), act...)
			out := src.v.PruneWithMax(act, mx)
			add(out, fmt.Sprintf("prune(#%d,%v,%d)", i, before, mx))
			after := make([]lib.T, len(act))
			for q, s := range act {
				after[q] = lib.S(s)
			}
			obs = append(obs, lib.L(lib.N(4), objTerm(pool, out), lib.LS(after)))
			for q := range before {
				if before[q] != act[q] {
					h.o.Monitor("operand-modified", lib.L(lib.N(99), lib.S(strings.Join(trace, " "))), "PruneWithMax reordered the caller's slice; history: "+strings.Join(trace, " "))
					break
				}
			}
		case 10: // Compare two members
			j := r.Intn(len(pool))
			ops = append(ops, lib.L(lib.N(7), lib.NI(i), lib.NI(j)))
			obs = append(obs, lib.L(lib.N(2), lib.N(uint64(src.v.Compare(pool[j].v)))))
			trace = append(trace, fmt.Sprintf("compare(#%d,#%d)", i, j))
		}
		for j, sv := range pool {
			if why := h.fingerprintOK(sv); why != "" {
				h.o.Monitor("operand-modified", lib.L(lib.N(99), lib.S(strings.Join(trace, " "))), fmt.Sprintf("vector #%d (%s) no longer shows the value it was created with: %s; history: %s", j, sv.how, why, strings.Join(trace, " ")))
				return
			}
		}
	}
	final := make([]lib.T, len(pool))
	for j, sv := range pool {
		final[j] = objTerm(pool, sv.v)
	}
	h.o.Case("session", true, lib.L(lib.N(8), lib.Bool(hasCache), tvec(base), lib.LS(ops)), lib.L(lib.LS(obs), lib.LS(final)))
	h.o.Stats["session-steps"] += len(ops)
}

// atomicScript drives one AtomicVersionVector SEQUENTIALLY through a script (model: op 9 of run_vv, heap model of the
// pointer-based wrapper). Every call runs under recover (a panic is a monitor hit panic:atomic-*). Vectors handed to
// Store and obtained from Load are kept and must never change afterwards (operand-modified).
func (h *H) atomicScript(r *lib.Rand, steps int) {
	names := []string{"a", "b", "c", ""}
	small := func() vec {
		m := vec{}
		for i := 0; i < r.Intn(4); i++ {
			c := uint64(r.Intn(3))
			if r.Chance(1, 10) {
				c = maxC - uint64(r.Intn(2))
			}
			m[names[r.Intn(3)]] = c
		}
		return m
	}
	nilInit := r.Chance(1, 6)
	init := small()
	var initV cluster.VersionVector
	if nilInit {
		initV = cluster.XVNilVV()
		init = vec{}
	} else {
		initV = cluster.XVNewVV(init)
	}
	avv := cluster.NewAtomicVersionVector(initV)
	var held []sessVec
	hold := func(v cluster.VersionVector, how string) {
		held = append(held, sessVec{v: v, want: cluster.XVDump(v), how: how})
	}
	if !nilInit {
		hold(initV, "initial")
	}
	cur := func() lib.T { return tvec(cluster.XVDump(avv.Load())) }
	var ops []lib.T
	obs := []lib.T{cur()}
	var trace []string
	in := func() lib.T { return lib.L(lib.N(9), lib.Bool(nilInit), tvec(init), lib.LS(ops)) }
	guarded := func(what string, f func() lib.T) (res lib.T) {
		defer func() {
			if rec := recover(); rec != nil {
				res = lib.L(lib.N(1))
				h.o.Monitor("panic:atomic-"+what, in(), fmt.Sprintf("AtomicVersionVector.%s panicked: %v; script: %s", what, rec, strings.Join(trace, " ")))
			}
		}()
		return lib.L(lib.N(0), f())
	}
	for st := 0; st < steps; st++ {
		var res lib.T
		switch r.Intn(8) {
		case 0:
			ops = append(ops, lib.L(lib.N(0)))
			trace = append(trace, "load")
			res = lib.L(lib.N(0))
			guarded("load", func() lib.T { hold(avv.Load(), fmt.Sprintf("load@%d", st)); return lib.N(0) })
		case 1:
			m := small()
			ops = append(ops, lib.L(lib.N(1), tvec(m)))
			trace = append(trace, fmt.Sprintf("store(%v)", m))
			v := cluster.XVNewVV(m)
			hold(v, fmt.Sprintf("stored@%d", st))
			res = lib.L(lib.N(0))
			guarded("store", func() lib.T { avv.Store(v); return lib.N(0) })
		case 2: // CompareAndSwap with an arbitrary old (Equal now and then: explicit zeros count as absent)
			o, n := small(), small()
			ops = append(ops, lib.L(lib.N(2), tvec(o), tvec(n)))
			trace = append(trace, fmt.Sprintf("cas(%v,%v)", o, n))
			vo, vn := cluster.XVNewVV(o), cluster.XVNewVV(n)
			hold(vn, fmt.Sprintf("cas-new@%d", st))
			res = guarded("cas", func() lib.T { return lib.Bool(avv.CompareAndSwap(vo, vn)) })
		case 3: // old = the current value: must swap
			n := small()
			ops = append(ops, lib.L(lib.N(3), tvec(n)))
			trace = append(trace, fmt.Sprintf("cas(current,%v)", n))
			vn := cluster.XVNewVV(n)
			hold(vn, fmt.Sprintf("cas-new@%d", st))
			res = guarded("cas", func() lib.T {
				ok := avv.CompareAndSwap(avv.Load(), vn)
				if !ok {
					h.o.Monitor("atomic-cas-equal-refused", in(), "CompareAndSwap(Load(), new) returned false with no other writer; script: "+strings.Join(trace, " "))
				}
				return lib.Bool(ok)
			})
		case 4: // old = the vector the wrapper was created with: stale after any write that changed the value
			n := small()
			ops = append(ops, lib.L(lib.N(5), tvec(n)))
			trace = append(trace, fmt.Sprintf("cas(initial,%v)", n))
			vn := cluster.XVNewVV(n)
			hold(vn, fmt.Sprintf("cas-new@%d", st))
			res = guarded("cas", func() lib.T { return lib.Bool(avv.CompareAndSwap(initV, vn)) })
		default:
			k := names[r.Intn(len(names))]
			ops = append(ops, lib.L(lib.N(4), lib.S(k)))
			trace = append(trace, fmt.Sprintf("inc(%q)", k))
			before := avv.Load()
			res = guarded("increment", func() lib.T {
				out, err := avv.Increment(k)
				if err != nil {
					if avv.Load().Compare(before) != cluster.VersionEqual {
						h.o.Monitor("atomic-error-changed-cell", in(), "AtomicVersionVector.Increment returned an error and the stored vector changed; script: "+strings.Join(trace, " "))
					}
					return lib.Err(errCode(err))
				}
				hold(out, fmt.Sprintf("atomic-inc@%d", st))
				if out.Compare(before) != cluster.VersionAfter || out.Get(k) != before.Get(k)+1 {
					h.o.Monitor("inc-after", in(), "AtomicVersionVector.Increment returned a vector that is not the stored one plus one on the node; script: "+strings.Join(trace, " "))
				}
				if !same(cluster.XVDump(avv.Load()), cluster.XVDump(out)) {
					h.o.Monitor("atomic-inc-not-stored", in(), "after AtomicVersionVector.Increment the wrapper does not hold the returned vector; script: "+strings.Join(trace, " "))
				}
				return lib.Ok(tvec(cluster.XVDump(out)))
			})
		}
		obs = append(obs, lib.L(res, cur()))
		for j, sv := range held {
			if why := h.fingerprintOK(sv); why != "" {
				h.o.Monitor("operand-modified", in(), fmt.Sprintf("vector %d (%s) handed to / obtained from an AtomicVersionVector no longer shows the value it had: %s; script: %s", j, sv.how, why, strings.Join(trace, " ")))
				return
			}
		}
	}
	h.o.Case("atomic", true, in(), lib.LS(obs))
}

// atomicConcurrent: N goroutines, each running M Increment(node) calls on ONE AtomicVersionVector, really concurrently
// (uncontrolled schedule). No lost update: the final counter of every node = its initial counter + the number of
// successful calls on it (monitor atomic-lost-update); every returned vector carries a counter that grows strictly
// within one goroutine and is After what was loaded before; no call panics. The final vector and the per-node numbers
// of successes / errors do not depend on the schedule (theorem C16_atomic_no_lost_update) and are a model case (op 10).
func (h *H) atomicConcurrent(r *lib.Rand, nThreads, perThread int) {
	nodes := []string{"a", "b", "c", ""}
	init := vec{}
	for i := 0; i < r.Intn(3); i++ {
		c := uint64(r.Intn(5))
		if r.Chance(1, 6) {
			c = maxC - uint64(r.Intn(4)) // the cap is reached in the middle of the run: the remaining calls must fail
		}
		init[nodes[r.Intn(3)]] = c
	}
	avv := cluster.NewAtomicVersionVector(cluster.XVNewVV(init))
	type plan struct {
		node string
		todo int
	}
	plans := make([]plan, nThreads)
	ths := make([]lib.T, nThreads)
	for i := range plans {
		plans[i] = plan{nodes[r.Intn(len(nodes))], 1 + r.Intn(perThread)}
		if r.Chance(4, 5) {
			plans[i].node = nodes[r.Intn(2)] // mostly contend on two nodes
		}
		ths[i] = lib.L(lib.S(plans[i].node), lib.NI(plans[i].todo))
	}
	in := lib.L(lib.N(10), tvec(init), lib.LS(ths))
	type result struct {
		succ, errs int
		bad        string
	}
	res := make([]result, nThreads)
	var wg sync.WaitGroup
	start := make(chan struct{})
	for i := range plans {
		wg.Add(1)
		go func(i int) {
			defer wg.Done()
			defer func() {
				if rec := recover(); rec != nil {
					res[i].bad = fmt.Sprintf("panic: %v", rec)
				}
			}()
			<-start
			last := uint64(0)
			for c := 0; c < plans[i].todo; c++ {
				before := avv.Load()
				out, err := avv.Increment(plans[i].node)
				if err != nil {
					res[i].errs++
					continue
				}
				res[i].succ++
				g := out.Get(plans[i].node)
				if res[i].succ > 1 && g <= last {
					res[i].bad = fmt.Sprintf("two successive successful Increment(%q) of one goroutine returned counters %d then %d", plans[i].node, last, g)
				}
				last = g
				if o := out.Compare(before); o != cluster.VersionAfter {
					res[i].bad = fmt.Sprintf("Increment(%q) returned a vector that is not After the vector loaded just before the call (order %d)", plans[i].node, o)
				}
			}
		}(i)
	}
	close(start)
	wg.Wait()
	final := cluster.XVDump(avv.Load())
	succ, errs := map[string]int{}, map[string]int{}
	for i, p := range plans {
		succ[p.node] += res[i].succ
		errs[p.node] += res[i].errs
		if res[i].bad != "" {
			name := "inc-after"
			if strings.HasPrefix(res[i].bad, "panic") {
				name = "panic:atomic-increment"
			}
			h.o.Monitor(name, in, "concurrent AtomicVersionVector.Increment: "+res[i].bad)
		}
	}
	keys := make([]string, 0, len(succ))
	for k := range succ {
		keys = append(keys, k)
	}
	sort.Strings(keys)
	per := make([]lib.T, 0, len(keys))
	for _, k := range keys {
		per = append(per, lib.L(lib.S(k), lib.NI(succ[k]), lib.NI(errs[k])))
		if final[k] != init[k]+uint64(succ[k]) {
			h.o.Monitor("atomic-lost-update", in, fmt.Sprintf("node %q: initial counter %d, %d successful Increment calls, final counter %d", k, init[k], succ[k], final[k]))
		}
	}
	for k, c := range final {
		if _, touched := succ[k]; !touched && c != init[k] {
			h.o.Monitor("atomic-lost-update", in, fmt.Sprintf("node %q was not incremented by anybody and went from %d to %d", k, init[k], c))
		}
	}
	h.o.Case("atomic-concurrent", true, in, lib.L(tvec(final), lib.LS(per)))
	h.o.Stats["atomic-concurrent-calls"] += func() int {
		n := 0
		for _, p := range plans {
			n += p.todo
		}
		return n
	}()
}

// boundaries: the caps on BOTH sides. (1) counters around 2^63-1: whatever Increment produces must survive
// Write/Read, and the reader's verdict on a one-entry encoding is compared with the model for every boundary
// counter; (2) the entry cap: 65534 / 65535 entries round-trip, the writer refuses 65536, the reader refuses a
// header announcing 65536 (model cases on headers only: the extracted model is quadratic in the entry count).
func (h *H) boundaries() {
	for _, k := range []string{"n", string(make([]byte, 256)), "node-1:8080"} {
		for _, c := range []uint64{0, 1, maxC - 2, maxC - 1, maxC, maxC + 1, ^uint64(0) - 1, ^uint64(0)} {
			a := vec{k: c, "other": 7}
			va := cluster.XVNewVV(a)
			in := lib.L(lib.N(2), tvec(a), lib.S(k))
			h.guard("boundary-inc", in, func() {
				out, err := va.Increment(k)
				if err != nil {
					h.o.Case("inc-err", true, in, lib.Err(errCode(err)))
				} else {
					d := cluster.XVDump(out)
					h.o.Case("inc", true, in, lib.Ok(tvec(d)))
					if out.Compare(va) != cluster.VersionAfter {
						h.o.Monitor("inc-after", in, "Increment result is not After its input")
					}
					// the wire must accept every vector Increment can produce
					w := messages.NewWriter()
					if werr := cluster.WriteVersionVector(w, out); werr != nil {
						h.o.Monitor("inc-wire-boundary", in, "Increment produced a vector the writer refuses: "+werr.Error())
					} else {
						bs := append([]byte(nil), w.Bytes()...)
						back, rerr := cluster.ReadVersionVector(messages.NewReader(bs))
						if rerr != nil {
							h.o.Monitor("inc-wire-boundary", in, "Increment produced a vector the reader refuses: "+rerr.Error())
						} else if !same(cluster.XVDump(back), d) {
							h.o.Monitor("inc-wire-boundary", in, "Increment produced a vector that changes on the wire")
						}
					}
				}
			})
			// the reader alone, on the one-entry encoding of (k, c)
			w := messages.NewWriter()
			w.WriteUint32(1)
			w.WriteString(k)
			w.WriteUint64(c)
			h.read(append([]byte(nil), w.Bytes()...), nil, false)
			// and the writer alone
			h.guard("boundary-write", lib.L(lib.N(5), tvec(a)), func() {
				w := messages.NewWriter()
				if err := cluster.WriteVersionVector(w, va); err != nil {
					h.o.Case("write-err", true, lib.L(lib.N(5), tvec(a)), lib.Err(errCode(err)))
				} else {
					bs := append([]byte(nil), w.Bytes()...)
					h.o.Case("write", true, lib.L(lib.N(5), tvec(a)), lib.Ok(lib.B(bs)))
					h.read(bs, a, wf(a))
				}
			})
		}
	}
	// entry cap
	big := vec{}
	for i := 0; i < 65536; i++ {
		big[fmt.Sprintf("n%05d", i)] = uint64(i)
	}
	h.capBoundary(big, true)
	delete(big, "n00000")
	h.capBoundary(big, false)
	// Increment has no entry cap: a 65535-entry vector incremented at a new node has 65536 entries, which the
	// writer refuses (theorem C16_increment_beyond_entry_cap). Recorded, not judged: the cap is a documented limit.
	if out, err := cluster.XVNewVV(big).Increment("zz-new"); err == nil {
		werr := cluster.WriteVersionVector(messages.NewWriter(), out)
		h.o.Info["increment_beyond_entry_cap"] = fmt.Sprintf("Increment of a 65535-entry vector at a new node: %d entries, WriteVersionVector error: %v", out.Size(), werr)
		if werr == nil {
			h.o.Monitor("cap-not-enforced", lib.L(lib.N(5), lib.NI(out.Size())), "WriteVersionVector accepted a vector of more than 65535 entries")
		}
	}
	// Merge has no entry cap either (theorems C16_merge_lub / C16_merge_comm hold for all vectors): the join laws are
	// evaluated on the implementation with a 65535-entry operand and operands whose union exceeds the wire cap
	{
		a := cluster.XVNewVV(big) // 65535 entries here (n00000 removed above)
		for _, b := range []cluster.VersionVector{
			cluster.XVNewVV(vec{"zz-late-joiner": 7}),
			cluster.XVNewVV(vec{"n00001": 1 << 40, "zz-late-joiner": 1, "aa-early": 2}),
			cluster.XVNewVV(vec{"n00000": 3}),
		} {
			ab, ba := a.Merge(b), b.Merge(a)
			in := lib.L(lib.N(6), lib.NI(a.Size()), lib.NI(b.Size()))
			if !ab.Equal(ba) {
				h.o.Monitor("merge-comm", in, fmt.Sprintf("a.Merge(b) != b.Merge(a) for |a|=%d, |b|=%d (sizes %d / %d)", a.Size(), b.Size(), ab.Size(), ba.Size()))
			}
			for _, x := range []cluster.VersionVector{ab, ba} {
				if c := x.Compare(a); c != cluster.VersionEqual && c != cluster.VersionAfter {
					h.o.Monitor("merge-upper", in, fmt.Sprintf("merge of a (%d entries) and b (%d entries) is not >= a", a.Size(), b.Size()))
				}
				if c := x.Compare(b); c != cluster.VersionEqual && c != cluster.VersionAfter {
					h.o.Monitor("merge-upper", in, fmt.Sprintf("merge of a (%d entries) and b (%d entries) is not >= b: an entry of b is missing or lower", a.Size(), b.Size()))
				}
			}
		}
		h.o.Info["merge_at_entry_cap"] = "join laws (commutative, upper bound of both operands) evaluated on the implementation with a 65535-entry operand and unions of 65536 / 65537 entries"
	}
	delete(big, "n00001")
	h.capBoundary(big, false)
	// headers announcing n entries with no / one entry behind them
	for _, n := range []uint32{0, 1, 65534, 65535, 65536, 65537, 1 << 31, ^uint32(0)} {
		w := messages.NewWriter()
		w.WriteUint32(n)
		h.read(append([]byte(nil), w.Bytes()...), nil, false)
		w.WriteString("k")
		w.WriteUint64(5)
		h.read(append([]byte(nil), w.Bytes()...), nil, false)
	}
	h.o.Info["cap_boundary"] = "65536 entries refused by writer and reader, 65535 and 65534 entries round-trip (implementation-side monitors; headers against the model)"
}

func (h *H) read(bs []byte, orig vec, expectOrig bool) {
	in := lib.L(lib.N(6), lib.B(bs))
	h.guard("read", in, func() {
		rd := messages.NewReader(bs)
		out, err := cluster.ReadVersionVector(rd)
		if err != nil {
			h.o.Case("read-err", true, in, lib.Err(errCode(err)))
			if expectOrig && wf(orig) {
				h.o.Monitor("roundtrip", in, "Read(Write(v)) failed: "+err.Error())
			}
			return
		}
		d := cluster.XVDump(out)
		h.o.Case("read", len(d) > 0, in, lib.Ok(lib.L(tvec(d), lib.NI(rd.Pos()))))
		if expectOrig && (!same(d, orig) || rd.Pos() != len(bs)) {
			h.o.Monitor("roundtrip", in, "Read(Write(v)) != v or reader did not consume exactly the written bytes")
		}
	})
}

func wf(a vec) bool {
	if len(a) > 65535 {
		return false
	}
	for k, c := range a {
		if k == "" || len(k) > 256 || c > maxC {
			return false
		}
	}
	return true
}

func (h *H) triple(a, b, c vec) {
	va, vb, vc := cluster.XVNewVV(a), cluster.XVNewVV(b), cluster.XVNewVV(c)
	in := lib.L(tvec(a), tvec(b), tvec(c))
	h.guard("triple", in, func() {
		l := cluster.XVDump(va.Merge(vb).Merge(vc))
		r := cluster.XVDump(va.Merge(vb.Merge(vc)))
		if !same(l, r) {
			h.o.Monitor("merge-assoc", in, "Merge is not associative")
		}
		ab, bc, ac := va.Compare(vb), vb.Compare(vc), va.Compare(vc)
		if ab == cluster.VersionBefore && bc == cluster.VersionBefore && ac != cluster.VersionBefore {
			h.o.Monitor("transitive", in, "Before is not transitive")
		}
		if ab == cluster.VersionEqual && bc != ac {
			h.o.Monitor("equal-congruence", in, "Equal vectors compare differently to a third")
		}
		// least upper bound
		le := func(o cluster.VersionOrder) bool { return o == cluster.VersionBefore || o == cluster.VersionEqual }
		if le(ac) && le(bc) && !le(va.Merge(vb).Compare(vc)) {
			h.o.Monitor("merge-least", in, "Merge(a,b) is not below an upper bound of a and b")
		}
		h.o.Stats["triples"]++
	})
}

func small() []vec {
	var out []vec
	names := []string{"a", "b", "c"}
	for code := 0; code < 64; code++ {
		m := vec{}
		c := code
		for _, n := range names {
			switch c % 4 {
			case 1:
				m[n] = 0
			case 2:
				m[n] = 1
			case 3:
				m[n] = 2
			}
			c /= 4
		}
		out = append(out, m)
	}
	return out
}

func randName(r *lib.Rand) string {
	switch r.Intn(12) {
	case 0:
		return ""
	case 1:
		return string(r.Bytes(257 + r.Intn(3)))
	case 2:
		return string(r.Bytes(256))
	case 3:
		return string(r.Bytes(1 + r.Intn(255)))
	}
	pool := []string{"a", "b", "ab", "b\x00", "node-1:8080", "node-10:8080", "\xff", "z"}
	return pool[r.Intn(len(pool))]
}

func randCount(r *lib.Rand) uint64 {
	switch r.Intn(10) {
	case 0:
		return 0
	case 1:
		return maxC
	case 2:
		return maxC - 1
	case 3:
		return maxC + 1
	case 4:
		return ^uint64(0)
	case 5:
		return r.U64()
	}
	return uint64(r.Intn(4))
}

func randVec(r *lib.Rand, names []string) vec {
	m := vec{}
	for _, n := range names {
		if r.Chance(3, 5) {
			m[n] = randCount(r)
		}
	}
	return m
}

func main() {
	f := lib.ParseFlags()
	o := lib.NewOut(f.Out)
	h := &H{o: o}
	r := lib.NewRand(f.Seed)
	sm := small()
	names := []string{"a", "b", "c", "d", ""}
	// exhaustive small domain: all pairs against the model, all triples on the implementation
	for _, a := range sm {
		h.unary(a, r, names)
		for _, b := range sm {
			h.binary(a, b)
		}
	}
	tripleStride := 7
	if f.Tier == "thorough" {
		tripleStride = 1
	}
	k := int(f.Seed % 7)
	for _, a := range sm {
		for _, b := range sm {
			for _, c := range sm {
				k++
				if k%tripleStride == 0 {
					h.triple(a, b, c)
				}
			}
		}
	}
	o.Info["exhaustive_small_domain"] = "all 64 vectors over nodes {a,b,c} with entries {absent,0,1,2}: every unary op, every pair (compare, merge) against the model"
	o.Info["triple_stride"] = tripleStride
	n := 600
	if f.Tier == "thorough" {
		n = 20000
	}
	if f.N > 0 {
		n = f.N
	}
	for i := 0; i < n; i++ {
		nn := 1 + r.Intn(5)
		ns := make([]string, nn)
		for j := range ns {
			ns[j] = randName(r)
		}
		a, b, c := randVec(r, ns), randVec(r, ns), randVec(r, ns)
		h.unary(a, r, ns)
		h.binary(a, b)
		h.triple(a, b, c)
	}
	// big vectors: 3000 entries against the model (the extracted model is quadratic in the entry count), and the
	// entry cap itself (write must refuse > 65535 entries, 65535 entries round-trip) on the implementation only
	if f.Tier == "thorough" {
		mid := vec{}
		for i := 0; i < 3000; i++ {
			mid[fmt.Sprintf("n%05d", i)] = uint64(i)
		}
		h.unary(mid, r, []string{"n00000", "n02999", "zz"})
	}
	// the caps on both sides (counter 2^63-1, 65535 entries, 256-byte addresses)
	h.boundaries()
	// histories over one family of vector objects (aliasing between a vector and its derivatives)
	ns := 150
	if f.Tier == "thorough" {
		ns = 5000
	}
	for i := 0; i < ns; i++ {
		h.session(r, 6+r.Intn(14))
	}
	o.Info["sessions"] = ns
	if hasCache {
		o.Info["cache_observation"] = "on: fields entries/dirty present, every session object reports (entries == nil, !dirty && entries != nil)"
	} else {
		o.Info["cache_observation"] = "off: VersionVector has no entries/dirty fields in this tree; aliasing classes and values are still observed"
	}
	// AtomicVersionVector scripts
	na := 120
	if f.Tier == "thorough" {
		na = 3000
	}
	for i := 0; i < na; i++ {
		h.atomicScript(r, 3+r.Intn(8))
	}
	o.Info["atomic_scripts"] = na
	// ... and concurrently: N goroutines x up to M Increment calls each
	nc := 40
	if f.Tier == "thorough" {
		nc = 600
	}
	for i := 0; i < nc; i++ {
		h.atomicConcurrent(r, 2+r.Intn(7), 4+r.Intn(40))
	}
	// a few long runs: enough calls per goroutine for the loops to really overlap
	nh := 3
	if f.Tier == "thorough" {
		nh = 20
	}
	for i := 0; i < nh; i++ {
		h.atomicConcurrent(r, 8, 400)
	}
	o.Info["atomic_concurrent_runs"] = fmt.Sprintf("%d short (2-8 goroutines x up to 43 calls) + %d long (8 goroutines x up to 400 calls)", nc, nh)
	// raw garbage through the reader
	for i := 0; i < n/2; i++ {
		bs := r.Bytes(r.Intn(40))
		if r.Bool() && len(bs) >= 4 {
			bs[0], bs[1], bs[2] = 0, 0, 0
			bs[3] = byte(r.Intn(4))
		}
		h.read(bs, nil, false)
	}
	o.Close(f.Report)
	if len(o.Monitors) > 0 {
		os.Exit(3)
	}
}
