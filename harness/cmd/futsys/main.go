// futsys: lock-step traces of MANY concurrent real Asks sharing the future tables of one System, for C04.
// The real (*Context).ask, the real future.Future and the real table functions of internal/actor/system.go
// (appendFuture, removeFuture, removeFuturesByAgentPath, findMailbox) - all three files instrumented from the tree
// under test with profile "futsys": every sync.Map operation, every futureLock section, the CAS / Load of closed, the
// result assignment, close(done), NewFuture, <-done are scheduling points - are driven by the controlled scheduler.
// Threads run scripts: Asks of several askers (several Asks per asker path = several Asks of one actor, of the root
// context, or of successive incarnations of a re-used name), repliers, Close / Result / Wait callers and kill
// clean-ups (removeFuturesByAgentPath) that may be followed by further Asks of the same path on the same goroutine
// (an Ask issued by the OnKill / OnKilled handler, which doKill runs after the clean-up) and by the second clean-up that
// the kill chain runs after the incarnation's last handler.
// One case = one complete schedule; every step's label and projected state (tables and every visible future) is
// compared with Future/SysModel.v. Monitors evaluate the property on what the real code did.
package main

import (
	"fmt"
	"os"
	"regexp"
	"sort"
	"strconv"
	"strings"
	"time"

	"github.com/kercylan98/vivid"
	"github.com/kercylan98/vivid/internal/actor"
	"github.com/kercylan98/vivid/internal/future"
	"github.com/kercylan98/vivid/pkg/ves"
	"github.com/kercylan98/vivid/xverif/lib"
	"github.com/kercylan98/vivid/xverif/vsched"
)

const (
	kAsk   = 0
	kReply = 1
	kClose = 2
	kWait  = 3
	kDeath = 4
	kSync  = 5 // wait until ask h has returned (program order between goroutines), nothing else
)

type value struct {
	kind int // 0 message, 1 error, 2 nil
	n    uint64
}

func (v value) goValue() any {
	switch v.kind {
	case 0:
		return v.n
	case 1:
		return codeErr{v.n}
	}
	return nil
}

func (v value) term() lib.T {
	switch v.kind {
	case 0:
		return lib.L(lib.N(0), lib.N(v.n))
	case 1:
		return lib.L(lib.N(1), lib.N(v.n))
	}
	return lib.L(lib.N(2))
}

type op struct {
	kind int
	a    uint64 // ask / death: asker path id
	tmo  uint64 // ask: 0 = no timer
	h    int    // reply / close / wait: the ask (handle = index among the asks of the configuration) it refers to
	val  value
	errc uint64
	full bool
}

type config struct {
	scripts [][]op
}

func (c config) asks() int {
	n := 0
	for _, sc := range c.scripts {
		for _, o := range sc {
			if o.kind == kAsk {
				n++
			}
		}
	}
	return n
}

type codeErr struct{ n uint64 }

func (e codeErr) Error() string { return fmt.Sprintf("E%d", e.n) }

func errCode(e error) (bool, uint64) {
	if e == nil {
		return false, 0
	}
	if c, ok := e.(codeErr); ok {
		return true, c.n
	}
	switch e {
	case error(vivid.ErrorFutureTimeout):
		return true, 1
	case error(vivid.ErrorActorDeaded):
		return true, 2
	}
	return true, 999
}

func msgCode(m vivid.Message) (bool, uint64) {
	if m == nil {
		return false, 0
	}
	if u, ok := m.(uint64); ok {
		return true, u
	}
	return true, 998
}

type res struct {
	hasMsg bool
	msg    uint64
	hasErr bool
	err    uint64
}

func (r res) String() string {
	m, e := "nil", "nil"
	if r.hasMsg {
		m = fmt.Sprint(r.msg)
	}
	if r.hasErr {
		e = fmt.Sprintf("E%d", r.err)
	}
	return "(" + m + "," + e + ")"
}
func mkRes(m vivid.Message, e error) res {
	var r res
	r.hasMsg, r.msg = msgCode(m)
	r.hasErr, r.err = errCode(e)
	return r
}

type sink struct{ on func(vivid.Envelop) }

func (s *sink) Enqueue(e vivid.Envelop) { s.on(e) }
func (s *sink) Pause()                  {}
func (s *sink) Resume()                 {}
func (s *sink) IsPaused() bool          { return false }

type fstate struct {
	closed, done bool
	r            res
}

// raw snapshot taken after every step, resolved to model terms after the run
type raw struct {
	ctx    map[string]*future.Future[vivid.Message]
	agents map[string][]string
	st     map[*future.Future[vivid.Message]]fstate
	nrets  int
}

type retRec struct {
	tid  int
	h    int
	full bool
	r    res
}

type world struct {
	cfg       config
	sys       *actor.System
	askers    map[uint64]*actor.Context
	replier   *actor.Context
	recipient *actor.Ref
	request   []vivid.Envelop
	fut       []*future.Future[vivid.Message]
	futPath   []string
	askDone   []chan struct{}
	retStep   []int // trace index of the step in which ask h returned (-1: not returned)
	rets      []retRec
	deadRoot  []string
	panicked  string
	sched     *vsched.Sched
}

func askerPath(a uint64) string { return fmt.Sprintf("/a%d", a) }

func newWorld(cfg config) *world {
	n := cfg.asks()
	w := &world{cfg: cfg, askers: map[uint64]*actor.Context{}, request: make([]vivid.Envelop, n),
		fut: make([]*future.Future[vivid.Message], n), futPath: make([]string, n), askDone: make([]chan struct{}, n), retStep: make([]int, n)}
	for i := range w.askDone {
		w.askDone[i] = make(chan struct{})
		w.retStep[i] = -1
	}
	w.sys = actor.XVNewBareSystem(&sink{on: func(e vivid.Envelop) {
		if dl, ok := e.Message().(ves.DeathLetterEvent); ok {
			w.deadRoot = append(w.deadRoot, fmt.Sprintf("%v", dl.Envelope.Message()))
			return
		}
		w.deadRoot = append(w.deadRoot, fmt.Sprintf("!%v", e.Message()))
	}})
	for _, sc := range cfg.scripts {
		for _, o := range sc {
			if o.kind == kAsk || o.kind == kDeath {
				if _, ok := w.askers[o.a]; !ok {
					w.askers[o.a] = actor.XVNewBareContext(w.sys, askerPath(o.a), &sink{on: func(vivid.Envelop) {}})
				}
			}
		}
	}
	w.replier = actor.XVNewBareContext(w.sys, "/replier", &sink{on: func(vivid.Envelop) {}})
	w.recipient = actor.XVRef("/recipient", &sink{on: func(e vivid.Envelop) {
		h := e.Message().(int)
		w.request[h] = e
	}})
	return w
}

// handles of the asks of a configuration, in script order
func askHandles(cfg config) [][]int {
	out := make([][]int, len(cfg.scripts))
	n := 0
	for i, sc := range cfg.scripts {
		out[i] = make([]int, len(sc))
		for j, o := range sc {
			out[i][j] = -1
			if o.kind == kAsk {
				out[i][j] = n
				n++
			}
		}
	}
	return out
}

func (w *world) body(tid int, script []op, handles []int) func() {
	return func() {
		for j, o := range script {
			vsched.Yield("op")
			switch o.kind {
			case kAsk:
				h := handles[j]
				var d time.Duration
				if o.tmo > 0 {
					d = time.Duration(o.tmo) * time.Hour // virtual: the controller decides when it fires
				}
				f := actor.XVAsk(w.askers[o.a], w.recipient, h, d)
				if w.request[h] == nil {
					panic("ask returned without sending the request")
				}
				w.fut[h] = f
				w.futPath[h] = w.request[h].Sender().GetPath()
				w.retStep[h] = len(w.sched.Trace)
				close(w.askDone[h])
			case kReply:
				vsched.RecvClosed(w.askDone[o.h], "user:await")
				w.replier.Tell(w.request[o.h].Sender(), o.val.goValue()) // real Context.tell -> findMailbox -> Enqueue
			case kClose:
				vsched.RecvClosed(w.askDone[o.h], "user:await")
				w.fut[o.h].Close(codeErr{o.errc})
			case kWait:
				vsched.RecvClosed(w.askDone[o.h], "user:await")
				if o.full {
					m, e := w.fut[o.h].Result()
					w.rets = append(w.rets, retRec{tid, o.h, true, mkRes(m, e)})
				} else {
					e := w.fut[o.h].Wait()
					w.rets = append(w.rets, retRec{tid, o.h, false, mkRes(nil, e)})
				}
			case kDeath:
				actor.XVDeath(w.sys, askerPath(o.a))
			case kSync:
				vsched.RecvClosed(w.askDone[o.h], "user:await")
			}
		}
	}
}

func (w *world) snapshot() raw {
	ag, _ := actor.XVAgentsDump(w.sys)
	r := raw{ctx: actor.XVFutureDump(w.sys), agents: ag, st: map[*future.Future[vivid.Message]]fstate{}, nrets: len(w.rets)}
	read := func(f *future.Future[vivid.Message]) {
		if _, ok := r.st[f]; ok || f == nil {
			return
		}
		closed, e, m, _, done := future.XVState(f)
		r.st[f] = fstate{closed, done, mkRes(m, e)}
	}
	for _, f := range r.ctx {
		read(f)
	}
	for _, f := range w.fut {
		read(f)
	}
	return r
}

type result struct {
	trace    []vsched.Step
	choices  []vsched.Choice
	deadlock bool
	overrun  bool
	stuck    string
	w        *world
}

func execute(cfg config, choose func([]int, int) int) result {
	actor.XVRegistryBlocking = false // every goroutine is parked when the tables are read
	w := newWorld(cfg)
	s := vsched.New(choose)
	s.MaxSteps = 4000
	w.sched = s
	hs := askHandles(cfg)
	for i, sc := range cfg.scripts {
		body := w.body(i, sc, hs[i])
		guarded := func() {
			defer func() {
				if r := recover(); r != nil {
					w.panicked = fmt.Sprint(r)
				}
			}()
			body()
		}
		if got := s.Spawn("script", guarded); got != i {
			panic("tid mismatch")
		}
	}
	s.Snapshot = func() any { return w.snapshot() }
	s.Run()
	r := result{trace: s.Trace, choices: s.Choices, deadlock: s.Deadlock, overrun: s.Overrun, w: w}
	if s.Deadlock || s.Overrun {
		r.stuck = s.Stuck()
	}
	return r
}

// Operation classes (Future/SysRun.v sclass_code). A step is identified by WHAT it does, not by the function that
// contains it: the function prefix of the instrumenter's label is stripped and the operation (and the table / field it
// acts on, whatever the receiver variable is called) is classified. Every futureLock section is one class, every
// actorContexts.Load is one class; which section / which Load it is follows from the operation the thread is executing.
const (
	cStart     = 1
	cOp        = 2
	cAwait     = 3
	cNew       = 4
	cStore     = 5
	cRegLock   = 6 // a futureLock section: registration, de-registration, key copy of a kill clean-up
	cCheck     = 7
	cRemCtx    = 8
	cFire      = 10
	cCtxLoad   = 11 // actorContexts.Load: a reply's findMailbox, the clean-up's loop
	cCas       = 15
	cAssignErr = 16
	cAssignMsg = 17
	cCloseDone = 18
	cLockMu    = 19
	cRecv      = 20
)

var (
	reNew      = regexp.MustCompile(`NewFuture\[`)
	reCtxStore = regexp.MustCompile(`\.actorContexts\.Store$`)
	reCtxDel   = regexp.MustCompile(`\.actorContexts\.Delete$`)
	reCtxLoad  = regexp.MustCompile(`\.actorContexts\.Load$`)
	reRegLock  = regexp.MustCompile(`^Lock:\w+\.futureLock$`)
	reCas      = regexp.MustCompile(`\.closed\.CompareAndSwap$`)
	reLoad     = regexp.MustCompile(`\.closed\.Load$`)
	reAsgErr   = regexp.MustCompile(`^assign:\w+\.err$`)
	reAsgMsg   = regexp.MustCompile(`^assign:\w+\.message$`)
	reCloseCh  = regexp.MustCompile(`^close:\w+\.done$`)
	reLockMu   = regexp.MustCompile(`^Lock:\w+\.mu$`)
	reRecvDone = regexp.MustCompile(`^recv:\w+\.done$`)
)

func opOf(l string) string {
	if i := strings.Index(l, ":"); i >= 0 {
		return l[i+1:]
	}
	return l
}

func labelCode(l string) int {
	switch l { // scheduling points of the harness itself / of vsched
	case "start":
		return cStart
	case "op":
		return cOp
	case "user:await":
		return cAwait
	case "timer:fire":
		return cFire
	}
	op := opOf(l)
	switch {
	case reNew.MatchString(op):
		return cNew
	case reCtxStore.MatchString(op):
		return cStore
	case reRegLock.MatchString(op):
		return cRegLock
	case reLoad.MatchString(op):
		return cCheck
	case reCtxDel.MatchString(op):
		return cRemCtx
	case reCtxLoad.MatchString(op):
		return cCtxLoad
	case reCas.MatchString(op):
		return cCas
	case reAsgErr.MatchString(op):
		return cAssignErr
	case reAsgMsg.MatchString(op):
		return cAssignMsg
	case reCloseCh.MatchString(op):
		return cCloseDone
	case reLockMu.MatchString(op):
		return cLockMu
	case reRecvDone.MatchString(op):
		return cRecv
	}
	return 98
}

// stuckThreads parses vsched's description of the unfinished threads: thread id -> label it is parked at.
func stuckThreads(stuck string) map[int]string {
	out := map[int]string{}
	for _, m := range regexp.MustCompile(`\[thread (\d+) at "([^"]*)"\]`).FindAllStringSubmatch(stuck, -1) {
		id, _ := strconv.Atoi(m[1])
		out[id] = m[2]
	}
	return out
}

// analysis of one run: everything the model needs (model ids of the futures, iteration orders of the deaths) and
// everything the monitors need
type analysis struct {
	codes   []int            // label code per step
	created []int            // handle of the k-th created future
	kOf     []int            // model id of handle h (unrun asks: ids beyond the created ones)
	opAt    [][]int          // per script thread: trace index of the "op" step of each op (-1 not executed)
	orders  map[[2]int][]int // (thread, op index) of a death -> visiting order (model ids), completed
	routed  []routeRec
	casObj  map[int]int // trace index of a CAS step -> model id of the future it operated on (-1 unknown)
}

type routeRec struct {
	k   int
	val value
	hit bool
	at  int
}

func analyse(cfg config, r result) (*analysis, string) {
	w := r.w
	a := &analysis{orders: map[[2]int][]int{}, casObj: map[int]int{}}
	n := len(cfg.scripts)
	hs := askHandles(cfg)
	a.opAt = make([][]int, n)
	for i := range a.opAt {
		a.opAt[i] = make([]int, len(cfg.scripts[i]))
		for j := range a.opAt[i] {
			a.opAt[i][j] = -1
		}
	}
	cur := make([]int, n) // current op index per script thread (-1 before the first)
	for i := range cur {
		cur[i] = -1
	}
	a.kOf = make([]int, cfg.asks())
	for i := range a.kOf {
		a.kOf[i] = -1
	}
	for t, st := range r.trace {
		c := labelCode(st.Label)
		tid := st.Tid
		if tid < n {
			switch c {
			case cOp:
				cur[tid]++
				if cur[tid] < len(a.opAt[tid]) {
					a.opAt[tid][cur[tid]] = t
				}
			case cNew:
				h := hs[tid][cur[tid]]
				a.kOf[h] = len(a.created)
				a.created = append(a.created, h)
			}
		}
		a.codes = append(a.codes, c)
	}
	next := len(a.created)
	for h := range a.kOf {
		if a.kOf[h] < 0 {
			a.kOf[h] = next
			next++
		}
	}
	// every created future has returned unless the run was cut short
	ptrK := map[*future.Future[vivid.Message]]int{}
	pathK := map[string]int{}
	for k, h := range a.created {
		if w.fut[h] == nil {
			return a, fmt.Sprintf("ask %d created a future but never returned", h)
		}
		ptrK[w.fut[h]] = k
		pathK[w.futPath[h]] = k
	}
	snapBefore := func(t int) raw {
		if t == 0 {
			return raw{ctx: map[string]*future.Future[vivid.Message]{}, agents: map[string][]string{}}
		}
		return r.trace[t-1].Snap.(raw)
	}
	for t, st := range r.trace {
		if a.codes[t] == cCas {
			a.casObj[t] = -1
			if f, ok := st.Obj.(*future.Future[vivid.Message]); ok {
				if k, ok := ptrK[f]; ok {
					a.casObj[t] = k
				}
			}
		}
	}
	// routing log: the first Load of every reply
	cur = make([]int, n)
	for i := range cur {
		cur[i] = -1
	}
	for t, st := range r.trace {
		tid := st.Tid
		if tid >= n {
			continue
		}
		if a.codes[t] == cOp {
			cur[tid]++
		}
		if a.codes[t] == cCtxLoad && cur[tid] >= 0 && cfg.scripts[tid][cur[tid]].kind == kReply {
			o := cfg.scripts[tid][cur[tid]]
			k := a.kOf[o.h]
			_, hit := snapBefore(t).ctx[w.futPath[o.h]]
			a.routed = append(a.routed, routeRec{k, o.val, hit, t})
		}
	}
	// iteration order of every executed death
	removedAt := func(path string) int { // first step after which the path is absent from actorContexts for good
		last := -1
		for t := range r.trace {
			if _, ok := r.trace[t].Snap.(raw).ctx[path]; ok {
				last = t
			}
		}
		return last + 1
	}
	for tid := 0; tid < n; tid++ {
		for j, o := range cfg.scripts[tid] {
			if o.kind != kDeath || a.opAt[tid][j] < 0 {
				continue
			}
			end := len(r.trace)
			if j+1 < len(cfg.scripts[tid]) && a.opAt[tid][j+1] >= 0 {
				end = a.opAt[tid][j+1]
			}
			var mine []int
			for t := a.opAt[tid][j] + 1; t < end; t++ {
				if r.trace[t].Tid == tid {
					mine = append(mine, t)
				}
			}
			var order []int
			if len(mine) > 0 && a.codes[mine[0]] == cRegLock { // the first step of a kill clean-up copies the keys
				copied := map[int]bool{}
				for _, p := range snapBefore(mine[0]).agents[askerPath(o.a)] {
					if k, ok := pathK[p]; ok {
						copied[k] = true
					}
				}
				type seg struct {
					at  int
					hit int // model id, -1 = the Load found nothing
				}
				var segs []seg
				for x, t := range mine {
					if a.codes[t] == cCtxLoad {
						s := seg{t, -1}
						if x+1 < len(mine) && a.codes[mine[x+1]] == cCas {
							s.hit = a.casObj[mine[x+1]]
						}
						segs = append(segs, s)
					}
				}
				used := map[int]bool{}
				for _, s := range segs {
					if s.hit >= 0 {
						used[s.hit] = true
					}
				}
				for _, s := range segs {
					if s.hit >= 0 {
						order = append(order, s.hit)
						continue
					}
					best, bestAt := -1, 1<<30
					for k := range copied {
						if used[k] {
							continue
						}
						if ra := removedAt(w.futPath[a.created[k]]); ra <= s.at && (ra < bestAt || (ra == bestAt && k < best)) {
							best, bestAt = k, ra
						}
					}
					if best >= 0 {
						used[best] = true
						order = append(order, best)
					}
				}
				var restK []int
				for k := range copied {
					if !used[k] {
						restK = append(restK, k)
					}
				}
				sort.Ints(restK)
				order = append(order, restK...)
			}
			in := map[int]bool{}
			for _, k := range order {
				in[k] = true
			}
			for k := 0; k < len(a.kOf); k++ {
				if !in[k] {
					order = append(order, k)
				}
			}
			a.orders[[2]int{tid, j}] = order
		}
	}
	return a, ""
}

type H struct {
	o    *lib.Out
	seen map[string]bool
}

func (h *H) emit(cfg config, r result) {
	w := r.w
	a, bad := analyse(cfg, r)
	// ---- the model input: scripts with model ids, schedule ----
	scripts := make([]lib.T, len(cfg.scripts))
	for i, sc := range cfg.scripts {
		ops := make([]lib.T, len(sc))
		for j, o := range sc {
			switch o.kind {
			case kAsk:
				ops[j] = lib.L(lib.N(0), lib.N(o.a), lib.N(o.tmo))
			case kReply:
				ops[j] = lib.L(lib.N(1), lib.NI(a.kOf[o.h]), o.val.term())
			case kClose:
				ops[j] = lib.L(lib.N(2), lib.NI(a.kOf[o.h]), lib.N(o.errc))
			case kWait:
				ops[j] = lib.L(lib.N(3), lib.NI(a.kOf[o.h]), lib.Bool(o.full))
			case kSync:
				ops[j] = lib.L(lib.N(5), lib.NI(a.kOf[o.h]))
			case kDeath:
				ord := a.orders[[2]int{i, j}]
				if ord == nil {
					for k := 0; k < len(a.kOf); k++ {
						ord = append(ord, k)
					}
				}
				ts := make([]lib.T, len(ord))
				for x, k := range ord {
					ts[x] = lib.NI(k)
				}
				ops[j] = lib.L(lib.N(4), lib.N(o.a), lib.LS(ts))
			}
		}
		scripts[i] = lib.LS(ops)
	}
	sched := make([]lib.T, len(r.trace))
	for i, st := range r.trace {
		sched[i] = lib.NI(st.Tid)
	}
	in := lib.L(lib.LS(scripts), lib.LS(sched))
	key := lib.Show(in)
	if h.seen[key] {
		h.o.Stats["duplicate-schedules"]++
		return
	}
	h.seen[key] = true
	if w.panicked != "" {
		h.o.Monitor("sys-panic", in, "a goroutine using the futures panicked: "+w.panicked)
		return
	}
	if r.overrun {
		h.o.Monitor("sys-no-termination", in, "still taking steps after the bound: "+r.stuck)
		return
	}
	if bad != "" {
		h.o.Monitor("sys-harness", in, bad)
		return
	}
	// ---- the observed output ----
	nCreated := 0
	steps := make([]lib.T, len(r.trace))
	for t, st := range r.trace {
		if a.codes[t] == cNew {
			nCreated++
		}
		if a.codes[t] == 98 {
			h.o.Stats["unknown-label:"+st.Label]++
		}
		sn := st.Snap.(raw)
		inner := 0
		for _, l := range sn.agents {
			inner += len(l)
		}
		futs := make([]lib.T, nCreated)
		for k := 0; k < nCreated; k++ {
			hd := a.created[k]
			f := w.fut[hd]
			path := w.futPath[hd]
			_, inctx := sn.ctx[path]
			returned := w.retStep[hd] >= 0 && w.retStep[hd] <= t
			if !returned && !inctx {
				futs[k] = lib.L(lib.N(0))
				continue
			}
			fs, ok := sn.st[f]
			if !ok {
				// in actorContexts under its path but as a different object: cannot happen unless paths collide
				futs[k] = lib.L(lib.N(7))
				continue
			}
			inag := false
			for _, p := range sn.agents[askerPath(askerOf(cfg, hd))] {
				if p == path {
					inag = true
				}
			}
			futs[k] = lib.L(lib.N(1), lib.Bool(fs.closed), lib.Opt(fs.r.hasErr, lib.N(fs.r.err)), lib.Opt(fs.r.hasMsg, lib.N(fs.r.msg)),
				lib.Bool(fs.done), lib.Bool(inctx), lib.Bool(inag))
		}
		nrouted := 0
		for _, rr := range a.routed {
			if rr.at <= t {
				nrouted++
			}
		}
		steps[t] = lib.L(lib.NI(a.codes[t]), lib.NI(len(sn.agents)), lib.NI(inner), lib.NI(len(sn.ctx)), lib.NI(sn.nrets), lib.NI(nrouted), lib.LS(futs))
	}
	rets := make([]lib.T, len(w.rets))
	for i, t := range w.rets {
		rets[i] = lib.L(lib.NI(t.tid), lib.NI(a.kOf[t.h]), lib.Bool(t.full), lib.Opt(t.r.hasMsg, lib.N(t.r.msg)), lib.Opt(t.r.hasErr, lib.N(t.r.err)))
	}
	routed := make([]lib.T, len(a.routed))
	for i, t := range a.routed {
		routed[i] = lib.L(lib.NI(t.k), t.val.term(), lib.Bool(t.hit))
	}
	end := uint64(0)
	if r.deadlock {
		end = 1
	}
	out := lib.L(lib.LS(steps), lib.LS(rets), lib.LS(routed), lib.N(end))
	pre := 0
	for i := 1; i < len(r.trace); i++ {
		if r.trace[i].Tid != r.trace[i-1].Tid {
			pre++
		}
	}
	h.o.Case(fmt.Sprintf("scripts=%d,asks=%d", len(cfg.scripts), cfg.asks()), pre >= 2, in, out)
	h.o.Stats["steps"] += len(r.trace)
	h.monitors(cfg, r, a, in)
}

func askerOf(cfg config, h int) uint64 {
	n := 0
	for _, sc := range cfg.scripts {
		for _, o := range sc {
			if o.kind == kAsk {
				if n == h {
					return o.a
				}
				n++
			}
		}
	}
	panic("no such ask")
}

func tmoOf(cfg config, h int) uint64 {
	n := 0
	for _, sc := range cfg.scripts {
		for _, o := range sc {
			if o.kind == kAsk {
				if n == h {
					return o.tmo
				}
				n++
			}
		}
	}
	panic("no such ask")
}

// ---- monitors: the property evaluated on what the real code did ----
func (h *H) monitors(cfg config, r result, a *analysis, in lib.T) {
	w := r.w
	o := h.o
	nsc := len(cfg.scripts)
	last := raw{}
	if len(r.trace) > 0 {
		last = r.trace[len(r.trace)-1].Snap.(raw)
	}
	final := func(hd int) (fstate, bool) {
		f := w.fut[hd]
		if f == nil {
			return fstate{}, false
		}
		fs, ok := last.st[f]
		return fs, ok
	}
	// per future: which completions reached it
	type info struct {
		cas      int // CAS steps on it
		firstCas int // trace index of the first (winning) one
		replies  map[uint64]bool
	}
	inf := make([]info, len(a.created))
	for k := range inf {
		inf[k].firstCas = -1
		inf[k].replies = map[uint64]bool{}
	}
	for t := range r.trace {
		if a.codes[t] == cCas {
			if k := a.casObj[t]; k >= 0 {
				if inf[k].cas == 0 {
					inf[k].firstCas = t
				}
				inf[k].cas++
			}
		}
	}
	// 1. one-shot: the result is assigned at most once per future; after done it never changes
	for k, hd := range a.created {
		f := w.fut[hd]
		doneAt := -1
		var fin fstate
		if fs, ok := final(hd); ok {
			fin = fs
		}
		for t := range r.trace {
			fs, ok := r.trace[t].Snap.(raw).st[f]
			if !ok {
				continue
			}
			if fs.done && doneAt < 0 {
				doneAt = t
			}
			if doneAt >= 0 && (fs.r != fin.r || !fs.done) {
				o.Monitor("sys-result-changed-after-done", in, fmt.Sprintf("future %d: step %d shows %v done=%v after done was closed at step %d; final %v", k, t, fs.r, fs.done, doneAt, fin.r))
				break
			}
		}
	}
	assigns := map[int]int{}
	for t, st := range r.trace {
		if a.codes[t] == cAssignErr || a.codes[t] == cAssignMsg {
			if f, ok := st.Obj.(*future.Future[vivid.Message]); ok {
				for k, hd := range a.created {
					if w.fut[hd] == f {
						assigns[k]++
					}
				}
			}
		}
	}
	for k, c := range assigns {
		if c > 1 {
			o.Monitor("sys-completed-twice", in, fmt.Sprintf("future %d: %d assignments of err/message", k, c))
		}
	}
	// 2. Result / Wait return the final values of THEIR future
	for _, rt := range w.rets {
		fs, ok := final(rt.h)
		want := fs.r
		if !rt.full {
			want.hasMsg, want.msg = false, 0
		}
		if !ok || rt.r != want {
			o.Monitor("sys-waiter-wrong-result", in, fmt.Sprintf("thread %d: Result/Wait of future %d returned %v, the future's final result is %v", rt.tid, a.kOf[rt.h], rt.r, fs.r))
		}
	}
	// 3. own reply / own timeout / own death
	for t, st := range r.trace {
		if a.codes[t] != cCas || st.Tid >= nsc {
			continue
		}
		// which op is the thread executing?
		j := -1
		for x, at := range a.opAt[st.Tid] {
			if at >= 0 && at <= t {
				j = x
			}
		}
		if j < 0 {
			continue
		}
		op := cfg.scripts[st.Tid][j]
		k := a.casObj[t]
		switch op.kind {
		case kReply:
			if k != a.kOf[op.h] {
				o.Monitor("sys-reply-misrouted", in, fmt.Sprintf("step %d: the reply addressed to future %d was enqueued at future %d", t, a.kOf[op.h], k))
			}
		case kDeath:
			if k >= 0 && askerOf(cfg, a.created[k]) != op.a {
				o.Monitor("sys-death-wrong-asker", in, fmt.Sprintf("step %d: the death of asker %d closes future %d of asker %d", t, op.a, k, askerOf(cfg, a.created[k])))
			}
		}
	}
	for k, hd := range a.created {
		fs, ok := final(hd)
		if !ok || !fs.done {
			continue
		}
		if fs.r.hasMsg {
			mine := false
			for _, sc := range cfg.scripts {
				for _, op := range sc {
					if op.kind == kReply && op.h == hd && op.val.kind == 0 && op.val.n == fs.r.msg {
						mine = true
					}
				}
			}
			if !mine {
				o.Monitor("sys-reply-misrouted", in, fmt.Sprintf("future %d completed with message %d, which no reply addressed to it carries", k, fs.r.msg))
			}
		}
		if fs.r.hasErr && fs.r.err == 1 && tmoOf(cfg, hd) == 0 {
			o.Monitor("sys-timeout-without-timer", in, fmt.Sprintf("future %d has no timeout but completed with the timeout error", k))
		}
		if fs.r.hasErr && fs.r.err == 2 {
			died := false
			for tid, sc := range cfg.scripts {
				for j, op := range sc {
					if op.kind == kDeath && op.a == askerOf(cfg, hd) && a.opAt[tid][j] >= 0 {
						died = true
					}
				}
			}
			if !died {
				o.Monitor("sys-dead-without-death", in, fmt.Sprintf("future %d completed with actor-dead although no kill clean-up of its asker %d ran", k, askerOf(cfg, hd)))
			}
		}
	}
	// 4. completion: when nothing can move any more, a future that a reply / Close / timeout / death reached, or whose
	// Ask had returned when a kill clean-up of its asker copied the keys, is completed
	for k, hd := range a.created {
		fs, ok := final(hd)
		done := ok && fs.done
		if done {
			continue
		}
		if inf[k].cas > 0 || tmoOf(cfg, hd) > 0 {
			o.Monitor("sys-not-completed", in, fmt.Sprintf("future %d: a reply/Close/timeout/death reached it (or it has a timer) but it is not completed at the end", k))
			continue
		}
		for tid, sc := range cfg.scripts {
			for j, op := range sc {
				if op.kind != kDeath || op.a != askerOf(cfg, hd) || a.opAt[tid][j] < 0 {
					continue
				}
				// the Ask had returned before the kill clean-up of its asker even started (label-independent: the "op"
				// scheduling point in front of the clean-up belongs to the harness)
				if at := a.opAt[tid][j]; w.retStep[hd] >= 0 && w.retStep[hd] < at {
					o.Monitor("sys-death-missed", in, fmt.Sprintf("future %d: its Ask had returned (step %d) before the kill clean-up of its asker %d started (step %d), nothing else completed it, but it is not completed at the end: no actor-dead completion, Result/Wait block for ever", k, w.retStep[hd], op.a, at))
				}
			}
		}
	}
	// 5. blocking: only Result/Wait (or holders waiting for an Ask that was never issued) of never-completed futures
	if r.deadlock {
		for tid, lab := range stuckThreads(r.stuck) {
			op := opOf(lab)
			waiter := false
			if tid < nsc {
				j := -1
				for x, at := range a.opAt[tid] {
					if at >= 0 {
						j = x
					}
				}
				if j >= 0 {
					k := cfg.scripts[tid][j].kind
					waiter = lab == "user:await" && k != kAsk && k != kDeath || k == kWait && reRecvDone.MatchString(op)
				}
			}
			if !waiter {
				o.Monitor("sys-deadlock", in, r.stuck)
				break
			}
		}
		for _, rtid := range blockedWaiters(cfg, r, a) {
			hd := rtid[1]
			if fs, ok := final(hd); ok && (fs.done || fs.closed) {
				o.Monitor("sys-waiter-blocked-forever", in, fmt.Sprintf("thread %d is blocked in Result/Wait of future %d although it was completed", rtid[0], a.kOf[hd]))
			}
		}
	}
	// 6. no registration left for a completed future
	for k, hd := range a.created {
		fs, ok := final(hd)
		if !ok || !fs.done {
			continue
		}
		path := w.futPath[hd]
		_, inctx := last.ctx[path]
		inag := false
		for _, l := range last.agents {
			for _, p := range l {
				if p == path {
					inag = true
				}
			}
		}
		if inctx || inag {
			o.Monitor("sys-registration-left", in, fmt.Sprintf("future %d completed with %v but is still registered at the end (actorContexts=%v futureAgents=%v)", k, fs.r, inctx, inag))
		}
	}
	// 7. dead letters: a reply that found nothing registered goes to the dead letters, nowhere else
	misses := 0
	for _, rr := range a.routed {
		if !rr.hit {
			misses++
		}
	}
	if misses != len(w.deadRoot) {
		o.Monitor("sys-reply-misrouted", in, fmt.Sprintf("%d replies found their future unregistered but the root received %d dead letters %v", misses, len(w.deadRoot), w.deadRoot))
	}
}

// threads blocked in Result/Wait at the end: (thread, handle)
func blockedWaiters(cfg config, r result, a *analysis) [][2]int {
	var out [][2]int
	for tid, sc := range cfg.scripts {
		// the last executed op of the thread
		j := -1
		for x, at := range a.opAt[tid] {
			if at >= 0 {
				j = x
			}
		}
		if j < 0 || sc[j].kind != kWait {
			continue
		}
		// did it return?
		returned := false
		for _, rt := range r.w.rets {
			if rt.tid == tid && rt.h == sc[j].h {
				returned = true
			}
		}
		// blocked in <-done (not in user:await)?
		if lab, ok := stuckThreads(r.stuck)[tid]; ok && !returned && reRecvDone.MatchString(opOf(lab)) {
			out = append(out, [2]int{tid, sc[j].h})
		}
	}
	return out
}

func (h *H) explore(cfg config, bound, maxRuns int) int {
	return vsched.Explore(bound, maxRuns, func(choose func([]int, int) int) []vsched.Choice {
		r := execute(cfg, choose)
		h.emit(cfg, r)
		return r.choices
	})
}

// asker death with pending Asks racing completions (one asker path)
func racingCfg(r *lib.Rand) config {
	cfg := config{}
	nextVal := uint64(40)
	early := 1 + r.Intn(2)
	late := 1 + r.Intn(2)
	h := 0
	for i := 0; i < early; i++ {
		cfg.scripts = append(cfg.scripts, []op{{kind: kAsk, a: 1}})
		nextVal++
		if r.Bool() {
			cfg.scripts = append(cfg.scripts, []op{{kind: kReply, h: h, val: value{0, nextVal}}})
		} else {
			cfg.scripts = append(cfg.scripts, []op{{kind: kClose, h: h, errc: nextVal}})
		}
		h++
	}
	var killer []op
	for i := 0; i < late; i++ {
		t := uint64(0)
		if r.Chance(1, 4) {
			t = 2
		}
		cfg.scripts = append(cfg.scripts, []op{{kind: kAsk, a: 1, tmo: t}})
		killer = append(killer, op{kind: kSync, h: h})
		h++
	}
	for i := 0; i < early; i++ {
		killer = append(killer, op{kind: kSync, h: i})
	}
	killer = append(killer, op{kind: kDeath, a: 1})
	cfg.scripts = append(cfg.scripts, killer)
	return cfg
}

func randomCfg(r *lib.Rand) config {
	if r.Chance(1, 4) {
		return racingCfg(r)
	}
	cfg := config{}
	nAskers := 1 + r.Intn(2)
	nActors := 1 + r.Intn(3)
	nextVal := uint64(20)
	h := 0
	var handles []int
	// actor goroutines: Asks, possibly the kill clean-up, possibly more Asks afterwards
	for i := 0; i < nActors; i++ {
		a := uint64(1 + r.Intn(nAskers))
		var sc []op
		for j, n := 0, 1+r.Intn(2); j < n && h < 4; j++ {
			t := uint64(0)
			if r.Chance(1, 3) {
				t = uint64(1 + r.Intn(3))
			}
			sc = append(sc, op{kind: kAsk, a: a, tmo: t})
			handles = append(handles, h)
			if r.Chance(1, 4) {
				sc = append(sc, op{kind: kWait, h: h, full: r.Bool()})
			}
			h++
		}
		if r.Chance(1, 2) {
			// the kill chain: clean-up, possibly an Ask of a handler of the chain, the clean-up after the last handler
			sc = append(sc, op{kind: kDeath, a: a})
			if r.Chance(1, 2) && h < 4 {
				t := uint64(0)
				if r.Chance(1, 2) {
					t = uint64(1 + r.Intn(3))
				}
				sc = append(sc, op{kind: kAsk, a: a, tmo: t})
				handles = append(handles, h)
				h++
			}
			sc = append(sc, op{kind: kDeath, a: a})
		}
		cfg.scripts = append(cfg.scripts, sc)
	}
	if h == 0 {
		cfg.scripts[0] = append([]op{{kind: kAsk, a: 1}}, cfg.scripts[0]...)
		handles = append(handles, 0)
		h = 1
	}
	pick := func() int { return handles[r.Intn(len(handles))] }
	val := func() value {
		nextVal++
		switch k := r.Intn(10); {
		case k < 7:
			return value{0, nextVal}
		case k < 9:
			return value{1, nextVal}
		}
		return value{2, 0}
	}
	for i, n := 0, r.Intn(4); i < n; i++ {
		cfg.scripts = append(cfg.scripts, []op{{kind: kReply, h: pick(), val: val()}})
	}
	if r.Chance(1, 3) {
		nextVal++
		cfg.scripts = append(cfg.scripts, []op{{kind: kClose, h: pick(), errc: nextVal}})
	}
	for i, n := 0, r.Intn(2); i < n; i++ {
		cfg.scripts = append(cfg.scripts, []op{{kind: kWait, h: pick(), full: r.Bool()}})
	}
	// an independent kill clean-up (another goroutine: System.Ask vs Stop, or the next incarnation's death)
	if r.Chance(1, 3) {
		cfg.scripts = append(cfg.scripts, []op{{kind: kDeath, a: uint64(1 + r.Intn(nAskers))}})
	}
	return cfg
}

func main() {
	f := lib.ParseFlags()
	o := lib.NewOut(f.Out)
	h := &H{o: o, seen: map[string]bool{}}
	r := lib.NewRand(f.Seed)
	thorough := f.Tier == "thorough"
	ask := func(a, t uint64) op { return op{kind: kAsk, a: a, tmo: t} }
	reply := func(hd int, n uint64) op { return op{kind: kReply, h: hd, val: value{0, n}} }
	death := func(a uint64) op { return op{kind: kDeath, a: a} }
	wait := func(hd int) op { return op{kind: kWait, h: hd, full: true} }
	cl := func(hd int, e uint64) op { return op{kind: kClose, h: hd, errc: e} }
	sync := func(hd int) op { return op{kind: kSync, h: hd} }
	fixed := []config{
		// one Ask, the tables split: reply vs the two halves of appendFuture / removeFuture
		{[][]op{{ask(1, 0)}, {reply(0, 7)}}},
		{[][]op{{ask(1, 1)}, {reply(0, 7)}}},
		// two Asks of one actor, its death closes both (map order), a reply races
		{[][]op{{ask(1, 0), ask(1, 0), death(1)}, {reply(0, 7)}}},
		// System.Ask from two goroutines (same asker path) against the death of that path (Stop)
		{[][]op{{ask(1, 0)}, {ask(1, 0)}, {death(1)}}},
		// two askers: the death of one must not touch the other's future
		{[][]op{{ask(1, 0)}, {ask(2, 0)}, {death(1)}, {reply(1, 8)}}},
		// name reuse: incarnation 1 asks and dies, incarnation 2 (same path) asks; a late reply to incarnation 1
		{[][]op{{ask(1, 0), death(1)}, {ask(1, 0), wait(1)}, {reply(0, 7)}, {reply(1, 8)}}},
		// the kill chain of an incarnation: doKill's clean-up, an Ask issued by the OnKill / OnKilled handler (with and
		// without a timer), the clean-up after the last handler (/repo 3f0f6ad)
		{[][]op{{ask(1, 0), death(1), ask(1, 0), death(1)}, {reply(1, 9)}}},
		{[][]op{{death(1), ask(1, 2), death(1)}}},
		{[][]op{{death(1), ask(1, 0), death(1)}, {ask(1, 0), sync(0)}}},
		// timer vs death vs Close on two futures of one asker
		{[][]op{{ask(1, 1), ask(1, 0), death(1)}, {cl(1, 11)}}},
		// asker death with pending Asks racing completions: the only pending Ask of the asker completes (reply / Close)
		// while other goroutines Ask through the same asker context; then the asker is killed
		{[][]op{{ask(1, 0)}, {reply(0, 7)}, {ask(1, 0)}, {sync(0), sync(1), death(1)}}},
		{[][]op{{ask(1, 0)}, {cl(0, 12)}, {ask(1, 0)}, {ask(1, 0)}, {sync(0), sync(1), sync(2), death(1)}}},
	}
	bound, perCfg := 2, 60
	if thorough {
		bound, perCfg = 3, 12000
	}
	total := 0
	for _, c := range fixed {
		total += h.explore(c, bound, perCfg)
	}
	o.Info["dfs_configs"] = len(fixed)
	o.Info["dfs_preemption_bound"] = bound
	o.Info["dfs_runs"] = total
	n := 300
	if thorough {
		n = 50000
	}
	if f.N > 0 {
		n = f.N
	}
	for i := 0; i < n; i++ {
		cfg := randomCfg(r)
		rr := r.Fork()
		var ch func([]int, int) int
		if r.Bool() {
			ch = vsched.RandomChooser(rr.Intn)
		} else {
			ch = vsched.StickyChooser(rr.Intn, 2+r.Intn(5))
		}
		h.emit(cfg, execute(cfg, ch))
	}
	o.Info["random_runs"] = n
	o.Close(f.Report)
	if len(o.Monitors) > 0 {
		os.Exit(3)
	}
}
