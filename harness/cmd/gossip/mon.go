package main

// Property-level monitors of C18, evaluated on the REAL NodeActors at the end of the fault-free phase
// (and, for the failure detector and resurrection clauses, at the step where it happens: hist.go).
//
// Every hit carries a stable detail prefix naming the cause that the run's history establishes; a discrepancy the
// history cannot attribute to one of the recorded defects gets the prefix "unexplained" and is therefore never
// matched by known_findings.json.

import (
	"fmt"
	"sort"
	"strings"

	"github.com/kercylan98/vivid/internal/cluster"
)

type disc struct {
	monitor string
	cause   string
	text    string
}

type EndCfg struct {
	D       int64 // length of a round
	fdEvery int64 // failure-detection tick every fdEvery rounds
	tailAt  int64 // change events after this instant count as "still changing"
}

func projOf(es map[string]entry) string {
	ids := make([]string, 0, len(es))
	for id := range es {
		ids = append(ids, id)
	}
	sort.Strings(ids)
	var sb strings.Builder
	for _, id := range ids {
		fmt.Fprintf(&sb, "%s@%s(%d,%d) ", id, es[id].addr, es[id].gen, es[id].lc)
	}
	return sb.String()
}

func upSet(es map[string]entry) string {
	var as []string
	for _, e := range es {
		if e.status == cluster.MemberStatusUp && e.addr != "" {
			as = append(as, e.addr)
		}
	}
	sort.Strings(as)
	return strings.Join(as, ",")
}

func vvString(m map[string]uint64) string {
	ks := make([]string, 0, len(m))
	for k := range m {
		ks = append(ks, k)
	}
	sort.Strings(ks)
	var sb strings.Builder
	for _, k := range ks {
		fmt.Fprintf(&sb, "%s:%d ", k, m[k])
	}
	return sb.String()
}

// endState evaluates the clauses of C18 on the state reached after the fault-free phase.
func (h *History) endState(ec EndCfg) []disc {
	s := h.s
	var ds []disc
	addrs := make([]string, 0, len(s.nodes))
	for a := range s.nodes {
		addrs = append(addrs, a)
	}
	sort.Strings(addrs)
	views := map[string]map[string]entry{}
	for _, a := range addrs {
		views[a] = viewEntries(s.nodes[a])
	}
	add := func(mon, cause, text string) { ds = append(ds, disc{mon, cause, text}) }
	for _, xa := range addrs {
		x := s.nodes[xa]
		o := h.o[xa]
		es := views[xa]
		T := int64(x.cfg.FD)
		conf := int64(x.cfg.Confirm)
		if conf < 0 {
			conf = 0
		}
		// (1) every running node is a member
		for _, ya := range addrs {
			y := s.nodes[ya]
			if _, ok := es[y.cfg.ID]; ok {
				continue
			}
			mh := o.mem[y.cfg.ID]
			cause := "never-learned"
			if mh != nil && mh.removedBy == "fd" {
				cause = "removed-by-failure-detector"
			} else if mh != nil && mh.removedBy == "force" {
				cause = "removed-by-force-down"
			} else if mh != nil && mh.removedBy != "" {
				cause = "unexplained-removal"
			}
			extra := ""
			if mh != nil && mh.removedBy != "" {
				extra = fmt.Sprintf(" (removed at t=%d, subject running then: %v)", mh.removedAt, mh.removedLive)
			}
			add("running-node-missing", cause, fmt.Sprintf("the view of %s does not list the running node %s (%s)%s; view = %s", xa, y.cfg.ID, ya, extra, projOf(es)))
		}
		ids := make([]string, 0, len(es))
		for id := range es {
			ids = append(ids, id)
		}
		sort.Strings(ids)
		for _, id := range ids {
			e := es[id]
			y := h.runningID(id)
			mh := o.mem[id]
			if mh == nil {
				mh = &memHist{}
			}
			if y == nil {
				// (2) a stopped node must be absent
				d, known := h.dead[id]
				switch {
				case !known:
					add("dead-node-present", "unexplained-phantom", fmt.Sprintf("the view of %s lists %s (%s), which never ran", xa, id, e.addr))
				case mh.relearned && mh.relearnedDead:
					add("dead-node-present", "resurrected", fmt.Sprintf("%s lists the stopped node %s (%s, stopped at t=%d) again after having removed it at t=%d", xa, id, e.addr, d.at, mh.removedAt))
				case T <= 0 && d.left:
					add("dead-node-present", "left-fd-off", fmt.Sprintf("%s still lists %s (%s), which left the cluster gracefully at t=%d (failure detection is off, so only an announced leave could remove it; the leave is not announced: Leaving is set on the actor's own NodeState, not on the view's copy)", xa, id, e.addr, d.at))
				case T <= 0:
					// a crash with failure detection off cannot be detected by design (FailureDetectionTimeout <= 0 = "rely on explicit Leave"): not a hit
				case s.nodes[e.addr] != nil && s.nodes[e.addr].cfg.ID != id:
					add("dead-node-present", "predecessor-id-at-live-address", fmt.Sprintf("%s still lists %s (%s, stopped at t=%d) although the process at that address now runs under the NodeID %s: the gossip of the successor refreshes LastSeen of whichever member MemberByAddress finds first, and a node never times out a member carrying its own address", xa, id, e.addr, d.at, s.nodes[e.addr].cfg.ID))
				case s.now < d.at+T+conf+(2*ec.fdEvery+2)*ec.D:
					// not yet due
				case x.born > d.at:
					add("dead-node-present", "learned-after-death", fmt.Sprintf("%s (started at t=%d) lists %s (%s), stopped at t=%d", xa, x.born, id, e.addr, d.at))
				default:
					add("dead-node-present", "unexplained-never-removed", fmt.Sprintf("%s still lists %s (%s), stopped at t=%d, timeout %d+%d, %d failure-detection ticks so far, now t=%d", xa, id, e.addr, d.at, T, conf, o.fdTicks, s.now))
				}
				continue
			}
			// (3) the running incarnation, not its predecessor
			own := y.actor.XVSelf()
			switch {
			case e.gen < own.Generation || (e.gen == own.Generation && e.lc < own.LogicalClock):
				cause := "stale-incarnation"
				if vvString(cluster.XVDump(x.actor.XVView().VersionVector)) == vvString(cluster.XVDump(y.actor.XVView().VersionVector)) {
					cause = "stale-incarnation-equal-vectors"
				}
				add("old-incarnation-shadows", cause, fmt.Sprintf("%s holds %s at incarnation (%d,%d) but the running node is at (%d,%d)", xa, id, e.gen, e.lc, own.Generation, own.LogicalClock))
			case (e.gen > own.Generation || e.lc > own.LogicalClock) && e.ts != own.Timestamp && e.ts < y.born:
				// only a node itself raises its generation: an entry above the running process's own one, stamped before that
				// process started, is the record of a previous process
				add("old-incarnation-shadows", "predecessor-entry-with-higher-incarnation-number", fmt.Sprintf("%s holds %s at (%d,%d) (timestamp %d), an entry of a previous process, above the running node's own (%d,%d) (started at t=%d): the restarted node derived its generation from a seed that knew only an older incarnation, or none, so the dead process's entry wins every merge", xa, id, e.gen, e.lc, e.ts, own.Generation, own.LogicalClock, y.born))
			case e.gen > own.Generation || e.lc > own.LogicalClock:
				add("old-incarnation-shadows", "unexplained-future-incarnation", fmt.Sprintf("%s holds %s at (%d,%d), newer than the running node's own (%d,%d)", xa, id, e.gen, e.lc, own.Generation, own.LogicalClock))
			case y != x && e.ts != own.Timestamp:
				add("old-incarnation-shadows", "predecessor-entry-with-same-incarnation-number", fmt.Sprintf("%s holds the entry of a previous incarnation of %s (timestamp %d) under the same incarnation number (%d,%d) as the running one (timestamp %d): the restarted node re-derived a generation its predecessor already had, so IsNewerThan never replaces the old entry", xa, id, e.ts, e.gen, e.lc, own.Timestamp))
			}
			// (4) ... and as an Up member
			if e.status != cluster.MemberStatusUp {
				cause := "unexpected-status"
				if e.status == cluster.MemberStatusSuspect {
					switch {
					case mh.suspectHow == "fd" && mh.suspectFF:
						cause = "suspected-in-fault-free-phase"
					case mh.suspectHow == "fd":
						cause = "suspect-since-fault-phase"
					default:
						cause = "suspect-learned-from-peer"
					}
				}
				add("member-not-up", cause, fmt.Sprintf("%s holds the running node %s (%s) as %s since t=%d (set by: %s); a status change of an unchanged incarnation is never merged and is only cleared by a GossipMessage coming directly from that node", xa, id, e.addr, e.status.String(), mh.suspectAt, mh.suspectHow))
			}
		}
	}
	causes := map[string]bool{}
	for c := range h.causes {
		causes[c] = true
	}
	for _, d := range ds {
		causes[d.cause] = true
	}
	cl := make([]string, 0, len(causes))
	for c := range causes {
		cl = append(cl, c)
	}
	sort.Strings(cl)
	why := "unexplained"
	if len(cl) > 0 {
		why = "consequence-of:" + strings.Join(cl, ",") + ";"
	}
	// same membership everywhere
	for i := 1; i < len(addrs); i++ {
		if p0, pi := projOf(views[addrs[0]]), projOf(views[addrs[i]]); p0 != pi {
			add("views-differ", why, fmt.Sprintf("%s: %s| %s: %s", addrs[0], p0, addrs[i], pi))
			break
		}
	}
	// same leader, exactly one IAmLeader
	leaders := map[string]string{}
	iam := []string{}
	allSameUp := true
	for _, a := range addrs {
		leaders[a] = cluster.ComputeLeaderAddr(s.nodes[a].actor.XVView())
		if leaders[a] == a {
			iam = append(iam, a)
		}
		if upSet(views[a]) != upSet(views[addrs[0]]) {
			allSameUp = false
		}
	}
	lwhy := why
	if allSameUp && len(ds) == 0 {
		lwhy = "unexplained-same-up-sets"
	}
	for _, a := range addrs[1:] {
		if leaders[a] != leaders[addrs[0]] {
			add("leaders-differ", lwhy, fmt.Sprintf("%s computes leader %q, %s computes %q", addrs[0], leaders[addrs[0]], a, leaders[a]))
			break
		}
	}
	if len(addrs) > 0 && len(iam) != 1 {
		add("leader-count", lwhy, fmt.Sprintf("%d running nodes consider themselves leader: %v", len(iam), iam))
	}
	if len(addrs) > 0 && allSameUp && len(ds) == 0 {
		// converged: the leader is the smallest running address
		if l := leaders[addrs[0]]; l != addrs[0] {
			add("leader-not-smallest", "unexplained", fmt.Sprintf("all views agree on the Up set %s but the leader is %q", upSet(views[addrs[0]]), l))
		}
	}
	// no further change announcements
	n := 0
	first := ""
	for _, c := range h.changeEv {
		if c.at > ec.tailAt {
			if n == 0 {
				first = c.text
			}
			n++
		}
	}
	if n > 0 {
		add("still-changing", why, fmt.Sprintf("%d membership / view / leader change events were published in the last third of the fault-free phase (after t=%d), first: %s", n, ec.tailAt, first))
	}
	return ds
}
