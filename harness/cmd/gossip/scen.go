package main

// Scenario drivers: a fault phase (starts in any order, loss, partitions, crashes, restarts, leaves) followed by a
// fault-free phase of fair rounds (every timer fires, every packet is delivered, every Ask goes through), then the
// end-state monitors.  Also the canonical round driver shared with coq/Cluster/GossipProofs.v (auto_round), used to
// replay the kernel-checked witnesses of the refuted clauses on the real code.

import (
	"fmt"
	"sort"
	"strings"
	"time"

	"github.com/kercylan98/vivid/internal/cluster"
	"github.com/kercylan98/vivid/xverif/lib"
)

// pendingAccepts counts, over the run, the JoinRequests accepted by a node whose own join was still pending (class "pending")
var pendingAccepts int

type Scen struct {
	s       *Sim
	r       *lib.Rand
	name    string
	class   string
	D       int64
	fdEvery int64
	blocked map[[2]string]bool
	lossPct int
	plan    []Cfg          // nodes not yet started
	stopped map[string]Cfg // crashed nodes that may restart
	seeds   []string
	nRest   int
	desc    []string
}

func pair(a, b string) [2]string {
	if a > b {
		a, b = b, a
	}
	return [2]string{a, b}
}

func (sc *Scen) isBlocked(a, b string) bool { return sc.blocked[pair(a, b)] }

// clean: the classes whose histories are clean in the sense of coq/Cluster/GossipClean.v (failure detection off, nothing
// crashes, leaves or is forced down, every NodeID is used once): join, islands, seedsplit. On them the convergence clause
// of C18 is a theorem of the model (Properties/C18.v section 5), so every end-state discrepancy is a VIOLATION.
func (sc *Scen) clean() bool { return sc.class == "join" || sc.class == "islands" || sc.class == "seedsplit" }

// noStop: classes in which nothing crashes, leaves or is forced down (clean ones and the undecided class "pending")
func (sc *Scen) noStop() bool { return sc.clean() || sc.class == "pending" }

func (sc *Scen) runningAddrs() []string {
	as := make([]string, 0, len(sc.s.nodes))
	for a := range sc.s.nodes {
		as = append(as, a)
	}
	sort.Strings(as)
	return as
}

func (sc *Scen) isSeed(a string) bool {
	for _, s := range sc.seeds {
		if s == a {
			return true
		}
	}
	return false
}

// deliverOrDrop: a packet between partitioned nodes, or one the loss rate picks, is lost.
func (sc *Scen) deliverOrDrop(k int, faults bool) {
	p := sc.s.net[k]
	if faults && (sc.isBlocked(p.src, p.dst) || sc.r.Intn(100) < sc.lossPct) {
		sc.s.hist.noteLoss(p.src, p.dst)
		sc.s.Drop(k)
		return
	}
	sc.s.Deliver(k)
}

// drain delivers everything in flight (and what the deliveries send) in random order.
func (sc *Scen) drain(faults bool) bool {
	for fuel := 0; len(sc.s.net) > 0; fuel++ {
		if fuel > 20000 {
			return false
		}
		sc.deliverOrDrop(sc.r.Intn(len(sc.s.net)), faults)
	}
	return true
}

func (sc *Scen) faultStep() {
	s, r := sc.s, sc.r
	s.now += int64(r.Intn(int(sc.D)))
	run := sc.runningAddrs()
	switch x := r.Intn(100); {
	case x < 14 && len(sc.plan) > 0:
		i := r.Intn(len(sc.plan))
		c := sc.plan[i]
		sc.plan = append(sc.plan[:i:i], sc.plan[i+1:]...)
		s.Start(c)
	case x < 30 && len(run) > 0:
		a := run[r.Intn(len(run))]
		if s.nodes[a].timers[cluster.SchedRefGossip] {
			s.GossipTick(a)
		}
	case x < 38 && len(run) > 0:
		a := run[r.Intn(len(run))]
		if s.nodes[a].timers[cluster.SchedRefFailureDetection] {
			s.FdTick(a)
		}
	case x < 44 && len(run) > 0:
		a := run[r.Intn(len(run))]
		if s.nodes[a].timers[cluster.SchedRefJoinRetry] {
			s.Retry(a)
		}
	case x < 74 && len(s.net) > 0:
		sc.deliverOrDrop(r.Intn(len(s.net)), true)
	case x < 80 && len(run) >= 2 && sc.class != "seedsplit": // (seedsplit keeps its two sides apart until the faults stop)
		a, b := run[r.Intn(len(run))], run[r.Intn(len(run))]
		if a != b {
			if sc.blocked[pair(a, b)] {
				delete(sc.blocked, pair(a, b))
			} else {
				sc.blocked[pair(a, b)] = true
			}
		}
	case x < 85 && len(run) > 0 && sc.class != "join" && !sc.noStop():
		a := run[r.Intn(len(run))]
		if !sc.isSeed(a) {
			sc.stopped[a] = s.nodes[a].cfg
			s.Crash(a)
			sc.desc = append(sc.desc, "crash "+a)
		}
	case x < 92 && len(sc.stopped) > 0:
		as := make([]string, 0, len(sc.stopped))
		for a := range sc.stopped {
			as = append(as, a)
		}
		sort.Strings(as)
		a := as[r.Intn(len(as))]
		c := sc.stopped[a]
		delete(sc.stopped, a)
		if (sc.class == "fd" || sc.class == "mini") && r.Chance(1, 3) { // the default configuration: a fresh NodeID (uuid) per process
			sc.nRest++
			c.ID = fmt.Sprintf("%s-r%d", strings.SplitN(c.ID, "-r", 2)[0], sc.nRest)
			sc.desc = append(sc.desc, "restart "+a+" with the fresh id "+c.ID)
		} else {
			sc.desc = append(sc.desc, "restart "+a+" with the same id")
		}
		s.Start(c)
	case x >= 95 && len(run) > 0 && sc.class == "mini": // admin: ForceMemberDown of any member, the node itself included
		a := run[r.Intn(len(run))]
		var ids []string
		for id := range s.nodes[a].actor.XVView().Members {
			ids = append(ids, id)
		}
		sort.Strings(ids)
		ids = append(ids, "nobody")
		id := ids[r.Intn(len(ids))]
		// ForceMemberDown of the node's own id at itself is only generated when no failure-detector removal can follow:
		// a tick that then removes ALL remaining members empties the view, recomputeCounts skips the prune, and which
		// version-vector entries survive depends on the Go map iteration order of RunDetection (outside the model)
		if id != s.nodes[a].cfg.ID || int64(s.nodes[a].cfg.FD) >= 1000000 {
			s.ForceDown(a, id)
		}
	case x < 95 && len(run) > 0 && (sc.class == "leave" || sc.class == "fd" || sc.class == "mini"):
		a := run[r.Intn(len(run))]
		if !sc.isSeed(a) {
			s.Leave(a)
			sc.desc = append(sc.desc, "leave "+a)
		}
	}
}

// fairRounds: the fault-free phase. Each node has its own phase inside a round and its own failure-detection phase.
func (sc *Scen) fairRounds(R int) bool {
	s, r := sc.s, sc.r
	offs := map[string]int64{}
	fdph := map[string]int64{}
	t0 := s.now
	for round := 0; round < R; round++ {
		run := sc.runningAddrs()
		for _, a := range run {
			if _, ok := offs[a]; !ok {
				offs[a] = int64(r.Intn(int(sc.D)))
				fdph[a] = int64(r.Intn(int(sc.fdEvery)))
			}
		}
		sort.SliceStable(run, func(i, j int) bool { return offs[run[i]] < offs[run[j]] })
		for _, a := range run {
			s.now = t0 + int64(round)*sc.D + offs[a]
			n := s.nodes[a]
			if n.timers[cluster.SchedRefJoinRetry] {
				s.Retry(a)
			}
			if n.timers[cluster.SchedRefGossip] {
				s.GossipTick(a)
			}
			if r.Bool() && !sc.drain(false) {
				return false
			}
			if n.timers[cluster.SchedRefFailureDetection] && int64(round)%sc.fdEvery == fdph[a] {
				s.FdTick(a)
			}
			if r.Bool() && !sc.drain(false) {
				return false
			}
		}
		s.now = t0 + int64(round+1)*sc.D - 1
		if !sc.drain(false) {
			return false
		}
	}
	return true
}

type scenResult struct {
	hits   []hit
	nontr  bool
	kind   string
}

// collapse keeps the first hit per (monitor, cause prefix) of a scenario.
func collapse(name string, hs []hit) []hit {
	seen := map[string]int{}
	var out []hit
	idx := map[string]int{}
	for _, h := range hs {
		pre := h.detail
		if i := strings.IndexAny(pre, ":;"); i >= 0 {
			pre = pre[:i]
		}
		k := h.name + "|" + pre
		if seen[k] == 0 {
			idx[k] = len(out)
			out = append(out, h)
		}
		seen[k]++
	}
	for k, i := range idx {
		if seen[k] > 1 {
			out[i].detail += fmt.Sprintf(" [+%d more of this kind in scenario %s]", seen[k]-1, name)
		} else {
			out[i].detail += " [scenario " + name + "]"
		}
	}
	return out
}

// islandsPlan: self-seeded islands (each island seed lists only itself, 0-2 members join it) that are introduced to each
// other only by bridge nodes started later, each listing the seeds of two or more islands: no node of one island has a
// node of another in its seed list, so the islands can meet only because a node keeps gossiping to a configured seed
// that is NOT (yet) a member of its view (gossip_selector.go). i == 0 is the canonical 4-node instance
// (A=[A], B=[B], C=[A,B], D=[B]) without any fault.
func islandsPlan(r *lib.Rand, i int) (plan []Cfg, seeds []string, desc string) {
	k := 2 + r.Intn(2)
	if i == 0 {
		k = 2
	}
	port := 7001
	next := func() string { port++; return fmt.Sprintf("127.0.0.1:%d", port-1) }
	id := func() string { return fmt.Sprintf("n%d", port-7001) }
	var members []Cfg
	for j := 0; j < k; j++ {
		a := next()
		plan = append(plan, Cfg{ID: id(), Addr: a, Seeds: []string{a}})
		seeds = append(seeds, a)
		nm := r.Intn(3)
		if i == 0 {
			nm = j // A alone, B gets D
		}
		for x := 0; x < nm; x++ {
			ma := next()
			members = append(members, Cfg{ID: id(), Addr: ma, Seeds: []string{a}})
		}
	}
	// bridges: a chain I1-I2, I2-I3 ... (each bridge lists two island seeds in random order), so the seed graph is connected
	var bridges []Cfg
	for j := 0; j+1 < k; j++ {
		ba := next()
		ss := []string{seeds[j], seeds[j+1]}
		if i != 0 && r.Bool() {
			ss[0], ss[1] = ss[1], ss[0]
		}
		bridges = append(bridges, Cfg{ID: id(), Addr: ba, Seeds: ss})
	}
	if i == 0 { // canonical start order of the demo: A, B, C (bridge), D (member of B)
		plan = append(plan, bridges...)
		plan = append(plan, members...)
	} else {
		rest := append(members, bridges...)
		for x := len(rest) - 1; x > 0; x-- {
			y := r.Intn(x + 1)
			rest[x], rest[y] = rest[y], rest[x]
		}
		plan = append(plan, rest...)
		if r.Chance(1, 3) { // any start order, islands included
			for x := len(plan) - 1; x > 0; x-- {
				y := r.Intn(x + 1)
				plan[x], plan[y] = plan[y], plan[x]
			}
		}
	}
	return plan, seeds, fmt.Sprintf("islands=%d bridges=%d members=%d", k, len(bridges), len(members))
}

// seedsplitPlan: 2-3 seeds that all list all seeds, each with 0-2 joiners, split into sides that cannot reach each other
// while they start (every cross-side pair is partitioned, so each seed bootstraps its own island and the joiners join the
// seed of their side); the partition heals when the faults stop. i == 0 is the canonical instance (A, B seeds; C joins
// A, D joins B).
func seedsplitPlan(r *lib.Rand, i int) (plan []Cfg, seeds []string, side map[string]int, desc string) {
	k := 2 + r.Intn(2)
	if i == 0 {
		k = 2
	}
	side = map[string]int{}
	port := 7001
	next := func() string { port++; return fmt.Sprintf("127.0.0.1:%d", port-1) }
	id := func() string { return fmt.Sprintf("n%d", port-7001) }
	for j := 0; j < k; j++ {
		seeds = append(seeds, fmt.Sprintf("127.0.0.1:%d", 7001+j))
	}
	for j := 0; j < k; j++ {
		a := next()
		ss := append([]string(nil), seeds...)
		if i != 0 && r.Bool() {
			ss[0], ss[len(ss)-1] = ss[len(ss)-1], ss[0]
		}
		plan = append(plan, Cfg{ID: id(), Addr: a, Seeds: ss})
		side[a] = j
	}
	nj := 0
	for j := 0; j < k; j++ {
		nm := r.Intn(3)
		if i == 0 {
			nm = 1
		}
		for x := 0; x < nm; x++ {
			a := next()
			ss := append([]string(nil), seeds...)
			if i != 0 && r.Bool() {
				ss[0], ss[len(ss)-1] = ss[len(ss)-1], ss[0]
			}
			plan = append(plan, Cfg{ID: id(), Addr: a, Seeds: ss})
			side[a] = j
			nj++
		}
	}
	return plan, seeds, side, fmt.Sprintf("sides=%d joiners=%d", k, nj)
}

// pendingPlan: the class the convergence proof leaves undecided - a node P whose own join is still pending (its only seed
// S starts last) is itself a seed of others: X = [X, P] bootstraps and gossips to P, which thereby holds a view and a
// quorum although it has not joined, and ACCEPTS the JoinRequests of J1.. = [P] (incrementing a version-vector entry for
// its own id, which is no member of its view; recomputeCounts prunes it at the next change and the counter value is used
// again). S = [S] starts when the faults stop; P's retry then goes through. Seed lists connect everybody (X-P, J-P, P-S).
func pendingPlan(r *lib.Rand, i int) (early []Cfg, late []Cfg, seeds []string, desc string) {
	x, p, sd := "127.0.0.1:7001", "127.0.0.1:7002", "127.0.0.1:7003"
	early = append(early, Cfg{ID: "n1", Addr: x, Seeds: []string{x, p}}, Cfg{ID: "n2", Addr: p, Seeds: []string{sd}})
	nj := 1 + r.Intn(3)
	if i == 0 {
		nj = 2
	}
	for j := 0; j < nj; j++ {
		ss := []string{p}
		if i != 0 && r.Chance(1, 3) {
			ss = []string{p, x}
		}
		early = append(early, Cfg{ID: fmt.Sprintf("n%d", 4+j), Addr: fmt.Sprintf("127.0.0.1:%d", 7004+j), Seeds: ss})
	}
	late = append(late, Cfg{ID: "n3", Addr: sd, Seeds: []string{sd}})
	return early, late, []string{x, p, sd}, fmt.Sprintf("pending-acceptor joiners=%d", nj)
}

// randomScenario builds and runs one generated scenario of the given class (the i-th of its class).
func randomScenario(r *lib.Rand, idx int, class string, big bool, i int) (*Sim, *Scen, []hit) {
	s := NewSim()
	sc := &Scen{s: s, r: r, class: class, blocked: map[[2]string]bool{}, stopped: map[string]Cfg{}}
	scale := int64(1)
	s.now = 1000
	if big { // wall-clock sized numbers: 1.7e18 ns, seconds
		scale = 10_000_000
		s.now = 1_700_000_000_000_000_000
	}
	sc.D = 50 * scale
	sc.fdEvery = 3
	var T, conf int64
	island := ""
	nNodes := 0
	extra := ""
	var late []Cfg
	switch class {
	case "pending":
		sc.plan, late, sc.seeds, extra = pendingPlan(r, i)
		nNodes = len(sc.plan) + len(late)
	case "islands":
		sc.plan, sc.seeds, extra = islandsPlan(r, i)
		nNodes = len(sc.plan)
	case "seedsplit":
		var side map[string]int
		sc.plan, sc.seeds, side, extra = seedsplitPlan(r, i)
		nNodes = len(sc.plan)
		for a, sa := range side {
			for b, sb := range side {
				if sa != sb {
					sc.blocked[pair(a, b)] = true
				}
			}
		}
	default:
		nNodes = 2 + r.Intn(3)
		if r.Chance(1, 5) {
			nNodes = 5 + r.Intn(3)
		}
		if class == "fd" {
			T = 300 * scale
			conf = []int64{0, 0, 150 * scale, 100000 * scale}[r.Intn(4)]
		}
		nSeeds := 1 + r.Intn(3)
		if nSeeds > nNodes {
			nSeeds = nNodes
		}
		addrs := make([]string, nNodes)
		for i := range addrs {
			addrs[i] = fmt.Sprintf("127.0.0.1:%d", 7001+i)
		}
		// the seeds are not necessarily the smallest addresses
		perm := make([]int, nNodes)
		for i := range perm {
			perm[i] = i
		}
		for i := nNodes - 1; i > 0; i-- {
			j := r.Intn(i + 1)
			perm[i], perm[j] = perm[j], perm[i]
		}
		for i := 0; i < nSeeds; i++ {
			sc.seeds = append(sc.seeds, addrs[perm[i]])
		}
		if nNodes >= 3 && r.Chance(1, 4) { // a self-seeded island: a seed of the others that lists only itself
			island = sc.seeds[0]
		}
		for i, a := range addrs {
			c := Cfg{ID: fmt.Sprintf("n%d", i+1), Addr: a, Seeds: append([]string(nil), sc.seeds...), FD: time.Duration(T), Confirm: time.Duration(conf)}
			if a == island {
				c.Seeds = []string{a}
			}
			if r.Chance(1, 6) && len(c.Seeds) > 1 { // another seed order
				c.Seeds[0], c.Seeds[len(c.Seeds)-1] = c.Seeds[len(c.Seeds)-1], c.Seeds[0]
			}
			sc.plan = append(sc.plan, c)
		}
	}
	sc.lossPct = []int{0, 10, 30}[r.Intn(3)]
	if (class == "islands" || class == "seedsplit" || class == "pending") && i == 0 {
		sc.lossPct = 0
	}
	sc.name = fmt.Sprintf("#%d class=%s nodes=%d seeds=%v island=%q %s fd=%d confirm=%d loss=%d%% scale=%d", idx, class, nNodes, sc.seeds, island, extra, T, conf, sc.lossPct, scale)
	s.askOK = func(src, dst string) bool { return !sc.isBlocked(src, dst) && r.Intn(100) >= sc.lossPct }
	nFault := 20 + r.Intn(60)
	switch {
	case class == "islands" && i == 0:
		// the canonical instance: no fault at all - every node starts, one canonical round after each start
		nFault = 0
		for len(sc.plan) > 0 {
			s.now += sc.D
			c := sc.plan[0]
			sc.plan = sc.plan[1:]
			s.Start(c)
			sc.drain(false)
		}
	case class == "pending":
		// X, P, the joiners start in this order with rounds of ticks and deliveries in between, so that P holds X's view
		// before the JoinRequests arrive
		for len(sc.plan) > 0 {
			s.now += sc.D
			c := sc.plan[0]
			sc.plan = sc.plan[1:]
			s.Start(c)
			if pn := s.nodes["127.0.0.1:7002"]; pn != nil && c.Addr != pn.cfg.Addr && pn.timers[cluster.SchedRefJoinRetry] && members(pn)[c.ID] != nil {
				pendingAccepts++ // P accepted this JoinRequest while its own join is pending
				sc.desc = append(sc.desc, "the pending node accepted the join of "+c.ID)
			}
			for _, a := range sc.runningAddrs() {
				if s.nodes[a].timers[cluster.SchedRefGossip] {
					s.GossipTick(a)
				}
			}
			sc.drain(true)
		}
		nFault = 10 + r.Intn(30)
	case class == "seedsplit":
		// both sides come up completely while they are apart (the plan is started in order, with fault steps in between)
		for len(sc.plan) > 0 {
			s.now += int64(r.Intn(int(sc.D)))
			c := sc.plan[0]
			sc.plan = sc.plan[1:]
			s.Start(c)
			for x := r.Intn(6); x > 0; x-- {
				sc.faultStep()
			}
		}
		if i == 0 {
			nFault = 12
		}
	}
	for i := 0; i < nFault; i++ {
		sc.faultStep()
	}
	// the faults stop: partitions heal, every node that is to run is started, nothing is lost any more
	if class == "seedsplit" { // what was sent across the partition while it lasted is lost
		for k := 0; k < len(s.net); {
			if p := s.net[k]; sc.isBlocked(p.src, p.dst) {
				sc.s.hist.noteLoss(p.src, p.dst)
				s.Drop(k)
			} else {
				k++
			}
		}
	}
	sc.blocked = map[[2]string]bool{}
	s.askOK = func(string, string) bool { return true }
	sc.plan = append(sc.plan, late...)
	for len(sc.plan) > 0 {
		s.now += int64(r.Intn(int(sc.D)))
		c := sc.plan[0]
		sc.plan = sc.plan[1:]
		s.Start(c)
	}
	if class != "fd" { // failure detection off: a crashed node comes back under its own id
		as := make([]string, 0, len(sc.stopped))
		for a := range sc.stopped {
			as = append(as, a)
		}
		sort.Strings(as)
		for _, a := range as {
			s.now += int64(r.Intn(int(sc.D)))
			s.Start(sc.stopped[a])
			sc.desc = append(sc.desc, "restart "+a+" with the same id")
		}
		sc.stopped = map[string]Cfg{}
	}
	s.now += sc.D
	s.hist.ffSince = s.now
	R := 30
	if T > 0 {
		c := conf
		if c > 150*scale {
			c = 0
		}
		R = int((T+c)/sc.D) + 26
	}
	var hits []hit
	if !sc.fairRounds(R) {
		hits = append(hits, hit{"harness:network-does-not-drain", "unexplained: more than 20000 deliveries in one round of scenario " + sc.name})
	}
	hits = append(hits, s.hist.hits...)
	tail := s.hist.ffSince + int64(R)*sc.D*2/3
	for _, d := range s.hist.endState(EndCfg{sc.D, sc.fdEvery, tail}) {
		hits = append(hits, hit{d.monitor, d.cause + ": " + d.text})
	}
	for _, b := range s.bad {
		hits = append(hits, hit{"harness:unexpected-call", "unexplained: " + b})
	}
	for _, m := range s.missing {
		hits = append(hits, hit{"harness:step-not-enabled", "unexplained: " + m})
	}
	if sc.clean() && len(hits) > 0 {
		// a clean history (failure detection off, no crash / leave / force-down, every NodeID used once) whose seed lists
		// connect the nodes: Properties/C18.v C18_clean_history_converges proves convergence of the model, so this is a
		// violation of the property by the implementation (or the model no longer describes it), never a known finding
		hits = append(hits, hit{"clean-history-not-converged", fmt.Sprintf("unexplained: after %d fair rounds of a clean history the running nodes have not converged or still announce changes: %s: %s", R, hits[0].name, hits[0].detail)})
	}
	return s, sc, collapse(sc.name+" ("+strings.Join(sc.desc, "; ")+")", hits)
}

// ---------------------------------------------------------------- canonical rounds (= auto_round of GossipProofs.v)

// autoRound: at clock t — every running node (ascending address) with a gossip loop ticks; everything in flight is
// delivered (always packet 0, MemberByAddress choice = what the real code picked); every node with a failure-detection
// loop ticks; every node with a pending join retry retries; everything in flight is delivered.
func autoRound(s *Sim, t int64) bool {
	s.now = t
	drain := func() bool {
		for fuel := 0; len(s.net) > 0; fuel++ {
			if fuel > 2000 {
				return false
			}
			s.Deliver(0)
		}
		return true
	}
	addrs := func() []string {
		as := make([]string, 0, len(s.nodes))
		for a := range s.nodes {
			as = append(as, a)
		}
		sort.Strings(as)
		return as
	}
	for _, a := range addrs() {
		if s.nodes[a].timers[cluster.SchedRefGossip] {
			s.GossipTick(a)
		}
	}
	if !drain() {
		return false
	}
	for _, a := range addrs() {
		if s.nodes[a].timers[cluster.SchedRefFailureDetection] {
			s.FdTick(a)
		}
	}
	for _, a := range addrs() {
		if s.nodes[a].timers[cluster.SchedRefJoinRetry] {
			s.Retry(a)
		}
	}
	return drain()
}

// miniScenario: 2-3 nodes and a dozen arbitrary steps (no fault-free phase, no monitors): short lock-step cases.
func miniScenario(r *lib.Rand) *Sim {
	s := NewSim()
	sc := &Scen{s: s, r: r, class: "mini", blocked: map[[2]string]bool{}, stopped: map[string]Cfg{}, D: 50, fdEvery: 3}
	s.now = 1000
	n := 1 + r.Intn(3)
	T := []int64{0, 120, 1000000}[r.Intn(3)]
	conf := []int64{0, 60}[r.Intn(2)]
	sc.seeds = []string{"127.0.0.1:7001"}
	for i := 0; i < n; i++ {
		sc.plan = append(sc.plan, Cfg{ID: fmt.Sprintf("n%d", i+1), Addr: fmt.Sprintf("127.0.0.1:%d", 7001+i), Seeds: sc.seeds, FD: time.Duration(T), Confirm: time.Duration(conf)})
	}
	sc.lossPct = 15
	s.askOK = func(src, dst string) bool { return !sc.isBlocked(src, dst) && r.Intn(100) >= sc.lossPct }
	s.Start(sc.plan[0])
	sc.plan = sc.plan[1:]
	for i := 0; i < 80 && len(s.steps) < 16; i++ {
		sc.faultStep()
	}
	for _, a := range sc.runningAddrs() { // one failure-detection tick everywhere (quorum recovery after a self force-down)
		if s.nodes[a] != nil && s.nodes[a].timers[cluster.SchedRefFailureDetection] {
			s.now += 7
			s.FdTick(a)
		}
	}
	return s
}
