package main

type History struct{ s *Sim }

func newHistory(s *Sim) *History                         { return &History{s: s} }
func (h *History) onStart(n *SNode)                      {}
func (h *History) onStop(n *SNode, left bool)            {}
func (h *History) onLeave(n *SNode, sent []*Packet)      {}
func (h *History) beforeFd(n *SNode)                     {}
func (h *History) beforeDeliver(n *SNode, p *Packet)     {}
func (h *History) afterDeliver(n *SNode, p *Packet)      {}
func (h *History) beforeForceDown(n *SNode, id string)   {}
func (h *History) afterStep(k stepKind, addr string)     {}
