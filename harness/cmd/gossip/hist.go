package main

// History: what the monitors need to know about the run, observed from outside the NodeActors
// (member sets and statuses before / after every step, who was running, what was delivered to whom).

import (
	"fmt"
	"sort"

	"github.com/kercylan98/vivid/internal/cluster"
)

type entry struct {
	seen   int64
	gen    int
	lc     uint64
	status cluster.MemberStatus
	ts     int64
	addr   string
}

// what observer X knows about the history of member id M in its view
type memHist struct {
	removedBy      string // "", "fd", "force": how M last disappeared from X's view
	removedAt      int64
	removedLive    bool // M was a running node when X removed it
	removedFF      bool // ... and the removal happened in the fault-free phase
	removedDead    bool // M was already dead when X removed it
	relearned      bool // M re-appeared after a removal
	relearnedDead  bool // ... while M was dead
	suspectAt      int64
	suspectFF      bool   // the Suspect status was set in the fault-free phase
	suspectHow     string // "fd" (this node's failure detector) or "learned" (copied from a peer's view)
	everPresent    bool
	learnedAt      int64 // when M last appeared in X's view
	learnedHow     string
}

type obs struct {
	snap  map[string]entry    // member id -> entry after the last step
	mem   map[string]*memHist // member id -> history
	heard map[string]int64    // sender address -> last delivery time of a packet from it
	fdTicks int
}

type deadRec struct {
	addr string
	left bool
	at   int64
}

type History struct {
	s        *Sim
	o        map[string]*obs     // by observer address (reset when the process restarts)
	dead     map[string]deadRec  // node id -> how it stopped
	ffSince  int64               // start of the fault-free phase (-1 = fault phase)
	lost     map[[2]string]int64 // (src,dst) -> last time a packet or ask between them was dropped
	hits     []hit               // monitor hits raised while stepping
	causes   map[string]bool     // cause prefixes seen in the fault-free phase of this scenario
	changeEv []changeRec         // change events published in the fault-free phase
	leaveNotes []string
}

type hit struct{ name, detail string }

type changeRec struct {
	at   int64
	addr string
	kind int
	text string
}

func newHistory(s *Sim) *History {
	return &History{s: s, o: map[string]*obs{}, dead: map[string]deadRec{}, ffSince: -1, lost: map[[2]string]int64{}, causes: map[string]bool{}}
}

func viewEntries(n *SNode) map[string]entry {
	out := map[string]entry{}
	for id, m := range n.actor.XVView().Members {
		if m != nil {
			out[id] = entry{m.LastSeen, m.Generation, m.LogicalClock, m.Status, m.Timestamp, m.Address}
		}
	}
	return out
}

func (h *History) runningID(id string) *SNode {
	for _, n := range h.s.nodes {
		if n.cfg.ID == id {
			return n
		}
	}
	return nil
}

func (h *History) onStart(n *SNode) {
	h.o[n.cfg.Addr] = &obs{snap: map[string]entry{}, mem: map[string]*memHist{}, heard: map[string]int64{}}
	delete(h.dead, n.cfg.ID)
}

func (h *History) onStop(n *SNode, left bool) {
	delete(h.o, n.cfg.Addr)
	h.dead[n.cfg.ID] = deadRec{n.cfg.Addr, left, h.s.now}
}

// onLeave: what did the leaving node tell its peers?
func (h *History) onLeave(n *SNode, sent []*Packet) {
	note := fmt.Sprintf("%s left at t=%d: ", n.cfg.Addr, h.s.now)
	if len(sent) == 0 {
		note += "no GossipMessage sent (every target's last known vector equals the own one)"
	} else {
		st := "absent"
		if m := sent[0].view.Members[n.cfg.ID]; m != nil {
			st = m.Status.String()
		}
		note += fmt.Sprintf("%d GossipMessages sent, each listing the leaver with status %q", len(sent), st)
	}
	h.leaveNotes = append(h.leaveNotes, note)
}

func (h *History) beforeFd(n *SNode) {
	if o := h.o[n.cfg.Addr]; o != nil {
		o.fdTicks++
	}
}
func (h *History) beforeDeliver(n *SNode, p *Packet) {}
func (h *History) afterDeliver(n *SNode, p *Packet) {
	if o := h.o[n.cfg.Addr]; o != nil {
		o.heard[p.src] = h.s.now
	}
}
func (h *History) beforeForceDown(n *SNode, id string) {}

func (h *History) noteLoss(src, dst string) { h.lost[[2]string{src, dst}] = h.s.now }

func (h *History) hit(name, detail string) { h.hits = append(h.hits, hit{name, detail}) }

// afterStep diffs every running node's view against its snapshot and records the transitions.
func (h *History) afterStep(kind stepKind, addr string) {
	s := h.s
	ff := h.ffSince >= 0
	addrs := make([]string, 0, len(s.nodes))
	for a := range s.nodes {
		addrs = append(addrs, a)
	}
	sort.Strings(addrs)
	for _, a := range addrs {
		n := s.nodes[a]
		o := h.o[a]
		if o == nil {
			continue
		}
		cur := viewEntries(n)
		ids := map[string]bool{}
		for id := range cur {
			ids[id] = true
		}
		for id := range o.snap {
			ids[id] = true
		}
		sorted := make([]string, 0, len(ids))
		for id := range ids {
			sorted = append(sorted, id)
		}
		sort.Strings(sorted)
		for _, id := range sorted {
			was, had := o.snap[id]
			is, has := cur[id]
			mh := o.mem[id]
			if mh == nil {
				mh = &memHist{}
				o.mem[id] = mh
			}
			subject := h.runningID(id)
			live := subject != nil && subject != n
			_, isDead := h.dead[id]
			switch {
			case had && !has: // removed
				by := "?"
				switch kind {
				case kFd:
					by = "fd"
				case kForceDown:
					by = "force"
				}
				mh.removedBy, mh.removedAt, mh.removedLive, mh.removedFF, mh.removedDead = by, s.now, live, ff, isDead
				mh.relearned, mh.relearnedDead = false, false
				if kind == kFd && live && ff {
					h.fdOnLive("live-member-removed", n, o, subject, was)
				}
			case !had && has: // learned
				if mh.removedBy != "" {
					mh.relearned = true
					mh.relearnedDead = isDead
					if isDead && ff && mh.removedDead {
						h.causes["resurrected"] = true
						h.hit("dead-member-resurrected", fmt.Sprintf("by-merge: %s removed the stopped node %s (%s) at t=%d and lists it again at t=%d after a %s step (merge never removes, any peer that still lists it brings it back)",
							a, id, is.addr, mh.removedAt, s.now, kindName(kind)))
					}
				}
				mh.everPresent = true
				mh.learnedAt, mh.learnedHow = s.now, kindName(kind)
				if is.status == cluster.MemberStatusSuspect {
					mh.suspectAt, mh.suspectFF, mh.suspectHow = s.now, ff, "learned"
				}
			case had && has:
				if was.gen != is.gen || was.lc != is.lc {
					// the merge replaced the entry by a newer incarnation: a clone of the sender's copy, LastSeen included
					mh.learnedAt, mh.learnedHow = s.now, kindName(kind)+" step that adopted a newer incarnation"
				}
				if was.status != cluster.MemberStatusSuspect && is.status == cluster.MemberStatusSuspect {
					how := "learned"
					if kind == kFd {
						how = "fd"
					}
					mh.suspectAt, mh.suspectFF, mh.suspectHow = s.now, ff, how
					if kind == kFd && live && ff {
						h.fdOnLive("live-member-suspected", n, o, subject, was)
					}
				}
			}
		}
		o.snap = cur
	}
	if ff {
		for _, e := range s.evs {
			if e.kind <= 2 {
				h.changeEv = append(h.changeEv, changeRec{s.now, e.addr, e.kind, fmt.Sprintf("%s at %s (t=%d, %s step)", evName(e.kind), e.addr, s.now, kindName(kind))})
			}
		}
	}
}

func kindName(k stepKind) string {
	return [...]string{"start", "join-retry", "gossip-tick", "failure-detection-tick", "deliver", "drop", "crash", "leave", "force-down"}[k]
}
func evName(k int) string {
	return [...]string{"ClusterMembersChangedEvent", "ClusterViewChangedEvent", "ClusterLeaderChangedEvent", "QuorumLost", "QuorumReached", "DCHealthChanged", "LeaveCompleted"}[k]
}

// fdOnLive: in the fault-free phase the failure detector of n suspected / removed a node that is running and reachable.
func (h *History) fdOnLive(name string, n *SNode, o *obs, subject *SNode, was entry) {
	s := h.s
	T := int64(n.cfg.FD)
	last, heardEver := o.heard[subject.cfg.Addr]
	lostAt, lost := h.lost[[2]string{subject.cfg.Addr, n.cfg.Addr}]
	silent := !heardEver || last < s.now-T
	if silent && !(lost && lostAt >= s.now-T && lostAt >= h.ffSince) {
		h.causes["fd-on-silent-live-peer"] = true
		lastS := "never"
		if heardEver {
			lastS = fmt.Sprintf("t=%d", last)
		}
		h.hit(name, fmt.Sprintf("fd-on-silent-live-peer: at t=%d the failure detector of %s hit the running, reachable node %s (%s): timeout %d, last GossipMessage from it delivered %s, none lost since the faults stopped at t=%d — its gossip is suppressed while the version vectors are equal, so LastSeen is never refreshed",
			s.now, n.cfg.Addr, subject.cfg.ID, subject.cfg.Addr, T, lastS, h.ffSince))
		return
	}
	for id, e := range o.snap {
		if id != subject.cfg.ID && e.addr == subject.cfg.Addr {
			// two members share the address (the process was restarted under a fresh NodeID, the default): MemberByAddress
			// refreshes whichever entry the map iteration yields first
			h.causes["fd-on-member-sharing-address-with-predecessor"] = true
			h.hit(name, fmt.Sprintf("fd-on-member-sharing-address-with-predecessor: at t=%d the failure detector of %s hit the running node %s (%s) although a GossipMessage from it was delivered at t=%d (timeout %d): the view also lists %s at the same address (its predecessor, restarted under a fresh NodeID) and handleGossip refreshes LastSeen of whichever of the two MemberByAddress finds first",
				s.now, n.cfg.Addr, subject.cfg.ID, subject.cfg.Addr, last, T, id))
			return
		}
	}
	if mh := o.mem[subject.cfg.ID]; mh != nil && heardEver && mh.learnedAt >= last {
		// the entry was (re)learned through a merge at or after the last packet from the node: handleGossip refreshes
		// LastSeen only for a sender that is already a member, and the merged-in entry carries the sender's own copy
		h.causes["fd-on-relearned-member-with-foreign-lastseen"] = true
		h.hit(name, fmt.Sprintf("fd-on-relearned-member-with-foreign-lastseen: at t=%d the failure detector of %s hit the running node %s (%s) although a GossipMessage from it was delivered at t=%d (timeout %d): the member was (re)learned through a %s at t=%d and its entry carries the LastSeen of the sender's copy, not the time of that delivery",
			s.now, n.cfg.Addr, subject.cfg.ID, subject.cfg.Addr, last, T, mh.learnedHow, mh.learnedAt))
		return
	}
	h.causes["unexplained"] = true
	mh := o.mem[subject.cfg.ID]
	h.hit(name, fmt.Sprintf("unexplained: at t=%d the failure detector of %s hit the running node %s (%s) although a GossipMessage from it was delivered at t=%d (timeout %d, confirm %d); entry before the tick: LastSeen %d status %s incarnation (%d,%d); learned at t=%d by a %s",
		s.now, n.cfg.Addr, subject.cfg.ID, subject.cfg.Addr, last, T, int64(n.cfg.Confirm), was.seen, was.status.String(), was.gen, was.lc, mh.learnedAt, mh.learnedHow))
}
