package main

import "github.com/kercylan98/vivid/xverif/lib"

func witnesses(o *lib.Out) {}
