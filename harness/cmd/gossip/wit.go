package main

// The kernel-checked witness executions of coq/Properties/C18.v (wa_play .. we_play of coq/Cluster/Gossip.v), replayed
// on the REAL NodeActors with the same canonical round driver.  For each witness two cases are emitted:
//   ( ( 3e8 i ) )  ->  the schedule that was executed here: the model prints its witness schedule i, so the two
//                      must be the same steps (same order, same clocks, same Ask outcomes, same MemberByAddress picks);
//   the schedule   ->  events, packets and node states per step (lock-step, as for every scenario).
// The property monitors run on them like on any scenario: they DO fire on the unchanged tree - these are the recorded
// defects (a)-(e) - and each witness additionally checks that its defect still shows on the implementation
// (a witness that stops failing is reported: the model would no longer describe the code).  Witness 6 is (c2).

import (
	"fmt"
	"time"

	"github.com/kercylan98/vivid/internal/cluster"
	"github.com/kercylan98/vivid/xverif/lib"
)

const (
	ad1 = "127.0.0.1:1"
	ad2 = "127.0.0.1:2"
	ad3 = "127.0.0.1:3"
)

type wit struct {
	s       *Sim
	name    string
	idx     int
	ffStart int64
	rounds  int
	D       int64
	// positive: an instance of the hypotheses of a PROVED theorem (Properties/C18.v C18_clean_history_converges): the
	// implementation must show the theorem's conclusion; `still` then says whether it does
	positive bool
	// modelOnly: lock-step only, no property monitors (a configuration that is not a cluster: (h) unconnected seed lists)
	modelOnly bool
}

func (w *wit) roundsAt(n int, t0 int64) bool {
	for i := 0; i < n; i++ {
		if !autoRound(w.s, t0+int64(i)*w.D) {
			return false
		}
	}
	return true
}

// finish: emits the two cases, runs the end-state monitors, and checks `still` (the defect still reproduces).
func (w *wit) finish(o *lib.Out, ok bool, still func() (bool, string)) {
	s := w.s
	in, out := s.Case()
	o.Case("witness-schedule", true, lib.L(lib.L(lib.N(1000), lib.NI(w.idx))), lib.LS(s.steps))
	o.Case("witness-"+w.name, true, in, out)
	o.Stats["steps"] += len(s.steps)
	var hits []hit
	if !ok {
		hits = append(hits, hit{"harness:network-does-not-drain", "unexplained: witness " + w.name})
	}
	if !w.modelOnly {
		hits = append(hits, s.hist.hits...)
		tail := w.ffStart + int64(w.rounds)*w.D*2/3
		for _, d := range s.hist.endState(EndCfg{w.D, 1, tail}) {
			hits = append(hits, hit{d.monitor, d.cause + ": " + d.text})
		}
	}
	for _, b := range s.bad {
		hits = append(hits, hit{"harness:unexpected-call", "unexplained: " + b})
	}
	for _, m := range s.missing {
		hits = append(hits, hit{"witness-step-missing", "unexplained: the schedule of C18 witness (" + w.name + ") cannot be executed on the implementation as the model executes it: " + m})
	}
	rep, what := false, ""
	func() {
		defer func() {
			if x := recover(); x != nil {
				rep, what = false, fmt.Sprintf("the end state of the witness cannot be inspected (%v): the execution took another course than the model's", x)
			}
		}()
		rep, what = still()
	}()
	o.Info["witness_"+w.name+"_reproduces_on_the_implementation"] = rep
	o.Info["witness_"+w.name+"_observed"] = what
	if !rep && w.positive {
		hits = append(hits, hit{"proved-instance-fails", "unexplained: the execution (" + w.name + ") satisfies the hypotheses of the proved theorem C18_clean_history_converges but the implementation does not show its conclusion: " + what})
	} else if !rep {
		hits = append(hits, hit{"witness-no-longer-fails", "unexplained: the execution of C18 witness (" + w.name + ") no longer shows its defect on the implementation: " + what})
	}
	for _, h := range collapse("witness-"+w.name, hits) {
		record(o, lib.L(lib.S("witness"), lib.NI(w.idx)), h)
	}
}

func members(n *SNode) map[string]*cluster.NodeState { return n.actor.XVView().Members }

func witnesses(o *lib.Out) {
	ns := func(d int64) time.Duration { return time.Duration(d) }

	// (a) two healthy nodes, timeout 300, 40 rounds of length 50
	guarded(o, "witness", 1, func() {
		s := NewSim()
		w := &wit{s: s, name: "a", idx: 1, ffStart: 1050, rounds: 40, D: 50}
		s.now = 1000
		s.Start(Cfg{ID: "s", Addr: ad1, Seeds: []string{ad1}, FD: ns(300)})
		s.now = 1010
		s.Start(Cfg{ID: "j", Addr: ad2, Seeds: []string{ad1}, FD: ns(300)})
		s.hist.ffSince = 1050
		ok := w.roundsAt(40, 1050)
		w.finish(o, ok, func() (bool, string) {
			n := 0
			for _, c := range s.hist.changeEv {
				if c.kind == 0 && c.at >= 1050+30*50 {
					n++
				}
			}
			_, sHasJ := members(s.nodes[ad1])["j"]
			return n > 0 && !sHasJ, fmt.Sprintf("%d ClusterMembersChangedEvents in rounds 31..40; after round 40 the seed lists the joiner: %v", n, sHasJ)
		})
	})
	// (b) failure detection off: s, a, x converge; x crashes; ForceMemberDown(x) at s; 30 rounds
	guarded(o, "witness", 2, func() {
		s := NewSim()
		w := &wit{s: s, name: "b", idx: 2, ffStart: 1250, rounds: 30, D: 50}
		s.now = 1000
		s.Start(Cfg{ID: "s", Addr: ad1, Seeds: []string{ad1, ad2}})
		s.now = 1010
		s.Start(Cfg{ID: "a", Addr: ad2, Seeds: []string{ad1, ad2}})
		s.now = 1020
		s.Start(Cfg{ID: "x", Addr: ad3, Seeds: []string{ad1}})
		ok := w.roundsAt(3, 1050)
		s.now = 1200
		s.Crash(ad3)
		s.now = 1210
		s.ForceDown(ad1, "x")
		_, had := members(s.nodes[ad1])["x"]
		s.hist.ffSince = 1250
		ok = w.roundsAt(30, 1250) && ok
		w.finish(o, ok, func() (bool, string) {
			_, sx := members(s.nodes[ad1])["x"]
			_, ax := members(s.nodes[ad2])["x"]
			return !had && sx && ax, fmt.Sprintf("x listed by s right after ForceMemberDown: %v; 30 rounds later listed by s: %v, by a: %v", had, sx, ax)
		})
	})
	// (c) the two nodes of (a) with SuspectConfirmDuration 100000
	guarded(o, "witness", 3, func() {
		s := NewSim()
		w := &wit{s: s, name: "c", idx: 3, ffStart: 1050, rounds: 40, D: 50}
		s.now = 1000
		s.Start(Cfg{ID: "s", Addr: ad1, Seeds: []string{ad1}, FD: ns(300), Confirm: ns(100000)})
		s.now = 1010
		s.Start(Cfg{ID: "j", Addr: ad2, Seeds: []string{ad1}, FD: ns(300), Confirm: ns(100000)})
		s.hist.ffSince = 1050
		ok := w.roundsAt(40, 1050)
		w.finish(o, ok, func() (bool, string) {
			l1 := cluster.ComputeLeaderAddr(s.nodes[ad1].actor.XVView())
			l2 := cluster.ComputeLeaderAddr(s.nodes[ad2].actor.XVView())
			return l1 == ad1 && l2 == ad2, fmt.Sprintf("leader computed by %s: %q, by %s: %q", ad1, l1, ad2, l2)
		})
	})
	// (d) failure detection off: j (the smaller address) joins the seed s, both converge, j leaves; 30 rounds
	guarded(o, "witness", 4, func() {
		s := NewSim()
		w := &wit{s: s, name: "d", idx: 4, ffStart: 1250, rounds: 30, D: 50}
		s.now = 1000
		s.Start(Cfg{ID: "s", Addr: ad2, Seeds: []string{ad2}})
		s.now = 1010
		s.Start(Cfg{ID: "j", Addr: ad1, Seeds: []string{ad2}})
		ok := w.roundsAt(3, 1050)
		s.now = 1200
		s.Leave(ad1)
		s.hist.ffSince = 1250
		ok = w.roundsAt(30, 1250) && ok
		w.finish(o, ok, func() (bool, string) {
			_, sj := members(s.nodes[ad2])["j"]
			l := cluster.ComputeLeaderAddr(s.nodes[ad2].actor.XVView())
			return sj && l == ad1, fmt.Sprintf("30 rounds after the leave the seed lists j: %v and computes the leader %q; %s", sj, l, fmt.Sprint(s.hist.leaveNotes))
		})
	})
	// (e) failure detection off, seeds s1 and s2: j joins through s1 while s2 is cut off, crashes, restarts under the
	// same NodeID configured with s2 and joins through it; 30 rounds
	guarded(o, "witness", 5, func() {
		s := NewSim()
		w := &wit{s: s, name: "e", idx: 5, ffStart: 1150, rounds: 30, D: 50}
		s.now = 1000
		s.Start(Cfg{ID: "s1", Addr: ad1, Seeds: []string{ad1, ad2}})
		s.now = 1005
		s.Start(Cfg{ID: "s2", Addr: ad2, Seeds: []string{ad1, ad2}})
		s.now = 1010
		s.Drop(0)
		s.Drop(0)
		s.now = 1020
		s.Start(Cfg{ID: "j", Addr: ad3, Seeds: []string{ad1}})
		s.now = 1030
		s.Drop(0)
		s.Drop(0)
		s.Deliver(0)
		s.Drop(0)
		s.now = 1040
		s.Crash(ad3)
		s.now = 1100
		s.Start(Cfg{ID: "j", Addr: ad3, Seeds: []string{ad2}})
		s.hist.ffSince = 1150
		ok := w.roundsAt(30, 1150)
		w.finish(o, ok, func() (bool, string) {
			e1 := members(s.nodes[ad1])["j"]
			own := s.nodes[ad3].actor.XVSelf()
			if e1 == nil {
				return false, "s1 does not list j"
			}
			return e1.Generation == own.Generation && e1.LogicalClock == own.LogicalClock && e1.Timestamp != own.Timestamp,
				fmt.Sprintf("s1 holds j at (%d,%d) timestamp %d; the running j is at (%d,%d) timestamp %d", e1.Generation, e1.LogicalClock, e1.Timestamp, own.Generation, own.LogicalClock, own.Timestamp)
		})
	})
	// (c2) failure detection off: j joins s, crashes, restarts under the same NodeID and joins s again; the broadcast of s
	// reaches j, the one GossipMessage carrying the new incarnation to s is lost; 30 rounds
	guarded(o, "witness", 6, func() {
		s := NewSim()
		w := &wit{s: s, name: "c2", idx: 6, ffStart: 1250, rounds: 30, D: 50}
		s.now = 1000
		s.Start(Cfg{ID: "s", Addr: ad1, Seeds: []string{ad1}})
		s.now = 1010
		s.Start(Cfg{ID: "j", Addr: ad2, Seeds: []string{ad1}})
		ok := w.roundsAt(2, 1050)
		s.now = 1200
		s.Crash(ad2)
		s.now = 1210
		s.Start(Cfg{ID: "j", Addr: ad2, Seeds: []string{ad1}})
		s.now = 1220
		s.Deliver(0)
		s.Drop(0)
		s.hist.ffSince = 1250
		ok = w.roundsAt(30, 1250) && ok
		w.finish(o, ok, func() (bool, string) {
			e := members(s.nodes[ad1])["j"]
			own := s.nodes[ad2].actor.XVSelf()
			if e == nil {
				return false, "s does not list j"
			}
			return e.Generation == 2 && own.Generation == 3 && vvString(cluster.XVDump(s.nodes[ad1].actor.XVView().VersionVector)) == vvString(cluster.XVDump(s.nodes[ad2].actor.XVView().VersionVector)),
				fmt.Sprintf("s holds j at (%d,%d), the running j is at (%d,%d); vector of s: %s, of j: %s", e.Generation, e.LogicalClock, own.Generation, own.LogicalClock,
					vvString(cluster.XVDump(s.nodes[ad1].actor.XVView().VersionVector)), vvString(cluster.XVDump(s.nodes[ad2].actor.XVView().VersionVector)))
		})
	})
	// (g) failure detection off: s and j converge, j crashes; 30 rounds later s still lists j (by design: nothing detects it)
	guarded(o, "witness", 7, func() {
		s := NewSim()
		w := &wit{s: s, name: "g", idx: 7, ffStart: 1250, rounds: 30, D: 50}
		s.now = 1000
		s.Start(Cfg{ID: "s", Addr: ad1, Seeds: []string{ad1}})
		s.now = 1010
		s.Start(Cfg{ID: "j", Addr: ad2, Seeds: []string{ad1}})
		ok := w.roundsAt(3, 1050)
		s.now = 1200
		s.Crash(ad2)
		s.hist.ffSince = 1250
		ok = w.roundsAt(30, 1250) && ok
		w.finish(o, ok, func() (bool, string) {
			_, sj := members(s.nodes[ad1])["j"]
			return sj, fmt.Sprintf("30 rounds after the crash of j (failure detection off) the seed lists j: %v", sj)
		})
	})
	// (i) the islands instance of the convergence theorem: A=[A], B=[B], C=[A,B] joins through A, D=[B]; every GossipMessage of
	// the start-up phase is lost; ONE canonical fair round; all four must list A, B, C, D
	guarded(o, "witness", 8, func() {
		s := NewSim()
		w := &wit{s: s, name: "i", idx: 8, ffStart: 1050, rounds: 1, D: 50, positive: true}
		ad4 := "127.0.0.1:4"
		s.now = 1000
		s.Start(Cfg{ID: "A", Addr: ad1, Seeds: []string{ad1}})
		s.now = 1010
		s.Start(Cfg{ID: "B", Addr: ad2, Seeds: []string{ad2}})
		s.now = 1020
		first := ad1
		s.askOK = func(src, dst string) bool { return true }
		s.Start(Cfg{ID: "C", Addr: ad3, Seeds: []string{ad1, ad2}})
		if m := members(s.nodes[ad3]); m["B"] != nil && m["A"] == nil {
			first = ad2
			w.idx = 10 // the shuffle of tryJoinSeeds made C ask B first: the model's schedule for that course
		}
		s.now = 1030
		s.Start(Cfg{ID: "D", Addr: ad4, Seeds: []string{ad2}})
		s.now = 1040
		for len(s.net) > 0 {
			s.Drop(0)
		}
		s.hist.ffSince = 1050
		ok := w.roundsAt(1, 1050)
		w.finish(o, ok, func() (bool, string) {
			all := true
			desc := ""
			for _, a := range []string{ad1, ad2, ad3, ad4} {
				m := members(s.nodes[a])
				if len(m) != 4 || m["A"] == nil || m["B"] == nil || m["C"] == nil || m["D"] == nil {
					all = false
				}
				desc += fmt.Sprintf("%s lists %d members; ", a, len(m))
			}
			return all, desc + "C joined through " + first
		})
	})
	// (h) two self-seeded nodes and nothing else: lock-step only (not a cluster: the seed lists do not connect them)
	guarded(o, "witness", 9, func() {
		s := NewSim()
		w := &wit{s: s, name: "h", idx: 9, ffStart: 1050, rounds: 30, D: 50, modelOnly: true}
		s.now = 1000
		s.Start(Cfg{ID: "A", Addr: ad1, Seeds: []string{ad1}})
		s.now = 1010
		s.Start(Cfg{ID: "B", Addr: ad2, Seeds: []string{ad2}})
		s.hist.ffSince = 1050
		ok := w.roundsAt(30, 1050)
		w.finish(o, ok, func() (bool, string) {
			return len(members(s.nodes[ad1])) == 1 && len(members(s.nodes[ad2])) == 1, "each of the two self-seeded nodes lists only itself"
		})
	})
}
