package main

import (
	"os"
	"time"

	"github.com/kercylan98/vivid/xverif/lib"
)

func main() {
	f := lib.ParseFlags()
	o := lib.NewOut(f.Out)
	s := NewSim()
	s.now = 1000
	seed := Cfg{ID: "s", Addr: "127.0.0.1:1", Seeds: []string{"127.0.0.1:1"}, FD: 300 * time.Nanosecond}
	j := Cfg{ID: "j", Addr: "127.0.0.1:2", Seeds: []string{"127.0.0.1:1"}, FD: 300 * time.Nanosecond}
	s.Start(seed)
	s.now += 10
	s.Start(j)
	for r := 0; r < 100; r++ {
		s.now += 50
		for len(s.net) > 0 {
			s.Deliver(0)
		}
		s.GossipTick(seed.Addr)
		s.GossipTick(j.Addr)
		for len(s.net) > 0 {
			s.Deliver(0)
		}
		if r%3 == 0 {
			s.FdTick(seed.Addr)
		}
		if r%3 == 1 {
			s.FdTick(j.Addr)
		}
	}
	in, out := s.Case()
	o.Case("demo", true, in, out)
	o.Close(f.Report)
	if len(o.Monitors) > 0 {
		os.Exit(3)
	}
}
