// gossip: lock-step correspondence cases and property-level monitors for C18 (gossip convergence).
//
// One case = one whole scenario: the schedule of process / timer / network steps that was executed on the REAL
// NodeActors (input) and, per step, the events they published, the GossipMessages they sent and the full state of the
// touched nodes (output).  coq/Cluster/GossipRun.v replays the schedule on the model and must print the same.
//
// The NodeActor draws from math/rand's global generator (rand.Shuffle of the seeds in tryJoinSeeds and of the gossip
// targets). So that a run is a function of -seed, the harness re-seeds that generator at the start of every scenario;
// since Go 1.24 rand.Seed only has an effect with the setting below.
//
//go:debug randseednop=0
package main

import (
	"fmt"
	mrand "math/rand"
	"os"
	"runtime"
	"sort"
	"strings"

	"github.com/kercylan98/vivid/xverif/lib"
)

// Monitor hits are aggregated over the whole run by (monitor, cause prefix): one reported hit per class, carrying
// the first occurrence and the number of scenarios, so that no class can be crowded out of the report.
type hitClass struct {
	name, detail string
	c            lib.T
	n            int
}

var (
	classes    = map[string]*hitClass{}
	classOrder []string
)

func record(o *lib.Out, c lib.T, h hit) {
	pre := h.detail
	if i := strings.IndexAny(pre, ":;"); i >= 0 {
		pre = pre[:i]
		if pre == "consequence-of" {
			if j := strings.Index(h.detail, ";"); j >= 0 {
				pre = h.detail[:j]
			}
		}
	}
	k := h.name + "|" + pre
	if cl := classes[k]; cl != nil {
		cl.n++
		return
	}
	classes[k] = &hitClass{h.name, h.detail, c, 1}
	classOrder = append(classOrder, k)
	o.Stats["hit-class:"+k]++
}

// rank: property-level hits on a failing history first, then witness bookkeeping, then harness-level problems
func rank(name string) int {
	switch {
	case strings.HasPrefix(name, "harness:"):
		return 2
	case strings.HasPrefix(name, "witness-"):
		return 1
	}
	return 0
}

func flushHits(o *lib.Out) {
	sort.SliceStable(classOrder, func(i, j int) bool { return rank(classes[classOrder[i]].name) < rank(classes[classOrder[j]].name) })
	for _, k := range classOrder {
		cl := classes[k]
		o.Monitor(cl.name, cl.c, fmt.Sprintf("%s [this class of hit occurred in %d scenarios of this run]", cl.detail, cl.n))
	}
}

func emit(o *lib.Out, kind string, idx int, s *Sim, hits []hit) {
	in, out := s.Case()
	o.Case(kind, len(s.steps) > 10, in, out)
	o.Stats["steps"] += len(s.steps)
	for _, h := range hits {
		record(o, lib.L(lib.S(kind), lib.NI(idx)), h)
	}
}

// guarded runs one scenario; a panic inside it (of the harness or of the code under test) becomes a named monitor hit
// carrying the scenario, and the run continues with the next scenario.
func guarded(o *lib.Out, kind string, idx int, f func()) {
	defer func() {
		if x := recover(); x != nil {
			buf := make([]byte, 4096)
			buf = buf[:runtime.Stack(buf, false)]
			record(o, lib.L(lib.S(kind), lib.NI(idx)), hit{"harness:panic", fmt.Sprintf("unexplained: panic while running %s #%d: %v | %s", kind, idx, x, strings.ReplaceAll(string(buf), "\n", " | "))})
		}
	}()
	f()
}

// reseed makes the global math/rand generator (used inside internal/cluster) a function of the harness seed.
func reseed(r *lib.Rand) { mrand.Seed(int64(r.U64() >> 1)) } //nolint:staticcheck

func main() {
	f := lib.ParseFlags()
	o := lib.NewOut(f.Out)
	r := lib.NewRand(f.Seed)
	thorough := f.Tier == "thorough"

	// short scenarios first (small enough for the in-Coq vm_compute cross-check of the extracted model)
	nMini := 32
	if thorough {
		nMini = 800
	}
	for i := 0; i < nMini; i++ {
		reseed(r)
		rr := r.Fork()
		guarded(o, "scenario-mini", i, func() {
			s := miniScenario(rr)
			emit(o, "scenario-mini", i, s, nil)
		})
	}

	reseed(r)
	witnesses(o)

	n := map[string]int{"join": 45, "islands": 10, "seedsplit": 10, "pending": 8, "restart": 12, "leave": 8, "fd": 25}
	if thorough {
		n = map[string]int{"join": 900, "islands": 200, "seedsplit": 200, "pending": 300, "restart": 240, "leave": 160, "fd": 500}
	}
	if f.N > 0 {
		n = map[string]int{"join": f.N, "islands": f.N / 4, "seedsplit": f.N / 4, "pending": f.N / 4, "restart": f.N / 4, "leave": f.N / 4, "fd": f.N / 2}
	}
	idx := 0
	for _, class := range []string{"join", "islands", "seedsplit", "pending", "restart", "leave", "fd"} {
		for i := 0; i < n[class]; i++ {
			idx++
			reseed(r)
			rr := r.Fork()
			guarded(o, "scenario-"+class, idx, func() {
				s, sc, hits := randomScenario(rr, idx, class, i%5 == 4, i)
				emit(o, "scenario-"+class, idx, s, hits)
				o.Stats[fmt.Sprintf("nodes=%d", len(sc.s.nodes)+len(sc.stopped))]++
				if os.Getenv("XV_GOSSIP_TRACE") != "" {
					fmt.Fprintf(os.Stderr, "%s steps=%d hits=%d\n", sc.name, len(s.steps), len(hits))
				}
			})
		}
	}
	flushHits(o)
	o.Info["joins_accepted_by_a_node_whose_own_join_was_pending"] = pendingAccepts
	if lastUnavailable {
		o.Info["observation_last_version_vector_table"] = "UNAVAILABLE: no field of NodeActor (or of a struct it holds) maps address strings to VersionVector; the component is projected out of the lock-step comparison, everything else (views, members, vectors, leader, events, packets, timers) is still compared"
	} else {
		o.Info["observation_last_version_vector_table"] = "observed at " + lastWhere
	}
	o.Close(f.Report)
	if len(o.Monitors) > 0 {
		os.Exit(3)
	}
}
