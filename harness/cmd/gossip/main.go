// gossip: lock-step correspondence cases and property-level monitors for C18 (gossip convergence).
//
// One case = one whole scenario: the schedule of process / timer / network steps that was executed on the REAL
// NodeActors (input) and, per step, the events they published, the GossipMessages they sent and the full state of the
// touched nodes (output).  coq/Cluster/GossipRun.v replays the schedule on the model and must print the same.
package main

import (
	"fmt"
	"os"

	"github.com/kercylan98/vivid/xverif/lib"
)

func emit(o *lib.Out, kind string, idx int, s *Sim, hits []hit) {
	in, out := s.Case()
	o.Case(kind, len(s.steps) > 10, in, out)
	o.Stats["steps"] += len(s.steps)
	for _, h := range hits {
		o.Monitor(h.name, lib.L(lib.S(kind), lib.NI(idx)), h.detail)
	}
}

func main() {
	f := lib.ParseFlags()
	o := lib.NewOut(f.Out)
	r := lib.NewRand(f.Seed)
	thorough := f.Tier == "thorough"

	witnesses(o)

	n := map[string]int{"join": 45, "restart": 12, "leave": 8, "fd": 25}
	if thorough {
		n = map[string]int{"join": 1500, "restart": 400, "leave": 200, "fd": 700}
	}
	if f.N > 0 {
		n = map[string]int{"join": f.N, "restart": f.N / 4, "leave": f.N / 4, "fd": f.N / 2}
	}
	idx := 0
	for _, class := range []string{"join", "restart", "leave", "fd"} {
		for i := 0; i < n[class]; i++ {
			idx++
			s, sc, hits := randomScenario(r.Fork(), idx, class, i%5 == 4)
			emit(o, "scenario-"+class, idx, s, hits)
			o.Stats[fmt.Sprintf("nodes=%d", len(sc.s.nodes)+len(sc.stopped))]++
			if os.Getenv("XV_GOSSIP_TRACE") != "" {
				fmt.Fprintf(os.Stderr, "%s steps=%d hits=%d\n", sc.name, len(s.steps), len(hits))
			}
		}
	}
	o.Close(f.Report)
	if len(o.Monitors) > 0 {
		os.Exit(3)
	}
}
