package main

// Canonical dumps of the real NodeActor state, in the term format of coq/Cluster/ViewRun.v (t_state, t_view)
// and coq/Cluster/GossipRun.v (t_node).

import (
	"sort"

	"github.com/kercylan98/vivid/internal/cluster"
	"github.com/kercylan98/vivid/xverif/lib"
)

func tVV(m map[string]uint64) lib.T {
	ks := make([]string, 0, len(m))
	for k := range m {
		ks = append(ks, k)
	}
	sort.Strings(ks)
	ts := make([]lib.T, len(ks))
	for i, k := range ks {
		ts[i] = lib.L(lib.S(k), lib.N(m[k]))
	}
	return lib.LS(ts)
}

func tState(n *cluster.NodeState) lib.T {
	return lib.L(lib.S(n.ID), lib.S(n.Address), lib.Z(int64(n.Generation)), lib.Z(n.Timestamp), lib.N(n.SeqNo),
		lib.Z(int64(n.Status)), lib.N(n.LogicalClock), lib.Z(n.LastSeen))
}

func tView(v *cluster.ClusterView) lib.T {
	ks := make([]string, 0, len(v.Members))
	for k, m := range v.Members {
		if m != nil {
			ks = append(ks, k)
		}
	}
	sort.Strings(ks)
	ms := make([]lib.T, len(ks))
	for i, k := range ks {
		ms[i] = lib.L(lib.S(k), tState(v.Members[k]))
	}
	return lib.L(lib.Z(v.Epoch), lib.Z(v.Timestamp), lib.Z(int64(v.MaxVersionVectorEntries)), lib.N(uint64(v.ProtocolVersion)),
		lib.L(lib.NI(v.HealthyCount), lib.NI(v.UnhealthyCount), lib.NI(v.QuorumSize)), lib.LS(ms), tVV(cluster.XVDump(v.VersionVector)))
}

// lastUnavailable: the per-peer last-vector table of the NodeActor could not be located (xv_gossip_verif.go XVLast): its
// dump is () in every node state, every case carries the option "hide the last-vector table" so that the model prints
// () too (coq/Cluster/GossipRun.v), and the report says that this observation is UNAVAILABLE.
var lastUnavailable bool

// lastWhere: where the accessor found the table (reported in the evidence)
var lastWhere = ""

func tNode(n *SNode) lib.T {
	a := n.actor
	last, lastOK := a.XVLast()
	if !lastOK {
		lastUnavailable = true
	} else if lastWhere == "" {
		lastWhere = a.XVLastWhere()
	}
	ks := make([]string, 0, len(last))
	for k := range last {
		ks = append(ks, k)
	}
	sort.Strings(ks)
	ls := make([]lib.T, len(ks))
	for i, k := range ks {
		ls[i] = lib.L(lib.S(k), tVV(last[k]))
	}
	inq, leader, dc := a.XVPublished()
	dch := lib.L()
	if h, ok := dc["_default"]; ok {
		dch = lib.L(lib.Bool(h))
	}
	return lib.L(tState(a.XVSelf()), tView(a.XVView()), lib.LS(ls),
		lib.L(lib.Bool(n.timers[cluster.SchedRefGossip]), lib.Bool(n.timers[cluster.SchedRefFailureDetection]), lib.Bool(n.timers[cluster.SchedRefJoinRetry])),
		lib.Bool(inq), lib.S(leader), dch, lib.S(cluster.ComputeLeaderAddr(a.XVView())))
}
