// syslife: correspondence cases and implementation-side monitors for C07 (System Start / Stop / context
// cancel state machine).
//
// Tier A - real-time differential (runs first): real systems built with the real (instrumented but
// un-scheduled: every vsched call falls through to the real operation) code, actor trees of depth 0-3,
// with / without remoting on loopback, call sequences of <= 2 Start, <= 3 Stop (with / without timeout),
// <= 1 cancel, issued one after the other in every order and concurrently (released by a barrier, repeated
// under GOMAXPROCS variations). One case = (scenario, calls, observed return codes); the model answers
// whether the vector is admissible (Lifecycle.admissible). Monitors: hang (call not back after 10x its
// timeout), slow repeat (a non-effective Start/Stop taking > 1 s), return value outside the table,
// stop overrunning its timeout, after Stop returned nil: actors still alive / guardClosedSignal open /
// scheduler running / goroutines of vivid or go-quartz that persist. First of all: Start || Stop (|| Stop / cancel / Start)
// on systems WITH metrics (the start-up chain takes actorOfLock under statusLock; no TCP port) under a 3 s
// watchdog: a lock-order deadlock between System methods is reported as c07-start-stop-deadlock, naming the lock
// held / wanted at each site (bookkeeping of the instrumented locks in vsched) and the blocked call paths.
//
// Tier B - lock-step: system.go and system_chains.go are instrumented from the current source (profile
// "system") and run under the controlled scheduler (DFS with preemption bound + random schedules) on systems
// without user actors; termination of the root actor is an explicit environment step of the schedule. One
// case = one complete schedule; every step's (label, status, s.Context != nil, ctx cancelled, #guard
// goroutines) plus the final per-call results and verdict are replayed on System/Lifecycle.v.
// statusLock AND actorOfLock are controlled locks; part of the runs use metrics-enabled systems, whose start-up
// chain calls System.ActorOf under statusLock. A run in which every thread is parked in front of a lock whose
// holder is parked in front of a lock is reported as c07-start-stop-deadlock with the cycle and the schedule.
// Per run, the lock operations of every thread are one case (kind 3) for the lock view System/LockOrder.v.
package main

import (
	"context"
	"errors"
	"fmt"
	"net"
	"os"
	"regexp"
	"runtime"
	"sort"
	"strings"
	"sync"
	"sync/atomic"
	"time"

	"github.com/kercylan98/vivid"
	"github.com/kercylan98/vivid/internal/actor"
	"github.com/kercylan98/vivid/pkg/log"
	"github.com/kercylan98/vivid/xverif/lib"
	"github.com/kercylan98/vivid/xverif/vsched"
)

const (
	kStart  = 0
	kStop   = 1
	kCancel = 2
)

func code(err error) int {
	if err == nil {
		return 0
	}
	var ve *vivid.Error
	if errors.As(err, &ve) {
		switch ve.GetCode() {
		case 100001:
			return 1
		case 100002:
			return 2
		case 100005:
			return 3
		case 100004:
			return 4
		case 100003:
			return 10 + code(errors.Unwrap(err))
		}
	}
	return 99
}

func codeName(c int) string {
	switch {
	case c == 0:
		return "nil"
	case c == 1:
		return "already-started"
	case c == 2:
		return "already-stopped"
	case c == 3:
		return "not-started"
	case c == 4:
		return "stop-failed"
	case c >= 10 && c < 99:
		return "start-failed(" + codeName(c-10) + ")"
	case c == -1:
		return "NOT-RETURNED"
	}
	return fmt.Sprintf("other(%d)", c)
}

// ---------------------------------------------------------------------------------------------------
// goroutine inventory

var goroutineHdr = regexp.MustCompile(`^goroutine (\d+) \[`)

func allStacks() map[string]string {
	buf := make([]byte, 1<<20)
	for {
		n := runtime.Stack(buf, true)
		if n < len(buf) {
			buf = buf[:n]
			break
		}
		buf = make([]byte, 2*len(buf))
	}
	out := map[string]string{}
	for _, blk := range strings.Split(string(buf), "\n\n") {
		m := goroutineHdr.FindStringSubmatch(blk)
		if m != nil {
			out[m[1]] = blk
		}
	}
	return out
}

func isLibraryGoroutine(blk string) bool {
	// created by the harness itself (call runners, watchdogs): not the system's
	if i := strings.LastIndex(blk, "created by "); i >= 0 {
		if strings.HasPrefix(blk[i+len("created by "):], "main.") {
			return false
		}
	}
	for _, pat := range []string{"github.com/kercylan98/vivid/internal/", "github.com/kercylan98/vivid/pkg/", "github.com/kercylan98/vivid.", "github.com/reugn/go-quartz"} {
		if strings.Contains(blk, pat) {
			return true
		}
	}
	return false
}

// leaked returns the library goroutines that did not exist in base.
func leaked(base map[string]string) map[string]string {
	out := map[string]string{}
	for id, blk := range allStacks() {
		if _, old := base[id]; old {
			continue
		}
		if isLibraryGoroutine(blk) {
			out[id] = blk
		}
	}
	return out
}

// persistentLeak polls up to 3 s; a leak is reported only if the same goroutines are present in 3
// consecutive samples 200 ms apart at the end of that time.
func persistentLeak(base map[string]string) []string {
	deadline := time.Now().Add(3 * time.Second)
	for k := 0; ; k++ {
		l := leaked(base)
		if len(l) == 0 {
			return nil
		}
		if time.Now().After(deadline) {
			break
		}
		if k < 40 {
			time.Sleep(250 * time.Microsecond)
		} else {
			time.Sleep(20 * time.Millisecond)
		}
	}
	cur := leaked(base)
	for k := 0; k < 2; k++ {
		time.Sleep(200 * time.Millisecond)
		nxt := leaked(base)
		for id := range cur {
			if _, ok := nxt[id]; !ok {
				delete(cur, id)
			}
		}
	}
	var out []string
	for _, blk := range cur {
		out = append(out, blk)
	}
	sort.Strings(out)
	return out
}

// ---------------------------------------------------------------------------------------------------
// scripted actor tree

type treeStats struct {
	launched atomic.Int64
	killed   atomic.Int64
	unblock  chan struct{}
	blocks   bool
}

type node struct {
	t     *treeStats
	depth int
	width int
}

func (n *node) OnReceive(ctx vivid.ActorContext) {
	switch m := ctx.Message().(type) {
	case *vivid.OnLaunch:
		n.t.launched.Add(1)
		for i := 0; i < n.width && n.depth > 1; i++ {
			_, _ = ctx.ActorOf(&node{t: n.t, depth: n.depth - 1, width: n.width})
		}
	case *vivid.OnKill:
		if n.t.blocks {
			<-n.t.unblock
		}
	case *vivid.OnKilled:
		if m.Ref.Equals(ctx.Ref()) {
			n.t.killed.Add(1)
		}
	}
}

func treeSize(depth, width int) int {
	total, level := 0, 1
	for d := 0; d < depth; d++ {
		total += level
		level *= width
	}
	return total
}

// ---------------------------------------------------------------------------------------------------
// tier A: real-time differential

type rcall struct {
	kind   int
	hasTmo bool
	tmo    time.Duration
	short  bool // the timeout may expire before the tree has terminated
}

type scenario struct {
	calls      []rcall
	prefix     int // the first prefix calls are issued one after the other, the rest together
	depth      int
	remoting   bool
	cluster    bool          // single-node cluster on loopback: Stop first leaves the cluster (Context.Leave)
	metrics    bool          // metrics enabled: the start-up chain calls System.ActorOf("@metrics") (actorOfLock) under statusLock; no TCP port
	watchdog   time.Duration // > 0: hang limit of every call of this scenario (instead of 10x the stop timeout)
	startFails int           // 0 no; 1 invalid advertise address (NewContext of the root fails); (2 remoting port already in use: Start still returns nil, the listen error is handled by the server actor later - not used)
	blocks     bool
	gomax      int
}

type callResult struct {
	code int
	dur  time.Duration
	done bool
}

func freeAddr() string {
	l, err := net.Listen("tcp", "127.0.0.1:0")
	if err != nil {
		return "127.0.0.1:0"
	}
	a := l.Addr().String()
	l.Close()
	return a
}

func (sc scenario) term(obs []int, blocks bool) lib.T {
	calls := make([]lib.T, len(sc.calls))
	for i, c := range sc.calls {
		switch c.kind {
		case kStart:
			calls[i] = lib.L(lib.N(0))
		case kStop:
			calls[i] = lib.L(lib.N(1), lib.Bool(c.short))
		default:
			calls[i] = lib.L(lib.N(2))
		}
	}
	o := make([]lib.T, len(obs))
	for i, c := range obs {
		if c < 0 {
			c = 98
		}
		o[i] = lib.NI(c)
	}
	return lib.L(lib.N(2), lib.L(lib.NI(sc.prefix), lib.Bool(sc.startFails != 0), lib.Bool(blocks)), lib.LS(calls), lib.LS(o))
}

func (sc scenario) describe() string {
	var parts []string
	for i, c := range sc.calls {
		s := ""
		switch c.kind {
		case kStart:
			s = "Start"
		case kStop:
			s = "Stop"
			if c.hasTmo {
				s += "(" + c.tmo.String() + ")"
			}
		default:
			s = "cancel"
		}
		if i == sc.prefix && sc.prefix < len(sc.calls) {
			s = "|| " + s
		}
		parts = append(parts, s)
	}
	return fmt.Sprintf("[%s] prefix=%d depth=%d remoting=%v cluster=%v metrics=%v startFails=%v blocks=%v GOMAXPROCS=%d", strings.Join(parts, ", "), sc.prefix, sc.depth, sc.remoting, sc.cluster, sc.metrics, sc.startFails, sc.blocks, sc.gomax)
}

type H struct {
	o              *lib.Out
	raceHit        int
	abortB         bool
	abortA         bool // a call hung: every further scenario would wait for its hang limit again
	unexpectedFail int
	loSeen         map[string]bool
}

func (h *H) runScenario(sc scenario) {
	if h.abortA {
		h.o.Stats["rt-skipped-after-hang"]++
		return
	}
	if sc.gomax > 0 {
		defer runtime.GOMAXPROCS(runtime.GOMAXPROCS(sc.gomax))
	}
	base := allStacks()
	parent, cancelParent := context.WithCancel(context.Background())
	sysTimeout := 1500 * time.Millisecond
	if sc.blocks {
		sysTimeout = 150 * time.Millisecond
	}
	opts := []vivid.ActorSystemOption{
		vivid.WithActorSystemContext(parent),
		vivid.WithActorSystemLogger(log.NewSilentLogger()),
		vivid.WithActorSystemStopTimeout(sysTimeout),
	}
	if sc.metrics {
		opts = append(opts, vivid.WithActorSystemEnableMetrics(true))
	}
	var busy net.Listener
	if sc.startFails == 1 {
		opts = append(opts, vivid.WithActorSystemRemoting("127.0.0.1")) // no port: the root reference cannot be built
	} else if sc.startFails == 2 {
		if l, err := net.Listen("tcp", "127.0.0.1:0"); err == nil {
			busy = l
			opts = append(opts, vivid.WithActorSystemRemoting(l.Addr().String())) // the port is taken: the server cannot listen
		}
	} else if sc.cluster {
		opts = append(opts, vivid.WithActorSystemRemoting(freeAddr()),
			vivid.WithActorSystemRemotingOptions(vivid.NewActorSystemRemotingOptions(), vivid.WithActorSystemRemotingClusterOption()))
	} else if sc.remoting {
		opts = append(opts, vivid.WithActorSystemRemoting(freeAddr()))
	}
	sys := actor.NewSystem(opts...)
	ts := &treeStats{unblock: make(chan struct{}), blocks: sc.blocks}
	treeBuilt := false
	res := make([]callResult, len(sc.calls))
	for i := range res {
		res[i].code = -1
	}
	hung := false

	doCall := func(i int) {
		c := sc.calls[i]
		t0 := time.Now()
		var err error
		switch c.kind {
		case kStart:
			err = sys.Start()
		case kStop:
			if c.hasTmo {
				err = sys.Stop(c.tmo)
			} else {
				err = sys.Stop()
			}
		default:
			cancelParent()
		}
		res[i] = callResult{code: code(err), dur: time.Since(t0), done: true}
	}
	limitOf := func(c rcall) time.Duration {
		if sc.watchdog > 0 {
			return sc.watchdog
		}
		t := sysTimeout
		if c.kind == kStop && c.hasTmo {
			t = c.tmo
		}
		l := 10 * t
		if l < 3*time.Second {
			l = 3 * time.Second
		}
		return l
	}
	// wait for a set of calls (each running in its own goroutine) with the hang limit
	await := func(idx []int, dones []chan struct{}) {
		for k, i := range idx {
			if hung {
				break // one report per scenario: the other calls of a wedged system are wedged too
			}
			select {
			case <-dones[k]:
			case <-time.After(limitOf(sc.calls[i])):
				hung = true
				h.abortA = true
				stacks := allStacks()
				var blocked []string
				for _, blk := range stacks {
					// (goroutines of an abandoned controlled run that are stuck for good are not this scenario's)
					if strings.Contains(blk, "internal/actor.(*System)") && !strings.Contains(blk, "main.(*H).lockstep") {
						blocked = append(blocked, blk)
					}
				}
				sort.Strings(blocked)
				if cyc := lockCycleReport(blocked); cyc != "" {
					h.o.Monitor("c07-start-stop-deadlock", sc.term(nil, sc.blocks), fmt.Sprintf("%s: call #%d has not returned after %v and never will: LOCK-ORDER DEADLOCK between System methods.\n%s\ngoroutines inside System methods:\n%s",
						sc.describe(), i, limitOf(sc.calls[i]), cyc, strings.Join(blocked, "\n\n")))
				}
				h.o.Monitor("hang", sc.term(nil, sc.blocks), fmt.Sprintf("%s: call #%d has not returned after %v (10x its timeout, at least 3 s). goroutines inside System methods:\n%s",
					sc.describe(), i, limitOf(sc.calls[i]), strings.Join(blocked, "\n\n")))
			}
		}
	}
	buildTree := func() {
		if treeBuilt || sc.depth == 0 {
			return
		}
		treeBuilt = true
		if _, err := sys.ActorOf(&node{t: ts, depth: sc.depth, width: 2}); err != nil {
			return
		}
		want := int64(treeSize(sc.depth, 2))
		for dl := time.Now().Add(2 * time.Second); ts.launched.Load() < want && time.Now().Before(dl); {
			time.Sleep(200 * time.Microsecond)
		}
	}

	// sequential prefix
	for i := 0; i < sc.prefix && i < len(sc.calls) && !hung; i++ {
		done := make(chan struct{})
		i := i
		go func() { doCall(i); close(done) }()
		await([]int{i}, []chan struct{}{done})
		if !hung && sc.calls[i].kind == kStart && res[i].code == 0 && parent.Err() == nil {
			// (with the context already cancelled the guard goroutine is stopping the system right now: actors
			// spawned under the dying root would not belong to the tree that Stop has to terminate)
			buildTree()
		}
	}
	// concurrent batch
	if sc.prefix < len(sc.calls) && !hung {
		var idx []int
		var dones []chan struct{}
		var ready sync.WaitGroup
		var gate atomic.Bool
		for i := sc.prefix; i < len(sc.calls); i++ {
			i := i
			done := make(chan struct{})
			idx = append(idx, i)
			dones = append(dones, done)
			ready.Add(1)
			go func() {
				ready.Done()
				for !gate.Load() { // spin barrier: release all calls as simultaneously as possible
					if sc.gomax == 1 {
						runtime.Gosched()
					}
				}
				doCall(i)
				close(done)
			}()
		}
		ready.Wait()
		gate.Store(true)
		await(idx, dones)
	}

	obs := make([]int, len(res))
	allDone := true
	for i, r := range res {
		obs[i] = r.code
		if !r.done {
			allDone = false
		}
	}
	in := sc.term(obs, sc.blocks && treeBuilt) // the tree blocks only if it exists
	if allDone {
		kind := fmt.Sprintf("rt-calls=%d", len(sc.calls))
		if sc.prefix < len(sc.calls) {
			kind += "-concurrent"
		}
		h.o.Case(kind, len(sc.calls) >= 3, in, lib.N(1))
	}
	h.o.Stats[fmt.Sprintf("rt-depth=%d", sc.depth)]++
	if sc.remoting {
		h.o.Stats["rt-remoting"]++
	}
	if sc.metrics {
		h.o.Stats["rt-metrics"]++
	}

	// ---- monitors ----
	effective := -1 // index of the call that stopped the system (returned nil / stop-failed from a stop)
	stopNil := false
	for i, r := range res {
		if !r.done {
			continue
		}
		c := sc.calls[i]
		ok := false
		switch c.kind {
		case kStart:
			ok = r.code == 0 || r.code == 1 || r.code == 2 || r.code == 10 || r.code == 12 || r.code == 14
			if r.code == 10 {
				stopNil = true
			}
		case kStop:
			ok = r.code == 0 || r.code == 2 || r.code == 3 || r.code == 4
			if r.code == 0 || r.code == 4 {
				if effective >= 0 {
					h.o.Monitor("two-effective-stops", in, fmt.Sprintf("%s: calls #%d and #%d both returned %s/%s", sc.describe(), effective, i, codeName(res[effective].code), codeName(r.code)))
				}
				effective = i
			}
			if r.code == 0 {
				stopNil = true
			}
		default:
			ok = true
		}
		if !ok {
			h.o.Monitor("return-outside-table", in, fmt.Sprintf("%s: call #%d returned %s", sc.describe(), i, codeName(r.code)))
		}
		isEffective := c.kind == kStop && (r.code == 0 || r.code == 4) || c.kind == kStart && r.code >= 10
		if !isEffective && c.kind != kCancel && r.dur > time.Second {
			h.o.Monitor("slow-repeat", in, fmt.Sprintf("%s: call #%d (%s) took %v although it is not the effective stop", sc.describe(), i, codeName(r.code), r.dur))
		}
		if c.kind == kStop && (r.code == 0 || r.code == 4) {
			t := sysTimeout
			if c.hasTmo {
				t = c.tmo
			}
			if r.code == 4 && !c.short && !(sc.blocks && treeBuilt) {
				h.o.Monitor("stop-failed-without-cause", in, fmt.Sprintf("%s: Stop #%d returned stop-failed after %v (timeout %v) although the actor tree (depth %d) does not block", sc.describe(), i, r.dur, t, sc.depth))
				h.unexpectedFail++
				if h.unexpectedFail >= 3 {
					h.abortA = true // every further stop would wait for its whole timeout again
				}
			}
			if r.dur > t+time.Second {
				h.o.Monitor("stop-overran-timeout", in, fmt.Sprintf("%s: Stop #%d returned %s after %v, timeout %v", sc.describe(), i, codeName(r.code), r.dur, t))
			}
		}
	}
	if sc.prefix >= len(sc.calls) && sc.startFails == 0 {
		for i, c := range sc.calls {
			if c.kind == kStart {
				if res[i].done && res[i].code != 0 {
					h.o.Monitor("first-start-not-nil", in, fmt.Sprintf("%s: the first Start of the sequence returned %s (Stop before Start must leave the system startable)", sc.describe(), codeName(res[i].code)))
				}
				break
			}
		}
	}
	started := false
	cancelled := false
	for i, c := range sc.calls {
		if c.kind == kStart && res[i].done && res[i].code == 0 {
			started = true
		}
		if c.kind == kCancel && res[i].done {
			cancelled = true
		}
	}
	if !hung && allDone && !sc.blocks {
		expectDown := stopNil
		why := "a Stop returned nil"
		if !expectDown && started && cancelled && effective < 0 {
			// cancel after a successful Start and no effective explicit Stop: the guard goroutine stops the system
			expectDown = true
			why = "the context was cancelled after a successful Start"
			select {
			case <-actor.XVSysGuardClosed(sys):
			case <-time.After(sysTimeout + time.Second):
			}
		}
		if expectDown {
			h.o.Stats["rt-checked-after-stop"]++
			var problems []string
			hasRoot := actor.XVSysHasCtx(sys)
			if !hasRoot && started {
				problems = append(problems, "a Start returned nil but system.Context is nil")
			}
			if hasRoot {
				select {
				case <-actor.XVSysGuardClosed(sys):
				default:
					problems = append(problems, "guardClosedSignal is not closed (the root actor was not terminated)")
				}
			}
			if st := actor.XVSysStatus(sys); st != 2 {
				problems = append(problems, fmt.Sprintf("status=%d", st))
			}
			for dl := time.Now().Add(2 * time.Second); ts.killed.Load() < ts.launched.Load() && time.Now().Before(dl); {
				time.Sleep(time.Millisecond)
			}
			if k, l := ts.killed.Load(), ts.launched.Load(); k < l {
				problems = append(problems, fmt.Sprintf("%d of %d user actors never received their own OnKilled", l-k, l))
			}
			if hasRoot && !actor.XVSysCtxDone(sys) {
				problems = append(problems, "the system context is not cancelled")
			}
			if len(problems) > 0 {
				name := "stop-nil-system-running"
				guardOpen := true
				select {
				case <-actor.XVSysGuardClosed(sys):
					guardOpen = false
				default:
				}
				if stopNil && hasRoot && guardOpen {
					// a stop returned nil although the root exists and was never terminated: the signature of a stop that read
					// s.Context == nil and skipped Kill(root) and s.cancel()
					name = "stop-skipped-kill-and-cancel"
				}
				h.o.Monitor(name, in, fmt.Sprintf("%s: %s (codes %v) but: %s", sc.describe(), why, names(obs), strings.Join(problems, "; ")))
				h.raceHit++
			} else {
				for dl := time.Now().Add(time.Second); actor.XVSysSchedStarted(sys) && time.Now().Before(dl); {
					time.Sleep(time.Millisecond)
				}
				if actor.XVSysSchedStarted(sys) {
					h.o.Monitor("scheduler-running-after-stop", in, fmt.Sprintf("%s: %s but the quartz scheduler is still started", sc.describe(), why))
				}
				if l := persistentLeak(base); len(l) > 0 {
					h.o.Monitor("goroutine-leak", in, fmt.Sprintf("%s: %s; %d goroutine(s) of the system still exist 3 s later:\n%s", sc.describe(), why, len(l), strings.Join(l, "\n\n")))
				}
			}
		}
	}
	// ---- cleanup ----
	if busy != nil {
		busy.Close()
	}
	close(ts.unblock)
	cancelParent()
	stopped := make(chan struct{})
	go func() { _ = sys.Stop(50 * time.Millisecond); close(stopped) }()
	select {
	case <-stopped:
	case <-time.After(2 * time.Second):
	}
}

// lockCycleReport: at least two instrumented locks of the system (statusLock, actorOfLock) are each HELD by one call
// site and WANTED by another, and goroutines of System methods are parked in sync.Mutex.Lock: the description of who
// holds what and who waits where ("" if that is not the situation).
func lockCycleReport(blocked []string) string {
	rep := vsched.RealLockReport()
	var lines []string
	heldAndWanted := 0
	for _, r := range rep {
		var ws []string
		for l, n := range r.Waiters {
			ws = append(ws, fmt.Sprintf("%q (%d goroutine(s))", l, n))
		}
		sort.Strings(ws)
		if r.HeldSince != "" {
			heldAndWanted++
			lines = append(lines, fmt.Sprintf("%s is held by the call at %q and wanted at %s", r.Name, r.HeldSince, strings.Join(ws, ", ")))
		} else {
			lines = append(lines, fmt.Sprintf("%s is wanted at %s", r.Name, strings.Join(ws, ", ")))
		}
	}
	sort.Strings(lines)
	inMutex := 0
	var sites []string
	for _, blk := range blocked {
		if !strings.Contains(blk, "[sync.Mutex.Lock") {
			continue
		}
		inMutex++
		// the vivid frames of the goroutine, innermost first: the lock site and how it was reached
		var path []string
		ls := strings.Split(blk, "\n")
		for i := 0; i+1 < len(ls); i++ {
			if strings.Contains(ls[i], "vivid/internal/actor.") && !strings.HasPrefix(ls[i], "created by") {
				fn := ls[i]
				if k := strings.Index(fn, "vivid/internal/actor."); k >= 0 {
					fn = fn[k+len("vivid/internal/"):]
				}
				if k := strings.LastIndex(fn, "("); k > 0 {
					fn = fn[:k]
				}
				loc := strings.TrimSpace(ls[i+1])
				if k := strings.Index(loc, " +0x"); k > 0 {
					loc = loc[:k]
				}
				if k := strings.LastIndex(loc, "/"); k >= 0 {
					loc = loc[k+1:]
				}
				path = append(path, fn+" ("+loc+")")
			}
		}
		if len(path) > 0 {
			sites = append(sites, "blocked in sync.Mutex.Lock: "+strings.Join(path, " <- "))
		}
	}
	if heldAndWanted < 2 || inMutex < 2 {
		return ""
	}
	sort.Strings(sites)
	return "lock sites (labels = function:Lock:lock expression of the instrumented system.go):\n  " + strings.Join(lines, "\n  ") + "\n  " + strings.Join(sites, "\n  ") +
		"\n  (line numbers are those of the instrumented copy of system.go: a few lines below the original)"
}

// quiesce waits until no goroutine is inside System.Start / Stop / stop any more (the controlled scheduler
// must not be installed while ordinary goroutines still run instrumented code).
func quiesce(d time.Duration) bool {
	for dl := time.Now().Add(d); ; {
		busy := false
		for _, blk := range allStacks() {
			if strings.Contains(blk, "internal/actor.(*System).Start") || strings.Contains(blk, "internal/actor.(*System).stop") {
				busy = true
				break
			}
		}
		if !busy {
			return true
		}
		if time.Now().After(dl) {
			return false
		}
		time.Sleep(5 * time.Millisecond)
	}
}

func names(obs []int) []string {
	out := make([]string, len(obs))
	for i, c := range obs {
		out[i] = codeName(c)
	}
	return out
}

// all orderings of a multiset given as counts (starts, stops, cancels)
func orderings(ns, nt, nc int) [][]int {
	var out [][]int
	var rec func(cur []int, s, t, c int)
	rec = func(cur []int, s, t, c int) {
		if s == 0 && t == 0 && c == 0 {
			out = append(out, append([]int(nil), cur...))
			return
		}
		if s > 0 {
			rec(append(cur, kStart), s-1, t, c)
		}
		if t > 0 {
			rec(append(cur, kStop), s, t-1, c)
		}
		if c > 0 {
			rec(append(cur, kCancel), s, t, c-1)
		}
	}
	rec(nil, ns, nt, nc)
	return out
}

func (h *H) tierA(r *lib.Rand, thorough bool) {
	mk := func(kinds []int, variant int) []rcall {
		out := make([]rcall, len(kinds))
		nstop := 0
		for i, k := range kinds {
			out[i] = rcall{kind: k}
			if k == kStop {
				switch (variant + nstop) % 3 {
				case 1:
					out[i].hasTmo, out[i].tmo = true, time.Second
				case 2:
					out[i].hasTmo, out[i].tmo, out[i].short = true, 200*time.Microsecond, true
				}
				nstop++
			}
		}
		return out
	}
	nScen := 0
	// (0) Start || Stop (and || a second Stop / cancel) on systems WITH metrics: the start-up chain spawns @metrics
	// through System.ActorOf, i.e. takes actorOfLock while Start holds statusLock - any Stop-side code that takes the
	// two locks in the other order deadlocks here. Watchdog 3 s per call (the stop timeout is 1.5 s).
	nm := 400
	if thorough {
		nm = 6000
	}
	mshapes := [][]rcall{
		{{kind: kStart}, {kind: kStop, hasTmo: true, tmo: time.Second}},
		{{kind: kStart}, {kind: kStop}, {kind: kStop, hasTmo: true, tmo: time.Second}},
		{{kind: kStart}, {kind: kCancel}, {kind: kStop, hasTmo: true, tmo: time.Second}},
		{{kind: kStart}, {kind: kStart}, {kind: kStop, hasTmo: true, tmo: time.Second}},
	}
	for i := 0; i < nm && !h.abortA; i++ {
		shape := mshapes[0]
		if i%4 == 3 {
			shape = mshapes[1+(i/4)%3]
		}
		h.runScenario(scenario{calls: shape, prefix: 0, metrics: true, watchdog: 3 * time.Second, gomax: []int{2, 4, 8, 16}[i%4]})
	}
	h.o.Info["rt_metrics_race_attempts"] = nm
	// (1) sequential, every order of every multiset
	for ns := 0; ns <= 2; ns++ {
		for nt := 0; nt <= 3; nt++ {
			for nc := 0; nc <= 1; nc++ {
				if ns+nt+nc == 0 {
					continue
				}
				ords := orderings(ns, nt, nc)
				for oi, o := range ords {
					if !thorough && len(o) >= 5 && oi%4 != int(r.Intn(4)) {
						continue // quick: a quarter of the longest sequences
					}
					depth := []int{0, 1, 2, 3}[(oi+ns+nt)%4]
					if !thorough && depth == 3 {
						depth = 2
					}
					h.runScenario(scenario{calls: mk(o, oi), prefix: len(o), depth: depth})
					nScen++
				}
			}
		}
	}
	h.o.Info["rt_sequential_scenarios"] = nScen
	// (2) start-up failure and a tree that does not terminate within the timeouts
	special := [][]int{{kStart}, {kStart, kStop}, {kStart, kStart, kStop, kStop}, {kStop, kStart, kStop}, {kStart, kCancel, kStop}}
	for _, o := range special {
		h.runScenario(scenario{calls: mk(o, 0), prefix: len(o), startFails: 1})
		h.runScenario(scenario{calls: mk(o, 0), prefix: 0, startFails: 1})
		c := mk(o, 0)
		for i := range c {
			if c[i].kind == kStop {
				c[i].hasTmo, c[i].tmo, c[i].short = true, 60*time.Millisecond, false
			}
		}
		h.runScenario(scenario{calls: c, prefix: len(o), depth: 2, blocks: true})
		h.runScenario(scenario{calls: c, prefix: 1, depth: 2, blocks: true})
	}
	// (3) remoting on loopback
	rem := [][]int{{kStart, kStop}, {kStart, kStop, kStop, kStart}, {kStart, kCancel, kStop}, {kStop, kStart, kStop, kStop}}
	if thorough {
		rem = append(rem, orderings(2, 2, 1)...)
	}
	for i, o := range rem {
		h.runScenario(scenario{calls: mk(o, i), prefix: len(o), depth: i % 3, remoting: true})
		h.runScenario(scenario{calls: mk(o, i), prefix: 1, depth: i % 3, remoting: true})
	}
	// (3b) single-node cluster: stop() first leaves the cluster (a blocking wait without timeout in the code)
	for i, o := range [][]int{{kStart, kStop}, {kStart, kCancel}, {kStart, kStop, kStop, kStart}, {kStart, kCancel, kStop}} {
		h.runScenario(scenario{calls: mk(o, 0), prefix: len(o), depth: i % 2, cluster: true})
		h.runScenario(scenario{calls: mk(o, 0), prefix: 1, depth: i % 2, cluster: true})
		h.o.Stats["rt-cluster"] += 2
	}
	// (4) concurrent: everything at once, and Start first then everything else at once
	conc := [][]int{
		{kStart, kStop}, {kStart, kStart}, {kStart, kStop, kStop}, {kStart, kStart, kStop, kStop, kStop, kCancel},
		{kStart, kStop, kCancel}, {kStart, kCancel}, {kStart, kStart, kStop},
	}
	reps := 16
	if thorough {
		reps = 120
	}
	for _, o := range conc {
		for rep := 0; rep < reps; rep++ {
			gm := []int{1, 2, 4, 8}[rep%4]
			h.runScenario(scenario{calls: mk(o, rep), prefix: 0, gomax: gm})
			h.runScenario(scenario{calls: mk(o, rep), prefix: 1, depth: rep % 3, gomax: gm})
		}
	}
	// (5) the Start || Stop race, many times (before /repo commit 0843af8 Start released statusLock between its
	// status switch and the assignment of system.Context - a window a few hundred nanoseconds wide in which a Stop
	// returned nil without stopping anything; the monitor stop-skipped-kill-and-cancel stays armed)
	n := 3000
	if thorough {
		n = 40000
	}
	for i := 0; i < n && h.raceHit < 3; i++ {
		h.runScenario(scenario{calls: []rcall{{kind: kStart}, {kind: kStop, hasTmo: true, tmo: time.Second}}, prefix: 0, gomax: []int{2, 4, 8, 16}[i%4]})
	}
	h.o.Info["rt_race_attempts"] = n
}

// ---------------------------------------------------------------------------------------------------
// tier B: lock-step under the controlled scheduler

type tcall struct {
	kind int
	d    int // Stop: < 0 no argument, otherwise ticks
}

func labelCode(l string) uint64 {
	switch {
	case l == "start":
		return 1
	case l == "Start:Lock:s.statusLock":
		return 2
	case l == "stop:Lock:s.statusLock":
		return 20
	case strings.HasPrefix(l, "spawnGuardActor:stmt:system.Context, err = NewContext("):
		return 3
	case strings.HasPrefix(l, "initializeMetrics:stmt:"):
		return 4
	case l == "ActorOf:Lock:s.actorOfLock":
		// System.ActorOf called by the start-up chain (metrics enabled) on the Start thread, which holds statusLock:
		// in the micro-step model this is still the chain step (see lockstep: the step in front of it is not reported)
		return 4
	case l == "stop:stmt:if s.clusterContext != nil {":
		return 5
	case l == "stop:s.clusterContext.Leave":
		return 6
	case l == "stop:stmt:if s.Context != nil {":
		return 7
	case l == "stop:s.Context.Kill":
		return 8
	case l == "stop:s.cancel":
		return 9
	case l == "stop:select:s.guardClosedSignal":
		return 10
	case l == "stop:s.scheduler.Stop":
		return 11
	case l == "Start:recv:s.options.Context.Done()":
		return 12
	case l == "cancel":
		return 13
	}
	return 97
}

type snap struct {
	status     int32
	hasCtx     bool
	ctxDone    bool
	spawned    int
	lastSelect int
}

// lockstep runs one schedule. metrics: the system is created WITH metrics, so that the start-up chain calls
// System.ActorOf("@metrics") - and takes actorOfLock - while Start holds statusLock (no TCP port is needed). The
// model's chain step is then the step that STARTS at the acquisition of actorOfLock; the scheduling point in front
// of it (`if system.options.Metrics != nil`, which only assigns system.metrics) is not reported to the model.
func (h *H) lockstep(calls []tcall, metrics bool, choose func([]int, int) int) []vsched.Choice {
	parent, cancelParent := context.WithCancel(context.Background())
	opts := []vivid.ActorSystemOption{
		vivid.WithActorSystemContext(parent),
		vivid.WithActorSystemLogger(log.NewSilentLogger()),
		vivid.WithActorSystemStopTimeout(2 * time.Second),
	}
	if metrics {
		opts = append(opts, vivid.WithActorSystemEnableMetrics(true))
	}
	sys := actor.NewSystem(opts...)
	s := vsched.New(choose)
	s.MaxSteps = 600
	n := len(calls)
	results := make([]int, n)
	for i := range results {
		results[i] = -1
	}
	for i, c := range calls {
		i, c := i, c
		s.Spawn("env", func() {
			switch c.kind {
			case kStart:
				results[i] = code(sys.Start())
			case kStop:
				if c.d < 0 {
					results[i] = code(sys.Stop())
				} else {
					results[i] = code(sys.Stop(time.Duration(c.d) * time.Second))
				}
			default:
				vsched.Yield("cancel")
				cancelParent()
				results[i] = 0
			}
		})
	}
	killIssued, treeDone, treeTimeout, abandoned := false, false, false, false
	s.ClosedGate = func(ch <-chan struct{}) bool { return treeDone }
	daemon := s.SpawnDaemon("treedone", func() {
		vsched.YieldIf("treedone", func() bool { return killIssued })
		if abandoned {
			return
		}
		select {
		case <-actor.XVSysGuardClosed(sys):
		case <-time.After(5 * time.Second):
			treeTimeout = true
		}
		treeDone = !treeTimeout // never pretend the channel is closed: the select would block for real
	})
	known := s.NumThreads()
	guardTid := -1
	spawned := 0
	s.SnapshotStep = func(real int, label string, obj any) any {
		if label == "stop:s.Context.Kill" {
			killIssued = true
		}
		for id := known; id < s.NumThreads(); id++ {
			if _, isTimer := s.TimerOwner[id]; !isTimer {
				guardTid = id
				spawned++
			}
		}
		known = s.NumThreads()
		return snap{status: actor.XVSysStatus(sys), hasCtx: actor.XVSysHasCtx(sys), ctxDone: actor.XVSysCtxDone(sys), spawned: spawned, lastSelect: s.LastSelect}
	}
	s.Run()

	mid := func(real int) int {
		if real == guardTid {
			return n
		}
		return real
	}
	var evs, outs []lib.T
	unknown := ""
	for _, st := range s.Trace {
		sn := st.Snap.(snap)
		var lab uint64
		if st.Real == daemon {
			if st.Label != "treedone" {
				continue
			}
			evs = append(evs, lib.L(lib.N(3)))
			lab = 91
		} else if owner, isTimer := s.TimerOwner[st.Real]; isTimer {
			if !strings.HasPrefix(st.Label, "timer:") {
				continue
			}
			evs = append(evs, lib.L(lib.N(2), lib.NI(mid(owner))))
			lab = 90
		} else {
			lab = labelCode(st.Label)
			if lab == 97 {
				unknown = st.Label
			}
			if metrics && strings.HasPrefix(st.Label, "initializeMetrics:stmt:") {
				continue // see the comment of lockstep
			}
			alt := 0
			if lab == 10 {
				alt = sn.lastSelect
			}
			evs = append(evs, lib.L(lib.N(0), lib.NI(mid(st.Real)), lib.NI(alt)))
		}
		outs = append(outs, lib.L(lib.N(lab), lib.N(uint64(sn.status)), lib.Bool(sn.hasCtx), lib.Bool(sn.ctxDone), lib.NI(sn.spawned)))
	}
	// final per-thread results and verdict
	var fin []lib.T
	allDone, onlyGuard := true, true
	threadIDs := make([]int, n)
	for i := range threadIDs {
		threadIDs[i] = i
	}
	if guardTid >= 0 {
		threadIDs = append(threadIDs, guardTid)
	}
	var stuck []string
	for k, id := range threadIDs {
		label, done := s.ThreadLabel(id)
		if done {
			kind, c := 0, 0
			switch {
			case k == n:
				kind = 2
			case calls[k].kind == kStart:
				kind, c = 0, results[k]
			case calls[k].kind == kStop:
				kind, c = 1, results[k]
			default:
				kind = 3
			}
			fin = append(fin, lib.L(lib.N(0), lib.NI(kind), lib.NI(c)))
			continue
		}
		allDone = false
		fin = append(fin, lib.L(lib.N(1), lib.N(labelCode(label))))
		if !(k == n && labelCode(label) == 12 && !actor.XVSysCtxDone(sys)) {
			onlyGuard = false
			stuck = append(stuck, fmt.Sprintf("thread %d at %q", id, label))
		}
	}
	verdict := 2
	if allDone {
		verdict = 0
	} else if onlyGuard {
		verdict = 1
	}
	threads := make([]lib.T, n)
	for i, c := range calls {
		switch c.kind {
		case kStart:
			threads[i] = lib.L(lib.N(0))
		case kStop:
			if c.d < 0 {
				threads[i] = lib.L(lib.N(1))
			} else {
				threads[i] = lib.L(lib.N(1), lib.NI(c.d))
			}
		default:
			threads[i] = lib.L(lib.N(2))
		}
	}
	in := lib.L(lib.N(1), lib.L(lib.N(0), lib.N(5)), lib.LS(threads), lib.LS(evs))
	out := lib.L(lib.LS(outs), lib.LS(fin), lib.NI(verdict))
	pre := 0
	for i := 1; i < len(s.Trace); i++ {
		if s.Trace[i].Real != s.Trace[i-1].Real {
			pre++
		}
	}
	h.o.Case(fmt.Sprintf("ls-calls=%d", n), pre >= 2, in, out)
	h.o.Stats["ls-steps"] += len(s.Trace)
	h.o.Stats[fmt.Sprintf("ls-verdict=%d", verdict)]++
	if unknown != "" {
		h.o.Stats["ls-unknown-label:"+unknown]++
	}

	// ---- monitors: the property evaluated on what the real code did ----
	if verdict == 2 {
		what := "deadlock"
		if s.Overrun {
			what = "no-termination"
		}
		waits, cycle := s.LockWaits()
		lockPart := ""
		if len(waits) > 0 {
			lockPart = " | locks: " + strings.Join(waits, "; ")
		}
		if cycle && s.Deadlock {
			// every thread is parked in front of a lock whose holder is parked in front of a lock: a lock-order cycle
			h.o.Monitor("c07-start-stop-deadlock", in, fmt.Sprintf("controlled schedule of calls %v (metrics=%v): LOCK-ORDER DEADLOCK, no thread can ever run again: %s | schedule (thread:label): %s",
				describeCalls(calls), metrics, strings.Join(waits, "; "), scheduleText(s)))
		}
		h.o.Monitor(what, in, fmt.Sprintf("calls %v (metrics=%v): unfinished threads that wait neither for a context cancel nor for the environment: %s | all: %s%s", describeCalls(calls), metrics, strings.Join(stuck, ", "), s.Stuck(), lockPart))
	}
	h.lockOrderCase(calls, n, guardTid, s)
	if treeTimeout {
		h.abortB = true // every further run that issues the kill would wait again
		h.o.Monitor("root-not-terminated", in, "Kill(root) was issued but guardClosedSignal was not closed within 5 s on a system without user actors")
	}
	effective := 0
	stopNil := false
	for i, c := range calls {
		r := results[i]
		if r < 0 {
			continue
		}
		ok := true
		switch c.kind {
		case kStart:
			ok = r == 0 || r == 1 || r == 2 || r == 10 || r == 12 || r == 14
			stopNil = stopNil || r == 10
		case kStop:
			ok = r == 0 || r == 2 || r == 3 || r == 4
			if r == 0 || r == 4 {
				effective++
			}
			stopNil = stopNil || r == 0
		}
		if !ok {
			h.o.Monitor("return-outside-table", in, fmt.Sprintf("calls %v: call #%d returned %s", describeCalls(calls), i, codeName(r)))
		}
	}
	if effective > 1 {
		h.o.Monitor("two-effective-stops", in, fmt.Sprintf("calls %v returned %v", describeCalls(calls), names(results)))
	}
	if stopNil && verdict != 2 {
		closed := false
		select {
		case <-actor.XVSysGuardClosed(sys):
			closed = true
		default:
		}
		if !closed || !actor.XVSysCtxDone(sys) {
			name := "stop-nil-system-running"
			if !killIssued && !closed && actor.XVSysHasCtx(sys) {
				name = "stop-skipped-kill-and-cancel" // the stop read s.Context == nil although a root is (being) created
			}
			h.o.Monitor(name, in, fmt.Sprintf("calls %v returned %v: a stop returned nil but guardClosedSignal closed=%v, context cancelled=%v, root context assigned=%v (the system keeps running, status=%d)",
				describeCalls(calls), names(results), closed, actor.XVSysCtxDone(sys), actor.XVSysHasCtx(sys), actor.XVSysStatus(sys)))
		}
	}
	// ---- cleanup: let everything that is still parked run for real and shut the system down ----
	abandoned = true
	finished := s.Release()
	cancelParent()
	cleaned := make(chan struct{})
	go func() {
		<-finished
		_ = sys.Stop(50 * time.Millisecond)
		close(cleaned)
	}()
	select {
	case <-cleaned:
	case <-time.After(6 * time.Second):
		// goroutines of this run are stuck for good (reported above as deadlock): no further controlled run is
		// safe in this process, a stray goroutine could talk to the next scheduler
		h.abortB = true
		h.o.Stats["ls-aborted-after-stuck-run"]++
		if verdict != 2 {
			h.o.Monitor("released-threads-stuck", in, "after the controlled run the remaining goroutines were released to run for real but did not finish within 6 s: "+s.Stuck())
		}
	}
	return s.Choices
}

func scheduleText(s *vsched.Sched) string {
	var parts []string
	for _, st := range s.Trace {
		parts = append(parts, fmt.Sprintf("%d:%s", st.Real, st.Label))
	}
	if len(parts) > 60 {
		parts = append(parts[:60], "...")
	}
	return strings.Join(parts, " > ")
}

// lockOrderCase: the lock operations every thread of the run performed, in its own order, as a case for the
// lock-order machine of System/LockOrder.v (kind 3): the model answers, per thread, whether the sequence respects
// the lock hierarchy statusLock < actorOfLock (well bracketed, never acquiring a lock while holding a higher or
// equal one) and whether it is a prefix of the program the model assigns to that kind of thread.
func (h *H) lockOrderCase(calls []tcall, n int, guardTid int, s *vsched.Sched) {
	lockID := func(name string) (uint64, bool) {
		switch name {
		case "s.statusLock":
			return 0, true
		case "s.actorOfLock":
			return 1, true
		}
		return 0, false
	}
	per := map[int][]lib.T{}
	for _, op := range s.LockOps {
		id, ok := lockID(op.Name)
		if !ok {
			h.o.Stats["lo-unknown-lock:"+op.Name]++
			id = 9
		}
		per[op.Tid] = append(per[op.Tid], lib.L(lib.Bool(op.Acquire), lib.N(id)))
	}
	var threads, outs []lib.T
	nops := 0
	add := func(kind uint64, tid int) {
		_, done := s.ThreadLabel(tid)
		threads = append(threads, lib.L(lib.N(kind), lib.Bool(done), lib.LS(per[tid])))
		outs = append(outs, lib.L(lib.Bool(true), lib.Bool(true)))
		nops += len(per[tid])
	}
	for i, c := range calls {
		switch c.kind {
		case kStart:
			add(0, i)
		case kStop:
			add(1, i)
		default:
			add(3, i)
		}
	}
	if guardTid >= 0 {
		add(2, guardTid)
	}
	in := lib.L(lib.N(3), lib.LS(threads))
	key := lib.Show(in)
	if h.loSeen == nil {
		h.loSeen = map[string]bool{}
	}
	h.o.Stats["lo-runs"]++
	if h.loSeen[key] { // one case per distinct vector of per-thread lock sequences
		return
	}
	h.loSeen[key] = true
	h.o.Case("lo-lock-order", nops >= 4, in, lib.LS(outs))
}

func describeCalls(calls []tcall) []string {
	out := make([]string, len(calls))
	for i, c := range calls {
		switch c.kind {
		case kStart:
			out[i] = "Start"
		case kStop:
			out[i] = "Stop"
			if c.d >= 0 {
				out[i] = fmt.Sprintf("Stop(%ds)", c.d)
			}
		default:
			out[i] = "cancel"
		}
	}
	return out
}

func (h *H) tierB(r *lib.Rand, thorough bool) {
	st, sp, spd, ca := tcall{kind: kStart}, tcall{kind: kStop, d: -1}, tcall{kind: kStop, d: 3}, tcall{kind: kCancel}
	fixed := [][]tcall{
		{st}, {sp}, {st, sp}, {sp, st}, {st, st}, {st, ca}, {ca, st},
		{st, sp, sp}, {st, spd, ca}, {st, st, sp}, {st, sp, ca, spd},
		{st, st, sp, spd, sp, ca},
	}
	bound, perCfg := 2, 400
	if thorough {
		bound, perCfg = 3, 8000
	}
	total := 0
	// first the systems whose start-up chain takes actorOfLock under statusLock (metrics enabled): Start against
	// Stop / cancel / a second Start, every schedule up to the preemption bound
	withMetrics := [][]tcall{{st, sp}, {sp, st}, {st, sp, sp}, {st, st, sp}, {st, ca}, {st, spd, ca}}
	perM := 120
	if thorough {
		perM = 2500
	}
	mruns := 0
	for _, c := range withMetrics {
		c := c
		mruns += vsched.Explore(bound, perM, func(choose func([]int, int) int) []vsched.Choice {
			if h.abortB {
				return nil
			}
			return h.lockstep(c, true, choose)
		})
	}
	h.o.Info["ls_dfs_metrics_configs"] = len(withMetrics)
	h.o.Info["ls_dfs_metrics_runs"] = mruns
	for _, c := range fixed {
		c := c
		total += vsched.Explore(bound, perCfg, func(choose func([]int, int) int) []vsched.Choice {
			if h.abortB {
				return nil
			}
			return h.lockstep(c, false, choose)
		})
	}
	h.o.Info["ls_dfs_configs"] = len(fixed)
	h.o.Info["ls_dfs_preemption_bound"] = bound
	h.o.Info["ls_dfs_runs"] = total
	n := 1000
	if thorough {
		n = 12000
	}
	for i := 0; i < n && !h.abortB; i++ {
		var calls []tcall
		ns, nt, nc := r.Intn(3), r.Intn(4), r.Intn(2)
		for k := 0; k < ns; k++ {
			calls = append(calls, st)
		}
		for k := 0; k < nt; k++ {
			if r.Bool() {
				calls = append(calls, sp)
			} else {
				calls = append(calls, spd)
			}
		}
		for k := 0; k < nc; k++ {
			calls = append(calls, ca)
		}
		if len(calls) == 0 {
			calls = []tcall{st, sp}
		}
		for k := len(calls) - 1; k > 0; k-- { // shuffle
			j := r.Intn(k + 1)
			calls[k], calls[j] = calls[j], calls[k]
		}
		rr := r.Fork()
		var ch func([]int, int) int
		if r.Bool() {
			ch = vsched.RandomChooser(rr.Intn)
		} else {
			ch = vsched.StickyChooser(rr.Intn, 2+r.Intn(5))
		}
		h.lockstep(calls, i%5 == 4, ch)
	}
	h.o.Info["ls_random_runs"] = n
}

func main() {
	f := lib.ParseFlags()
	o := lib.NewOut(f.Out)
	h := &H{o: o}
	vsched.TrackRealLocks.Store(true) // the real-time watchdog names the lock sites of a lock-order deadlock
	r := lib.NewRand(f.Seed)
	thorough := f.Tier == "thorough"
	ra, rb := r.Fork(), r.Fork()
	// the controlled runs first: a schedule that deadlocks is found deterministically there; goroutines of an
	// abandoned run are waited for (or, if stuck for good, stay blocked and never touch vsched again)
	t1 := time.Now()
	h.tierB(rb, thorough)
	o.Info["ls_wall_s"] = time.Since(t1).Seconds()
	t0 := time.Now()
	h.tierA(ra, thorough)
	o.Info["rt_wall_s"] = time.Since(t0).Seconds()
	o.Close(f.Report)
	if len(o.Monitors) > 0 {
		os.Exit(3)
	}
}
