// syslife: correspondence cases and implementation-side monitors for C07 (System Start / Stop / context
// cancel state machine).
//
// Tier A - real-time differential (runs first): real systems built with the real (instrumented but
// un-scheduled: every vsched call falls through to the real operation) code, actor trees of depth 0-3,
// with / without remoting on loopback, call sequences of <= 2 Start, <= 3 Stop (with / without timeout),
// <= 1 cancel, issued one after the other in every order and concurrently (released by a barrier, repeated
// under GOMAXPROCS variations). One case = (scenario, calls, observed return codes); the model answers
// whether the vector is admissible (Lifecycle.admissible). Monitors: hang (call not back after 10x its
// timeout), slow repeat (a non-effective Start/Stop taking > 1 s), return value outside the table,
// stop overrunning its timeout, after Stop returned nil: actors still alive / guardClosedSignal open /
// scheduler running / goroutines of vivid or go-quartz that persist. First of all: Start || Stop (|| Stop / cancel / Start)
// on systems WITH metrics (the start-up chain takes actorOfLock under statusLock; no TCP port) under a 3 s
// watchdog: a lock-order deadlock between System methods is reported as c07-start-stop-deadlock, naming the lock
// held / wanted at each site (bookkeeping of the instrumented locks in vsched) and the blocked call paths.
//
// Tier B - lock-step: system.go and system_chains.go are instrumented from the current source (profile
// "system") and run under the controlled scheduler (DFS with preemption bound + random schedules) on systems
// without user actors; termination of the root actor is an explicit environment step of the schedule. One
// case = one complete schedule; every step's (label, status, s.Context != nil, ctx cancelled, #guard
// goroutines) plus the final per-call results and verdict are replayed on System/Lifecycle.v.
// statusLock AND actorOfLock are controlled locks; part of the runs use metrics-enabled systems, whose start-up
// chain calls System.ActorOf under statusLock. A run in which every thread is parked in front of a lock whose
// holder is parked in front of a lock is reported as c07-start-stop-deadlock with the cycle and the schedule.
// Per run, the lock operations of every thread are one case (kind 3) for the lock view System/LockOrder.v.
package main

import (
	"context"
	"errors"
	"fmt"
	"net"
	"os"
	"regexp"
	"runtime"
	"sort"
	"strings"
	"sync"
	"sync/atomic"
	"time"

	"github.com/kercylan98/vivid"
	"github.com/kercylan98/vivid/internal/actor"
	"github.com/kercylan98/vivid/pkg/log"
	"github.com/kercylan98/vivid/xverif/lib"
	"github.com/kercylan98/vivid/xverif/vsched"
)

const (
	kStart  = 0
	kStop   = 1
	kCancel = 2
)

func code(err error) int {
	if err == nil {
		return 0
	}
	var ve *vivid.Error
	if errors.As(err, &ve) {
		switch ve.GetCode() {
		case 100001:
			return 1
		case 100002:
			return 2
		case 100005:
			return 3
		case 100004:
			return 4
		case 100003:
			return 10 + code(errors.Unwrap(err))
		}
	}
	return 99
}

func codeName(c int) string {
	switch {
	case c == 0:
		return "nil"
	case c == 1:
		return "already-started"
	case c == 2:
		return "already-stopped"
	case c == 3:
		return "not-started"
	case c == 4:
		return "stop-failed"
	case c >= 10 && c < 99:
		return "start-failed(" + codeName(c-10) + ")"
	case c == -1:
		return "NOT-RETURNED"
	}
	return fmt.Sprintf("other(%d)", c)
}

// ---------------------------------------------------------------------------------------------------
// goroutine inventory

var goroutineHdr = regexp.MustCompile(`^goroutine (\d+) \[`)

func allStacks() map[string]string {
	buf := make([]byte, 1<<20)
	for {
		n := runtime.Stack(buf, true)
		if n < len(buf) {
			buf = buf[:n]
			break
		}
		buf = make([]byte, 2*len(buf))
	}
	out := map[string]string{}
	for _, blk := range strings.Split(string(buf), "\n\n") {
		m := goroutineHdr.FindStringSubmatch(blk)
		if m != nil {
			out[m[1]] = blk
		}
	}
	return out
}

func isLibraryGoroutine(blk string) bool {
	// created by the harness itself (call runners, watchdogs): not the system's
	if i := strings.LastIndex(blk, "created by "); i >= 0 {
		if strings.HasPrefix(blk[i+len("created by "):], "main.") {
			return false
		}
	}
	for _, pat := range []string{"github.com/kercylan98/vivid/internal/", "github.com/kercylan98/vivid/pkg/", "github.com/kercylan98/vivid.", "github.com/reugn/go-quartz"} {
		if strings.Contains(blk, pat) {
			return true
		}
	}
	return false
}

// leaked returns the library goroutines that did not exist in base.
func leaked(base map[string]string) map[string]string {
	out := map[string]string{}
	for id, blk := range allStacks() {
		if _, old := base[id]; old {
			continue
		}
		if isLibraryGoroutine(blk) {
			out[id] = blk
		}
	}
	return out
}

// persistentLeak polls up to 3 s; a leak is reported only if the same goroutines are present in 3
// consecutive samples 200 ms apart at the end of that time.
func persistentLeak(base map[string]string) []string {
	deadline := time.Now().Add(3 * time.Second)
	for k := 0; ; k++ {
		l := leaked(base)
		if len(l) == 0 {
			return nil
		}
		if time.Now().After(deadline) {
			break
		}
		if k < 40 {
			time.Sleep(250 * time.Microsecond)
		} else {
			time.Sleep(20 * time.Millisecond)
		}
	}
	cur := leaked(base)
	for k := 0; k < 2; k++ {
		time.Sleep(200 * time.Millisecond)
		nxt := leaked(base)
		for id := range cur {
			if _, ok := nxt[id]; !ok {
				delete(cur, id)
			}
		}
	}
	var out []string
	for _, blk := range cur {
		out = append(out, blk)
	}
	sort.Strings(out)
	return out
}

// ---------------------------------------------------------------------------------------------------
// scripted actor tree

type treeStats struct {
	launched atomic.Int64
	killed   atomic.Int64
	unblock  chan struct{}
	blocks   bool
}

type node struct {
	t     *treeStats
	depth int
	width int
}

func (n *node) OnReceive(ctx vivid.ActorContext) {
	switch m := ctx.Message().(type) {
	case *vivid.OnLaunch:
		n.t.launched.Add(1)
		for i := 0; i < n.width && n.depth > 1; i++ {
			_, _ = ctx.ActorOf(&node{t: n.t, depth: n.depth - 1, width: n.width})
		}
	case *vivid.OnKill:
		if n.t.blocks {
			<-n.t.unblock
		}
	case *vivid.OnKilled:
		if m.Ref.Equals(ctx.Ref()) {
			n.t.killed.Add(1)
		}
	}
}

func treeSize(depth, width int) int {
	total, level := 0, 1
	for d := 0; d < depth; d++ {
		total += level
		level *= width
	}
	return total
}

// ---------------------------------------------------------------------------------------------------
// tier A: real-time differential

type rcall struct {
	kind   int
	hasTmo bool
	tmo    time.Duration
	short  bool // the timeout may expire before the tree has terminated
}

type scenario struct {
	calls      []rcall
	prefix     int // the first prefix calls are issued one after the other, the rest together
	depth      int
	remoting   bool
	cluster    bool          // single-node cluster on loopback: Stop first leaves the cluster (Context.Leave)
	metrics    bool          // metrics enabled: the start-up chain calls System.ActorOf("@metrics") (actorOfLock) under statusLock; no TCP port
	watchdog   time.Duration // > 0: hang limit of every call of this scenario (instead of 10x the stop timeout)
	startFails int           // 0 no; 1 invalid advertise address (NewContext of the root fails); (2 remoting port already in use: Start still returns nil, the listen error is handled by the server actor later - not used)
	blocks     bool
	gomax      int
}

type callResult struct {
	code int
	dur  time.Duration
	done bool
}

func freeAddr() string {
	l, err := net.Listen("tcp", "127.0.0.1:0")
	if err != nil {
		return "127.0.0.1:0"
	}
	a := l.Addr().String()
	l.Close()
	return a
}

func (sc scenario) term(obs []int, blocks bool) lib.T {
	calls := make([]lib.T, len(sc.calls))
	for i, c := range sc.calls {
		switch c.kind {
		case kStart:
			calls[i] = lib.L(lib.N(0))
		case kStop:
			calls[i] = lib.L(lib.N(1), lib.Bool(c.short))
		default:
			calls[i] = lib.L(lib.N(2))
		}
	}
	o := make([]lib.T, len(obs))
	for i, c := range obs {
		if c < 0 {
			c = 98
		}
		o[i] = lib.NI(c)
	}
	return lib.L(lib.N(2), lib.L(lib.NI(sc.prefix), lib.Bool(sc.startFails != 0), lib.Bool(blocks)), lib.LS(calls), lib.LS(o))
}

func (sc scenario) describe() string {
	var parts []string
	for i, c := range sc.calls {
		s := ""
		switch c.kind {
		case kStart:
			s = "Start"
		case kStop:
			s = "Stop"
			if c.hasTmo {
				s += "(" + c.tmo.String() + ")"
			}
		default:
			s = "cancel"
		}
		if i == sc.prefix && sc.prefix < len(sc.calls) {
			s = "|| " + s
		}
		parts = append(parts, s)
	}
	return fmt.Sprintf("[%s] prefix=%d depth=%d remoting=%v cluster=%v metrics=%v startFails=%v blocks=%v GOMAXPROCS=%d", strings.Join(parts, ", "), sc.prefix, sc.depth, sc.remoting, sc.cluster, sc.metrics, sc.startFails, sc.blocks, sc.gomax)
}

type H struct {
	watchdog       string // set when a controlled run made no progress (see lockstep)
	aoRaceHits       int // lock-step runs in which an external System.ActorOf lost the race against the root's OnKill
	report         string
	o              *lib.Out
	raceHit        int
	abortB         bool
	abortA         bool // a call hung: every further scenario would wait for its hang limit again
	unexpectedFail int
	loSeen         map[string]bool
}

func (h *H) runScenario(sc scenario) {
	if h.abortA {
		h.o.Stats["rt-skipped-after-hang"]++
		return
	}
	if sc.gomax > 0 {
		defer runtime.GOMAXPROCS(runtime.GOMAXPROCS(sc.gomax))
	}
	base := allStacks()
	parent, cancelParent := context.WithCancel(context.Background())
	sysTimeout := 1500 * time.Millisecond
	if sc.blocks {
		sysTimeout = 150 * time.Millisecond
	}
	opts := []vivid.ActorSystemOption{
		vivid.WithActorSystemContext(parent),
		vivid.WithActorSystemLogger(log.NewSilentLogger()),
		vivid.WithActorSystemStopTimeout(sysTimeout),
	}
	if sc.metrics {
		opts = append(opts, vivid.WithActorSystemEnableMetrics(true))
	}
	var busy net.Listener
	if sc.startFails == 1 {
		opts = append(opts, vivid.WithActorSystemRemoting("127.0.0.1")) // no port: the root reference cannot be built
	} else if sc.startFails == 2 {
		if l, err := net.Listen("tcp", "127.0.0.1:0"); err == nil {
			busy = l
			opts = append(opts, vivid.WithActorSystemRemoting(l.Addr().String())) // the port is taken: the server cannot listen
		}
	} else if sc.cluster {
		opts = append(opts, vivid.WithActorSystemRemoting(freeAddr()),
			vivid.WithActorSystemRemotingOptions(vivid.NewActorSystemRemotingOptions(), vivid.WithActorSystemRemotingClusterOption()))
	} else if sc.remoting {
		opts = append(opts, vivid.WithActorSystemRemoting(freeAddr()))
	}
	sys := actor.NewSystem(opts...)
	ts := &treeStats{unblock: make(chan struct{}), blocks: sc.blocks}
	treeBuilt := false
	res := make([]callResult, len(sc.calls))
	for i := range res {
		res[i].code = -1
	}
	hung := false

	doCall := func(i int) {
		c := sc.calls[i]
		t0 := time.Now()
		var err error
		switch c.kind {
		case kStart:
			err = sys.Start()
		case kStop:
			if c.hasTmo {
				err = sys.Stop(c.tmo)
			} else {
				err = sys.Stop()
			}
		default:
			cancelParent()
		}
		res[i] = callResult{code: code(err), dur: time.Since(t0), done: true}
	}
	limitOf := func(c rcall) time.Duration {
		if sc.watchdog > 0 {
			return sc.watchdog
		}
		t := sysTimeout
		if c.kind == kStop && c.hasTmo {
			t = c.tmo
		}
		l := 10 * t
		if l < 3*time.Second {
			l = 3 * time.Second
		}
		return l
	}
	// wait for a set of calls (each running in its own goroutine) with the hang limit
	await := func(idx []int, dones []chan struct{}) {
		for k, i := range idx {
			if hung {
				break // one report per scenario: the other calls of a wedged system are wedged too
			}
			select {
			case <-dones[k]:
			case <-time.After(limitOf(sc.calls[i])):
				hung = true
				h.abortA = true
				stacks := allStacks()
				var blocked []string
				for _, blk := range stacks {
					// (goroutines of an abandoned controlled run that are stuck for good are not this scenario's)
					if strings.Contains(blk, "internal/actor.(*System)") && !strings.Contains(blk, "main.(*H).lockstep") {
						blocked = append(blocked, blk)
					}
				}
				sort.Strings(blocked)
				if cyc := lockCycleReport(blocked); cyc != "" {
					h.o.Monitor("c07-start-stop-deadlock", sc.term(nil, sc.blocks), fmt.Sprintf("%s: call #%d has not returned after %v and never will: LOCK-ORDER DEADLOCK between System methods.\n%s\ngoroutines inside System methods:\n%s",
						sc.describe(), i, limitOf(sc.calls[i]), cyc, strings.Join(blocked, "\n\n")))
				}
				h.o.Monitor("hang", sc.term(nil, sc.blocks), fmt.Sprintf("%s: call #%d has not returned after %v (10x its timeout, at least 3 s). goroutines inside System methods:\n%s",
					sc.describe(), i, limitOf(sc.calls[i]), strings.Join(blocked, "\n\n")))
			}
		}
	}
	buildTree := func() {
		if treeBuilt || sc.depth == 0 {
			return
		}
		treeBuilt = true
		if _, err := sys.ActorOf(&node{t: ts, depth: sc.depth, width: 2}); err != nil {
			return
		}
		want := int64(treeSize(sc.depth, 2))
		for dl := time.Now().Add(2 * time.Second); ts.launched.Load() < want && time.Now().Before(dl); {
			time.Sleep(200 * time.Microsecond)
		}
	}

	// sequential prefix
	for i := 0; i < sc.prefix && i < len(sc.calls) && !hung; i++ {
		done := make(chan struct{})
		i := i
		go func() { doCall(i); close(done) }()
		await([]int{i}, []chan struct{}{done})
		if !hung && sc.calls[i].kind == kStart && res[i].code == 0 && parent.Err() == nil {
			// (with the context already cancelled the guard goroutine is stopping the system right now: actors
			// spawned under the dying root would not belong to the tree that Stop has to terminate)
			buildTree()
		}
	}
	// concurrent batch
	if sc.prefix < len(sc.calls) && !hung {
		var idx []int
		var dones []chan struct{}
		var ready sync.WaitGroup
		var gate atomic.Bool
		for i := sc.prefix; i < len(sc.calls); i++ {
			i := i
			done := make(chan struct{})
			idx = append(idx, i)
			dones = append(dones, done)
			ready.Add(1)
			go func() {
				ready.Done()
				for !gate.Load() { // spin barrier: release all calls as simultaneously as possible
					if sc.gomax == 1 {
						runtime.Gosched()
					}
				}
				doCall(i)
				close(done)
			}()
		}
		ready.Wait()
		gate.Store(true)
		await(idx, dones)
	}

	obs := make([]int, len(res))
	allDone := true
	for i, r := range res {
		obs[i] = r.code
		if !r.done {
			allDone = false
		}
	}
	in := sc.term(obs, sc.blocks && treeBuilt) // the tree blocks only if it exists
	if allDone {
		kind := fmt.Sprintf("rt-calls=%d", len(sc.calls))
		if sc.prefix < len(sc.calls) {
			kind += "-concurrent"
		}
		h.o.Case(kind, len(sc.calls) >= 3, in, lib.N(1))
	}
	h.o.Stats[fmt.Sprintf("rt-depth=%d", sc.depth)]++
	if sc.remoting {
		h.o.Stats["rt-remoting"]++
	}
	if sc.metrics {
		h.o.Stats["rt-metrics"]++
	}

	// ---- monitors ----
	effective := -1 // index of the call that stopped the system (returned nil / stop-failed from a stop)
	stopNil := false
	for i, r := range res {
		if !r.done {
			continue
		}
		c := sc.calls[i]
		ok := false
		switch c.kind {
		case kStart:
			ok = r.code == 0 || r.code == 1 || r.code == 2 || r.code == 10 || r.code == 12 || r.code == 14
			if r.code == 10 {
				stopNil = true
			}
		case kStop:
			ok = r.code == 0 || r.code == 2 || r.code == 3 || r.code == 4
			if r.code == 0 || r.code == 4 {
				if effective >= 0 {
					h.o.Monitor("two-effective-stops", in, fmt.Sprintf("%s: calls #%d and #%d both returned %s/%s", sc.describe(), effective, i, codeName(res[effective].code), codeName(r.code)))
				}
				effective = i
			}
			if r.code == 0 {
				stopNil = true
			}
		default:
			ok = true
		}
		if !ok {
			h.o.Monitor("return-outside-table", in, fmt.Sprintf("%s: call #%d returned %s", sc.describe(), i, codeName(r.code)))
		}
		isEffective := c.kind == kStop && (r.code == 0 || r.code == 4) || c.kind == kStart && r.code >= 10
		if !isEffective && c.kind != kCancel && r.dur > time.Second {
			h.o.Monitor("slow-repeat", in, fmt.Sprintf("%s: call #%d (%s) took %v although it is not the effective stop", sc.describe(), i, codeName(r.code), r.dur))
		}
		if c.kind == kStop && (r.code == 0 || r.code == 4) {
			t := sysTimeout
			if c.hasTmo {
				t = c.tmo
			}
			if r.code == 4 && !c.short && !(sc.blocks && treeBuilt) {
				h.o.Monitor("stop-failed-without-cause", in, fmt.Sprintf("%s: Stop #%d returned stop-failed after %v (timeout %v) although the actor tree (depth %d) does not block", sc.describe(), i, r.dur, t, sc.depth))
				h.unexpectedFail++
				if h.unexpectedFail >= 3 {
					h.abortA = true // every further stop would wait for its whole timeout again
				}
			}
			if r.dur > t+time.Second {
				h.o.Monitor("stop-overran-timeout", in, fmt.Sprintf("%s: Stop #%d returned %s after %v, timeout %v", sc.describe(), i, codeName(r.code), r.dur, t))
			}
		}
	}
	if sc.prefix >= len(sc.calls) && sc.startFails == 0 {
		for i, c := range sc.calls {
			if c.kind == kStart {
				if res[i].done && res[i].code != 0 {
					h.o.Monitor("first-start-not-nil", in, fmt.Sprintf("%s: the first Start of the sequence returned %s (Stop before Start must leave the system startable)", sc.describe(), codeName(res[i].code)))
				}
				break
			}
		}
	}
	started := false
	cancelled := false
	for i, c := range sc.calls {
		if c.kind == kStart && res[i].done && res[i].code == 0 {
			started = true
		}
		if c.kind == kCancel && res[i].done {
			cancelled = true
		}
	}
	if !hung && allDone && !sc.blocks {
		expectDown := stopNil
		why := "a Stop returned nil"
		if !expectDown && started && cancelled && effective < 0 {
			// cancel after a successful Start and no effective explicit Stop: the guard goroutine stops the system
			expectDown = true
			why = "the context was cancelled after a successful Start"
			select {
			case <-actor.XVSysGuardClosed(sys):
			case <-time.After(sysTimeout + time.Second):
			}
		}
		if expectDown {
			h.o.Stats["rt-checked-after-stop"]++
			var problems []string
			hasRoot := actor.XVSysHasCtx(sys)
			if !hasRoot && started {
				problems = append(problems, "a Start returned nil but system.Context is nil")
			}
			if hasRoot {
				select {
				case <-actor.XVSysGuardClosed(sys):
				default:
					problems = append(problems, "guardClosedSignal is not closed (the root actor was not terminated)")
				}
			}
			if st := actor.XVSysStatus(sys); st != 2 {
				problems = append(problems, fmt.Sprintf("status=%d", st))
			}
			for dl := time.Now().Add(2 * time.Second); ts.killed.Load() < ts.launched.Load() && time.Now().Before(dl); {
				time.Sleep(time.Millisecond)
			}
			if k, l := ts.killed.Load(), ts.launched.Load(); k < l {
				problems = append(problems, fmt.Sprintf("%d of %d user actors never received their own OnKilled", l-k, l))
			}
			if hasRoot && !actor.XVSysCtxDone(sys) {
				problems = append(problems, "the system context is not cancelled")
			}
			if len(problems) > 0 {
				name := "stop-nil-system-running"
				guardOpen := true
				select {
				case <-actor.XVSysGuardClosed(sys):
					guardOpen = false
				default:
				}
				if stopNil && hasRoot && guardOpen {
					// a stop returned nil although the root exists and was never terminated: the signature of a stop that read
					// s.Context == nil and skipped Kill(root) and s.cancel()
					name = "stop-skipped-kill-and-cancel"
				}
				h.o.Monitor(name, in, fmt.Sprintf("%s: %s (codes %v) but: %s", sc.describe(), why, names(obs), strings.Join(problems, "; ")))
				h.raceHit++
			} else {
				for dl := time.Now().Add(time.Second); actor.XVSysSchedStarted(sys) && time.Now().Before(dl); {
					time.Sleep(time.Millisecond)
				}
				if actor.XVSysSchedStarted(sys) {
					h.o.Monitor("scheduler-running-after-stop", in, fmt.Sprintf("%s: %s but the quartz scheduler is still started", sc.describe(), why))
				}
				if l := persistentLeak(base); len(l) > 0 {
					h.o.Monitor("goroutine-leak", in, fmt.Sprintf("%s: %s; %d goroutine(s) of the system still exist 3 s later:\n%s", sc.describe(), why, len(l), strings.Join(l, "\n\n")))
				}
			}
		}
	}
	// after ANY effective stop has returned - nil or stop-failed (the timeout arm), from Stop or from Start's failure
	// path - the system context is cancelled and the context-guard goroutine created by Start ends (it wakes up on
	// ctx.Done(), runs stop(false), gets already-stopped). Checked on blocking / slow trees as well: s.cancel() must not
	// depend on the tree terminating in time.
	effReturned := -1
	for i, r := range res {
		c := sc.calls[i]
		if r.done && (c.kind == kStop && (r.code == 0 || r.code == 4) || c.kind == kStart && (r.code == 10 || r.code == 14)) {
			effReturned = i
		}
	}
	if !hung && allDone && effReturned < 0 && !cancelled && started {
		// a Start got through, nobody cancelled the context and no Stop got through: the system runs
		time.Sleep(200 * time.Microsecond)
		if actor.XVSysCtxDone(sys) || actor.XVSysStatus(sys) != 1 {
			h.o.Monitor("c07-stopped-without-stop-or-cancel", in, fmt.Sprintf("%s: codes %v - a Start returned nil, no call cancelled the context and no Stop got through, but context cancelled=%v, status=%d (1 = started): the system was stopped / its context cancelled by a call that reported it had done nothing (e.g. a Stop before Start)",
				sc.describe(), names(obs), actor.XVSysCtxDone(sys), actor.XVSysStatus(sys)))
		}
	}
	if !hung && allDone && effReturned >= 0 && actor.XVSysHasCtx(sys) {
		h.o.Stats["rt-checked-cancel-after-stop"]++
		if !actor.XVSysCtxDone(sys) {
			h.o.Monitor("c07-stop-returned-context-not-cancelled", in, fmt.Sprintf("%s: call #%d returned %s (codes %v) but the system context is NOT cancelled: nothing will ever cancel it (every later Stop answers already-stopped), the context-guard goroutine stays blocked on <-ctx.Done() for ever",
				sc.describe(), effReturned, codeName(res[effReturned].code), names(obs)))
		}
		var guards []string
		for dl := time.Now().Add(2 * time.Second); ; {
			guards = guards[:0]
			for id, blk := range allStacks() {
				if _, old := base[id]; !old && strings.Contains(blk, "internal/actor.(*System).Start.func") {
					guards = append(guards, blk)
				}
			}
			if len(guards) == 0 || time.Now().After(dl) {
				break
			}
			time.Sleep(2 * time.Millisecond)
		}
		if len(guards) > 0 {
			sort.Strings(guards)
			h.o.Monitor("c07-guard-goroutine-outlives-stop", in, fmt.Sprintf("%s: call #%d returned %s (codes %v) but %d context-guard goroutine(s) of this system still exist 2 s later (context cancelled=%v):\n%s",
				sc.describe(), effReturned, codeName(res[effReturned].code), names(obs), len(guards), actor.XVSysCtxDone(sys), strings.Join(guards, "\n\n")))
		}
	}
	// ---- cleanup ----
	if busy != nil {
		busy.Close()
	}
	close(ts.unblock)
	cancelParent()
	stopped := make(chan struct{})
	go func() { _ = sys.Stop(50 * time.Millisecond); close(stopped) }()
	select {
	case <-stopped:
	case <-time.After(2 * time.Second):
	}
}

// lockCycleReport: at least two instrumented locks of the system (statusLock, actorOfLock) are each HELD by one call
// site and WANTED by another, and goroutines of System methods are parked in sync.Mutex.Lock: the description of who
// holds what and who waits where ("" if that is not the situation).
func lockCycleReport(blocked []string) string {
	rep := vsched.RealLockReport()
	var lines []string
	heldAndWanted := 0
	for _, r := range rep {
		var ws []string
		for l, n := range r.Waiters {
			ws = append(ws, fmt.Sprintf("%q (%d goroutine(s))", l, n))
		}
		sort.Strings(ws)
		if r.HeldSince != "" {
			heldAndWanted++
			lines = append(lines, fmt.Sprintf("%s is held by the call at %q and wanted at %s", r.Name, r.HeldSince, strings.Join(ws, ", ")))
		} else {
			lines = append(lines, fmt.Sprintf("%s is wanted at %s", r.Name, strings.Join(ws, ", ")))
		}
	}
	sort.Strings(lines)
	inMutex := 0
	var sites []string
	for _, blk := range blocked {
		if !strings.Contains(blk, "[sync.Mutex.Lock") {
			continue
		}
		inMutex++
		// the vivid frames of the goroutine, innermost first: the lock site and how it was reached
		var path []string
		ls := strings.Split(blk, "\n")
		for i := 0; i+1 < len(ls); i++ {
			if strings.Contains(ls[i], "vivid/internal/actor.") && !strings.HasPrefix(ls[i], "created by") {
				fn := ls[i]
				if k := strings.Index(fn, "vivid/internal/actor."); k >= 0 {
					fn = fn[k+len("vivid/internal/"):]
				}
				if k := strings.LastIndex(fn, "("); k > 0 {
					fn = fn[:k]
				}
				loc := strings.TrimSpace(ls[i+1])
				if k := strings.Index(loc, " +0x"); k > 0 {
					loc = loc[:k]
				}
				if k := strings.LastIndex(loc, "/"); k >= 0 {
					loc = loc[k+1:]
				}
				path = append(path, fn+" ("+loc+")")
			}
		}
		if len(path) > 0 {
			sites = append(sites, "blocked in sync.Mutex.Lock: "+strings.Join(path, " <- "))
		}
	}
	if heldAndWanted < 2 || inMutex < 2 {
		return ""
	}
	sort.Strings(sites)
	return "lock sites (labels = function:Lock:lock expression of the instrumented system.go):\n  " + strings.Join(lines, "\n  ") + "\n  " + strings.Join(sites, "\n  ") +
		"\n  (line numbers are those of the instrumented copy of system.go: a few lines below the original)"
}

// quiesce waits until no goroutine is inside System.Start / Stop / stop any more (the controlled scheduler
// must not be installed while ordinary goroutines still run instrumented code).
func quiesce(d time.Duration) bool {
	for dl := time.Now().Add(d); ; {
		busy := false
		for _, blk := range allStacks() {
			if strings.Contains(blk, "internal/actor.(*System).Start") || strings.Contains(blk, "internal/actor.(*System).stop") {
				busy = true
				break
			}
		}
		if !busy {
			return true
		}
		if time.Now().After(dl) {
			return false
		}
		time.Sleep(5 * time.Millisecond)
	}
}

func names(obs []int) []string {
	out := make([]string, len(obs))
	for i, c := range obs {
		out[i] = codeName(c)
	}
	return out
}

// all orderings of a multiset given as counts (starts, stops, cancels)
func orderings(ns, nt, nc int) [][]int {
	var out [][]int
	var rec func(cur []int, s, t, c int)
	rec = func(cur []int, s, t, c int) {
		if s == 0 && t == 0 && c == 0 {
			out = append(out, append([]int(nil), cur...))
			return
		}
		if s > 0 {
			rec(append(cur, kStart), s-1, t, c)
		}
		if t > 0 {
			rec(append(cur, kStop), s, t-1, c)
		}
		if c > 0 {
			rec(append(cur, kCancel), s, t, c-1)
		}
	}
	rec(nil, ns, nt, nc)
	return out
}

func (h *H) tierA(r *lib.Rand, thorough bool, reduced bool) {
	mk := func(kinds []int, variant int) []rcall {
		out := make([]rcall, len(kinds))
		nstop := 0
		for i, k := range kinds {
			out[i] = rcall{kind: k}
			if k == kStop {
				switch (variant + nstop) % 3 {
				case 1:
					out[i].hasTmo, out[i].tmo = true, time.Second
				case 2:
					out[i].hasTmo, out[i].tmo, out[i].short = true, 200*time.Microsecond, true
				}
				nstop++
			}
		}
		return out
	}
	nScen := 0
	// (0) Start || Stop (and || a second Stop / cancel) on systems WITH metrics: the start-up chain spawns @metrics
	// through System.ActorOf, i.e. takes actorOfLock while Start holds statusLock - any Stop-side code that takes the
	// two locks in the other order deadlocks here. Watchdog 3 s per call (the stop timeout is 1.5 s).
	nm := 400
	if thorough {
		nm = 6000
	}
	if reduced {
		nm = 40
	}
	mshapes := [][]rcall{
		{{kind: kStart}, {kind: kStop, hasTmo: true, tmo: time.Second}},
		{{kind: kStart}, {kind: kStop}, {kind: kStop, hasTmo: true, tmo: time.Second}},
		{{kind: kStart}, {kind: kCancel}, {kind: kStop, hasTmo: true, tmo: time.Second}},
		{{kind: kStart}, {kind: kStart}, {kind: kStop, hasTmo: true, tmo: time.Second}},
	}
	for i := 0; i < nm && !h.abortA; i++ {
		shape := mshapes[0]
		if i%4 == 3 {
			shape = mshapes[1+(i/4)%3]
		}
		h.runScenario(scenario{calls: shape, prefix: 0, metrics: true, watchdog: 3 * time.Second, gomax: []int{2, 4, 8, 16}[i%4]})
	}
	h.o.Info["rt_metrics_race_attempts"] = nm
	// (1) sequential, every order of every multiset
	for ns := 0; ns <= 2; ns++ {
		for nt := 0; nt <= 3; nt++ {
			for nc := 0; nc <= 1; nc++ {
				if ns+nt+nc == 0 {
					continue
				}
				ords := orderings(ns, nt, nc)
				for oi, o := range ords {
					if !thorough && len(o) >= 5 && oi%4 != int(r.Intn(4)) {
						continue // quick: a quarter of the longest sequences
					}
					if reduced && len(o) >= 4 {
						continue
					}
					depth := []int{0, 1, 2, 3}[(oi+ns+nt)%4]
					if !thorough && depth == 3 {
						depth = 2
					}
					h.runScenario(scenario{calls: mk(o, oi), prefix: len(o), depth: depth})
					nScen++
				}
			}
		}
	}
	h.o.Info["rt_sequential_scenarios"] = nScen
	// (2) start-up failure and a tree that does not terminate within the timeouts
	special := [][]int{{kStart}, {kStart, kStop}, {kStart, kStart, kStop, kStop}, {kStop, kStart, kStop}, {kStart, kCancel, kStop}}
	for _, o := range special {
		h.runScenario(scenario{calls: mk(o, 0), prefix: len(o), startFails: 1})
		h.runScenario(scenario{calls: mk(o, 0), prefix: 0, startFails: 1})
		c := mk(o, 0)
		for i := range c {
			if c[i].kind == kStop {
				c[i].hasTmo, c[i].tmo, c[i].short = true, 60*time.Millisecond, false
			}
		}
		h.runScenario(scenario{calls: c, prefix: len(o), depth: 2, blocks: true})
		h.runScenario(scenario{calls: c, prefix: 1, depth: 2, blocks: true})
	}
	// (3) remoting on loopback
	rem := [][]int{{kStart, kStop}, {kStart, kStop, kStop, kStart}, {kStart, kCancel, kStop}, {kStop, kStart, kStop, kStop}}
	if thorough {
		rem = append(rem, orderings(2, 2, 1)...)
	}
	for i, o := range rem {
		h.runScenario(scenario{calls: mk(o, i), prefix: len(o), depth: i % 3, remoting: true})
		h.runScenario(scenario{calls: mk(o, i), prefix: 1, depth: i % 3, remoting: true})
	}
	// (3b) single-node cluster: stop() first leaves the cluster (a blocking wait without timeout in the code)
	for i, o := range [][]int{{kStart, kStop}, {kStart, kCancel}, {kStart, kStop, kStop, kStart}, {kStart, kCancel, kStop}} {
		h.runScenario(scenario{calls: mk(o, 0), prefix: len(o), depth: i % 2, cluster: true})
		h.runScenario(scenario{calls: mk(o, 0), prefix: 1, depth: i % 2, cluster: true})
		h.o.Stats["rt-cluster"] += 2
	}
	// (4) concurrent: everything at once, and Start first then everything else at once
	conc := [][]int{
		{kStart, kStop}, {kStart, kStart}, {kStart, kStop, kStop}, {kStart, kStart, kStop, kStop, kStop, kCancel},
		{kStart, kStop, kCancel}, {kStart, kCancel}, {kStart, kStart, kStop},
	}
	reps := 16
	if thorough {
		reps = 120
	}
	if reduced {
		reps = 4
	}
	for _, o := range conc {
		for rep := 0; rep < reps; rep++ {
			gm := []int{1, 2, 4, 8}[rep%4]
			h.runScenario(scenario{calls: mk(o, rep), prefix: 0, gomax: gm})
			h.runScenario(scenario{calls: mk(o, rep), prefix: 1, depth: rep % 3, gomax: gm})
		}
	}
	// (5) the Start || Stop race, many times (before /repo commit 0843af8 Start released statusLock between its
	// status switch and the assignment of system.Context - a window a few hundred nanoseconds wide in which a Stop
	// returned nil without stopping anything; the monitor stop-skipped-kill-and-cancel stays armed)
	n := 3000
	if thorough {
		n = 40000
	}
	if reduced {
		n = 200
	}
	for i := 0; i < n && h.raceHit < 3; i++ {
		h.runScenario(scenario{calls: []rcall{{kind: kStart}, {kind: kStop, hasTmo: true, tmo: time.Second}}, prefix: 0, gomax: []int{2, 4, 8, 16}[i%4]})
	}
	h.o.Info["rt_race_attempts"] = n
	// (6) System.ActorOf racing Stop
	na := 150
	if thorough {
		na = 2000
	}
	if reduced {
		na = 30
	}
	h.actorOfRace(na)
}

// actorOfRace: real systems, no scheduler: Start, then Stop(400 ms) against a goroutine that calls System.ActorOf in a loop
// until it fails. Every actor that System.ActorOf returned must receive its own OnKilled, and Stop must return nil (nothing
// in the tree blocks). Finding C07-actorof-races-stop: Context.ActorOf decides from a stale read of the root's state.
func (h *H) actorOfRace(n int) {
	hits := 0
	for i := 0; i < n && hits < 3 && !h.abortA; i++ {
		sys := actor.NewSystem(vivid.WithActorSystemLogger(log.NewSilentLogger()), vivid.WithActorSystemStopTimeout(400*time.Millisecond))
		if err := sys.Start(); err != nil {
			continue
		}
		var flags []*atomic.Bool
		var wg sync.WaitGroup
		var gate atomic.Bool
		wg.Add(1)
		go func() {
			defer wg.Done()
			for !gate.Load() {
			}
			for k := 0; k < 3000; k++ {
				f := new(atomic.Bool)
				if _, err := sys.ActorOf(extActor{killed: f}); err != nil {
					break
				}
				flags = append(flags, f)
			}
		}()
		runtime.Gosched()
		gate.Store(true)
		t0 := time.Now()
		c := code(sys.Stop())
		d := time.Since(t0)
		wg.Wait()
		alive := func() int {
			k := 0
			for _, f := range flags {
				if !f.Load() {
					k++
				}
			}
			return k
		}
		for dl := time.Now().Add(1500 * time.Millisecond); alive() > 0 && time.Now().Before(dl); {
			time.Sleep(time.Millisecond)
		}
		h.o.Stats["rt-actorof-race"]++
		in := lib.L(lib.N(2), lib.L(lib.N(2), lib.Bool(false), lib.Bool(false)), lib.LS([]lib.T{lib.L(lib.N(0)), lib.L(lib.N(1), lib.Bool(false))}), lib.LS([]lib.T{lib.N(0), lib.NI(c)}))
		if a := alive(); a > 0 {
			hits++
			closed := false
			select {
			case <-actor.XVSysGuardClosed(sys):
				closed = true
			default:
			}
			if !closed {
				h.o.Monitor("c07-actorof-races-stop:root-never-terminates", in, fmt.Sprintf("Start; then Stop(400ms) || a goroutine calling System.ActorOf until it fails (%d calls returned a reference): Stop returned %s after %v, %d of the spawned actors never received their own OnKilled (1.5 s later) and guardClosedSignal is still open: the root waits for ever for a child that Context.ActorOf registered after the root had collected its children (stale read of the root's state)",
					len(flags), codeName(c), d, a))
			} else {
				h.o.Monitor("c07-actorof-races-stop:actor-survives-stop", in, fmt.Sprintf("Start; then Stop(400ms) || a goroutine calling System.ActorOf until it fails (%d calls returned a reference): Stop returned %s after %v and the root has terminated, but %d of the spawned actors never received their own OnKilled (1.5 s later): alive under a dead root for ever",
					len(flags), codeName(c), d, a))
			}
		} else if c != 0 {
			h.o.Monitor("stop-failed-without-cause", in, fmt.Sprintf("Start; then Stop(400ms) || System.ActorOf loop (%d actors, all terminated): Stop returned %s after %v", len(flags), codeName(c), d))
		}
		_ = sys.Stop(50 * time.Millisecond)
	}
}

// ---------------------------------------------------------------------------------------------------
// tier B: lock-step under the controlled scheduler

type tcall struct {
	kind int
	d    int // Stop: < 0 no argument, otherwise ticks
}

// labelCode: the scheduling points of the instrumented system.go / system_chains.go are labelled by WHAT they do
// ("<kind>:<role>", instrumenter profile "system"), not by the function they stand in, so that a refactoring (helpers,
// closures, renamed fields) leaves the labels alone. firstStatusLock: the thread is a Start() caller standing in front of
// its FIRST statusLock.Lock() (Start's own critical section; a later one is the s.Stop of Start's failure path).
func labelCode(l string, firstStatusLock bool) uint64 {
	switch l {
	case "start":
		return 1
	case "Lock:status":
		if firstStatusLock {
			return 2
		}
		return 20
	case "stmt:NewContext":
		return 3
	case "stmt:if-Metrics":
		return 4
	case "stmt:if-clusterContext":
		return 5
	case "call:Leave":
		return 6
	case "stmt:if-Context":
		return 7
	case "call:Kill":
		return 8
	case "call:cancel":
		return 9
	case "select:guardClosed":
		return 10
	case "call:scheduler.Stop":
		return 11
	case "recv:ctxDone":
		return 12
	case "cancel":
		return 13
	}
	return 97
}

// labelCode2: the label codes of the merged machine (System/LifeLock.v, replay kind 4): every actorOfLock.Lock() is a
// scheduling point of its own (15), the gate of an external System.ActorOf caller is 16
func labelCode2(l string, firstStatusLock bool) uint64 {
	switch l {
	case "Lock:actorOf":
		return 15
	case "actorof-gate":
		return 16
	}
	return labelCode(l, firstStatusLock)
}

type snap struct {
	status     int32
	hasCtx     bool
	ctxDone    bool
	spawned    int
	lastSelect int
	holdStatus int // real thread id of the holder of statusLock / actorOfLock after the step, -1 = free
	holdActor  int
	hasCluster bool // s.clusterContext != nil
}

// lsCfg: the system a controlled run is made on
type lsCfg struct {
	metrics  bool // EnableMetrics: the start-up chain calls System.ActorOf("@metrics") under statusLock
	rootFail bool // advertise address without port: NewContext of the root fails, Start runs its failure path (s.Stop)
	remoting bool // remoting on loopback: System.ActorOf("@remoting") in the chain
	cluster  bool // single-node cluster on loopback: "@cluster" + proxy manager in the chain; stop() calls Leave()
	ext      int  // external goroutines calling System.ActorOf once a Start has returned nil
}

func (c lsCfg) String() string {
	return fmt.Sprintf("metrics=%v rootFail=%v remoting=%v cluster=%v extActorOf=%d", c.metrics, c.rootFail, c.remoting, c.cluster, c.ext)
}

// extActor: what an external System.ActorOf caller spawns; killed is set when the actor has received its own OnKilled
type extActor struct{ killed *atomic.Bool }

func (a extActor) OnReceive(ctx vivid.ActorContext) {
	if m, ok := ctx.Message().(*vivid.OnKilled); ok && m.Ref.Equals(ctx.Ref()) {
		a.killed.Store(true)
	}
}

// lockstep runs one schedule on a system configured by cfg. The trace is replayed on the MERGED machine
// System/LifeLock.v (kind 4): every scheduling point of the real code is a step of the model, the ones inside the start-up
// chain (`if system.options.Metrics != nil`, every actorOfLock.Lock() of System.ActorOf) and inside Leave() included; after
// every step the holders of statusLock and actorOfLock are compared too.
func (h *H) lockstep(calls []tcall, cfg lsCfg, choose func([]int, int) int) []vsched.Choice {
	parent, cancelParent := context.WithCancel(context.Background())
	opts := []vivid.ActorSystemOption{
		vivid.WithActorSystemContext(parent),
		vivid.WithActorSystemLogger(log.NewSilentLogger()),
		vivid.WithActorSystemStopTimeout(2 * time.Second),
	}
	if cfg.metrics {
		opts = append(opts, vivid.WithActorSystemEnableMetrics(true))
	}
	switch {
	case cfg.rootFail:
		opts = append(opts, vivid.WithActorSystemRemoting("127.0.0.1")) // no port: the root reference cannot be built
	case cfg.cluster:
		opts = append(opts, vivid.WithActorSystemRemoting(freeAddr()),
			vivid.WithActorSystemRemotingOptions(vivid.NewActorSystemRemotingOptions(), vivid.WithActorSystemRemotingClusterOption()))
	case cfg.remoting:
		opts = append(opts, vivid.WithActorSystemRemoting(freeAddr()))
	}
	sys := actor.NewSystem(opts...)
	s := vsched.New(choose)
	s.MaxSteps = 600
	n := len(calls)
	results := make([]int, n)
	for i := range results {
		results[i] = -1
	}
	started := false // some Start has returned nil: external System.ActorOf callers may go
	startsLeft := 0  // Start calls that have not returned yet
	for _, c := range calls {
		if c.kind == kStart {
			startsLeft++
		}
	}
	for i, c := range calls {
		i, c := i, c
		s.Spawn("env", func() {
			switch c.kind {
			case kStart:
				results[i] = code(sys.Start())
				if results[i] == 0 {
					started = true
				}
				startsLeft--
			case kStop:
				if c.d < 0 {
					results[i] = code(sys.Stop())
				} else {
					results[i] = code(sys.Stop(time.Duration(c.d) * time.Second))
				}
			default:
				vsched.Yield("cancel")
				cancelParent()
				results[i] = 0
			}
		})
	}
	extOK := make([]bool, cfg.ext) // System.ActorOf returned a reference
	extKilled := make([]*atomic.Bool, cfg.ext)
	extSkipped := make([]bool, cfg.ext)
	for j := 0; j < cfg.ext; j++ {
		j := j
		extKilled[j] = new(atomic.Bool)
		s.Spawn("ext", func() {
			vsched.YieldIf("actorof-gate", func() bool { return started || startsLeft == 0 })
			if !started {
				// no Start got through (impossible on a system whose start-up chain succeeds): System.ActorOf must not be
				// called on a system without a root; the caller gives up (the replay will show the difference)
				extSkipped[j] = true
				return
			}
			_, err := sys.ActorOf(extActor{killed: extKilled[j]})
			extOK[j] = err == nil
		})
	}
	// how long the environment step "the tree has terminated" waits for the real root: an idle tree terminates within
	// microseconds. With external System.ActorOf callers the root may NEVER terminate (finding C07-actorof-races-stop):
	// once that has been established three times with generous waits, further occurrences are only classified (short waits)
	generous := h.aoRaceHits < 3
	treeWait, confirmWait := 5*time.Second, 1500*time.Millisecond
	if cfg.ext > 0 {
		treeWait = 600 * time.Millisecond
		if !generous {
			treeWait, confirmWait = 150*time.Millisecond, 250*time.Millisecond
		}
	}
	killIssued, treeDone, treeTimeout, abandoned := false, false, false, false
	s.ClosedGate = func(ch <-chan struct{}) bool { return treeDone }
	daemon := s.SpawnDaemon("treedone", func() {
		vsched.YieldIf("treedone", func() bool { return killIssued })
		if abandoned {
			return
		}
		select {
		case <-actor.XVSysGuardClosed(sys):
		case <-time.After(treeWait):
			treeTimeout = true
		}
		treeDone = !treeTimeout // never pretend the channel is closed: the select would block for real
	})
	known := s.NumThreads()
	guardTid := -1
	spawned := 0
	lockIdx := 0
	holder := map[string]int{}
	s.SnapshotStep = func(real int, label string, obj any) any {
		if label == "call:Kill" {
			killIssued = true
		}
		for id := known; id < s.NumThreads(); id++ {
			if _, isTimer := s.TimerOwner[id]; !isTimer {
				guardTid = id
				spawned++
			}
		}
		known = s.NumThreads()
		for ; lockIdx < len(s.LockOps); lockIdx++ {
			if op := s.LockOps[lockIdx]; op.Acquire {
				holder[op.Name] = op.Tid
			} else {
				delete(holder, op.Name)
			}
		}
		hs, ha := -1, -1
		if t, ok := holder["status"]; ok {
			hs = t
		}
		if t, ok := holder["actorOf"]; ok {
			ha = t
		}
		return snap{status: actor.XVSysStatus(sys), hasCtx: actor.XVSysHasCtx(sys), ctxDone: actor.XVSysCtxDone(sys), spawned: spawned, lastSelect: s.LastSelect,
			holdStatus: hs, holdActor: ha, hasCluster: actor.XVSysHasCluster(sys)}
	}
	// watchdog: under the controlled scheduler a step takes microseconds (the environment steps wait for the real actor
	// runtime: at most 5 s). A run that does not come back means that the thread which was resumed neither parked at its
	// next scheduling point nor finished - it is blocked for real on something the instrumented code does not control (a
	// goroutine / timer / callback created outside the instrumented operations, e.g. context.AfterFunc). That is not a
	// failing input of the property but a broken tie: say so and stop at once instead of running into the time limit.
	runDone := make(chan struct{})
	go func() { s.Run(); close(runDone) }()
	select {
	case <-runDone:
	case <-time.After(25 * time.Second):
		var inSys []string
		for _, blk := range allStacks() {
			if strings.Contains(blk, "internal/actor.(*System)") {
				inSys = append(inSys, blk)
			}
		}
		sort.Strings(inSys)
		msg := fmt.Sprintf("syslife: HARNESS-DID-NOT-COMPLETE: the controlled scheduler made no progress for 25 s in a lock-step run of calls %v (%v). Threads: %s. "+
			"The resumed thread neither reached its next scheduling point nor finished: an operation of Start/Stop that the instrumentation does not control "+
			"(a goroutine, timer or callback created outside the instrumented `go` / lock / channel / select operations of system.go, e.g. context.AfterFunc) is involved. "+
			"The model/implementation correspondence cannot be established on this tree.\ngoroutines inside System methods:\n%s",
			describeCalls(calls), cfg, s.Stuck(), strings.Join(inSys, "\n\n"))
		// no further controlled run is possible in this process (goroutines of this one are blocked for real); the real-time
		// tier still runs - if the change is a genuine defect (a call that hangs) it produces the failing input - and the
		// process ends with exit code 5 (harness did not complete) unless a monitor fired
		h.watchdog = msg
		h.o.Info["ls_watchdog"] = msg
		h.abortB = true
		vsched.Uninstall()
		cancelParent()
		return nil
	}


	// outcome of the external callers' Context.ActorOf (finding C07-actorof-races-stop): a spawned actor that is never
	// killed although Kill(root) was issued - the root still waits for it (alt 1) or has terminated without it (alt 2)
	rootDown := func(d time.Duration) bool {
		select {
		case <-actor.XVSysGuardClosed(sys):
			return true
		case <-time.After(d):
			return false
		}
	}
	extAlt := make([]int, cfg.ext)
	rootStuck := false
	if killIssued {
		down := rootDown(0)
		if !down && treeTimeout {
			down = rootDown(confirmWait)
			rootStuck = !down
		}
		for j := 0; j < cfg.ext; j++ {
			if !extOK[j] {
				continue
			}
			if down || rootStuck {
				for dl := time.Now().Add(confirmWait / 3); !extKilled[j].Load() && time.Now().Before(dl); {
					time.Sleep(200 * time.Microsecond)
				}
			}
			if extKilled[j].Load() {
				continue
			}
			if rootStuck {
				extAlt[j] = 1
			} else if down {
				extAlt[j] = 2
			}
		}
	}
	isExt := func(real int) bool { return real >= n && real < n+cfg.ext }
	mid := func(real int) int {
		if real == guardTid {
			return n
		}
		return real
	}
	ownerCode := func(real int) uint64 {
		switch {
		case real < 0:
			return 0
		case isExt(real):
			return uint64(1001 + real - n)
		}
		return uint64(1 + mid(real))
	}
	var evs, outs []lib.T
	unknown := ""
	prevLabel := map[int]string{}
	statusLocks := map[int]int{} // per thread: statusLock.Lock() steps taken so far
	firstLock := func(real int) bool { return real < n && calls[real].kind == kStart && statusLocks[real] == 0 }
	for _, st := range s.Trace {
		sn := st.Snap.(snap)
		out := func(lab uint64) {
			outs = append(outs, lib.L(lib.N(lab), lib.N(uint64(sn.status)), lib.Bool(sn.hasCtx), lib.Bool(sn.ctxDone), lib.NI(sn.spawned),
				lib.N(ownerCode(sn.holdStatus)), lib.N(ownerCode(sn.holdActor)), lib.Bool(sn.hasCluster)))
		}
		if st.Real == daemon {
			if st.Label != "treedone" || treeTimeout {
				continue // (treeTimeout: the real root did not terminate while the environment step waited: no event)
			}
			evs = append(evs, lib.L(lib.N(3)))
			out(91)
		} else if owner, isTimer := s.TimerOwner[st.Real]; isTimer {
			if !strings.HasPrefix(st.Label, "timer:") {
				continue
			}
			evs = append(evs, lib.L(lib.N(2), lib.NI(mid(owner))))
			out(90)
		} else if isExt(st.Real) {
			if st.Label == "start" {
				continue // runs to the gate: not a step of the model
			}
			alt := 0
			if st.Label == "Lock:actorOf" {
				alt = extAlt[st.Real-n]
			}
			evs = append(evs, lib.L(lib.N(1), lib.NI(st.Real-n), lib.NI(alt)))
			out(labelCode2(st.Label, false))
		} else {
			lab := labelCode2(st.Label, firstLock(st.Real))
			if st.Label == "Lock:status" {
				statusLocks[st.Real]++
			}
			if lab == 97 {
				unknown = st.Label
			}
			alt := 0
			if lab == 10 {
				alt = sn.lastSelect
			}
			if lab == 3 && !sn.hasCtx {
				alt = 1 // NewContext of the root failed
			}
			evs = append(evs, lib.L(lib.N(0), lib.NI(mid(st.Real)), lib.NI(alt)))
			out(lab)
			if lab == 15 && prevLabel[st.Real] == "call:Leave" {
				// System.ActorOf inside Leave(): the same real step went on through leaveLock.Unlock() and the blocking
				// `<-c.leaveWait` (cluster/context.go is not instrumented) up to the next scheduling point of stop, so the
				// leave HAS completed: the environment event and the model's step out of the wait belong to this real step
				evs = append(evs, lib.L(lib.N(4)), lib.L(lib.N(0), lib.NI(mid(st.Real)), lib.NI(0)))
				out(92)
				out(14)
			}
			prevLabel[st.Real] = st.Label
		}
	}
	// final per-thread results and verdict
	var fin []lib.T
	allDone, onlyGuard := true, true
	threadIDs := make([]int, n)
	for i := range threadIDs {
		threadIDs[i] = i
	}
	if guardTid >= 0 {
		threadIDs = append(threadIDs, guardTid)
	}
	var stuck []string
	for k, id := range threadIDs {
		label, done := s.ThreadLabel(id)
		if done {
			kind, c := 0, 0
			switch {
			case k == n:
				kind = 2
			case calls[k].kind == kStart:
				kind, c = 0, results[k]
			case calls[k].kind == kStop:
				kind, c = 1, results[k]
			default:
				kind = 3
			}
			fin = append(fin, lib.L(lib.N(0), lib.NI(kind), lib.NI(c)))
			continue
		}
		allDone = false
		fin = append(fin, lib.L(lib.N(1), lib.N(labelCode2(label, firstLock(id)))))
		if !(k == n && label == "recv:ctxDone" && !actor.XVSysCtxDone(sys)) {
			onlyGuard = false
			stuck = append(stuck, fmt.Sprintf("thread %d at %q", id, label))
		}
	}
	for j := 0; j < cfg.ext; j++ {
		label, done := s.ThreadLabel(n + j)
		if done && extSkipped[j] {
			fin = append(fin, lib.L(lib.N(1), lib.N(16))) // never called System.ActorOf
			continue
		}
		if done {
			fin = append(fin, lib.L(lib.N(0), lib.N(4), lib.N(0)))
			continue
		}
		allDone, onlyGuard = false, false
		fin = append(fin, lib.L(lib.N(1), lib.N(labelCode2(label, false))))
		stuck = append(stuck, fmt.Sprintf("external System.ActorOf caller (thread %d) at %q", n+j, label))
	}
	verdict := 2
	if allDone {
		verdict = 0
	} else if onlyGuard {
		verdict = 1
	}
	threads := make([]lib.T, n)
	for i, c := range calls {
		switch c.kind {
		case kStart:
			threads[i] = lib.L(lib.N(0))
		case kStop:
			if c.d < 0 {
				threads[i] = lib.L(lib.N(1))
			} else {
				threads[i] = lib.L(lib.N(1), lib.NI(c.d))
			}
		default:
			threads[i] = lib.L(lib.N(2))
		}
	}
	in := lib.L(lib.N(4), lib.L(lib.Bool(cfg.cluster), lib.N(5), lib.Bool(cfg.metrics), lib.Bool(cfg.remoting || cfg.cluster || cfg.rootFail), lib.N(0)),
		lib.LS(threads), lib.NI(cfg.ext), lib.LS(evs))
	out := lib.L(lib.LS(outs), lib.LS(fin), lib.NI(verdict))
	pre := 0
	for i := 1; i < len(s.Trace); i++ {
		if s.Trace[i].Real != s.Trace[i-1].Real {
			pre++
		}
	}
	h.o.Case(fmt.Sprintf("ls-calls=%d", n), pre >= 2, in, out)
	h.o.Stats["ls-steps"] += len(s.Trace)
	h.o.Stats[fmt.Sprintf("ls-verdict=%d", verdict)]++
	switch {
	case cfg.rootFail:
		h.o.Stats["ls-root-fails"]++
	case cfg.cluster:
		h.o.Stats["ls-cluster"]++
	case cfg.remoting:
		h.o.Stats["ls-remoting"]++
	}
	if cfg.metrics {
		h.o.Stats["ls-metrics"]++
	}
	if cfg.ext > 0 {
		h.o.Stats["ls-ext-actorof"]++
	}
	if unknown != "" {
		h.o.Stats["ls-unknown-label:"+unknown]++
	}

	// ---- monitors: the property evaluated on what the real code did ----
	if verdict == 2 {
		what := "deadlock"
		if s.Overrun {
			what = "no-termination"
		}
		waits, cycle := s.LockWaits()
		lockPart := ""
		if len(waits) > 0 {
			lockPart = " | locks: " + strings.Join(waits, "; ")
		}
		if cycle && s.Deadlock {
			// every thread is parked in front of a lock whose holder is parked in front of a lock: a lock-order cycle
			h.o.Monitor("c07-start-stop-deadlock", in, fmt.Sprintf("controlled schedule of calls %v (%v): LOCK-ORDER DEADLOCK, no thread can ever run again: %s | schedule (thread:label): %s",
				describeCalls(calls), cfg, strings.Join(waits, "; "), scheduleText(s)))
		}
		h.o.Monitor(what, in, fmt.Sprintf("calls %v (%v): unfinished threads that wait neither for a context cancel nor for the environment: %s | all: %s%s", describeCalls(calls), cfg, strings.Join(stuck, ", "), s.Stuck(), lockPart))
	}
	h.lockOrderCase(calls, n, cfg.ext, guardTid, s)
	raced := false
	for j, a := range extAlt {
		if a == 0 {
			continue
		}
		raced = true
		h.o.Stats[fmt.Sprintf("ls-actorof-race-outcome=%d", a)]++
		if !generous {
			continue
		}
		if a == 1 {
			h.o.Monitor("c07-actorof-races-stop:root-never-terminates", in, fmt.Sprintf("calls %v (%v) returned %v: external System.ActorOf caller #%d spawned an actor after Kill(root) had been issued; that actor never received OnKilled and the root never terminated (guardClosedSignal still open %v after the kill, nothing else alive in the tree): Context.ActorOf used the root's state it had read BEFORE the root handled OnKill, so nobody kills the new child and the root waits for it for ever - Stop can only run into its timeout | schedule: %s",
				describeCalls(calls), cfg, names(results), j, treeWait+confirmWait, scheduleText(s)))
		} else {
			h.o.Monitor("c07-actorof-races-stop:actor-survives-stop", in, fmt.Sprintf("calls %v (%v) returned %v: external System.ActorOf caller #%d spawned an actor after Kill(root) had been issued; the root has terminated (guardClosedSignal closed) but that actor never received OnKilled: it is registered under a dead root and lives for ever although the system is stopped | schedule: %s",
				describeCalls(calls), cfg, names(results), j, scheduleText(s)))
		}
	}
	if raced {
		h.aoRaceHits++
	}
	if rootStuck && !raced {
		h.abortB = true // every further run that issues the kill would wait again
		h.o.Monitor("root-not-terminated", in, fmt.Sprintf("Kill(root) was issued but guardClosedSignal was not closed within %v on a system without user actors (%v)", treeWait+confirmWait, cfg))
	}
	effective := 0
	stopNil := false
	for i, c := range calls {
		r := results[i]
		if r < 0 {
			continue
		}
		ok := true
		switch c.kind {
		case kStart:
			ok = r == 0 || r == 1 || r == 2 || r == 10 || r == 12 || r == 14
			stopNil = stopNil || r == 10
		case kStop:
			ok = r == 0 || r == 2 || r == 3 || r == 4
			if r == 0 || r == 4 {
				effective++
			}
			stopNil = stopNil || r == 0
		}
		if !ok {
			h.o.Monitor("return-outside-table", in, fmt.Sprintf("calls %v (%v): call #%d returned %s", describeCalls(calls), cfg, i, codeName(r)))
		}
	}
	if effective > 1 {
		h.o.Monitor("two-effective-stops", in, fmt.Sprintf("calls %v (%v) returned %v", describeCalls(calls), cfg, names(results)))
	}
	if stopNil && verdict != 2 && actor.XVSysHasCtx(sys) {
		closed := false
		select {
		case <-actor.XVSysGuardClosed(sys):
			closed = true
		default:
		}
		if !closed || !actor.XVSysCtxDone(sys) {
			name := "stop-nil-system-running"
			if !killIssued && !closed {
				name = "stop-skipped-kill-and-cancel" // the stop read s.Context == nil although a root is (being) created
			}
			h.o.Monitor(name, in, fmt.Sprintf("calls %v (%v) returned %v: a stop returned nil but guardClosedSignal closed=%v, context cancelled=%v, root context assigned=%v (the system keeps running, status=%d)",
				describeCalls(calls), cfg, names(results), closed, actor.XVSysCtxDone(sys), actor.XVSysHasCtx(sys), actor.XVSysStatus(sys)))
		}
	}
	effReturned := false
	for i, c := range calls {
		r := results[i]
		if c.kind == kStop && (r == 0 || r == 4) || c.kind == kStart && (r == 10 || r == 14) {
			effReturned = true
		}
	}
	hasCancel := false
	for _, c := range calls {
		hasCancel = hasCancel || c.kind == kCancel
	}
	if !hasCancel && !effReturned && verdict != 2 && (actor.XVSysCtxDone(sys) || actor.XVSysStatus(sys) == 2) {
		// nobody cancelled the context and no Stop got through (not-started / already-... only): the system must be untouched -
		// a Stop BEFORE Start returns not-started without touching anything, the later Start gives a running system
		h.o.Monitor("c07-stopped-without-stop-or-cancel", in, fmt.Sprintf("calls %v (%v) returned %v: no call cancelled the context and no Stop got through, but context cancelled=%v, status=%d: the system was stopped / its context cancelled by a call that reported it had done nothing | schedule: %s",
			describeCalls(calls), cfg, names(results), actor.XVSysCtxDone(sys), actor.XVSysStatus(sys), scheduleText(s)))
	}
	if effReturned && verdict != 2 && actor.XVSysHasCtx(sys) {
		// after ANY effective stop has returned (nil or the timeout arm) the context is cancelled and the guard goroutine ends
		if !actor.XVSysCtxDone(sys) {
			h.o.Monitor("c07-stop-returned-context-not-cancelled", in, fmt.Sprintf("calls %v (%v) returned %v: an effective stop has returned but the system context is NOT cancelled (status=%d): every later Stop answers already-stopped without cancelling, the context-guard goroutine stays blocked on <-ctx.Done() for ever | schedule: %s",
				describeCalls(calls), cfg, names(results), actor.XVSysStatus(sys), scheduleText(s)))
		}
		if verdict == 1 {
			h.o.Monitor("c07-guard-goroutine-outlives-stop", in, fmt.Sprintf("calls %v (%v) returned %v: every call has returned, an effective stop among them, but the context-guard goroutine is still parked on <-ctx.Done() (context cancelled=%v) | schedule: %s",
				describeCalls(calls), cfg, names(results), actor.XVSysCtxDone(sys), scheduleText(s)))
		}
	}
	if stopNil && verdict != 2 {
		// whoever stopped the system (Stop, or Start's own failure path): the status is stop for good
		if st := actor.XVSysStatus(sys); st != 2 {
			h.o.Monitor("stop-nil-status-not-stop", in, fmt.Sprintf("calls %v (%v) returned %v: a stop returned nil but the status is %d, not stop: the one-way state machine can be started / stopped again",
				describeCalls(calls), cfg, names(results), st))
		}
	}
	// ---- cleanup: let everything that is still parked run for real and shut the system down ----
	abandoned = true
	finished := s.Release()
	cancelParent()
	cleaned := make(chan struct{})
	go func() {
		<-finished
		_ = sys.Stop(50 * time.Millisecond)
		close(cleaned)
	}()
	select {
	case <-cleaned:
	case <-time.After(6 * time.Second):
		// goroutines of this run are stuck for good (reported above as deadlock): no further controlled run is
		// safe in this process, a stray goroutine could talk to the next scheduler
		h.abortB = true
		h.o.Stats["ls-aborted-after-stuck-run"]++
		if verdict != 2 {
			h.o.Monitor("released-threads-stuck", in, "after the controlled run the remaining goroutines were released to run for real but did not finish within 6 s: "+s.Stuck())
		}
	}
	return s.Choices
}

func scheduleText(s *vsched.Sched) string {
	var parts []string
	for _, st := range s.Trace {
		parts = append(parts, fmt.Sprintf("%d:%s", st.Real, st.Label))
	}
	if len(parts) > 60 {
		parts = append(parts[:60], "...")
	}
	return strings.Join(parts, " > ")
}

// lockOrderCase: the lock operations every thread of the run performed, in its own order, as a case for the
// lock-order machine of System/LockOrder.v (kind 3): the model answers, per thread, whether the sequence respects
// the lock hierarchy statusLock < actorOfLock (well bracketed, never acquiring a lock while holding a higher or
// equal one) and whether it is a prefix of the program the model assigns to that kind of thread.
func (h *H) lockOrderCase(calls []tcall, n int, next int, guardTid int, s *vsched.Sched) {
	lockID := func(name string) (uint64, bool) {
		switch name {
		case "status":
			return 0, true
		case "actorOf":
			return 1, true
		}
		return 0, false
	}
	per := map[int][]lib.T{}
	for _, op := range s.LockOps {
		id, ok := lockID(op.Name)
		if !ok {
			h.o.Stats["lo-unknown-lock:"+op.Name]++
			id = 9
		}
		per[op.Tid] = append(per[op.Tid], lib.L(lib.Bool(op.Acquire), lib.N(id)))
	}
	var threads, outs []lib.T
	nops := 0
	add := func(kind uint64, tid int) {
		_, done := s.ThreadLabel(tid)
		threads = append(threads, lib.L(lib.N(kind), lib.Bool(done), lib.LS(per[tid])))
		outs = append(outs, lib.L(lib.Bool(true), lib.Bool(true)))
		nops += len(per[tid])
	}
	for i, c := range calls {
		switch c.kind {
		case kStart:
			add(0, i)
		case kStop:
			add(1, i)
		default:
			add(3, i)
		}
	}
	if guardTid >= 0 {
		add(2, guardTid)
	}
	for j := 0; j < next; j++ {
		add(4, n+j) // external System.ActorOf caller
	}
	in := lib.L(lib.N(3), lib.LS(threads))
	key := lib.Show(in)
	if h.loSeen == nil {
		h.loSeen = map[string]bool{}
	}
	h.o.Stats["lo-runs"]++
	if h.loSeen[key] { // one case per distinct vector of per-thread lock sequences
		return
	}
	h.loSeen[key] = true
	h.o.Case("lo-lock-order", nops >= 4, in, lib.LS(outs))
}

func describeCalls(calls []tcall) []string {
	out := make([]string, len(calls))
	for i, c := range calls {
		switch c.kind {
		case kStart:
			out[i] = "Start"
		case kStop:
			out[i] = "Stop"
			if c.d >= 0 {
				out[i] = fmt.Sprintf("Stop(%ds)", c.d)
			}
		default:
			out[i] = "cancel"
		}
	}
	return out
}

func (h *H) tierB(r *lib.Rand, thorough bool) {
	st, sp, spd, ca := tcall{kind: kStart}, tcall{kind: kStop, d: -1}, tcall{kind: kStop, d: 3}, tcall{kind: kCancel}
	fixed := [][]tcall{
		{st}, {sp}, {st, sp}, {sp, st}, {st, st}, {st, ca}, {ca, st},
		{st, sp, sp}, {st, spd, ca}, {st, st, sp}, {st, sp, ca, spd},
		{st, st, sp, spd, sp, ca},
	}
	bound, perCfg := 2, 400
	if thorough {
		bound, perCfg = 3, 8000
	}
	total := 0
	dfs := func(c []tcall, cfg lsCfg, max int) int {
		return vsched.Explore(bound, max, func(choose func([]int, int) int) []vsched.Choice {
			if h.abortB {
				return nil
			}
			return h.lockstep(c, cfg, choose)
		})
	}
	// first the systems whose start-up chain takes actorOfLock under statusLock (metrics enabled): Start against
	// Stop / cancel / a second Start, every schedule up to the preemption bound
	withMetrics := [][]tcall{{st, sp}, {sp, st}, {st, sp, sp}, {st, st, sp}, {st, ca}, {st, spd, ca}}
	perM := 120
	if thorough {
		perM = 2500
	}
	mruns := 0
	for _, c := range withMetrics {
		mruns += dfs(c, lsCfg{metrics: true}, perM)
	}
	h.o.Info["ls_dfs_metrics_configs"] = len(withMetrics)
	h.o.Info["ls_dfs_metrics_runs"] = mruns
	// external System.ActorOf callers (they go once a Start has returned nil) against Stop / cancel / the guard goroutine:
	// actorOfLock is contended between the chain (under statusLock), Leave and these callers
	withExt := []struct {
		c   []tcall
		cfg lsCfg
	}{
		{[]tcall{st, sp}, lsCfg{ext: 1}}, {[]tcall{st}, lsCfg{ext: 2}}, {[]tcall{st, sp, ca}, lsCfg{ext: 1, metrics: true}},
		{[]tcall{st, st, spd}, lsCfg{ext: 2, metrics: true}},
	}
	xruns := 0
	for _, x := range withExt {
		xruns += dfs(x.c, x.cfg, perM)
	}
	h.o.Info["ls_dfs_ext_runs"] = xruns
	// root creation fails (invalid advertise address): Start's failure path - Unlock, s.Stop(StopTimeout) finding no root,
	// start-failed(nil) - against Stop / cancel / a second Start
	rootFail := [][]tcall{{st}, {st, sp}, {sp, st}, {st, st}, {st, ca}, {st, st, spd, ca}}
	perF := 60
	if thorough {
		perF = 1500
	}
	fruns := 0
	for _, c := range rootFail {
		fruns += dfs(c, lsCfg{rootFail: true}, perF)
	}
	h.o.Info["ls_dfs_rootfail_runs"] = fruns
	// remoting / single-node cluster on loopback: the chain has 1 / 3 (4 with metrics) System.ActorOf calls under
	// statusLock; the effective stop of a clustered system goes through Leave() (System.ActorOf of the helper actor, then
	// the wait for ClusterLeaveCompletedEvent, which the real cluster node publishes)
	netCfgs := []struct {
		c   []tcall
		cfg lsCfg
	}{
		{[]tcall{st, sp}, lsCfg{cluster: true}}, {[]tcall{st, ca}, lsCfg{cluster: true, metrics: true}}, {[]tcall{st, sp, spd}, lsCfg{cluster: true, ext: 1}},
		{[]tcall{st, sp}, lsCfg{remoting: true}}, {[]tcall{st, ca, sp}, lsCfg{remoting: true, metrics: true}},
	}
	perN := 12
	if thorough {
		perN = 300
	}
	nruns := 0
	for _, x := range netCfgs {
		nruns += dfs(x.c, x.cfg, perN)
	}
	h.o.Info["ls_dfs_net_runs"] = nruns
	for _, c := range fixed {
		total += dfs(c, lsCfg{}, perCfg)
	}
	h.o.Info["ls_dfs_configs"] = len(fixed)
	h.o.Info["ls_dfs_preemption_bound"] = bound
	h.o.Info["ls_dfs_runs"] = total
	n := 1000
	if thorough {
		n = 12000
	}
	for i := 0; i < n && !h.abortB; i++ {
		var calls []tcall
		ns, nt, nc := r.Intn(3), r.Intn(4), r.Intn(2)
		for k := 0; k < ns; k++ {
			calls = append(calls, st)
		}
		for k := 0; k < nt; k++ {
			if r.Bool() {
				calls = append(calls, sp)
			} else {
				calls = append(calls, spd)
			}
		}
		for k := 0; k < nc; k++ {
			calls = append(calls, ca)
		}
		if len(calls) == 0 {
			calls = []tcall{st, sp}
			ns = 1
		}
		for k := len(calls) - 1; k > 0; k-- { // shuffle
			j := r.Intn(k + 1)
			calls[k], calls[j] = calls[j], calls[k]
		}
		rr := r.Fork()
		var ch func([]int, int) int
		if r.Bool() {
			ch = vsched.RandomChooser(rr.Intn)
		} else {
			ch = vsched.StickyChooser(rr.Intn, 2+r.Intn(5))
		}
		cfg := lsCfg{metrics: i%5 == 4}
		switch {
		case i%7 == 3:
			cfg.rootFail = true
		case i%6 == 1 && ns > 0:
			cfg.ext = 1 + i%2
		case i%50 == 10 && ns > 0:
			cfg.cluster = true
		}
		h.lockstep(calls, cfg, ch)
	}
	h.o.Info["ls_random_runs"] = n
}

func main() {
	f := lib.ParseFlags()
	o := lib.NewOut(f.Out)
	h := &H{o: o, report: f.Report}
	vsched.TrackRealLocks.Store(true) // the real-time watchdog names the lock sites of a lock-order deadlock
	r := lib.NewRand(f.Seed)
	thorough := f.Tier == "thorough"
	ra, rb := r.Fork(), r.Fork()
	// the controlled runs first: a schedule that deadlocks is found deterministically there; goroutines of an
	// abandoned run are waited for (or, if stuck for good, stay blocked and never touch vsched again)
	t1 := time.Now()
	h.tierB(rb, thorough)
	o.Info["ls_wall_s"] = time.Since(t1).Seconds()
	t0 := time.Now()
	// seeds >= 1000 are the ones bin/check uses for its targeted search after a correspondence break (seed+1000+i): the
	// real-time tier is seed-independent except for which quarter of the longest sequences it samples, so re-running all of
	// it three more times only costs time; the search runs get a reduced real-time tier (the lock-step tier is complete)
	reduced := f.Seed >= 1000 && !thorough
	h.tierA(ra, thorough, reduced)
	o.Info["rt_reduced"] = reduced
	o.Info["rt_wall_s"] = time.Since(t0).Seconds()
	o.Close(f.Report)
	if len(o.Monitors) > 0 {
		os.Exit(3)
	}
	if h.watchdog != "" {
		fmt.Fprintln(os.Stderr, h.watchdog)
		os.Exit(5)
	}
}
