// view: correspondence cases and implementation-side monitors for C17 (cluster.ClusterView merge).
//
// Every operation is executed on the REAL ClusterView / NodeState; the view is dumped before and after
// and the pair (operation with dumped operands, dumped result) is a case for the Coq model
// (coq/Cluster/ViewRun.v).  Monitors evaluate the clauses of C17 directly on what the real code did.
package main

import (
	"fmt"
	"os"
	"sort"
	"strings"
	"time"

	"github.com/kercylan98/vivid/internal/cluster"
	"github.com/kercylan98/vivid/xverif/lib"
)

// nominal wall clock handed to the model; the real code reads time.Now() itself. All view timestamps
// are placed so that the clock-skew branch takes the same side for every real clock within 10 years of
// NOW0 (checked at start-up).
const NOW0 = int64(1_790_000_000_000_000_000)
const T0 = int64(1_700_000_000_000_000_000)
const maxC = uint64(1<<63 - 1)

var skews = []time.Duration{0, time.Hour, time.Duration(1 << 62)} // off / every synthetic timestamp is "far" / "near"

// ---- dumps ----

type St struct {
	ID, Addr string
	Gen      int
	Ts       int64
	Seq      uint64
	Status   int
	LC       uint64
	Seen     int64
}

type Vw struct {
	Epoch, Ts int64
	MaxEnt    int
	Proto     uint16
	H, U, Q   int
	Members   map[string]St
	VV        map[string]uint64
}

func dumpState(n *cluster.NodeState) St {
	return St{n.ID, n.Address, n.Generation, n.Timestamp, n.SeqNo, int(n.Status), n.LogicalClock, n.LastSeen}
}

func dumpView(v *cluster.ClusterView) Vw {
	d := Vw{Epoch: v.Epoch, Ts: v.Timestamp, MaxEnt: v.MaxVersionVectorEntries, Proto: v.ProtocolVersion,
		H: v.HealthyCount, U: v.UnhealthyCount, Q: v.QuorumSize, Members: map[string]St{}, VV: cluster.XVDump(v.VersionVector)}
	for k, m := range v.Members {
		if m != nil {
			d.Members[k] = dumpState(m)
		}
	}
	return d
}

func tState(s St) lib.T {
	return lib.L(lib.S(s.ID), lib.S(s.Addr), lib.Z(int64(s.Gen)), lib.Z(s.Ts), lib.N(s.Seq), lib.Z(int64(s.Status)), lib.N(s.LC), lib.Z(s.Seen))
}

func tView(d Vw) lib.T {
	keys := make([]string, 0, len(d.Members))
	for k := range d.Members {
		keys = append(keys, k)
	}
	sort.Strings(keys)
	ms := make([]lib.T, 0, len(keys))
	for _, k := range keys {
		ms = append(ms, lib.L(lib.S(k), tState(d.Members[k])))
	}
	vk := make([]string, 0, len(d.VV))
	for k := range d.VV {
		vk = append(vk, k)
	}
	sort.Strings(vk)
	vs := make([]lib.T, 0, len(vk))
	for _, k := range vk {
		vs = append(vs, lib.L(lib.S(k), lib.N(d.VV[k])))
	}
	return lib.L(lib.Z(d.Epoch), lib.Z(d.Ts), lib.Z(int64(d.MaxEnt)), lib.N(uint64(d.Proto)),
		lib.L(lib.NI(d.H), lib.NI(d.U), lib.NI(d.Q)), lib.LS(ms), lib.LS(vs))
}

// ---- predicates of the theorems, evaluated on dumps ----

func incLess(a, b St) bool { return a.Gen < b.Gen || (a.Gen == b.Gen && a.LC < b.LC) }

func wf(d Vw) bool {
	for k, s := range d.Members {
		if s.ID != k || s.Gen < 1 || s.LC < 1 {
			return false
		}
	}
	return true
}

func vvIn(d Vw) bool {
	for k := range d.VV {
		if _, ok := d.Members[k]; !ok {
			return false
		}
	}
	return true
}

func capOK(d Vw) bool {
	limit := d.MaxEnt
	if limit <= 0 {
		limit = 65535
	}
	return len(d.Members) <= limit
}

type inc struct {
	Gen int
	LC  uint64
}

func proj(d Vw) map[string]inc {
	p := map[string]inc{}
	for k, s := range d.Members {
		p[k] = inc{s.Gen, s.LC}
	}
	return p
}

func sameProj(a, b map[string]inc) bool {
	if len(a) != len(b) {
		return false
	}
	for k, x := range a {
		if y, ok := b[k]; !ok || x != y {
			return false
		}
	}
	return true
}

func showProj(p map[string]inc) string {
	keys := make([]string, 0, len(p))
	for k := range p {
		keys = append(keys, k)
	}
	sort.Strings(keys)
	var sb strings.Builder
	for _, k := range keys {
		fmt.Fprintf(&sb, "%s:(%d,%d) ", k, p[k].Gen, p[k].LC)
	}
	return sb.String()
}

func sameMembers(a, b map[string]St) bool {
	if len(a) != len(b) {
		return false
	}
	for k, x := range a {
		if y, ok := b[k]; !ok || x != y {
			return false
		}
	}
	return true
}

func sameVw(a, b Vw) bool {
	if a.Epoch != b.Epoch || a.Ts != b.Ts || a.MaxEnt != b.MaxEnt || a.Proto != b.Proto || a.H != b.H || a.U != b.U || a.Q != b.Q {
		return false
	}
	if !sameMembers(a.Members, b.Members) || len(a.VV) != len(b.VV) {
		return false
	}
	for k, c := range a.VV {
		if d, ok := b.VV[k]; !ok || c != d {
			return false
		}
	}
	return true
}

// ---- harness ----

type Opt struct {
	Skew  time.Duration
	Strat int
}

type H struct {
	o *lib.Out
	r *lib.Rand
}

func (h *H) guard(name string, c lib.T, f func()) {
	defer func() {
		if r := recover(); r != nil {
			h.o.Monitor("panic:"+name, c, fmt.Sprint(r))
		}
	}()
	f()
}

// merge runs v.MergeFromWithOptions(o, opt) on the real views, emits the case (when emit) and evaluates
// every single-merge clause of the property on the observed before/after states.
func (h *H) merge(v, o *cluster.ClusterView, opt Opt, emit bool) (changed bool) {
	dv, do := dumpView(v), dumpView(o)
	in := lib.L(lib.N(1), tView(dv), tView(do), lib.Z(int64(opt.Skew)), lib.Z(int64(opt.Strat)), lib.Z(NOW0))
	h.guard("merge", in, func() {
		changed = v.MergeFromWithOptions(o, cluster.MergeOptions{MaxClockSkew: opt.Skew, VersionConcurrentStrategy: opt.Strat})
		dv2, do2 := dumpView(v), dumpView(o)
		if emit {
			kind := "merge"
			if !wf(dv) || !wf(do) {
				kind = "merge-illformed"
			} else if !vvIn(dv) || !capOK(dv2) {
				kind = "merge-unguarded"
			}
			h.o.Case(kind, len(dv.Members) > 0 && len(do.Members) > 0, in, lib.L(tView(dv2), lib.Bool(changed)))
		}
		h.o.Stats["merges-monitored"]++
		// the operand is never modified
		if v != o && !sameVw(do, do2) {
			h.o.Monitor("operand-modified", in, "MergeFromWithOptions changed its argument view")
		}
		// stored states are clones: no pointer of o is shared with v afterwards
		for k, os := range o.Members {
			if v == o {
				break
			}
			if vs, ok := v.Members[k]; ok && os != nil && vs == os {
				h.o.Monitor("aliasing", in, "after the merge v.Members["+k+"] is the same pointer as other.Members["+k+"]")
				break
			}
			if vs, ok := v.Members[k]; ok && os != nil && vs != nil && len(os.Labels) > 0 && len(vs.Labels) > 0 {
				vs.Labels["xv-probe"] = "1"
				_, shared := os.Labels["xv-probe"]
				delete(vs.Labels, "xv-probe")
				if shared {
					h.o.Monitor("aliasing", in, "after the merge v.Members["+k+"].Labels is shared with the argument view")
					break
				}
			}
		}
		// never removes a member; the stored state is the old one or one of o (union of members)
		for k, s := range dv.Members {
			s2, ok := dv2.Members[k]
			if !ok {
				h.o.Monitor("member-removed", in, "member "+k+" disappeared in a merge")
				continue
			}
			if s2 != s {
				if so, ok := do.Members[k]; !ok || so != s2 {
					h.o.Monitor("member-fabricated", in, "member "+k+" was replaced by a state that is neither the old one nor the argument's")
				}
			}
		}
		for k := range dv2.Members {
			_, a := dv.Members[k]
			_, b := do.Members[k]
			if !a && !b {
				h.o.Monitor("member-fabricated", in, "member "+k+" appeared from nowhere")
			}
		}
		if len(do.Members) > 0 {
			for k := range do.Members {
				if _, ok := dv2.Members[k]; !ok {
					h.o.Monitor("member-missing", in, "member "+k+" of the argument view is not in the result (union of members)")
				}
			}
		}
		// never replaces a member by an older incarnation; each member at its newest incarnation
		if wf(dv) && wf(do) {
			for k, s2 := range dv2.Members {
				if s, ok := dv.Members[k]; ok && incLess(s2, s) {
					h.o.Monitor("regression", in, fmt.Sprintf("member %s went from (%d,%d) to (%d,%d)", k, s.Gen, s.LC, s2.Gen, s2.LC))
				}
				if len(do.Members) > 0 {
					if s, ok := do.Members[k]; ok && incLess(s2, s) {
						h.o.Monitor("not-newest", in, fmt.Sprintf("member %s is at (%d,%d) although the argument view has (%d,%d)", k, s2.Gen, s2.LC, s.Gen, s.LC))
					}
				}
			}
		}
		// never lowers the epoch
		if dv2.Epoch < dv.Epoch {
			h.o.Monitor("epoch-lowered", in, fmt.Sprintf("epoch %d -> %d", dv.Epoch, dv2.Epoch))
		}
		// never lowers a member's version-vector entry (guard: member count within MaxVersionVectorEntries)
		lowered := ""
		if capOK(dv2) {
			for k := range dv2.Members {
				if dv2.VV[k] < dv.VV[k] {
					lowered = k
					h.o.Monitor("vv-entry-lowered", in, fmt.Sprintf("version-vector entry of member %s: %d -> %d", k, dv.VV[k], dv2.VV[k]))
				}
			}
		}
		// changed is reported whenever the membership or the version vector actually changed - every
		// pair of views, no guard (C17_changed_sound): entries dropped by the prune in recomputeCounts
		// (keys that are no members, truncation to MaxVersionVectorEntries) count as a change
		if !changed {
			diff := !sameMembers(dv.Members, dv2.Members)
			what := "members"
			for k, c := range dv.VV {
				if dv2.VV[k] != c {
					diff = true
					what = fmt.Sprintf("version-vector entry %s: %d -> %d", k, c, dv2.VV[k])
				}
			}
			for k, c := range dv2.VV {
				if dv.VV[k] != c {
					diff = true
					what = fmt.Sprintf("version-vector entry %s: %d -> %d", k, dv.VV[k], c)
				}
			}
			if diff {
				h.o.Monitor("changed-unsound", in, "members or version vector differ before/after ("+what+") but changed = false")
			}
		}
		h.o.Stats["merges-changed-soundness-checked"]++
		_ = lowered
	})
	return changed
}

func snap(v *cluster.ClusterView) *cluster.ClusterView { return v.Snapshot() }

func (h *H) randOpt() Opt {
	return Opt{skews[h.r.Intn(3)], []int{0, 1, 2, 0, 3}[h.r.Intn(5)]}
}

// pair: merge(a,b) and merge(b,a) on fresh copies; commutativity of the membership
func (h *H) pair(a, b *cluster.ClusterView, opt Opt, emit bool) {
	va, vb := snap(a), snap(b)
	h.merge(va, snap(b), opt, emit)
	h.merge(vb, snap(a), opt, false)
	da, db := dumpView(a), dumpView(b)
	if wf(da) && wf(db) {
		p1, p2 := proj(dumpView(va)), proj(dumpView(vb))
		if !sameProj(p1, p2) {
			h.o.Monitor("merge-comm", lib.L(tView(da), tView(db), lib.Z(int64(opt.Skew)), lib.Z(int64(opt.Strat))),
				"membership of merge(a,b) = "+showProj(p1)+" but merge(b,a) = "+showProj(p2))
		}
		h.o.Stats["pairs-comm-checked"]++
	}
}

// idem: merging a view with its own snapshot / with itself changes no membership
func (h *H) idem(a *cluster.ClusterView, opt Opt) {
	da := dumpView(a)
	v := snap(a)
	h.merge(v, snap(a), opt, true)
	v2 := snap(a)
	h.merge(v2, v2, opt, false)
	if !sameMembers(dumpView(v).Members, da.Members) || !sameMembers(dumpView(v2).Members, da.Members) {
		h.o.Monitor("merge-idem", tView(da), "merging a view with itself changed its members")
	}
}

var perms = [][3]int{{0, 1, 2}, {0, 2, 1}, {1, 0, 2}, {1, 2, 0}, {2, 0, 1}, {2, 1, 0}}

// triple: all 6 orders x 2 tree shapes, every merge with its own options: one membership
func (h *H) triple(vs [3]*cluster.ClusterView, emit bool) {
	ds := [3]Vw{dumpView(vs[0]), dumpView(vs[1]), dumpView(vs[2])}
	allWF := wf(ds[0]) && wf(ds[1]) && wf(ds[2])
	var first map[string]inc
	var firstDesc string
	for pi, p := range perms {
		x, y, z := vs[p[0]], vs[p[1]], vs[p[2]]
		em := emit && pi == 0
		// (x + y) + z
		m := snap(x)
		h.merge(m, snap(y), h.randOpt(), em)
		h.merge(m, snap(z), h.randOpt(), em)
		// x + (y + z)
		t := snap(y)
		h.merge(t, snap(z), h.randOpt(), em)
		m2 := snap(x)
		h.merge(m2, t, h.randOpt(), em)
		if !allWF {
			continue
		}
		for si, res := range []*cluster.ClusterView{m, m2} {
			pr := proj(dumpView(res))
			desc := fmt.Sprintf("order %v shape %d", p, si)
			if first == nil {
				first, firstDesc = pr, desc
			} else if !sameProj(first, pr) {
				h.o.Monitor("merge-order", lib.L(tView(ds[0]), tView(ds[1]), tView(ds[2])),
					firstDesc+" gives "+showProj(first)+" but "+desc+" gives "+showProj(pr))
				return
			}
		}
	}
	if allWF {
		h.o.Stats["triples-all-orders"]++
	}
}

// ---- single operations (correspondence cases) ----

func (h *H) add(v *cluster.ClusterView, s *cluster.NodeState) {
	dv := dumpView(v)
	in := lib.L(lib.N(2), tView(dv), tState(dumpState(s)))
	h.guard("add", in, func() {
		v.AddMember(s)
		h.o.Case("add", len(dv.Members) > 0, in, tView(dumpView(v)))
		if st, ok := v.Members[s.ID]; ok && st == s {
			h.o.Monitor("aliasing", in, "AddMember stored the caller's pointer")
		}
	})
}

func (h *H) remove(v *cluster.ClusterView, id string) {
	dv := dumpView(v)
	in := lib.L(lib.N(3), tView(dv), lib.S(id))
	h.guard("remove", in, func() {
		v.RemoveMember(id)
		_, had := dv.Members[id]
		h.o.Case("remove", had, in, tView(dumpView(v)))
	})
}

func (h *H) incr(v *cluster.ClusterView, id string) {
	dv := dumpView(v)
	in := lib.L(lib.N(4), tView(dv), lib.S(id))
	h.guard("inc", in, func() {
		v.IncrementVersion(id)
		h.o.Case("inc", len(dv.Members) > 0, in, tView(dumpView(v)))
	})
}

func (h *H) setStatus(v *cluster.ClusterView, id string, st int) {
	dv := dumpView(v)
	in := lib.L(lib.N(5), tView(dv), lib.S(id), lib.Z(int64(st)))
	h.guard("status", in, func() {
		if m := v.Members[id]; m != nil {
			m.Status = cluster.MemberStatus(st) // node_actor.go changes the stored state in place
		}
		_, had := dv.Members[id]
		h.o.Case("status", had, in, tView(dumpView(v)))
	})
}

// rejoin transcribes the restart bump of (*NodeActor).tryJoinSeeds (node_actor.go, the block after
// MergeFromWithOptions): it is inline in an actor handler, so the harness repeats its lines around
// the real AddMember.
func (h *H) rejoin(self *cluster.NodeState, v *cluster.ClusterView, now int64) {
	dv := dumpView(v)
	if prev, ok := dv.Members[self.ID]; ok && prev.LC == 1<<64-1 {
		h.o.Stats["rejoin-skipped:uint64-wrap-of-logical-clock-not-modelled"]++
		return
	}
	in := lib.L(lib.N(6), tState(dumpState(self)), tView(dv), lib.Z(now))
	h.guard("rejoin", in, func() {
		bumped := false
		if prev := v.Members[self.ID]; prev != nil && prev.Generation >= self.Generation {
			self.Generation = prev.Generation + 1
			self.Timestamp = now
			if prev.LogicalClock != 0 {
				self.LogicalClock = prev.LogicalClock + 1
			} else {
				self.LogicalClock = 1
			}
			v.AddMember(self)
			bumped = true
		}
		h.o.Case("rejoin", bumped, in, lib.L(tState(dumpState(self)), tView(dumpView(v))))
	})
}

func (h *H) recompute(v *cluster.ClusterView) {
	dv := dumpView(v)
	in := lib.L(lib.N(7), tView(dv))
	h.guard("recompute", in, func() {
		cluster.XVRecompute(v)
		h.o.Case("recompute", len(dv.Members) > 0, in, tView(dumpView(v)))
	})
}

func (h *H) snapshot(v *cluster.ClusterView) {
	dv := dumpView(v)
	in := lib.L(lib.N(8), tView(dv))
	h.guard("snapshot", in, func() {
		s := v.Snapshot()
		ds := dumpView(s)
		h.o.Case("snapshot", len(dv.Members) > 0, in, tView(ds))
		// deep copy: changing the snapshot does not reach the view
		for k, m := range s.Members {
			if m == v.Members[k] {
				h.o.Monitor("aliasing", in, "Snapshot shares the state pointer of member "+k)
				break
			}
			m.Status = cluster.MemberStatusRemoved
			m.Generation += 7
		}
		cluster.XVPoke(s.VersionVector, "xv-probe", 9)
		if !sameVw(dumpView(v), dv) {
			h.o.Monitor("aliasing", in, "mutating a Snapshot changed the view it was taken from")
		}
	})
}

func (h *H) isNewer(a, b St) {
	mk := func(s St) *cluster.NodeState {
		return &cluster.NodeState{ID: s.ID, Address: s.Addr, Generation: s.Gen, Timestamp: s.Ts, SeqNo: s.Seq,
			Status: cluster.MemberStatus(s.Status), LogicalClock: s.LC, LastSeen: s.Seen}
	}
	in := lib.L(lib.N(0), tState(a), tState(b))
	h.guard("isnewer", in, func() {
		x, y := mk(a), mk(b)
		r := x.IsNewerThan(y)
		h.o.Case("isnewer", a.Gen == b.Gen, in, lib.Bool(r))
		// on well-formed states of one node: exactly the incarnation order
		if a.ID == b.ID && a.Gen >= 1 && b.Gen >= 1 && a.LC >= 1 && b.LC >= 1 && r != incLess(b, a) {
			h.o.Monitor("isnewer-order", in, fmt.Sprintf("IsNewerThan = %v but the incarnation order says %v", r, incLess(b, a)))
		}
		if r && y.IsNewerThan(x) {
			h.o.Monitor("isnewer-asym", in, "a.IsNewerThan(b) and b.IsNewerThan(a)")
		}
	})
}

// newState: newNodeState on the real code (case: fresh state, wall clock canonicalised to 0), then the
// synthetic fields the generator wants.
func (h *H) newState(id, addr string, gen int, lc uint64, st int, ts int64) *cluster.NodeState {
	before := time.Now().UnixNano()
	s := cluster.XVNewNodeState(id, "xv", addr)
	after := time.Now().UnixNano()
	d := dumpState(s)
	if d.Ts >= before && d.Ts <= after && d.Seen == d.Ts {
		d.Ts, d.Seen = 0, 0
	}
	h.o.Case("new-state", true, lib.L(lib.N(9), lib.S(id), lib.S(addr), lib.Z(0)), tState(d))
	s.Labels["datacenter"] = "dc-" + id
	s.Generation, s.LogicalClock, s.Status = gen, lc, cluster.MemberStatus(st)
	s.Timestamp, s.LastSeen = ts, ts
	return s
}

func (h *H) newView(maxEnt int, ts int64) *cluster.ClusterView {
	before := time.Now().UnixNano()
	v := cluster.XVNewClusterView()
	after := time.Now().UnixNano()
	v.MaxVersionVectorEntries = maxEnt
	d := dumpView(v)
	if d.Ts >= before && d.Ts <= after {
		d.Ts = 0
	}
	h.o.Case("new-view", true, lib.L(lib.N(10), lib.Z(0), lib.Z(int64(maxEnt))), tView(d))
	v.Timestamp = ts
	return v
}

// ---- exhaustive small domain ----

type memberOpt struct {
	gen     int
	lc      uint64
	suspect bool
}

var memberOpts = []*memberOpt{nil, {1, 1, false}, {1, 1, true}, {1, 2, false}, {2, 1, false}}
var vvVariants = [][2]int{{0, 0}, {1, 1}, {2, 1}, {1, 2}}
var epochs = []int64{0, 1, 1, 2}

func (h *H) buildD(oa, ob, variant int) *cluster.ClusterView {
	v := h.newView(0, T0+int64(variant)*1000)
	for i, mo := range []*memberOpt{memberOpts[oa], memberOpts[ob]} {
		if mo == nil {
			continue
		}
		id := []string{"a", "b"}[i]
		s := h.newState(id, "10.0.0."+id+":1", mo.gen, mo.lc, int(cluster.MemberStatusUp), T0+int64(mo.gen)*100+int64(mo.lc))
		h.add(v, s)
		for c := 0; c < vvVariants[variant][i]; c++ {
			h.incr(v, id)
		}
		if mo.suspect {
			h.setStatus(v, id, int(cluster.MemberStatusSuspect))
		}
	}
	v.Epoch = epochs[variant]
	return v
}

// ---- random reachable worlds ----

type node struct {
	id, addr string
	self     *cluster.NodeState
	view     *cluster.ClusterView
}

func (h *H) world(nIDs, steps int) []*node {
	r := h.r
	nodes := make([]*node, nIDs)
	tick := int64(0)
	ts := func() int64 { tick++; return T0 + tick }
	for i := range nodes {
		id := fmt.Sprintf("n%d", i+1)
		addr := fmt.Sprintf("10.0.0.%d:8080", i+1)
		nodes[i] = &node{id: id, addr: addr, self: h.newState(id, addr, 1, 1, int(cluster.MemberStatusUp), ts()), view: h.newView(0, ts())}
		nodes[i].view.Epoch = int64(r.Intn(3))
	}
	for s := 0; s < steps; s++ {
		n := nodes[r.Intn(nIDs)]
		m := nodes[r.Intn(nIDs)]
		switch r.Intn(9) {
		case 0, 1: // bootstrap / join: AddMember(self); IncrementVersion(self)
			h.add(n.view, n.self)
			h.incr(n.view, n.id)
		case 2: // accept a join request of m: a clone of its state, status Up
			acc := m.self.Clone()
			acc.Status = cluster.MemberStatusUp
			h.add(n.view, acc)
			if _, ok := n.view.Members[n.id]; ok || r.Chance(1, 20) {
				h.incr(n.view, n.id)
			}
		case 3, 4: // gossip: merge a snapshot of m's view
			h.merge(n.view, snap(m.view), h.randOpt(), true)
		case 5: // failure detector: suspect / back up, in place
			if st, ok := n.view.Members[m.id]; ok && m != n {
				if st.Status == cluster.MemberStatusUp {
					h.setStatus(n.view, m.id, int(cluster.MemberStatusSuspect))
					h.incr(n.view, n.id)
				} else {
					h.setStatus(n.view, m.id, int(cluster.MemberStatusUp))
				}
			}
		case 6: // process restart: a fresh state, joins through m's view, bumps its generation
			n.self = h.newState(n.id, n.addr, 1, 1, int(cluster.MemberStatusUp), ts())
			n.view = h.newView(0, ts())
			h.add(n.view, n.self)
			h.incr(n.view, n.id)
			h.merge(n.view, snap(m.view), h.randOpt(), true)
			h.rejoin(n.self, n.view, ts())
		case 7: // removal (rare): outside the property's quantifier, the guards are evaluated per merge
			if r.Chance(1, 3) && m != n {
				h.remove(n.view, m.id)
				h.incr(n.view, n.id)
			}
		case 8:
			h.snapshot(n.view)
		}
	}
	return nodes
}

// ---- malformed / wire-shaped views ----

func pick64(r *lib.Rand, xs ...int64) int64 { return xs[r.Intn(len(xs))] }

func (h *H) wireView() *cluster.ClusterView {
	r := h.r
	v := cluster.XVNewClusterView()
	v.Timestamp = pick64(r, T0, T0+5, 0, -1, -1<<63, 1<<63-1, T0-1000)
	v.Epoch = pick64(r, 0, 1, 2, -5, 7, 1<<63-1, -1<<63)
	v.ProtocolVersion = []uint16{0, 1, 1, 2, 65535}[r.Intn(5)]
	v.MaxVersionVectorEntries = []int{0, 0, 1, 2, 3, -1}[r.Intn(6)]
	v.HealthyCount, v.UnhealthyCount, v.QuorumSize = r.Intn(4), r.Intn(4), r.Intn(4)
	ids := []string{"a", "b", "c", "d", "ab"}
	vv := map[string]uint64{}
	for _, id := range ids {
		if r.Chance(1, 2) {
			key := id
			if r.Chance(1, 8) {
				key = ids[r.Intn(len(ids))] // key != state ID
			}
			v.Members[key] = &cluster.NodeState{ID: id, Address: "w-" + id,
				Generation:   []int{1, 1, 2, 3, 0, -1, 1<<31 - 1}[r.Intn(7)],
				Timestamp:    pick64(r, 1, 2, 3, T0, -7, 1<<63-1, -1<<63),
				SeqNo:        uint64(r.Intn(3)),
				Status:       cluster.MemberStatus([]int{0, 1, 1, 2, 4, 7, 9, -1}[r.Intn(8)]),
				LastSeen:     pick64(r, 0, 5, T0),
				LogicalClock: []uint64{0, 1, 1, 2, 3, 1<<64 - 1}[r.Intn(6)],
				Labels:       map[string]string{"datacenter": "w"}}
		}
		if r.Chance(1, 2) {
			vv[id] = []uint64{0, 1, 2, 3, maxC, maxC - 1}[r.Intn(6)]
		}
	}
	if r.Chance(1, 4) {
		vv["ghost"] = uint64(1 + r.Intn(3))
	}
	if r.Chance(3, 4) {
		v.VersionVector = cluster.XVNewVV(vv)
	}
	return v
}

func (h *H) wireOps(n int) {
	r := h.r
	for i := 0; i < n; i++ {
		a, b, c := h.wireView(), h.wireView(), h.wireView()
		opt := Opt{[]time.Duration{0, time.Hour, 1 << 62, -5, 1}[r.Intn(5)], []int{0, 1, 2, 3, -1}[r.Intn(5)]}
		h.pair(a, b, opt, true)
		h.idem(c, opt)
		ids := []string{"a", "b", "c", "ghost", "", strings.Repeat("x", 257)}
		id := ids[r.Intn(len(ids))]
		switch r.Intn(6) {
		case 0:
			h.remove(snap(c), id)
		case 1:
			h.incr(snap(c), id)
		case 2:
			h.setStatus(snap(c), id, r.Intn(8))
		case 3:
			h.recompute(snap(c))
		case 4:
			h.snapshot(c)
		case 5:
			s := &cluster.NodeState{ID: []string{"a", "b", "c"}[r.Intn(3)], Address: "w2", Generation: r.Intn(4), Timestamp: pick64(r, 1, 2, T0), LogicalClock: uint64(r.Intn(3)), Status: cluster.MemberStatus(r.Intn(3))}
			w := snap(c)
			h.add(w, s)
			h.rejoin(s, w, T0+77)
		}
	}
}

// ---- the refuted clauses: the Coq witnesses, replayed on the real code ----

// With MaxVersionVectorEntries = 1 and two members the prune in recomputeCounts drops a member's
// entry and the next merge lowers it (C17_vv_entry_monotone_refuted); since the repair of the changed
// flag that merge returns changed = true. The merges are emitted as cases (the model must agree); whether
// the witness still reproduces is recorded in the report. With XV_C17_FINDINGS=1 it is raised as a monitor hit.
func (h *H) witnesses() {
	asMonitor := os.Getenv("XV_C17_FINDINGS") == "1"
	mkv := func(id string, maxEnt int) *cluster.ClusterView {
		v := h.newView(maxEnt, 100)
		h.add(v, h.newState(id, id, 1, 1, int(cluster.MemberStatusUp), 100))
		h.incr(v, id)
		return v
	}
	// (1) cap exceeded: a member's entry is lowered (h.merge's changed-unsound monitor checks the flag)
	wa, wb := mkv("a", 1), mkv("b", 1)
	wab := snap(wa)
	h.merge(wab, snap(wb), Opt{}, true)
	before := dumpView(wab)
	ch := h.merge(wab, snap(wa), Opt{}, true)
	after := dumpView(wab)
	_, bMember := after.Members["b"]
	rep := bMember && before.VV["b"] == 1 && after.VV["b"] == 0
	h.o.Info["witness_cap_exceeded_member_entry_lowered"] = rep
	h.o.Info["witness_cap_exceeded_changed"] = ch
	if rep {
		h.o.Stats["witness:vv-cap-truncation-reproduced"]++
		if asMonitor {
			h.o.Monitor("finding:vv-cap-truncation", lib.L(tView(before), tView(dumpView(wa))),
				fmt.Sprintf("MaxVersionVectorEntries=1, members {a,b}: entry of member b %d -> %d in a merge that returned changed=%v", before.VV["b"], after.VV["b"], ch))
		}
	}
	// (2) regression of the changed flag (C17_changed_sound_regression): a version-vector key that is
	// not a member (RemoveMember(b); IncrementVersion(b)) is dropped by the prune of the next merge -
	// no member's entry is lowered, and the merge must say changed = true (before commit 53b1085 it
	// returned false). The generic changed-unsound monitor inside h.merge decides; this records the replay.
	nm := h.newView(0, 100)
	h.add(nm, h.newState("a", "a", 1, 1, int(cluster.MemberStatusUp), 100))
	h.add(nm, h.newState("b", "b", 1, 1, int(cluster.MemberStatusUp), 100))
	h.incr(nm, "b")
	h.remove(nm, "b")
	h.incr(nm, "b")
	o := h.newView(0, 100)
	h.add(o, h.newState("a", "a", 1, 1, int(cluster.MemberStatusUp), 100))
	before = dumpView(nm)
	ch = h.merge(nm, o, Opt{}, true)
	after = dumpView(nm)
	dropped := before.VV["b"] == 1 && after.VV["b"] == 0
	h.o.Info["regression_nonmember_key_dropped_and_changed_true"] = dropped && ch
	if dropped {
		h.o.Stats["regression:vv-nonmember-key-dropped"]++
	}
	// (3) same incarnation, different status: each side keeps its own state, changed=false both ways
	up := mkv("a", 0)
	sus := snap(up)
	h.setStatus(sus, "a", int(cluster.MemberStatusSuspect))
	m1, m2 := snap(up), snap(sus)
	c1 := h.merge(m1, snap(sus), Opt{}, true)
	c2 := h.merge(m2, snap(up), Opt{}, true)
	rep3 := !c1 && !c2 && m1.Members["a"].Status == cluster.MemberStatusUp && m2.Members["a"].Status == cluster.MemberStatusSuspect
	h.o.Info["witness_same_incarnation_status_not_commutative"] = rep3
	if rep3 {
		h.o.Stats["witness:status-divergence-reproduced"]++
	}
}

func main() {
	f := lib.ParseFlags()
	o := lib.NewOut(f.Out)
	h := &H{o, lib.NewRand(f.Seed)}
	thorough := f.Tier == "thorough"
	real := time.Now().UnixNano()
	if d := real - NOW0; d > 315e15 || d < -315e15 {
		o.Monitor("harness:clock", nil, fmt.Sprintf("the wall clock (%d) is more than 10 years from the nominal clock %d: the skew classes are no longer deterministic", real, NOW0))
	}
	o.Info["nominal_now"] = NOW0
	o.Info["skew_settings_ns"] = []int64{0, int64(time.Hour), 1 << 62}

	h.witnesses()
	h.cloneWitness()

	// complete values (all 13 NodeState fields, ViewID, nil maps, nil entries) on fully unshared operands,
	// with the report of who shares which object afterwards (coq/Cluster/ViewFull.v on ViewHeap.v)
	h.fullDomain()
	nFull := 250
	if thorough {
		nFull = 20000
	}
	h.fullOps(nFull)
	o.Info["complete_value_rounds"] = nFull

	// IsNewerThan: exhaustive over id{a,b} x gen{1,2} x lc{0,1,2} x ts{1,2}
	var sts []St
	for _, id := range []string{"a", "b"} {
		for gen := 1; gen <= 2; gen++ {
			for lc := uint64(0); lc <= 2; lc++ {
				for ts := int64(1); ts <= 2; ts++ {
					sts = append(sts, St{ID: id, Addr: id, Gen: gen, Ts: ts, Status: 1, LC: lc})
				}
			}
		}
	}
	for _, a := range sts {
		for _, b := range sts {
			h.isNewer(a, b)
		}
	}
	for i := 0; i < 300; i++ {
		rs := func() St {
			return St{ID: []string{"a", "b", ""}[h.r.Intn(3)], Gen: []int{-1, 0, 1, 2, 1<<31 - 1}[h.r.Intn(5)], Ts: pick64(h.r, -1<<63, -1, 0, 1, T0, 1<<63-1),
				LC: []uint64{0, 1, 2, 1<<64 - 1}[h.r.Intn(4)], Status: h.r.Intn(8)}
		}
		h.isNewer(rs(), rs())
	}

	// exhaustive small domain: ids {a,b}; per id absent | (1,1,Up) | (1,1,Suspect) | (1,2,Up) | (2,1,Up);
	// 4 version-vector/epoch variants -> 100 views, built through the code's own operations
	var D []*cluster.ClusterView
	for oa := range memberOpts {
		for ob := range memberOpts {
			for variant := range vvVariants {
				D = append(D, h.buildD(oa, ob, variant))
			}
		}
	}
	for i, a := range D {
		for j, b := range D {
			for strat := 0; strat < 3; strat++ {
				if thorough {
					for _, sk := range skews {
						h.pair(a, b, Opt{sk, strat}, true)
					}
				} else {
					h.pair(a, b, Opt{skews[(i+j+strat)%3], strat}, true)
				}
			}
		}
		h.idem(a, Opt{skews[i%3], i % 3})
		h.snapshot(a)
	}
	o.Info["exhaustive_small_domain"] = fmt.Sprintf("%d views over ids {a,b}: per id absent|(1,1,Up)|(1,1,Suspect)|(1,2,Up)|(2,1,Up), 4 vector/epoch variants; every ordered pair x 3 strategies (skew setting rotating in quick, all 3 in thorough) against the model; both directions compared for commutativity", len(D))

	// triples of the small domain: all 6 orders x 2 shapes on the implementation
	nTriples, emitEvery := 2000, 4
	if thorough {
		nTriples, emitEvery = 200000, 16
	}
	for t := 0; t < nTriples; t++ {
		h.triple([3]*cluster.ClusterView{D[h.r.Intn(len(D))], D[h.r.Intn(len(D))], D[h.r.Intn(len(D))]}, t%emitEvery == 0)
	}
	o.Info["small_domain_triples_all_orders"] = nTriples

	// random reachable worlds: nodes with their own views evolving by join / accept / gossip / suspect / restart
	nWorlds := 150
	if thorough {
		nWorlds = 10000
	}
	if f.N > 0 {
		nWorlds = f.N
	}
	for w := 0; w < nWorlds; w++ {
		nIDs := 2 + h.r.Intn(3)
		nodes := h.world(nIDs, 6+h.r.Intn(14))
		for i := 0; i < 3; i++ {
			a, b := nodes[h.r.Intn(nIDs)], nodes[h.r.Intn(nIDs)]
			h.pair(a.view, b.view, h.randOpt(), true)
		}
		h.idem(nodes[0].view, h.randOpt())
		h.triple([3]*cluster.ClusterView{nodes[0].view, nodes[1].view, nodes[h.r.Intn(nIDs)].view}, true)
	}

	// wire-shaped / ill-formed views: logical clock 0, key != id, generation <= 0, extreme timestamps,
	// non-member vector keys, tiny MaxVersionVectorEntries, out-of-range strategy, negative skew
	nWire := 400
	if thorough {
		nWire = 25000
	}
	h.wireOps(nWire)

	o.Close(f.Report)
	if len(o.Monitors) > 0 {
		os.Exit(3)
	}
}
