// full.go: the COMPLETE NodeState / ClusterView (all fields, nil maps, nil entries) and who shares which
// Go object after Clone / AddMember / MergeFromWithOptions / Snapshot - cases for coq/Cluster/ViewFull.v
// run on the pointer-level model coq/Cluster/ViewHeap.v (ops b..e of coq/Cluster/ViewRun.v).
package main

import (
	"reflect"
	"sort"

	"github.com/kercylan98/vivid/internal/cluster"
	"github.com/kercylan98/vivid/xverif/lib"
)

// ---- complete dumps ----

func tGoMap(m map[string]string) lib.T {
	if m == nil {
		return lib.L()
	}
	keys := make([]string, 0, len(m))
	for k := range m {
		keys = append(keys, k)
	}
	sort.Strings(keys)
	kv := make([]lib.T, 0, len(keys))
	for _, k := range keys {
		kv = append(kv, lib.L(lib.S(k), lib.S(m[k])))
	}
	return lib.L(lib.LS(kv))
}

func tFState(n *cluster.NodeState) lib.T {
	return lib.L(tState(dumpState(n)), lib.S(n.ClusterName), lib.Bool(n.Unreachable), tGoMap(n.Metadata), tGoMap(n.Labels), lib.N(uint64(n.Checksum)))
}

func tFView(v *cluster.ClusterView) lib.T {
	var ms lib.T
	if v.Members == nil {
		ms = lib.L()
	} else {
		keys := make([]string, 0, len(v.Members))
		for k := range v.Members {
			keys = append(keys, k)
		}
		sort.Strings(keys)
		es := make([]lib.T, 0, len(keys))
		for _, k := range keys {
			if s := v.Members[k]; s == nil {
				es = append(es, lib.L(lib.S(k), lib.L()))
			} else {
				es = append(es, lib.L(lib.S(k), lib.L(tFState(s))))
			}
		}
		ms = lib.L(lib.LS(es))
	}
	d := dumpView(v)
	vk := make([]string, 0, len(d.VV))
	for k := range d.VV {
		vk = append(vk, k)
	}
	sort.Strings(vk)
	vs := make([]lib.T, 0, len(vk))
	for _, k := range vk {
		vs = append(vs, lib.L(lib.S(k), lib.N(d.VV[k])))
	}
	return lib.L(lib.S(v.ViewID), ms, lib.L(lib.Z(d.Epoch), lib.Z(d.Ts), lib.Z(int64(d.MaxEnt)), lib.N(uint64(d.Proto)),
		lib.L(lib.NI(d.H), lib.NI(d.U), lib.NI(d.Q)), lib.LS(vs)))
}

// ---- fully unshared copies: every state and every non-nil map (empty ones too) is a new object ----

func isoMap(m map[string]string) map[string]string {
	if m == nil {
		return nil
	}
	out := make(map[string]string, len(m))
	for k, v := range m {
		out[k] = v
	}
	return out
}

func isoState(n *cluster.NodeState) *cluster.NodeState {
	if n == nil {
		return nil
	}
	out := *n
	out.Metadata, out.Labels = isoMap(n.Metadata), isoMap(n.Labels)
	return &out
}

func isoView(v *cluster.ClusterView) *cluster.ClusterView {
	out := *v
	out.VersionVector = v.VersionVector.Clone()
	if v.Members != nil {
		out.Members = make(map[string]*cluster.NodeState, len(v.Members))
		for k, s := range v.Members {
			out.Members[k] = isoState(s)
		}
	}
	return &out
}

// ---- object identity ----

func sameMapObj(a, b map[string]string) bool {
	return a != nil && b != nil && reflect.ValueOf(a).Pointer() == reflect.ValueOf(b).Pointer()
}

func tShare(a, b *cluster.NodeState) lib.T {
	return lib.L(lib.Bool(a == b), lib.Bool(sameMapObj(a.Metadata, b.Metadata)), lib.Bool(sameMapObj(a.Labels, b.Labels)))
}

func shareReport(res, src *cluster.ClusterView) lib.T {
	keys := make([]string, 0, len(res.Members))
	for k, a := range res.Members {
		if b := src.Members[k]; a != nil && b != nil {
			keys = append(keys, k)
		}
	}
	sort.Strings(keys)
	out := make([]lib.T, 0, len(keys))
	for _, k := range keys {
		out = append(out, lib.L(lib.S(k), tShare(res.Members[k], src.Members[k])))
	}
	return lib.LS(out)
}

// aliasing proper: a shared state object, or a shared NON-EMPTY map (a shared EMPTY map is the report-only observation, counted in Stats).
func (h *H) checkAliasing(what string, c lib.T, a, b *cluster.NodeState, k string) {
	if a == nil || b == nil {
		return
	}
	if a == b {
		h.o.Monitor("aliasing", c, what+": member "+k+" is the very *NodeState of its source")
		return
	}
	if sameMapObj(a.Metadata, b.Metadata) && len(a.Metadata) > 0 {
		h.o.Monitor("aliasing", c, what+": the non-empty Metadata map of member "+k+" is shared with its source")
	}
	if sameMapObj(a.Labels, b.Labels) && len(a.Labels) > 0 {
		h.o.Monitor("aliasing", c, what+": the non-empty Labels map of member "+k+" is shared with its source")
	}
	if sameMapObj(a.Metadata, b.Metadata) && len(a.Metadata) == 0 || sameMapObj(a.Labels, b.Labels) && len(a.Labels) == 0 {
		h.o.Stats["shared-empty-map-observed:"+what]++
	}
}

func sameFState(a, b *cluster.NodeState) bool {
	return lib.Show(tFState(a)) == lib.Show(tFState(b))
}

// fmerge: v.MergeFromWithOptions(o) on fully unshared copies of the operands; complete dump + sharing report.
func (h *H) fmerge(v0, o0 *cluster.ClusterView, opt Opt) {
	v, o := isoView(v0), isoView(o0)
	ov := isoView(v0) // the state of v before, for the monitors
	tv, to := tFView(v), tFView(o)
	in := lib.L(lib.N(11), tv, to, lib.Z(int64(opt.Skew)), lib.Z(int64(opt.Strat)), lib.Z(NOW0))
	h.guard("full-merge", in, func() {
		changed := v.MergeFromWithOptions(o, cluster.MergeOptions{MaxClockSkew: opt.Skew, VersionConcurrentStrategy: opt.Strat})
		nilEntries := false
		for _, s := range o.Members {
			if s == nil {
				nilEntries = true
			}
		}
		for _, s := range ov.Members {
			if s == nil {
				nilEntries = true
			}
		}
		h.o.Case("full-merge", len(o.Members) > 0 && len(ov.Members) > 0 || nilEntries || ov.Members == nil, in,
			lib.L(tFView(v), lib.Bool(changed), shareReport(v, o)))
		// the argument view is never modified - every field, nil entries and nil map included
		if lib.Show(tFView(o)) != lib.Show(to) {
			h.o.Monitor("operand-modified", in, "MergeFromWithOptions changed its argument view (complete dump)")
		}
		if v.ViewID != ov.ViewID {
			h.o.Monitor("member-fabricated", in, "a merge changed the ViewID")
		}
		// a merge moves complete states: each stored state is, with all 13 fields, the old one or the argument's
		for k, s := range v.Members {
			old, had := ov.Members[k]
			arg := o.Members[k]
			switch {
			case s == nil:
				if !had || old != nil {
					h.o.Monitor("member-fabricated", in, "a merge left a nil entry for member "+k+" that was not nil before")
				}
			case old != nil && sameFState(s, old):
			case arg != nil && sameFState(s, arg):
			default:
				h.o.Monitor("member-fabricated", in, "member "+k+" holds a state that is field for field neither the old one nor the argument's")
			}
			h.checkAliasing("merge", in, s, arg, k)
		}
		for k := range ov.Members {
			if _, ok := v.Members[k]; !ok {
				h.o.Monitor("member-removed", in, "entry "+k+" disappeared in a merge")
			}
		}
		for k, s := range o.Members {
			if s != nil && len(o.Members) > 0 {
				if r := v.Members[k]; r == nil {
					h.o.Monitor("member-missing", in, "member "+k+" of the argument view is not in the result (union of members)")
				}
			}
		}
	})
}

func (h *H) fadd(v0 *cluster.ClusterView, s0 *cluster.NodeState) {
	v, s := isoView(v0), isoState(s0)
	in := lib.L(lib.N(12), tFView(v), tFState(s))
	ts := lib.Show(tFState(s))
	h.guard("full-add", in, func() {
		v.AddMember(s)
		var sh lib.T = lib.L()
		if st := v.Members[s.ID]; st != nil {
			sh = lib.L(tShare(st, s))
			h.checkAliasing("add", in, st, s, s.ID)
		}
		h.o.Case("full-add", len(v0.Members) > 0 || v0.Members == nil, in, lib.L(tFView(v), sh))
		if lib.Show(tFState(s)) != ts {
			h.o.Monitor("operand-modified", in, "AddMember changed the caller's state")
		}
	})
}

func (h *H) fsnapshot(v0 *cluster.ClusterView) {
	v := isoView(v0)
	tv := tFView(v)
	in := lib.L(lib.N(13), tv)
	h.guard("full-snapshot", in, func() {
		s := v.Snapshot()
		h.o.Case("full-snapshot", len(v.Members) > 0 || v.Members == nil, in, lib.L(tFView(s), shareReport(s, v)))
		for k, m := range s.Members {
			h.checkAliasing("snapshot", in, m, v.Members[k], k)
		}
		if lib.Show(tFView(v)) != lib.Show(tv) {
			h.o.Monitor("operand-modified", in, "Snapshot changed the view it was taken from")
		}
	})
}

func (h *H) fclone(s0 *cluster.NodeState) {
	s := isoState(s0)
	in := lib.L(lib.N(14), tFState(s))
	h.guard("full-clone", in, func() {
		c := s.Clone()
		h.o.Case("full-clone", len(s.Metadata) > 0 || len(s.Labels) > 0, in, lib.L(tFState(c), tShare(c, s)))
		if !sameFState(c, s) {
			h.o.Monitor("member-fabricated", in, "Clone is not a field-for-field copy")
		}
		h.checkAliasing("clone", in, c, s, s.ID)
	})
}

// fwire: writeClusterView then readClusterView on the real code; the decoded view is the case output and is then
// merged into v (a full-merge case of its own: what a gossip receiver does).
func (h *H) fwire(v0, o0 *cluster.ClusterView, opt Opt) {
	o := isoView(o0)
	in := lib.L(lib.N(15), tFView(o))
	h.guard("wire", in, func() {
		dec, stage := cluster.XVViewWire(o)
		if stage != 0 {
			h.o.Case("wire", false, in, lib.L(lib.N(1), lib.NI(stage)))
			return
		}
		h.o.Case("wire", len(o.Members) > 0, in, lib.L(lib.N(0), tFView(dec)))
		h.fmerge(v0, dec, opt)
	})
}

// ---- generators ----

func (h *H) genMap(kind int, tag string) map[string]string {
	switch kind {
	case 0:
		return nil
	case 1:
		return map[string]string{}
	case 2:
		return map[string]string{"datacenter": "dc-" + tag}
	default:
		return map[string]string{"datacenter": "dc-" + tag, "rack": "r" + tag, "": ""}
	}
}

// a complete state over ids {a,b,c}: incarnation from a small domain, every shape of the two maps
func (h *H) genFState(id string) *cluster.NodeState {
	r := h.r
	s := cluster.XVNewNodeState(id, []string{"xv", "", "other"}[r.Intn(3)], "10.0.0."+id+":1")
	s.Generation = 1 + r.Intn(2)
	s.LogicalClock = uint64(1 + r.Intn(2))
	s.Timestamp = T0 + int64(s.Generation)*100 + int64(s.LogicalClock)
	s.LastSeen = s.Timestamp
	s.SeqNo = uint64(r.Intn(3))
	s.Status = cluster.MemberStatus([]int{1, 1, 2, 0, 4}[r.Intn(5)])
	s.Unreachable = r.Chance(1, 3)
	s.Checksum = uint32(r.Intn(3)) * 0x7fffffff
	if r.Chance(3, 4) { // otherwise: keep the empty non-nil maps newNodeState made
		s.Metadata = h.genMap(r.Intn(4), id+"m")
		s.Labels = h.genMap(r.Intn(4), id)
	}
	return s
}

func (h *H) genFView(nilShapes bool) *cluster.ClusterView {
	r := h.r
	v := cluster.XVNewClusterView()
	v.ViewID = []string{"view-1", "view-2", ""}[r.Intn(3)]
	v.Timestamp = T0 + int64(r.Intn(3))*1000
	v.Epoch = int64(r.Intn(3))
	v.MaxVersionVectorEntries = []int{0, 0, 0, 2}[r.Intn(4)]
	vv := map[string]uint64{}
	for _, id := range []string{"a", "b", "c"} {
		switch r.Intn(5) {
		case 0, 1:
		case 2, 3:
			s := h.genFState(id)
			v.Members[id] = s
			if r.Chance(2, 3) {
				vv[id] = uint64(1 + r.Intn(2))
			}
		case 4:
			if nilShapes {
				v.Members[id] = nil // a nil *NodeState entry
			}
		}
	}
	if len(vv) > 0 {
		v.VersionVector = cluster.XVNewVV(vv)
	}
	cluster.XVRecompute(v)
	if nilShapes && r.Chance(1, 10) {
		v.Members = nil
	}
	return v
}

func (h *H) fullOps(n int) {
	for i := 0; i < n; i++ {
		nilShapes := i%3 == 0
		a, b := h.genFView(nilShapes), h.genFView(nilShapes)
		opt := Opt{skews[h.r.Intn(3)], []int{0, 1, 2}[h.r.Intn(3)]}
		h.fmerge(a, b, opt)
		h.fmerge(b, a, opt)
		h.fmerge(a, a, opt)
		h.fwire(a, b, opt)
		h.fsnapshot(a)
		id := []string{"a", "b", "c"}[h.r.Intn(3)]
		s := h.genFState(id)
		h.fadd(a, s)
		h.fclone(s)
		if nilShapes {
			h.remove(isoView(a), id) // RemoveMember of a nil entry / on a nil map (core dump: nil entries are invisible)
		}
	}
}

// fullDomain: every shape of the two maps (nil / empty / 1 entry / 3 entries)^2 through Clone, AddMember into an
// empty view, merge into an empty view and Snapshot.
func (h *H) fullDomain() {
	for mk := 0; mk < 4; mk++ {
		for lk := 0; lk < 4; lk++ {
			s := cluster.XVNewNodeState("b", "xv", "10.0.0.b:1")
			s.Timestamp, s.LastSeen = T0, T0
			s.Metadata, s.Labels = h.genMap(mk, "m"), h.genMap(lk, "l")
			h.fclone(s)
			v := cluster.XVNewClusterView()
			v.ViewID, v.Timestamp = "view-d", T0
			h.fadd(v, s)
			o := cluster.XVNewClusterView()
			o.ViewID, o.Timestamp = "view-o", T0
			o.AddMember(s)
			o.IncrementVersion("b")
			h.fmerge(v, o, Opt{})
			h.fwire(v, o, Opt{})
			h.fsnapshot(o)
		}
	}
}

// ---- report-only observation: the MECHANISM "stored states are clones" fails for empty non-nil maps ----
// (Coq witness ViewHeapProofs.merge_shares_empty_map / C17_clone_shares_empty_map_refuted)

// newNodeState makes EMPTY NON-NIL Metadata / Labels maps; Clone copies the header of an empty map, so the
// clone stored by a merge (AddMember, Snapshot) shares them with its source: a later write on one side shows
// on the other. This is NOT a violation of C17 (the property speaks of membership, incarnations, epoch, vector
// entries and `changed`; only user code writing a state's maps after it entered a view could notice), so it is
// no monitor: whether the observation still reproduces is recorded in the report (info.observations).
func (h *H) cloneWitness() {
	s := cluster.XVNewNodeState("b", "xv", "10.0.0.b:1")
	s.Timestamp, s.LastSeen = T0, T0
	o := cluster.XVNewClusterView()
	o.Members["b"] = s
	v := cluster.XVNewClusterView()
	v.MergeFrom(o)
	got := v.Members["b"]
	rep := false
	if got != nil && got != s && got.Labels != nil {
		got.Labels["k"] = "x"
		_, rep = s.Labels["k"]
		delete(got.Labels, "k")
	}
	snap := v.Snapshot()
	rep2 := false
	if m := snap.Members["b"]; m != nil && m.Metadata != nil {
		m.Metadata["k"] = "x"
		_, rep2 = v.Members["b"].Metadata["k"]
		delete(m.Metadata, "k")
	}
	h.o.Info["observations"] = map[string]any{
		"clone-shares-empty-map": map[string]any{
			"what": "NodeState.Clone copies only the header of an EMPTY NON-NIL Metadata / Labels map (what newNodeState makes): " +
				"the clones stored by AddMember / MergeFromWithOptions / Snapshot share that map object with their source; " +
				"refutes the mechanism 'stored states are clones' for empty maps, not the property C17 (C17_clone_shares_empty_map_refuted)",
			"reproduced_after_merge":    rep,
			"reproduced_after_snapshot": rep2,
			"state":                     lib.Show(tFState(s)),
		},
	}
	if rep && rep2 {
		h.o.Stats["observation:clone-shares-empty-map-reproduced"]++
	}
}
