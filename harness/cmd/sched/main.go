// sched: correspondence cases and implementation-side monitors for C20 (ctx.Scheduler(): Once / Loop / Cron /
// Cancel / Clear / Exists, cleanup on termination and restart) on REAL actor systems, the real go-quartz
// scheduler and REAL time.
//
// One case = one scenario: a list of ops with nominal times on a 150 ms slot grid, run on its own ActorSystem.
// Scheduling calls happen on even slots in one of two lanes (t = 0 or 300 mod 600 ms) with delays and intervals
// that are multiples of 600 ms, so every ideal firing instant lies on an even slot; everything that is sensitive
// to firings (Cancel, Clear, Exists, dumps, kill, restart, the final observation) happens on odd slots, 150 ms
// away from every firing instant; a key (path, reference) is scheduled at most twice, the second time in the
// other lane (300 ms away from the first job's instants). With these margins the exact delivery counts of the
// model (prompt quartz loop) are the counts of the implementation unless the run is disturbed by more than the
// margins. Three measurements decide that: a watchdog goroutine (scheduling gaps of the process > 60 ms), the
// lateness of every op (> 50 ms), and a canary - a 30 ms Loop of the harness's own in the SAME quartz scheduler,
// whose arrivals must never be more than 75 ms apart (the quartz loop takes jobs in the order of their run
// times, so the canary bounds the lateness of every tested firing). A disturbed scenario is discarded and
// re-run (never judged).
//
// Calls are made INSIDE handlers of scripted actors (a closure sent as a message), so jobKeys is only touched by
// its owner's goroutine. Observed: every call's return value, Exists, dumps of every actor's jobKeys (accessor)
// and of the quartz queue (accessor), and per successful scheduling call the number of deliveries and of dead
// letters. Monitors evaluate the property on what the real code did with real timestamps (never early, never
// after a removal by the owner, never twice, payload / receiver / sender, invalid cron schedules nothing, a valid
// call refused without a live job under the reference, lost jobs).
// Two child processes are suspended with SIGSTOP across a firing instant (quartz's misfire rule: known finding),
// a third one schedules a Loop with a negative interval next to a Once (the quartz loop must not spin).
package main

import (
	"bufio"
	"encoding/json"
	"errors"
	"fmt"
	"log/slog"
	"os"
	"os/exec"
	"sort"
	"strings"
	"sync"
	"sync/atomic"
	"syscall"
	"time"

	"github.com/kercylan98/vivid"
	"github.com/kercylan98/vivid/internal/actor"
	"github.com/kercylan98/vivid/pkg/bootstrap"
	"github.com/kercylan98/vivid/pkg/log"
	"github.com/kercylan98/vivid/pkg/ves"
	"github.com/kercylan98/vivid/xverif/lib"
	"github.com/reugn/go-quartz/quartz"
)

const (
	slotMs     = 150                   // slot grid
	grace      = 50 * time.Millisecond // a Tell already in flight at a removal may still arrive this much later
	lateTol    = 50 * time.Millisecond // an op finishing later than this after its nominal time: scenario disturbed
	gapTol     = 60 * time.Millisecond // a scheduling gap larger than this during a scenario: disturbed (lateTol + gapTol < slot)
	opTimeout  = 5 * time.Second
	validCron  = "0 0 0 1 1 ? 2099"
	maxRetries = 3
)

const (
	kOnce = iota
	kLoop
	kCron
	kCancel
	kClear
	kExists
	kKill
	kRestart
	kDump
	kBlock   // a handler of the actor begins that does not return before kUnblock: its mailbox does not drain
	kUnblock // that handler ends; sop.inner = what is done just before: kCancel / kClear / kExists inside the handler, kKill (the kill is enqueued while the handler still runs), kRestart (the handler panics), or -1
	kHold    // the goroutines go-quartz starts for firings of (actor, ref) are suspended before their Tell
	kRelease
	kKillEnd // the end of a stop sequence that kKill (with slow > 0) began: the actor's child ends only now
)

// hook points of a stop sequence (termination or restart): the handlers that still run after it has begun
const (
	hOnKill      = iota // the OnKill handler
	hChildKilled        // the handler of the child's OnKilled while the actor waits for it
	hOwnKilled          // the actor's own OnKilled handler - the last user code of the incarnation
)

type sop struct {
	t       int // nominal time, ms from scenario start
	kind    int
	actor   int
	recv    int
	ref     string
	d       int // delay / interval in ms
	valid   bool
	payload uint64
	cron    string    // kCron: the expression ("" = validCron, or one of the four fixed invalid ones when !valid)
	inner   int       // kUnblock only
	will    *[3][]sop // kKill / kRestart: what the actor's handlers do during the stop sequence (scheduler calls), per hook point
	slow    int       // kKill: the actor's child delays its own termination by this many ms; the sequence ends at the kKillEnd op
}

type scenario struct {
	kind   string
	actors []string // names; path = "/" + name
	child  []bool   // the actor spawns a child "k" in every OnLaunch (a stop sequence waits for it)
	ops    []sop
	end    int // nominal time of the final observation
}

func (sc scenario) hasChild(i int) bool { return i < len(sc.child) && sc.child[i] }

func path(name string) string { return "/" + name }

// ---- messages ----

type do struct {
	f    func(ctx vivid.ActorContext)
	done chan struct{}
}
type boom struct{}
type fire struct{ p uint64 }

type delivery struct {
	p      uint64
	at     time.Time
	recv   string // path of the actor that handled it / that the dead letter was addressed to
	sender string
	dead   bool
}

// one scheduling call that reached scheduleJob
type call struct {
	idx        int // index among the scheduling calls = the model's call number
	op         sop
	start, end time.Time
	removedAt  time.Time // completion of the first later Cancel(ref) / Clear / kill / restart of its owner
	removedBy  string
}

type srun struct {
	sc        scenario
	sys       vivid.ActorSystem
	refs      []vivid.ActorRef
	actors    []*sactor
	mu        sync.Mutex
	delivs    []delivery
	weird     []string
	closed    bool
	t0        time.Time
	calls     []*call
	results   []lib.T
	disturbed string
	stuck     string
	canary    *canary
	deathAt   []time.Time // completion of kill per actor
	cronBad   []string    // violations seen around invalid Cron calls
	unkCancel []string
	rejected  []string
	blockCh   []chan blockCmd // per actor: the command channel of its blocking handler
	blocked   []bool
	stopping  []bool // a stop sequence that waits for the actor's child is in progress
	gates     *gateSet
}

// ---- flight control: busy receivers and suspended Tell goroutines ----
// The firing of a job is not atomic in the code: go-quartz pops the job at the instant and starts a goroutine that runs
// Scheduler.tell (a Debug log line "scheduler trigger", then ctx.Tell / ctx.TellSelf); the receiver's mailbox hands the
// message to the behaviour later. Two harness controls stretch these two delays deterministically:
//   block:  the receiver's mailbox goroutine sits in a handler (a closure waiting on a channel): firings queue up behind it;
//   hold:   the actor's own logger (vivid.WithActorLogger, public API) suspends the goroutine at the "scheduler trigger"
//           line of Scheduler.tell, i.e. after the pop and before the Tell.

type blockCmd struct {
	inner int
	ref   string
	res   chan blockRes
}
type blockRes struct {
	code uint64
	b    bool
	at   time.Time
}

type gateSet struct {
	mu   sync.Mutex
	held map[string]chan struct{}
	hits map[string]int
}

func newGateSet() *gateSet {
	return &gateSet{held: map[string]chan struct{}{}, hits: map[string]int{}}
}
func gateKey(owner, ref string) string { return owner + "\x00" + ref }
func (g *gateSet) hold(owner, ref string) {
	g.mu.Lock()
	if g.held[gateKey(owner, ref)] == nil {
		g.held[gateKey(owner, ref)] = make(chan struct{})
	}
	g.mu.Unlock()
}
func (g *gateSet) release(owner, ref string) {
	g.mu.Lock()
	if ch := g.held[gateKey(owner, ref)]; ch != nil {
		close(ch)
		delete(g.held, gateKey(owner, ref))
	}
	g.mu.Unlock()
}
func (g *gateSet) releaseAll() {
	g.mu.Lock()
	for k, ch := range g.held {
		close(ch)
		delete(g.held, k)
	}
	g.mu.Unlock()
}
func (g *gateSet) pass(owner, ref string) {
	g.mu.Lock()
	g.hits[gateKey(owner, ref)]++
	ch := g.held[gateKey(owner, ref)]
	g.mu.Unlock()
	if ch != nil {
		<-ch
	}
}
func (g *gateSet) hitCount(owner, ref string) int {
	g.mu.Lock()
	defer g.mu.Unlock()
	return g.hits[gateKey(owner, ref)]
}

const triggerLine = "scheduler trigger" // the Debug line at the beginning of Scheduler.tell

type gateLogger struct {
	log.Logger
	g     *gateSet
	owner string
}

func (l *gateLogger) Debug(msg string, args ...any) {
	if msg != triggerLine {
		return
	}
	ref := ""
	for _, a := range args {
		if at, ok := a.(slog.Attr); ok && at.Key == "reference" {
			ref = at.Value.String()
		}
	}
	l.g.pass(l.owner, ref)
}
func (l *gateLogger) With(args ...any) log.Logger       { return l }
func (l *gateLogger) WithGroup(group string) log.Logger { return l }

// hookPresent: does Scheduler.tell still pass the logger line the hold control relies on? (a build of vivid without it
// makes hold scenarios impossible; they are then left out, and the report says so)
func hookPresent() bool {
	g := newGateSet()
	sys := bootstrap.NewActorSystem(vivid.WithActorSystemLogger(log.NewSilentLogger()))
	if err := sys.Start(); err != nil {
		return false
	}
	defer func() {
		g.releaseAll()
		done := make(chan struct{})
		go func() { _ = sys.Stop(); close(done) }()
		select {
		case <-done:
		case <-time.After(3 * time.Second):
		}
	}()
	got := make(chan struct{}, 1)
	_, err := sys.ActorOf(vivid.ActorFN(func(ctx vivid.ActorContext) {
		switch ctx.Message().(type) {
		case *vivid.OnLaunch:
			_ = ctx.Scheduler().Once(ctx.Ref(), time.Millisecond, fire{1}, vivid.WithSchedulerReference("probe"))
		case fire:
			select {
			case got <- struct{}{}:
			default:
			}
		}
	}), vivid.WithActorName("hook-probe"), vivid.WithActorLogger(&gateLogger{Logger: log.NewSilentLogger(), g: g, owner: "/hook-probe"}))
	if err != nil {
		return false
	}
	select {
	case <-got:
	case <-time.After(3 * time.Second):
		return false
	}
	return g.hitCount("/hook-probe", "probe") == 1
}

type sactor struct {
	r          *srun
	idx        int
	ctx        vivid.ActorContext
	launches   chan struct{}
	killed     chan struct{}
	onKillDone chan struct{}
	// set by the driver goroutine before it starts a stop sequence, read by the actor's handlers (ordered by the Tell / Kill)
	will      *[3][]sop
	hookRes   [3][]hookRes
	childGate atomic.Pointer[chan struct{}] // when set: the child's OnKill handler returns only when it is closed (kKillEnd)
}

// the result of one scheduler call made inside a handler of the stop sequence
type hookRes struct {
	o    sop
	c    *call
	err  error
	b    bool
	at   time.Time
	note []string
}

// schedCall performs one scheduling call (Once / Loop / valid Cron) inside a handler; bookkeeping is done by the driver
func (r *srun) schedCall(ctx vivid.ActorContext, o sop) (*call, error) {
	s := ctx.Scheduler()
	opt := vivid.WithSchedulerReference(o.ref)
	if o.ref == "" { // WithSchedulerReference ignores "", WithScheduleOptions does not
		opt = vivid.WithScheduleOptions(vivid.ScheduleOptions{Location: time.Local, Reference: ""})
	}
	recv := r.refs[o.recv]
	msg := fire{o.payload}
	c := &call{op: o}
	var err error
	st := time.Now()
	switch o.kind {
	case kOnce:
		err = s.Once(recv, time.Duration(o.d)*time.Millisecond, msg, opt)
	case kLoop:
		err = s.Loop(recv, time.Duration(o.d)*time.Millisecond, msg, opt)
	case kCron:
		expr := o.cron
		if expr == "" {
			expr = validCron
		}
		err = s.Cron(recv, expr, msg, opt)
	}
	c.start, c.end = st, time.Now()
	return c, err
}

func (a *sactor) runHooks(ctx vivid.ActorContext, point int) {
	if a.will == nil {
		return
	}
	for _, o := range a.will[point] {
		h := hookRes{o: o}
		switch o.kind {
		case kOnce, kLoop, kCron:
			h.c, h.err = a.r.schedCall(ctx, o)
		case kCancel:
			h.err = ctx.Scheduler().Cancel(o.ref)
		case kExists:
			h.b = ctx.Scheduler().Exists(o.ref)
		}
		h.at = time.Now()
		a.hookRes[point] = append(a.hookRes[point], h)
	}
}

// the child of a scripted actor: it only delays its own termination when told to
type schild struct{ parent *sactor }

func (c *schild) OnReceive(ctx vivid.ActorContext) {
	if _, ok := ctx.Message().(*vivid.OnKill); ok {
		if g := c.parent.childGate.Load(); g != nil {
			select {
			case <-*g:
			case <-time.After(opTimeout):
			}
		}
	}
}

func (a *sactor) OnReceive(ctx vivid.ActorContext) {
	switch m := ctx.Message().(type) {
	case *vivid.OnLaunch:
		a.ctx = ctx
		if a.r.sc.hasChild(a.idx) {
			_, _ = ctx.ActorOf(&schild{parent: a}, vivid.WithActorName("k"))
		}
		select {
		case a.launches <- struct{}{}:
		default:
		}
	case *vivid.OnKill:
		a.runHooks(ctx, hOnKill)
		select {
		case a.onKillDone <- struct{}{}:
		default:
		}
	case *vivid.OnKilled:
		if m.Ref != nil && m.Ref.Equals(ctx.Ref()) {
			a.runHooks(ctx, hOwnKilled)
			select {
			case a.killed <- struct{}{}:
			default:
			}
		} else {
			a.runHooks(ctx, hChildKilled)
		}
	case do:
		m.f(ctx)
		close(m.done)
	case boom:
		panic("c20 scripted failure")
	case fire:
		now := time.Now()
		s := ""
		if ctx.Sender() != nil {
			s = ctx.Sender().GetPath()
		}
		a.r.mu.Lock()
		if !a.r.closed {
			a.r.delivs = append(a.r.delivs, delivery{p: m.p, at: now, recv: ctx.Ref().GetPath(), sender: s})
		}
		a.r.mu.Unlock()
	case *actor.SchedulerMessage:
		a.r.mu.Lock()
		a.r.weird = append(a.r.weird, fmt.Sprintf("behaviour of %s saw the wrapper *SchedulerMessage{Reference:%q Message:%v}", ctx.Ref().GetPath(), m.Reference, m.Message))
		a.r.mu.Unlock()
	}
}

func (r *srun) deadLetters(ctx vivid.ActorContext) {
	switch m := ctx.Message().(type) {
	case *vivid.OnLaunch:
		ctx.EventStream().Subscribe(ctx, ves.DeathLetterEvent{})
	case ves.DeathLetterEvent:
		now := time.Now()
		var f fire
		ok := false
		switch x := m.Envelope.Message().(type) {
		case *actor.SchedulerMessage:
			f, ok = x.Message.(fire)
		case fire:
			f, ok = x, true
		}
		if !ok {
			return
		}
		recv, s := "", ""
		if m.Envelope.Receiver() != nil {
			recv = m.Envelope.Receiver().GetPath()
		}
		if m.Envelope.Sender() != nil {
			s = m.Envelope.Sender().GetPath()
		}
		r.mu.Lock()
		if !r.closed {
			r.delivs = append(r.delivs, delivery{p: f.p, at: now, recv: recv, sender: s, dead: true})
		}
		r.mu.Unlock()
	}
}

// ---- canary: a 30 ms Loop of the harness's own in the SAME quartz scheduler ----
// The quartz loop takes jobs in the order of their run times: a tested job due at T has been taken when the
// first canary firing due at or after T arrives. Canary arrivals never more than canaryTol apart therefore
// bound the lateness of every tested firing by canaryTol.

type canaryTick struct{}

type canary struct {
	mu       sync.Mutex
	arrivals []time.Time
	started  chan struct{}
}

const (
	canaryEvery = 30 * time.Millisecond
	canaryTol   = 75 * time.Millisecond
)

func (c *canary) OnReceive(ctx vivid.ActorContext) {
	switch ctx.Message().(type) {
	case *vivid.OnLaunch:
		_ = ctx.Scheduler().Loop(ctx.Ref(), canaryEvery, canaryTick{}, vivid.WithSchedulerReference("canary"))
	case canaryTick:
		now := time.Now()
		c.mu.Lock()
		c.arrivals = append(c.arrivals, now)
		n := len(c.arrivals)
		c.mu.Unlock()
		if n == 1 {
			close(c.started)
		}
	}
}

// worst gap between consecutive canary arrivals in [from, to] (including the edges)
func (c *canary) worstGap(from, to time.Time) time.Duration {
	c.mu.Lock()
	defer c.mu.Unlock()
	worst := time.Duration(0)
	prev := from
	seen := false
	for _, a := range c.arrivals {
		if a.Before(from) {
			prev = a
			seen = true
			continue
		}
		if a.After(to) {
			break
		}
		if seen || a.Sub(prev) > 0 {
			if g := a.Sub(prev); g > worst {
				worst = g
			}
		}
		prev = a
		seen = true
	}
	if g := to.Sub(prev); g > worst {
		worst = g
	}
	return worst
}

// ---- watchdog: scheduling gaps of this process ----

type gap struct {
	from, to time.Time
}

var (
	gapMu sync.Mutex
	gaps  []gap
)

func watchdog() {
	last := time.Now()
	for {
		time.Sleep(2 * time.Millisecond)
		now := time.Now()
		if now.Sub(last) > gapTol {
			gapMu.Lock()
			gaps = append(gaps, gap{last, now})
			gapMu.Unlock()
		}
		last = now
	}
}

func gapDuring(from, to time.Time) (time.Duration, bool) {
	gapMu.Lock()
	defer gapMu.Unlock()
	for _, g := range gaps {
		if g.to.After(from) && g.from.Before(to) {
			return g.to.Sub(g.from), true
		}
	}
	return 0, false
}

// ---- running one scenario ----

func (r *srun) in(i int, f func(ctx vivid.ActorContext)) bool {
	d := do{f, make(chan struct{})}
	r.sys.Tell(r.refs[i], d)
	select {
	case <-d.done:
		return true
	case <-time.After(opTimeout):
		r.stuck = fmt.Sprintf("actor %s did not run a closure within %v", path(r.sc.actors[i]), opTimeout)
		return false
	}
}

func errCode(err error) uint64 {
	switch {
	case err == nil:
		return 0
	case errors.Is(err, vivid.ErrorCronParse):
		return 2
	case errors.Is(err, vivid.ErrorNotFound):
		return 1
	case errors.Is(err, vivid.ErrorIllegalArgument):
		return 7
	case strings.Contains(err.Error(), "job not found"):
		return 3
	case strings.Contains(err.Error(), "job already exists"):
		return 8
	case strings.Contains(err.Error(), "empty key name"):
		return 9
	}
	return 99
}

// ---- internal observations (accessors locate them by reflection; a build of vivid that does not offer one is still checked
// with everything else: the component is projected out on both sides, and the report says so) ----

var obs struct {
	refs  bool // the per-actor record of references (jobKeys or what replaced it)
	queue bool // the go-quartz queue (quartz's own GetJobKeys through the located scheduler)
}

func obsMask() uint64 {
	m := uint64(0)
	if !obs.refs {
		m |= 1
	}
	if !obs.queue {
		m |= 2
	}
	return m
}

// probeObservations: schedule one far-away job and see whether the located record / queue show it
func probeObservations() {
	sys := bootstrap.NewActorSystem(vivid.WithActorSystemLogger(log.NewSilentLogger()))
	if err := sys.Start(); err != nil {
		return
	}
	defer func() {
		done := make(chan struct{})
		go func() { _ = sys.Stop(); close(done) }()
		select {
		case <-done:
		case <-time.After(3 * time.Second):
		}
	}()
	type res struct {
		refs []string
		ok   bool
	}
	got := make(chan res, 1)
	keys0, okq0 := actor.XVQuartzKeys(sys)
	_, err := sys.ActorOf(vivid.ActorFN(func(ctx vivid.ActorContext) {
		if _, ok := ctx.Message().(*vivid.OnLaunch); ok {
			before, ok1 := actor.XVSchedRefs(ctx)
			_ = ctx.Scheduler().Once(ctx.Ref(), time.Hour, fire{1}, vivid.WithSchedulerReference("probe"))
			after, ok2 := actor.XVSchedRefs(ctx)
			got <- res{after, ok1 && ok2 && len(before) == 0}
		}
	}), vivid.WithActorName("obs-probe"))
	if err != nil {
		return
	}
	select {
	case x := <-got:
		obs.refs = x.ok && len(x.refs) == 1 && x.refs[0] == "probe"
	case <-time.After(opTimeout):
	}
	// the located queue is the right one if the scheduling call added exactly one job to it (whatever its key looks like)
	keys, ok := actor.XVQuartzKeys(sys)
	obs.queue = okq0 && ok && len(keys) == len(keys0)+1
	// development switch: run as if a build of vivid offered none (1), no reference record (2), no queue (3)
	switch os.Getenv("C20_NO_INTERNALS") {
	case "1":
		obs.refs, obs.queue = false, false
	case "2":
		obs.refs = false
	case "3":
		obs.queue = false
	}
}

func schedRefs(c vivid.ActorContext) []string {
	if !obs.refs {
		return nil
	}
	refs, _ := actor.XVSchedRefs(c)
	return refs
}

func (r *srun) dump() lib.T {
	jksT := lib.L()
	if obs.refs {
		jks := make([]lib.T, len(r.sc.actors))
		for i, name := range r.sc.actors {
			var refs []string
			a := r.actors[i]
			if !r.deathAt[i].IsZero() {
				refs = schedRefs(a.ctx) // the actor's goroutine is gone
			} else if r.blocked != nil && (r.blocked[i] || r.stopping[i]) {
				// the actor's goroutine waits in the blocking handler / for its child (it told us so through a channel)
				refs = schedRefs(a.ctx)
			} else {
				r.in(i, func(ctx vivid.ActorContext) { refs = schedRefs(ctx) })
			}
			xs := make([]lib.T, len(refs))
			for j, s := range refs {
				xs[j] = lib.S(s)
			}
			jks[i] = lib.L(lib.S(path(name)), lib.LS(xs))
		}
		jksT = lib.LS(jks)
	}
	keysT := lib.L()
	if obs.queue {
		keysT = keysTerm(quartzKeys(r.sys))
	}
	return lib.L(jksT, keysT)
}

const canaryName = "c20-canary"

// quartzKeys: (group, name) of the queued jobs, without the harness's own canary job
func quartzKeys(s vivid.ActorSystem) [][2]string {
	var out [][2]string
	if !obs.queue {
		return out
	}
	ks, _ := actor.XVQuartzKeys(s)
	for _, k := range ks {
		if k[0] != path(canaryName) {
			out = append(out, k)
		}
	}
	return out
}

func keysTerm(keys [][2]string) lib.T {
	ks := make([]lib.T, len(keys))
	for j, k := range keys {
		ks[j] = lib.L(lib.S(k[0]), lib.S(k[1]))
	}
	return lib.LS(ks)
}

func hasKey(keys [][2]string, group, name string) bool {
	for _, k := range keys {
		if k[0] == group && k[1] == name {
			return true
		}
	}
	return false
}

func (r *srun) markRemoved(owner int, ref string, all bool, at time.Time, by string) {
	for _, c := range r.calls {
		if c.op.actor == owner && c.removedAt.IsZero() && (all || c.op.ref == ref) {
			c.removedAt = at
			c.removedBy = by
		}
	}
}

// noteSched: bookkeeping of one scheduling call (made in a closure or in a handler of a stop sequence)
func (r *srun) noteSched(o sop, c *call, err error) {
	if c != nil && err == nil { // only a call that returned nil is a scheduled job (and is numbered by the model)
		c.idx = len(r.calls)
		r.calls = append(r.calls, c)
	}
	if c != nil && err != nil && o.ref != "" && !(o.kind == kOnce && o.d < 0) && !(o.kind == kLoop && o.d <= 0) {
		// valid arguments: the only legitimate refusal is a job of this actor that is still queued under this reference
		live := false
		for _, p := range r.calls {
			if p.op.actor != o.actor || p.op.ref != o.ref || !p.removedAt.IsZero() {
				continue
			}
			if p.op.kind != kOnce || c.end.Before(p.end.Add(time.Duration(p.op.d)*time.Millisecond+grace)) {
				live = true
			}
		}
		if !live {
			r.rejected = append(r.rejected, fmt.Sprintf("%s returned %v although this actor has no job queued under that reference", describe(r.sc, o), err))
		}
	}
	r.results = append(r.results, lib.N(errCode(err)))
}

// noteHooks: bookkeeping of the scheduler calls the actor's handlers made at one hook point of its stop sequence
func (r *srun) noteHooks(a *sactor, point int) {
	for _, h := range a.hookRes[point] {
		switch h.o.kind {
		case kOnce, kLoop, kCron:
			r.noteSched(h.o, h.c, h.err)
		case kCancel:
			code := errCode(h.err)
			known := false
			for _, c := range r.calls {
				if c.op.actor == h.o.actor && c.op.ref == h.o.ref {
					known = true
				}
			}
			if !known && code != 1 {
				r.unkCancel = append(r.unkCancel, fmt.Sprintf("Cancel(%q) on %s, a reference this actor never scheduled, returned %v", h.o.ref, path(r.sc.actors[h.o.actor]), h.err))
			}
			if code == 0 || code == 3 {
				r.markRemoved(h.o.actor, h.o.ref, false, h.at, fmt.Sprintf("Cancel(%q) in a handler of the stop sequence at %d ms", h.o.ref, h.o.t))
			}
			r.results = append(r.results, lib.N(code))
		case kExists:
			r.results = append(r.results, lib.L(lib.Bool(h.b)))
		}
	}
	a.hookRes[point] = nil
}

func drain(ch chan struct{}) {
	select {
	case <-ch:
	default:
	}
}

func (r *srun) exec(o sop) {
	want := r.t0.Add(time.Duration(o.t) * time.Millisecond)
	if d := time.Until(want); d > 0 {
		time.Sleep(d)
	}
	started := time.Now()
	switch o.kind {
	case kOnce, kLoop, kCron:
		var err error
		var c *call
		ok := r.in(o.actor, func(ctx vivid.ActorContext) {
			if o.kind != kCron || o.valid {
				c, err = r.schedCall(ctx, o)
				return
			}
			s := ctx.Scheduler()
			before := s.Exists(o.ref)
			keysBefore := quartzKeys(r.sys)
			expr := o.cron
			if expr == "" {
				expr = []string{"bad cron", "61 * * * * ?", "* * * *", "0 0 0 32 1 ? 2099"}[int(o.payload)%4]
			}
			err = s.Cron(r.refs[o.recv], expr, fire{o.payload}, vivid.WithSchedulerReference(o.ref))
			if err == nil {
				r.cronBad = append(r.cronBad, fmt.Sprintf("Cron with the invalid expression %q returned nil (actor %s reference %q)", expr, ctx.Ref().GetPath(), o.ref))
			} else if !errors.Is(err, vivid.ErrorCronParse) {
				r.cronBad = append(r.cronBad, fmt.Sprintf("Cron with the invalid expression %q returned %v, which is not vivid's cron parse error (actor %s reference %q)", expr, err, ctx.Ref().GetPath(), o.ref))
			}
			if !before && s.Exists(o.ref) {
				r.cronBad = append(r.cronBad, fmt.Sprintf("after the rejected Cron call Exists(%q) is true on %s", o.ref, ctx.Ref().GetPath()))
			}
			if !hasKey(keysBefore, ctx.Ref().GetPath(), o.ref) && hasKey(quartzKeys(r.sys), ctx.Ref().GetPath(), o.ref) {
				r.cronBad = append(r.cronBad, fmt.Sprintf("after the rejected Cron call the quartz queue holds (%q, %q)", ctx.Ref().GetPath(), o.ref))
			}
		})
		if !ok {
			return
		}
		r.noteSched(o, c, err)
	case kCancel:
		var err error
		known := false
		for _, c := range r.calls {
			if c.op.actor == o.actor && c.op.ref == o.ref {
				known = true
			}
		}
		if !r.in(o.actor, func(ctx vivid.ActorContext) { err = ctx.Scheduler().Cancel(o.ref) }) {
			return
		}
		code := errCode(err)
		if !known && code != 1 {
			r.unkCancel = append(r.unkCancel, fmt.Sprintf("Cancel(%q) on %s, a reference this actor never scheduled, returned %v", o.ref, path(r.sc.actors[o.actor]), err))
		}
		if code == 0 || code == 3 {
			r.markRemoved(o.actor, o.ref, false, time.Now(), fmt.Sprintf("Cancel(%q) at %d ms", o.ref, o.t))
		}
		r.results = append(r.results, lib.N(code))
	case kClear:
		if !r.in(o.actor, func(ctx vivid.ActorContext) { ctx.Scheduler().Clear() }) {
			return
		}
		r.markRemoved(o.actor, "", true, time.Now(), fmt.Sprintf("Clear at %d ms", o.t))
		r.results = append(r.results, lib.N(4))
	case kExists:
		var b bool
		if !r.in(o.actor, func(ctx vivid.ActorContext) { b = ctx.Scheduler().Exists(o.ref) }) {
			return
		}
		r.results = append(r.results, lib.L(lib.Bool(b)))
	case kKill:
		a := r.actors[o.actor]
		drain(a.killed) // a restart leaves a token behind
		drain(a.onKillDone)
		a.will = o.will
		if o.slow > 0 {
			g := make(chan struct{})
			a.childGate.Store(&g)
		}
		r.sys.Kill(r.refs[o.actor], false, "c20")
		if o.slow > 0 {
			// the stop sequence has begun; it ends at the kKillEnd op, when the child has ended
			select {
			case <-a.onKillDone:
			case <-time.After(opTimeout):
				r.stuck = fmt.Sprintf("actor %s did not run its OnKill handler within %v after Kill", path(r.sc.actors[o.actor]), opTimeout)
				return
			}
			r.stopping[o.actor] = true
			r.results = append(r.results, lib.N(4)) // the marker of the beginning
			r.noteHooks(a, hOnKill)
			break
		}
		select {
		case <-a.killed:
		case <-time.After(opTimeout):
			r.stuck = fmt.Sprintf("actor %s did not terminate within %v after Kill", path(r.sc.actors[o.actor]), opTimeout)
			return
		}
		time.Sleep(10 * time.Millisecond)       // cleanupScheduler runs right after the OnKilled behaviour, in the same handler
		r.results = append(r.results, lib.N(4)) // the marker of the beginning
		r.noteHooks(a, hOnKill)
		r.noteHooks(a, hChildKilled)
		r.noteHooks(a, hOwnKilled)
		a.will = nil
		now := time.Now()
		r.deathAt[o.actor] = now
		r.markRemoved(o.actor, "", true, now, fmt.Sprintf("termination at %d ms", o.t))
		r.results = append(r.results, lib.N(4))
	case kKillEnd:
		a := r.actors[o.actor]
		if g := a.childGate.Swap(nil); g != nil {
			close(*g) // the child ends now
		}
		select {
		case <-a.killed:
		case <-time.After(opTimeout):
			r.stuck = fmt.Sprintf("actor %s did not terminate within %v after its child should have ended", path(r.sc.actors[o.actor]), opTimeout)
			return
		}
		time.Sleep(10 * time.Millisecond)
		r.stopping[o.actor] = false
		r.noteHooks(a, hChildKilled)
		r.noteHooks(a, hOwnKilled)
		a.will = nil
		now := time.Now()
		r.deathAt[o.actor] = now
		r.markRemoved(o.actor, "", true, now, fmt.Sprintf("termination at %d ms (stop sequence begun %d ms earlier)", o.t, o.slow))
		r.results = append(r.results, lib.N(4))
	case kRestart:
		a := r.actors[o.actor]
		drain(a.launches)
		a.will = o.will
		r.sys.Tell(r.refs[o.actor], boom{})
		select {
		case <-a.launches:
		case <-time.After(opTimeout):
			r.stuck = fmt.Sprintf("actor %s was not restarted within %v after its handler panicked", path(r.sc.actors[o.actor]), opTimeout)
			return
		}
		time.Sleep(5 * time.Millisecond)
		r.noteHooks(a, hOnKill)
		r.noteHooks(a, hChildKilled)
		r.noteHooks(a, hOwnKilled)
		a.will = nil
		r.markRemoved(o.actor, "", true, time.Now(), fmt.Sprintf("restart at %d ms", o.t))
		r.results = append(r.results, lib.N(4))
	case kDump:
		r.results = append(r.results, r.dump())
	case kBlock:
		ch := make(chan blockCmd, 1)
		entered := make(chan struct{})
		r.blockCh[o.actor] = ch
		r.sys.Tell(r.refs[o.actor], do{f: func(ctx vivid.ActorContext) {
			close(entered)
			cmd := <-ch
			var br blockRes
			switch cmd.inner {
			case kCancel:
				br.code = errCode(ctx.Scheduler().Cancel(cmd.ref))
			case kClear:
				ctx.Scheduler().Clear()
				br.code = 4
			case kExists:
				br.b = ctx.Scheduler().Exists(cmd.ref)
			}
			br.at = time.Now()
			cmd.res <- br
			if cmd.inner == kRestart {
				panic("c20 scripted failure at the end of a long handler")
			}
		}, done: make(chan struct{})})
		select {
		case <-entered:
		case <-time.After(opTimeout):
			r.stuck = fmt.Sprintf("actor %s did not start its blocking handler within %v", path(r.sc.actors[o.actor]), opTimeout)
			return
		}
		r.blocked[o.actor] = true
		r.results = append(r.results, lib.N(4))
	case kUnblock:
		ch := r.blockCh[o.actor]
		a := r.actors[o.actor]
		cmd := blockCmd{inner: o.inner, ref: o.ref, res: make(chan blockRes, 1)}
		if o.inner == kKill {
			r.sys.Kill(r.refs[o.actor], false, "c20") // enqueued while the handler still runs; handled right after it
			cmd.inner = -1
		}
		if o.inner == kRestart {
			select {
			case <-a.launches:
			default:
			}
		}
		ch <- cmd
		var br blockRes
		select {
		case br = <-cmd.res:
		case <-time.After(opTimeout):
			r.stuck = fmt.Sprintf("the blocking handler of %s did not end within %v", path(r.sc.actors[o.actor]), opTimeout)
			return
		}
		r.blocked[o.actor] = false
		switch o.inner {
		case kCancel:
			known := false
			for _, c := range r.calls {
				if c.op.actor == o.actor && c.op.ref == o.ref {
					known = true
				}
			}
			if !known && br.code != 1 {
				r.unkCancel = append(r.unkCancel, fmt.Sprintf("Cancel(%q) on %s, a reference this actor never scheduled, returned code %d", o.ref, path(r.sc.actors[o.actor]), br.code))
			}
			if br.code == 0 || br.code == 3 {
				r.markRemoved(o.actor, o.ref, false, br.at, fmt.Sprintf("Cancel(%q) at %d ms (at the end of a long handler)", o.ref, o.t))
			}
			r.results = append(r.results, lib.N(br.code))
		case kClear:
			r.markRemoved(o.actor, "", true, br.at, fmt.Sprintf("Clear at %d ms (at the end of a long handler)", o.t))
			r.results = append(r.results, lib.N(4))
		case kExists:
			r.results = append(r.results, lib.L(lib.Bool(br.b)))
		case kKill:
			select {
			case <-a.killed:
			case <-time.After(opTimeout):
				r.stuck = fmt.Sprintf("actor %s did not terminate within %v after Kill", path(r.sc.actors[o.actor]), opTimeout)
				return
			}
			time.Sleep(10 * time.Millisecond)
			now := time.Now()
			r.deathAt[o.actor] = now
			r.markRemoved(o.actor, "", true, now, fmt.Sprintf("termination at %d ms (killed during a long handler)", o.t))
			r.results = append(r.results, lib.N(4))
		case kRestart:
			select {
			case <-a.launches:
			case <-time.After(opTimeout):
				r.stuck = fmt.Sprintf("actor %s was not restarted within %v after its long handler panicked", path(r.sc.actors[o.actor]), opTimeout)
				return
			}
			time.Sleep(5 * time.Millisecond)
			drain(a.killed)
			r.markRemoved(o.actor, "", true, time.Now(), fmt.Sprintf("restart at %d ms (a long handler panicked)", o.t))
			r.results = append(r.results, lib.N(4))
		default:
			r.results = append(r.results, lib.N(4))
		}
	case kHold:
		r.gates.hold(path(r.sc.actors[o.actor]), o.ref)
		r.results = append(r.results, lib.N(4))
	case kRelease:
		r.gates.release(path(r.sc.actors[o.actor]), o.ref)
		r.results = append(r.results, lib.N(4))
	}
	tol := lateTol
	if o.kind == kKill || o.kind == kKillEnd || o.kind == kRestart || (o.kind == kUnblock && (o.inner == kKill || o.inner == kRestart)) {
		tol += 15 * time.Millisecond // these wait for the lifecycle to complete and then sleep 5-10 ms
	}
	if late := time.Since(want); late > tol && r.disturbed == "" {
		r.disturbed = fmt.Sprintf("op at %d ms finished %v late (started %v late)", o.t, late, started.Sub(want))
	}
}

// model input: (15 slot) then the ops with the clock steps between them; a clock step never crosses a slot boundary, so
// that the model's arrival times have the resolution of the slot grid. fromImpl[i]: the i-th model op takes its result
// from the harness (in order); the others (clock steps, markers) answer 4.
func (sc scenario) term() (lib.T, []bool, int) {
	xs := []lib.T{lib.L(lib.N(15), lib.N(slotMs), lib.N(obsMask()))}
	var from []bool
	cur := 0
	ticks := 0
	emit := func(t lib.T, impl bool) {
		xs = append(xs, t)
		from = append(from, impl)
	}
	tick := func(to int) {
		for cur < to {
			next := (cur/slotMs + 1) * slotMs
			if next > to {
				next = to
			}
			emit(lib.L(lib.N(8), lib.Z(int64(next-cur))), false)
			cur = next
			ticks++
		}
	}
	var opTerm func(o sop) lib.T
	opTerm = func(o sop) lib.T {
		a := lib.S(path(sc.actors[o.actor]))
		switch o.kind {
		case kOnce:
			return lib.L(lib.N(0), a, lib.S(path(sc.actors[o.recv])), lib.S(o.ref), lib.Z(int64(o.d)), lib.N(o.payload))
		case kLoop:
			return lib.L(lib.N(1), a, lib.S(path(sc.actors[o.recv])), lib.S(o.ref), lib.Z(int64(o.d)), lib.N(o.payload))
		case kCron:
			return lib.L(lib.N(2), a, lib.S(path(sc.actors[o.recv])), lib.S(o.ref), lib.Bool(o.valid), lib.N(o.payload))
		case kCancel:
			return lib.L(lib.N(3), a, lib.S(o.ref))
		case kClear:
			return lib.L(lib.N(4), a)
		case kExists:
			return lib.L(lib.N(5), a, lib.S(o.ref))
		}
		panic("opTerm")
	}
	hooks := func(o sop, points ...int) {
		if o.will == nil {
			return
		}
		for _, p := range points {
			for _, h := range o.will[p] {
				emit(opTerm(h), true)
			}
		}
	}
	wills := map[int]sop{} // the kKill op whose stop sequence is in progress, per actor
	for _, o := range sc.ops {
		tick(o.t)
		a := lib.S(path(sc.actors[o.actor]))
		switch o.kind {
		case kOnce, kLoop, kCron, kCancel, kClear, kExists:
			emit(opTerm(o), true)
		case kKill:
			emit(lib.L(lib.N(16), a), true)
			if o.slow > 0 {
				hooks(o, hOnKill)
				wills[o.actor] = o
			} else {
				hooks(o, hOnKill, hChildKilled, hOwnKilled)
				emit(lib.L(lib.N(6), a), true)
			}
		case kKillEnd:
			hooks(wills[o.actor], hChildKilled, hOwnKilled)
			emit(lib.L(lib.N(6), a), true)
		case kRestart:
			hooks(o, hOnKill, hChildKilled, hOwnKilled)
			emit(lib.L(lib.N(7), a), true)
		case kDump:
			as := make([]lib.T, len(sc.actors))
			for i, n := range sc.actors {
				as[i] = lib.S(path(n))
			}
			emit(lib.L(lib.N(10), lib.LS(as)), true)
		case kBlock:
			emit(lib.L(lib.N(11), a), true)
		case kUnblock:
			switch o.inner {
			case kCancel, kClear, kExists:
				in := o
				in.kind = o.inner
				emit(opTerm(in), true)
			case kKill:
				emit(lib.L(lib.N(16), a), false)
				emit(lib.L(lib.N(6), a), true)
			case kRestart:
				emit(lib.L(lib.N(7), a), true)
			default:
				emit(lib.L(lib.N(12), a), true)
				continue
			}
			emit(lib.L(lib.N(12), a), false)
		case kHold:
			emit(lib.L(lib.N(13), a, lib.S(o.ref)), true)
		case kRelease:
			emit(lib.L(lib.N(14), a, lib.S(o.ref)), true)
		}
	}
	return lib.LS(xs), from, ticks
}

type hit struct{ name, detail string }

type outcome struct {
	sc        scenario
	in        lib.T
	out       lib.T
	nontriv   bool
	hits      []hit
	skipped   string // disturbed on every attempt
	attempts  int
	disturbed []string
}

func runScenario(sc scenario) (*srun, bool) {
	n := len(sc.actors)
	r := &srun{sc: sc, deathAt: make([]time.Time, n), blockCh: make([]chan blockCmd, n), blocked: make([]bool, n), stopping: make([]bool, n), gates: newGateSet()}
	dm := vivid.SupervisionStrategyDecisionMakerFN(func(ctx vivid.SupervisionContext) (vivid.SupervisionDecision, string) {
		return vivid.SupervisionDecisionRestart, "c20"
	})
	silent := log.NewSilentLogger()
	sys := bootstrap.NewActorSystem(vivid.WithActorSystemLogger(silent), vivid.WithActorSystemSupervisionStrategy(vivid.OneForOneStrategy(dm)))
	if err := sys.Start(); err != nil {
		r.stuck = "system start: " + err.Error()
		return r, false
	}
	r.sys = sys
	defer func() {
		r.mu.Lock()
		r.closed = true
		r.mu.Unlock()
		r.gates.releaseAll()
		for i, ch := range r.blockCh {
			if ch != nil && r.blocked[i] {
				select {
				case ch <- blockCmd{inner: -1, res: make(chan blockRes, 1)}:
				default:
				}
			}
		}
		for _, a := range r.actors {
			if g := a.childGate.Swap(nil); g != nil {
				close(*g)
			}
		}
		done := make(chan struct{})
		go func() { _ = sys.Stop(); close(done) }()
		select {
		case <-done:
		case <-time.After(5 * time.Second):
		}
	}()
	if _, err := sys.ActorOf(vivid.ActorFN(r.deadLetters), vivid.WithActorName("c20-dead-letters")); err != nil {
		r.stuck = "dead-letter listener: " + err.Error()
		return r, false
	}
	for i, name := range sc.actors {
		a := &sactor{r: r, idx: i, launches: make(chan struct{}, 1), killed: make(chan struct{}, 1), onKillDone: make(chan struct{}, 1)}
		// the actor's own logger: the hold control of its Tell goroutines (everything else is discarded)
		ref, err := sys.ActorOf(a, vivid.WithActorName(name), vivid.WithActorLogger(&gateLogger{Logger: silent, g: r.gates, owner: path(name)}))
		if err != nil {
			r.stuck = fmt.Sprintf("spawn %q: %v", name, err)
			return r, false
		}
		select {
		case <-a.launches:
		case <-time.After(opTimeout):
			r.stuck = fmt.Sprintf("actor %q was not launched", name)
			return r, false
		}
		r.refs = append(r.refs, ref)
		r.actors = append(r.actors, a)
	}
	r.canary = &canary{started: make(chan struct{})}
	if _, err := sys.ActorOf(r.canary, vivid.WithActorName(canaryName)); err != nil {
		r.stuck = "canary: " + err.Error()
		return r, false
	}
	select {
	case <-r.canary.started:
	case <-time.After(opTimeout):
		r.stuck = "the canary Loop never fired"
		return r, false
	}
	r.t0 = time.Now()
	for _, o := range sc.ops {
		r.exec(o)
		if r.stuck != "" {
			return r, false
		}
	}
	time.Sleep(canaryEvery) // one more canary period, so that the last slot is covered as well
	endAt := time.Now()
	if g, ok := gapDuring(r.t0, endAt); ok && r.disturbed == "" {
		r.disturbed = fmt.Sprintf("a scheduling gap of %v was measured during the scenario", g)
	}
	if g := r.canary.worstGap(r.t0, endAt); g > canaryTol && r.disturbed == "" {
		r.disturbed = fmt.Sprintf("the quartz loop was late: canary arrivals (every %v) %v apart", canaryEvery, g)
	}
	r.mu.Lock()
	r.closed = true
	r.mu.Unlock()
	return r, true
}

func keyOf(sc scenario, o sop) string { return path(sc.actors[o.actor]) + ":" + o.ref }

// class of a lost job: which examined weakness the scenario contains for this call
func (r *srun) classify(c *call) string {
	k := keyOf(r.sc, c.op)
	for _, o := range r.sc.ops {
		if o.kind > kCancel || o.actor == c.op.actor {
			continue
		}
		if keyOf(r.sc, o) == k {
			return "collision"
		}
	}
	for _, d := range r.calls {
		if d.idx < c.idx && d.op.actor == c.op.actor && d.op.ref == c.op.ref {
			return "reuse"
		}
	}
	if c.op.d < 0 {
		return "negative-delay"
	}
	return "other"
}

// flighty: the harness stretched the way of this call's messages (its receiver sat in a long handler, or its Tell goroutines
// were suspended): an arrival long after a removal is then no evidence of a firing after the removal
func (r *srun) flighty(c *call) bool {
	for _, o := range r.sc.ops {
		if o.kind == kBlock && o.actor == c.op.recv {
			return true
		}
		if o.kind == kHold && o.actor == c.op.actor && o.ref == c.op.ref {
			return true
		}
	}
	return false
}

func (r *srun) judge(observedAt time.Time) []hit {
	var hits []hit
	add := func(n, d string) { hits = append(hits, hit{n, d}) }
	byP := map[uint64]*call{}
	for _, c := range r.calls {
		byP[c.op.payload] = c
	}
	per := map[uint64][]delivery{}
	for _, d := range r.delivs {
		per[d.p] = append(per[d.p], d)
	}
	for _, w := range r.weird {
		add("c20-payload", w)
	}
	for _, s := range r.cronBad {
		add("c20-cron-invalid", s)
	}
	for _, s := range r.unkCancel {
		add("c20-cancel-unknown", s)
	}
	for _, s := range r.rejected {
		add("c20-schedule-rejected", s)
	}
	for p, ds := range per {
		c := byP[p]
		if c == nil {
			add("c20-payload", fmt.Sprintf("a message with payload %d was delivered but never scheduled", p))
			continue
		}
		sort.Slice(ds, func(i, j int) bool { return ds[i].at.Before(ds[j].at) })
		wantRecv, wantSender := path(r.sc.actors[c.op.recv]), path(r.sc.actors[c.op.actor])
		ms := time.Millisecond
		for k, d := range ds {
			if d.recv != wantRecv {
				add("c20-payload", fmt.Sprintf("payload %d scheduled for %s arrived at %s", p, wantRecv, d.recv))
			}
			if d.sender != wantSender {
				add("c20-payload", fmt.Sprintf("payload %d scheduled by %s arrived with sender %q", p, wantSender, d.sender))
			}
			// never early: the k-th Tell of a Loop not before start + k*i, a Once not before start + d (quartz computes the
			// instant on the wall clock, the harness measures on the monotonic clock: 5 ms for slewing between the two)
			var earliest time.Time
			switch c.op.kind {
			case kOnce:
				earliest = c.start.Add(time.Duration(c.op.d) * ms)
			case kLoop:
				earliest = c.start.Add(time.Duration(k+1) * time.Duration(c.op.d) * ms)
			}
			if c.op.kind != kCron && d.at.Before(earliest.Add(-5*ms)) {
				add("c20-early", fmt.Sprintf("call #%d (%s): Tell number %d observed %v after the call began, due not before %v", c.idx, describe(r.sc, c.op), k+1, d.at.Sub(c.start), earliest.Sub(c.start)))
			}
			if c.op.kind == kCron {
				add("c20-cron-fired", fmt.Sprintf("call #%d: the cron job for year 2099 fired", c.idx))
			}
			if !c.removedAt.IsZero() && d.at.After(c.removedAt.Add(grace)) && !r.flighty(c) {
				what := "delivered"
				if d.dead {
					what = "dead-lettered"
				}
				name := "c20-after-removal"
				if strings.HasPrefix(c.removedBy, "termination") {
					name = "c20-after-death"
				}
				add(name, fmt.Sprintf("call #%d (%s) was removed by %s, but its message was %s %v after that removal completed", c.idx, describe(r.sc, c.op), c.removedBy, what, d.at.Sub(c.removedAt)))
			}
			if d.dead && r.deathAt[c.op.recv].IsZero() {
				add("c20-dead-letter-to-live", fmt.Sprintf("call #%d (%s): dead letter although the receiver never terminated", c.idx, describe(r.sc, c.op)))
			}
		}
		if c.op.kind == kOnce && len(ds) > 1 {
			add("c20-once-twice", fmt.Sprintf("call #%d (%s) was told %d times", c.idx, describe(r.sc, c.op), len(ds)))
		}
		// exact, whatever the delays of goroutines and mailboxes: a job removed by its owner at R fires at no instant after R.
		// The instants are call + d (Once), call + k*i (Loop), none before (call start) + ...; so at most as many messages
		// can ever arrive as there are instants up to R (5 ms for the two clocks).
		if !c.removedAt.IsZero() {
			room := c.removedAt.Add(5 * ms).Sub(c.start)
			most := 0
			switch c.op.kind {
			case kOnce:
				if room >= time.Duration(c.op.d)*ms {
					most = 1
				}
			case kLoop:
				if c.op.d > 0 && room > 0 {
					most = int(room / (time.Duration(c.op.d) * ms))
				}
			}
			if len(ds) > most {
				name := "c20-after-removal"
				if strings.HasPrefix(c.removedBy, "termination") {
					name = "c20-after-death"
				}
				add(name, fmt.Sprintf("call #%d (%s) was removed by %s, %v after the call began: at most %d of its firing instants lie before that removal, but %d messages arrived (delivered or dead-lettered): a firing instant after the removal fired", c.idx, describe(r.sc, c.op), c.removedBy, c.removedAt.Sub(c.start), most, len(ds)))
			}
		}
	}
	// lost jobs: not removed by the owner, owner alive, observed long enough - and nothing (or too little) was told
	for _, c := range r.calls {
		until := observedAt
		if !c.removedAt.IsZero() {
			until = c.removedAt
		}
		n := len(per[c.op.payload])
		ms := time.Millisecond
		switch c.op.kind {
		case kOnce:
			due := c.end.Add(time.Duration(c.op.d) * ms)
			if c.op.d < 0 {
				due = c.end
			}
			if until.After(due.Add(grace+lateTol)) && n == 0 {
				add("c20-once-lost:"+r.classify(c), fmt.Sprintf("call #%d (%s) returned nil, was not cancelled or cleared by its owner before its instant, the owner is alive - and the message was neither delivered nor dead-lettered (observed until %v after the call)", c.idx, describe(r.sc, c.op), until.Sub(c.end)))
			}
		case kLoop:
			if c.op.d <= 0 {
				continue
			}
			iv := time.Duration(c.op.d) * ms
			lower := int((until.Sub(c.end) - grace - lateTol) / iv)
			upper := int((until.Sub(c.start) + grace) / iv)
			if lower > 0 && n < lower {
				add("c20-loop-lost:"+r.classify(c), fmt.Sprintf("call #%d (%s) was live for %v but told only %d messages (at least %d intervals passed)", c.idx, describe(r.sc, c.op), until.Sub(c.end), n, lower))
			}
			if n > upper+1 {
				add("c20-loop-extra", fmt.Sprintf("call #%d (%s) told %d messages in %v", c.idx, describe(r.sc, c.op), n, until.Sub(c.start)))
			}
		}
	}
	return hits
}

func describe(sc scenario, o sop) string {
	k := []string{"Once", "Loop", "Cron"}[o.kind]
	return fmt.Sprintf("%s by %s to %s reference %q %d ms payload %d at %d ms", k, path(sc.actors[o.actor]), path(sc.actors[o.recv]), o.ref, o.d, o.payload, o.t)
}

func runOutcome(sc scenario) *outcome {
	in, from, _ := sc.term()
	oc := &outcome{sc: sc, in: in}
	tries := maxRetries
	if sc.kind != "random" {
		tries = 2 * maxRetries // the directed scenarios are few and each is the only one of its kind
	}
	for attempt := 1; attempt <= tries; attempt++ {
		oc.attempts = attempt
		r, ok := runScenario(sc)
		if !ok {
			// an operation of the scenario did not complete within opTimeout. On a starved machine (many checks running
			// side by side) that happens to healthy code too, e.g. "the canary Loop never fired" right after start-up:
			// the scenario is re-run like a disturbed one; only a scenario that is stuck in EVERY attempt is reported
			if attempt < tries {
				oc.disturbed = append(oc.disturbed, "stuck: "+r.stuck)
				time.Sleep(time.Duration(attempt) * 500 * time.Millisecond)
				continue
			}
			oc.hits = []hit{{"c20-op-timeout", fmt.Sprintf("%s (in each of %d attempts)", r.stuck, tries)}}
			return oc
		}
		if r.disturbed != "" {
			oc.disturbed = append(oc.disturbed, r.disturbed)
			continue
		}
		// results: the model answers every op, clock steps and markers included (RUnit = 4)
		var res []lib.T
		ri := 0
		for _, impl := range from {
			if !impl {
				res = append(res, lib.N(4))
				continue
			}
			if ri >= len(r.results) {
				oc.hits = []hit{{"c20-op-timeout", fmt.Sprintf("harness bookkeeping: %d results for %d ops", len(r.results), len(from))}}
				return oc
			}
			res = append(res, r.results[ri])
			ri++
		}
		// per scheduling call: deliveries, dead letters, and the slot of every arrival (oldest first)
		type arr struct {
			slot int
			dead bool
		}
		per := map[uint64][]arr{}
		for _, d := range r.delivs {
			per[d.p] = append(per[d.p], arr{int(d.at.Sub(r.t0) / (slotMs * time.Millisecond)), d.dead})
		}
		counts := make([]lib.T, len(r.calls))
		fired := false
		for i, c := range r.calls {
			as := per[c.op.payload]
			sort.Slice(as, func(i, j int) bool {
				if as[i].slot != as[j].slot {
					return as[i].slot < as[j].slot
				}
				return !as[i].dead && as[j].dead
			})
			var nd, dd uint64
			ts := make([]lib.T, len(as))
			for j, x := range as {
				if x.dead {
					dd++
				} else {
					nd++
				}
				ts[j] = lib.L(lib.NI(x.slot), lib.Bool(x.dead))
			}
			counts[i] = lib.L(lib.N(nd), lib.N(dd), lib.LS(ts))
			fired = fired || len(as) > 0
		}
		removal := false
		for _, o := range sc.ops {
			if o.kind == kCancel || o.kind == kClear || o.kind == kKill || o.kind == kRestart || o.kind == kUnblock {
				removal = true
			}
		}
		oc.out = lib.L(lib.LS(res), lib.LS(counts), lib.N(0))
		oc.nontriv = fired && removal
		oc.hits = r.judge(r.t0.Add(time.Duration(sc.end) * time.Millisecond))
		return oc
	}
	oc.skipped = strings.Join(oc.disturbed, "; ")
	return oc
}

// ---- scenarios ----

// times and delays are given in grid units: 100 units = one slot
type builder struct {
	sc    scenario
	next  uint64
	scale int
}

func newBuilder(kind string, actors ...string) *builder {
	return &builder{sc: scenario{kind: kind, actors: actors}, next: 1, scale: slotMs}
}
func (b *builder) ms(units int) int { return units * b.scale / 100 }
func (b *builder) idx(name string) int {
	for i, n := range b.sc.actors {
		if n == name {
			return i
		}
	}
	panic("unknown actor " + name)
}
func (b *builder) sched(t, kind int, owner, recv, ref string, d int) *builder {
	b.sc.ops = append(b.sc.ops, sop{t: b.ms(t), kind: kind, actor: b.idx(owner), recv: b.idx(recv), ref: ref, d: b.ms(d), valid: true, payload: b.next})
	b.next++
	return b
}
func (b *builder) badCron(t int, owner, ref string) *builder {
	b.sc.ops = append(b.sc.ops, sop{t: b.ms(t), kind: kCron, actor: b.idx(owner), recv: b.idx(owner), ref: ref, valid: false, payload: b.next})
	b.next++
	return b
}

// cronExpr: an expression from the corpus; valid is what go-quartz's own validator says about it (the model's oracle bit)
func (b *builder) cronExpr(t int, owner, recv, ref, expr string) *builder {
	valid := quartz.ValidateCronExpression(expr) == nil
	b.sc.ops = append(b.sc.ops, sop{t: b.ms(t), kind: kCron, actor: b.idx(owner), recv: b.idx(recv), ref: ref, valid: valid, cron: expr, payload: b.next})
	b.next++
	return b
}

// cronCorpus: year-2099 expressions (never due) and their mutations: dropped / duplicated fields, values out of range, both day
// fields set, broken lists / ranges / steps, stray characters, extra white space. A mutation that is still valid but no longer
// pinned to 2099 is not used (it could fire during the scenario).
func cronMutant(r *lib.Rand) string {
	bases := []string{"0 0 0 1 1 ? 2099", "0 15 10 ? * MON-FRI 2099", "0 0/5 14 * * ? 2099", "0 0 12 1/5 * ? 2099", "30 10,20 1-3 ? JAN,JUN 1#2 2099", "0 0 0 L * ? 2099"}
	for {
		toks := strings.Split(bases[r.Intn(len(bases))], " ")
		switch r.Intn(8) {
		case 0:
			i := r.Intn(len(toks))
			toks = append(toks[:i], toks[i+1:]...)
		case 1:
			i := r.Intn(len(toks))
			toks = append(toks[:i+1], toks[i:]...)
		case 2, 3:
			toks[r.Intn(len(toks))] = []string{"60", "61", "24", "32", "13", "8", "-1", "a", "*/0", "1-", "/5", "1,,2", "L", "?", "*", "5-1", "1/", "2100", "1969", "JANU", "SUN-SAT", "1.5", "0x1", " "}[r.Intn(24)]
		case 4:
			toks[3], toks[5] = "1", "MON"
		case 5:
			i := r.Intn(len(toks))
			toks[i] = toks[i] + []string{",", "-", "/", "#", "x", "\t"}[r.Intn(6)]
		case 6:
			i := r.Intn(len(toks))
			toks[i] = []string{" ", "\t", "  "}[r.Intn(3)] + toks[i]
		case 7:
			// unchanged
		}
		expr := strings.Join(toks, " ")
		if quartz.ValidateCronExpression(expr) == nil {
			f := strings.Fields(expr)
			if len(f) != 7 || f[6] != "2099" {
				continue
			}
		}
		return expr
	}
}

func (b *builder) op(t, kind int, owner, ref string) *builder {
	b.sc.ops = append(b.sc.ops, sop{t: b.ms(t), kind: kind, actor: b.idx(owner), ref: ref})
	return b
}
func (b *builder) episode(t, kind int, owner, ref string, inner int) *builder {
	b.sc.ops = append(b.sc.ops, sop{t: b.ms(t), kind: kind, actor: b.idx(owner), ref: ref, inner: inner})
	return b
}

// hook: one scheduler call made by a handler of a stop sequence
func (b *builder) hook(kind int, owner, recv, ref string, d int) sop {
	o := sop{kind: kind, actor: b.idx(owner), recv: b.idx(recv), ref: ref, d: b.ms(d), valid: true}
	if kind <= kCron {
		o.payload = b.next
		b.next++
	}
	return o
}

// stop: Kill (kKill) or restart (kRestart) of owner whose handlers of the stop sequence make the calls of w; slow > 0
// (kKill only, the actor must have a child): the child ends only slow units later, the sequence ends at a kKillEnd op there
func (b *builder) stop(t, kind int, owner string, w [3][]sop, slow int) *builder {
	for p := range w {
		for i := range w[p] {
			w[p][i].t = b.ms(t)
		}
	}
	b.sc.ops = append(b.sc.ops, sop{t: b.ms(t), kind: kind, actor: b.idx(owner), will: &w, slow: b.ms(slow)})
	return b
}

func (b *builder) withChild(owner string) *builder {
	if b.sc.child == nil {
		b.sc.child = make([]bool, len(b.sc.actors))
	}
	b.sc.child[b.idx(owner)] = true
	return b
}

func (b *builder) done(end int) scenario {
	b.sc.ops = append(b.sc.ops, sop{t: b.ms(end), kind: kDump})
	b.sc.end = b.ms(end)
	return b.sc
}

// directedFlight: the firing is not atomic - long handlers, suspended Tell goroutines (holds), and the handlers of a stop
// sequence that still call the scheduler
func directedFlight(holds bool) []scenario {
	var out []scenario
	// a long handler: two firings queue up behind it, Cancel at its end returns nil, then both are delivered - nothing later
	out = append(out, newBuilder("flight", "a").
		sched(0, kLoop, "a", "a", "l", 400).episode(100, kBlock, "a", "", 0).episode(900, kUnblock, "a", "l", kCancel).done(1700))
	// a long handler, then killed: what queued up (own jobs and another actor's) becomes dead letters; the other actor's job goes on
	out = append(out, newBuilder("flight", "a", "b").
		sched(0, kLoop, "a", "a", "l", 400).sched(0, kLoop, "b", "a", "k", 400).
		episode(100, kBlock, "a", "", 0).episode(900, kUnblock, "a", "", kKill).op(1100, kDump, "a", "").done(1900))
	// a long handler panics: the supervisor restarts the actor, what queued up is delivered to the NEW incarnation, the jobs are gone
	out = append(out, newBuilder("flight", "a").
		sched(0, kOnce, "a", "a", "o", 400).sched(0, kLoop, "a", "a", "l", 400).
		episode(100, kBlock, "a", "", 0).episode(700, kUnblock, "a", "", kRestart).op(900, kExists, "a", "l").done(1500))
	// a long handler with Clear / Exists at its end; another actor's job to the busy receiver
	out = append(out, newBuilder("flight", "a", "b").
		sched(0, kLoop, "a", "b", "l", 400).sched(0, kOnce, "b", "b", "o", 400).
		episode(100, kBlock, "b", "", 0).op(500, kCancel, "a", "l").episode(700, kUnblock, "b", "o", kExists).
		episode(900, kBlock, "a", "", 0).episode(1100, kUnblock, "a", "", kClear).done(1500))
	if holds {
		// the goroutine of a Once is suspended after the pop: Exists true, Cancel answers quartz's error - and the message arrives 300 ms later
		out = append(out, newBuilder("flight", "a").
			episode(0, kHold, "a", "o", 0).sched(0, kOnce, "a", "a", "o", 400).
			op(500, kExists, "a", "o").op(500, kCancel, "a", "o").op(500, kDump, "a", "").episode(700, kRelease, "a", "o", 0).done(1100))
		// two firings of a Loop in flight at once; Cancel returns nil; both arrive afterwards, the later instants never fire
		out = append(out, newBuilder("flight", "a").
			episode(0, kHold, "a", "l", 0).sched(0, kLoop, "a", "a", "l", 400).
			op(900, kCancel, "a", "l").episode(1100, kRelease, "a", "l", 0).done(1900))
		// in flight when the owner terminates: to the owner itself a dead letter, to another actor delivered (sender: the dead owner)
		out = append(out, newBuilder("flight", "a", "b").
			episode(0, kHold, "a", "o", 0).episode(0, kHold, "a", "p", 0).sched(0, kOnce, "a", "a", "o", 400).sched(0, kOnce, "a", "b", "p", 400).
			op(500, kKill, "a", "").episode(700, kRelease, "a", "o", 0).episode(700, kRelease, "a", "p", 0).done(1100))
		// in flight across a restart: the message of the old incarnation's job reaches the new incarnation; the reference is free again
		out = append(out, newBuilder("flight", "a").
			episode(0, kHold, "a", "o", 0).sched(0, kOnce, "a", "a", "o", 400).op(500, kRestart, "a", "").
			episode(700, kRelease, "a", "o", 0).sched(800, kOnce, "a", "a", "o", 400).done(1500))
		// re-use of the reference while the first Once is still in flight: accepted (the queue no longer holds the key), both arrive
		out = append(out, newBuilder("flight", "a").
			episode(0, kHold, "a", "o", 0).sched(0, kOnce, "a", "a", "o", 400).sched(600, kOnce, "a", "a", "o", 400).
			episode(1100, kRelease, "a", "o", 0).done(1500))
	}
	// the handlers of a stop sequence still call the scheduler: every call is accepted, every job dies with the incarnation
	{
		b := newBuilder("stop", "a", "b").withChild("a")
		b.sched(0, kLoop, "a", "a", "l", 400)
		w := [3][]sop{
			{b.hook(kOnce, "a", "a", "w1", 400), b.hook(kLoop, "a", "b", "w2", 400)},
			{b.hook(kOnce, "a", "a", "w3", 400)},
			{b.hook(kLoop, "a", "a", "w4", 400), b.hook(kExists, "a", "a", "w1", 0), b.hook(kOnce, "a", "b", "l", 400)},
		}
		out = append(out, b.stop(100, kKill, "a", w, 0).op(100, kDump, "a", "").done(1300))
	}
	{
		b := newBuilder("stop", "a", "b").withChild("a")
		b.sched(0, kLoop, "a", "a", "l", 400)
		w := [3][]sop{
			{b.hook(kOnce, "a", "a", "w1", 400), b.hook(kLoop, "a", "b", "w2", 400)},
			{b.hook(kOnce, "a", "a", "w3", 400), b.hook(kCancel, "a", "a", "l", 0)},
			{b.hook(kLoop, "a", "a", "w4", 400), b.hook(kExists, "a", "a", "w1", 0)},
		}
		out = append(out, b.stop(100, kRestart, "a", w, 0).op(100, kDump, "a", "").sched(200, kOnce, "a", "a", "w1", 400).done(1500))
	}
	{
		// no child: OnKill handler and own OnKilled handler only
		b := newBuilder("stop", "a")
		w := [3][]sop{{b.hook(kOnce, "a", "a", "w1", 400)}, nil, {b.hook(kLoop, "a", "a", "w2", 400)}}
		out = append(out, b.stop(100, kKill, "a", w, 0).done(1100))
		b = newBuilder("stop", "a")
		w = [3][]sop{{b.hook(kLoop, "a", "a", "w1", 400)}, nil, {b.hook(kOnce, "a", "a", "w2", 400)}}
		out = append(out, b.stop(100, kRestart, "a", w, 0).done(1100))
	}
	{
		// a stop sequence that waits 600 ms for the child: the actor's jobs keep firing meanwhile - into dead letters when they
		// are addressed to the stopping actor; handlers at both ends schedule; everything dies at the END of the sequence
		b := newBuilder("stop", "a", "b").withChild("a")
		b.sched(0, kLoop, "a", "a", "l", 400).sched(0, kLoop, "b", "a", "k", 400).sched(0, kLoop, "a", "b", "m", 400)
		w := [3][]sop{{b.hook(kOnce, "a", "a", "w", 800)}, {b.hook(kOnce, "a", "b", "y", 400)}, {b.hook(kOnce, "a", "b", "z", 400)}}
		b.stop(100, kKill, "a", w, 400).op(300, kDump, "a", "")
		b.sc.ops = append(b.sc.ops, sop{t: b.ms(500), kind: kKillEnd, actor: b.idx("a"), slow: b.ms(400)})
		out = append(out, b.op(500, kDump, "a", "").done(1500))
	}
	return out
}

func directed() []scenario {
	var out []scenario
	// basic: Once, Loop, cancel, exists, unknown cancel
	out = append(out, newBuilder("directed", "a").
		sched(0, kOnce, "a", "a", "o", 400).sched(0, kLoop, "a", "a", "l", 400).sched(0, kOnce, "a", "a", "z", 0).
		op(100, kExists, "a", "o").op(100, kCancel, "a", "nope").op(100, kDump, "a", "").
		op(500, kExists, "a", "o").op(500, kDump, "a", "").
		op(1300, kCancel, "a", "l").op(1300, kExists, "a", "l").done(2100))
	// a fired Once stays in jobKeys: Exists true, Cancel answers quartz's error, then not-found
	out = append(out, newBuilder("directed", "a").
		sched(0, kOnce, "a", "a", "o", 400).op(700, kExists, "a", "o").op(700, kCancel, "a", "o").op(700, kCancel, "a", "o").done(900))
	// cancelled before its instant
	out = append(out, newBuilder("directed", "a").
		sched(0, kOnce, "a", "a", "o", 400).sched(0, kOnce, "a", "a", "p", 800).op(300, kCancel, "a", "o").op(700, kClear, "a", "").done(1300))
	// (b) a live reference used again
	out = append(out, newBuilder("directed", "a").
		sched(0, kLoop, "a", "a", "r", 400).sched(200, kOnce, "a", "a", "r", 400).op(1100, kCancel, "a", "r").op(1100, kDump, "a", "").done(1700))
	out = append(out, newBuilder("directed", "a").
		sched(0, kOnce, "a", "a", "r", 800).sched(200, kOnce, "a", "a", "r", 400).done(1500))
	// re-use after the first one has fired works
	out = append(out, newBuilder("directed", "a").
		sched(0, kOnce, "a", "a", "r", 400).sched(600, kOnce, "a", "a", "r", 400).done(1300))
	// (a) colliding keys "/a" ":" "b:c" = "/a:b" ":" "c"
	out = append(out, newBuilder("directed", "a", "a:b").
		sched(0, kOnce, "a", "a", "b:c", 800).sched(200, kOnce, "a:b", "a:b", "c", 400).op(300, kDump, "a", "").op(300, kCancel, "a:b", "c").done(1100))
	out = append(out, newBuilder("directed", "a", "a:b").
		sched(0, kLoop, "a", "a", "b:c", 400).sched(200, kOnce, "a:b", "a:b", "c", 400).op(500, kKill, "a:b", "").done(1500))
	out = append(out, newBuilder("directed", "a", "a:b").
		sched(0, kLoop, "a:b", "a:b", "c", 400).sched(200, kLoop, "a", "a", "b:c", 400).op(500, kClear, "a", "").op(500, kDump, "a", "").done(1500))
	// the same reference on two actors without a collision
	out = append(out, newBuilder("directed", "a", "b").
		sched(0, kOnce, "a", "a", "r", 400).sched(0, kOnce, "b", "b", "r", 400).sched(0, kLoop, "a", "b", "l", 400).op(900, kCancel, "b", "l").op(900, kCancel, "a", "l").done(1500))
	// the same reference on two actors, one the receiver of the other's job: the receiver's own job under that reference is
	// untouched by the arrival and still dies with its Clear / its termination
	out = append(out, newBuilder("directed", "a", "b").
		sched(0, kOnce, "b", "b", "r", 800).sched(0, kOnce, "a", "b", "r", 400).op(500, kExists, "b", "r").op(500, kClear, "b", "").op(500, kDump, "a", "").done(1300))
	out = append(out, newBuilder("directed", "a", "b").
		sched(0, kLoop, "b", "b", "r", 800).sched(0, kOnce, "b", "b", "s", 800).sched(0, kOnce, "a", "b", "r", 400).sched(0, kOnce, "a", "b", "s", 400).
		op(500, kKill, "b", "").op(500, kDump, "a", "").done(1900))
	// negative and zero delay
	out = append(out, newBuilder("directed", "a").
		sched(0, kOnce, "a", "a", "n", -1000).sched(0, kOnce, "a", "a", "z", 0).op(300, kExists, "a", "n").op(300, kDump, "a", "").done(700))
	// the owner terminates: its jobs are gone; jobs of others to the dead receiver become dead letters
	out = append(out, newBuilder("directed", "a", "b").
		sched(0, kLoop, "a", "a", "l", 400).sched(0, kOnce, "a", "b", "o", 800).sched(0, kLoop, "b", "a", "l", 400).sched(0, kOnce, "b", "a", "o", 1200).
		op(500, kKill, "a", "").op(500, kDump, "a", "").done(1700))
	// the owner restarts: its jobs are gone, it can schedule again
	out = append(out, newBuilder("directed", "a", "b").
		sched(0, kLoop, "a", "a", "l", 400).sched(0, kOnce, "a", "b", "o", 800).sched(0, kLoop, "b", "a", "k", 400).
		op(500, kRestart, "a", "").op(500, kExists, "a", "l").op(500, kDump, "a", "").
		sched(800, kLoop, "a", "a", "l", 400).op(1700, kClear, "a", "").done(2300))
	// Cron: invalid, valid, cancel
	out = append(out, newBuilder("directed", "a").
		badCron(0, "a", "c").sched(0, kCron, "a", "a", "v", 0).op(100, kExists, "a", "c").op(100, kExists, "a", "v").op(100, kDump, "a", "").
		badCron(300, "a", "v").op(300, kCancel, "a", "c").op(300, kCancel, "a", "v").op(300, kCancel, "a", "v").done(500))
	// Cron corpus: 30 mutated expressions (whatever go-quartz's validator says about each is the model's oracle bit): an invalid one
	// returns vivid's parse error and changes nothing, a valid one (pinned to the year 2099) is queued and never due
	{
		cr := lib.NewRand(20200920)
		b := newBuilder("directed", "a")
		for i := 0; i < 30; i++ {
			b.cronExpr(0, "a", "a", fmt.Sprintf("c%d", i), cronMutant(cr))
		}
		out = append(out, b.op(100, kDump, "a", "").op(100, kClear, "a", "").done(300))
	}
	// rejected arguments: negative delay, non-positive interval, empty reference, live reference; nothing is scheduled
	out = append(out, newBuilder("directed", "a").
		sched(0, kOnce, "a", "a", "n", -1000).sched(0, kLoop, "a", "a", "z", 0).sched(0, kLoop, "a", "a", "m", -1000).sched(0, kOnce, "a", "a", "", 400).
		sched(0, kLoop, "a", "a", "l", 400).sched(200, kLoop, "a", "a", "l", 400).sched(200, kOnce, "a", "a", "l", 400).
		op(300, kExists, "a", "n").op(300, kExists, "a", "z").op(300, kExists, "a", "").op(300, kDump, "a", "").done(1100))
	// many jobs per actor, Clear
	b := newBuilder("directed", "a", "b")
	for i := 0; i < 6; i++ {
		b.sched(0, []int{kOnce, kLoop}[i%2], "a", []string{"a", "b"}[i%2], fmt.Sprintf("j%d", i), 400*(1+i%2))
	}
	out = append(out, b.op(100, kDump, "a", "").op(500, kDump, "a", "").op(900, kClear, "a", "").op(900, kDump, "a", "").done(1900))
	return out
}

// flight (holds allowed) is false when the logger line the hold control needs is absent from the tree under test
func random(r *lib.Rand, holds bool) scenario {
	pools := [][]string{{"a"}, {"a", "a:b"}, {"a", "b"}, {"a", "a:b", "b"}, {"x", "y"}, {"a:b", "a"}}
	b := newBuilder("random", pools[r.Intn(len(pools))]...)
	refs := []string{"r", "s", "b:c", "c"}
	if r.Chance(1, 3) {
		refs = []string{"r", "c", "b:c"}
	}
	n := len(b.sc.actors)
	alive := make([]bool, n)
	busy := make([]int, n) // the actor sits in a long handler / in a stop sequence until this slot (exclusive)
	b.sc.child = make([]bool, n)
	for i := range alive {
		alive[i] = true
		b.sc.child[i] = r.Chance(1, 3)
	}
	type use struct{ n, lane int }
	uses := map[string]use{}
	slots := 12 + r.Intn(10)
	pending := map[int][]sop{} // ops that end an episode, by slot
	heldKeys := map[string]bool{}
	lastEnd := 0
	later := func(slot int, o sop) {
		o.t = b.ms(slot * 100)
		pending[slot] = append(pending[slot], o)
		if slot > lastEnd {
			lastEnd = slot
		}
	}
	free := func(slot int) (int, bool) {
		var xs []int
		for i, a := range alive {
			if a && busy[i] <= slot {
				xs = append(xs, i)
			}
		}
		if len(xs) == 0 {
			return 0, false
		}
		return xs[r.Intn(len(xs))], true
	}
	// what the handlers of a stop sequence do: 1-3 scheduler calls (jobs whose instants lie after the end of the sequence)
	// (slowDur: the sequence waits that many slots for the child: no instant of a job of the OnKill handler may coincide with its end)
	will := func(a int, t int, slowDur int) *[3][]sop {
		var w [3][]sop
		for k := 1 + r.Intn(3); k > 0; k-- {
			point := []int{hOnKill, hOnKill, hOwnKilled, hChildKilled}[r.Intn(4)]
			if point == hChildKilled && !b.sc.child[a] {
				point = hOwnKilled
			}
			o := sop{t: b.ms(t), actor: a, recv: a, ref: refs[r.Intn(len(refs))], valid: true}
			if r.Chance(3, 10) {
				o.recv = r.Intn(n)
			}
			switch x := r.Intn(10); {
			case x < 4:
				o.kind, o.d = kOnce, b.ms([]int{400, 800}[r.Intn(2)])
				if point == hOnKill && slowDur > 0 {
					o.d = b.ms(800)
				}
			case x < 8:
				o.kind, o.d = kLoop, b.ms(400)
				if point == hOnKill && slowDur > 0 {
					o.d = b.ms(800)
				}
			case x < 9:
				o.kind = kCancel
			default:
				o.kind = kExists
			}
			if o.kind <= kCron {
				o.payload = b.next
				b.next++
			}
			w[point] = append(w[point], o)
		}
		return &w
	}
	// the op that ends an episode is the last op of its slot: what it lets arrive has arrived before the next op
	flush := func(slot int) {
		for _, o := range pending[slot] {
			b.sc.ops = append(b.sc.ops, o)
			if o.kind == kKillEnd || (o.kind == kUnblock && o.inner == kKill) {
				alive[o.actor] = false
			}
		}
	}
	for slot := 0; slot < slots || slot <= lastEnd; slot++ {
		t := slot * 100
		if slot >= slots {
			flush(slot)
			continue
		}
		k := r.Intn(3)
		if slot == 0 && k == 0 {
			k = 1
		}
		for ; k > 0; k-- {
			a, ok := free(slot)
			if !ok {
				break
			}
			name := b.sc.actors[a]
			if slot%2 == 0 {
				lane := (slot / 2) % 2
				ref := refs[r.Intn(len(refs))]
				if r.Chance(1, 40) {
					ref = "" // an empty reference (only possible through WithScheduleOptions)
				}
				key := path(name) + ":" + ref
				u := uses[key]
				if u.n >= 2 || (u.n == 1 && u.lane == lane) {
					continue
				}
				if u.n == 0 {
					u.lane = lane
				}
				u.n++
				uses[key] = u
				recv := name
				if r.Chance(3, 10) {
					recv = b.sc.actors[r.Intn(n)]
				}
				x := r.Intn(100)
				switch {
				case x < 50:
					d := []int{400, 400, 800, 0, 1200}[r.Intn(5)]
					if r.Chance(1, 20) {
						d = -1000
					}
					b.sched(t, kOnce, name, recv, ref, d)
				case x < 90:
					iv := []int{400, 400, 800}[r.Intn(3)]
					if r.Chance(1, 15) {
						iv = []int{0, -1000}[r.Intn(2)]
					}
					b.sched(t, kLoop, name, recv, ref, iv)
				default:
					if r.Chance(1, 2) {
						b.cronExpr(t, name, recv, ref, cronMutant(r))
					} else {
						b.sched(t, kCron, name, recv, ref, 0)
					}
				}
				continue
			}
			if r.Chance(1, 4) {
				// an episode: a long handler, suspended Tell goroutines, or a stop sequence that waits for the child
				switch x := r.Intn(10); {
				case x < 5:
					dur := []int{2, 4, 4, 6}[r.Intn(4)]
					inner := []int{-1, kCancel, kCancel, kClear, kExists, kKill, kRestart}[r.Intn(7)]
					b.sc.ops = append(b.sc.ops, sop{t: b.ms(t), kind: kBlock, actor: a})
					later(slot+dur, sop{kind: kUnblock, actor: a, inner: inner, ref: refs[r.Intn(len(refs))]})
					busy[a] = slot + dur + 1
				case x < 8 && holds:
					ref := refs[r.Intn(len(refs))]
					if heldKeys[path(name)+"\x00"+ref] {
						continue
					}
					heldKeys[path(name)+"\x00"+ref] = true
					b.sc.ops = append(b.sc.ops, sop{t: b.ms(t), kind: kHold, actor: a, ref: ref})
					later(slot+[]int{2, 4, 6}[r.Intn(3)], sop{kind: kRelease, actor: a, ref: ref})
				case b.sc.child[a]:
					dur := []int{2, 4}[r.Intn(2)]
					w := will(a, t, dur)
					b.sc.ops = append(b.sc.ops, sop{t: b.ms(t), kind: kKill, actor: a, will: w, slow: b.ms(dur * 100)})
					later(slot+dur, sop{kind: kKillEnd, actor: a, slow: b.ms(dur * 100)})
					busy[a] = slot + dur + 1
				}
				continue
			}
			x := r.Intn(100)
			switch {
			case x < 35:
				ref := refs[r.Intn(len(refs))]
				if r.Chance(1, 5) {
					ref = "never"
				}
				b.op(t, kCancel, name, ref)
			case x < 45:
				b.op(t, kClear, name, "")
			case x < 60:
				b.op(t, kExists, name, refs[r.Intn(len(refs))])
			case x < 72:
				b.op(t, kDump, name, "")
			case x < 80:
				b.op(t, kKill, name, "")
				if r.Chance(1, 2) {
					b.sc.ops[len(b.sc.ops)-1].will = will(a, t, 0)
				}
				alive[a] = false
			case x < 90:
				b.op(t, kRestart, name, "")
				if r.Chance(1, 2) {
					b.sc.ops[len(b.sc.ops)-1].will = will(a, t, 0)
				}
			default:
				if r.Chance(1, 2) {
					for k := 0; k < 20; k++ {
						if e := cronMutant(r); quartz.ValidateCronExpression(e) != nil {
							b.cronExpr(t, name, name, refs[r.Intn(len(refs))], e)
							break
						}
					}
				} else {
					b.badCron(t, name, refs[r.Intn(len(refs))])
				}
			}
		}
		flush(slot)
	}
	end := slots
	if lastEnd+1 > end {
		end = lastEnd + 1
	}
	if end%2 == 0 {
		end++
	}
	end += 2 * r.Intn(3)
	return b.done(end * 100)
}

func tname(sc scenario) string {
	var sb strings.Builder
	var one func(o sop, at bool)
	one = func(o sop, at bool) {
		who := path(sc.actors[o.actor])
		if at {
			fmt.Fprintf(&sb, "%d:", o.t)
		}
		switch o.kind {
		case kOnce, kLoop:
			fmt.Fprintf(&sb, "%s %s->%s %q %dms #%d", []string{"Once", "Loop"}[o.kind], who, path(sc.actors[o.recv]), o.ref, o.d, o.payload)
		case kCron:
			fmt.Fprintf(&sb, "Cron(%q valid=%v) %s %q #%d", o.cron, o.valid, who, o.ref, o.payload)
		case kCancel:
			fmt.Fprintf(&sb, "Cancel %s %q", who, o.ref)
		case kClear:
			fmt.Fprintf(&sb, "Clear %s", who)
		case kExists:
			fmt.Fprintf(&sb, "Exists %s %q", who, o.ref)
		case kKill, kRestart:
			fmt.Fprintf(&sb, "%s %s", map[int]string{kKill: "Kill", kRestart: "Restart"}[o.kind], who)
			if o.slow > 0 {
				fmt.Fprintf(&sb, " (its child ends %d ms later)", o.slow)
			}
			if o.will != nil {
				for p, name := range []string{"OnKill handler", "child's OnKilled handler", "own OnKilled handler"} {
					if len(o.will[p]) == 0 {
						continue
					}
					fmt.Fprintf(&sb, " [%s: ", name)
					for i, h := range o.will[p] {
						if i > 0 {
							sb.WriteString(", ")
						}
						one(h, false)
					}
					sb.WriteString("]")
				}
			}
		case kKillEnd:
			fmt.Fprintf(&sb, "the child of %s ends, the stop sequence completes", who)
		case kDump:
			sb.WriteString("Dump")
		case kBlock:
			fmt.Fprintf(&sb, "%s enters a long handler", who)
		case kUnblock:
			in := map[int]string{-1: "", kCancel: fmt.Sprintf(" after Cancel %q in it", o.ref), kClear: " after Clear in it", kExists: fmt.Sprintf(" after Exists %q in it", o.ref), kKill: " with a Kill enqueued meanwhile", kRestart: " by panicking (restart)"}[o.inner]
			fmt.Fprintf(&sb, "the long handler of %s ends%s", who, in)
		case kHold:
			fmt.Fprintf(&sb, "Tell goroutines of (%s, %q) suspended", who, o.ref)
		case kRelease:
			fmt.Fprintf(&sb, "Tell goroutines of (%s, %q) resumed", who, o.ref)
		}
		if at {
			sb.WriteString("; ")
		}
	}
	for _, o := range sc.ops {
		one(o, true)
	}
	return sb.String()
}

// ---- child processes: scenarios that need the whole process to be suspended or that burn a CPU ----

type childReport struct {
	Valid     bool        `json:"valid"`
	Why       string      `json:"why"`
	Delivered int         `json:"delivered"`
	Dead      int         `json:"dead"`
	Exists    bool        `json:"exists"`
	Keys      [][2]string `json:"keys"`
	Refs      []string    `json:"refs"`
	LoopCount int         `json:"loop_count"`
	CPUms     int64       `json:"cpu_ms"`
	GapMs     int64       `json:"gap_ms"`
	AtMs      []int64     `json:"at_ms"`   // delivery times, ms after the scheduling call returned
	LiveMs    int64       `json:"live_ms"` // how long the job had been scheduled at the observation
	Mask      uint64      `json:"mask"`    // internal observations this build does not offer (obsMask)
}

func cpuTime() time.Duration {
	var ru syscall.Rusage
	_ = syscall.Getrusage(syscall.RUSAGE_SELF, &ru)
	return time.Duration(ru.Utime.Nano() + ru.Stime.Nano())
}

// child "stall": Once(800 ms) to self, then the parent suspends the whole process (SIGSTOP) for about 2 s.
// with loop = true: Loop(400 ms) instead of the Once (monitor only: how many firings the stall costs is not exact).
func childStall(loop bool) {
	go watchdog()
	bs := newBuilder("stall", "a")
	bs.scale = 100
	kind, delay := kOnce, 800
	if loop {
		kind, delay = kLoop, 400
	}
	sc := bs.sched(0, kind, "a", "a", "r", delay).done(3900)
	r := &srun{sc: sc, deathAt: make([]time.Time, 1)}
	sys := bootstrap.NewActorSystem(vivid.WithActorSystemLogger(log.NewSilentLogger()))
	if err := sys.Start(); err != nil {
		fmt.Println(`{"valid":false,"why":"start"}`)
		return
	}
	r.sys = sys
	_, _ = sys.ActorOf(vivid.ActorFN(r.deadLetters), vivid.WithActorName("c20-dead-letters"))
	a := &sactor{r: r, launches: make(chan struct{}, 1), killed: make(chan struct{}, 1)}
	ref, _ := sys.ActorOf(a, vivid.WithActorName("a"))
	<-a.launches
	r.refs, r.actors = []vivid.ActorRef{ref}, []*sactor{a}
	r.t0 = time.Now()
	r.exec(sc.ops[0])
	c := r.calls[0]
	fmt.Println("SCHEDULED")
	os.Stdout.Sync()
	// the parent stops the process now; wait until the watchdog has seen the suspension end, then observe for 1800 ms more
	// (in about one run of seven the Go timer of the quartz loop fires a full 800 ms AFTER the process resumes, not at
	// once: the job is dropped as outdated either way, but only then does it leave the queue)
	rep := childReport{Valid: true}
	due := c.end.Add(800 * time.Millisecond)
	ok := false
	var resumed time.Time
	for waited := 0; waited < 160 && !ok; waited++ {
		time.Sleep(50 * time.Millisecond)
		gapMu.Lock()
		for _, g := range gaps {
			// the suspension must begin well before the instant and end well after instant + OutdatedThreshold
			if g.from.Before(due.Add(-200*time.Millisecond)) && g.to.After(due.Add(1000*time.Millisecond)) {
				ok, resumed = true, g.to
				rep.GapMs = int64(g.to.Sub(g.from) / time.Millisecond)
			}
		}
		gapMu.Unlock()
	}
	if !ok {
		rep.Valid, rep.Why = false, "the process was not suspended across the instant"
	} else if d := time.Until(resumed.Add(1800 * time.Millisecond)); d > 0 {
		time.Sleep(d)
	}
	r.in(0, func(ctx vivid.ActorContext) {
		rep.Exists = ctx.Scheduler().Exists("r")
		rep.Refs = schedRefs(ctx)
	})
	rep.Keys = quartzKeys(r.sys)
	rep.Mask = obsMask()
	r.mu.Lock()
	for _, d := range r.delivs {
		if d.dead {
			rep.Dead++
		} else {
			rep.Delivered++
		}
		rep.AtMs = append(rep.AtMs, int64(d.at.Sub(c.end)/time.Millisecond))
	}
	rep.LiveMs = int64(time.Since(c.end) / time.Millisecond)
	r.mu.Unlock()
	if os.Getenv("C20_STALL_DEBUG") != "" {
		gone := time.Duration(-1)
		for i := 0; i < 400 && gone < 0; i++ {
			if len(quartzKeys(r.sys)) == 0 {
				gone = time.Since(resumed)
			}
			time.Sleep(10 * time.Millisecond)
		}
		r.mu.Lock()
		rep.Why = fmt.Sprintf("debug: deliveries %d, queue empty observed %v after resume (since schedule %v)", len(r.delivs), gone, time.Since(c.end))
		r.mu.Unlock()
	}
	b, _ := json.Marshal(rep)
	fmt.Println(string(b))
	_ = sys.Stop()
}

// child "spin": Loop with interval -1 s on /a, then Once(300 ms) on /b.
func childSpin() {
	sys := bootstrap.NewActorSystem(vivid.WithActorSystemLogger(log.NewSilentLogger()))
	if err := sys.Start(); err != nil {
		fmt.Println(`{"valid":false,"why":"start"}`)
		return
	}
	bs := newBuilder("spin", "a", "b")
	bs.scale = 100
	sc := bs.sched(0, kLoop, "a", "a", "l", -1000).sched(0, kOnce, "b", "b", "o", 300).done(1500)
	r := &srun{sc: sc, deathAt: make([]time.Time, 2), sys: sys}
	for i, n := range sc.actors {
		a := &sactor{r: r, idx: i, launches: make(chan struct{}, 1), killed: make(chan struct{}, 1)}
		ref, _ := sys.ActorOf(a, vivid.WithActorName(n))
		<-a.launches
		r.refs, r.actors = append(r.refs, ref), append(r.actors, a)
	}
	r.t0 = time.Now()
	c0 := cpuTime()
	r.exec(sc.ops[0])
	r.exec(sc.ops[1])
	time.Sleep(1500 * time.Millisecond)
	rep := childReport{Valid: true, CPUms: int64((cpuTime() - c0) / time.Millisecond)}
	r.mu.Lock()
	for _, d := range r.delivs {
		if d.p == 2 {
			rep.Delivered++
		} else {
			rep.LoopCount++
		}
	}
	r.mu.Unlock()
	r.in(0, func(ctx vivid.ActorContext) { _ = ctx.Scheduler().Cancel("l") })
	b, _ := json.Marshal(rep)
	fmt.Println(string(b))
	done := make(chan struct{})
	go func() { _ = sys.Stop(); close(done) }()
	select {
	case <-done:
	case <-time.After(3 * time.Second):
	}
}

func runChild(mode string, stop bool) (*childReport, error) {
	cmd := exec.Command(os.Args[0], mode)
	out, err := cmd.StdoutPipe()
	if err != nil {
		return nil, err
	}
	cmd.Stderr = os.Stderr
	if err := cmd.Start(); err != nil {
		return nil, err
	}
	defer func() { _ = cmd.Process.Kill(); _ = cmd.Wait() }()
	rd := bufio.NewReader(out)
	var rep childReport
	deadline := time.After(20 * time.Second)
	lines := make(chan string)
	go func() {
		for {
			l, err := rd.ReadString('\n')
			if l != "" {
				lines <- strings.TrimSpace(l)
			}
			if err != nil {
				close(lines)
				return
			}
		}
	}()
	for {
		select {
		case l, ok := <-lines:
			if !ok {
				return nil, errors.New("child ended without a report")
			}
			if l == "SCHEDULED" && stop {
				_ = cmd.Process.Signal(syscall.SIGSTOP)
				time.Sleep(2200 * time.Millisecond)
				_ = cmd.Process.Signal(syscall.SIGCONT)
				continue
			}
			if strings.HasPrefix(l, "{") {
				if err := json.Unmarshal([]byte(l), &rep); err != nil {
					return nil, err
				}
				return &rep, nil
			}
		case <-deadline:
			return nil, errors.New("child timed out")
		}
	}
}

// (e) a Tell already dispatched when Cancel returns: the actor cancels its 3 ms Loop inside the handler of the first
// firing and counts firings handled after Cancel returned nil. Statistics only (not deterministic).
func raceProbe(trials int) (int, int) {
	sys := bootstrap.NewActorSystem(vivid.WithActorSystemLogger(log.NewSilentLogger()))
	if err := sys.Start(); err != nil {
		return 0, 0
	}
	defer func() {
		done := make(chan struct{})
		go func() { _ = sys.Stop(); close(done) }()
		select {
		case <-done:
		case <-time.After(3 * time.Second):
		}
	}()
	after, ran := 0, 0
	for i := 0; i < trials; i++ {
		cancelled := false
		n := 0
		doneCh := make(chan struct{})
		ref, err := sys.ActorOf(vivid.ActorFN(func(ctx vivid.ActorContext) {
			switch ctx.Message().(type) {
			case *vivid.OnLaunch:
				_ = ctx.Scheduler().Loop(ctx.Ref(), 3*time.Millisecond, fire{1}, vivid.WithSchedulerReference("l"))
			case fire:
				if cancelled {
					n++
					return
				}
				time.Sleep(2900 * time.Microsecond) // end the handler close to the next firing instant
				if ctx.Scheduler().Cancel("l") == nil {
					cancelled = true
					ctx.Scheduler().Once(ctx.Ref(), 30*time.Millisecond, boom{}, vivid.WithSchedulerReference("end"))
				}
			case boom:
				close(doneCh)
			}
		}))
		if err != nil {
			continue
		}
		select {
		case <-doneCh:
			ran++
			if n > 0 {
				after++
			}
		case <-time.After(2 * time.Second):
		}
		sys.Kill(ref, false, "probe")
	}
	return after, ran
}

// ---- independence of jobs: a Tell that does not return must not delay the firings of other jobs ----
// (go-quartz starts one goroutine per firing; vivid constructs it that way: no blocking execution, no worker limit.)
// 64 Once(300 ms) jobs of /a are suspended in their Tell goroutines for 900 ms; meanwhile /b's Once(600 ms) and /b's Loop(150 ms) are due.
// Judged on the property itself: the Once of /b must arrive (once), the Loop must keep its pace. An attempt during which the
// process itself was late (watchdog) is repeated; only a failure of all attempts is reported.

const indepHeld = 64 // so many Tell goroutines of /a are suspended at once

type indepResult struct {
	onceAt   []time.Duration
	loopN    int
	worstGap time.Duration
	xAfter   bool
	gap      bool
}

func indepAttempt() (res indepResult, ok bool) {
	g := newGateSet()
	silent := log.NewSilentLogger()
	sys := bootstrap.NewActorSystem(vivid.WithActorSystemLogger(silent))
	if err := sys.Start(); err != nil {
		return res, false
	}
	defer func() {
		g.releaseAll()
		done := make(chan struct{})
		go func() { _ = sys.Stop(); close(done) }()
		select {
		case <-done:
		case <-time.After(3 * time.Second):
		}
	}()
	var mu sync.Mutex
	var t0 time.Time
	var xs, ys, ls []time.Time
	mk := func(name string, launch func(ctx vivid.ActorContext)) bool {
		ready := make(chan struct{})
		_, err := sys.ActorOf(vivid.ActorFN(func(ctx vivid.ActorContext) {
			switch m := ctx.Message().(type) {
			case *vivid.OnLaunch:
				launch(ctx)
				close(ready)
			case fire:
				now := time.Now()
				mu.Lock()
				switch m.p {
				case 1:
					xs = append(xs, now)
				case 2:
					ys = append(ys, now)
				case 3:
					ls = append(ls, now)
				}
				mu.Unlock()
			}
		}), vivid.WithActorName(name), vivid.WithActorLogger(&gateLogger{Logger: silent, g: g, owner: path(name)}))
		if err != nil {
			return false
		}
		select {
		case <-ready:
			return true
		case <-time.After(opTimeout):
			return false
		}
	}
	for i := 0; i < indepHeld; i++ {
		g.hold("/a", fmt.Sprintf("x%d", i))
	}
	t0 = time.Now()
	if !mk("a", func(ctx vivid.ActorContext) {
		for i := 0; i < indepHeld; i++ {
			_ = ctx.Scheduler().Once(ctx.Ref(), 300*time.Millisecond, fire{1}, vivid.WithSchedulerReference(fmt.Sprintf("x%d", i)))
		}
	}) {
		return res, false
	}
	if !mk("b", func(ctx vivid.ActorContext) {
		_ = ctx.Scheduler().Once(ctx.Ref(), 600*time.Millisecond, fire{2}, vivid.WithSchedulerReference("y"))
		_ = ctx.Scheduler().Loop(ctx.Ref(), 150*time.Millisecond, fire{3}, vivid.WithSchedulerReference("l"))
	}) {
		return res, false
	}
	time.Sleep(time.Until(t0.Add(1200 * time.Millisecond)))
	held := t0.Add(1200 * time.Millisecond)
	mu.Lock()
	for _, y := range ys {
		res.onceAt = append(res.onceAt, y.Sub(t0))
	}
	res.loopN = len(ls)
	prev := t0.Add(300 * time.Millisecond)
	for _, l := range ls {
		if l.After(prev) {
			if d := l.Sub(prev); d > res.worstGap {
				res.worstGap = d
			}
			prev = l
		}
	}
	if d := held.Sub(prev); d > res.worstGap {
		res.worstGap = d
	}
	early := len(xs)
	mu.Unlock()
	g.releaseAll()
	time.Sleep(300 * time.Millisecond)
	mu.Lock()
	res.xAfter = early == 0 && len(xs) == indepHeld
	mu.Unlock()
	_, res.gap = gapDuring(t0, time.Now())
	return res, true
}

func indepCheck(o *lib.Out) {
	var last indepResult
	for attempt := 1; attempt <= 3; attempt++ {
		res, ok := indepAttempt()
		if !ok {
			o.Info["independence"] = "not judged: the scenario could not be set up"
			return
		}
		last = res
		bad := len(res.onceAt) != 1 || res.worstGap > 450*time.Millisecond
		if !bad {
			o.Info["independence"] = fmt.Sprintf("while the Tell goroutines of %d Once jobs of /a were suspended for 900 ms: /b's Once(600 ms) arrived at %v, /b's Loop(150 ms) arrived %d times with gaps up to %v; /a's messages arrived only after the release: %v (attempt %d)", indepHeld, res.onceAt, res.loopN, res.worstGap, res.xAfter, attempt)
			return
		}
		if res.gap {
			continue // the process itself was late: not evidence
		}
	}
	in := lib.L(lib.L(lib.N(15), lib.N(slotMs)), lib.L(lib.N(13), lib.S("/a"), lib.S("x")),
		lib.L(lib.N(0), lib.S("/a"), lib.S("/a"), lib.S("x"), lib.Z(300), lib.N(1)),
		lib.L(lib.N(0), lib.S("/b"), lib.S("/b"), lib.S("y"), lib.Z(600), lib.N(2)),
		lib.L(lib.N(1), lib.S("/b"), lib.S("/b"), lib.S("l"), lib.Z(150), lib.N(3)),
		lib.L(lib.N(8), lib.Z(1200)), lib.L(lib.N(14), lib.S("/a"), lib.S("x")), lib.L(lib.N(8), lib.Z(300)))
	o.Monitor("c20-once-lost:behind-a-tell-in-flight", in, fmt.Sprintf("three attempts: the Tell goroutines of 64 Once(300 ms) jobs of /a were suspended from 300 ms to 1200 ms; in that time /b's Once(600 ms) arrived %d times (at %v; expected once, at 600 ms) and /b's Loop(150 ms) arrived %d times with a gap of %v (expected every 150 ms): one job's Tell that does not return keeps the other jobs of the system from firing (they are then dropped as outdated)", len(last.onceAt), last.onceAt, last.loopN, last.worstGap))
}

// ---- job keys: quartz.NewJobKeyWithGroup / JobKey.Equals and the actor's uniqueJobKey against Timer/SchedKey.v ----

func keyCases(o *lib.Out, rnd *lib.Rand, n int) {
	pool := []string{"", "default", "/", "/a", "/a:b", "/b", "a", ":", "::", "b:c", "c", "/a::", "::b", "r", "/a/k", "Default", "default ", "/default", "s"}
	pick := func() string {
		if rnd.Chance(1, 6) {
			return string(rnd.Bytes(rnd.Intn(4)))
		}
		return pool[rnd.Intn(len(pool))]
	}
	for i := 0; i < n; i++ {
		name, group := pick(), pick()
		k := quartz.NewJobKeyWithGroup(name, group)
		o.Case("key", group == "" || group == "default", lib.L(lib.N(17), lib.S(name), lib.S(group)), lib.L(lib.S(k.Group()), lib.S(k.Name())))
		n2, g2 := pick(), pick()
		if rnd.Chance(1, 3) {
			n2 = name
		}
		if rnd.Chance(1, 3) {
			g2 = group
		}
		eq := k.Equals(quartz.NewJobKeyWithGroup(n2, g2))
		o.Case("key", eq, lib.L(lib.N(18), lib.S(name), lib.S(group), lib.S(n2), lib.S(g2)), lib.Bool(eq))
	}
	// the keys real actors get: names with ':' and "::", the name "default", the same reference on different actors
	sys := bootstrap.NewActorSystem(vivid.WithActorSystemLogger(log.NewSilentLogger()))
	if err := sys.Start(); err != nil {
		o.Info["keys"] = "not judged: " + err.Error()
		return
	}
	defer func() {
		done := make(chan struct{})
		go func() { _ = sys.Stop(); close(done) }()
		select {
		case <-done:
		case <-time.After(3 * time.Second):
		}
	}()
	if !obs.queue {
		o.Info["keys"] = fmt.Sprintf("%d NewJobKeyWithGroup / Equals cases; the keys of real actors were not compared: the go-quartz queue of the system could not be located in this build", 2*n)
		return
	}
	// the keys the code builds are read from the go-quartz queue: every (actor, reference) schedules a job that is never due
	names := []string{"a", "a:b", "b", "default", "a::b", ":", "::", "k", "a:", ":b"}
	refs := []string{"r", "c", "b:c", ":c", "::c", "b", "b::c", "default", ":", "::", ""}
	type ent struct {
		path string
		ref  vivid.ActorRef
	}
	var ents []ent
	for _, nm := range names {
		ready := make(chan string, 1)
		var e ent
		ref, err := sys.ActorOf(vivid.ActorFN(func(ctx vivid.ActorContext) {
			switch m := ctx.Message().(type) {
			case *vivid.OnLaunch:
				ready <- ctx.Ref().GetPath()
			case do:
				m.f(ctx)
				close(m.done)
			}
		}), vivid.WithActorName(nm))
		if err != nil {
			continue
		}
		e.ref = ref
		select {
		case e.path = <-ready:
			ents = append(ents, e)
		case <-time.After(opTimeout):
		}
	}
	collisions, compared := 0, 0
	for _, e := range ents {
		ref := e.ref
		for _, rf := range refs {
			before, _ := actor.XVQuartzKeys(sys)
			var err error
			d := do{f: func(ctx vivid.ActorContext) {
				opt := vivid.WithSchedulerReference(rf)
				if rf == "" { // WithSchedulerReference ignores "", WithScheduleOptions does not
					opt = vivid.WithScheduleOptions(vivid.ScheduleOptions{Location: time.Local, Reference: ""})
				}
				err = ctx.Scheduler().Once(ctx.Ref(), time.Hour, fire{0}, opt)
			}, done: make(chan struct{})}
			sys.Tell(ref, d)
			select {
			case <-d.done:
			case <-time.After(opTimeout):
				continue
			}
			after, _ := actor.XVQuartzKeys(sys)
			var fresh [][2]string
			for _, k := range after {
				if !hasKey(before, k[0], k[1]) {
					fresh = append(fresh, k)
				}
			}
			in := lib.L(lib.N(19), lib.S(e.path), lib.S(rf))
			switch {
			case err == nil && len(fresh) == 1:
				compared++
				o.Case("key", true, in, lib.L(lib.S(fresh[0][0]), lib.S(fresh[0][1])))
			case err != nil && strings.Contains(err.Error(), "job already exists"):
				collisions++
				o.Monitor("c20-key-collision", in, fmt.Sprintf("Once(1 h) by actor %s under the reference %q, which this actor had not used, was refused with %v: its job key equals the key of a job of another (actor, reference) pair (queue: %v): Cancel / Clear / termination of one of them removes the other's job", e.path, rf, err, after))
			case rf == "" && err != nil && len(fresh) == 0:
				// the empty reference is refused (go-quartz: empty key name): nothing to compare
			default:
				o.Monitor("c20-key-collision", in, fmt.Sprintf("Once(1 h) by actor %s under the fresh reference %q returned %v and added %d keys to the go-quartz queue (expected: nil and exactly one new key)", e.path, rf, err, len(fresh)))
			}
		}
	}
	o.Info["keys"] = fmt.Sprintf("%d NewJobKeyWithGroup / Equals cases over strings from %d samples (empty group, \"default\", ':' and \"::\" in both parts) + the job keys of %d real actors x %d references (names and references with ':' and \"::\", the name \"default\"), read from the go-quartz queue and compared with Timer/SchedKey.v: %d compared, %d colliding pairs of different (actor, reference)", 2*n, len(pool), len(ents), len(refs), compared, collisions)
}

func main() {
	probeObservations()
	if len(os.Args) > 1 && os.Args[1] == "child-stall" {
		childStall(false)
		return
	}
	if len(os.Args) > 1 && os.Args[1] == "child-stall-loop" {
		childStall(true)
		return
	}
	if len(os.Args) > 1 && os.Args[1] == "child-spin" {
		childSpin()
		return
	}
	f := lib.ParseFlags()
	o := lib.NewOut(f.Out)
	rnd := lib.NewRand(f.Seed)
	go watchdog()

	avail := func(b bool, what string) string {
		if b {
			return what + ": located"
		}
		return what + ": UNAVAILABLE in this build of vivid (projected out of every dump on both sides; all scenarios still run with the public-API observations)"
	}
	o.Info["internal_observations"] = avail(obs.refs, "the per-actor record of references (a map from string to *quartz.JobKey, or a []string, or a map with string keys, in the field of the context that implements vivid.Scheduler)") +
		"; " + avail(obs.queue, "the go-quartz queue (GetJobKeys of the field that implements quartz.Scheduler, at most two structs below the actor system)")
	holds := hookPresent()
	if holds {
		o.Info["hold_control"] = "the Debug line \"" + triggerLine + "\" of Scheduler.tell is present: Tell goroutines can be suspended between go-quartz's pop and the Tell"
	} else {
		o.Info["hold_control"] = "the Debug line \"" + triggerLine + "\" of Scheduler.tell was not seen: scenarios that suspend Tell goroutines are left out (long-handler and stop-sequence scenarios still run)"
	}
	scs := append(directed(), directedFlight(holds)...)
	nDirected := len(scs)
	n := 260
	if f.Tier == "thorough" {
		n = 5000
	}
	if f.N > 0 {
		n = f.N
	}
	for i := 0; i < n; i++ {
		scs = append(scs, random(rnd.Fork(), holds))
	}
	workers := 40
	outs := make([]*outcome, len(scs))
	var wg sync.WaitGroup
	next := make(chan int)
	for w := 0; w < workers; w++ {
		wg.Add(1)
		go func(w int) {
			defer wg.Done()
			time.Sleep(time.Duration(w) * 23 * time.Millisecond) // do not start all systems in the same instant
			for i := range next {
				outs[i] = runOutcome(scs[i])
			}
		}(w)
	}
	// children run beside the scenarios
	type childRes struct {
		rep *childReport
		err error
	}
	stallCh, spinCh, stallLoopCh := make(chan childRes, 1), make(chan childRes, 1), make(chan childRes, 1)
	go func() {
		var rep *childReport
		var err error
		for attempt := 0; attempt < 3; attempt++ {
			rep, err = runChild("child-stall-loop", true)
			if err == nil && rep.Valid {
				break
			}
		}
		stallLoopCh <- childRes{rep, err}
	}()
	go func() {
		var rep *childReport
		var err error
		for attempt := 0; attempt < 3; attempt++ {
			rep, err = runChild("child-stall", true)
			if err == nil && rep.Valid {
				break
			}
		}
		stallCh <- childRes{rep, err}
	}()
	for i := range scs {
		next <- i
	}
	close(next)
	wg.Wait()
	go func() { // burns a CPU: after the timed scenarios
		rep, err := runChild("child-spin", false)
		spinCh <- childRes{rep, err}
	}()

	skipped, retried := 0, 0
	for _, oc := range outs {
		if oc.attempts > 1 {
			retried++
		}
		if oc.skipped != "" {
			skipped++
			o.Stats["skipped-disturbed"]++
			continue
		}
		if oc.out != nil {
			o.Case(oc.sc.kind, oc.nontriv, oc.in, oc.out)
		}
		for _, h := range oc.hits {
			o.Monitor(h.name, oc.in, h.detail+" || scenario: "+tname(oc.sc))
		}
	}
	cronValid, cronInvalid := map[string]bool{}, map[string]bool{}
	episodes := map[string]int{}
	for _, sc := range scs {
		for _, op := range sc.ops {
			switch op.kind {
			case kCron:
				if op.cron != "" {
					if op.valid {
						cronValid[op.cron] = true
					} else {
						cronInvalid[op.cron] = true
					}
				}
			case kBlock:
				episodes["long handlers"]++
			case kHold:
				episodes["suspended Tell goroutines"]++
			case kKill, kRestart:
				if op.will != nil {
					episodes["stop sequences whose handlers call the scheduler"]++
				}
				if op.slow > 0 {
					episodes["stop sequences that wait for the child"]++
				}
			}
		}
	}
	o.Info["cron"] = fmt.Sprintf("%d distinct invalid and %d distinct valid (year 2099) expressions from the mutation corpus were passed to Cron; go-quartz's ValidateCronExpression is the oracle bit given to the model", len(cronInvalid), len(cronValid))
	o.Info["episodes"] = fmt.Sprintf("%v", episodes)
	o.Info["scenarios"] = fmt.Sprintf("%d directed + %d seeded random scenarios (1-3 actors from {a, a:b, b, x, y}, references from {r, s, c, b:c}, 12-21 slots of %d ms (delays and intervals multiples of 4 slots), Once/Loop/Cron/Cancel/Clear/Exists/kill/restart/invalid Cron/dumps), each on its own ActorSystem, %d at a time", nDirected, n, slotMs, workers)
	reasons := map[string]int{}
	for _, oc := range outs {
		for _, d := range oc.disturbed {
			switch {
			case strings.Contains(d, "canary"):
				reasons["quartz-late(canary)"]++
			case strings.Contains(d, "gap"):
				reasons["gap"]++
			case strings.Contains(d, "late"):
				reasons["op-late"]++
			default:
				reasons["op-slow"]++
			}
		}
	}
	gapMu.Lock()
	var maxGap time.Duration
	for _, g := range gaps {
		if g.to.Sub(g.from) > maxGap {
			maxGap = g.to.Sub(g.from)
		}
	}
	o.Info["gaps"] = fmt.Sprintf("%d scheduling gaps > %v measured, the largest %v; disturbed attempts by reason: %v", len(gaps), gapTol, maxGap, reasons)
	gapMu.Unlock()
	o.Info["disturbed"] = fmt.Sprintf("%d scenarios were re-run because a scheduling gap > %v or an op later than %v was measured; %d discarded after %d attempts", retried, gapTol, lateTol, skipped, maxRetries)

	// (d) the process is suspended across the instant of a Once
	st := <-stallCh
	if st.rep != nil && st.rep.Mask != obsMask() {
		st.err = fmt.Errorf("the child process located other internal observations (mask %d) than this process (mask %d)", st.rep.Mask, obsMask())
	}
	stallIn := lib.L(lib.L(lib.N(15), lib.N(slotMs), lib.N(obsMask())),
		lib.L(lib.N(0), lib.S("/a"), lib.S("/a"), lib.S("r"), lib.Z(800), lib.N(1)),
		lib.L(lib.N(9), lib.Z(2200)), lib.L(lib.N(8), lib.Z(1800)),
		lib.L(lib.N(5), lib.S("/a"), lib.S("r")), lib.L(lib.N(10), lib.L(lib.S("/a"))))
	if st.err != nil || st.rep == nil || !st.rep.Valid {
		o.Info["stall"] = fmt.Sprintf("not judged: %v %+v", st.err, st.rep)
	} else {
		rep := st.rep
		refs := make([]lib.T, len(rep.Refs))
		for i, s := range rep.Refs {
			refs[i] = lib.S(s)
		}
		jksT, keysT := lib.L(), lib.L()
		if obs.refs {
			jksT = lib.L(lib.L(lib.S("/a"), lib.LS(refs)))
		}
		if obs.queue {
			keysT = keysTerm(rep.Keys)
		}
		// (the stall scenario has no arrivals: per call (delivered dead ()) - a delivery would show as a count mismatch)
		out := lib.L(lib.L(lib.N(0), lib.N(4), lib.N(4), lib.L(lib.Bool(rep.Exists)), lib.L(jksT, keysT)),
			lib.L(lib.L(lib.NI(rep.Delivered), lib.NI(rep.Dead), lib.L())), lib.N(0))
		o.Case("stall", true, stallIn, out)
		o.Info["stall"] = fmt.Sprintf("process suspended for %d ms across the instant of Once(800 ms): delivered %d, dead-lettered %d, Exists %v, quartz queue %v %s", rep.GapMs, rep.Delivered, rep.Dead, rep.Exists, rep.Keys, rep.Why)
		if rep.Delivered+rep.Dead == 0 {
			o.Monitor("c20-once-lost:stall", stallIn, fmt.Sprintf("Once(800 ms) to self, then the process was suspended (SIGSTOP) for %d ms across the instant: after resuming the message was never delivered (observed for a further 1.8 s), Exists(reference) = %v, quartz queue = %v: quartz dropped the job as outdated (OutdatedThreshold 100 ms, RunOnceTrigger expired)", rep.GapMs, rep.Exists, rep.Keys))
		}
	}
	// the same suspension with a Loop(400 ms): firings are skipped, the phase moves (monitor only)
	sl := <-stallLoopCh
	if sl.err != nil || sl.rep == nil || !sl.rep.Valid {
		o.Info["stall_loop"] = fmt.Sprintf("not judged: %v %+v", sl.err, sl.rep)
	} else {
		rep := sl.rep
		n := rep.Delivered + rep.Dead
		want := int((rep.LiveMs - 100) / 400)
		o.Info["stall_loop"] = fmt.Sprintf("process suspended for %d ms while a Loop(400 ms) was scheduled: after %d ms %d messages told (at %v ms), one per interval would be %d", rep.GapMs, rep.LiveMs, n, rep.AtMs, want)
		if n < want-1 {
			loopIn := lib.L(lib.L(lib.N(1), lib.S("/a"), lib.S("/a"), lib.S("r"), lib.Z(400), lib.N(1)), lib.L(lib.N(9), lib.Z(2200)), lib.L(lib.N(8), lib.Z(1800)))
			o.Monitor("c20-loop-lost:stall", loopIn, fmt.Sprintf("Loop(400 ms) to self, then the process was suspended (SIGSTOP) for %d ms: %d ms after the call only %d messages had been told (at %v ms after the call) instead of one per interval (%d): quartz skips the firings that are more than OutdatedThreshold = 100 ms late and continues at (now + interval)", rep.GapMs, rep.LiveMs, n, rep.AtMs, want))
		}
	}
	// Loop with a negative interval starves every other job of the system
	sp := <-spinCh
	if sp.err != nil || sp.rep == nil || !sp.rep.Valid {
		o.Info["spin"] = fmt.Sprintf("not judged: %v %+v", sp.err, sp.rep)
	} else {
		o.Info["spin"] = fmt.Sprintf("Loop(-1 s) on /a, Once(300 ms) on /b, 1.5 s: loop deliveries %d, the Once delivered %d times, CPU time %d ms", sp.rep.LoopCount, sp.rep.Delivered, sp.rep.CPUms)
		if sp.rep.Delivered != 1 {
			spinIn := lib.L(lib.L(lib.N(1), lib.S("/a"), lib.S("/a"), lib.S("l"), lib.Z(-1000), lib.N(1)), lib.L(lib.N(8), lib.Z(0)),
				lib.L(lib.N(0), lib.S("/b"), lib.S("/b"), lib.S("o"), lib.Z(300), lib.N(2)), lib.L(lib.N(8), lib.Z(1500)))
			o.Monitor("c20-once-lost:spin", spinIn, fmt.Sprintf("Loop with interval -1 s on /a; Once(300 ms) on /b returned nil and was delivered %d times within 1.5 s (loop deliveries %d); the process used %d ms of CPU: the quartz loop spins on the outdated SimpleTrigger and every other job becomes outdated behind it", sp.rep.Delivered, sp.rep.LoopCount, sp.rep.CPUms))
		}
	}
	nk := 400
	if f.Tier == "thorough" {
		nk = 4000
	}
	keyCases(o, rnd.Fork(), nk)
	if holds {
		indepCheck(o)
	}
	trials := 60
	if f.Tier == "thorough" {
		trials = 600
	}
	after, ran := raceProbe(trials)
	o.Info["cancel_race"] = fmt.Sprintf("(e) Loop(3 ms) cancelled inside the handler of its first firing: in %d of %d trials a further firing was handled after Cancel had returned nil (the Tell is done by a goroutine quartz starts at the firing instant; statistics only)", after, ran)

	o.Close(f.Report)
	if len(o.Monitors) > 0 {
		os.Exit(3)
	}
}
