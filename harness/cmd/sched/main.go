// sched: correspondence cases and implementation-side monitors for C20 (ctx.Scheduler(): Once / Loop / Cron /
// Cancel / Clear / Exists, cleanup on termination and restart) on REAL actor systems, the real go-quartz
// scheduler and REAL time.
//
// One case = one scenario: a list of ops with nominal times on a 150 ms slot grid, run on its own ActorSystem.
// Scheduling calls happen on even slots in one of two lanes (t = 0 or 300 mod 600 ms) with delays and intervals
// that are multiples of 600 ms, so every ideal firing instant lies on an even slot; everything that is sensitive
// to firings (Cancel, Clear, Exists, dumps, kill, restart, the final observation) happens on odd slots, 150 ms
// away from every firing instant; a key (path, reference) is scheduled at most twice, the second time in the
// other lane (300 ms away from the first job's instants). With these margins the exact delivery counts of the
// model (prompt quartz loop) are the counts of the implementation unless the run is disturbed by more than the
// margins. Three measurements decide that: a watchdog goroutine (scheduling gaps of the process > 60 ms), the
// lateness of every op (> 50 ms), and a canary - a 30 ms Loop of the harness's own in the SAME quartz scheduler,
// whose arrivals must never be more than 75 ms apart (the quartz loop takes jobs in the order of their run
// times, so the canary bounds the lateness of every tested firing). A disturbed scenario is discarded and
// re-run (never judged).
//
// Calls are made INSIDE handlers of scripted actors (a closure sent as a message), so jobKeys is only touched by
// its owner's goroutine. Observed: every call's return value, Exists, dumps of every actor's jobKeys (accessor)
// and of the quartz queue (accessor), and per successful scheduling call the number of deliveries and of dead
// letters. Monitors evaluate the property on what the real code did with real timestamps (never early, never
// after a removal by the owner, never twice, payload / receiver / sender, invalid cron schedules nothing, a valid
// call refused without a live job under the reference, lost jobs).
// Two child processes are suspended with SIGSTOP across a firing instant (quartz's misfire rule: known finding),
// a third one schedules a Loop with a negative interval next to a Once (the quartz loop must not spin).
package main

import (
	"bufio"
	"encoding/json"
	"errors"
	"fmt"
	"os"
	"os/exec"
	"sort"
	"strings"
	"sync"
	"syscall"
	"time"

	"github.com/kercylan98/vivid"
	"github.com/kercylan98/vivid/internal/actor"
	"github.com/kercylan98/vivid/pkg/bootstrap"
	"github.com/kercylan98/vivid/pkg/log"
	"github.com/kercylan98/vivid/pkg/ves"
	"github.com/kercylan98/vivid/xverif/lib"
)

const (
	slotMs     = 150                   // slot grid
	grace      = 50 * time.Millisecond // a Tell already in flight at a removal may still arrive this much later
	lateTol    = 50 * time.Millisecond // an op finishing later than this after its nominal time: scenario disturbed
	gapTol     = 60 * time.Millisecond // a scheduling gap larger than this during a scenario: disturbed (lateTol + gapTol < slot)
	opTimeout  = 5 * time.Second
	validCron  = "0 0 0 1 1 ? 2099"
	maxRetries = 3
)

const (
	kOnce = iota
	kLoop
	kCron
	kCancel
	kClear
	kExists
	kKill
	kRestart
	kDump
)

type sop struct {
	t       int // nominal time, ms from scenario start
	kind    int
	actor   int
	recv    int
	ref     string
	d       int // delay / interval in ms
	valid   bool
	payload uint64
}

type scenario struct {
	kind   string
	actors []string // names; path = "/" + name
	ops    []sop
	end    int // nominal time of the final observation
}

func path(name string) string { return "/" + name }

// ---- messages ----

type do struct {
	f    func(ctx vivid.ActorContext)
	done chan struct{}
}
type boom struct{}
type fire struct{ p uint64 }

type delivery struct {
	p      uint64
	at     time.Time
	recv   string // path of the actor that handled it / that the dead letter was addressed to
	sender string
	dead   bool
}

// one scheduling call that reached scheduleJob
type call struct {
	idx        int // index among the scheduling calls = the model's call number
	op         sop
	start, end time.Time
	removedAt  time.Time // completion of the first later Cancel(ref) / Clear / kill / restart of its owner
	removedBy  string
}

type srun struct {
	sc        scenario
	sys       vivid.ActorSystem
	asys      *actor.System
	refs      []vivid.ActorRef
	actors    []*sactor
	mu        sync.Mutex
	delivs    []delivery
	weird     []string
	closed    bool
	t0        time.Time
	calls     []*call
	results   []lib.T
	disturbed string
	stuck     string
	canary    *canary
	deathAt   []time.Time // completion of kill per actor
	cronBad   []string    // violations seen around invalid Cron calls
	unkCancel []string
	rejected  []string
}

type sactor struct {
	r        *srun
	idx      int
	ctx      vivid.ActorContext
	launches chan struct{}
	killed   chan struct{}
}

func (a *sactor) OnReceive(ctx vivid.ActorContext) {
	switch m := ctx.Message().(type) {
	case *vivid.OnLaunch:
		a.ctx = ctx
		select {
		case a.launches <- struct{}{}:
		default:
		}
	case *vivid.OnKilled:
		if m.Ref != nil && m.Ref.Equals(ctx.Ref()) {
			select {
			case a.killed <- struct{}{}:
			default:
			}
		}
	case do:
		m.f(ctx)
		close(m.done)
	case boom:
		panic("c20 scripted failure")
	case fire:
		now := time.Now()
		s := ""
		if ctx.Sender() != nil {
			s = ctx.Sender().GetPath()
		}
		a.r.mu.Lock()
		if !a.r.closed {
			a.r.delivs = append(a.r.delivs, delivery{p: m.p, at: now, recv: ctx.Ref().GetPath(), sender: s})
		}
		a.r.mu.Unlock()
	case *actor.SchedulerMessage:
		a.r.mu.Lock()
		a.r.weird = append(a.r.weird, fmt.Sprintf("behaviour of %s saw the wrapper *SchedulerMessage{Reference:%q Message:%v}", ctx.Ref().GetPath(), m.Reference, m.Message))
		a.r.mu.Unlock()
	}
}

func (r *srun) deadLetters(ctx vivid.ActorContext) {
	switch m := ctx.Message().(type) {
	case *vivid.OnLaunch:
		ctx.EventStream().Subscribe(ctx, ves.DeathLetterEvent{})
	case ves.DeathLetterEvent:
		now := time.Now()
		var f fire
		ok := false
		switch x := m.Envelope.Message().(type) {
		case *actor.SchedulerMessage:
			f, ok = x.Message.(fire)
		case fire:
			f, ok = x, true
		}
		if !ok {
			return
		}
		recv, s := "", ""
		if m.Envelope.Receiver() != nil {
			recv = m.Envelope.Receiver().GetPath()
		}
		if m.Envelope.Sender() != nil {
			s = m.Envelope.Sender().GetPath()
		}
		r.mu.Lock()
		if !r.closed {
			r.delivs = append(r.delivs, delivery{p: f.p, at: now, recv: recv, sender: s, dead: true})
		}
		r.mu.Unlock()
	}
}

// ---- canary: a 30 ms Loop of the harness's own in the SAME quartz scheduler ----
// The quartz loop takes jobs in the order of their run times: a tested job due at T has been taken when the
// first canary firing due at or after T arrives. Canary arrivals never more than canaryTol apart therefore
// bound the lateness of every tested firing by canaryTol.

type canaryTick struct{}

type canary struct {
	mu       sync.Mutex
	arrivals []time.Time
	started  chan struct{}
}

const (
	canaryEvery = 30 * time.Millisecond
	canaryTol   = 75 * time.Millisecond
)

func (c *canary) OnReceive(ctx vivid.ActorContext) {
	switch ctx.Message().(type) {
	case *vivid.OnLaunch:
		_ = ctx.Scheduler().Loop(ctx.Ref(), canaryEvery, canaryTick{}, vivid.WithSchedulerReference("canary"))
	case canaryTick:
		now := time.Now()
		c.mu.Lock()
		c.arrivals = append(c.arrivals, now)
		n := len(c.arrivals)
		c.mu.Unlock()
		if n == 1 {
			close(c.started)
		}
	}
}

// worst gap between consecutive canary arrivals in [from, to] (including the edges)
func (c *canary) worstGap(from, to time.Time) time.Duration {
	c.mu.Lock()
	defer c.mu.Unlock()
	worst := time.Duration(0)
	prev := from
	seen := false
	for _, a := range c.arrivals {
		if a.Before(from) {
			prev = a
			seen = true
			continue
		}
		if a.After(to) {
			break
		}
		if seen || a.Sub(prev) > 0 {
			if g := a.Sub(prev); g > worst {
				worst = g
			}
		}
		prev = a
		seen = true
	}
	if g := to.Sub(prev); g > worst {
		worst = g
	}
	return worst
}

// ---- watchdog: scheduling gaps of this process ----

type gap struct {
	from, to time.Time
}

var (
	gapMu sync.Mutex
	gaps  []gap
)

func watchdog() {
	last := time.Now()
	for {
		time.Sleep(2 * time.Millisecond)
		now := time.Now()
		if now.Sub(last) > gapTol {
			gapMu.Lock()
			gaps = append(gaps, gap{last, now})
			gapMu.Unlock()
		}
		last = now
	}
}

func gapDuring(from, to time.Time) (time.Duration, bool) {
	gapMu.Lock()
	defer gapMu.Unlock()
	for _, g := range gaps {
		if g.to.After(from) && g.from.Before(to) {
			return g.to.Sub(g.from), true
		}
	}
	return 0, false
}

// ---- running one scenario ----

func (r *srun) in(i int, f func(ctx vivid.ActorContext)) bool {
	d := do{f, make(chan struct{})}
	r.sys.Tell(r.refs[i], d)
	select {
	case <-d.done:
		return true
	case <-time.After(opTimeout):
		r.stuck = fmt.Sprintf("actor %s did not run a closure within %v", path(r.sc.actors[i]), opTimeout)
		return false
	}
}

func errCode(err error) uint64 {
	switch {
	case err == nil:
		return 0
	case errors.Is(err, vivid.ErrorCronParse):
		return 2
	case errors.Is(err, vivid.ErrorNotFound):
		return 1
	case errors.Is(err, vivid.ErrorIllegalArgument):
		return 7
	case strings.Contains(err.Error(), "job not found"):
		return 3
	case strings.Contains(err.Error(), "job already exists"):
		return 8
	case strings.Contains(err.Error(), "empty key name"):
		return 9
	}
	return 99
}

func (r *srun) dump() lib.T {
	jks := make([]lib.T, len(r.sc.actors))
	for i, name := range r.sc.actors {
		var refs []string
		a := r.actors[i]
		if !r.deathAt[i].IsZero() {
			refs = actor.XVSchedRefs(a.ctx) // the actor's goroutine is gone
		} else {
			r.in(i, func(ctx vivid.ActorContext) { refs = actor.XVSchedRefs(ctx) })
		}
		xs := make([]lib.T, len(refs))
		for j, s := range refs {
			xs[j] = lib.S(s)
		}
		jks[i] = lib.L(lib.S(path(name)), lib.LS(xs))
	}
	return lib.L(lib.LS(jks), keysTerm(quartzKeys(r.asys)))
}

const canaryName = "c20-canary"

// quartzKeys: (group, name) of the queued jobs, without the harness's own canary job
func quartzKeys(s *actor.System) [][2]string {
	var out [][2]string
	for _, k := range actor.XVQuartzKeys(s) {
		if k[0] != path(canaryName) {
			out = append(out, k)
		}
	}
	return out
}

func keysTerm(keys [][2]string) lib.T {
	ks := make([]lib.T, len(keys))
	for j, k := range keys {
		ks[j] = lib.L(lib.S(k[0]), lib.S(k[1]))
	}
	return lib.LS(ks)
}

func hasKey(keys [][2]string, group, name string) bool {
	for _, k := range keys {
		if k[0] == group && k[1] == name {
			return true
		}
	}
	return false
}

func (r *srun) markRemoved(owner int, ref string, all bool, at time.Time, by string) {
	for _, c := range r.calls {
		if c.op.actor == owner && c.removedAt.IsZero() && (all || c.op.ref == ref) {
			c.removedAt = at
			c.removedBy = by
		}
	}
}

func (r *srun) exec(o sop) {
	want := r.t0.Add(time.Duration(o.t) * time.Millisecond)
	if d := time.Until(want); d > 0 {
		time.Sleep(d)
	}
	started := time.Now()
	switch o.kind {
	case kOnce, kLoop, kCron:
		var err error
		var c *call
		if o.kind != kCron || o.valid {
			c = &call{idx: len(r.calls), op: o}
		}
		recv := r.refs[o.recv]
		ok := r.in(o.actor, func(ctx vivid.ActorContext) {
			s := ctx.Scheduler()
			opt := vivid.WithSchedulerReference(o.ref)
			if o.ref == "" { // WithSchedulerReference ignores "", WithScheduleOptions does not
				opt = vivid.WithScheduleOptions(vivid.ScheduleOptions{Location: time.Local, Reference: ""})
			}
			msg := fire{o.payload}
			st := time.Now()
			switch o.kind {
			case kOnce:
				err = s.Once(recv, time.Duration(o.d)*time.Millisecond, msg, opt)
			case kLoop:
				err = s.Loop(recv, time.Duration(o.d)*time.Millisecond, msg, opt)
			case kCron:
				if o.valid {
					err = s.Cron(recv, validCron, msg, opt)
				} else {
					before := s.Exists(o.ref)
					keysBefore := quartzKeys(r.asys)
					err = s.Cron(recv, []string{"bad cron", "61 * * * * ?", "* * * *", "0 0 0 32 1 ? 2099"}[int(o.payload)%4], msg, opt)
					if err == nil {
						r.cronBad = append(r.cronBad, fmt.Sprintf("Cron with an invalid expression returned nil (actor %s reference %q)", ctx.Ref().GetPath(), o.ref))
					}
					if !before && s.Exists(o.ref) {
						r.cronBad = append(r.cronBad, fmt.Sprintf("after the rejected Cron call Exists(%q) is true on %s", o.ref, ctx.Ref().GetPath()))
					}
					if !hasKey(keysBefore, ctx.Ref().GetPath(), o.ref) && hasKey(quartzKeys(r.asys), ctx.Ref().GetPath(), o.ref) {
						r.cronBad = append(r.cronBad, fmt.Sprintf("after the rejected Cron call the quartz queue holds (%q, %q)", ctx.Ref().GetPath(), o.ref))
					}
				}
			}
			if c != nil {
				c.start, c.end = st, time.Now()
			}
		})
		if !ok {
			return
		}
		if c != nil && err == nil { // only a call that returned nil is a scheduled job (and is numbered by the model)
			r.calls = append(r.calls, c)
		}
		if c != nil && err != nil && o.ref != "" && !(o.kind == kOnce && o.d < 0) && !(o.kind == kLoop && o.d <= 0) {
			// valid arguments: the only legitimate refusal is a job of this actor that is still queued under this reference
			live := false
			for _, p := range r.calls {
				if p.op.actor != o.actor || p.op.ref != o.ref || !p.removedAt.IsZero() {
					continue
				}
				if p.op.kind != kOnce || time.Now().Before(p.end.Add(time.Duration(p.op.d)*time.Millisecond+grace)) {
					live = true
				}
			}
			if !live {
				r.rejected = append(r.rejected, fmt.Sprintf("%s returned %v although this actor has no job queued under that reference", describe(r.sc, o), err))
			}
		}
		r.results = append(r.results, lib.N(errCode(err)))
	case kCancel:
		var err error
		known := false
		for _, c := range r.calls {
			if c.op.actor == o.actor && c.op.ref == o.ref {
				known = true
			}
		}
		if !r.in(o.actor, func(ctx vivid.ActorContext) { err = ctx.Scheduler().Cancel(o.ref) }) {
			return
		}
		code := errCode(err)
		if !known && code != 1 {
			r.unkCancel = append(r.unkCancel, fmt.Sprintf("Cancel(%q) on %s, a reference this actor never scheduled, returned %v", o.ref, path(r.sc.actors[o.actor]), err))
		}
		if code == 0 || code == 3 {
			r.markRemoved(o.actor, o.ref, false, time.Now(), fmt.Sprintf("Cancel(%q) at %d ms", o.ref, o.t))
		}
		r.results = append(r.results, lib.N(code))
	case kClear:
		if !r.in(o.actor, func(ctx vivid.ActorContext) { ctx.Scheduler().Clear() }) {
			return
		}
		r.markRemoved(o.actor, "", true, time.Now(), fmt.Sprintf("Clear at %d ms", o.t))
		r.results = append(r.results, lib.N(4))
	case kExists:
		var b bool
		if !r.in(o.actor, func(ctx vivid.ActorContext) { b = ctx.Scheduler().Exists(o.ref) }) {
			return
		}
		r.results = append(r.results, lib.L(lib.Bool(b)))
	case kKill:
		r.sys.Kill(r.refs[o.actor], false, "c20")
		select {
		case <-r.actors[o.actor].killed:
		case <-time.After(opTimeout):
			r.stuck = fmt.Sprintf("actor %s did not terminate within %v after Kill", path(r.sc.actors[o.actor]), opTimeout)
			return
		}
		time.Sleep(10 * time.Millisecond) // cleanupScheduler runs right after the OnKilled behaviour, in the same handler
		now := time.Now()
		r.deathAt[o.actor] = now
		r.markRemoved(o.actor, "", true, now, fmt.Sprintf("termination at %d ms", o.t))
		r.results = append(r.results, lib.N(4))
	case kRestart:
		a := r.actors[o.actor]
		select {
		case <-a.launches:
		default:
		}
		r.sys.Tell(r.refs[o.actor], boom{})
		select {
		case <-a.launches:
		case <-time.After(opTimeout):
			r.stuck = fmt.Sprintf("actor %s was not restarted within %v after its handler panicked", path(r.sc.actors[o.actor]), opTimeout)
			return
		}
		time.Sleep(5 * time.Millisecond)
		r.markRemoved(o.actor, "", true, time.Now(), fmt.Sprintf("restart at %d ms", o.t))
		r.results = append(r.results, lib.N(4))
	case kDump:
		r.results = append(r.results, r.dump())
	}
	tol := lateTol
	if o.kind == kKill || o.kind == kRestart {
		tol += 15 * time.Millisecond // these wait for the lifecycle to complete and then sleep 5-10 ms
	}
	if late := time.Since(want); late > tol && r.disturbed == "" {
		r.disturbed = fmt.Sprintf("op at %d ms finished %v late (started %v late)", o.t, late, started.Sub(want))
	}
}

// model input: the ops with the clock steps between them
func (sc scenario) term() (lib.T, int) {
	var xs []lib.T
	cur := 0
	ticks := 0
	tick := func(to int) {
		if to > cur {
			xs = append(xs, lib.L(lib.N(8), lib.Z(int64(to-cur))))
			cur = to
			ticks++
		}
	}
	for _, o := range sc.ops {
		tick(o.t)
		a := lib.S(path(sc.actors[o.actor]))
		switch o.kind {
		case kOnce:
			xs = append(xs, lib.L(lib.N(0), a, lib.S(path(sc.actors[o.recv])), lib.S(o.ref), lib.Z(int64(o.d)), lib.N(o.payload)))
		case kLoop:
			xs = append(xs, lib.L(lib.N(1), a, lib.S(path(sc.actors[o.recv])), lib.S(o.ref), lib.Z(int64(o.d)), lib.N(o.payload)))
		case kCron:
			xs = append(xs, lib.L(lib.N(2), a, lib.S(path(sc.actors[o.recv])), lib.S(o.ref), lib.Bool(o.valid), lib.N(o.payload)))
		case kCancel:
			xs = append(xs, lib.L(lib.N(3), a, lib.S(o.ref)))
		case kClear:
			xs = append(xs, lib.L(lib.N(4), a))
		case kExists:
			xs = append(xs, lib.L(lib.N(5), a, lib.S(o.ref)))
		case kKill:
			xs = append(xs, lib.L(lib.N(6), a))
		case kRestart:
			xs = append(xs, lib.L(lib.N(7), a))
		case kDump:
			as := make([]lib.T, len(sc.actors))
			for i, n := range sc.actors {
				as[i] = lib.S(path(n))
			}
			xs = append(xs, lib.L(lib.N(10), lib.LS(as)))
		}
	}
	return lib.LS(xs), ticks
}

type hit struct{ name, detail string }

type outcome struct {
	sc        scenario
	in        lib.T
	out       lib.T
	nontriv   bool
	hits      []hit
	skipped   string // disturbed on every attempt
	attempts  int
	disturbed []string
}

func runScenario(sc scenario) (*srun, bool) {
	r := &srun{sc: sc, deathAt: make([]time.Time, len(sc.actors))}
	dm := vivid.SupervisionStrategyDecisionMakerFN(func(ctx vivid.SupervisionContext) (vivid.SupervisionDecision, string) {
		return vivid.SupervisionDecisionRestart, "c20"
	})
	sys := bootstrap.NewActorSystem(vivid.WithActorSystemLogger(log.NewSilentLogger()), vivid.WithActorSystemSupervisionStrategy(vivid.OneForOneStrategy(dm)))
	if err := sys.Start(); err != nil {
		r.stuck = "system start: " + err.Error()
		return r, false
	}
	r.sys = sys
	r.asys = sys.(*actor.System)
	defer func() {
		r.mu.Lock()
		r.closed = true
		r.mu.Unlock()
		done := make(chan struct{})
		go func() { _ = sys.Stop(); close(done) }()
		select {
		case <-done:
		case <-time.After(5 * time.Second):
		}
	}()
	if _, err := sys.ActorOf(vivid.ActorFN(r.deadLetters), vivid.WithActorName("c20-dead-letters")); err != nil {
		r.stuck = "dead-letter listener: " + err.Error()
		return r, false
	}
	for i, name := range sc.actors {
		a := &sactor{r: r, idx: i, launches: make(chan struct{}, 1), killed: make(chan struct{}, 1)}
		ref, err := sys.ActorOf(a, vivid.WithActorName(name))
		if err != nil {
			r.stuck = fmt.Sprintf("spawn %q: %v", name, err)
			return r, false
		}
		select {
		case <-a.launches:
		case <-time.After(opTimeout):
			r.stuck = fmt.Sprintf("actor %q was not launched", name)
			return r, false
		}
		r.refs = append(r.refs, ref)
		r.actors = append(r.actors, a)
	}
	r.canary = &canary{started: make(chan struct{})}
	if _, err := sys.ActorOf(r.canary, vivid.WithActorName(canaryName)); err != nil {
		r.stuck = "canary: " + err.Error()
		return r, false
	}
	select {
	case <-r.canary.started:
	case <-time.After(opTimeout):
		r.stuck = "the canary Loop never fired"
		return r, false
	}
	r.t0 = time.Now()
	for _, o := range sc.ops {
		r.exec(o)
		if r.stuck != "" {
			return r, false
		}
	}
	time.Sleep(canaryEvery) // one more canary period, so that the last slot is covered as well
	endAt := time.Now()
	if g, ok := gapDuring(r.t0, endAt); ok && r.disturbed == "" {
		r.disturbed = fmt.Sprintf("a scheduling gap of %v was measured during the scenario", g)
	}
	if g := r.canary.worstGap(r.t0, endAt); g > canaryTol && r.disturbed == "" {
		r.disturbed = fmt.Sprintf("the quartz loop was late: canary arrivals (every %v) %v apart", canaryEvery, g)
	}
	r.mu.Lock()
	r.closed = true
	r.mu.Unlock()
	return r, true
}

func keyOf(sc scenario, o sop) string { return path(sc.actors[o.actor]) + ":" + o.ref }

// class of a lost job: which examined weakness the scenario contains for this call
func (r *srun) classify(c *call) string {
	k := keyOf(r.sc, c.op)
	for _, o := range r.sc.ops {
		if o.kind > kCancel || o.actor == c.op.actor {
			continue
		}
		if keyOf(r.sc, o) == k {
			return "collision"
		}
	}
	for _, d := range r.calls {
		if d.idx < c.idx && d.op.actor == c.op.actor && d.op.ref == c.op.ref {
			return "reuse"
		}
	}
	if c.op.d < 0 {
		return "negative-delay"
	}
	return "other"
}

func (r *srun) judge(observedAt time.Time) []hit {
	var hits []hit
	add := func(n, d string) { hits = append(hits, hit{n, d}) }
	byP := map[uint64]*call{}
	for _, c := range r.calls {
		byP[c.op.payload] = c
	}
	per := map[uint64][]delivery{}
	for _, d := range r.delivs {
		per[d.p] = append(per[d.p], d)
	}
	for _, w := range r.weird {
		add("c20-payload", w)
	}
	for _, s := range r.cronBad {
		add("c20-cron-invalid", s)
	}
	for _, s := range r.unkCancel {
		add("c20-cancel-unknown", s)
	}
	for _, s := range r.rejected {
		add("c20-schedule-rejected", s)
	}
	for p, ds := range per {
		c := byP[p]
		if c == nil {
			add("c20-payload", fmt.Sprintf("a message with payload %d was delivered but never scheduled", p))
			continue
		}
		sort.Slice(ds, func(i, j int) bool { return ds[i].at.Before(ds[j].at) })
		wantRecv, wantSender := path(r.sc.actors[c.op.recv]), path(r.sc.actors[c.op.actor])
		ms := time.Millisecond
		for k, d := range ds {
			if d.recv != wantRecv {
				add("c20-payload", fmt.Sprintf("payload %d scheduled for %s arrived at %s", p, wantRecv, d.recv))
			}
			if d.sender != wantSender {
				add("c20-payload", fmt.Sprintf("payload %d scheduled by %s arrived with sender %q", p, wantSender, d.sender))
			}
			// never early: the k-th Tell of a Loop not before start + k*i, a Once not before start + d (quartz computes the
			// instant on the wall clock, the harness measures on the monotonic clock: 5 ms for slewing between the two)
			var earliest time.Time
			switch c.op.kind {
			case kOnce:
				earliest = c.start.Add(time.Duration(c.op.d) * ms)
			case kLoop:
				earliest = c.start.Add(time.Duration(k+1) * time.Duration(c.op.d) * ms)
			}
			if c.op.kind != kCron && d.at.Before(earliest.Add(-5*ms)) {
				add("c20-early", fmt.Sprintf("call #%d (%s): Tell number %d observed %v after the call began, due not before %v", c.idx, describe(r.sc, c.op), k+1, d.at.Sub(c.start), earliest.Sub(c.start)))
			}
			if c.op.kind == kCron {
				add("c20-cron-fired", fmt.Sprintf("call #%d: the cron job for year 2099 fired", c.idx))
			}
			if !c.removedAt.IsZero() && d.at.After(c.removedAt.Add(grace)) {
				what := "delivered"
				if d.dead {
					what = "dead-lettered"
				}
				name := "c20-after-removal"
				if strings.HasPrefix(c.removedBy, "termination") {
					name = "c20-after-death"
				}
				add(name, fmt.Sprintf("call #%d (%s) was removed by %s, but its message was %s %v after that removal completed", c.idx, describe(r.sc, c.op), c.removedBy, what, d.at.Sub(c.removedAt)))
			}
			if d.dead && r.deathAt[c.op.recv].IsZero() {
				add("c20-dead-letter-to-live", fmt.Sprintf("call #%d (%s): dead letter although the receiver never terminated", c.idx, describe(r.sc, c.op)))
			}
		}
		if c.op.kind == kOnce && len(ds) > 1 {
			add("c20-once-twice", fmt.Sprintf("call #%d (%s) was told %d times", c.idx, describe(r.sc, c.op), len(ds)))
		}
	}
	// lost jobs: not removed by the owner, owner alive, observed long enough - and nothing (or too little) was told
	for _, c := range r.calls {
		until := observedAt
		if !c.removedAt.IsZero() {
			until = c.removedAt
		}
		n := len(per[c.op.payload])
		ms := time.Millisecond
		switch c.op.kind {
		case kOnce:
			due := c.end.Add(time.Duration(c.op.d) * ms)
			if c.op.d < 0 {
				due = c.end
			}
			if until.After(due.Add(grace+lateTol)) && n == 0 {
				add("c20-once-lost:"+r.classify(c), fmt.Sprintf("call #%d (%s) returned nil, was not cancelled or cleared by its owner before its instant, the owner is alive - and the message was neither delivered nor dead-lettered (observed until %v after the call)", c.idx, describe(r.sc, c.op), until.Sub(c.end)))
			}
		case kLoop:
			if c.op.d <= 0 {
				continue
			}
			iv := time.Duration(c.op.d) * ms
			lower := int((until.Sub(c.end) - grace - lateTol) / iv)
			upper := int((until.Sub(c.start) + grace) / iv)
			if lower > 0 && n < lower {
				add("c20-loop-lost:"+r.classify(c), fmt.Sprintf("call #%d (%s) was live for %v but told only %d messages (at least %d intervals passed)", c.idx, describe(r.sc, c.op), until.Sub(c.end), n, lower))
			}
			if n > upper+1 {
				add("c20-loop-extra", fmt.Sprintf("call #%d (%s) told %d messages in %v", c.idx, describe(r.sc, c.op), n, until.Sub(c.start)))
			}
		}
	}
	return hits
}

func describe(sc scenario, o sop) string {
	k := []string{"Once", "Loop", "Cron"}[o.kind]
	return fmt.Sprintf("%s by %s to %s reference %q %d ms payload %d at %d ms", k, path(sc.actors[o.actor]), path(sc.actors[o.recv]), o.ref, o.d, o.payload, o.t)
}

func runOutcome(sc scenario) *outcome {
	in, _ := sc.term()
	oc := &outcome{sc: sc, in: in}
	for attempt := 1; attempt <= maxRetries; attempt++ {
		oc.attempts = attempt
		r, ok := runScenario(sc)
		if !ok {
			oc.hits = []hit{{"c20-op-timeout", r.stuck}}
			return oc
		}
		if r.disturbed != "" {
			oc.disturbed = append(oc.disturbed, r.disturbed)
			continue
		}
		// results: the model answers every op, clock steps included (RUnit = 4)
		var res []lib.T
		cur, ri := 0, 0
		for _, o := range sc.ops {
			if o.t > cur {
				res = append(res, lib.N(4))
				cur = o.t
			}
			res = append(res, r.results[ri])
			ri++
		}
		per := map[uint64][2]uint64{}
		for _, d := range r.delivs {
			x := per[d.p]
			if d.dead {
				x[1]++
			} else {
				x[0]++
			}
			per[d.p] = x
		}
		counts := make([]lib.T, len(r.calls))
		fired := false
		for i, c := range r.calls {
			x := per[c.op.payload]
			counts[i] = lib.L(lib.N(x[0]), lib.N(x[1]))
			fired = fired || x[0]+x[1] > 0
		}
		removal := false
		for _, o := range sc.ops {
			if o.kind == kCancel || o.kind == kClear || o.kind == kKill || o.kind == kRestart {
				removal = true
			}
		}
		oc.out = lib.L(lib.LS(res), lib.LS(counts))
		oc.nontriv = fired && removal
		oc.hits = r.judge(r.t0.Add(time.Duration(sc.end) * time.Millisecond))
		return oc
	}
	oc.skipped = strings.Join(oc.disturbed, "; ")
	return oc
}

// ---- scenarios ----

// times and delays are given in grid units: 100 units = one slot
type builder struct {
	sc    scenario
	next  uint64
	scale int
}

func newBuilder(kind string, actors ...string) *builder {
	return &builder{sc: scenario{kind: kind, actors: actors}, next: 1, scale: slotMs}
}
func (b *builder) ms(units int) int { return units * b.scale / 100 }
func (b *builder) idx(name string) int {
	for i, n := range b.sc.actors {
		if n == name {
			return i
		}
	}
	panic("unknown actor " + name)
}
func (b *builder) sched(t, kind int, owner, recv, ref string, d int) *builder {
	b.sc.ops = append(b.sc.ops, sop{t: b.ms(t), kind: kind, actor: b.idx(owner), recv: b.idx(recv), ref: ref, d: b.ms(d), valid: true, payload: b.next})
	b.next++
	return b
}
func (b *builder) badCron(t int, owner, ref string) *builder {
	b.sc.ops = append(b.sc.ops, sop{t: b.ms(t), kind: kCron, actor: b.idx(owner), recv: b.idx(owner), ref: ref, valid: false, payload: b.next})
	b.next++
	return b
}
func (b *builder) op(t, kind int, owner, ref string) *builder {
	b.sc.ops = append(b.sc.ops, sop{t: b.ms(t), kind: kind, actor: b.idx(owner), ref: ref})
	return b
}
func (b *builder) done(end int) scenario {
	b.sc.ops = append(b.sc.ops, sop{t: b.ms(end), kind: kDump})
	b.sc.end = b.ms(end)
	return b.sc
}

func directed() []scenario {
	var out []scenario
	// basic: Once, Loop, cancel, exists, unknown cancel
	out = append(out, newBuilder("directed", "a").
		sched(0, kOnce, "a", "a", "o", 400).sched(0, kLoop, "a", "a", "l", 400).sched(0, kOnce, "a", "a", "z", 0).
		op(100, kExists, "a", "o").op(100, kCancel, "a", "nope").op(100, kDump, "a", "").
		op(500, kExists, "a", "o").op(500, kDump, "a", "").
		op(1300, kCancel, "a", "l").op(1300, kExists, "a", "l").done(2100))
	// a fired Once stays in jobKeys: Exists true, Cancel answers quartz's error, then not-found
	out = append(out, newBuilder("directed", "a").
		sched(0, kOnce, "a", "a", "o", 400).op(700, kExists, "a", "o").op(700, kCancel, "a", "o").op(700, kCancel, "a", "o").done(900))
	// cancelled before its instant
	out = append(out, newBuilder("directed", "a").
		sched(0, kOnce, "a", "a", "o", 400).sched(0, kOnce, "a", "a", "p", 800).op(300, kCancel, "a", "o").op(700, kClear, "a", "").done(1300))
	// (b) a live reference used again
	out = append(out, newBuilder("directed", "a").
		sched(0, kLoop, "a", "a", "r", 400).sched(200, kOnce, "a", "a", "r", 400).op(1100, kCancel, "a", "r").op(1100, kDump, "a", "").done(1700))
	out = append(out, newBuilder("directed", "a").
		sched(0, kOnce, "a", "a", "r", 800).sched(200, kOnce, "a", "a", "r", 400).done(1500))
	// re-use after the first one has fired works
	out = append(out, newBuilder("directed", "a").
		sched(0, kOnce, "a", "a", "r", 400).sched(600, kOnce, "a", "a", "r", 400).done(1300))
	// (a) colliding keys "/a" ":" "b:c" = "/a:b" ":" "c"
	out = append(out, newBuilder("directed", "a", "a:b").
		sched(0, kOnce, "a", "a", "b:c", 800).sched(200, kOnce, "a:b", "a:b", "c", 400).op(300, kDump, "a", "").op(300, kCancel, "a:b", "c").done(1100))
	out = append(out, newBuilder("directed", "a", "a:b").
		sched(0, kLoop, "a", "a", "b:c", 400).sched(200, kOnce, "a:b", "a:b", "c", 400).op(500, kKill, "a:b", "").done(1500))
	out = append(out, newBuilder("directed", "a", "a:b").
		sched(0, kLoop, "a:b", "a:b", "c", 400).sched(200, kLoop, "a", "a", "b:c", 400).op(500, kClear, "a", "").op(500, kDump, "a", "").done(1500))
	// the same reference on two actors without a collision
	out = append(out, newBuilder("directed", "a", "b").
		sched(0, kOnce, "a", "a", "r", 400).sched(0, kOnce, "b", "b", "r", 400).sched(0, kLoop, "a", "b", "l", 400).op(900, kCancel, "b", "l").op(900, kCancel, "a", "l").done(1500))
	// negative and zero delay
	out = append(out, newBuilder("directed", "a").
		sched(0, kOnce, "a", "a", "n", -1000).sched(0, kOnce, "a", "a", "z", 0).op(300, kExists, "a", "n").op(300, kDump, "a", "").done(700))
	// the owner terminates: its jobs are gone; jobs of others to the dead receiver become dead letters
	out = append(out, newBuilder("directed", "a", "b").
		sched(0, kLoop, "a", "a", "l", 400).sched(0, kOnce, "a", "b", "o", 800).sched(0, kLoop, "b", "a", "l", 400).sched(0, kOnce, "b", "a", "o", 1200).
		op(500, kKill, "a", "").op(500, kDump, "a", "").done(1700))
	// the owner restarts: its jobs are gone, it can schedule again
	out = append(out, newBuilder("directed", "a", "b").
		sched(0, kLoop, "a", "a", "l", 400).sched(0, kOnce, "a", "b", "o", 800).sched(0, kLoop, "b", "a", "k", 400).
		op(500, kRestart, "a", "").op(500, kExists, "a", "l").op(500, kDump, "a", "").
		sched(800, kLoop, "a", "a", "l", 400).op(1700, kClear, "a", "").done(2300))
	// Cron: invalid, valid, cancel
	out = append(out, newBuilder("directed", "a").
		badCron(0, "a", "c").sched(0, kCron, "a", "a", "v", 0).op(100, kExists, "a", "c").op(100, kExists, "a", "v").op(100, kDump, "a", "").
		badCron(300, "a", "v").op(300, kCancel, "a", "c").op(300, kCancel, "a", "v").op(300, kCancel, "a", "v").done(500))
	// rejected arguments: negative delay, non-positive interval, empty reference, live reference; nothing is scheduled
	out = append(out, newBuilder("directed", "a").
		sched(0, kOnce, "a", "a", "n", -1000).sched(0, kLoop, "a", "a", "z", 0).sched(0, kLoop, "a", "a", "m", -1000).sched(0, kOnce, "a", "a", "", 400).
		sched(0, kLoop, "a", "a", "l", 400).sched(200, kLoop, "a", "a", "l", 400).sched(200, kOnce, "a", "a", "l", 400).
		op(300, kExists, "a", "n").op(300, kExists, "a", "z").op(300, kExists, "a", "").op(300, kDump, "a", "").done(1100))
	// many jobs per actor, Clear
	b := newBuilder("directed", "a", "b")
	for i := 0; i < 6; i++ {
		b.sched(0, []int{kOnce, kLoop}[i%2], "a", []string{"a", "b"}[i%2], fmt.Sprintf("j%d", i), 400*(1+i%2))
	}
	out = append(out, b.op(100, kDump, "a", "").op(500, kDump, "a", "").op(900, kClear, "a", "").op(900, kDump, "a", "").done(1900))
	return out
}

func random(r *lib.Rand) scenario {
	pools := [][]string{{"a"}, {"a", "a:b"}, {"a", "b"}, {"a", "a:b", "b"}, {"x", "y"}, {"a:b", "a"}}
	b := newBuilder("random", pools[r.Intn(len(pools))]...)
	refs := []string{"r", "s", "b:c", "c"}
	if r.Chance(1, 3) {
		refs = []string{"r", "c", "b:c"}
	}
	n := len(b.sc.actors)
	alive := make([]bool, n)
	for i := range alive {
		alive[i] = true
	}
	type use struct{ n, lane int }
	uses := map[string]use{}
	slots := 12 + r.Intn(10)
	anyAlive := func() (int, bool) {
		var xs []int
		for i, a := range alive {
			if a {
				xs = append(xs, i)
			}
		}
		if len(xs) == 0 {
			return 0, false
		}
		return xs[r.Intn(len(xs))], true
	}
	for slot := 0; slot < slots; slot++ {
		t := slot * 100
		k := r.Intn(3)
		if slot == 0 && k == 0 {
			k = 1
		}
		for ; k > 0; k-- {
			a, ok := anyAlive()
			if !ok {
				break
			}
			name := b.sc.actors[a]
			if slot%2 == 0 {
				lane := (slot / 2) % 2
				ref := refs[r.Intn(len(refs))]
				if r.Chance(1, 40) {
					ref = "" // an empty reference (only possible through WithScheduleOptions)
				}
				key := path(name) + ":" + ref
				u := uses[key]
				if u.n >= 2 || (u.n == 1 && u.lane == lane) {
					continue
				}
				if u.n == 0 {
					u.lane = lane
				}
				u.n++
				uses[key] = u
				recv := name
				if r.Chance(3, 10) {
					recv = b.sc.actors[r.Intn(n)]
				}
				x := r.Intn(100)
				switch {
				case x < 50:
					d := []int{400, 400, 800, 0, 1200}[r.Intn(5)]
					if r.Chance(1, 20) {
						d = -1000
					}
					b.sched(t, kOnce, name, recv, ref, d)
				case x < 90:
					iv := []int{400, 400, 800}[r.Intn(3)]
					if r.Chance(1, 15) {
						iv = []int{0, -1000}[r.Intn(2)]
					}
					b.sched(t, kLoop, name, recv, ref, iv)
				default:
					b.sched(t, kCron, name, recv, ref, 0)
				}
			} else {
				x := r.Intn(100)
				switch {
				case x < 35:
					ref := refs[r.Intn(len(refs))]
					if r.Chance(1, 5) {
						ref = "never"
					}
					b.op(t, kCancel, name, ref)
				case x < 45:
					b.op(t, kClear, name, "")
				case x < 60:
					b.op(t, kExists, name, refs[r.Intn(len(refs))])
				case x < 72:
					b.op(t, kDump, name, "")
				case x < 80:
					b.op(t, kKill, name, "")
					alive[a] = false
				case x < 90:
					b.op(t, kRestart, name, "")
				default:
					b.badCron(t, name, refs[r.Intn(len(refs))])
				}
			}
		}
	}
	end := slots
	if end%2 == 0 {
		end++
	}
	end += 2 * r.Intn(3)
	return b.done(end * 100)
}

func tname(sc scenario) string {
	var sb strings.Builder
	for _, o := range sc.ops {
		who := path(sc.actors[o.actor])
		switch o.kind {
		case kOnce, kLoop:
			fmt.Fprintf(&sb, "%d:%s %s->%s %q %dms #%d; ", o.t, []string{"Once", "Loop"}[o.kind], who, path(sc.actors[o.recv]), o.ref, o.d, o.payload)
		case kCron:
			fmt.Fprintf(&sb, "%d:Cron(valid=%v) %s %q #%d; ", o.t, o.valid, who, o.ref, o.payload)
		case kCancel:
			fmt.Fprintf(&sb, "%d:Cancel %s %q; ", o.t, who, o.ref)
		case kClear:
			fmt.Fprintf(&sb, "%d:Clear %s; ", o.t, who)
		case kExists:
			fmt.Fprintf(&sb, "%d:Exists %s %q; ", o.t, who, o.ref)
		case kKill:
			fmt.Fprintf(&sb, "%d:Kill %s; ", o.t, who)
		case kRestart:
			fmt.Fprintf(&sb, "%d:Restart %s; ", o.t, who)
		case kDump:
			fmt.Fprintf(&sb, "%d:Dump; ", o.t)
		}
	}
	return sb.String()
}

// ---- child processes: scenarios that need the whole process to be suspended or that burn a CPU ----

type childReport struct {
	Valid     bool        `json:"valid"`
	Why       string      `json:"why"`
	Delivered int         `json:"delivered"`
	Dead      int         `json:"dead"`
	Exists    bool        `json:"exists"`
	Keys      [][2]string `json:"keys"`
	Refs      []string    `json:"refs"`
	LoopCount int         `json:"loop_count"`
	CPUms     int64       `json:"cpu_ms"`
	GapMs     int64       `json:"gap_ms"`
	AtMs      []int64     `json:"at_ms"`   // delivery times, ms after the scheduling call returned
	LiveMs    int64       `json:"live_ms"` // how long the job had been scheduled at the observation
}

func cpuTime() time.Duration {
	var ru syscall.Rusage
	_ = syscall.Getrusage(syscall.RUSAGE_SELF, &ru)
	return time.Duration(ru.Utime.Nano() + ru.Stime.Nano())
}

// child "stall": Once(800 ms) to self, then the parent suspends the whole process (SIGSTOP) for about 2 s.
// with loop = true: Loop(400 ms) instead of the Once (monitor only: how many firings the stall costs is not exact).
func childStall(loop bool) {
	go watchdog()
	bs := newBuilder("stall", "a")
	bs.scale = 100
	kind, delay := kOnce, 800
	if loop {
		kind, delay = kLoop, 400
	}
	sc := bs.sched(0, kind, "a", "a", "r", delay).done(3900)
	r := &srun{sc: sc, deathAt: make([]time.Time, 1)}
	sys := bootstrap.NewActorSystem(vivid.WithActorSystemLogger(log.NewSilentLogger()))
	if err := sys.Start(); err != nil {
		fmt.Println(`{"valid":false,"why":"start"}`)
		return
	}
	r.sys, r.asys = sys, sys.(*actor.System)
	_, _ = sys.ActorOf(vivid.ActorFN(r.deadLetters), vivid.WithActorName("c20-dead-letters"))
	a := &sactor{r: r, launches: make(chan struct{}, 1), killed: make(chan struct{}, 1)}
	ref, _ := sys.ActorOf(a, vivid.WithActorName("a"))
	<-a.launches
	r.refs, r.actors = []vivid.ActorRef{ref}, []*sactor{a}
	r.t0 = time.Now()
	r.exec(sc.ops[0])
	c := r.calls[0]
	fmt.Println("SCHEDULED")
	os.Stdout.Sync()
	// the parent stops the process now; wait until the watchdog has seen the suspension end, then observe for 1800 ms more
	// (in about one run of seven the Go timer of the quartz loop fires a full 800 ms AFTER the process resumes, not at
	// once: the job is dropped as outdated either way, but only then does it leave the queue)
	rep := childReport{Valid: true}
	due := c.end.Add(800 * time.Millisecond)
	ok := false
	var resumed time.Time
	for waited := 0; waited < 160 && !ok; waited++ {
		time.Sleep(50 * time.Millisecond)
		gapMu.Lock()
		for _, g := range gaps {
			// the suspension must begin well before the instant and end well after instant + OutdatedThreshold
			if g.from.Before(due.Add(-200*time.Millisecond)) && g.to.After(due.Add(1000*time.Millisecond)) {
				ok, resumed = true, g.to
				rep.GapMs = int64(g.to.Sub(g.from) / time.Millisecond)
			}
		}
		gapMu.Unlock()
	}
	if !ok {
		rep.Valid, rep.Why = false, "the process was not suspended across the instant"
	} else if d := time.Until(resumed.Add(1800 * time.Millisecond)); d > 0 {
		time.Sleep(d)
	}
	r.in(0, func(ctx vivid.ActorContext) {
		rep.Exists = ctx.Scheduler().Exists("r")
		rep.Refs = actor.XVSchedRefs(ctx)
	})
	rep.Keys = actor.XVQuartzKeys(r.asys)
	r.mu.Lock()
	for _, d := range r.delivs {
		if d.dead {
			rep.Dead++
		} else {
			rep.Delivered++
		}
		rep.AtMs = append(rep.AtMs, int64(d.at.Sub(c.end)/time.Millisecond))
	}
	rep.LiveMs = int64(time.Since(c.end) / time.Millisecond)
	r.mu.Unlock()
	if os.Getenv("C20_STALL_DEBUG") != "" {
		gone := time.Duration(-1)
		for i := 0; i < 400 && gone < 0; i++ {
			if len(actor.XVQuartzKeys(r.asys)) == 0 {
				gone = time.Since(resumed)
			}
			time.Sleep(10 * time.Millisecond)
		}
		r.mu.Lock()
		rep.Why = fmt.Sprintf("debug: deliveries %d, queue empty observed %v after resume (since schedule %v)", len(r.delivs), gone, time.Since(c.end))
		r.mu.Unlock()
	}
	b, _ := json.Marshal(rep)
	fmt.Println(string(b))
	_ = sys.Stop()
}

// child "spin": Loop with interval -1 s on /a, then Once(300 ms) on /b.
func childSpin() {
	sys := bootstrap.NewActorSystem(vivid.WithActorSystemLogger(log.NewSilentLogger()))
	if err := sys.Start(); err != nil {
		fmt.Println(`{"valid":false,"why":"start"}`)
		return
	}
	bs := newBuilder("spin", "a", "b")
	bs.scale = 100
	sc := bs.sched(0, kLoop, "a", "a", "l", -1000).sched(0, kOnce, "b", "b", "o", 300).done(1500)
	r := &srun{sc: sc, deathAt: make([]time.Time, 2), sys: sys, asys: sys.(*actor.System)}
	for i, n := range sc.actors {
		a := &sactor{r: r, idx: i, launches: make(chan struct{}, 1), killed: make(chan struct{}, 1)}
		ref, _ := sys.ActorOf(a, vivid.WithActorName(n))
		<-a.launches
		r.refs, r.actors = append(r.refs, ref), append(r.actors, a)
	}
	r.t0 = time.Now()
	c0 := cpuTime()
	r.exec(sc.ops[0])
	r.exec(sc.ops[1])
	time.Sleep(1500 * time.Millisecond)
	rep := childReport{Valid: true, CPUms: int64((cpuTime() - c0) / time.Millisecond)}
	r.mu.Lock()
	for _, d := range r.delivs {
		if d.p == 2 {
			rep.Delivered++
		} else {
			rep.LoopCount++
		}
	}
	r.mu.Unlock()
	r.in(0, func(ctx vivid.ActorContext) { _ = ctx.Scheduler().Cancel("l") })
	b, _ := json.Marshal(rep)
	fmt.Println(string(b))
	done := make(chan struct{})
	go func() { _ = sys.Stop(); close(done) }()
	select {
	case <-done:
	case <-time.After(3 * time.Second):
	}
}

func runChild(mode string, stop bool) (*childReport, error) {
	cmd := exec.Command(os.Args[0], mode)
	out, err := cmd.StdoutPipe()
	if err != nil {
		return nil, err
	}
	cmd.Stderr = os.Stderr
	if err := cmd.Start(); err != nil {
		return nil, err
	}
	defer func() { _ = cmd.Process.Kill(); _ = cmd.Wait() }()
	rd := bufio.NewReader(out)
	var rep childReport
	deadline := time.After(20 * time.Second)
	lines := make(chan string)
	go func() {
		for {
			l, err := rd.ReadString('\n')
			if l != "" {
				lines <- strings.TrimSpace(l)
			}
			if err != nil {
				close(lines)
				return
			}
		}
	}()
	for {
		select {
		case l, ok := <-lines:
			if !ok {
				return nil, errors.New("child ended without a report")
			}
			if l == "SCHEDULED" && stop {
				_ = cmd.Process.Signal(syscall.SIGSTOP)
				time.Sleep(2200 * time.Millisecond)
				_ = cmd.Process.Signal(syscall.SIGCONT)
				continue
			}
			if strings.HasPrefix(l, "{") {
				if err := json.Unmarshal([]byte(l), &rep); err != nil {
					return nil, err
				}
				return &rep, nil
			}
		case <-deadline:
			return nil, errors.New("child timed out")
		}
	}
}

// (e) a Tell already dispatched when Cancel returns: the actor cancels its 3 ms Loop inside the handler of the first
// firing and counts firings handled after Cancel returned nil. Statistics only (not deterministic).
func raceProbe(trials int) (int, int) {
	sys := bootstrap.NewActorSystem(vivid.WithActorSystemLogger(log.NewSilentLogger()))
	if err := sys.Start(); err != nil {
		return 0, 0
	}
	defer func() {
		done := make(chan struct{})
		go func() { _ = sys.Stop(); close(done) }()
		select {
		case <-done:
		case <-time.After(3 * time.Second):
		}
	}()
	after, ran := 0, 0
	for i := 0; i < trials; i++ {
		cancelled := false
		n := 0
		doneCh := make(chan struct{})
		ref, err := sys.ActorOf(vivid.ActorFN(func(ctx vivid.ActorContext) {
			switch ctx.Message().(type) {
			case *vivid.OnLaunch:
				_ = ctx.Scheduler().Loop(ctx.Ref(), 3*time.Millisecond, fire{1}, vivid.WithSchedulerReference("l"))
			case fire:
				if cancelled {
					n++
					return
				}
				time.Sleep(2900 * time.Microsecond) // end the handler close to the next firing instant
				if ctx.Scheduler().Cancel("l") == nil {
					cancelled = true
					ctx.Scheduler().Once(ctx.Ref(), 30*time.Millisecond, boom{}, vivid.WithSchedulerReference("end"))
				}
			case boom:
				close(doneCh)
			}
		}))
		if err != nil {
			continue
		}
		select {
		case <-doneCh:
			ran++
			if n > 0 {
				after++
			}
		case <-time.After(2 * time.Second):
		}
		sys.Kill(ref, false, "probe")
	}
	return after, ran
}

func main() {
	if len(os.Args) > 1 && os.Args[1] == "child-stall" {
		childStall(false)
		return
	}
	if len(os.Args) > 1 && os.Args[1] == "child-stall-loop" {
		childStall(true)
		return
	}
	if len(os.Args) > 1 && os.Args[1] == "child-spin" {
		childSpin()
		return
	}
	f := lib.ParseFlags()
	o := lib.NewOut(f.Out)
	rnd := lib.NewRand(f.Seed)
	go watchdog()

	scs := directed()
	n := 260
	if f.Tier == "thorough" {
		n = 5000
	}
	if f.N > 0 {
		n = f.N
	}
	for i := 0; i < n; i++ {
		scs = append(scs, random(rnd.Fork()))
	}
	workers := 40
	outs := make([]*outcome, len(scs))
	var wg sync.WaitGroup
	next := make(chan int)
	for w := 0; w < workers; w++ {
		wg.Add(1)
		go func(w int) {
			defer wg.Done()
			time.Sleep(time.Duration(w) * 23 * time.Millisecond) // do not start all systems in the same instant
			for i := range next {
				outs[i] = runOutcome(scs[i])
			}
		}(w)
	}
	// children run beside the scenarios
	type childRes struct {
		rep *childReport
		err error
	}
	stallCh, spinCh, stallLoopCh := make(chan childRes, 1), make(chan childRes, 1), make(chan childRes, 1)
	go func() {
		var rep *childReport
		var err error
		for attempt := 0; attempt < 3; attempt++ {
			rep, err = runChild("child-stall-loop", true)
			if err == nil && rep.Valid {
				break
			}
		}
		stallLoopCh <- childRes{rep, err}
	}()
	go func() {
		var rep *childReport
		var err error
		for attempt := 0; attempt < 3; attempt++ {
			rep, err = runChild("child-stall", true)
			if err == nil && rep.Valid {
				break
			}
		}
		stallCh <- childRes{rep, err}
	}()
	for i := range scs {
		next <- i
	}
	close(next)
	wg.Wait()
	go func() { // burns a CPU: after the timed scenarios
		rep, err := runChild("child-spin", false)
		spinCh <- childRes{rep, err}
	}()

	skipped, retried := 0, 0
	for _, oc := range outs {
		if oc.attempts > 1 {
			retried++
		}
		if oc.skipped != "" {
			skipped++
			o.Stats["skipped-disturbed"]++
			continue
		}
		if oc.out != nil {
			o.Case(oc.sc.kind, oc.nontriv, oc.in, oc.out)
		}
		for _, h := range oc.hits {
			o.Monitor(h.name, oc.in, h.detail+" || scenario: "+tname(oc.sc))
		}
	}
	o.Info["scenarios"] = fmt.Sprintf("%d directed + %d seeded random scenarios (1-3 actors from {a, a:b, b, x, y}, references from {r, s, c, b:c}, 12-21 slots of %d ms (delays and intervals multiples of 4 slots), Once/Loop/Cron/Cancel/Clear/Exists/kill/restart/invalid Cron/dumps), each on its own ActorSystem, %d at a time", len(directed()), n, slotMs, workers)
	reasons := map[string]int{}
	for _, oc := range outs {
		for _, d := range oc.disturbed {
			switch {
			case strings.Contains(d, "canary"):
				reasons["quartz-late(canary)"]++
			case strings.Contains(d, "gap"):
				reasons["gap"]++
			case strings.Contains(d, "late"):
				reasons["op-late"]++
			default:
				reasons["op-slow"]++
			}
		}
	}
	gapMu.Lock()
	var maxGap time.Duration
	for _, g := range gaps {
		if g.to.Sub(g.from) > maxGap {
			maxGap = g.to.Sub(g.from)
		}
	}
	o.Info["gaps"] = fmt.Sprintf("%d scheduling gaps > %v measured, the largest %v; disturbed attempts by reason: %v", len(gaps), gapTol, maxGap, reasons)
	gapMu.Unlock()
	o.Info["disturbed"] = fmt.Sprintf("%d scenarios were re-run because a scheduling gap > %v or an op later than %v was measured; %d discarded after %d attempts", retried, gapTol, lateTol, skipped, maxRetries)

	// (d) the process is suspended across the instant of a Once
	st := <-stallCh
	stallIn := lib.L(
		lib.L(lib.N(0), lib.S("/a"), lib.S("/a"), lib.S("r"), lib.Z(800), lib.N(1)),
		lib.L(lib.N(9), lib.Z(2200)), lib.L(lib.N(8), lib.Z(1800)),
		lib.L(lib.N(5), lib.S("/a"), lib.S("r")), lib.L(lib.N(10), lib.L(lib.S("/a"))))
	if st.err != nil || st.rep == nil || !st.rep.Valid {
		o.Info["stall"] = fmt.Sprintf("not judged: %v %+v", st.err, st.rep)
	} else {
		rep := st.rep
		refs := make([]lib.T, len(rep.Refs))
		for i, s := range rep.Refs {
			refs[i] = lib.S(s)
		}
		out := lib.L(lib.L(lib.N(0), lib.N(4), lib.N(4), lib.L(lib.Bool(rep.Exists)), lib.L(lib.L(lib.L(lib.S("/a"), lib.LS(refs))), keysTerm(rep.Keys))),
			lib.L(lib.L(lib.NI(rep.Delivered), lib.NI(rep.Dead))))
		o.Case("stall", true, stallIn, out)
		o.Info["stall"] = fmt.Sprintf("process suspended for %d ms across the instant of Once(800 ms): delivered %d, dead-lettered %d, Exists %v, quartz queue %v %s", rep.GapMs, rep.Delivered, rep.Dead, rep.Exists, rep.Keys, rep.Why)
		if rep.Delivered+rep.Dead == 0 {
			o.Monitor("c20-once-lost:stall", stallIn, fmt.Sprintf("Once(800 ms) to self, then the process was suspended (SIGSTOP) for %d ms across the instant: after resuming the message was never delivered (observed for a further 1.8 s), Exists(reference) = %v, quartz queue = %v: quartz dropped the job as outdated (OutdatedThreshold 100 ms, RunOnceTrigger expired)", rep.GapMs, rep.Exists, rep.Keys))
		}
	}
	// the same suspension with a Loop(400 ms): firings are skipped, the phase moves (monitor only)
	sl := <-stallLoopCh
	if sl.err != nil || sl.rep == nil || !sl.rep.Valid {
		o.Info["stall_loop"] = fmt.Sprintf("not judged: %v %+v", sl.err, sl.rep)
	} else {
		rep := sl.rep
		n := rep.Delivered + rep.Dead
		want := int((rep.LiveMs - 100) / 400)
		o.Info["stall_loop"] = fmt.Sprintf("process suspended for %d ms while a Loop(400 ms) was scheduled: after %d ms %d messages told (at %v ms), one per interval would be %d", rep.GapMs, rep.LiveMs, n, rep.AtMs, want)
		if n < want-1 {
			loopIn := lib.L(lib.L(lib.N(1), lib.S("/a"), lib.S("/a"), lib.S("r"), lib.Z(400), lib.N(1)), lib.L(lib.N(9), lib.Z(2200)), lib.L(lib.N(8), lib.Z(1800)))
			o.Monitor("c20-loop-lost:stall", loopIn, fmt.Sprintf("Loop(400 ms) to self, then the process was suspended (SIGSTOP) for %d ms: %d ms after the call only %d messages had been told (at %v ms after the call) instead of one per interval (%d): quartz skips the firings that are more than OutdatedThreshold = 100 ms late and continues at (now + interval)", rep.GapMs, rep.LiveMs, n, rep.AtMs, want))
		}
	}
	// Loop with a negative interval starves every other job of the system
	sp := <-spinCh
	if sp.err != nil || sp.rep == nil || !sp.rep.Valid {
		o.Info["spin"] = fmt.Sprintf("not judged: %v %+v", sp.err, sp.rep)
	} else {
		o.Info["spin"] = fmt.Sprintf("Loop(-1 s) on /a, Once(300 ms) on /b, 1.5 s: loop deliveries %d, the Once delivered %d times, CPU time %d ms", sp.rep.LoopCount, sp.rep.Delivered, sp.rep.CPUms)
		if sp.rep.Delivered != 1 {
			spinIn := lib.L(lib.L(lib.N(1), lib.S("/a"), lib.S("/a"), lib.S("l"), lib.Z(-1000), lib.N(1)), lib.L(lib.N(8), lib.Z(0)),
				lib.L(lib.N(0), lib.S("/b"), lib.S("/b"), lib.S("o"), lib.Z(300), lib.N(2)), lib.L(lib.N(8), lib.Z(1500)))
			o.Monitor("c20-once-lost:spin", spinIn, fmt.Sprintf("Loop with interval -1 s on /a; Once(300 ms) on /b returned nil and was delivered %d times within 1.5 s (loop deliveries %d); the process used %d ms of CPU: the quartz loop spins on the outdated SimpleTrigger and every other job becomes outdated behind it", sp.rep.Delivered, sp.rep.LoopCount, sp.rep.CPUms))
		}
	}
	trials := 60
	if f.Tier == "thorough" {
		trials = 600
	}
	after, ran := raceProbe(trials)
	o.Info["cancel_race"] = fmt.Sprintf("(e) Loop(3 ms) cancelled inside the handler of its first firing: in %d of %d trials a further firing was handled after Cancel had returned nil (the Tell is done by a goroutine quartz starts at the firing instant; statistics only)", after, ran)

	o.Close(f.Report)
	if len(o.Monitors) > 0 {
		os.Exit(3)
	}
}
