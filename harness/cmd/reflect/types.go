// Type / value universe of the generic Writer/Reader check: descriptors mirroring coq/Codec/Reflect.v
// (goty, goval), their term form, construction of real Go values with reflect, observation of decoded
// values, and the Go-side notions used by the implementation-side monitors (supported, norm, wire0).
package main

import (
	"reflect"
	"unsafe"

	"github.com/kercylan98/vivid/xverif/lib"
)

// kinds of Ty
const (
	KBasic = iota
	KNamed
	KInt
	KUint
	KSlice
	KArray
	KStruct
	KPtr
	KIface
	KMap
	KChan
	KFunc
)

// basic codes
const (
	BU8 = iota
	BI8
	BU16
	BI16
	BU32
	BI32
	BU64
	BI64
	BF32
	BF64
	BBool
	BStr
)

type Field struct {
	Ex bool
	T  *Ty
}
type Ty struct {
	K     int
	B     int
	Named bool
	N     int
	E     *Ty
	F     []Field
	rt    reflect.Type
}

// named types: a different dynamic type with the same kind
type NU8 uint8
type NI8 int8
type NU16 uint16
type NI16 int16
type NU32 uint32
type NI32 int32
type NU64 uint64
type NI64 int64
type NF32 float32
type NF64 float64
type NBool bool
type NStr string
type NBytes []byte
type NI32s []int32
type NStrs []string
type NBools []bool
type NU64s []uint64

var basicRT = []reflect.Type{
	reflect.TypeOf(uint8(0)), reflect.TypeOf(int8(0)), reflect.TypeOf(uint16(0)), reflect.TypeOf(int16(0)),
	reflect.TypeOf(uint32(0)), reflect.TypeOf(int32(0)), reflect.TypeOf(uint64(0)), reflect.TypeOf(int64(0)),
	reflect.TypeOf(float32(0)), reflect.TypeOf(float64(0)), reflect.TypeOf(false), reflect.TypeOf(""),
}
var namedRT = []reflect.Type{
	reflect.TypeOf(NU8(0)), reflect.TypeOf(NI8(0)), reflect.TypeOf(NU16(0)), reflect.TypeOf(NI16(0)),
	reflect.TypeOf(NU32(0)), reflect.TypeOf(NI32(0)), reflect.TypeOf(NU64(0)), reflect.TypeOf(NI64(0)),
	reflect.TypeOf(NF32(0)), reflect.TypeOf(NF64(0)), reflect.TypeOf(NBool(false)), reflect.TypeOf(NStr("")),
}

// element basic code -> declared named slice type (the only named slices the harness can build)
var namedSliceRT = map[int]reflect.Type{
	BU8: reflect.TypeOf(NBytes(nil)), BI32: reflect.TypeOf(NI32s(nil)), BStr: reflect.TypeOf(NStrs(nil)),
	BBool: reflect.TypeOf(NBools(nil)), BU64: reflect.TypeOf(NU64s(nil)),
}

const pkgPath = "github.com/kercylan98/vivid/xverif/cmd/reflect"

var tyRegistry = map[reflect.Type]*Ty{}

func TB(b int) *Ty      { return &Ty{K: KBasic, B: b} }
func TNamedB(b int) *Ty { return &Ty{K: KNamed, B: b} }
func TSl(named bool, e *Ty) *Ty {
	return &Ty{K: KSlice, Named: named, E: e}
}
func TArr(n int, e *Ty) *Ty { return &Ty{K: KArray, N: n, E: e} }
func TSt(fs ...Field) *Ty  { return &Ty{K: KStruct, F: fs} }
func TP(e *Ty) *Ty         { return &Ty{K: KPtr, E: e} }
func TK(k int) *Ty         { return &Ty{K: k} }
func Ex(t *Ty) Field       { return Field{true, t} }
func Un(t *Ty) Field       { return Field{false, t} }

func (t *Ty) Term() lib.T {
	switch t.K {
	case KBasic:
		return lib.L(lib.N(0), lib.NI(t.B))
	case KNamed:
		return lib.L(lib.N(1), lib.NI(t.B))
	case KInt:
		return lib.L(lib.N(2))
	case KUint:
		return lib.L(lib.N(3))
	case KSlice:
		return lib.L(lib.N(4), lib.Bool(t.Named), t.E.Term())
	case KArray:
		return lib.L(lib.N(5), lib.NI(t.N), t.E.Term())
	case KStruct:
		xs := make([]lib.T, len(t.F))
		for i, f := range t.F {
			xs[i] = lib.L(lib.Bool(f.Ex), f.T.Term())
		}
		return lib.L(lib.N(6), lib.LS(xs))
	case KPtr:
		return lib.L(lib.N(7), t.E.Term())
	default:
		return lib.L(lib.NI(t.K))
	}
}

// RType builds the real Go type.
func (t *Ty) RType() reflect.Type {
	if t.rt != nil {
		return t.rt
	}
	var rt reflect.Type
	switch t.K {
	case KBasic:
		rt = basicRT[t.B]
	case KNamed:
		rt = namedRT[t.B]
	case KInt:
		rt = reflect.TypeOf(int(0))
	case KUint:
		rt = reflect.TypeOf(uint(0))
	case KSlice:
		if t.Named {
			rt = namedSliceRT[t.E.B] // generator guarantees an unnamed basic element with a declared type
		} else {
			rt = reflect.SliceOf(t.E.RType())
		}
	case KArray:
		rt = reflect.ArrayOf(t.N, t.E.RType())
	case KStruct:
		sf := make([]reflect.StructField, len(t.F))
		for i, f := range t.F {
			if f.Ex {
				sf[i] = reflect.StructField{Name: "F" + itoa(i), Type: f.T.RType()}
			} else {
				sf[i] = reflect.StructField{Name: "f" + itoa(i), Type: f.T.RType(), PkgPath: pkgPath}
			}
		}
		rt = reflect.StructOf(sf)
	case KPtr:
		rt = reflect.PointerTo(t.E.RType())
	case KIface:
		rt = reflect.TypeOf((*any)(nil)).Elem()
	case KMap:
		rt = reflect.TypeOf(map[string]int32(nil))
	case KChan:
		rt = reflect.TypeOf((chan int)(nil))
	case KFunc:
		rt = reflect.TypeOf((func())(nil))
	}
	t.rt = rt
	if _, ok := tyRegistry[rt]; !ok {
		tyRegistry[rt] = t
	}
	return rt
}

func itoa(i int) string {
	if i == 0 {
		return "0"
	}
	s := ""
	for i > 0 {
		s = string(rune('0'+i%10)) + s
		i /= 10
	}
	return s
}

// ---- values ----
const (
	VN = iota
	VZ
	VB
	VS
	VNil
	VList
	VStruct
	VPtr
	VIface
	VOpaque
)

type Val struct {
	K  int
	N  uint64
	Z  int64
	Bo bool
	S  []byte
	L  []*Val
	T  *Ty
	P  *Val
}

func (v *Val) Term() lib.T {
	switch v.K {
	case VN:
		return lib.L(lib.N(0), lib.N(v.N))
	case VZ:
		return lib.L(lib.N(1), lib.Z(v.Z))
	case VB:
		return lib.L(lib.N(2), lib.Bool(v.Bo))
	case VS:
		return lib.L(lib.N(3), lib.B(v.S))
	case VNil:
		return lib.L(lib.N(4))
	case VList, VStruct:
		xs := make([]lib.T, len(v.L))
		for i, x := range v.L {
			xs[i] = x.Term()
		}
		return lib.L(lib.NI(v.K), lib.LS(xs))
	case VPtr:
		return lib.L(lib.N(7), v.P.Term())
	case VIface:
		return lib.L(lib.N(8), v.T.Term(), v.P.Term())
	default:
		return lib.L(lib.N(9))
	}
}

func isSigned(b int) bool { return b == BI8 || b == BI16 || b == BI32 || b == BI64 }

// settable returns a settable alias of a (possibly unexported) field of an addressable struct.
func settable(f reflect.Value) reflect.Value {
	if f.CanSet() {
		return f
	}
	return reflect.NewAt(f.Type(), unsafe.Pointer(f.UnsafeAddr())).Elem()
}

func buildBasic(b int, v *Val, dst reflect.Value) {
	switch b {
	case BU8, BU16, BU32, BU64:
		dst.SetUint(v.N)
	case BI8, BI16, BI32, BI64:
		dst.SetInt(v.Z)
	case BF32: // bit pattern, no float conversion (a conversion would quiet a signalling NaN)
		*(*uint32)(unsafe.Pointer(dst.UnsafeAddr())) = uint32(v.N)
	case BF64:
		*(*uint64)(unsafe.Pointer(dst.UnsafeAddr())) = v.N
	case BBool:
		dst.SetBool(v.Bo)
	case BStr:
		dst.SetString(string(v.S))
	}
}

var aFunc = func() {}

// build stores the value v of type t into the addressable, settable dst.
func build(t *Ty, v *Val, dst reflect.Value) {
	switch t.K {
	case KBasic, KNamed:
		buildBasic(t.B, v, dst)
	case KInt:
		dst.SetInt(v.Z)
	case KUint:
		dst.SetUint(v.N)
	case KSlice:
		if v.K == VNil {
			return
		}
		s := reflect.MakeSlice(t.RType(), len(v.L), len(v.L))
		for i, x := range v.L {
			build(t.E, x, s.Index(i))
		}
		dst.Set(s)
	case KArray:
		for i, x := range v.L {
			build(t.E, x, dst.Index(i))
		}
	case KStruct:
		for i, x := range v.L {
			build(t.F[i].T, x, settable(dst.Field(i)))
		}
	case KPtr:
		if v.K == VNil {
			return
		}
		p := reflect.New(t.E.RType())
		build(t.E, v.P, p.Elem())
		dst.Set(p)
	case KIface:
		if v.K == VNil {
			return
		}
		tmp := reflect.New(v.T.RType()).Elem()
		build(v.T, v.P, tmp)
		dst.Set(tmp)
	case KMap:
		if v.K == VOpaque {
			dst.Set(reflect.MakeMap(t.RType()))
		}
	case KChan:
		if v.K == VOpaque {
			dst.Set(reflect.MakeChan(t.RType(), 0))
		}
	case KFunc:
		if v.K == VOpaque {
			dst.Set(reflect.ValueOf(aFunc))
		}
	}
}

// newVar returns an addressable variable of type t holding v.
func newVar(t *Ty, v *Val) reflect.Value {
	x := reflect.New(t.RType()).Elem()
	if v != nil {
		build(t, v, x)
	}
	return x
}

func observeBasic(b int, src reflect.Value) *Val {
	switch b {
	case BU8, BU16, BU32, BU64:
		return &Val{K: VN, N: src.Uint()}
	case BI8, BI16, BI32, BI64:
		return &Val{K: VZ, Z: src.Int()}
	case BF32:
		return &Val{K: VN, N: uint64(*(*uint32)(unsafe.Pointer(src.UnsafeAddr())))}
	case BF64:
		return &Val{K: VN, N: *(*uint64)(unsafe.Pointer(src.UnsafeAddr()))}
	case BBool:
		return &Val{K: VB, Bo: src.Bool()}
	default:
		return &Val{K: VS, S: []byte(src.String())}
	}
}

// observe reads the addressable variable src of type t back into a Val.
func observe(t *Ty, src reflect.Value) *Val {
	switch t.K {
	case KBasic, KNamed:
		return observeBasic(t.B, src)
	case KInt:
		return &Val{K: VZ, Z: src.Int()}
	case KUint:
		return &Val{K: VN, N: src.Uint()}
	case KSlice:
		if src.IsNil() {
			return &Val{K: VNil}
		}
		out := &Val{K: VList, L: make([]*Val, src.Len())}
		for i := range out.L {
			out.L[i] = observe(t.E, src.Index(i))
		}
		return out
	case KArray:
		out := &Val{K: VList, L: make([]*Val, src.Len())}
		for i := range out.L {
			out.L[i] = observe(t.E, src.Index(i))
		}
		return out
	case KStruct:
		out := &Val{K: VStruct, L: make([]*Val, len(t.F))}
		for i := range out.L {
			out.L[i] = observe(t.F[i].T, settable(src.Field(i)))
		}
		return out
	case KPtr:
		if src.IsNil() {
			return &Val{K: VNil}
		}
		return &Val{K: VPtr, P: observe(t.E, src.Elem())}
	case KIface:
		if src.IsNil() {
			return &Val{K: VNil}
		}
		dyn := src.Elem()
		dt := tyRegistry[dyn.Type()]
		if dt == nil {
			return &Val{K: VOpaque}
		}
		tmp := reflect.New(dyn.Type()).Elem()
		tmp.Set(dyn)
		return &Val{K: VIface, T: dt, P: observe(dt, tmp)}
	default:
		if src.IsNil() {
			return &Val{K: VNil}
		}
		return &Val{K: VOpaque}
	}
}

// ---- notions used by the monitors (the property, evaluated on the Go side) ----

// supported: types both Write and Read accept (DESIGN Appendix C): unnamed basic types, slices, arrays and
// structs of them; unexported struct fields may have any type (they are not transmitted).
func supported(t *Ty) bool {
	switch t.K {
	case KBasic:
		return true
	case KSlice, KArray:
		return supported(t.E)
	case KStruct:
		for _, f := range t.F {
			if f.Ex && !supported(f.T) {
				return false
			}
		}
		return true
	}
	return false
}

func wire0(t *Ty) bool {
	if t.K != KStruct {
		return false
	}
	for _, f := range t.F {
		if f.Ex && !wire0(f.T) {
			return false
		}
	}
	return true
}

// guardOK: the documented guard of the round trip: no NON-EMPTY slice (in an exported position) whose elements
// occupy no bytes on the wire — the reader rejects a slice length above the number of remaining bytes.
func guardOK(t *Ty, v *Val) bool {
	switch t.K {
	case KSlice:
		if v.K == VNil {
			return true
		}
		if wire0(t.E) && len(v.L) > 0 {
			return false
		}
		for _, x := range v.L {
			if !guardOK(t.E, x) {
				return false
			}
		}
	case KArray:
		for _, x := range v.L {
			if !guardOK(t.E, x) {
				return false
			}
		}
	case KStruct:
		for i, x := range v.L {
			if t.F[i].Ex && !guardOK(t.F[i].T, x) {
				return false
			}
		}
	}
	return true
}

// hasWire0Loop: a slice whose elements occupy no bytes: a hostile length makes Read iterate without input
func hasWire0Loop(t *Ty) bool {
	switch t.K {
	case KSlice:
		return wire0(t.E) || hasWire0Loop(t.E)
	case KArray, KPtr:
		return hasWire0Loop(t.E)
	case KStruct:
		for _, f := range t.F {
			if f.Ex && hasWire0Loop(f.T) {
				return true
			}
		}
	}
	return false
}

func zeroVal(t *Ty) *Val {
	switch t.K {
	case KBasic, KNamed:
		switch {
		case isSigned(t.B):
			return &Val{K: VZ}
		case t.B == BBool:
			return &Val{K: VB}
		case t.B == BStr:
			return &Val{K: VS, S: []byte{}}
		}
		return &Val{K: VN}
	case KInt:
		return &Val{K: VZ}
	case KUint:
		return &Val{K: VN}
	case KArray:
		out := &Val{K: VList, L: make([]*Val, t.N)}
		for i := range out.L {
			out.L[i] = zeroVal(t.E)
		}
		return out
	case KStruct:
		out := &Val{K: VStruct, L: make([]*Val, len(t.F))}
		for i := range out.L {
			out.L[i] = zeroVal(t.F[i].T)
		}
		return out
	}
	return &Val{K: VNil}
}

// norm: what a decode of an encoded supported value is expected to be: nil slices come back empty,
// unexported fields come back zero.
func norm(t *Ty, v *Val) *Val {
	switch t.K {
	case KSlice, KArray:
		if v.K == VNil {
			return &Val{K: VList, L: []*Val{}}
		}
		out := &Val{K: VList, L: make([]*Val, len(v.L))}
		for i, x := range v.L {
			out.L[i] = norm(t.E, x)
		}
		return out
	case KStruct:
		out := &Val{K: VStruct, L: make([]*Val, len(v.L))}
		for i, x := range v.L {
			if t.F[i].Ex {
				out.L[i] = norm(t.F[i].T, x)
			} else {
				out.L[i] = zeroVal(t.F[i].T)
			}
		}
		return out
	}
	return v
}
