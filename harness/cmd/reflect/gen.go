// Generators: types and values of the codec universe (every choice derives from one PRNG).
package main

import (
	"github.com/kercylan98/vivid/xverif/lib"
)

type Gen struct{ r *lib.Rand }

var uExt = map[int][]uint64{
	BU8:  {0, 1, 0x7f, 0x80, 0xfe, 0xff},
	BU16: {0, 1, 0xff, 0x100, 0x7fff, 0x8000, 0xfffe, 0xffff, 0x1234},
	BU32: {0, 1, 0xffff, 0x10000, 0x7fffffff, 0x80000000, 0xfffffffe, 0xffffffff, 0x01020304},
	BU64: {0, 1, 0xffffffff, 0x100000000, 0x7fffffffffffffff, 0x8000000000000000, 0xfffffffffffffffe, 0xffffffffffffffff, 0x0102030405060708},
	// float bit patterns: +0 -0 1.0 smallest denormal, inf, -inf, quiet NaN, signalling NaN, NaN with payload
	BF32: {0, 0x80000000, 0x3f800000, 1, 0x7f800000, 0xff800000, 0x7fc00000, 0x7fa00000, 0xffc12345, 0x7f800001},
	BF64: {0, 0x8000000000000000, 0x3ff0000000000000, 1, 0x7ff0000000000000, 0xfff0000000000000, 0x7ff8000000000000, 0x7ff4000000000000, 0xfff8000000012345, 0x7ff0000000000001},
}
var sExt = map[int][]int64{
	BI8:  {0, 1, -1, 127, -128, 126, -127, 64},
	BI16: {0, 1, -1, 32767, -32768, 255, 256, -256, -257},
	BI32: {0, 1, -1, 2147483647, -2147483648, 65535, 65536, -65536, 16909060},
	BI64: {0, 1, -1, 9223372036854775807, -9223372036854775808, 4294967295, 4294967296, -4294967296, 72623859790382856},
}

func bits(b int) uint {
	switch b {
	case BU8, BI8:
		return 8
	case BU16, BI16:
		return 16
	case BU32, BI32, BF32:
		return 32
	}
	return 64
}

// basicExtremes lists the extreme values of a basic type (run first, exhaustively).
func basicExtremes(b int) []*Val {
	var out []*Val
	switch {
	case b == BBool:
		return []*Val{{K: VB, Bo: false}, {K: VB, Bo: true}}
	case b == BStr:
		return []*Val{{K: VS, S: []byte{}}, {K: VS, S: []byte("a")}, {K: VS, S: []byte("héllo, 世界")}, {K: VS, S: []byte{0, 0xff, 0xfe, 0x80}},
			{K: VS, S: make([]byte, 255)}, {K: VS, S: make([]byte, 256)}, {K: VS, S: make([]byte, 65536)}}
	case isSigned(b):
		for _, z := range sExt[b] {
			out = append(out, &Val{K: VZ, Z: z})
		}
	default:
		for _, n := range uExt[b] {
			out = append(out, &Val{K: VN, N: n})
		}
	}
	return out
}

func (g *Gen) str() []byte {
	n := g.r.Intn(9)
	switch g.r.Intn(40) {
	case 0:
		n = 255 + g.r.Intn(3)
	case 1:
		n = 300 + g.r.Intn(700)
	case 2:
		n = 0
	}
	b := g.r.Bytes(n)
	if g.r.Bool() { // mostly printable
		for i := range b {
			b[i] = 0x20 + b[i]%0x5f
		}
	}
	return b
}

func (g *Gen) basicVal(b int) *Val {
	if g.r.Chance(1, 3) {
		e := basicExtremes(b)
		if b == BStr {
			e = e[:4]
		}
		return e[g.r.Intn(len(e))]
	}
	switch {
	case b == BBool:
		return &Val{K: VB, Bo: g.r.Bool()}
	case b == BStr:
		return &Val{K: VS, S: g.str()}
	case isSigned(b):
		sh := 64 - bits(b)
		return &Val{K: VZ, Z: int64(g.r.U64()) >> sh}
	}
	sh := 64 - bits(b)
	return &Val{K: VN, N: g.r.U64() >> sh}
}

var namedSliceElems = []int{BU8, BI32, BStr, BBool, BU64}

// ty generates a type.  any=false: only types Write and Read both accept in exported positions
// (unexported struct fields may still have any type).  depth bounds the nesting.
func (g *Gen) ty(depth int, any bool) *Ty {
	k := g.r.Intn(100)
	if depth <= 0 {
		k = k % 50
	}
	switch {
	case k < 50:
		return TB(g.r.Intn(12))
	case k < 64:
		if g.r.Chance(1, 6) {
			return TSl(true, TB(namedSliceElems[g.r.Intn(len(namedSliceElems))]))
		}
		if g.r.Chance(1, 4) {
			return TSl(false, TB(BU8))
		}
		return TSl(false, g.ty(depth-1, any))
	case k < 72:
		n := g.r.Intn(4)
		if g.r.Chance(1, 10) {
			n = 17
		}
		return TArr(n, g.ty(depth-1, any))
	case k < 88:
		nf := g.r.Intn(5)
		if g.r.Chance(1, 12) {
			nf = 0
		}
		fs := make([]Field, nf)
		for i := range fs {
			if g.r.Chance(1, 4) {
				fs[i] = Un(g.ty(depth-1, true))
			} else {
				fs[i] = Ex(g.ty(depth-1, any))
			}
		}
		return TSt(fs...)
	}
	if !any {
		return TB(g.r.Intn(12))
	}
	switch {
	case k < 91:
		return TNamedB(g.r.Intn(12))
	case k < 93:
		return TK(KInt + g.r.Intn(2))
	case k < 96:
		return TP(g.ty(depth-1, any))
	case k < 98:
		return TK(KIface)
	}
	return TK(KMap + g.r.Intn(3))
}

// dynTy: a dynamic type for an interface value (never an interface itself)
func (g *Gen) dynTy(depth int) *Ty {
	for {
		t := g.ty(depth, true)
		if t.K != KIface {
			return t
		}
	}
}

func (g *Gen) sliceLen(t *Ty) int {
	n := g.r.Intn(4)
	switch g.r.Intn(30) {
	case 0:
		n = 17
	case 1:
		if t.E.K == KBasic {
			n = 300
		}
	}
	return n
}

// val generates a value of type t.  nils: allow nil pointers / interfaces / maps (always allowed for slices)
func (g *Gen) val(t *Ty, nils bool) *Val {
	switch t.K {
	case KBasic, KNamed:
		return g.basicVal(t.B)
	case KInt:
		return g.basicVal(BI64)
	case KUint:
		return g.basicVal(BU64)
	case KSlice:
		if g.r.Chance(1, 8) {
			return &Val{K: VNil}
		}
		out := &Val{K: VList, L: make([]*Val, g.sliceLen(t))}
		for i := range out.L {
			out.L[i] = g.val(t.E, nils)
		}
		return out
	case KArray:
		out := &Val{K: VList, L: make([]*Val, t.N)}
		for i := range out.L {
			out.L[i] = g.val(t.E, nils)
		}
		return out
	case KStruct:
		out := &Val{K: VStruct, L: make([]*Val, len(t.F))}
		for i := range out.L {
			out.L[i] = g.val(t.F[i].T, nils || !t.F[i].Ex)
		}
		return out
	case KPtr:
		if nils && g.r.Chance(1, 4) {
			return &Val{K: VNil}
		}
		return &Val{K: VPtr, P: g.val(t.E, nils)}
	case KIface:
		if nils && g.r.Chance(1, 4) {
			return &Val{K: VNil}
		}
		dt := g.dynTy(2)
		return &Val{K: VIface, T: dt, P: g.val(dt, nils)}
	default:
		if g.r.Bool() {
			return &Val{K: VNil}
		}
		return &Val{K: VOpaque}
	}
}
