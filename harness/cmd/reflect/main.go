// reflect: correspondence cases and implementation-side monitors for the generic half of C12/C13:
// the primitive Writer/Reader of internal/messages (every WriteXxx/ReadXxx, Write/Read, writeReflect/
// readReflect, WriteFrom/ReadInto) against coq/Codec/Reflect.v.
//
//	-mode rt     (component "reflect", C12): primitives, round trips of supported values, WriteFrom/ReadInto
//	-mode buf    (component "buf", C12/C13): the Writer / Reader state machines, pools, nesting, the ActorRef factory (buf.go)
//	-mode total  (component "reflect_total", C13): every kind of value through Write; Read called wrongly;
//	             truncated / corrupted / random / length-targeted input through Read — executed in a CHILD
//	             process (re-exec with -child) under RLIMIT_AS and a per-case timeout: a crash, a timeout
//	             or allocation out of proportion to the input is a monitor hit naming the case.
package main

import (
	"bufio"
	"bytes"
	"errors"
	"flag"
	"fmt"
	"io"
	"math/big"
	"os"
	"os/exec"
	"reflect"
	"runtime"
	"strconv"
	"strings"
	"syscall"
	"time"

	"github.com/kercylan98/vivid/internal/messages"
	"github.com/kercylan98/vivid/xverif/lib"
)

// ---------------------------------------------------------------- sinks

type Sink interface {
	Case(kind string, nontrivial bool, in, out lib.T)
	Monitor(name string, c lib.T, detail string)
	Journal(block, idx int, descr lib.T)
}

type outSink struct{ o *lib.Out }

func (s outSink) Case(kind string, nt bool, in, out lib.T)    { s.o.Case(kind, nt, in, out) }
func (s outSink) Monitor(name string, c lib.T, detail string) { s.o.Monitor(name, c, detail) }
func (s outSink) Journal(int, int, lib.T)                     {}

// the child's sink: one line per event on stdout, written through immediately
type pipeSink struct{ w *os.File }

func clean(s string) string {
	return strings.NewReplacer("\t", " ", "\n", " | ").Replace(s)
}
func (s pipeSink) Case(kind string, nt bool, in, out lib.T) {
	n := "0"
	if nt {
		n = "1"
	}
	fmt.Fprintf(s.w, "C\t%s\t%s\t%s\t%s\n", kind, n, lib.Show(in), lib.Show(out))
}
func (s pipeSink) Monitor(name string, c lib.T, detail string) {
	fmt.Fprintf(s.w, "M\t%s\t%s\t%s\n", name, lib.Show(c), clean(detail))
}
func (s pipeSink) Journal(b, i int, descr lib.T) {
	fmt.Fprintf(s.w, "J\t%d\t%d\t%s\n", b, i, lib.Show(descr))
}

// parseTerm: the inverse of lib.Show (needed to hand the child's terms to lib.Out)
func parseTerm(s string) (t lib.T, err error) {
	defer func() {
		if r := recover(); r != nil {
			t, err = nil, fmt.Errorf("parse: %v", r)
		}
	}()
	pos := 0
	var term func() lib.T
	term = func() lib.T {
		for pos < len(s) && s[pos] == ' ' {
			pos++
		}
		switch {
		case s[pos] == '(':
			pos++
			var xs []lib.T
			for {
				for s[pos] == ' ' {
					pos++
				}
				if s[pos] == ')' {
					pos++
					return lib.LS(xs)
				}
				xs = append(xs, term())
			}
		case s[pos] == '#':
			pos++
			st := pos
			for pos < len(s) && strings.IndexByte("0123456789abcdef", s[pos]) >= 0 {
				pos++
			}
			b := make([]byte, (pos-st)/2)
			for i := range b {
				v, _ := strconv.ParseUint(s[st+2*i:st+2*i+2], 16, 8)
				b[i] = byte(v)
			}
			return lib.B(b)
		default:
			st := pos
			for pos < len(s) && strings.IndexByte("0123456789abcdef", s[pos]) >= 0 {
				pos++
			}
			n, ok := new(big.Int).SetString(s[st:pos], 16)
			if !ok {
				panic("number")
			}
			return lib.Big(n)
		}
	}
	return term(), nil
}

// ---------------------------------------------------------------- running the real code

func errCode(err error) uint64 {
	switch {
	case errors.Is(err, io.ErrUnexpectedEOF):
		return 1
	case errors.Is(err, messages.ErrOverflow):
		return 2
	}
	m := err.Error()
	switch {
	case strings.Contains(m, "too long for"):
		return 3
	case strings.Contains(m, "array length mismatch"), strings.Contains(m, "nil pointer"),
		strings.Contains(m, "must pass a non-nil pointer"), strings.Contains(m, "invalid length size"):
		return 4
	case strings.Contains(m, "unsupported type"):
		return 5
	}
	return 99
}

func panicCode(r any) uint64 {
	m := fmt.Sprint(r)
	switch {
	case strings.Contains(m, "nil pointer dereference"):
		return 1
	case strings.Contains(m, "slice bounds out of range"), strings.Contains(m, "index out of range"):
		return 2
	}
	return 3
}

type H struct {
	s Sink
	g *Gen
}

// protect runs f; a panic is returned (the property-level decision whether it is a violation is the caller's)
func protect(f func()) (p any) {
	defer func() {
		if r := recover(); r != nil {
			p = r
		}
	}()
	f()
	return nil
}

// top-level argument of Write for a variable of type t
func arg(t *Ty, x reflect.Value) any {
	if t.K == KIface && x.IsNil() {
		return nil
	}
	return x.Interface()
}

// write runs Writer.Write on the value and records the case; returns the bytes when the writer succeeded
func (h *H) write(kind string, t *Ty, v *Val, monitorPanic bool) ([]byte, bool) {
	in := lib.L(lib.N(0), t.Term(), v.Term())
	x := newVar(t, v)
	a := arg(t, x)
	w := messages.NewWriter()
	p := protect(func() { w.Write(a) })
	if p != nil {
		h.s.Case(kind+"-panic", true, in, lib.L(lib.N(2), lib.N(panicCode(p))))
		if monitorPanic {
			h.s.Monitor("panic:write", in, fmt.Sprintf("Writer.Write(%s) panicked: %v", x.Type(), p))
		}
		return nil, false
	}
	if err := w.Err(); err != nil {
		h.s.Case(kind+"-err", true, in, lib.Err(errCode(err)))
		return nil, false
	}
	enc := append([]byte(nil), w.Bytes()...)
	h.s.Case(kind, t.K != KBasic, in, lib.Ok(lib.B(enc)))
	return enc, true
}

// bytes allocated so far (runtime.ReadMemStats flushes the per-P caches, so deltas are exact;
// the runtime/metrics counter is only updated in lumps)
func allocated() uint64 {
	var ms runtime.MemStats
	runtime.ReadMemStats(&ms)
	return ms.TotalAlloc
}

type readResult struct {
	val    *Val
	pos    int
	err    error
	pan    any
	after  *Val
	alloc  uint64
	nanos  int64
	target reflect.Value
}

// read runs Reader.Read(&x) where x : t holds old (or the zero value)
func read(t *Ty, data []byte, old *Val) readResult {
	x := newVar(t, old)
	ptr := x.Addr().Interface()
	r := messages.NewReader(data)
	var res readResult
	a0 := allocated()
	t0 := time.Now()
	res.pan = protect(func() { res.err = r.Read(ptr) })
	res.nanos = time.Since(t0).Nanoseconds()
	res.alloc = allocated() - a0
	res.pos = r.Pos()
	res.target = x
	return res
}

func readOut(t *Ty, res *readResult) lib.T {
	if res.pan != nil {
		return lib.L(lib.N(2), lib.N(panicCode(res.pan)))
	}
	if res.err != nil {
		return lib.Err(errCode(res.err))
	}
	res.val = observe(t, res.target)
	return lib.Ok(lib.L(res.val.Term(), lib.NI(res.pos)))
}

func same(a, b *Val) bool { return lib.Show(a.Term()) == lib.Show(b.Term()) }

// ---------------------------------------------------------------- mode rt (C12)

func (h *H) roundTrip(kind string, t *Ty, v *Val) {
	enc, ok := h.write(kind, t, v, true)
	in0 := lib.L(lib.N(0), t.Term(), v.Term())
	sup := supported(t) && guardOK(t, v)
	if !ok {
		if sup {
			h.s.Monitor("roundtrip", in0, "Write failed on a value of a supported type")
		}
		return
	}
	junk := h.g.r.Bytes(h.g.r.Intn(4))
	data := append(append([]byte(nil), enc...), junk...)
	in := lib.L(lib.N(1), t.Term(), lib.B(data))
	res := read(t, data, h.g.val(t, true))
	out := readOut(t, &res)
	h.s.Case(kind+"-read", t.K != KBasic, in, out)
	if !sup {
		return
	}
	switch {
	case res.pan != nil:
		h.s.Monitor("panic:read", in, fmt.Sprint(res.pan))
	case res.err != nil:
		h.s.Monitor("roundtrip", in0, "Read failed on the writer's bytes: "+res.err.Error())
	case res.pos != len(enc):
		h.s.Monitor("roundtrip-consumed", in0, fmt.Sprintf("writer produced %d bytes, reader consumed %d", len(enc), res.pos))
	case !same(res.val, norm(t, v)):
		h.s.Monitor("roundtrip", in0, "decoded "+lib.Show(res.val.Term())+" want "+lib.Show(norm(t, v).Term()))
	}
}

func (h *H) primCase(kind string, in lib.T, f func() lib.T) lib.T {
	var out lib.T
	if p := protect(func() { out = f() }); p != nil {
		out = lib.L(lib.N(2), lib.N(panicCode(p)))
		h.s.Monitor("panic:"+kind, in, fmt.Sprint(p))
	}
	h.s.Case(kind, true, in, out)
	return out
}

func resBytes(w *messages.Writer) lib.T {
	if w.Err() != nil {
		return lib.Err(errCode(w.Err()))
	}
	return lib.Ok(lib.B(w.Bytes()))
}

func (h *H) varints(tier int) {
	r := h.g.r
	var zs []int64
	for k := uint(0); k < 64; k++ {
		for _, d := range []int64{-1, 0, 1} {
			zs = append(zs, int64(1)<<k+d, -(int64(1) << k)+d)
		}
	}
	zs = append(zs, 0, 9223372036854775807, -9223372036854775808)
	for i := 0; i < 200*tier; i++ {
		zs = append(zs, int64(r.U64())>>uint(r.Intn(64)))
	}
	for _, z := range zs {
		w := messages.NewWriter().WriteVarint(z)
		enc := append([]byte(nil), w.Bytes()...)
		h.s.Case("varint-w", true, lib.L(lib.N(4), lib.N(0), lib.Z(z)), lib.B(enc))
		rd := messages.NewReader(append(append([]byte(nil), enc...), 0x55))
		got, err := rd.ReadVarint()
		if err != nil || got != z || rd.Pos() != len(enc) {
			h.s.Monitor("roundtrip-prim", lib.L(lib.N(4), lib.N(0), lib.Z(z)), fmt.Sprintf("ReadVarint(WriteVarint(%d)) = %d, %v, pos %d", z, got, err, rd.Pos()))
		}
		u := uint64(z)
		w = messages.NewWriter().WriteUvarint(u)
		enc = append([]byte(nil), w.Bytes()...)
		h.s.Case("uvarint-w", true, lib.L(lib.N(4), lib.N(1), lib.N(u)), lib.B(enc))
		rd = messages.NewReader(append(append([]byte(nil), enc...), 0xaa))
		gu, err := rd.ReadUvarint()
		if err != nil || gu != u || rd.Pos() != len(enc) {
			h.s.Monitor("roundtrip-prim", lib.L(lib.N(4), lib.N(1), lib.N(u)), fmt.Sprintf("ReadUvarint(WriteUvarint(%d)) = %d, %v", u, gu, err))
		}
		// every truncation of the encoding, and the reader on it
		for k := 0; k <= len(enc); k++ {
			h.rdVarint(enc[:k])
		}
	}
	// continuation runs of length 0..12, last byte variants: the 10-byte overflow rule
	for n := 0; n <= 12; n++ {
		for _, last := range []int{-1, 0, 1, 2, 0x7f} {
			b := bytes.Repeat([]byte{0x80 + byte(r.Intn(128))}, n)
			if last >= 0 {
				b = append(b, byte(last))
			}
			h.rdVarint(b)
			h.rdVarint(append(b, 0x01))
		}
	}
	for i := 0; i < 300*tier; i++ {
		b := r.Bytes(r.Intn(13))
		if r.Bool() {
			for j := range b {
				b[j] |= 0x80
			}
			if len(b) > 0 && r.Bool() {
				b[len(b)-1] &= 0x7f
			}
		}
		h.rdVarint(b)
	}
}

func (h *H) rdVarint(b []byte) {
	in := lib.L(lib.N(5), lib.N(0), lib.B(b))
	h.primCase("varint-r", in, func() lib.T {
		rd := messages.NewReader(b)
		z, err := rd.ReadVarint()
		if err != nil {
			return lib.Err(errCode(err))
		}
		return lib.Ok(lib.L(lib.Z(z), lib.NI(rd.Pos())))
	})
	in = lib.L(lib.N(5), lib.N(1), lib.B(b))
	h.primCase("uvarint-r", in, func() lib.T {
		rd := messages.NewReader(b)
		u, err := rd.ReadUvarint()
		if err != nil {
			return lib.Err(errCode(err))
		}
		return lib.Ok(lib.L(lib.N(u), lib.NI(rd.Pos())))
	})
}

func (h *H) lengthPrefixed(tier int) {
	r := h.g.r
	lens := []int{0, 1, 2, 254, 255, 256, 257, 65535, 65536, 65537}
	for i := 0; i < 10*tier; i++ {
		lens = append(lens, r.Intn(600))
	}
	for _, n := range lens {
		b := r.Bytes(n)
		in := lib.L(lib.N(4), lib.N(2), lib.B(b))
		out := h.primCase("short-w", in, func() lib.T { return resBytes(messages.NewWriter().WriteShortString(string(b))) })
		_ = out
		if n <= 255 {
			w := messages.NewWriter().WriteShortString(string(b))
			rd := messages.NewReader(append(append([]byte(nil), w.Bytes()...), 9))
			s, err := rd.ReadShortString()
			if err != nil || s != string(b) || rd.Pos() != w.Len() {
				h.s.Monitor("roundtrip-prim", in, "ReadShortString(WriteShortString(s)) != s")
			}
		}
		for _, size := range []int64{-1, 0, 1, 2, 3, 4, 5, 8} {
			in := lib.L(lib.N(4), lib.N(3), lib.Z(size), lib.B(b))
			var enc []byte
			var werr error
			h.primCase("lpk-w", in, func() lib.T {
				w := messages.NewWriter().WriteBytesWithLength(b, int(size))
				enc, werr = append([]byte(nil), w.Bytes()...), w.Err()
				return resBytes(w)
			})
			if werr == nil {
				data := append(append([]byte(nil), enc...), 7, 7)
				rin := lib.L(lib.N(5), lib.N(3), lib.Z(size), lib.B(data))
				h.primCase("lpk-r", rin, func() lib.T {
					rd := messages.NewReader(data)
					got, err := rd.ReadBytesWithLength(int(size))
					if err != nil {
						h.s.Monitor("roundtrip-prim", in, "ReadBytesWithLength failed on the writer's bytes: "+err.Error())
						return lib.Err(errCode(err))
					}
					if !bytes.Equal(got, b) || rd.Pos() != len(enc) {
						h.s.Monitor("roundtrip-prim", in, "ReadBytesWithLength(WriteBytesWithLength(b)) != b")
					}
					return lib.Ok(lib.L(lib.B(got), lib.NI(rd.Pos())))
				})
			}
		}
	}
	// the reader on arbitrary input, every size argument
	for i := 0; i < 150*tier; i++ {
		data := r.Bytes(r.Intn(12))
		if r.Bool() && len(data) >= 4 { // small plausible length
			data[0], data[1], data[2] = 0, 0, 0
			data[3] = byte(r.Intn(12))
		}
		for _, size := range []int64{-3, 0, 1, 2, 3, 4, 7} {
			in := lib.L(lib.N(5), lib.N(3), lib.Z(size), lib.B(data))
			h.primCase("lpk-r", in, func() lib.T {
				rd := messages.NewReader(data)
				got, err := rd.ReadBytesWithLength(int(size))
				if err != nil {
					return lib.Err(errCode(err))
				}
				return lib.Ok(lib.L(lib.B(got), lib.NI(rd.Pos())))
			})
		}
		in := lib.L(lib.N(5), lib.N(2), lib.B(data))
		h.primCase("short-r", in, func() lib.T {
			rd := messages.NewReader(data)
			got, err := rd.ReadShortString()
			if err != nil {
				return lib.Err(errCode(err))
			}
			return lib.Ok(lib.L(lib.S(got), lib.NI(rd.Pos())))
		})
	}
}

// the twelve WriteXxx / ReadXxx methods called directly (not through Write/Read)
func (h *H) directPrims(tier int) {
	for b := 0; b < 12; b++ {
		vals := basicExtremes(b)
		for i := 0; i < 30*tier; i++ {
			vals = append(vals, h.g.basicVal(b))
		}
		for _, v := range vals {
			x := newVar(TB(b), v)
			w := messages.NewWriter()
			switch b {
			case BU8:
				w.WriteUint8(uint8(x.Uint()))
			case BI8:
				w.WriteInt8(int8(x.Int()))
			case BU16:
				w.WriteUint16(uint16(x.Uint()))
			case BI16:
				w.WriteInt16(int16(x.Int()))
			case BU32:
				w.WriteUint32(uint32(x.Uint()))
			case BI32:
				w.WriteInt32(int32(x.Int()))
			case BU64:
				w.WriteUint64(x.Uint())
			case BI64:
				w.WriteInt64(x.Int())
			case BF32:
				w.WriteFloat32(x.Interface().(float32))
			case BF64:
				w.WriteFloat64(x.Interface().(float64))
			case BBool:
				w.WriteBool(x.Bool())
			case BStr:
				w.WriteString(x.String())
			}
			enc := append([]byte(nil), w.Bytes()...)
			in := lib.L(lib.N(4), lib.N(4), lib.NI(b), v.Term())
			h.s.Case("prim-w", true, in, lib.Ok(lib.B(enc)))
			// all truncations + the full encoding with a suffix through the matching ReadXxx
			for k := 0; k <= len(enc)+1; k++ {
				data := enc
				if k <= len(enc) {
					data = enc[:k]
				} else {
					data = append(append([]byte(nil), enc...), 0xee)
				}
				if len(enc) > 64 && k > 6 && k < len(enc) {
					continue
				}
				h.directRead(b, data, v, k >= len(enc), len(enc), in)
			}
		}
	}
}

func (h *H) directRead(b int, data []byte, want *Val, full bool, encLen int, win lib.T) {
	in := lib.L(lib.N(5), lib.N(4), lib.NI(b), lib.B(data))
	h.primCase("prim-r", in, func() lib.T {
		rd := messages.NewReader(data)
		y := reflect.New(basicRT[b]).Elem()
		var err error
		switch b {
		case BU8:
			var v uint8
			v, err = rd.ReadUint8()
			y.SetUint(uint64(v))
		case BI8:
			var v int8
			v, err = rd.ReadInt8()
			y.SetInt(int64(v))
		case BU16:
			var v uint16
			v, err = rd.ReadUint16()
			y.SetUint(uint64(v))
		case BI16:
			var v int16
			v, err = rd.ReadInt16()
			y.SetInt(int64(v))
		case BU32:
			var v uint32
			v, err = rd.ReadUint32()
			y.SetUint(uint64(v))
		case BI32:
			var v int32
			v, err = rd.ReadInt32()
			y.SetInt(int64(v))
		case BU64:
			var v uint64
			v, err = rd.ReadUint64()
			y.SetUint(v)
		case BI64:
			var v int64
			v, err = rd.ReadInt64()
			y.SetInt(v)
		case BF32:
			var v float32
			v, err = rd.ReadFloat32()
			y.Set(reflect.ValueOf(v))
		case BF64:
			var v float64
			v, err = rd.ReadFloat64()
			y.Set(reflect.ValueOf(v))
		case BBool:
			var v bool
			v, err = rd.ReadBool()
			y.SetBool(v)
		case BStr:
			var v string
			v, err = rd.ReadString()
			y.SetString(v)
		}
		if err != nil {
			if full {
				h.s.Monitor("roundtrip-prim", win, "ReadXxx failed on WriteXxx's bytes: "+err.Error())
			}
			return lib.Err(errCode(err))
		}
		got := observe(TB(b), y)
		if full && (!same(got, want) || rd.Pos() != encLen) {
			h.s.Monitor("roundtrip-prim", win, "ReadXxx(WriteXxx(v)) = "+lib.Show(got.Term()))
		}
		return lib.Ok(lib.L(got.Term(), lib.NI(rd.Pos())))
	})
}

// small exhaustive domain: every basic type with every extreme value under every small type former
func (h *H) exhaustiveSmall() {
	for b := 0; b < 12; b++ {
		for _, v := range basicExtremes(b) {
			if b == BStr && len(v.S) > 300 {
				h.roundTrip("rt-basic", TB(b), v)
				continue
			}
			h.roundTrip("rt-basic", TB(b), v)
			h.roundTrip("rt-slice", TSl(false, TB(b)), &Val{K: VList, L: []*Val{v, v}})
			h.roundTrip("rt-array", TArr(2, TB(b)), &Val{K: VList, L: []*Val{v, v}})
			h.roundTrip("rt-struct", TSt(Un(TB(b)), Ex(TB(b)), Un(TP(TB(b)))), &Val{K: VStruct, L: []*Val{v, v, {K: VNil}}})
			h.roundTrip("rt-nested", TSl(false, TSt(Ex(TArr(1, TB(b))))), &Val{K: VList, L: []*Val{{K: VStruct, L: []*Val{{K: VList, L: []*Val{v}}}}}})
			// Write(&x) writes what Write(x) writes
			e1, ok1 := h.write("w-ptr", TP(TB(b)), &Val{K: VPtr, P: v}, true)
			w := messages.NewWriter()
			w.Write(newVar(TB(b), v).Interface())
			if !ok1 || !bytes.Equal(e1, w.Bytes()) {
				h.s.Monitor("roundtrip", lib.L(lib.N(0), TP(TB(b)).Term(), v.Term()), "Write(&x) differs from Write(x)")
			}
		}
		h.roundTrip("rt-slice", TSl(false, TB(b)), &Val{K: VNil})
		h.roundTrip("rt-slice", TSl(false, TB(b)), &Val{K: VList, L: []*Val{}})
		h.roundTrip("rt-array", TArr(0, TB(b)), &Val{K: VList, L: []*Val{}})
	}
	for _, eb := range namedSliceElems {
		t := TSl(true, TB(eb))
		h.roundTrip("rt-namedslice", t, &Val{K: VNil})
		h.roundTrip("rt-namedslice", t, &Val{K: VList, L: []*Val{basicExtremes(eb)[1], basicExtremes(eb)[0]}})
	}
	// *[]byte: nil pointer is written as length 0
	bt := TSl(false, TB(BU8))
	h.write("w-ptr", TP(bt), &Val{K: VNil}, true)
	h.write("w-ptr", TP(bt), &Val{K: VPtr, P: &Val{K: VNil}}, true)
	h.write("w-ptr", TP(bt), &Val{K: VPtr, P: &Val{K: VList, L: []*Val{{K: VN, N: 1}, {K: VN, N: 255}}}}, true)
	// zero-size elements
	e := TSt()
	h.roundTrip("rt-wire0", e, &Val{K: VStruct, L: []*Val{}})
	h.roundTrip("rt-wire0", TSl(false, e), &Val{K: VList, L: []*Val{{K: VStruct, L: []*Val{}}, {K: VStruct, L: []*Val{}}, {K: VStruct, L: []*Val{}}}})
	h.roundTrip("rt-wire0", TArr(3, TSt(Un(TB(BI64)))), &Val{K: VList, L: []*Val{{K: VStruct, L: []*Val{{K: VZ, Z: 5}}}, {K: VStruct, L: []*Val{{K: VZ, Z: 6}}}, {K: VStruct, L: []*Val{{K: VZ, Z: 7}}}}})
}

func (h *H) lists(n int) {
	r := h.g.r
	for i := 0; i < n; i++ {
		k := r.Intn(5)
		tys := make([]*Ty, k)
		vals := make([]*Val, k)
		olds := make([]*Val, k)
		pairs := make([]lib.T, k)
		args := make([]any, k)
		for j := range tys {
			tys[j] = h.g.ty(2, false)
			vals[j] = h.g.val(tys[j], true)
			olds[j] = h.g.val(tys[j], true)
			pairs[j] = lib.L(tys[j].Term(), vals[j].Term())
			args[j] = arg(tys[j], newVar(tys[j], vals[j]))
		}
		in := lib.L(lib.N(2), lib.LS(pairs))
		w := messages.NewWriter()
		var werr error
		if p := protect(func() { werr = w.WriteFrom(args...) }); p != nil {
			h.s.Monitor("panic:writefrom", in, fmt.Sprint(p))
			continue
		}
		if werr != nil {
			h.s.Case("writefrom-err", true, in, lib.Err(errCode(werr)))
			h.s.Monitor("roundtrip-list", in, "WriteFrom failed on supported values: "+werr.Error())
			continue
		}
		enc := append([]byte(nil), w.Bytes()...)
		h.s.Case("writefrom", k > 0, in, lib.Ok(lib.B(enc)))
		// ReadInto: the full encoding (+suffix), and a truncation (partial assignment of the variables)
		for _, cut := range []int{len(enc) + 2, r.Intn(len(enc) + 1)} {
			data := append(append([]byte(nil), enc...), 1, 2)
			if cut <= len(enc) {
				data = enc[:cut]
			}
			guard := true
			for j := range tys {
				guard = guard && guardOK(tys[j], vals[j])
			}
			h.readInto("readinto", tys, olds, data, vals, guard && cut > len(enc), len(enc))
		}
	}
}

// readInto runs ReadInto over variables holding olds; want != nil && full: round-trip monitor
func (h *H) readInto(kind string, tys []*Ty, olds []*Val, data []byte, want []*Val, full bool, encLen int) {
	k := len(tys)
	vars := make([]reflect.Value, k)
	ptrs := make([]any, k)
	pairs := make([]lib.T, k)
	for j := range tys {
		vars[j] = newVar(tys[j], olds[j])
		ptrs[j] = vars[j].Addr().Interface()
		pairs[j] = lib.L(tys[j].Term(), olds[j].Term())
	}
	in := lib.L(lib.N(3), lib.LS(pairs), lib.B(data))
	rd := messages.NewReader(data)
	var err error
	if p := protect(func() { err = rd.ReadInto(ptrs...) }); p != nil {
		h.s.Monitor("panic:readinto", in, fmt.Sprint(p))
		return
	}
	after := make([]lib.T, k)
	got := make([]*Val, k)
	for j := range tys {
		got[j] = observe(tys[j], vars[j])
		after[j] = got[j].Term()
	}
	var out lib.T
	if err != nil {
		out = lib.Err(errCode(err))
	} else {
		out = lib.Ok(lib.NI(rd.Pos()))
	}
	h.s.Case(kind, k > 0, in, lib.L(lib.LS(after), out))
	if full && want != nil {
		if err != nil {
			h.s.Monitor("roundtrip-list", in, "ReadInto failed on WriteFrom's bytes: "+err.Error())
			return
		}
		if rd.Pos() != encLen {
			h.s.Monitor("roundtrip-consumed", in, fmt.Sprintf("WriteFrom produced %d bytes, ReadInto consumed %d", encLen, rd.Pos()))
		}
		for j := range tys {
			if !same(got[j], norm(tys[j], want[j])) {
				h.s.Monitor("roundtrip-list", in, fmt.Sprintf("variable %d decoded %s want %s", j, lib.Show(got[j].Term()), lib.Show(norm(tys[j], want[j]).Term())))
			}
		}
	}
}

func (h *H) modeRT(tier int) {
	h.directPrims(tier)
	h.varints(tier)
	h.lengthPrefixed(tier)
	h.exhaustiveSmall()
	for i := 0; i < 1500*tier; i++ {
		t := h.g.ty(3, false)
		h.roundTrip("rt-random", t, h.g.val(t, true))
	}
	h.lists(300 * tier)
}

// ---------------------------------------------------------------- mode total (C13)

func (h *H) encodeAll(tier int) {
	// every kind at top level, nil and non-nil
	for b := 0; b < 12; b++ {
		v := basicExtremes(b)[1]
		h.write("enc-ptr", TP(TB(b)), &Val{K: VNil}, true) // Write((*T)(nil))
		h.write("enc-ptr", TP(TP(TB(b))), &Val{K: VPtr, P: &Val{K: VPtr, P: v}}, true)
		h.write("enc-ptr", TP(TP(TB(b))), &Val{K: VPtr, P: &Val{K: VNil}}, true)
		h.write("enc-ptr", TP(TP(TB(b))), &Val{K: VNil}, true)
		h.write("enc-named", TNamedB(b), v, true)
		h.write("enc-named", TP(TNamedB(b)), &Val{K: VNil}, true)
		h.write("enc-named", TSl(false, TNamedB(b)), &Val{K: VList, L: []*Val{v}}, true)
		h.write("enc-field", TSt(Ex(TP(TB(b)))), &Val{K: VStruct, L: []*Val{{K: VNil}}}, true) // nil field
		h.write("enc-field", TSt(Ex(TP(TB(b)))), &Val{K: VStruct, L: []*Val{{K: VPtr, P: v}}}, true)
		h.write("enc-field", TSt(Un(TP(TB(b)))), &Val{K: VStruct, L: []*Val{{K: VNil}}}, true)
		h.write("enc-iface", TSt(Ex(TK(KIface))), &Val{K: VStruct, L: []*Val{{K: VIface, T: TB(b), P: v}}}, true)
		h.write("enc-iface", TP(TK(KIface)), &Val{K: VPtr, P: &Val{K: VIface, T: TB(b), P: v}}, true)
		h.write("enc-iface", TP(TK(KIface)), &Val{K: VPtr, P: &Val{K: VIface, T: TNamedB(b), P: v}}, true)
		h.write("enc-iface", TP(TK(KIface)), &Val{K: VPtr, P: &Val{K: VIface, T: TP(TB(b)), P: &Val{K: VPtr, P: v}}}, true)
	}
	h.write("enc-nil", TK(KIface), &Val{K: VNil}, true) // Write(nil)
	h.write("enc-iface", TP(TK(KIface)), &Val{K: VPtr, P: &Val{K: VNil}}, true)
	h.write("enc-iface", TSt(Ex(TK(KIface))), &Val{K: VStruct, L: []*Val{{K: VNil}}}, true)
	for _, k := range []int{KInt, KUint} {
		h.write("enc-int", TK(k), h.g.val(TK(k), false), true)
		h.write("enc-int", TP(TK(k)), &Val{K: VPtr, P: h.g.val(TK(k), false)}, true)
		h.write("enc-int", TSl(false, TK(k)), &Val{K: VList, L: []*Val{h.g.val(TK(k), false)}}, true)
		h.write("enc-int", TSl(false, TK(k)), &Val{K: VList, L: []*Val{}}, true)
	}
	for _, k := range []int{KMap, KChan, KFunc} {
		h.write("enc-kind", TK(k), &Val{K: VNil}, true)
		h.write("enc-kind", TK(k), &Val{K: VOpaque}, true)
		h.write("enc-kind", TSt(Ex(TB(BU8)), Ex(TK(k))), &Val{K: VStruct, L: []*Val{{K: VN, N: 1}, {K: VOpaque}}}, true)
	}
	// deep nesting: pointer chains and nested structs/slices (the recursion depth is the depth of the value)
	for _, d := range []int{10, 100, 400} {
		t, v := TB(BI16), &Val{K: VZ, Z: -2}
		for i := 0; i < d; i++ {
			t, v = TP(t), &Val{K: VPtr, P: v}
		}
		h.write("enc-deep", t, v, true)
		t, v = TB(BI16), &Val{K: VZ, Z: -2}
		for i := 0; i < d; i++ {
			if i%2 == 0 {
				t, v = TSt(Ex(t)), &Val{K: VStruct, L: []*Val{v}}
			} else {
				t, v = TSl(false, t), &Val{K: VList, L: []*Val{v}}
			}
		}
		h.write("enc-deep", t, v, true)
	}
	for i := 0; i < 1500*tier; i++ {
		t := h.g.ty(3, true)
		if t.K == KIface {
			continue
		}
		h.write("enc-random", t, h.g.val(t, true), true)
	}
	// WriteFrom with arbitrary values: stops at the first error
	for i := 0; i < 200*tier; i++ {
		k := 1 + h.g.r.Intn(4)
		pairs := make([]lib.T, k)
		args := make([]any, k)
		for j := 0; j < k; j++ {
			t := h.g.ty(2, h.g.r.Chance(1, 3))
			for t.K == KIface {
				t = h.g.ty(2, true)
			}
			v := h.g.val(t, true)
			pairs[j] = lib.L(t.Term(), v.Term())
			args[j] = arg(t, newVar(t, v))
		}
		in := lib.L(lib.N(2), lib.LS(pairs))
		w := messages.NewWriter()
		var werr error
		if p := protect(func() { werr = w.WriteFrom(args...) }); p != nil {
			h.s.Case("writefrom-panic", true, in, lib.L(lib.N(2), lib.N(panicCode(p))))
			h.s.Monitor("panic:writefrom", in, fmt.Sprint(p))
		} else if werr != nil {
			h.s.Case("writefrom-err", true, in, lib.Err(errCode(werr)))
		} else {
			h.s.Case("writefrom", true, in, lib.Ok(lib.B(w.Bytes())))
		}
	}
}

// Read called with something that is not a non-nil pointer to a variable
func (h *H) readCalls() {
	data := []byte{0, 0, 0, 1, 65, 0, 0, 0}
	for b := 0; b < 12; b++ {
		for _, d := range [][]byte{data, {}} {
			in := lib.L(lib.N(6), lib.N(0), TB(b).Term(), lib.B(d))
			nilptr := reflect.Zero(reflect.PointerTo(basicRT[b])).Interface()
			h.readCall(in, nilptr, d)
		}
	}
	for _, t := range []*Ty{TSl(false, TB(BU8)), TSl(false, TB(BI32)), TSt(Ex(TB(BU8))), TArr(1, TB(BU8)), TNamedB(BU8), TK(KInt)} {
		in := lib.L(lib.N(6), lib.N(0), t.Term(), lib.B(data))
		h.readCall(in, reflect.Zero(reflect.PointerTo(t.RType())).Interface(), data)
	}
	in := lib.L(lib.N(6), lib.N(1), lib.B(data))
	h.readCall(in, int8(3), data)
	h.readCall(in, nil, data)
	h.readCall(in, struct{ A int8 }{1}, data)
	// ReadBytes / Skip with a caller-supplied count (differential only: the count is not wire data)
	for _, n := range []int64{-5, -1, 0, 1, 8, 9} {
		in := lib.L(lib.N(5), lib.N(5), lib.Z(n), lib.B(data))
		var out lib.T
		p := protect(func() {
			rd := messages.NewReader(data)
			got, err := rd.ReadBytes(int(n))
			if err != nil {
				out = lib.Err(errCode(err))
			} else {
				out = lib.Ok(lib.L(lib.B(got), lib.NI(rd.Pos())))
			}
		})
		if p != nil {
			out = lib.L(lib.N(2), lib.N(panicCode(p)))
		}
		h.s.Case("readbytes", true, in, out)
	}
}

func (h *H) readCall(in lib.T, target any, data []byte) {
	rd := messages.NewReader(data)
	var err error
	p := protect(func() { err = rd.Read(target) })
	switch {
	case p != nil:
		h.s.Case("readcall-panic", true, in, lib.L(lib.N(2), lib.N(panicCode(p))))
		h.s.Monitor("panic:read-nil-target", in, fmt.Sprintf("Reader.Read(%T(nil)) panicked: %v", target, p))
	case err != nil:
		h.s.Case("readcall", true, in, lib.Err(errCode(err)))
	default:
		h.s.Case("readcall", true, in, lib.Ok(lib.L(lib.L(lib.N(4)), lib.NI(rd.Pos()))))
	}
}

// ---- the hostile decode stream (runs in the child) ----

type hostile struct {
	h            *H
	block, idx   int
	fromB, fromI int
}

// one decode of data into a variable of type t holding a random old value
func (c *hostile) decode(kind string, t *Ty, data []byte, old *Val, emitCase bool) {
	i := c.idx
	c.idx++
	if c.block < c.fromB || (c.block == c.fromB && i < c.fromI) {
		return
	}
	in := lib.L(lib.N(1), t.Term(), lib.B(data))
	c.h.s.Journal(c.block, i, in)
	res := read(t, data, old)
	out := readOut(t, &res)
	if res.pan != nil {
		c.h.s.Monitor("panic:read", in, fmt.Sprint(res.pan))
	}
	limit := uint64(64*len(data)) + 65536 + 8*uint64(t.RType().Size())
	if res.alloc > limit {
		c.h.s.Monitor("alloc", in, fmt.Sprintf("Read of %d input bytes into %s allocated %d bytes (monitor limit %d)", len(data), t.RType(), res.alloc, limit))
	}
	if slowLimit := int64(200e6) + int64(50e3)*int64(len(data)); res.nanos > slowLimit {
		// confirm (the machine may be busy): the fastest of three more runs must still be over the limit
		best := res.nanos
		for k := 0; k < 3; k++ {
			if r2 := read(t, data, old); r2.nanos < best {
				best = r2.nanos
			}
		}
		if best > slowLimit {
			c.h.s.Monitor("slow", in, fmt.Sprintf("Read of %d input bytes into %s took %d ms", len(data), t.RType(), best/1e6))
		}
	}
	if res.err != nil || res.pan != nil {
		if after := observe(t, res.target); !same(after, old) {
			c.h.s.Monitor("clobber", in, "failed Read changed its target: "+lib.Show(old.Term())+" -> "+lib.Show(after.Term()))
		}
	}
	if emitCase {
		c.h.s.Case(kind, true, in, out)
	}
}

func (c *hostile) malformedBlock(seed uint64, tier int) {
	g := &Gen{r: lib.NewRand(seed*1000003 + uint64(c.block) + 77)}
	r := g.r
	var t *Ty
	for {
		t = g.ty(3, false)
		if t.K != KBasic {
			break
		}
	}
	v := g.val(t, true)
	old := g.val(t, true)
	w := messages.NewWriter()
	w.Write(newVar(t, v).Interface())
	if w.Err() != nil {
		return
	}
	enc := append([]byte(nil), w.Bytes()...)
	if len(enc) > 400 {
		enc = enc[:400] // still a prefix of a valid encoding: the interesting part is the structure at the front
	}
	// every truncation
	for k := 0; k <= len(enc); k++ {
		c.decode("mal-trunc", t, enc[:k], old, true)
	}
	// single-byte corruptions at every position
	for p := 0; p < len(enc); p++ {
		for _, nb := range []byte{0xff, enc[p] ^ 0x01, enc[p] ^ 0x80, byte(r.U64())} {
			if nb == enc[p] {
				continue
			}
			d := append([]byte(nil), enc...)
			d[p] = nb
			c.decode("mal-corrupt", t, d, old, true)
		}
	}
	// length-targeted: every 4-byte window overwritten with a hostile length
	for p := 0; p+4 <= len(enc) && p < 64; p++ {
		for _, l := range []uint32{0xffffffff, 0x00ffffff, uint32(len(enc)), uint32(len(enc)) + 1} {
			d := append([]byte(nil), enc...)
			d[p], d[p+1], d[p+2], d[p+3] = byte(l>>24), byte(l>>16), byte(l>>8), byte(l)
			c.decode("mal-length", t, d, old, true)
		}
	}
	// random strings into this type and into an arbitrary (possibly unsupported) type
	for k := 0; k < 6; k++ {
		d := r.Bytes(r.Intn(24))
		if r.Bool() && len(d) >= 4 {
			d[0], d[1], d[2], d[3] = 0, 0, 0, byte(r.Intn(6))
		}
		c.decode("mal-random", t, d, old, true)
		u := g.ty(3, true)
		c.decode("mal-anytype", u, d, g.val(u, true), true)
	}
}

// nestedBomb: outer length k, inner slice i announces as many elements as bytes remain after its own prefix
func nestedBomb(k int) []byte {
	b := []byte{byte(k >> 24), byte(k >> 16), byte(k >> 8), byte(k)}
	for i := 1; i <= k; i++ {
		l := 4 * (k - i)
		b = append(b, byte(l>>24), byte(l>>16), byte(l>>8), byte(l))
	}
	return b
}

// dedicated hostile inputs: a length prefix far beyond the input
func (c *hostile) dedicated() {
	ff := []byte{0xff, 0xff, 0xff, 0xff}
	e := TSt()
	cases := []struct {
		t    *Ty
		data []byte
		emit bool
	}{
		{TSl(false, TB(BU8)), ff, true},                                     // []byte: bounds-checked first
		{TB(BStr), ff, true},                                                // string: bounds-checked first
		{TSl(false, TB(BU64)), ff, true},                                    // MakeSlice(2^32-1 * 8 bytes)
		{TSl(true, TB(BU8)), ff, true},                                      // named []byte goes through MakeSlice
		{TSl(false, TB(BStr)), []byte{0x04, 0, 0, 0}, true},                 // 2^26 strings = 1 GiB
		{TSl(false, TSl(false, TB(BU64))), []byte{0, 0, 0, 1, 0x10, 0, 0, 0}, true},
		{TSt(Ex(TB(BU8)), Ex(TSl(false, TB(BI32)))), []byte{7, 0xff, 0xff, 0xff, 0xff}, true},
		{TSl(false, e), []byte{0, 0, 0, 3, 9, 9, 9}, true},                  // zero-size elements: 3 <= 3 remaining bytes
		{TSl(false, e), []byte{0, 0, 0, 3, 9, 9}, true},                     // 3 > 2 remaining bytes: rejected
		{TSl(false, e), ff, true},
		{TSt(Ex(TSl(false, TSt(Un(TB(BU64))))), Ex(TB(BU8))), []byte{0x40, 0, 0, 0}, true},
		// zero-size elements nested in a slice: every inner slice may announce as many elements as bytes remain;
		// the Reader's element budget (len(buf) slice elements in total) must stop this
		{TSl(false, TSl(false, e)), nestedBomb(100), true},
		{TSl(false, TSl(false, e)), nestedBomb(8000), true},                  // 32 KB of input
		{TSl(false, TSl(false, TSt(Un(TB(BU64))))), nestedBomb(20000), true}, // 80 KB of input, 8 bytes per element
		// within / just beyond the budget
		{TSl(false, TSl(false, e)), []byte{0, 0, 0, 2, 0, 0, 0, 3, 0, 0, 0, 3}, true},
		{TSl(false, TSl(false, e)), []byte{0, 0, 0, 2, 0, 0, 0, 3, 0, 0, 0, 3, 7, 7, 7}, true},
		{TSl(false, TSl(false, e)), []byte{0, 0, 0, 3, 0, 0, 0, 8, 0, 0, 0, 5, 0, 0, 0, 1, 9}, true},
		{TArr(3, TSl(false, e)), []byte{0, 0, 0, 3, 0, 0, 0, 8, 0, 0, 0, 4, 0, 0, 0, 0}, true},
		{TSt(Ex(TSl(false, e)), Ex(TSl(true, TB(BU8))), Ex(TSl(false, e))), []byte{0, 0, 0, 9, 0, 0, 0, 2, 1, 2, 0, 0, 0, 1, 5}, true},
	}
	for _, x := range cases {
		c.decode("hostile", x.t, x.data, zeroVal(x.t), x.emit)
	}
}

// ReadInto on truncated input: which variables are assigned
func (c *hostile) readIntoBlock(seed uint64) {
	g := &Gen{r: lib.NewRand(seed*7919 + uint64(c.block))}
	k := 2 + g.r.Intn(3)
	tys := make([]*Ty, k)
	vals := make([]*Val, k)
	olds := make([]*Val, k)
	args := make([]any, k)
	for j := range tys {
		tys[j] = g.ty(2, false)
		vals[j] = g.val(tys[j], true)
		olds[j] = g.val(tys[j], true)
		args[j] = arg(tys[j], newVar(tys[j], vals[j]))
	}
	w := messages.NewWriter()
	if err := w.WriteFrom(args...); err != nil {
		return
	}
	enc := append([]byte(nil), w.Bytes()...)
	if len(enc) > 200 {
		return
	}
	for cut := 0; cut <= len(enc); cut++ {
		i := c.idx
		c.idx++
		if c.block < c.fromB || (c.block == c.fromB && i < c.fromI) {
			continue
		}
		c.h.s.Journal(c.block, i, lib.L(lib.N(3), lib.B(enc[:cut])))
		c.h.readInto("mal-readinto", tys, olds, enc[:cut], nil, false, 0)
	}
}

func nBlocks(tier int) int { return 50 * tier }

// childMain: the hostile stream from (fromB, fromI) on
func childMain(seed uint64, tier, fromB, fromI int) {
	// 2 GiB of address space: a wire-supplied length that makes the runtime ask for more kills this process
	lim := syscall.Rlimit{Cur: 2 << 30, Max: 2 << 30}
	_ = syscall.Setrlimit(syscall.RLIMIT_AS, &lim)
	s := pipeSink{os.Stdout}
	c := &hostile{h: &H{s: s, g: &Gen{r: lib.NewRand(seed + 99)}}, fromB: fromB, fromI: fromI}
	nb := nBlocks(tier)
	for b := fromB; b < nb+1+nb/4; b++ {
		c.block, c.idx = b, 0
		switch {
		case b < nb:
			c.malformedBlock(seed, tier)
		case b == nb:
			c.dedicated()
		default:
			c.readIntoBlock(seed)
		}
	}
	fmt.Fprintf(os.Stdout, "D\n")
}

func tail(b []byte, n int) string {
	if len(b) > n {
		b = b[:n]
	}
	return string(b)
}

// runChildren drives child processes over the hostile stream; a dead or stalled child is a monitor hit
func runChildren(f lib.Flags, o *lib.Out, tier int, perCase time.Duration) {
	fromB, fromI := 0, 0
	restarts, noProgress := 0, 0
	for {
		cmd := exec.Command(os.Args[0], "-child", "-seed", fmt.Sprint(f.Seed), "-tier", f.Tier,
			"-fromblock", fmt.Sprint(fromB), "-fromidx", fmt.Sprint(fromI), "-out", os.DevNull, "-report", os.DevNull)
		var stderr bytes.Buffer
		cmd.Stderr = &stderr
		stdout, err := cmd.StdoutPipe()
		if err != nil {
			panic(err)
		}
		if err := cmd.Start(); err != nil {
			panic(err)
		}
		lines := make(chan string, 1024)
		go func() {
			sc := bufio.NewScanner(stdout)
			sc.Buffer(make([]byte, 1<<20), 1<<28)
			for sc.Scan() {
				lines <- sc.Text()
			}
			close(lines)
		}()
		done, timedOut := false, false
		curB, curI, curCase := fromB, fromI-1, ""
		timer := time.NewTimer(perCase)
	loop:
		for {
			select {
			case ln, ok := <-lines:
				if !ok {
					break loop
				}
				if !timer.Stop() {
					select {
					case <-timer.C:
					default:
					}
				}
				timer.Reset(perCase)
				p := strings.Split(ln, "\t")
				switch p[0] {
				case "J":
					curB, _ = strconv.Atoi(p[1])
					curI, _ = strconv.Atoi(p[2])
					curCase = p[3]
				case "C":
					in, e1 := parseTerm(p[3])
					out, e2 := parseTerm(p[4])
					if e1 == nil && e2 == nil {
						o.Case(p[1], p[2] == "1", in, out)
					}
				case "M":
					c, _ := parseTerm(p[2])
					o.Monitor(p[1], c, p[3])
				case "D":
					done = true
				}
			case <-timer.C:
				timedOut = true
				_ = cmd.Process.Kill()
				for range lines {
				}
				break loop
			}
		}
		_ = cmd.Wait()
		if done {
			break
		}
		restarts++
		c, _ := parseTerm(curCase)
		switch {
		case timedOut:
			o.Monitor("timeout", c, fmt.Sprintf("Read did not return within %v (child killed)", perCase))
		case strings.Contains(stderr.String(), "out of memory"), strings.Contains(stderr.String(), "cannot allocate"):
			o.Monitor("crash:oom", c, "child died (2 GiB address-space limit): "+clean(tail(stderr.Bytes(), 300)))
		default:
			o.Monitor("crash", c, "child died: "+clean(tail(stderr.Bytes(), 600)))
		}
		if curB == fromB && curI == fromI-1 { // died before announcing a case
			noProgress++
		} else {
			noProgress = 0
		}
		fromB, fromI = curB, curI+1
		if noProgress > 3 {
			o.Monitor("crash", nil, "child dies before its first case: "+clean(tail(stderr.Bytes(), 600)))
			break
		}
		if restarts > 5000 {
			o.Monitor("crash", nil, "more than 5000 child restarts: giving up")
			break
		}
	}
	o.Info["child_restarts"] = restarts
}

func main() {
	mode := flag.String("mode", "rt", "rt|total|buf|buf13")
	child := flag.Bool("child", false, "internal: run the hostile decode stream")
	fromB := flag.Int("fromblock", 0, "internal")
	fromI := flag.Int("fromidx", 0, "internal")
	f := lib.ParseFlags()
	tier := 1
	if f.Tier == "thorough" {
		tier = 20
	}
	if *child {
		childMain(f.Seed, tier, *fromB, *fromI)
		return
	}
	o := lib.NewOut(f.Out)
	h := &H{s: outSink{o}, g: &Gen{r: lib.NewRand(f.Seed)}}
	hb := &H{s: outSink{o}, g: &Gen{r: lib.NewRand(f.Seed + 0x5bf00)}} // the state-machine scenarios (buf.go) have their own stream
	o.Info["mode"] = *mode
	switch *mode {
	case "rt":
		h.modeRT(tier)
		hb.modeBuf(tier, false)
	case "buf":
		hb.modeBuf(tier, false)
	case "buf13":
		hb.modeBuf(tier, true)
	case "total":
		hb.modeBuf(tier, true)
		h.encodeAll(tier)
		h.readCalls()
		per := 15 * time.Second
		if tier > 1 {
			per = 30 * time.Second
		}
		runChildren(f, o, tier, per)
	}
	o.Close(f.Report)
	if len(o.Monitors) > 0 {
		os.Exit(3)
	}
}
